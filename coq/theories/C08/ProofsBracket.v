(* C08 — the F2Dot14 table against the exact table, at EVERY coordinate:
   rounding every record to the nearest F2Dot14 moves the value of the map by at
   most half a unit in the input and half a unit in the output. *)
From Coq Require Import List ZArith QArith Qround Qabs Qminmax Bool Lqa Lia Permutation Setoid Morphisms.
From FV.C08 Require Import Model ProofsPlm ProofsAxis ProofsMain ProofsQuant.
Import ListNotations.
Open Scope Q_scope.

Definition eps : Q := 1 # 32768.

Lemma q14_close : forall v, -1 <= v -> v <= 1 -> q14 v - eps <= v /\ v <= q14 v + eps.
Proof.
  intros v H1 H2. pose proof (q14_error v H1 H2) as E. apply Qabs_Qle_condition in E.
  unfold eps. destruct E as [E1 E2]. split; lra.
Qed.

(* ------------------------------------------------------------------ *)
(* the interpolation formula of avar_go                                 *)

Definition chord (a b c d z : Q) : Q := b + (z - a) * (d - b) / (c - a).

Lemma chord_slope : forall a b c d z, a < c -> chord a b c d z == b + (z - a) * ((d - b) / (c - a)).
Proof. intros. unfold chord. field. lra. Qed.

Lemma slope_nonneg : forall a b c d, a < c -> b <= d -> 0 <= (d - b) / (c - a).
Proof. intros. apply Qle_shift_div_l; lra. Qed.

Lemma chord_between : forall a b c d z, a < c -> b <= d -> a <= z -> z <= c -> b <= chord a b c d z /\ chord a b c d z <= d.
Proof.
  intros a b c d z H1 H2 H3 H4. rewrite (chord_slope a b c d z H1).
  pose proof (slope_nonneg a b c d H1 H2) as S.
  assert ((d - b) / (c - a) * (c - a) == d - b) as E by (field; lra).
  set (s := (d - b) / (c - a)) in *. split; nra.
Qed.

Lemma chord_mono : forall a b c d z z', a < c -> b <= d -> z <= z' -> chord a b c d z <= chord a b c d z'.
Proof.
  intros a b c d z z' H1 H2 H3. rewrite !(chord_slope a b c d _ H1).
  pose proof (slope_nonneg a b c d H1 H2) as S. set (s := (d - b) / (c - a)) in *. nra.
Qed.

Lemma chord_left : forall a b c d, a < c -> chord a b c d a == b.
Proof. intros. unfold chord. field. lra. Qed.
Lemma chord_right : forall a b c d, a < c -> chord a b c d c == d.
Proof. intros. unfold chord. field. lra. Qed.

Lemma chord_comp : forall a b c d z z', z == z' -> chord a b c d z == chord a b c d z'.
Proof. intros a b c d z z' E. unfold chord. rewrite E. reflexivity. Qed.

Lemma affine_le : forall al be p q x, p <= x -> x <= q -> al * p + be <= 0 -> al * q + be <= 0 -> al * x + be <= 0.
Proof.
  intros al be p q x H1 H2 H3 H4. destruct (Qlt_le_dec p q) as [L|G].
  - assert (0 <= (- (al * p + be)) * (q - x)) as A by (apply Qmult_le_0_compat; lra).
    assert (0 <= (- (al * q + be)) * (x - p)) as B by (apply Qmult_le_0_compat; lra).
    assert ((al * x + be) * (q - p) <= 0) as C by lra.
    destruct (Qlt_le_dec 0 (al * x + be)) as [P|N]; [|exact N].
    assert (0 < (al * x + be) * (q - p)) by (apply Qmult_lt_0_compat; lra). lra.
  - assert (x == p) as E by lra. rewrite E. exact H3.
Qed.

(* ------------------------------------------------------------------ *)
(* range and monotonicity of the exact map                              *)

Lemma avar_go_range : forall l pf pt_ x,
  pf < x -> x <= lastq pf (map fst l) -> chain Qlt pf (map fst l) -> chain Qle pt_ (map snd l) ->
  pt_ <= avar_go pf pt_ l x /\ avar_go pf pt_ l x <= lastq pt_ (map snd l).
Proof.
  induction l as [|[f t] r IH]; intros pf pt_ x H1 H2 C D.
  - unfold lastq in H2. cbn in H2. lra.
  - cbn [map fst snd] in *. rewrite lastq_cons in *. destruct C as [C1 C2]. destruct D as [D1 D2].
    cbn [avar_go]. destruct (Qcompare_spec x f) as [E|L|G].
    + split; [exact D1|apply chain_le_last; exact D2].
    + fold (chord pf pt_ f t x). destruct (chord_between pf pt_ f t x C1 D1 ltac:(lra) ltac:(lra)) as [X Y].
      split; [exact X|]. apply Qle_trans with t; [exact Y|apply chain_le_last; exact D2].
    + destruct (IH f t x G H2 C2 D2) as [X Y]. split; [lra|exact Y].
Qed.

Lemma avar_go_mono : forall l pf pt_ x x',
  pf < x -> x <= x' -> x' <= lastq pf (map fst l) -> chain Qlt pf (map fst l) -> chain Qle pt_ (map snd l) ->
  avar_go pf pt_ l x <= avar_go pf pt_ l x'.
Proof.
  induction l as [|[f t] r IH]; intros pf pt_ x x' H1 H2 H3 C D.
  - unfold lastq in H3. cbn in H3. lra.
  - cbn [map fst snd] in *. rewrite lastq_cons in *. destruct C as [C1 C2]. destruct D as [D1 D2].
    cbn [avar_go]. destruct (Qcompare_spec x f) as [E|L|G]; destruct (Qcompare_spec x' f) as [E'|L'|G']; try lra.
    + destruct (avar_go_range r f t x' G' H3 C2 D2) as [X _]. exact X.
    + fold (chord pf pt_ f t x). destruct (chord_between pf pt_ f t x C1 D1 ltac:(lra) ltac:(lra)) as [_ Y]. exact Y.
    + fold (chord pf pt_ f t x) (chord pf pt_ f t x'). apply chord_mono; assumption.
    + fold (chord pf pt_ f t x). destruct (chord_between pf pt_ f t x C1 D1 ltac:(lra) ltac:(lra)) as [_ Y].
      destruct (avar_go_range r f t x' G' H3 C2 D2) as [X _]. lra.
    + apply IH; assumption.
Qed.

(* the exact map on a list that starts at (f0,t0) *)
Lemma avar_eval_mono : forall f0 t0 r x x',
  f0 <= x -> x <= x' -> x' <= lastq f0 (map fst r) -> chain Qlt f0 (map fst r) -> chain Qle t0 (map snd r) ->
  avar_eval ((f0, t0) :: r) x <= avar_eval ((f0, t0) :: r) x'.
Proof.
  intros f0 t0 r x x' H1 H2 H3 C D. cbn [avar_eval].
  destruct (Qcompare_spec x f0) as [E|L|G]; destruct (Qcompare_spec x' f0) as [E'|L'|G']; try lra.
  - destruct (avar_go_range r f0 t0 x' G' H3 C D) as [X _]. exact X.
  - apply avar_go_mono; assumption.
Qed.

(* ------------------------------------------------------------------ *)
(* an abstract exact map f that is piecewise the chord of the records    *)

Fixpoint chordal (f : Q -> Q) (p : pt) (l : list pt) : Prop :=
  match l with
  | [] => True
  | n :: r => fst p < fst n /\ snd p <= snd n /\ f (fst n) == snd n
              /\ (forall z, fst p <= z -> z <= fst n -> f z == chord (fst p) (snd p) (fst n) (snd n) z)
              /\ chordal f n r
  end.

Section Bracket.
  Variables (f : Q -> Q) (lo hi : Q).
  Hypothesis fcomp : forall z z', z == z' -> f z == f z'.
  Hypothesis fmono : forall z z', lo <= z -> z <= z' -> z' <= hi -> f z <= f z'.

  (* upper side *)
  Lemma bracket_go_upper : forall l p x,
    chordal f p l -> f (fst p) == snd p ->
    Forall in_unit (p :: l) -> lo <= fst p -> lastq (fst p) (map fst l) <= hi ->
    q14 (fst p) < x -> x <= q14 (lastq (fst p) (map fst l)) ->
    avar_go (q14 (fst p)) (q14 (snd p)) (map qpt l) x <= f (Qmin hi (x + eps)) + eps.
  Proof.
    induction l as [|n r IH]; intros p x Ch Fp U L1 L2 X1 X2.
    - unfold lastq in X2. cbn in X2. lra.
    - destruct Ch as (C1 & C2 & Fn & Chd & Ch'). cbn [map] in *. rewrite lastq_cons in *.
      inversion U as [|? ? Up U']; subst. inversion U' as [|? ? Un U'']; subst.
      destruct Up as (Pa & Pb & Pc & Pd). destruct Un as (Na & Nb & Nc & Nd).
      destruct (q14_close (fst p) Pa Pb) as [Ea1 Ea2]. destruct (q14_close (snd p) Pc Pd) as [Eb1 Eb2].
      destruct (q14_close (fst n) Na Nb) as [Ec1 Ec2]. destruct (q14_close (snd n) Nc Nd) as [Ed1 Ed2].
      assert (fst n <= lastq (fst n) (map fst r)) as NL.
      { apply chain_le_last. clear -Ch'. revert n Ch'. induction r as [|m r IHr]; intros n Ch'; [exact I|].
        destruct Ch' as (A1 & _ & _ & _ & A5). split; [apply Qlt_le_weak; exact A1|apply IHr; exact A5]. }
      unfold qpt at 1. cbn [fst snd avar_go].
      destruct (Qcompare_spec x (q14 (fst n))) as [E|L|G].
      + (* at the rounded record *)
        assert (fst n <= Qmin hi (x + eps)) as M by (apply Q.min_glb; lra).
        pose proof (fmono (fst n) (Qmin hi (x + eps)) ltac:(lra) M (Q.le_min_l _ _)) as F1.
        rewrite Fn in F1. lra.
      + (* strictly between two rounded records *)
        fold (chord (q14 (fst p)) (q14 (snd p)) (q14 (fst n)) (q14 (snd n)) x).
        assert (q14 (fst p) < q14 (fst n)) as QL by lra.
        assert (q14 (snd p) <= q14 (snd n)) as QD by (apply q14_mono; exact C2).
        destruct (chord_between _ _ _ _ x QL QD ltac:(lra) ltac:(lra)) as [K1 K2].
        destruct (Qlt_le_dec (Qmin hi (x + eps)) (fst n)) as [Z|Z].
        * (* x + eps is still left of the exact record: compare the two chords *)
          assert (x + eps < fst n) as Z'.
          { destruct (Q.min_spec hi (x + eps)) as [[A1 A2]|[A1 A2]]; rewrite A2 in Z; lra. }
          assert (Qmin hi (x + eps) == x + eps) as Zm.
          { apply Q.min_r. lra. }
          rewrite (fcomp _ _ Zm). rewrite (Chd (x + eps) ltac:(lra) ltac:(lra)).
          rewrite (chord_slope _ _ _ _ x QL). rewrite (chord_slope _ _ _ _ (x + eps) C1).
          pose proof (slope_nonneg _ _ _ _ QL QD) as S'. pose proof (slope_nonneg _ _ _ _ C1 C2) as S.
          assert ((q14 (snd n) - q14 (snd p)) / (q14 (fst n) - q14 (fst p)) * (q14 (fst n) - q14 (fst p)) == q14 (snd n) - q14 (snd p)) as Hs' by (field; lra).
          assert ((snd n - snd p) / (fst n - fst p) * (fst n - fst p) == snd n - snd p) as Hs by (field; lra).
          set (s' := (q14 (snd n) - q14 (snd p)) / (q14 (fst n) - q14 (fst p))) in *.
          set (s := (snd n - snd p) / (fst n - fst p)) in *.
          set (a := fst p) in *. set (b := snd p) in *. set (c := fst n) in *. set (d := snd n) in *.
          set (a' := q14 a) in *. set (b' := q14 b) in *. set (c' := q14 c) in *. set (d' := q14 d) in *.
          assert ((s' - s) * x + (b' - a' * s' - b - (eps - a) * s - eps) <= 0) as G.
          { apply affine_le with (p := a') (q := c - eps); try lra.
            - nra.
            - assert (b' + (c - eps - a') * s' <= d') by nra. nra. }
          nra.
        * (* x + eps has passed the exact record *)
          pose proof (fmono (fst n) (Qmin hi (x + eps)) ltac:(lra) Z (Q.le_min_l _ _)) as F1.
          rewrite Fn in F1. lra.
      + (* further right *)
        apply (IH n x Ch' Fn U' ltac:(lra) L2 G X2).
  Qed.

  (* lower side *)
  Lemma bracket_go_lower : forall l p x,
    chordal f p l -> f (fst p) == snd p ->
    Forall in_unit (p :: l) -> lo <= fst p -> lastq (fst p) (map fst l) <= hi ->
    q14 (fst p) < x -> x <= q14 (lastq (fst p) (map fst l)) ->
    f (Qmax lo (x - eps)) - eps <= avar_go (q14 (fst p)) (q14 (snd p)) (map qpt l) x.
  Proof.
    induction l as [|n r IH]; intros p x Ch Fp U L1 L2 X1 X2.
    - unfold lastq in X2. cbn in X2. lra.
    - destruct Ch as (C1 & C2 & Fn & Chd & Ch'). cbn [map] in *. rewrite lastq_cons in *.
      inversion U as [|? ? Up U']; subst. inversion U' as [|? ? Un U'']; subst.
      destruct Up as (Pa & Pb & Pc & Pd). destruct Un as (Na & Nb & Nc & Nd).
      destruct (q14_close (fst p) Pa Pb) as [Ea1 Ea2]. destruct (q14_close (snd p) Pc Pd) as [Eb1 Eb2].
      destruct (q14_close (fst n) Na Nb) as [Ec1 Ec2]. destruct (q14_close (snd n) Nc Nd) as [Ed1 Ed2].
      assert (fst n <= lastq (fst n) (map fst r)) as NL.
      { apply chain_le_last. clear -Ch'. revert n Ch'. induction r as [|m r IHr]; intros n Ch'; [exact I|].
        destruct Ch' as (A1 & _ & _ & _ & A5). split; [apply Qlt_le_weak; exact A1|apply IHr; exact A5]. }
      unfold qpt at 1. cbn [fst snd avar_go].
      destruct (Qcompare_spec x (q14 (fst n))) as [E|L|G].
      + assert (Qmax lo (x - eps) <= fst n) as M by (apply Q.max_lub; lra).
        pose proof (fmono (Qmax lo (x - eps)) (fst n) (Q.le_max_l _ _) M ltac:(lra)) as F1.
        rewrite Fn in F1. lra.
      + fold (chord (q14 (fst p)) (q14 (snd p)) (q14 (fst n)) (q14 (snd n)) x).
        assert (q14 (fst p) < q14 (fst n)) as QL by lra.
        assert (q14 (snd p) <= q14 (snd n)) as QD by (apply q14_mono; exact C2).
        destruct (chord_between _ _ _ _ x QL QD ltac:(lra) ltac:(lra)) as [K1 K2].
        destruct (Qlt_le_dec (fst p) (Qmax lo (x - eps))) as [Z|Z].
        * (* x - eps is right of the exact record p: compare the two chords *)
          assert (fst p < x - eps) as Z'.
          { destruct (Q.max_spec lo (x - eps)) as [[A1 A2]|[A1 A2]]; rewrite A2 in Z; lra. }
          assert (Qmax lo (x - eps) == x - eps) as Zm.
          { apply Q.max_r. lra. }
          rewrite (fcomp _ _ Zm). rewrite (Chd (x - eps) ltac:(lra) ltac:(lra)).
          rewrite (chord_slope _ _ _ _ x QL). rewrite (chord_slope _ _ _ _ (x - eps) C1).
          pose proof (slope_nonneg _ _ _ _ QL QD) as S'. pose proof (slope_nonneg _ _ _ _ C1 C2) as S.
          assert ((q14 (snd n) - q14 (snd p)) / (q14 (fst n) - q14 (fst p)) * (q14 (fst n) - q14 (fst p)) == q14 (snd n) - q14 (snd p)) as Hs' by (field; lra).
          assert ((snd n - snd p) / (fst n - fst p) * (fst n - fst p) == snd n - snd p) as Hs by (field; lra).
          set (s' := (q14 (snd n) - q14 (snd p)) / (q14 (fst n) - q14 (fst p))) in *.
          set (s := (snd n - snd p) / (fst n - fst p)) in *.
          set (a := fst p) in *. set (b := snd p) in *. set (c := fst n) in *. set (d := snd n) in *.
          set (a' := q14 a) in *. set (b' := q14 b) in *. set (c' := q14 c) in *. set (d' := q14 d) in *.
          (* exact chord at x - eps, minus eps, is below the rounded chord at x, on [a + eps, c'] *)
          assert ((s - s') * x + (b - (eps + a) * s - eps - b' + a' * s') <= 0) as G.
          { apply affine_le with (p := a + eps) (q := c'); try lra.
            - assert (b' <= b' + (a + eps - a') * s') by nra. nra.
            - assert (b + (c' - eps - a) * s <= d) by nra. nra. }
          nra.
        * (* x - eps is left of (or at) the exact record p *)
          pose proof (fmono (Qmax lo (x - eps)) (fst p) (Q.le_max_l _ _) Z ltac:(lra)) as F1.
          rewrite Fp in F1. lra.
      + apply (IH n x Ch' Fn U' ltac:(lra) L2 G X2).
  Qed.
End Bracket.

(* ------------------------------------------------------------------ *)
(* the exact map is chordal                                             *)

Lemma avar_go_skip : forall pre pf pt_ a b l z,
  chain Qlt pf (map fst (pre ++ [(a, b)])) -> a <= z -> pf < z ->
  (pre = [] -> True) ->
  avar_go pf pt_ (pre ++ (a, b) :: l) z ==
    match z ?= a with Eq => b | _ => avar_go a b l z end.
Proof.
  induction pre as [|[f t] pre IH]; intros pf pt_ a b l z C H1 H2 _.
  - cbn [app avar_go]. destruct (Qcompare_spec z a) as [E|L|G]; try reflexivity. lra.
  - cbn [app map fst] in C. destruct C as [C1 C2]. cbn [app avar_go].
    assert (f < a) as FA.
    { apply chain_lt_lower with (map fst (pre ++ [(a, b)])); [exact C2|]. rewrite map_app. apply in_or_app. right. left. reflexivity. }
    assert (f < z) as FZ by lra. rewrite (cmp_gt _ _ FZ). apply IH; try assumption. intros; exact I.
Qed.

Lemma chordal_suffix : forall l pre f0 t0 a b,
  chain Qlt f0 (map fst (pre ++ (a, b) :: l)) -> chain Qle t0 (map snd (pre ++ (a, b) :: l)) ->
  chordal (avar_eval ((f0, t0) :: pre ++ (a, b) :: l)) (a, b) l.
Proof.
  induction l as [|[c d] r IH]; intros pre f0 t0 a b C D; [exact I|].
  assert (chain Qlt f0 (map fst (pre ++ [(a, b)])) /\ a < c /\ b <= d) as (Cp & AC & BD).
  { clear IH. revert f0 t0 C D. induction pre as [|[f t] pre IHp]; intros f0 t0 C D.
    - cbn in *. destruct C as (C1 & C2 & C3). destruct D as (D1 & D2 & D3). repeat split; assumption.
    - cbn [app map fst snd] in *. destruct C as [C1 C2]. destruct D as [D1 D2].
      destruct (IHp f t C2 D2) as (X1 & X2 & X3). repeat split; assumption. }
  assert (f0 < a) as F0A.
  { apply chain_lt_lower with (map fst (pre ++ [(a, b)])); [exact Cp|]. rewrite map_app. apply in_or_app. right. left. reflexivity. }
  assert (forall z, a <= z -> avar_eval ((f0, t0) :: pre ++ (a, b) :: (c, d) :: r) z ==
            match z ?= a with Eq => b | _ => avar_go a b ((c, d) :: r) z end) as EV.
  { intros z Hz. cbn [avar_eval]. assert (f0 < z) as FZ by lra. rewrite (cmp_gt _ _ FZ).
    apply avar_go_skip; try assumption. intros; exact I. }
  cbn [chordal fst snd]. split; [exact AC|]. split; [exact BD|]. split; [|split].
  - rewrite (EV c ltac:(lra)). rewrite (cmp_gt _ _ AC). cbn [avar_go]. rewrite (cmp_eq c c (Qeq_refl c)). reflexivity.
  - intros z Z1 Z2. rewrite (EV z Z1). destruct (Qcompare_spec z a) as [E|L|G].
    + rewrite (chord_comp _ _ _ _ z a E). symmetry. apply chord_left. exact AC.
    + lra.
    + cbn [avar_go]. destruct (Qcompare_spec z c) as [E'|L'|G'].
      * rewrite (chord_comp _ _ _ _ z c E'). symmetry. apply chord_right. exact AC.
      * reflexivity.
      * lra.
  - replace (pre ++ (a, b) :: (c, d) :: r) with ((pre ++ [(a, b)]) ++ (c, d) :: r) by (rewrite <- app_assoc; reflexivity).
    apply IH; rewrite <- app_assoc; assumption.
Qed.

(* ------------------------------------------------------------------ *)
(* the theorem on lists                                                 *)

Theorem quantised_bracket : forall f0 t0 r,
  chain Qlt f0 (map fst r) -> chain Qle t0 (map snd r) -> Forall in_unit ((f0, t0) :: r) ->
  forall x, q14 f0 <= x -> x <= q14 (lastq f0 (map fst r)) ->
    let ex := avar_eval ((f0, t0) :: r) in
    let hi := lastq f0 (map fst r) in
    ex (Qmax f0 (x - eps)) - eps <= avar_eval (map qpt ((f0, t0) :: r)) x /\
    avar_eval (map qpt ((f0, t0) :: r)) x <= ex (Qmin hi (x + eps)) + eps.
Proof.
  intros f0 t0 r C D U x X1 X2 ex hi.
  assert (forall z z', z == z' -> ex z == ex z') as fcomp.
  { intros z z' E. unfold ex. apply avar_eval_comp; [exact E|apply Forall2_pteq_refl]. }
  assert (forall z z', f0 <= z -> z <= z' -> z' <= hi -> ex z <= ex z') as fmono.
  { intros z z' H1 H2 H3. unfold ex. apply avar_eval_mono; assumption. }
  assert (ex f0 == t0) as F0.
  { unfold ex. cbn [avar_eval]. rewrite (cmp_eq f0 f0 (Qeq_refl f0)). reflexivity. }
  assert (chordal ex (f0, t0) r) as Ch.
  { destruct r as [|[a b] r']; [exact I|].
    cbn [map fst snd] in C, D. destruct C as [C1 C2]. destruct D as [D1 D2].
    cbn [chordal fst snd]. split; [exact C1|]. split; [exact D1|].
    assert (forall z, f0 <= z -> z <= a -> ex z == chord f0 t0 a b z) as CH.
    { intros z Z1 Z2. unfold ex. cbn [avar_eval]. destruct (Qcompare_spec z f0) as [E|L|G].
      - rewrite (chord_comp _ _ _ _ z f0 E). symmetry. apply chord_left. exact C1.
      - lra.
      - cbn [avar_go]. destruct (Qcompare_spec z a) as [E'|L'|G'].
        + rewrite (chord_comp _ _ _ _ z a E'). symmetry. apply chord_right. exact C1.
        + reflexivity.
        + lra. }
    split; [|split].
    - rewrite (CH a ltac:(lra) ltac:(lra)). apply chord_right. exact C1.
    - exact CH.
    - apply (chordal_suffix r' [] f0 t0 a b); cbn [app map fst snd]; split; assumption. }
  inversion U as [|? ? U0 U']; subst. destruct U0 as (Ua & Ub & Uc & Ud). cbn [fst snd] in *.
  destruct (q14_close f0 Ua Ub) as [Ea1 Ea2]. destruct (q14_close t0 Uc Ud) as [Eb1 Eb2].
  pose proof (chain_le_last _ _ (chain_lt_le _ _ C)) as HL. fold hi in HL.
  cbn [map]. unfold qpt at 1 3. cbn [fst snd avar_eval].
  destruct (Qcompare_spec x (q14 f0)) as [E|L|G].
  - (* at the first rounded record *)
    split.
    + assert (Qmax f0 (x - eps) == f0) as M by (apply Q.max_l; lra). rewrite (fcomp _ _ M), F0. lra.
    + assert (f0 <= Qmin hi (x + eps)) as M by (apply Q.min_glb; lra).
      pose proof (fmono f0 (Qmin hi (x + eps)) (Qle_refl f0) M (Q.le_min_l _ _)) as F1. rewrite F0 in F1. lra.
  - lra.
  - split.
    + apply (bracket_go_lower ex f0 hi fcomp fmono r (f0, t0) x Ch F0 U (Qle_refl f0) (Qle_refl _) G X2).
    + apply (bracket_go_upper ex f0 hi fcomp fmono r (f0, t0) x Ch F0 U (Qle_refl f0) (Qle_refl _) G X2).
Qed.
