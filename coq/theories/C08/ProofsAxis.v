(* C08 — lemmas about the converter, default normalisation, the avar node list,
   and the main agreement theorem (ideal arithmetic). *)
From Coq Require Import List ZArith QArith Qround Qabs Qminmax Bool Lqa Lia Permutation Setoid Morphisms.
From FV.C08 Require Import Model ProofsPlm.
Import ListNotations.
Open Scope Q_scope.

Ltac cmp_all := repeat match goal with |- context [?a ?= ?b] => destruct (Qcompare_spec a b) end.
Ltac fin := try lra; try (unfold lerp; field; lra);
  try (match goal with H : ?x == _ |- _ => rewrite H; unfold lerp; field; lra end).
Ltac invpos d := assert (0 < / d) by (apply Qinv_lt_0_compat; lra).

(* ------------------------------------------------------------------ *)
(* normalisation of a value against (lo, mid, hi), without the clamp   *)

Definition sdn (lo mid hi v : Q) : Q :=
  match v ?= mid with
  | Lt => - ((mid - v) / (mid - lo))
  | Gt => (v - mid) / (hi - mid)
  | Eq => 0
  end.

Lemma clamp_id : forall lo hi v, lo <= v -> v <= hi -> Qmax lo (Qmin hi v) == v.
Proof.
  intros lo hi v H1 H2. rewrite (Q.min_r hi v H2). apply Q.max_r. exact H1.
Qed.

Lemma spec_sdn : forall lo mid hi v, lo <= v -> v <= hi -> spec_default_norm lo mid hi v == sdn lo mid hi v.
Proof.
  intros lo mid hi v H1 H2. unfold spec_default_norm, sdn.
  pose proof (clamp_id lo hi v H1 H2) as E.
  rewrite (Qcompare_comp _ _ E mid mid (Qeq_refl mid)).
  destruct (v ?= mid); [reflexivity| |]; rewrite E; reflexivity.
Qed.

Lemma sdn_comp : forall lo mid hi v v', v == v' -> sdn lo mid hi v == sdn lo mid hi v'.
Proof.
  intros lo mid hi v v' E. unfold sdn. rewrite (Qcompare_comp v v' E mid mid (Qeq_refl mid)).
  destruct (v' ?= mid); [reflexivity| |]; rewrite E; reflexivity.
Qed.

Lemma sdn_comp_all : forall lo lo' mid mid' hi hi' v v', lo == lo' -> mid == mid' -> hi == hi' -> v == v' ->
  sdn lo mid hi v == sdn lo' mid' hi' v'.
Proof.
  intros lo lo' mid mid' hi hi' v v' E1 E2 E3 E4. unfold sdn.
  rewrite (Qcompare_comp v v' E4 mid mid' E2).
  destruct (v' ?= mid'); [reflexivity| |]; rewrite ?E1, ?E2, ?E3, ?E4; reflexivity.
Qed.

Lemma norm3 : forall lo mid hi v, lo <= mid -> mid <= hi -> lo <= v -> v <= hi ->
  plm_map (plm_new (ex3 lo mid hi)) v == sdn lo mid hi v.
Proof.
  intros lo mid hi v H1 H2 H3 H4. unfold ex3, plm_new.
  destruct (Qltb lo mid) eqn:E1; destruct (Qltb mid hi) eqn:E2;
    try (apply Qltb_true in E1); try (apply Qltb_true in E2);
    try (apply Qltb_false in E1); try (apply Qltb_false in E2); cbn [app];
    (rewrite sort_id by (apply inc_from_locally_sorted; cbn; auto));
    unfold sdn; cbn [plm_map map_go]; cmp_all; fin.
Qed.

Lemma sdn_strict : forall lo mid hi x y, lo <= mid -> mid <= hi -> lo <= x -> x < y -> y <= hi ->
  sdn lo mid hi x < sdn lo mid hi y.
Proof.
  intros lo mid hi x y H1 H2 H3 H4 H5. unfold sdn. cmp_all; try lra.
  - invpos (hi - mid). unfold Qdiv. nra.
  - invpos (mid - lo). unfold Qdiv. nra.
  - invpos (mid - lo). unfold Qdiv. nra.
  - invpos (mid - lo). invpos (hi - mid). unfold Qdiv. nra.
  - invpos (hi - mid). unfold Qdiv. nra.
Qed.

Lemma sdn_mono : forall lo mid hi x y, lo <= mid -> mid <= hi -> lo <= x -> x <= y -> y <= hi ->
  sdn lo mid hi x <= sdn lo mid hi y.
Proof.
  intros lo mid hi x y H1 H2 H3 H4 H5. destruct (Qlt_le_dec x y) as [L|G].
  - apply Qlt_le_weak. apply sdn_strict; assumption.
  - assert (x == y) as E by lra. rewrite (sdn_comp lo mid hi x y E). apply Qle_refl.
Qed.

Lemma sdn_mid : forall lo mid hi v, v == mid -> sdn lo mid hi v == 0.
Proof. intros lo mid hi v E. unfold sdn. rewrite (cmp_eq _ _ E). reflexivity. Qed.

Lemma sdn_lo : forall lo mid hi v, lo < mid -> v == lo -> sdn lo mid hi v == -1.
Proof.
  intros lo mid hi v H E. unfold sdn. assert (v < mid) as L by lra. rewrite (cmp_lt _ _ L).
  rewrite E. field. lra.
Qed.

Lemma sdn_hi : forall lo mid hi v, mid < hi -> v == hi -> sdn lo mid hi v == 1.
Proof.
  intros lo mid hi v H E. unfold sdn. assert (mid < v) as L by lra. rewrite (cmp_gt _ _ L).
  rewrite E. field. lra.
Qed.

Lemma sdn_nonneg : forall lo mid hi v, mid <= v -> v <= hi -> 0 <= sdn lo mid hi v.
Proof.
  intros lo mid hi v H1 H2. unfold sdn. cmp_all; try lra. invpos (hi - mid). unfold Qdiv. nra.
Qed.

Lemma sdn_nonpos : forall lo mid hi v, lo <= v -> v <= mid -> sdn lo mid hi v <= 0.
Proof.
  intros lo mid hi v H1 H2. unfold sdn. cmp_all; try lra. invpos (mid - lo). unfold Qdiv. nra.
Qed.

Lemma sdn_range : forall lo mid hi v, lo <= mid -> mid <= hi -> lo <= v -> v <= hi ->
  -1 <= sdn lo mid hi v /\ sdn lo mid hi v <= 1.
Proof.
  intros lo mid hi v H1 H2 H3 H4. unfold sdn. cmp_all; try lra.
  - invpos (mid - lo). assert ((mid - v) / (mid - lo) <= 1) by (apply Qle_shift_div_r; lra).
    assert (0 <= (mid - v) / (mid - lo)) by (apply Qle_shift_div_l; lra). lra.
  - assert ((v - mid) / (hi - mid) <= 1) by (apply Qle_shift_div_r; lra).
    assert (0 <= (v - mid) / (hi - mid)) by (apply Qle_shift_div_l; lra). lra.
Qed.

(* sdn is the identity on the normalised ranges the code builds *)
Lemma sdn_unit : forall lo hi v, (lo == -1 \/ lo == 0) -> (hi == 1 \/ hi == 0) -> lo <= v -> v <= hi ->
  sdn lo 0 hi v == v.
Proof.
  intros lo hi v [E1|E1] [E2|E2] H1 H2; unfold sdn; cmp_all; try lra;
    try (rewrite E1); try (rewrite E2); field.
Qed.

(* affine pieces *)
Definition aff (F : Q -> Q) (p q : Q) : Prop := exists a b, forall x, p <= x -> x <= q -> F x == a * x + b.

Lemma sdn_aff_left : forall lo mid hi p q, lo <= p -> q <= mid -> aff (sdn lo mid hi) p q.
Proof.
  intros lo mid hi p q H1 H2. destruct (Qlt_le_dec lo mid) as [L|G].
  - exists (/ (mid - lo)), (- mid / (mid - lo)). intros x X1 X2. unfold sdn. cmp_all; fin.
  - exists 0, 0. intros x X1 X2. unfold sdn. cmp_all; lra.
Qed.

Lemma sdn_aff_right : forall lo mid hi p q, mid <= p -> q <= hi -> aff (sdn lo mid hi) p q.
Proof.
  intros lo mid hi p q H1 H2. destruct (Qlt_le_dec mid hi) as [L|G].
  - exists (/ (hi - mid)), (- mid / (hi - mid)). intros x X1 X2. unfold sdn. cmp_all; fin.
  - exists 0, 0. intros x X1 X2. unfold sdn. cmp_all; lra.
Qed.

(* ------------------------------------------------------------------ *)
(* list_min / list_max                                                  *)

Lemma Qmin_cases : forall x y, Qmin x y = x \/ Qmin x y = y.
Proof. intros x y. unfold Qmin, GenericMinMax.gmin. destruct (x ?= y); auto. Qed.
Lemma Qmax_cases : forall x y, Qmax x y = x \/ Qmax x y = y.
Proof. intros x y. unfold Qmax, GenericMinMax.gmax. destruct (x ?= y); auto. Qed.

Lemma list_min_in : forall l x, In (list_min x l) (x :: l).
Proof.
  induction l as [|a t IH]; intro x; unfold list_min; cbn [fold_left].
  - left. reflexivity.
  - destruct (IH (Qmin x a)) as [H|H]; unfold list_min in H.
    + rewrite <- H. destruct (Qmin_cases x a) as [E|E]; rewrite E; [left|right; left]; reflexivity.
    + right. right. exact H.
Qed.

Lemma list_max_in : forall l x, In (list_max x l) (x :: l).
Proof.
  induction l as [|a t IH]; intro x; unfold list_max; cbn [fold_left].
  - left. reflexivity.
  - destruct (IH (Qmax x a)) as [H|H]; unfold list_max in H.
    + rewrite <- H. destruct (Qmax_cases x a) as [E|E]; rewrite E; [left|right; left]; reflexivity.
    + right. right. exact H.
Qed.

Lemma list_min_le_acc : forall l x, list_min x l <= x.
Proof.
  induction l as [|a t IH]; intro x; unfold list_min; cbn [fold_left].
  - apply Qle_refl.
  - apply Qle_trans with (Qmin x a); [apply IH|apply Q.le_min_l].
Qed.

Lemma list_min_le : forall l x y, In y (x :: l) -> list_min x l <= y.
Proof.
  induction l as [|a t IH]; intros x y I.
  - destruct I as [I|[]]. subst. apply Qle_refl.
  - unfold list_min. cbn [fold_left]. destruct I as [I|[I|I]].
    + subst. apply Qle_trans with (Qmin y a); [apply list_min_le_acc|apply Q.le_min_l].
    + subst. apply Qle_trans with (Qmin x y); [apply list_min_le_acc|apply Q.le_min_r].
    + apply (IH (Qmin x a) y). right. exact I.
Qed.

Lemma list_max_ge_acc : forall l x, x <= list_max x l.
Proof.
  induction l as [|a t IH]; intro x; unfold list_max; cbn [fold_left].
  - apply Qle_refl.
  - apply Qle_trans with (Qmax x a); [apply Q.le_max_l|apply IH].
Qed.

Lemma list_max_ge : forall l x y, In y (x :: l) -> y <= list_max x l.
Proof.
  induction l as [|a t IH]; intros x y I.
  - destruct I as [I|[]]. subst. apply Qle_refl.
  - unfold list_max. cbn [fold_left]. destruct I as [I|[I|I]].
    + subst. apply Qle_trans with (Qmax y a); [apply Q.le_max_l|apply list_max_ge_acc].
    + subst. apply Qle_trans with (Qmax x y); [apply Q.le_max_r|apply list_max_ge_acc].
    + apply (IH (Qmax x a) y). right. exact I.
Qed.

(* ------------------------------------------------------------------ *)
(* CoordConverter::new                                                  *)

Lemma converter_new_some : forall p rows k dk,
  nth_error (map snd (p :: rows)) k = Some dk ->
  converter_new (p :: rows) k =
    Some (mkConv (plm_new (p :: rows)) (plm_reverse (plm_new (p :: rows)))
                 (plm_new (ex3 (list_min (snd p) (map snd rows)) dk (list_max (snd p) (map snd rows))))
                 (plm_reverse (plm_new (ex3 (list_min (snd p) (map snd rows)) dk (list_max (snd p) (map snd rows)))))).
Proof.
  intros p rows k dk H. unfold converter_new. cbn [map] in *. rewrite H. reflexivity.
Qed.

Lemma converter_new_total : forall rows k,
  (k < length rows)%nat -> exists c, converter_new rows k = Some c.
Proof.
  intros [|p rows] k H; [cbn in H; lia|].
  destruct (nth_error (map snd (p :: rows)) k) as [dk|] eqn:E.
  - eexists. apply converter_new_some. exact E.
  - apply nth_error_None in E. rewrite map_length in E. exfalso. apply (Nat.lt_irrefl k). apply Nat.lt_le_trans with (length (p :: rows)); assumption.
Qed.

(* default normalisation, as the code computes it, is the OpenType formula *)
Lemma default_norm_sdn : forall mn df mx, mn <= df -> df <= mx ->
  exists dc, default_normalization mn df mx = Some dc /\
             forall u, mn <= u -> u <= mx -> user_to_norm dc u == sdn mn df mx u.
Proof.
  intros mn df mx H1 H2. unfold default_normalization.
  assert (forall lo hi u, (lo == -1 \/ lo == 0) -> (hi == 1 \/ hi == 0) ->
            (mn < df -> lo == -1) -> (df < mx -> hi == 1) -> lo <= 0 -> 0 <= hi ->
            mn <= u -> u <= mx ->
            (df <= mn -> lo == 0) -> (mx <= df -> hi == 0) ->
            plm_map (plm_new (ex3 lo 0 hi)) (plm_map (plm_new (ex3 mn df mx)) u) == sdn mn df mx u) as K.
  { intros lo hi u L1 L2 L3 L4 L5 L6 U1 U2 L7 L8.
    rewrite (plm_map_comp _ _ _ (norm3 mn df mx u H1 H2 U1 U2)).
    assert (lo <= sdn mn df mx u /\ sdn mn df mx u <= hi) as [R1 R2].
    { destruct (sdn_range mn df mx u H1 H2 U1 U2) as [A B]. split.
      - destruct (Qlt_le_dec mn df) as [X|X].
        + rewrite (L3 X). exact A.
        + rewrite (L7 X). apply sdn_nonneg; lra.
      - destruct (Qlt_le_dec df mx) as [X|X].
        + rewrite (L4 X). exact B.
        + rewrite (L8 X). apply sdn_nonpos; lra. }
    rewrite (norm3 lo 0 hi _ L5 L6 R1 R2). apply sdn_unit; assumption. }
  unfold ex3 at 1.
  destruct (Qltb mn df) eqn:E1; destruct (Qltb df mx) eqn:E2;
    try (apply Qltb_true in E1); try (apply Qltb_true in E2);
    try (apply Qltb_false in E1); try (apply Qltb_false in E2); cbn [app].
  - eexists. split.
    + apply converter_new_some. reflexivity.
    + intros u U1 U2. unfold user_to_norm, design_to_norm, user_to_design. cbn [u2d d2n].
      change (plm_new [(mn, -1); (df, 0); (mx, 1)]) with (plm_new ([(mn, -1)] ++ [(df, 0)] ++ [(mx, 1)])).
      replace ([(mn, -1)] ++ [(df, 0)] ++ [(mx, 1)]) with (ex3 mn df mx)
        by (unfold ex3; rewrite (proj2 (Qltb_true mn df) E1), (proj2 (Qltb_true df mx) E2); reflexivity).
      apply K; try lra; try (left; reflexivity); try (intros; reflexivity); try (vm_compute; discriminate).
  - eexists. split.
    + apply converter_new_some. reflexivity.
    + intros u U1 U2. unfold user_to_norm, design_to_norm, user_to_design. cbn [u2d d2n].
      change (plm_new [(mn, -1); (df, 0)]) with (plm_new ([(mn, -1)] ++ [(df, 0)] ++ [])).
      replace ([(mn, -1)] ++ [(df, 0)] ++ []) with (ex3 mn df mx)
        by (unfold ex3; rewrite (proj2 (Qltb_true mn df) E1), (proj2 (Qltb_false df mx) E2); reflexivity).
      apply K; try lra; try (left; reflexivity); try (right; reflexivity); try (intros; reflexivity); try (vm_compute; discriminate); intros; lra.
  - eexists. split.
    + apply converter_new_some. reflexivity.
    + intros u U1 U2. unfold user_to_norm, design_to_norm, user_to_design. cbn [u2d d2n].
      change (plm_new [(df, 0); (mx, 1)]) with (plm_new ([] ++ [(df, 0)] ++ [(mx, 1)])).
      replace ([] ++ [(df, 0)] ++ [(mx, 1)]) with (ex3 mn df mx)
        by (unfold ex3; rewrite (proj2 (Qltb_false mn df) E1), (proj2 (Qltb_true df mx) E2); reflexivity).
      apply K; try lra; try (left; reflexivity); try (right; reflexivity); try (intros; reflexivity); try (vm_compute; discriminate); intros; lra.
  - eexists. split.
    + apply converter_new_some. reflexivity.
    + intros u U1 U2. unfold user_to_norm, design_to_norm, user_to_design. cbn [u2d d2n].
      change (plm_new [(df, 0)]) with (plm_new ([] ++ [(df, 0)] ++ [])).
      replace ([] ++ [(df, 0)] ++ []) with (ex3 mn df mx)
        by (unfold ex3; rewrite (proj2 (Qltb_false mn df) E1), (proj2 (Qltb_false df mx) E2); reflexivity).
      apply K; try lra; try (left; reflexivity); try (right; reflexivity); try (intros; reflexivity); try (vm_compute; discriminate); intros; lra.
Qed.

(* ------------------------------------------------------------------ *)
(* avar evaluation respects == (argument and records)                   *)

Definition pteq (a b : pt) : Prop := fst a == fst b /\ snd a == snd b.

Lemma avar_go_comp : forall l l' pf pf' pt_ pt' x x',
  pf == pf' -> pt_ == pt' -> x == x' -> Forall2 pteq l l' ->
  avar_go pf pt_ l x == avar_go pf' pt' l' x'.
Proof.
  induction l as [|[f t] r IH]; intros l' pf pf' pt_ pt' x x' E1 E2 E3 F; inversion F; subst; cbn [avar_go].
  - exact E3.
  - destruct y as [f' t']. destruct H1 as [Ef Et]. cbn [fst snd] in Ef, Et.
    rewrite (Qcompare_comp x x' E3 f f' Ef). destruct (x' ?= f').
    + exact Et.
    + rewrite E1, E2, E3, Ef, Et. reflexivity.
    + apply IH; assumption.
Qed.

Lemma avar_eval_comp : forall l l' x x', x == x' -> Forall2 pteq l l' -> avar_eval l x == avar_eval l' x'.
Proof.
  intros [|[f t] r] l' x x' E F; inversion F; subst; cbn [avar_eval].
  - exact E.
  - destruct y as [f' t']. destruct H1 as [Ef Et]. cbn [fst snd] in Ef, Et.
    rewrite (Qcompare_comp x x' E f f' Ef). destruct (x' ?= f').
    + exact Et.
    + exact E.
    + apply avar_go_comp; assumption.
Qed.

Lemma Forall2_map_in : forall (f g : pt -> pt) (l : list pt),
  (forall p, In p l -> pteq (f p) (g p)) -> Forall2 pteq (map f l) (map g l).
Proof.
  induction l as [|a t IH]; intro H; cbn [map]; constructor.
  - apply H. left. reflexivity.
  - apply IH. intros p I. apply H. right. exact I.
Qed.

Lemma Forall2_pteq_refl : forall l, Forall2 pteq l l.
Proof. induction l; constructor; [split; reflexivity|assumption]. Qed.

(* ------------------------------------------------------------------ *)
(* the two evaluators in lock step                                      *)

Fixpoint segs_ok (A N : Q -> Q) (up dp : Q) (l : list pt) : Prop :=
  match l with
  | [] => True
  | p :: r => up < fst p /\ dp <= snd p /\ aff A up (fst p) /\ aff N dp (snd p) /\ segs_ok A N (fst p) (snd p) r
  end.

Lemma segs_ok_chain : forall A N l up dp, segs_ok A N up dp l -> chain Qlt up (map fst l).
Proof.
  induction l as [|p r IH]; intros up dp H; [exact I|].
  destruct H as (H1 & H2 & H3 & H4 & H5). split; [exact H1|]. apply (IH _ _ H5).
Qed.

Section Lockstep.
  Variables (A N : Q -> Q) (lo hi : Q).
  Hypothesis Acomp : forall x y, x == y -> A x == A y.
  Hypothesis Amono : forall x y, lo <= x -> x < y -> y <= hi -> A x < A y.

  Definition ideal_nodes (l : list pt) : list pt := map (fun p => (A (fst p), N (snd p))) l.

  Lemma lockstep : forall l up dp u,
    segs_ok A N up dp l -> lo <= up -> lastq up (map fst l) <= hi ->
    up < u -> u <= lastq up (map fst l) ->
    avar_go (A up) (N dp) (ideal_nodes l) (A u) == N (map_go up dp l u).
  Proof.
    induction l as [|[u1 d1] r IH]; intros up dp u S L1 L2 U1 U2.
    - unfold lastq in U2. cbn in U2. lra.
    - cbn [map fst snd] in *. rewrite lastq_cons in *.
      destruct S as (S1 & S2 & [a [b HA]] & [c [e HN]] & S5). cbn [fst snd] in *.
      pose proof (chain_le_last _ _ (chain_lt_le _ _ (segs_ok_chain _ _ _ _ _ S5))) as U3.
      unfold ideal_nodes. cbn [map fst snd avar_go map_go].
      destruct (Qcompare_spec u u1) as [E|L|G].
      + rewrite (cmp_eq _ _ (Acomp _ _ E)). reflexivity.
      + assert (A u < A u1) as X by (apply Amono; lra). rewrite (cmp_lt _ _ X).
        destruct (div_unit u up u1 U1 L) as [T0 T1].
        destruct (lerp_between dp d1 _ S2 T0 T1) as [B0 B1].
        pose proof (HA u ltac:(lra) ltac:(lra)) as HAu.
        pose proof (HA up ltac:(lra) ltac:(lra)) as HAp.
        pose proof (HA u1 ltac:(lra) ltac:(lra)) as HA1.
        pose proof (HN _ B0 B1) as HNl.
        pose proof (HN dp ltac:(lra) ltac:(lra)) as HNp.
        pose proof (HN d1 ltac:(lra) ltac:(lra)) as HN1.
        assert (A up < A u1) as Y by (apply Amono; lra).
        rewrite HAp, HA1 in Y.
        rewrite HNl, HNp, HN1, HAu, HAp, HA1. unfold lerp. field. split; lra.
      + assert (A u1 < A u) as X by (apply Amono; lra). rewrite (cmp_gt _ _ X).
        apply IH; try assumption; lra.
  Qed.

  Lemma lockstep_top : forall u0 d0 rest u,
    segs_ok A N u0 d0 rest -> lo <= u0 -> lastq u0 (map fst rest) <= hi ->
    u0 <= u -> u <= lastq u0 (map fst rest) ->
    avar_eval (ideal_nodes ((u0, d0) :: rest)) (A u) == N (plm_map ((u0, d0) :: rest) u).
  Proof.
    intros u0 d0 rest u S L1 L2 U1 U2. unfold ideal_nodes. cbn [map fst snd avar_eval plm_map].
    destruct (Qcompare_spec u u0) as [E|L|G].
    - rewrite (cmp_eq _ _ (Acomp _ _ E)). reflexivity.
    - lra.
    - pose proof (chain_le_last _ _ (chain_lt_le _ _ (segs_ok_chain _ _ _ _ _ S))) as U3.
      assert (A u0 < A u) as X by (apply Amono; lra). rewrite (cmp_gt _ _ X).
      apply lockstep; assumption.
  Qed.
End Lockstep.

(* every segment between neighbouring rows lies on one side of the default, in both spaces *)
Lemma build_segs : forall mn df mx dmin dk dmax uk,
  uk == df ->
  forall l up dp,
  chain Qlt up (map fst l) -> chain Qle dp (map snd l) ->
  (In (uk, dk) ((up, dp) :: l) \/ (uk <= up /\ dk <= dp)) ->
  mn <= up -> lastq up (map fst l) <= mx ->
  dmin <= dp -> lastq dp (map snd l) <= dmax ->
  segs_ok (sdn mn df mx) (sdn dmin dk dmax) up dp l.
Proof.
  intros mn df mx dmin dk dmax uk Hdf.
  induction l as [|[u1 d1] r IH]; intros up dp C1 C2 D B1 B2 B3 B4; [exact I|].
  cbn [map fst snd] in *. rewrite lastq_cons in *.
  destruct C1 as [C1 C1']. destruct C2 as [C2 C2'].
  pose proof (chain_le_last _ _ (chain_lt_le _ _ C1')) as U3.
  pose proof (chain_le_last _ _ C2') as U4.
  cbn [segs_ok fst snd].
  assert ((u1 <= df /\ d1 <= dk /\ In (uk, dk) ((u1, d1) :: r)) \/ (df <= up /\ dk <= dp /\ uk <= u1 /\ dk <= d1)) as K.
  { destruct D as [[D|D]|[D1 D2]].
    - inversion D; subst. right. repeat split; lra.
    - left. destruct D as [D|D].
      + inversion D; subst. repeat split; try lra. left. reflexivity.
      + assert (u1 < uk) by (apply chain_lt_lower with (map fst r); [exact C1'|change uk with (fst (uk, dk)); apply in_map; exact D]).
        assert (d1 <= dk) by (apply chain_le_lower with (map snd r); [exact C2'|change dk with (snd (uk, dk)); apply in_map; exact D]).
        repeat split; try lra. right. exact D.
    - right. repeat split; lra. }
  destruct K as [(K1 & K2 & K3)|(K1 & K2 & K3 & K4)].
  - repeat split; try assumption.
    + apply sdn_aff_left; lra.
    + apply sdn_aff_left; lra.
    + apply IH; try assumption; try lra; try (left; exact K3).
  - repeat split; try assumption.
    + apply sdn_aff_right; lra.
    + apply sdn_aff_right; lra.
    + apply IH; try assumption; try lra; try (right; split; assumption).
Qed.
