(* C08 — final assembly of the property lemmas (see ProofsPlm, ProofsAxis,
   ProofsMain, ProofsQuant for the development). *)
From Coq Require Import List ZArith QArith Qround Qabs Qminmax Bool Lqa Lia Permutation Setoid Morphisms.
From FV.C08 Require Export Model ProofsPlm ProofsAxis ProofsMain ProofsQuant ProofsBracket.
Import ListNotations.
Open Scope Q_scope.

(* ------------------------------------------------------------------ *)
(* quantised map: well-formed (weak form)                               *)

Lemma quantised_wf : forall a rows k u0 d0 rest uk dk,
  valid_axis a rows k u0 d0 rest uk dk ->
  (u0 < uk -> d0 < dk) ->
  (uk < lastq u0 (map fst rest) -> dk < lastq d0 (map snd rest)) ->
  exists zs, to_segment_map a = Some zs /\ segmap_wf_weak (dequantise zs) = true.
Proof.
  intros a rows k u0 d0 rest uk dk V N1 N2.
  destruct (ideal_wfP a rows k u0 d0 rest uk dk V N1 N2) as [segs [Hs W]].
  exists (quantise segs). split.
  - unfold to_segment_map. rewrite Hs. reflexivity.
  - rewrite dequantise_quantise. apply wfP_quantised. exact W.
Qed.

(* ------------------------------------------------------------------ *)
(* quantised map: value at the rows                                     *)

Lemma all_id_qpt : forall l, all_id l -> all_id (map qpt l).
Proof.
  intros l H p I. apply in_map_iff in I. destruct I as [q [E I]]. subst p. unfold qpt. cbn [fst snd].
  apply q14_comp. apply H. exact I.
Qed.

Lemma quantised_nodes : forall a rows k u0 d0 rest uk dk zs,
  valid_axis a rows k u0 d0 rest uk dk ->
  to_segment_map a = Some zs ->
  increasing (map fst (dequantise zs)) = true ->
  forall u d, In (u, d) (plm_new rows) ->
    Qabs (avar_eval (dequantise zs) (q14 (spec_default_norm (amin a) (adef a) (amax a) u))
          - user_to_norm (aconv a) u) <= 1 # 32768.
Proof.
  intros a rows k u0 d0 rest uk dk zs V Hz Inc u d I.
  rewrite (va_sorted _ _ _ _ _ _ _ _ V) in I.
  destruct (axis_bounds _ _ _ _ _ _ _ _ V) as [AB1 AB2].
  destruct (default_norm_sdn (amin a) (adef a) (amax a) AB1 AB2) as [dc [Hd HA]].
  destruct (u_bounds _ _ _ _ _ _ _ _ V u d I) as [U1 U2].
  assert (amin a <= u /\ u <= amax a) as [G1 G2].
  { rewrite (va_min _ _ _ _ _ _ _ _ V), (va_max _ _ _ _ _ _ _ _ V). split; assumption. }
  pose proof (spec_sdn (amin a) (adef a) (amax a) u G1 G2) as Ex.
  set (x := spec_default_norm (amin a) (adef a) (amax a) u) in *.
  destruct (sdn_range (amin a) (adef a) (amax a) u AB1 AB2 G1 G2) as [X1 X2]. rewrite <- Ex in X1, X2.
  (* the source value is in [-1,1] *)
  pose proof (source_norm_node _ _ _ _ _ _ _ _ V u d I) as Et.
  destruct (dk_bounds _ _ _ _ _ _ _ _ V) as [K1 K2].
  destruct (dmin_lower _ _ _ _ _ _ _ _ V u d I) as [D1 D2].
  destruct (sdn_range _ _ _ d K1 K2 D1 D2) as [T1 T2]. rewrite <- Et in T1, T2.
  set (t := user_to_norm (aconv a) u) in *.
  unfold to_segment_map, segment_map_ideal in Hz.
  destruct (segment_nodes a) as [ms|] eqn:Hs; [|discriminate].
  pose proof (nodes_in_padded _ _ _ _ _ _ _ _ V dc ms Hs Hd u d I) as J. fold t in J.
  assert (user_to_norm dc u == x) as Ef by (rewrite Ex; apply HA; assumption).
  cbn [option_map] in Hz.
  destruct (is_identity_q ms) eqn:Id; injection Hz as Hz; subst zs;
    try (change [(f2dot14 (-1), f2dot14 (-1)); (f2dot14 0, f2dot14 0); (f2dot14 1, f2dot14 1)] with (quantise default_segment_map) in * );
    rewrite dequantise_quantise in Inc |- *.
  - (* identity short cut: the map is the identity and so is the source on the rows *)
    assert (all_id default_segment_map) as I' by (intros p [P|[P|[P|[]]]]; subst; reflexivity).
    rewrite (avar_eval_id _ _ (all_id_qpt _ I')).
    apply is_identity_q_all_id in Id. pose proof (Id _ J) as E. cbn [fst snd] in E.
    assert (t == x) as Etx by (rewrite <- E; exact Ef).
    rewrite Etx. apply q14_error; assumption.
  - (* the row's record is in the table *)
    pose proof (in_map qpt ms _ J) as JJ. unfold qpt at 1 in JJ. cbn [fst snd] in JJ.
    pose proof (increasing_inc_from _ Inc) as IF.
    rewrite (avar_eval_comp (map qpt ms) (map qpt ms) (q14 x) (q14 (user_to_norm dc u))
               (q14_comp _ _ (Qeq_sym _ _ Ef)) (Forall2_pteq_refl _)).
    rewrite (avar_eval_node _ _ _ IF JJ). apply q14_error; assumption.
Qed.


(* ------------------------------------------------------------------ *)
(* quantised map: every coordinate                                      *)

Lemma wfP_shape : forall l, wfP l ->
  exists f0 t0 r, l = (f0, t0) :: r /\ chain Qlt f0 (map fst r) /\ chain Qle t0 (map snd r) /\
    Forall in_unit l /\ f0 == -1 /\ lastq f0 (map fst r) == 1.
Proof.
  intros l ((q1 & I1 & P1) & _ & (q3 & I3 & P3) & C & F).
  destruct l as [|[f0 t0] r]; [contradiction|]. cbn [fst snd] in C. destruct C as [C1 C2].
  exists f0, t0, r. split; [reflexivity|]. split; [exact C1|]. split; [exact C2|]. split; [exact F|].
  rewrite Forall_forall in F.
  split.
  - destruct (F _ (or_introl eq_refl)) as (A1 & _). cbn [fst] in A1.
    destruct P1 as [E1 _]. cbn [fst] in E1.
    assert (f0 <= fst q1).
    { destruct I1 as [I1|I1]; [subst q1; apply Qle_refl|].
      apply Qlt_le_weak. apply chain_lt_lower with (map fst r); [exact C1|apply in_map; exact I1]. }
    lra.
  - pose proof (lastq_in (map fst r) f0) as J.
    change (f0 :: map fst r) with (map fst ((f0, t0) :: r)) in J. apply in_map_iff in J.
    destruct J as [pl [El Jl]]. destruct (F pl Jl) as (_ & A2 & _). rewrite El in A2.
    destruct P3 as [E3 _]. cbn [fst] in E3.
    assert (fst q3 <= lastq f0 (map fst r)).
    { destruct I3 as [I3|I3]; [subst q3; apply chain_le_last; apply chain_lt_le; exact C1|].
      apply chain_le_upper; [apply chain_lt_le; exact C1|apply in_map; exact I3]. }
    lra.
Qed.

Lemma quantised_everywhere_lists : forall l, wfP l ->
  forall x, -1 <= x -> x <= 1 ->
    avar_eval l (Qmax (-1) (x - eps)) - eps <= avar_eval (map qpt l) x /\
    avar_eval (map qpt l) x <= avar_eval l (Qmin 1 (x + eps)) + eps.
Proof.
  intros l W x X1 X2. destruct (wfP_shape l W) as (f0 & t0 & r & El & C & D & U & E0 & E1). subst l.
  assert (q14 f0 == -1) as Q0 by (rewrite (q14_comp f0 (-1) E0); reflexivity).
  assert (q14 (lastq f0 (map fst r)) == 1) as Q1 by (rewrite (q14_comp _ 1 E1); reflexivity).
  destruct (quantised_bracket f0 t0 r C D U x ltac:(lra) ltac:(lra)) as [B1 B2]. cbn zeta in B1, B2.
  assert (Qmax f0 (x - eps) == Qmax (-1) (x - eps)) as M1 by (rewrite E0; reflexivity).
  assert (Qmin (lastq f0 (map fst r)) (x + eps) == Qmin 1 (x + eps)) as M2 by (rewrite E1; reflexivity).
  rewrite (avar_eval_comp _ _ _ _ M1 (Forall2_pteq_refl _)) in B1.
  rewrite (avar_eval_comp _ _ _ _ M2 (Forall2_pteq_refl _)) in B2.
  split; assumption.
Qed.

Lemma quantised_everywhere : forall a rows k u0 d0 rest uk dk,
  valid_axis a rows k u0 d0 rest uk dk ->
  (u0 < uk -> d0 < dk) ->
  (uk < lastq u0 (map fst rest) -> dk < lastq d0 (map snd rest)) ->
  exists zs, to_segment_map a = Some zs /\
    forall u ulo uhi,
      amin a <= u -> u <= amax a -> amin a <= ulo -> ulo <= amax a -> amin a <= uhi -> uhi <= amax a ->
      let dn := spec_default_norm (amin a) (adef a) (amax a) in
      dn ulo == Qmax (-1) (dn u - eps) ->
      dn uhi == Qmin 1 (dn u + eps) ->
      user_to_norm (aconv a) ulo - eps <= avar_eval (dequantise zs) (dn u) /\
      avar_eval (dequantise zs) (dn u) <= user_to_norm (aconv a) uhi + eps.
Proof.
  intros a rows k u0 d0 rest uk dk V N1 N2.
  destruct (ideal_wfP a rows k u0 d0 rest uk dk V N1 N2) as [segs [Hs W]].
  destruct (ideal_agreement a rows k u0 d0 rest uk dk V) as [segs' [Hs' AG]].
  rewrite Hs in Hs'. injection Hs' as Hs'. subst segs'.
  exists (quantise segs). split; [unfold to_segment_map; rewrite Hs; reflexivity|].
  intros u ulo uhi U1 U2 L1 L2 H1 H2 dn Elo Ehi.
  destruct (axis_bounds _ _ _ _ _ _ _ _ V) as [AB1 AB2].
  assert (-1 <= dn u /\ dn u <= 1) as [X1 X2].
  { unfold dn. rewrite (spec_sdn _ _ _ u U1 U2). apply sdn_range; assumption. }
  rewrite dequantise_quantise.
  destruct (quantised_everywhere_lists segs W (dn u) X1 X2) as [B1 B2].
  rewrite <- (avar_eval_comp segs segs _ _ Elo (Forall2_pteq_refl _)) in B1.
  rewrite <- (avar_eval_comp segs segs _ _ Ehi (Forall2_pteq_refl _)) in B2.
  unfold dn in B1, B2. rewrite (AG ulo L1 L2) in B1. rewrite (AG uhi H1 H2) in B2.
  split; assumption.
Qed.

(* ------------------------------------------------------------------ *)
(* fvar                                                                 *)

Lemma fvar_ordered : forall a rows k u0 d0 rest uk dk,
  valid_axis a rows k u0 d0 rest uk dk ->
  let '(mn, df, mx) := fvar_axis a in (mn <= df <= mx)%Z.
Proof.
  intros a rows k u0 d0 rest uk dk V. destruct (axis_bounds _ _ _ _ _ _ _ _ V) as [AB1 AB2].
  unfold fvar_axis. split; apply fixed16_mono; assumption.
Qed.

Lemma fvar_close : forall a,
  -32767 <= amin a -> amax a <= 32767 -> amin a <= adef a -> adef a <= amax a ->
  let '(mn, df, mx) := fvar_axis a in
  Qabs (of_fixed16 mn - amin a) <= 1 # 131072 /\
  Qabs (of_fixed16 df - adef a) <= 1 # 131072 /\
  Qabs (of_fixed16 mx - amax a) <= 1 # 131072.
Proof.
  intros a H1 H2 H3 H4. unfold fvar_axis. repeat split; apply q16_error; lra.
Qed.

Lemma instance_in_range : forall a rows k u0 d0 rest uk dk,
  valid_axis a rows k u0 d0 rest uk dk ->
  forall loc,
    match loc with
    | Some d => d0 <= d /\ d <= lastq d0 (map snd rest)
    | None => True
    end ->
  let '(mn, df, mx) := fvar_axis a in
  (mn <= fvar_instance_coord a (option_map (design_to_user (aconv a)) loc) <= mx)%Z.
Proof.
  intros a rows k u0 d0 rest uk dk V loc H. destruct (axis_bounds _ _ _ _ _ _ _ _ V) as [AB1 AB2].
  unfold fvar_axis, fvar_instance_coord. destruct loc as [d|]; cbn [option_map].
  - destruct H as [H1 H2]. destruct (instance_user_range _ _ _ _ _ _ _ _ V d H1 H2) as [R1 R2].
    split; apply fixed16_mono; assumption.
  - split; apply fixed16_mono; assumption.
Qed.

(* ------------------------------------------------------------------ *)
(* witnesses outside the hypotheses                                     *)

(* (a) design flat from the axis minimum through the default: rows
   100 -> 50, 400 -> 50 (default), 900 -> 100 *)
Definition flat_rows : list pt := [(100, 50); (400, 50); (900, 100)].
Definition flat_axis : axis :=
  match mk_axis 100 400 900 flat_rows 1 with Some a => a | None => mkAxis 0 0 0 (mkConv [] [] [] []) end.

Lemma flat_axis_valid : valid_axis flat_axis flat_rows 1 100 50 [(400, 50); (900, 100)] 400 50.
Proof.
  constructor; try reflexivity.
  - cbn. repeat split; reflexivity.
  - cbn. repeat split; discriminate.
Qed.

Lemma flat_axis_lacks_m1 :
  to_segment_map flat_axis = Some [(-16384, 0); (0, 0); (16384, 16384)]%Z.
Proof. vm_compute. reflexivity. Qed.

(* (b) rows beyond the axis bounds: rows 100..900, axis 300..700 *)
Definition wide_rows : list pt := [(100, 20); (300, 60); (400, 80); (700, 150); (900, 200)].
Definition wide_axis : axis :=
  match mk_axis 300 400 700 wide_rows 2 with Some a => a | None => mkAxis 0 0 0 (mkConv [] [] [] []) end.

Lemma wide_axis_map :
  to_segment_map wide_axis =
    Some [(-16384, -16384); (-32768, -16384); (-16384, -5461); (0, 0); (16384, 9557); (32767, 16384)]%Z.
Proof. vm_compute. reflexivity. Qed.

(* (c) a mapping that is not monotone: 0 -> 50 (default), 50 -> 0, 100 -> 200 *)
Definition nonmono_rows : list pt := [(0, 50); (50, 0); (100, 200)].
Definition nonmono_axis : axis :=
  match mk_axis 0 0 100 nonmono_rows 0 with Some a => a | None => mkAxis 0 0 0 (mkConv [] [] [] []) end.

Lemma nonmono_disagrees :
  exists segs, segment_map_ideal nonmono_axis = Some segs /\
    ~ avar_eval segs (spec_default_norm 0 0 100 75) == user_to_norm (aconv nonmono_axis) 75.
Proof.
  eexists. split; [vm_compute; reflexivity|]. vm_compute. discriminate.
Qed.
