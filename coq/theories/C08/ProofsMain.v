(* C08 — the avar node list of a well-formed axis: agreement with the source
   mapping (ideal arithmetic), and well-formedness of the segment map. *)
From Coq Require Import List ZArith QArith Qround Qabs Qminmax Bool Lqa Lia Permutation Setoid Morphisms.
From FV.C08 Require Import Model ProofsPlm ProofsAxis.
Import ListNotations.
Open Scope Q_scope.

(* ------------------------------------------------------------------ *)
(* identity lists evaluate to the identity, whatever their order        *)

Definition all_id (l : list pt) : Prop := forall p, In p l -> fst p == snd p.

Lemma is_identity_q_all_id : forall l, is_identity_q l = true -> all_id l.
Proof.
  intros l H p I. unfold is_identity_q in H. rewrite forallb_forall in H.
  apply Qeq_bool_iff. apply H. exact I.
Qed.

Lemma avar_go_id : forall l pf pt_ x, pf == pt_ -> pf < x -> all_id l -> avar_go pf pt_ l x == x.
Proof.
  induction l as [|[f t] r IH]; intros pf pt_ x E L H; cbn [avar_go].
  - reflexivity.
  - assert (f == t) as Eft by (apply (H (f, t)); left; reflexivity).
    destruct (Qcompare_spec x f) as [A|A|A].
    + rewrite A. symmetry. exact Eft.
    + rewrite <- E, <- Eft. field. lra.
    + apply IH; [exact Eft|exact A|]. intros p I. apply H. right. exact I.
Qed.

Lemma avar_eval_id : forall l x, all_id l -> avar_eval l x == x.
Proof.
  intros [|[f t] r] x H; cbn [avar_eval].
  - reflexivity.
  - assert (f == t) as Eft by (apply (H (f, t)); left; reflexivity).
    destruct (Qcompare_spec x f) as [A|A|A].
    + rewrite A. symmetry. exact Eft.
    + reflexivity.
    + apply avar_go_id; [exact Eft|exact A|]. intros p I. apply H. right. exact I.
Qed.

(* ------------------------------------------------------------------ *)
(* padding does not change the value inside the rows                    *)

Lemma avar_go_app : forall l l' pf pt_ x f t,
  In (f, t) l -> x <= f -> avar_go pf pt_ (l ++ l') x = avar_go pf pt_ l x.
Proof.
  induction l as [|[f1 t1] r IH]; intros l' pf pt_ x f t I H; [contradiction|].
  cbn [app avar_go]. destruct (Qcompare_spec x f1) as [A|A|A]; try reflexivity.
  destruct I as [I|I].
  - inversion I; subst. lra.
  - apply (IH l' f1 t1 x f t I H).
Qed.

Lemma avar_eval_app : forall l l' x f t,
  In (f, t) l -> x <= f -> avar_eval (l ++ l') x = avar_eval l x.
Proof.
  intros [|[f1 t1] r] l' x f t I H; [contradiction|].
  cbn [app avar_eval]. destruct (Qcompare_spec x f1) as [A|A|A]; try reflexivity.
  destruct I as [I|I].
  - inversion I; subst. lra.
  - apply (avar_go_app r l' f1 t1 x f t I H).
Qed.

Lemma avar_eval_front_pad : forall f0 t0 mr x, -1 < f0 -> f0 <= x ->
  avar_eval ((-1, -1) :: (f0, t0) :: mr) x = avar_eval ((f0, t0) :: mr) x.
Proof.
  intros f0 t0 mr x H1 H2. cbn [avar_eval avar_go].
  assert (-1 < x) as L by lra. rewrite (cmp_gt _ _ L).
  destruct (Qcompare_spec x f0) as [A|A|A]; try reflexivity. lra.
Qed.

(* ------------------------------------------------------------------ *)
(* folds over chains                                                    *)

Lemma chain_le_weaken : forall l x a, x <= a -> chain Qle a l -> chain Qle x l.
Proof.
  intros [|b t] x a H C; [exact I|]. destruct C as [C1 C2]. split; [lra|exact C2].
Qed.

Lemma fold_min_chain : forall (l : list pt) acc x,
  acc == x -> chain Qle x (map fst l) -> fold_left (fun a p => Qmin a (fst p)) l acc == x.
Proof.
  induction l as [|p t IH]; intros acc x E C; cbn [fold_left].
  - exact E.
  - cbn [map] in C. destruct C as [C1 C2]. apply IH.
    + rewrite Q.min_l; [exact E|]. rewrite E. exact C1.
    + apply chain_le_weaken with (fst p); assumption.
Qed.

(* transfer of chains along == *)
Lemma chain_lt_transfer : forall (l l' : list pt) x x',
  x == x' -> Forall2 pteq l l' -> chain Qlt x' (map fst l') -> chain Qlt x (map fst l).
Proof.
  induction l as [|p t IH]; intros l' x x' E F C; inversion F; subst; [exact I|].
  cbn [map] in *. destruct C as [C1 C2]. destruct H1 as [E1 E2]. split.
  - rewrite E, E1. exact C1.
  - apply (IH l'0 (fst p) (fst y) E1 H3 C2).
Qed.

Lemma chain_le_transfer_snd : forall (l l' : list pt) x x',
  x == x' -> Forall2 pteq l l' -> chain Qle x' (map snd l') -> chain Qle x (map snd l).
Proof.
  induction l as [|p t IH]; intros l' x x' E F C; inversion F; subst; [exact I|].
  cbn [map] in *. destruct C as [C1 C2]. destruct H1 as [E1 E2]. split.
  - rewrite E, E2. exact C1.
  - apply (IH l'0 (snd p) (snd y) E2 H3 C2).
Qed.

(* images of chains under monotone functions *)
Lemma chain_lt_map : forall (A N : Q -> Q) lo hi,
  (forall x y, lo <= x -> x < y -> y <= hi -> A x < A y) ->
  forall l up, chain Qlt up (map fst l) -> lo <= up -> lastq up (map fst l) <= hi ->
  chain Qlt (A up) (map fst (ideal_nodes A N l)).
Proof.
  intros A N lo hi Am. induction l as [|p t IH]; intros up C L1 L2; [exact I|].
  cbn [map] in *. rewrite lastq_cons in L2. destruct C as [C1 C2].
  pose proof (chain_le_last _ _ (chain_lt_le _ _ C2)) as U.
  unfold ideal_nodes. cbn [map fst]. split.
  - apply Am; lra.
  - apply IH; [exact C2|lra|exact L2].
Qed.

Lemma chain_le_map : forall (A N : Q -> Q) lo hi,
  (forall x y, lo <= x -> x <= y -> y <= hi -> N x <= N y) ->
  forall l dp, chain Qle dp (map snd l) -> lo <= dp -> lastq dp (map snd l) <= hi ->
  chain Qle (N dp) (map snd (ideal_nodes A N l)).
Proof.
  intros A N lo hi Nm. induction l as [|p t IH]; intros dp C L1 L2; [exact I|].
  cbn [map] in *. rewrite lastq_cons in L2. destruct C as [C1 C2].
  pose proof (chain_le_last _ _ C2) as U.
  unfold ideal_nodes. cbn [map snd]. split.
  - apply Nm; lra.
  - apply IH; [exact C2|lra|exact L2].
Qed.

(* ------------------------------------------------------------------ *)
(* boolean predicates from chains                                       *)

Lemma increasing_chain : forall l x, chain Qlt x l -> increasing (x :: l) = true.
Proof.
  induction l as [|a t IH]; intros x C; [reflexivity|].
  destruct C as [C1 C2]. cbn [increasing]. rewrite (proj2 (Qltb_true x a) C1). cbn [andb]. apply IH. exact C2.
Qed.

Lemma nondecreasing_chain : forall l x, chain Qle x l -> nondecreasing (x :: l) = true.
Proof.
  induction l as [|a t IH]; intros x C; [reflexivity|].
  destruct C as [C1 C2]. cbn [nondecreasing]. rewrite (proj2 (Qle_bool_iff x a) C1). cbn [andb]. apply IH. exact C2.
Qed.

Lemma has_pt_in : forall p l q, In q l -> pteq p q -> has_pt p l = true.
Proof.
  intros p l q I [E1 E2]. unfold has_pt. apply existsb_exists. exists q. split; [exact I|].
  unfold pt_eqb. rewrite (proj2 (Qeq_bool_iff _ _) E1), (proj2 (Qeq_bool_iff _ _) E2). reflexivity.
Qed.

Lemma chain_app : forall (R : Q -> Q -> Prop) l x y, chain R x l -> R (lastq x l) y -> chain R x (l ++ [y]).
Proof.
  intros R. induction l as [|a t IH]; intros x y C H.
  - cbn. split; [exact H|exact I].
  - destruct C as [C1 C2]. rewrite lastq_cons in H. cbn [app chain]. split; [exact C1|apply IH; assumption].
Qed.

Lemma lastq_app : forall l x y, lastq x (l ++ [y]) = y.
Proof.
  induction l as [|a t IH]; intros x y; [reflexivity|].
  cbn [app]. rewrite lastq_cons. apply IH.
Qed.

Lemma lastq_map_comp : forall (l l' : list pt) x x',
  x == x' -> Forall2 pteq l l' -> lastq x (map snd l) == lastq x' (map snd l') /\ lastq x (map fst l) == lastq x' (map fst l').
Proof.
  induction l as [|p t IH]; intros l' x x' E F; inversion F; subst.
  - unfold lastq. cbn. split; exact E.
  - cbn [map]. rewrite !lastq_cons. destruct H1 as [E1 E2]. destruct (IH l'0 (snd p) (snd y) E2 H3) as [R1 _].
    destruct (IH l'0 (fst p) (fst y) E1 H3) as [_ R2]. split; assumption.
Qed.

Lemma lastq_ideal : forall (A N : Q -> Q) l up dp,
  lastq (A up) (map fst (ideal_nodes A N l)) = A (lastq up (map fst l)) /\
  lastq (N dp) (map snd (ideal_nodes A N l)) = N (lastq dp (map snd l)).
Proof.
  intros A N. induction l as [|p t IH]; intros up dp.
  - split; reflexivity.
  - unfold ideal_nodes. cbn [map fst snd]. rewrite !lastq_cons. apply IH.
Qed.

Lemma fold_max_chain : forall (l : list pt) acc x,
  acc == x -> chain Qle x (map snd l) -> fold_left (fun a p => Qmax a (snd p)) l acc == lastq x (map snd l).
Proof.
  induction l as [|p t IH]; intros acc x E C; cbn [fold_left].
  - exact E.
  - cbn [map] in *. destruct C as [C1 C2]. rewrite lastq_cons. apply IH; [|exact C2].
    apply Q.max_r. rewrite E. exact C1.
Qed.

(* the last row as a pair *)
Lemma last_pair_in : forall (l : list pt) u0 d0, In (lastq u0 (map fst l), lastq d0 (map snd l)) ((u0, d0) :: l).
Proof.
  induction l as [|[u d] t IH]; intros u0 d0.
  - left. reflexivity.
  - cbn [map fst snd]. rewrite !lastq_cons. right. apply IH.
Qed.

(* ------------------------------------------------------------------ *)
(* well-formed axis definitions                                         *)

(* rows: the mapping rows in source order; k: the index of the default's row.
   The sorted rows have strictly increasing user values and non-decreasing
   design values; the axis bounds are the first and last row; the default is
   row k. *)
Record valid_axis (a : axis) (rows : list pt) (k : nat) (u0 d0 : Q) (rest : list pt) (uk dk : Q) : Prop := {
  va_conv : converter_new rows k = Some (aconv a);
  va_sorted : plm_new rows = (u0, d0) :: rest;
  va_inc : chain Qlt u0 (map fst rest);
  va_nd : chain Qle d0 (map snd rest);
  va_def : nth_error rows k = Some (uk, dk);
  va_min : amin a == u0;
  va_max : amax a == lastq u0 (map fst rest);
  va_dflt : adef a == uk
}.

Definition rows_dmin (rows : list pt) : Q :=
  match rows with [] => 0 | p :: r => list_min (snd p) (map snd r) end.
Definition rows_dmax (rows : list pt) : Q :=
  match rows with [] => 0 | p :: r => list_max (snd p) (map snd r) end.

Lemma Forall2_cons_inv : forall (R : pt -> pt -> Prop) a b l l',
  Forall2 R (a :: l) (b :: l') -> R a b /\ Forall2 R l l'.
Proof. intros R a b l l' H. inversion H; subst. split; assumption. Qed.

Lemma sorted_cons_nonempty : forall (l : list pt) x r, plm_new l = x :: r -> exists p t, l = p :: t.
Proof. intros [|p t] x r H; [cbn in H; discriminate|]. exists p, t. reflexivity. Qed.

Lemma converter_new_some' : forall rows k dk x r,
  plm_new rows = x :: r -> nth_error (map snd rows) k = Some dk ->
  converter_new rows k =
    Some (mkConv (plm_new rows) (plm_reverse (plm_new rows))
                 (plm_new (ex3 (rows_dmin rows) dk (rows_dmax rows)))
                 (plm_reverse (plm_new (ex3 (rows_dmin rows) dk (rows_dmax rows))))).
Proof.
  intros [|p t] k dk x r H Hk; [cbn in H; discriminate|]. apply converter_new_some. exact Hk.
Qed.

Section Valid.
  Variables (a : axis) (rows : list pt) (k : nat) (u0 d0 : Q) (rest : list pt) (uk dk : Q).
  Hypothesis V : valid_axis a rows k u0 d0 rest uk dk.

  Let S := (u0, d0) :: rest.
  Let dmin := rows_dmin rows.
  Let dmax := rows_dmax rows.
  Let ulast := lastq u0 (map fst rest).
  Let dlast := lastq d0 (map snd rest).

  Lemma rows_nonempty : exists p r, rows = p :: r.
  Proof.
    apply (sorted_cons_nonempty rows (u0, d0) rest). apply (va_sorted _ _ _ _ _ _ _ _ V).
  Qed.

  Lemma in_S_rows : forall p, In p S <-> In p rows.
  Proof.
    intro p. pose proof (sort_perm rows) as P. unfold S. rewrite <- (va_sorted _ _ _ _ _ _ _ _ V).
    unfold plm_new. split; intro H.
    - apply (Permutation_in _ P H).
    - apply (Permutation_in _ (Permutation_sym P) H).
  Qed.

  Lemma default_in_S : In (uk, dk) S.
  Proof. apply in_S_rows. apply nth_error_In with k. apply (va_def _ _ _ _ _ _ _ _ V). Qed.

  Lemma conv_shape :
    aconv a = mkConv S (plm_reverse S) (plm_new (ex3 dmin dk dmax)) (plm_reverse (plm_new (ex3 dmin dk dmax))).
  Proof.
    pose proof (va_conv _ _ _ _ _ _ _ _ V) as H.
    pose proof (map_nth_error snd k rows (va_def _ _ _ _ _ _ _ _ V)) as Hk. cbn [snd] in Hk.
    rewrite (converter_new_some' rows k dk _ _ (va_sorted _ _ _ _ _ _ _ _ V) Hk) in H.
    rewrite (va_sorted _ _ _ _ _ _ _ _ V) in H. inversion H. reflexivity.
  Qed.

  Lemma dmin_lower : forall u d, In (u, d) S -> dmin <= d /\ d <= dmax.
  Proof.
    intros u d I. apply in_S_rows in I. destruct rows_nonempty as [p [r E]].
    unfold dmin, dmax, rows_dmin, rows_dmax. rewrite E in *.
    assert (In d (snd p :: map snd r)) as J.
    { change (snd p :: map snd r) with (map snd (p :: r)). change d with (snd (u, d)). apply in_map. exact I. }
    split; [apply list_min_le|apply list_max_ge]; exact J.
  Qed.

  Lemma dmin_eq_d0 : dmin == d0.
  Proof.
    destruct rows_nonempty as [p [r E]].
    assert (In dmin (map snd rows)) as I.
    { unfold dmin, rows_dmin. rewrite E. apply (list_min_in (map snd r) (snd p)). }
    apply in_map_iff in I. destruct I as [[u d] [Ed I]]. cbn in Ed. subst d.
    apply in_S_rows in I.
    assert (d0 <= dmin).
    { destruct I as [I|I]; [inversion I as [[Eu Ed]]; rewrite <- Ed; apply Qle_refl|].
      apply chain_le_lower with (map snd rest); [apply (va_nd _ _ _ _ _ _ _ _ V)|].
      change dmin with (snd (u, dmin)). apply in_map. exact I. }
    assert (dmin <= d0) by (apply (proj1 (dmin_lower u0 d0 (or_introl eq_refl)))).
    lra.
  Qed.

  Lemma dmax_eq_dlast : dmax == dlast.
  Proof.
    destruct rows_nonempty as [p [r E]].
    assert (In dmax (map snd rows)) as I.
    { unfold dmax, rows_dmax. rewrite E. apply (list_max_in (map snd r) (snd p)). }
    apply in_map_iff in I. destruct I as [[u d] [Ed I]]. cbn in Ed. subst d.
    apply in_S_rows in I.
    assert (dmax <= dlast).
    { unfold dlast. destruct I as [I|I].
      - inversion I as [[Eu Ed]]. rewrite <- Ed. apply chain_le_last. apply (va_nd _ _ _ _ _ _ _ _ V).
      - apply chain_le_upper; [apply (va_nd _ _ _ _ _ _ _ _ V)|].
        change dmax with (snd (u, dmax)). apply in_map. exact I. }
    assert (dlast <= dmax).
    { pose proof (lastq_in (map snd rest) d0) as J. fold dlast in J.
      change (d0 :: map snd rest) with (map snd S) in J. apply in_map_iff in J.
      destruct J as [[u' d'] [Ed' J]]. cbn in Ed'. rewrite <- Ed'.
      apply (proj2 (dmin_lower u' d' J)). }
    lra.
  Qed.

  Lemma dk_bounds : dmin <= dk /\ dk <= dmax.
  Proof. apply (dmin_lower uk dk default_in_S). Qed.

  Lemma u_bounds : forall u d, In (u, d) S -> u0 <= u /\ u <= ulast.
  Proof.
    intros u d I. destruct I as [I|I].
    - inversion I; subst. split; [apply Qle_refl|].
      apply chain_le_last. apply chain_lt_le. apply (va_inc _ _ _ _ _ _ _ _ V).
    - split.
      + apply Qlt_le_weak. apply chain_lt_lower with (map fst rest); [apply (va_inc _ _ _ _ _ _ _ _ V)|].
        change u with (fst (u, d)). apply in_map. exact I.
      + apply chain_le_upper; [apply chain_lt_le; apply (va_inc _ _ _ _ _ _ _ _ V)|].
        change u with (fst (u, d)). apply in_map. exact I.
  Qed.

  Lemma axis_bounds : amin a <= adef a /\ adef a <= amax a.
  Proof.
    destruct (u_bounds uk dk default_in_S) as [H1 H2].
    rewrite (va_min _ _ _ _ _ _ _ _ V), (va_max _ _ _ _ _ _ _ _ V), (va_dflt _ _ _ _ _ _ _ _ V).
    split; assumption.
  Qed.

  Lemma S_inc_from : inc_from S.
  Proof. unfold S, inc_from. cbn [fst]. apply (va_inc _ _ _ _ _ _ _ _ V). Qed.

  (* the two normalisations *)
  Let A := sdn (amin a) (adef a) (amax a).
  Let N := sdn dmin dk dmax.

  Lemma source_norm : forall u, u0 <= u -> u <= ulast ->
    user_to_norm (aconv a) u == N (plm_map S u).
  Proof.
    intros u H1 H2. rewrite conv_shape. unfold user_to_norm, design_to_norm, user_to_design. cbn [u2d d2n].
    destruct dk_bounds as [K1 K2].
    destruct (plm_map_range u0 d0 rest u H1 H2 (va_nd _ _ _ _ _ _ _ _ V)) as [R1 R2].
    pose proof dmin_eq_d0 as E1. pose proof dmax_eq_dlast as E2. unfold dlast in E2.
    apply norm3; try assumption; unfold S; lra.
  Qed.

  Lemma source_norm_node : forall u d, In (u, d) S -> user_to_norm (aconv a) u == N d.
  Proof.
    intros u d I. destruct (u_bounds u d I) as [H1 H2].
    rewrite (source_norm u H1 H2). apply sdn_comp. apply plm_map_node; [apply S_inc_from|exact I].
  Qed.

  Lemma segs : segs_ok A N u0 d0 rest.
  Proof.
    unfold A, N. apply build_segs with (uk := uk).
    - symmetry. apply (va_dflt _ _ _ _ _ _ _ _ V).
    - apply (va_inc _ _ _ _ _ _ _ _ V).
    - apply (va_nd _ _ _ _ _ _ _ _ V).
    - left. apply default_in_S.
    - rewrite (va_min _ _ _ _ _ _ _ _ V). apply Qle_refl.
    - rewrite (va_max _ _ _ _ _ _ _ _ V). apply Qle_refl.
    - rewrite dmin_eq_d0. apply Qle_refl.
    - rewrite dmax_eq_dlast. apply Qle_refl.
  Qed.

  Lemma A_mono : forall x y, amin a <= x -> x < y -> y <= amax a -> A x < A y.
  Proof. intros x y H1 H2 H3. destruct axis_bounds. apply sdn_strict; assumption. Qed.

  (* the (default normalisation, actual normalisation) pairs the code computes *)
  Definition code_nodes (dc : converter) : list pt :=
    map (fun p => (user_to_norm dc (fst p), user_to_norm (aconv a) (fst p))) S.

  Lemma code_nodes_ideal : forall dc,
    (forall u, amin a <= u -> u <= amax a -> user_to_norm dc u == A u) ->
    Forall2 pteq (code_nodes dc) (ideal_nodes A N S).
  Proof.
    intros dc H. unfold code_nodes, ideal_nodes. apply Forall2_map_in. intros [u d] I. cbn [fst snd].
    destruct (u_bounds u d I) as [H1 H2]. split; cbn [fst snd].
    - apply H; [rewrite (va_min _ _ _ _ _ _ _ _ V)|rewrite (va_max _ _ _ _ _ _ _ _ V)]; assumption.
    - apply source_norm_node. exact I.
  Qed.

  Lemma nodes_agree_source : forall u, u0 <= u -> u <= ulast ->
    avar_eval (ideal_nodes A N S) (A u) == user_to_norm (aconv a) u.
  Proof.
    intros u H1 H2. rewrite (source_norm u H1 H2). unfold S.
    apply lockstep_top with (lo := amin a) (hi := amax a).
    - intros; apply sdn_comp; assumption.
    - apply A_mono.
    - apply segs.
    - rewrite (va_min _ _ _ _ _ _ _ _ V). apply Qle_refl.
    - rewrite (va_max _ _ _ _ _ _ _ _ V). apply Qle_refl.
    - exact H1.
    - exact H2.
  Qed.

  (* the padded list evaluates like the unpadded one on [A u0, A ulast] *)
  Lemma padded_eval : forall dc ms,
    (forall u, amin a <= u -> u <= amax a -> user_to_norm dc u == A u) ->
    segment_nodes a = Some ms ->
    default_normalization (amin a) (adef a) (amax a) = Some dc ->
    forall u, u0 <= u -> u <= ulast -> avar_eval ms (A u) == avar_eval (code_nodes dc) (A u).
  Proof.
    intros dc ms HA Hs Hd u H1 H2. unfold segment_nodes in Hs. rewrite Hd in Hs.
    assert (u2d (aconv a) = S) as ES by (rewrite conv_shape; reflexivity).
    rewrite ES in Hs. fold (code_nodes dc) in Hs.
    pose proof (code_nodes_ideal dc HA) as F.
    (* facts about the code nodes *)
    assert (amin a <= u0 /\ ulast <= amax a) as [B1 B2].
    { rewrite (va_min _ _ _ _ _ _ _ _ V), (va_max _ _ _ _ _ _ _ _ V). split; apply Qle_refl. }
    pose proof (chain_lt_map A N (amin a) (amax a) A_mono rest u0 (va_inc _ _ _ _ _ _ _ _ V) B1 B2) as CI.
    unfold code_nodes, S in *. cbn [map fst snd] in *.
    set (f0 := user_to_norm dc u0) in *. set (t0 := user_to_norm (aconv a) u0) in *.
    set (mr := map (fun p => (user_to_norm dc (fst p), user_to_norm (aconv a) (fst p))) rest) in *.
    unfold ideal_nodes in F. cbn [map fst snd] in F. apply Forall2_cons_inv in F.
    destruct F as [[P0 P0'] F']. cbn [fst snd] in P0, P0'. fold (ideal_nodes A N rest) in F'.
    assert (chain Qlt f0 (map fst mr)) as CC by (apply (chain_lt_transfer mr _ f0 (A u0) P0 F' CI)).
    assert (fold_left (fun acc p => Qmin acc (fst p)) mr f0 == f0) as Emin
      by (apply fold_min_chain; [reflexivity|apply chain_lt_le; exact CC]).
    (* x is at least the first and at most the last `from` *)
    assert (f0 <= A u) as X1.
    { rewrite P0. destruct (Qlt_le_dec u0 u) as [L|G].
      - apply Qlt_le_weak. apply A_mono; lra.
      - assert (u == u0) as E by lra. unfold A. rewrite (sdn_comp _ _ _ u u0 E). apply Qle_refl. }
    assert (exists fl tl, In (fl, tl) ((f0, t0) :: mr) /\ A u <= fl) as [fl [tl [IL XL]]].
    { pose proof (lastq_in (map fst rest) u0) as J. fold ulast in J.
      change (u0 :: map fst rest) with (map fst ((u0, d0) :: rest)) in J. apply in_map_iff in J.
      destruct J as [[ul dl] [El J]]. cbn in El.
      exists (user_to_norm dc ul), (user_to_norm (aconv a) ul). split.
      - destruct J as [J|J]; [injection J as Eu Ed; rewrite <- Eu; left; reflexivity|].
        right. unfold mr. apply (in_map (fun p => (user_to_norm dc (fst p), user_to_norm (aconv a) (fst p))) rest (ul, dl) J).
      - rewrite HA; [|rewrite El; lra|rewrite El; lra].
        destruct (Qlt_le_dec u ulast) as [L|G].
        + apply Qlt_le_weak. apply A_mono; try lra; rewrite El; lra.
        + assert (u == ul) as E by (rewrite El; lra). unfold A. rewrite (sdn_comp _ _ _ u ul E). apply Qle_refl. }
    (* the two pads *)
    destruct (Qeq_bool (fold_left (fun acc p => Qmin acc (fst p)) mr f0) (-1)) eqn:Q1;
    destruct (Qeq_bool (fold_left (fun acc p => Qmax acc (snd p)) mr t0) 1) eqn:Q2;
    inversion Hs; subst ms; clear Hs.
    - reflexivity.
    - change (avar_eval (((f0, t0) :: mr) ++ [(1, 1)]) (A u) == avar_eval ((f0, t0) :: mr) (A u)).
      rewrite (avar_eval_app _ _ _ fl tl IL XL). reflexivity.
    - assert (-1 < f0) as L.
      { apply Qeq_bool_neq in Q1. rewrite Emin in Q1.
        assert (-1 <= f0).
        { rewrite P0. destruct axis_bounds. apply (proj1 (sdn_range _ _ _ u0 H H0 B1 ltac:(unfold ulast in *; pose proof (chain_le_last _ _ (chain_lt_le _ _ (va_inc _ _ _ _ _ _ _ _ V))); lra))). }
        destruct (Qlt_le_dec (-1) f0) as [L|G]; [exact L|]. exfalso. apply Q1. lra. }
      rewrite (avar_eval_front_pad f0 t0 mr (A u) L X1). reflexivity.
    - assert (-1 < f0) as L.
      { apply Qeq_bool_neq in Q1. rewrite Emin in Q1.
        assert (-1 <= f0).
        { rewrite P0. destruct axis_bounds. apply (proj1 (sdn_range _ _ _ u0 H H0 B1 ltac:(unfold ulast in *; pose proof (chain_le_last _ _ (chain_lt_le _ _ (va_inc _ _ _ _ _ _ _ _ V))); lra))). }
        destruct (Qlt_le_dec (-1) f0) as [L|G]; [exact L|]. exfalso. apply Q1. lra. }
      change (avar_eval (((-1, -1) :: (f0, t0) :: mr) ++ [(1, 1)]) (A u) == avar_eval ((f0, t0) :: mr) (A u)).
      rewrite (avar_eval_app ((-1, -1) :: (f0, t0) :: mr) [(1, 1)] (A u) fl tl (or_intror IL) XL).
      rewrite (avar_eval_front_pad f0 t0 mr (A u) L X1). reflexivity.
  Qed.

  (* MAIN: fvar default normalisation followed by the (unquantised) avar map
     is the source's user -> design -> normalized conversion, for every user
     coordinate of the axis range. *)
  Theorem ideal_agreement : exists segs,
    segment_map_ideal a = Some segs /\
    forall u, amin a <= u -> u <= amax a ->
      avar_eval segs (spec_default_norm (amin a) (adef a) (amax a) u) == user_to_norm (aconv a) u.
  Proof.
    destruct axis_bounds as [AB1 AB2].
    destruct (default_norm_sdn (amin a) (adef a) (amax a) AB1 AB2) as [dc [Hd HA]].
    assert (exists ms, segment_nodes a = Some ms) as [ms Hs].
    { unfold segment_nodes. rewrite Hd. rewrite conv_shape. cbn [u2d]. unfold S. cbn [map].
      destruct (Qeq_bool _ (-1)); destruct (Qeq_bool _ 1); eexists; reflexivity. }
    unfold segment_map_ideal. rewrite Hs. eexists. split; [reflexivity|].
    intros u H1 H2.
    assert (u0 <= u /\ u <= ulast) as [G1 G2].
    { rewrite <- (va_min _ _ _ _ _ _ _ _ V). unfold ulast. rewrite <- (va_max _ _ _ _ _ _ _ _ V). split; assumption. }
    pose proof (spec_sdn (amin a) (adef a) (amax a) u H1 H2) as Ex. fold A in Ex.
    pose proof (padded_eval dc ms HA Hs Hd u G1 G2) as P.
    pose proof (avar_eval_comp _ _ (A u) (A u) (Qeq_refl _) (code_nodes_ideal dc HA)) as Q.
    pose proof (nodes_agree_source u G1 G2) as R.
    destruct (is_identity_q ms) eqn:I.
    - (* identity short cut *)
      apply is_identity_q_all_id in I.
      assert (all_id default_segment_map) as I'.
      { intros p [J|[J|[J|[]]]]; subst; reflexivity. }
      rewrite (avar_eval_id _ _ I'). rewrite Ex.
      rewrite <- (avar_eval_id ms (A u) I). rewrite P, Q, R. reflexivity.
    - rewrite (avar_eval_comp ms ms _ (A u) Ex (Forall2_pteq_refl ms)). rewrite P, Q, R. reflexivity.
  Qed.


  (* every row's node is in the padded list *)
  Lemma nodes_in_padded : forall dc ms,
    segment_nodes a = Some ms ->
    default_normalization (amin a) (adef a) (amax a) = Some dc ->
    forall u d, In (u, d) S -> In (user_to_norm dc u, user_to_norm (aconv a) u) ms.
  Proof.
    intros dc ms Hs Hd u d I. unfold segment_nodes in Hs. rewrite Hd in Hs.
    assert (u2d (aconv a) = S) as ES by (rewrite conv_shape; reflexivity).
    rewrite ES in Hs.
    pose proof (in_map (fun p => (user_to_norm dc (fst p), user_to_norm (aconv a) (fst p))) S (u, d) I) as J.
    cbn [fst] in J. unfold S in *. cbn [map] in *.
    destruct (Qeq_bool _ (-1)); destruct (Qeq_bool _ 1); inversion Hs; subst ms.
    - exact J.
    - destruct J as [J|J]; [left; exact J|right; apply in_or_app; left; exact J].
    - right. exact J.
    - right. destruct J as [J|J]; [left; exact J|right; apply in_or_app; left; exact J].
  Qed.

  (* the source's own normalisation: user -> design by the rows, then default -> 0,
     design of the axis minimum -> -1, design of the axis maximum -> +1 *)
  Lemma source_norm_design : forall u, amin a <= u -> u <= amax a ->
    user_to_norm (aconv a) u == spec_default_norm d0 dk dlast (plm_map S u).
  Proof.
    intros u H1 H2.
    assert (u0 <= u /\ u <= ulast) as [G1 G2].
    { rewrite <- (va_min _ _ _ _ _ _ _ _ V). unfold ulast. rewrite <- (va_max _ _ _ _ _ _ _ _ V). split; assumption. }
    rewrite (source_norm u G1 G2).
    destruct (plm_map_range u0 d0 rest u G1 G2 (va_nd _ _ _ _ _ _ _ _ V)) as [R1 R2]. fold S dlast in R1, R2.
    rewrite (spec_sdn d0 dk dlast _ R1 R2). unfold N.
    apply sdn_comp_all; [apply dmin_eq_d0|reflexivity|apply dmax_eq_dlast|reflexivity].
  Qed.

  (* named instances: a design location inside the axis' design range maps into the user range *)
  Lemma instance_user_range : forall d, d0 <= d -> d <= dlast ->
    amin a <= design_to_user (aconv a) d /\ design_to_user (aconv a) d <= amax a.
  Proof.
    intros d H1 H2. rewrite conv_shape. unfold design_to_user. cbn [d2u].
    rewrite (plm_reverse_monotone S S_inc_from (va_nd _ _ _ _ _ _ _ _ V)).
    unfold S. cbn [map]. change (swap (u0, d0)) with (d0, u0).
    rewrite (va_min _ _ _ _ _ _ _ _ V), (va_max _ _ _ _ _ _ _ _ V).
    rewrite <- (map_swap_snd rest).
    apply plm_map_range.
    - exact H1.
    - rewrite map_swap_fst. exact H2.
    - rewrite (map_swap_snd rest). apply chain_lt_le. apply (va_inc _ _ _ _ _ _ _ _ V).
  Qed.

  (* ---------------------------------------------------------------- *)
  (* well-formedness of the segment map                                *)

  (* no flat run of design values from the default's row to an end of the axis *)
  Hypothesis ND1 : u0 < uk -> d0 < dk.
  Hypothesis ND2 : uk < ulast -> dk < dlast.

  Lemma S_unique : forall u u' d d', In (u, d) S -> In (u', d') S -> u == u' -> d == d'.
  Proof.
    intros u u' d d' I I' E.
    rewrite <- (plm_map_node S u d S_inc_from I), <- (plm_map_node S u' d' S_inc_from I').
    apply plm_map_comp. exact E.
  Qed.

  Lemma last_in_S : In (ulast, dlast) S.
  Proof. unfold ulast, dlast, S. apply last_pair_in. Qed.

  Lemma N_mono : forall x y, dmin <= x -> x <= y -> y <= dmax -> N x <= N y.
  Proof. intros x y H1 H2 H3. destruct dk_bounds. unfold N. apply sdn_mono; assumption. Qed.

  Definition in_unit (p : pt) : Prop := -1 <= fst p /\ fst p <= 1 /\ -1 <= snd p /\ snd p <= 1.

  Definition wfP (l : list pt) : Prop :=
    (exists q, In q l /\ pteq (-1, -1) q) /\ (exists q, In q l /\ pteq (0, 0) q) /\ (exists q, In q l /\ pteq (1, 1) q)
    /\ match l with [] => False | p :: t => chain Qlt (fst p) (map fst t) /\ chain Qle (snd p) (map snd t) end
    /\ Forall in_unit l.

  Lemma wfP_intro : forall p t,
    (exists q, In q (p :: t) /\ pteq (-1, -1) q) -> (exists q, In q (p :: t) /\ pteq (0, 0) q) ->
    (exists q, In q (p :: t) /\ pteq (1, 1) q) ->
    chain Qlt (fst p) (map fst t) -> chain Qle (snd p) (map snd t) -> Forall in_unit (p :: t) -> wfP (p :: t).
  Proof. intros p t H1 H2 H3 H4 H5 H6. unfold wfP. tauto. Qed.

  Lemma wfP_bool : forall l, wfP l -> segmap_wf l = true.
  Proof.
    intros l ((q1 & I1 & P1) & (q2 & I2 & P2) & (q3 & I3 & P3) & C & F). unfold segmap_wf.
    rewrite (has_pt_in _ _ _ I1 P1), (has_pt_in _ _ _ I2 P2), (has_pt_in _ _ _ I3 P3). cbn [andb].
    destruct l as [|p t]; [contradiction|]. destruct C as [C1 C2]. cbn [map].
    rewrite (increasing_chain _ _ C1), (nondecreasing_chain _ _ C2). cbn [andb].
    apply forallb_forall. intros x Ix. rewrite Forall_forall in F. destruct (F x Ix) as (A1 & A2 & A3 & A4).
    rewrite (proj2 (Qle_bool_iff _ _) A1), (proj2 (Qle_bool_iff _ _) A2), (proj2 (Qle_bool_iff _ _) A3), (proj2 (Qle_bool_iff _ _) A4).
    reflexivity.
  Qed.

  Lemma nodes_wf : forall dc ms,
    (forall u, amin a <= u -> u <= amax a -> user_to_norm dc u == A u) ->
    segment_nodes a = Some ms ->
    default_normalization (amin a) (adef a) (amax a) = Some dc ->
    wfP ms.
  Proof.
    intros dc ms HA Hs Hd. unfold segment_nodes in Hs. rewrite Hd in Hs.
    assert (u2d (aconv a) = S) as ES by (rewrite conv_shape; reflexivity).
    rewrite ES in Hs. fold (code_nodes dc) in Hs.
    pose proof (code_nodes_ideal dc HA) as F.
    destruct axis_bounds as [AB1 AB2]. destruct dk_bounds as [DK1 DK2].
    pose proof dmin_eq_d0 as ED0. pose proof dmax_eq_dlast as EDL.
    pose proof (va_min _ _ _ _ _ _ _ _ V) as Emn. pose proof (va_max _ _ _ _ _ _ _ _ V) as Emx.
    pose proof (va_dflt _ _ _ _ _ _ _ _ V) as Edf. fold ulast in Emx.
    assert (amin a <= u0 /\ ulast <= amax a) as [B1 B2] by (rewrite Emn, Emx; split; apply Qle_refl).
    pose proof (chain_le_last _ _ (chain_lt_le _ _ (va_inc _ _ _ _ _ _ _ _ V))) as UL. fold ulast in UL.
    pose proof (chain_le_last _ _ (va_nd _ _ _ _ _ _ _ _ V)) as DL. fold dlast in DL.
    pose proof (chain_lt_map A N (amin a) (amax a) A_mono rest u0 (va_inc _ _ _ _ _ _ _ _ V) B1 B2) as CI.
    assert (dmin <= d0 /\ dlast <= dmax) as [B3 B4] by (rewrite ED0, EDL; split; apply Qle_refl).
    pose proof (chain_le_map A N dmin dmax N_mono rest d0 (va_nd _ _ _ _ _ _ _ _ V) B3 B4) as CJ.
    destruct (u_bounds uk dk default_in_S) as [UK1 UK2]. fold ulast in UK2.
    (* all nodes are in the unit square *)
    assert (Forall in_unit (code_nodes dc)) as FU.
    { apply Forall_forall. intros q Iq. unfold code_nodes in Iq. apply in_map_iff in Iq.
      destruct Iq as [[u d] [Eq Iq]]. subst q. cbn [fst snd]. unfold in_unit. cbn [fst snd].
      destruct (u_bounds u d Iq) as [X1 X2]. fold ulast in X2. destruct (dmin_lower u d Iq) as [X3 X4].
      rewrite (HA u ltac:(lra) ltac:(lra)). rewrite (source_norm_node u d Iq).
      destruct (sdn_range (amin a) (adef a) (amax a) u AB1 AB2 ltac:(lra) ltac:(lra)).
      destruct (sdn_range dmin dk dmax d DK1 DK2 X3 X4). unfold A, N. repeat split; assumption. }
    (* the default's node is (0,0) *)
    assert (exists q, In q (code_nodes dc) /\ pteq (0, 0) q) as Z.
    { exists (user_to_norm dc uk, user_to_norm (aconv a) uk). split.
      - unfold code_nodes. apply (in_map (fun p => (user_to_norm dc (fst p), user_to_norm (aconv a) (fst p))) S (uk, dk) default_in_S).
      - split; cbn [fst snd]; symmetry.
        + rewrite (HA uk ltac:(lra) ltac:(lra)). unfold A. apply sdn_mid. symmetry. exact Edf.
        + rewrite (source_norm_node uk dk default_in_S). unfold N. apply sdn_mid. reflexivity. }
    unfold code_nodes, S in *. cbn [map fst snd] in *.
    set (f0 := user_to_norm dc u0) in *. set (t0 := user_to_norm (aconv a) u0) in *.
    set (mr := map (fun p => (user_to_norm dc (fst p), user_to_norm (aconv a) (fst p))) rest) in *.
    unfold ideal_nodes in F. cbn [map fst snd] in F. apply Forall2_cons_inv in F.
    destruct F as [[P0 P0'] F']. cbn [fst snd] in P0, P0'. fold (ideal_nodes A N rest) in F'.
    assert (chain Qlt f0 (map fst mr)) as CC by (apply (chain_lt_transfer mr _ f0 (A u0) P0 F' CI)).
    assert (chain Qle t0 (map snd mr)) as CD by (apply (chain_le_transfer_snd mr _ t0 (N d0) P0' F' CJ)).
    assert (fold_left (fun acc p => Qmin acc (fst p)) mr f0 == f0) as Emin
      by (apply fold_min_chain; [reflexivity|apply chain_lt_le; exact CC]).
    assert (fold_left (fun acc p => Qmax acc (snd p)) mr t0 == lastq t0 (map snd mr)) as Emax
      by (apply fold_max_chain; [reflexivity|exact CD]).
    set (fl := lastq f0 (map fst mr)) in *. set (tl := lastq t0 (map snd mr)) in *.
    assert (fl == A ulast /\ tl == N dlast) as [Efl Etl].
    { destruct (lastq_map_comp mr _ t0 (N d0) P0' F') as [R1 _].
      destruct (lastq_map_comp mr _ f0 (A u0) P0 F') as [_ R2].
      destruct (lastq_ideal A N rest u0 d0) as [R3 R4]. unfold fl, tl, ulast, dlast.
      rewrite R1, R2, R3, R4. split; reflexivity. }
    assert (In (fl, tl) ((f0, t0) :: mr)) as IL by (apply last_pair_in).
    (* head *)
    assert ((f0 == -1 /\ t0 == -1) \/ f0 == 0) as HD.
    { destruct (Qlt_le_dec (amin a) (adef a)) as [L|G].
      - left. split.
        + rewrite P0. unfold A. apply sdn_lo; [exact L|symmetry; exact Emn].
        + rewrite P0'. unfold N. apply sdn_lo; [|symmetry; exact ED0].
          assert (d0 < dk) by (apply ND1; lra). lra.
      - right. rewrite P0. unfold A. apply sdn_mid. lra. }
    (* tail *)
    assert ((fl == 1 /\ tl == 1) \/ (fl == 0 /\ tl == 0)) as TL.
    { destruct (Qlt_le_dec dk dmax) as [L|G].
      - left. assert (uk < ulast) as UU.
        { destruct (Qlt_le_dec uk ulast) as [X|X]; [exact X|]. exfalso.
          assert (dk == dlast) by (apply (S_unique uk ulast dk dlast default_in_S last_in_S); lra). lra. }
        split.
        + rewrite Efl. unfold A. apply sdn_hi; lra.
        + rewrite Etl. unfold N. apply sdn_hi; [exact L|symmetry; exact EDL].
      - right. assert (~ uk < ulast) as NU by (intro X; apply ND2 in X; lra).
        split.
        + rewrite Efl. unfold A. apply sdn_mid. lra.
        + rewrite Etl. unfold N. apply sdn_mid. lra. }
    assert (-1 <= f0 /\ -1 <= t0) as [LF LT].
    { rewrite Forall_forall in FU. destruct (FU (f0, t0) (or_introl eq_refl)) as (X1 & X2 & X3 & X4). split; assumption. }
    destruct Z as [z [Iz Pz]].
    destruct (Qeq_bool (fold_left (fun acc p => Qmin acc (fst p)) mr f0) (-1)) eqn:Q1;
    destruct (Qeq_bool (fold_left (fun acc p => Qmax acc (snd p)) mr t0) 1) eqn:Q2;
    inversion Hs; subst ms; clear Hs;
    try (apply Qeq_bool_iff in Q1; rewrite Emin in Q1);
    try (apply Qeq_bool_neq in Q1; rewrite Emin in Q1);
    try (apply Qeq_bool_iff in Q2; rewrite Emax in Q2);
    try (apply Qeq_bool_neq in Q2; rewrite Emax in Q2).
    - (* no padding *)
      destruct HD as [[HD1 HD2]|HD]; [|lra]. destruct TL as [[TL1 TL2]|[TL1 TL2]]; [|lra].
      apply wfP_intro; cbn [fst snd].
      + exists (f0, t0). split; [left; reflexivity|split; cbn [fst snd]; symmetry; assumption].
      + exists z. split; assumption.
      + exists (fl, tl). split; [exact IL|split; cbn [fst snd]; symmetry; assumption].
      + exact CC.
      + exact CD.
      + exact FU.
    - (* (1,1) appended *)
      destruct HD as [[HD1 HD2]|HD]; [|lra]. destruct TL as [[TL1 TL2]|[TL1 TL2]]; [exfalso; apply Q2; exact TL2|].
      change (wfP ((f0, t0) :: (mr ++ [(1, 1)]))). apply wfP_intro; cbn [fst snd].
      + exists (f0, t0). split; [left; reflexivity|split; cbn [fst snd]; symmetry; assumption].
      + exists z. split; [|exact Pz]. destruct Iz as [Iz|Iz]; [left; exact Iz|right; apply in_or_app; left; exact Iz].
      + exists (1, 1). split; [right; apply in_or_app; right; left; reflexivity|split; reflexivity].
      + rewrite map_app. cbn [map fst]. apply chain_app; [exact CC|]. fold fl. lra.
      + rewrite map_app. cbn [map snd]. apply chain_app; [exact CD|]. fold tl. lra.
      + constructor; [inversion FU; assumption|]. apply Forall_app. split; [inversion FU; assumption|].
        constructor; [|constructor]. unfold in_unit. cbn [fst snd]. lra.
    - (* (-1,-1) prepended *)
      destruct HD as [[HD1 HD2]|HD]; [exfalso; apply Q1; exact HD1|]. destruct TL as [[TL1 TL2]|[TL1 TL2]]; [|lra].
      apply wfP_intro; cbn [fst snd].
      + exists (-1, -1). split; [left; reflexivity|split; reflexivity].
      + exists z. split; [right; exact Iz|exact Pz].
      + exists (fl, tl). split; [right; exact IL|split; cbn [fst snd]; symmetry; assumption].
      + cbn [map fst]. split; [lra|exact CC].
      + cbn [map snd]. split; [lra|exact CD].
      + constructor; [unfold in_unit; cbn [fst snd]; lra|exact FU].
    - (* both *)
      destruct HD as [[HD1 HD2]|HD]; [exfalso; apply Q1; exact HD1|].
      destruct TL as [[TL1 TL2]|[TL1 TL2]]; [exfalso; apply Q2; exact TL2|].
      change (wfP ((-1, -1) :: (f0, t0) :: (mr ++ [(1, 1)]))). apply wfP_intro; cbn [fst snd].
      + exists (-1, -1). split; [left; reflexivity|split; reflexivity].
      + exists z. split; [|exact Pz]. right. destruct Iz as [Iz|Iz]; [left; exact Iz|right; apply in_or_app; left; exact Iz].
      + exists (1, 1). split; [right; right; apply in_or_app; right; left; reflexivity|split; reflexivity].
      + cbn [map fst]. split; [lra|]. rewrite map_app. cbn [map fst]. apply chain_app; [exact CC|]. fold fl. lra.
      + cbn [map snd]. split; [lra|]. rewrite map_app. cbn [map snd]. apply chain_app; [exact CD|]. fold tl. lra.
      + constructor; [unfold in_unit; cbn [fst snd]; lra|].
        constructor; [inversion FU; assumption|]. apply Forall_app. split; [inversion FU; assumption|].
        constructor; [|constructor]. unfold in_unit. cbn [fst snd]. lra.
  Qed.


  Lemma wfP_default : wfP default_segment_map.
  Proof.
    unfold default_segment_map. apply wfP_intro; cbn [fst snd map].
    - exists (-1, -1). split; [left; reflexivity|split; reflexivity].
    - exists (0, 0). split; [right; left; reflexivity|split; reflexivity].
    - exists (1, 1). split; [right; right; left; reflexivity|split; reflexivity].
    - cbn. repeat split; reflexivity.
    - cbn. repeat split; discriminate.
    - repeat constructor; cbn; discriminate.
  Qed.

  Theorem ideal_wfP : exists segs, segment_map_ideal a = Some segs /\ wfP segs.
  Proof.
    destruct axis_bounds as [AB1 AB2].
    destruct (default_norm_sdn (amin a) (adef a) (amax a) AB1 AB2) as [dc [Hd HA]].
    assert (exists ms, segment_nodes a = Some ms) as [ms Hs].
    { unfold segment_nodes. rewrite Hd. rewrite conv_shape. cbn [u2d]. unfold S. cbn [map].
      destruct (Qeq_bool _ (-1)); destruct (Qeq_bool _ 1); eexists; reflexivity. }
    unfold segment_map_ideal. rewrite Hs. eexists. split; [reflexivity|].
    destruct (is_identity_q ms); [apply wfP_default|].
    apply (nodes_wf dc ms HA Hs Hd).
  Qed.

  Theorem ideal_wf : exists segs, segment_map_ideal a = Some segs /\ segmap_wf segs = true.
  Proof.
    destruct axis_bounds as [AB1 AB2].
    destruct (default_norm_sdn (amin a) (adef a) (amax a) AB1 AB2) as [dc [Hd HA]].
    assert (exists ms, segment_nodes a = Some ms) as [ms Hs].
    { unfold segment_nodes. rewrite Hd. rewrite conv_shape. cbn [u2d]. unfold S. cbn [map].
      destruct (Qeq_bool _ (-1)); destruct (Qeq_bool _ 1); eexists; reflexivity. }
    unfold segment_map_ideal. rewrite Hs. eexists. split; [reflexivity|].
    destruct (is_identity_q ms); [reflexivity|].
    apply wfP_bool. apply (nodes_wf dc ms HA Hs Hd).
  Qed.
End Valid.
