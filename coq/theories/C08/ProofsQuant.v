(* C08 — F2Dot14 / 16.16 conversion: monotone, exact on -1, 0, 1, error at most
   half a unit; what survives of the segment map after quantisation; fvar. *)
From Coq Require Import List ZArith QArith Qround Qabs Qminmax Bool Lqa Lia Permutation Setoid Morphisms.
From FV.C08 Require Import Model ProofsPlm ProofsAxis ProofsMain.
Import ListNotations.
Open Scope Q_scope.

(* ------------------------------------------------------------------ *)
(* rounding                                                             *)

(* round half away from zero, before saturation *)
Definition rnd (one : Z) (x : Q) : Z :=
  if Qle_bool 0 x then Qfloor (x * inject_Z one + (1#2)) else Qceiling (x * inject_Z one - (1#2)).

Lemma fix_unfold : forall one lo hi x, (0 < one)%Z -> fix_from_q one lo hi x = sat lo hi (rnd one x).
Proof.
  intros one lo hi x H1. unfold fix_from_q, rnd, trunc.
  assert (0 < inject_Z one) as P by (change 0 with (inject_Z 0); rewrite <- Zlt_Qlt; exact H1).
  destruct (Qle_bool 0 x) eqn:E.
  - apply Qle_bool_iff in E.
    assert (0 <= x * inject_Z one + (1 # 2)) as G by nra.
    apply Qle_bool_iff in G. rewrite G. reflexivity.
  - assert (x < 0) as L.
    { destruct (Qlt_le_dec x 0) as [L|G]; [exact L|]. apply Qle_bool_iff in G. rewrite G in E. discriminate. }
    assert (Qle_bool 0 (x * inject_Z one - (1 # 2)) = false) as G.
    { destruct (Qle_bool 0 (x * inject_Z one - (1 # 2))) eqn:G; [|reflexivity].
      apply Qle_bool_iff in G. exfalso. nra. }
    rewrite G. reflexivity.
Qed.

Lemma rnd_mono : forall one x y, (0 < one)%Z -> x <= y -> (rnd one x <= rnd one y)%Z.
Proof.
  intros one x y H1 H. unfold rnd.
  assert (0 < inject_Z one) as P by (change 0 with (inject_Z 0); rewrite <- Zlt_Qlt; exact H1).
  destruct (Qle_bool 0 x) eqn:Ex; destruct (Qle_bool 0 y) eqn:Ey.
  - apply Qfloor_resp_le. nra.
  - apply Qle_bool_iff in Ex. assert (Qle_bool 0 y = true) as K by (apply Qle_bool_iff; lra). rewrite K in Ey. discriminate.
  - assert (x < 0) as L.
    { destruct (Qlt_le_dec x 0) as [L|G]; [exact L|]. apply Qle_bool_iff in G. rewrite G in Ex. discriminate. }
    apply Qle_bool_iff in Ey.
    apply Z.le_trans with 0%Z.
    + assert (Qceiling (x * inject_Z one - (1 # 2)) <= Qceiling 0)%Z as K by (apply Qceiling_resp_le; nra).
      exact K.
    + assert (Qfloor 0 <= Qfloor (y * inject_Z one + (1 # 2)))%Z as K by (apply Qfloor_resp_le; nra).
      exact K.
  - apply Qceiling_resp_le. nra.
Qed.

Lemma sat_mono : forall lo hi a b, (a <= b)%Z -> (sat lo hi a <= sat lo hi b)%Z.
Proof. intros lo hi a b H. unfold sat. lia. Qed.

Lemma fix_mono : forall one lo hi x y, (0 < one)%Z -> x <= y -> (fix_from_q one lo hi x <= fix_from_q one lo hi y)%Z.
Proof.
  intros one lo hi x y H1 H. rewrite !fix_unfold by exact H1. apply sat_mono. apply rnd_mono; assumption.
Qed.

Lemma rnd_comp : forall one x y, x == y -> rnd one x = rnd one y.
Proof.
  intros one x y E. unfold rnd.
  assert (Qle_bool 0 x = Qle_bool 0 y) as K.
  { destruct (Qle_bool 0 x) eqn:A; destruct (Qle_bool 0 y) eqn:B; try reflexivity.
    - apply Qle_bool_iff in A. rewrite E in A. apply Qle_bool_iff in A. rewrite A in B. discriminate.
    - apply Qle_bool_iff in B. rewrite <- E in B. apply Qle_bool_iff in B. rewrite B in A. discriminate. }
  rewrite K. destruct (Qle_bool 0 y).
  - apply Qfloor_comp. rewrite E. reflexivity.
  - apply Qceiling_comp. rewrite E. reflexivity.
Qed.

Lemma fix_comp : forall one lo hi x y, (0 < one)%Z -> x == y -> fix_from_q one lo hi x = fix_from_q one lo hi y.
Proof. intros one lo hi x y H1 E. rewrite !fix_unfold by exact H1. rewrite (rnd_comp one x y E). reflexivity. Qed.

(* half a unit *)
Lemma rnd_error : forall one x, (0 < one)%Z ->
  Qabs (inject_Z (rnd one x) - x * inject_Z one) <= 1 # 2.
Proof.
  intros one x H1. unfold rnd. apply Qabs_Qle_condition. destruct (Qle_bool 0 x).
  - pose proof (Qfloor_le (x * inject_Z one + (1 # 2))) as A.
    pose proof (Qlt_floor (x * inject_Z one + (1 # 2))) as B.
    rewrite inject_Z_plus in B. change (inject_Z 1) with 1 in B. split; lra.
  - pose proof (Qle_ceiling (x * inject_Z one - (1 # 2))) as A.
    pose proof (Qceiling_lt (x * inject_Z one - (1 # 2))) as B.
    unfold Z.sub in B. rewrite inject_Z_plus in B. change (inject_Z (Z.opp 1)) with (-1) in B. split; lra.
Qed.

Lemma f2dot14_mono : forall x y, x <= y -> (f2dot14 x <= f2dot14 y)%Z.
Proof. intros. apply fix_mono; [reflexivity|assumption]. Qed.
Lemma fixed16_mono : forall x y, x <= y -> (fixed16 x <= fixed16 y)%Z.
Proof. intros. apply fix_mono; [reflexivity|assumption]. Qed.
Lemma f2dot14_comp : forall x y, x == y -> f2dot14 x = f2dot14 y.
Proof. intros. apply fix_comp; [reflexivity|assumption]. Qed.

Lemma f2dot14_m1 : f2dot14 (-1) = (-16384)%Z. Proof. reflexivity. Qed.
Lemma f2dot14_0 : f2dot14 0 = 0%Z. Proof. reflexivity. Qed.
Lemma f2dot14_1 : f2dot14 1 = 16384%Z. Proof. reflexivity. Qed.

Definition q14 (x : Q) : Q := of_f2dot14 (f2dot14 x).
Definition q16 (x : Q) : Q := of_fixed16 (fixed16 x).

Lemma f2dot14_unit : forall x, -1 <= x -> x <= 1 -> (-16384 <= f2dot14 x <= 16384)%Z.
Proof.
  intros x H1 H2. rewrite <- f2dot14_m1, <- f2dot14_1. split; apply f2dot14_mono; assumption.
Qed.

Lemma of_f2dot14_mono : forall a b, (a <= b)%Z -> of_f2dot14 a <= of_f2dot14 b.
Proof.
  intros a b H. unfold of_f2dot14. apply Qmult_le_compat_r; [|discriminate]. rewrite <- Zle_Qle. exact H.
Qed.

Lemma of_f2dot14_strict : forall a b, (a < b)%Z -> of_f2dot14 a < of_f2dot14 b.
Proof.
  intros a b H. unfold of_f2dot14. apply Qmult_lt_compat_r; [reflexivity|]. rewrite <- Zlt_Qlt. exact H.
Qed.

Lemma q14_mono : forall x y, x <= y -> q14 x <= q14 y.
Proof. intros x y H. unfold q14. apply of_f2dot14_mono. apply f2dot14_mono. exact H. Qed.

Lemma q14_comp : forall x y, x == y -> q14 x == q14 y.
Proof. intros x y E. unfold q14. rewrite (f2dot14_comp x y E). reflexivity. Qed.

Lemma q14_m1 : q14 (-1) == -1. Proof. reflexivity. Qed.
Lemma q14_0 : q14 0 == 0. Proof. reflexivity. Qed.
Lemma q14_1 : q14 1 == 1. Proof. reflexivity. Qed.

Lemma q14_unit : forall x, -1 <= x -> x <= 1 -> -1 <= q14 x /\ q14 x <= 1.
Proof.
  intros x H1 H2. split.
  - rewrite <- q14_m1. apply q14_mono. exact H1.
  - rewrite <- q14_1. apply q14_mono. exact H2.
Qed.

(* inside [-1,1] nothing saturates and the error is at most 2^-15 *)
Lemma q14_error : forall x, -1 <= x -> x <= 1 -> Qabs (q14 x - x) <= 1 # 32768.
Proof.
  intros x H1 H2. unfold q14, f2dot14. rewrite fix_unfold by reflexivity.
  assert (-16384 <= rnd 16384 x <= 16384)%Z as R.
  { assert (rnd 16384 (-1) = (-16384)%Z) as Ea by reflexivity. assert (rnd 16384 1 = 16384%Z) as Eb by reflexivity.
    pose proof (rnd_mono 16384 (-1) x ltac:(reflexivity) H1). pose proof (rnd_mono 16384 x 1 ltac:(reflexivity) H2). lia. }
  assert (sat (-32768) 32767 (rnd 16384 x) = rnd 16384 x) as Es by (unfold sat; lia).
  rewrite Es. pose proof (rnd_error 16384 x ltac:(reflexivity)) as E.
  apply Qabs_Qle_condition in E. destruct E as [E1 E2].
  apply Qabs_Qle_condition. unfold of_f2dot14. change (inject_Z 16384) with 16384 in *.
  set (r := inject_Z (rnd 16384 x)) in *.
  assert (r == (r / 16384) * 16384) as Er by field.
  rewrite Er in E1, E2. split; lra.
Qed.

Lemma q16_error : forall x, -32767 <= x -> x <= 32767 -> Qabs (q16 x - x) <= 1 # 131072.
Proof.
  intros x H1 H2. unfold q16, fixed16. rewrite fix_unfold by reflexivity.
  assert (-2147418112 <= rnd 65536 x <= 2147418112)%Z as R.
  { assert (rnd 65536 (-32767) = (-2147418112)%Z) as Ea by reflexivity. assert (rnd 65536 32767 = 2147418112%Z) as Eb by reflexivity.
    pose proof (rnd_mono 65536 (-32767) x ltac:(reflexivity) H1). pose proof (rnd_mono 65536 x 32767 ltac:(reflexivity) H2). lia. }
  assert (sat (-2147483648) 2147483647 (rnd 65536 x) = rnd 65536 x) as Es by (unfold sat; lia).
  rewrite Es. pose proof (rnd_error 65536 x ltac:(reflexivity)) as E.
  apply Qabs_Qle_condition in E. destruct E as [E1 E2].
  apply Qabs_Qle_condition. unfold of_fixed16. change (inject_Z 65536) with 65536 in *.
  set (r := inject_Z (rnd 65536 x)) in *.
  assert (r == (r / 65536) * 65536) as Er by field.
  rewrite Er in E1, E2. split; lra.
Qed.

(* ------------------------------------------------------------------ *)
(* the quantised segment map                                            *)

Definition qpt (p : pt) : pt := (q14 (fst p), q14 (snd p)).

Lemma dequantise_quantise : forall l, dequantise (quantise l) = map qpt l.
Proof.
  induction l as [|p t IH]; [reflexivity|]. unfold dequantise, quantise in *. cbn [map fst snd].
  rewrite IH. reflexivity.
Qed.

Lemma chain_le_q14 : forall l x, chain Qle x l -> chain Qle (q14 x) (map q14 l).
Proof.
  induction l as [|a t IH]; intros x C; [exact I|].
  destruct C as [C1 C2]. split; [apply q14_mono; exact C1|apply IH; exact C2].
Qed.

Lemma map_fst_qpt : forall l, map fst (map qpt l) = map q14 (map fst l).
Proof. induction l as [|p t IH]; [reflexivity|]. cbn [map]. rewrite IH. reflexivity. Qed.
Lemma map_snd_qpt : forall l, map snd (map qpt l) = map q14 (map snd l).
Proof. induction l as [|p t IH]; [reflexivity|]. cbn [map]. rewrite IH. reflexivity. Qed.

Lemma wfP_quantised : forall l, wfP l -> segmap_wf_weak (map qpt l) = true.
Proof.
  intros l ((q1 & I1 & P1) & (q2 & I2 & P2) & (q3 & I3 & P3) & C & F).
  unfold segmap_wf_weak.
  assert (forall c q, In q l -> pteq (c, c) q -> q14 c == c -> has_pt (c, c) (map qpt l) = true) as K.
  { intros c q Iq [E1 E2] Ec. cbn [fst snd] in E1, E2.
    apply has_pt_in with (q := qpt q); [apply in_map; exact Iq|].
    unfold qpt. split; cbn [fst snd].
    - rewrite <- (q14_comp c (fst q) E1). symmetry. exact Ec.
    - rewrite <- (q14_comp c (snd q) E2). symmetry. exact Ec. }
  rewrite (K (-1) q1 I1 P1 q14_m1), (K 0 q2 I2 P2 q14_0), (K 1 q3 I3 P3 q14_1). cbn [andb].
  destruct l as [|p t]; [contradiction|]. destruct C as [C1 C2].
  rewrite map_fst_qpt, map_snd_qpt. cbn [map].
  rewrite (nondecreasing_chain _ _ (chain_le_q14 _ _ (chain_lt_le _ _ C1))).
  rewrite (nondecreasing_chain _ _ (chain_le_q14 _ _ C2)). cbn [andb].
  apply forallb_forall. intros x Ix. change (qpt p :: map qpt t) with (map qpt (p :: t)) in Ix.
  apply in_map_iff in Ix. destruct Ix as [y [Ey Iy]]. subst x.
  rewrite Forall_forall in F. destruct (F y Iy) as (A1 & A2 & A3 & A4).
  unfold qpt. cbn [fst snd].
  destruct (q14_unit (fst y) A1 A2) as [B1 B2]. destruct (q14_unit (snd y) A3 A4) as [B3 B4].
  rewrite (proj2 (Qle_bool_iff _ _) B1), (proj2 (Qle_bool_iff _ _) B2), (proj2 (Qle_bool_iff _ _) B3), (proj2 (Qle_bool_iff _ _) B4).
  reflexivity.
Qed.

(* value at a record of a map whose `from` values strictly increase *)
Lemma avar_go_node : forall l pf pt_ f t,
  pf < f -> chain Qlt pf (map fst l) -> In (f, t) l -> avar_go pf pt_ l f == t.
Proof.
  induction l as [|[f1 t1] r IH]; intros pf pt_ f t Hp C I; [contradiction|].
  cbn [map fst] in C. destruct C as [C1 C2]. cbn [avar_go].
  destruct I as [I|I].
  - inversion I; subst. rewrite (cmp_eq f f (Qeq_refl f)). reflexivity.
  - assert (f1 < f) as L.
    { apply chain_lt_lower with (map fst r); [exact C2|]. change f with (fst (f, t)). apply in_map. exact I. }
    rewrite (cmp_gt _ _ L). apply IH; assumption.
Qed.

Lemma avar_eval_node : forall l f t, inc_from l -> In (f, t) l -> avar_eval l f == t.
Proof.
  intros [|[f1 t1] r] f t C I; [contradiction|].
  cbn [avar_eval]. destruct I as [I|I].
  - inversion I; subst. rewrite (cmp_eq f f (Qeq_refl f)). reflexivity.
  - cbn in C. assert (f1 < f) as L.
    { apply chain_lt_lower with (map fst r); [exact C|]. change f with (fst (f, t)). apply in_map. exact I. }
    rewrite (cmp_gt _ _ L). apply avar_go_node; assumption.
Qed.

Lemma increasing_inc_from : forall l, increasing (map fst l) = true -> inc_from l.
Proof.
  intros [|p t] H; [exact I|]. cbn [map] in H. unfold inc_from.
  revert p H. induction t as [|q t IH]; intros p H; [exact I|].
  cbn [map increasing] in H. apply andb_true_iff in H. destruct H as [H1 H2].
  cbn [map chain]. split; [apply Qltb_true; exact H1|]. apply IH. exact H2.
Qed.
