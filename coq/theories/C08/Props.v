(* C08 — property theorems.  Statements only; proofs are in Proofs*.v.

   Vocabulary (Model.v):  an `axis` carries its user bounds (amin, adef, amax) and the
   converter the front ends build with CoordConverter::new(rows, k) from the <map> rows
   (user, design) in source order and the index k of the default's row.
   `valid_axis a rows k u0 d0 rest uk dk` (ProofsMain.v) says: the converter of `a` is the
   one the code builds from `rows`/`k`; the rows sorted by user value are (u0,d0)::rest
   with strictly increasing user values and NON-DECREASING design values (flat segments
   allowed, any number of rows >= 1, any rationals); the axis minimum/maximum are the
   first/last row; the default is row k = (uk, dk), which may be at either end or inside.
   `spec_default_norm` / `avar_eval` are the OpenType default normalisation (fvar) and the
   avar segment-map evaluation written from the specification. *)
From Coq Require Import List ZArith QArith Qabs Qminmax Bool.
From FV.C08 Require Import Model Proofs.
Import ListNotations.
Open Scope Q_scope.

(* 1. PiecewiseLinearMap::map never trips `assert!((0..=1).contains(&t))` in lerp — for
   every vector of pairs (sorted or not, duplicates or not) and every value. *)
Theorem lerp_assertion_never_fires : forall (m : plm) (v : Q), plm_map_opt m v = Some (plm_map m v).
Proof. exact plm_map_opt_some. Qed.
Print Assumptions lerp_assertion_never_fires.

(* 2. What `Axis::default_converter` computes on [min,max] is the OpenType default
   normalisation of fvar; the `unwrap` in default_normalization cannot fail. *)
Theorem default_normalization_is_opentype : forall mn df mx, mn <= df -> df <= mx ->
  exists dc, default_normalization mn df mx = Some dc /\
    forall u, mn <= u -> u <= mx -> user_to_norm dc u == spec_default_norm mn df mx u.
Proof.
  intros mn df mx H1 H2. destruct (default_norm_sdn mn df mx H1 H2) as [dc [Hd HA]].
  exists dc. split; [exact Hd|]. intros u U1 U2. rewrite (spec_sdn mn df mx u U1 U2). apply HA; assumption.
Qed.
Print Assumptions default_normalization_is_opentype.

(* 3. The source's own normalisation (what `user.to_normalized(&axis.converter)` computes,
   and what master locations are normalised with) is: user -> design through the rows,
   then design default -> 0, design of the axis minimum -> -1, design of the axis
   maximum -> +1. *)
Theorem source_normalization_is_design_normalization : forall a rows k u0 d0 rest uk dk,
  valid_axis a rows k u0 d0 rest uk dk ->
  forall u, amin a <= u -> u <= amax a ->
    user_to_norm (aconv a) u == spec_default_norm d0 dk (lastq d0 (map snd rest)) (plm_map ((u0, d0) :: rest) u).
Proof. exact source_norm_design. Qed.
Print Assumptions source_normalization_is_design_normalization.

(* 4. MAIN (ideal arithmetic).  For every well-formed axis — flat segments and a default at
   an end included — and EVERY user coordinate of [min,max] (not just the rows): fvar's
   default normalisation followed by the avar segment map that to_segment_map builds
   (before rounding to F2Dot14) is exactly the source's normalisation.  None of the
   `unwrap`s of to_segment_map can panic. *)
Theorem avar_agrees_ideal : forall a rows k u0 d0 rest uk dk,
  valid_axis a rows k u0 d0 rest uk dk ->
  exists segs, segment_map_ideal a = Some segs /\
    forall u, amin a <= u -> u <= amax a ->
      avar_eval segs (spec_default_norm (amin a) (adef a) (amax a) u) == user_to_norm (aconv a) u.
Proof. exact ideal_agreement. Qed.
Print Assumptions avar_agrees_ideal.

Example avar_agrees_ideal_nonvacuous :
  exists a, mk_axis 100 400 900 [(900, 100); (100, 10); (400, 50); (500, 50); (700, 80)] 2 = Some a /\
    valid_axis a [(900, 100); (100, 10); (400, 50); (500, 50); (700, 80)] 2
               100 10 [(400, 50); (500, 50); (700, 80); (900, 100)] 400 50.
Proof.
  eexists. split; [reflexivity|]. constructor; try reflexivity.
  - cbn. repeat split; reflexivity.
  - cbn. repeat split; discriminate.
Qed.

(* an axis without <map> (CoordConverter::unmapped) is a well-formed axis too: here a
   one-sided one, min = default *)
Example unmapped_axis_is_valid :
  exists a, mk_axis_unmapped 100 100 900 = Some a /\
    valid_axis a [(100, 100); (900, 900)] 0 100 100 [(900, 900)] 100 100.
Proof.
  eexists. split; [reflexivity|]. constructor; try reflexivity.
  - cbn. repeat split; reflexivity.
  - cbn. repeat split; discriminate.
Qed.

(* 5. With F2Dot14 records, at the rows: at the rounded default-normalised coordinate of
   every mapping row the font's avar gives the source's normalised value within half an
   F2Dot14 unit (2^-15) — provided no two records were rounded onto the same `from`. *)
Theorem avar_agrees_quantised_at_rows : forall a rows k u0 d0 rest uk dk zs,
  valid_axis a rows k u0 d0 rest uk dk ->
  to_segment_map a = Some zs ->
  increasing (map fst (dequantise zs)) = true ->
  forall u d, In (u, d) (plm_new rows) ->
    Qabs (avar_eval (dequantise zs) (q14 (spec_default_norm (amin a) (adef a) (amax a) u))
          - user_to_norm (aconv a) u) <= 1 # 32768.
Proof. exact quantised_nodes. Qed.
Print Assumptions avar_agrees_quantised_at_rows.


(* 5b. With F2Dot14 records, at EVERY user coordinate u of [min,max] (eps = 2^-15, half an
   F2Dot14 unit; dn = fvar default normalisation): the value of the font's avar table at
   dn u lies between the source's normalised values of the two user coordinates whose
   default-normalised coordinates are dn u - eps and dn u + eps (clamped to [-1,1]), give or
   take eps.  I.e. rounding the records costs at most half a unit of input and half a unit
   of output, whatever the slopes of the mapping are, records rounded onto the same `from`
   included.  (fvar's own 16.16 rounding of min/default/max — theorem 7 — and the fixed
   point arithmetic of a rasteriser are not part of this statement.) *)
Theorem avar_agrees_quantised_everywhere : forall a rows k u0 d0 rest uk dk,
  valid_axis a rows k u0 d0 rest uk dk ->
  (u0 < uk -> d0 < dk) ->
  (uk < lastq u0 (map fst rest) -> dk < lastq d0 (map snd rest)) ->
  exists zs, to_segment_map a = Some zs /\
    forall u ulo uhi,
      amin a <= u -> u <= amax a -> amin a <= ulo -> ulo <= amax a -> amin a <= uhi -> uhi <= amax a ->
      let dn := spec_default_norm (amin a) (adef a) (amax a) in
      dn ulo == Qmax (-1) (dn u - eps) ->
      dn uhi == Qmin 1 (dn u + eps) ->
      user_to_norm (aconv a) ulo - eps <= avar_eval (dequantise zs) (dn u) /\
      avar_eval (dequantise zs) (dn u) <= user_to_norm (aconv a) uhi + eps.
Proof. exact quantised_everywhere. Qed.
Print Assumptions avar_agrees_quantised_everywhere.

(* the same on bare tables: any well-formed exact table against its rounded copy *)
Theorem rounded_table_brackets_exact_table : forall l, wfP l ->
  forall x, -1 <= x -> x <= 1 ->
    avar_eval l (Qmax (-1) (x - eps)) - eps <= avar_eval (map qpt l) x /\
    avar_eval (map qpt l) x <= avar_eval l (Qmin 1 (x + eps)) + eps.
Proof. exact quantised_everywhere_lists. Qed.
Print Assumptions rounded_table_brackets_exact_table.

(* the hypotheses of 5, 5b and 6 hold for the axis of the example above *)
Example quantised_hypotheses_nonvacuous :
  (100 < 400 -> 10 < 50) /\
  (400 < lastq 100 (map fst [(400, 50); (500, 50); (700, 80); (900, 100)]) ->
   50 < lastq 10 (map snd [(400, 50); (500, 50); (700, 80); (900, 100)])) /\
  (exists a zs, mk_axis 100 400 900 [(900, 100); (100, 10); (400, 50); (500, 50); (700, 80)] 2 = Some a /\
     to_segment_map a = Some zs /\ increasing (map fst (dequantise zs)) = true) /\
  (let dn := spec_default_norm 100 400 900 in
   dn (400 - (300 # 32768)) == Qmax (-1) (dn 400 - eps) /\ dn (400 + (500 # 32768)) == Qmin 1 (dn 400 + eps)).
Proof.
  split; [intros _; reflexivity|]. split; [intros _; reflexivity|]. split.
  - eexists. eexists. split; [reflexivity|]. split; vm_compute; reflexivity.
  - split; vm_compute; reflexivity.
Qed.

(* 6. The segment map is well formed: it contains -1:-1, 0:0 and 1:1, `from` strictly
   increases, `to` never decreases, everything lies in [-1,1] — for every well-formed axis
   whose design values do not stay at the default's value all the way from the default's
   row to an end of the axis (hypotheses 2 and 3; see 6c for why they are needed). *)
Theorem segment_map_wf : forall a rows k u0 d0 rest uk dk,
  valid_axis a rows k u0 d0 rest uk dk ->
  (u0 < uk -> d0 < dk) ->
  (uk < lastq u0 (map fst rest) -> dk < lastq d0 (map snd rest)) ->
  exists segs, segment_map_ideal a = Some segs /\ segmap_wf segs = true.
Proof. exact ideal_wf. Qed.
Print Assumptions segment_map_wf.

(* 6b. ... and after rounding to F2Dot14 the table still contains the three required
   records exactly, `from` and `to` never decrease, and every value is in [-1,1]. *)
Theorem segment_map_quantised_wf : forall a rows k u0 d0 rest uk dk,
  valid_axis a rows k u0 d0 rest uk dk ->
  (u0 < uk -> d0 < dk) ->
  (uk < lastq u0 (map fst rest) -> dk < lastq d0 (map snd rest)) ->
  exists zs, to_segment_map a = Some zs /\ segmap_wf_weak (dequantise zs) = true.
Proof. exact quantised_wf. Qed.
Print Assumptions segment_map_quantised_wf.

(* 6c. The two extra hypotheses of 6 are necessary: rows 100->50, 400->50 (default),
   900->100 form a well-formed axis (theorem 4 applies to it), yet the table the code
   builds is -1:0, 0:0, 1:1 — the required record -1:-1 is missing. *)
Theorem segment_map_wf_refuted_flat_end :
  exists a rows k u0 d0 rest uk dk zs,
    valid_axis a rows k u0 d0 rest uk dk /\ to_segment_map a = Some zs /\
    has_pt (-1, -1) (dequantise zs) = false.
Proof.
  exists flat_axis, flat_rows, 1%nat, 100, 50, [(400, 50); (900, 100)], 400, 50.
  eexists. split; [exact flat_axis_valid|]. split; [exact flat_axis_lacks_m1|]. vm_compute. reflexivity.
Qed.
Print Assumptions segment_map_wf_refuted_flat_end.

(* 6d. `valid_axis` requires the axis bounds to be the first and last row.  With rows
   beyond the bounds (rows 100..900, axis 300..700, default 400; accepted by the
   designspace front end, and what Glyphs "Axis Mappings" wider than the masters give)
   the table is not sorted and leaves [-1,1]; the font normalises the axis minimum (300)
   to -1 while the converter, with which the masters are placed, normalises it to -1/3. *)
Theorem segment_map_wf_refuted_rows_outside_bounds :
  exists zs, to_segment_map wide_axis = Some zs /\
    nondecreasing (map fst (dequantise zs)) = false /\
    avar_eval (dequantise zs) (spec_default_norm 300 400 700 300) == -1 /\
    user_to_norm (aconv wide_axis) 300 == - (1 # 3).
Proof.
  eexists. split; [exact wide_axis_map|]. repeat split; vm_compute; reflexivity.
Qed.
Print Assumptions segment_map_wf_refuted_rows_outside_bounds.

(* 7. fvar: minimum <= default <= maximum; each is the source bound rounded to 16.16
   (error at most 2^-17); the coordinate of a named instance whose design location lies
   in the axis' design range lies in [fvar min, fvar max] (so does an instance that does
   not mention the axis). *)
Theorem fvar_bounds_ordered : forall a rows k u0 d0 rest uk dk,
  valid_axis a rows k u0 d0 rest uk dk ->
  let '(mn, df, mx) := fvar_axis a in (mn <= df <= mx)%Z.
Proof. exact fvar_ordered. Qed.
Print Assumptions fvar_bounds_ordered.

Theorem fvar_bounds_are_source_bounds : forall a,
  -32767 <= amin a -> amax a <= 32767 -> amin a <= adef a -> adef a <= amax a ->
  let '(mn, df, mx) := fvar_axis a in
  Qabs (of_fixed16 mn - amin a) <= 1 # 131072 /\
  Qabs (of_fixed16 df - adef a) <= 1 # 131072 /\
  Qabs (of_fixed16 mx - amax a) <= 1 # 131072.
Proof. exact fvar_close. Qed.
Print Assumptions fvar_bounds_are_source_bounds.

Theorem named_instance_in_axis_range : forall a rows k u0 d0 rest uk dk,
  valid_axis a rows k u0 d0 rest uk dk ->
  forall loc,
    match loc with
    | Some d => d0 <= d /\ d <= lastq d0 (map snd rest)
    | None => True
    end ->
  let '(mn, df, mx) := fvar_axis a in
  (mn <= fvar_instance_coord a (option_map (design_to_user (aconv a)) loc) <= mx)%Z.
Proof. exact instance_in_range. Qed.
Print Assumptions named_instance_in_axis_range.

(* 7b. An instance that does not mention an axis gets exactly the axis' fvar default as its
   coordinate (so it is inside the range, by 7); and for a whole InstanceRecord over any
   number of axes: every coordinate whose axis is omitted equals that axis' fvar default,
   and every coordinate lies in its axis' [fvar min, fvar max] whenever the given design
   values lie in the axes' design ranges. *)
Theorem omitted_axis_coordinate_is_fvar_default : forall a,
  let '(mn, df, mx) := fvar_axis a in fvar_instance_coord a None = df.
Proof. intro a. reflexivity. Qed.
Print Assumptions omitted_axis_coordinate_is_fvar_default.

Definition axis_ok (a : axis) (loc : option Q) : Prop :=
  exists rows k u0 d0 rest uk dk, valid_axis a rows k u0 d0 rest uk dk /\
    match loc with Some d => d0 <= d /\ d <= lastq d0 (map snd rest) | None => True end.

Theorem named_instance_record_in_range : forall axes locs,
  Forall2 axis_ok axes locs ->
  Forall2 (fun a z => let '(mn, df, mx) := fvar_axis a in (mn <= z <= mx)%Z)
          axes (fvar_instance_record axes locs)
  /\ Forall2 (fun al z => snd al = None -> let '(mn, df, mx) := fvar_axis (fst al) in z = df)
             (combine axes locs) (fvar_instance_record axes locs).
Proof.
  intros axes locs H. unfold fvar_instance_record. induction H as [|a l axes locs Ha H IH].
  - split; constructor.
  - destruct IH as [IH1 IH2]. cbn [combine map fst snd]. split; constructor; try assumption.
    + destruct Ha as (rows & k & u0 & d0 & rest & uk & dk & V & Hl).
      exact (instance_in_range a rows k u0 d0 rest uk dk V l Hl).
    + cbn [fst snd]. intro E. subst l. reflexivity.
Qed.
Print Assumptions named_instance_record_in_range.

Example named_instance_record_nonvacuous :
  exists a, mk_axis 100 400 900 [(900, 100); (100, 10); (400, 50); (500, 50); (700, 80)] 2 = Some a /\
    Forall2 axis_ok [a; a] [None; Some 80].
Proof.
  eexists. split; [reflexivity|].
  match goal with |- Forall2 axis_ok [?t; _] _ =>
    assert (forall l, match l with Some d => 10 <= d /\ d <= 100 | None => True end -> axis_ok t l) as K end.
  { intros l Hl. exists [(900, 100); (100, 10); (400, 50); (500, 50); (700, 80)], 2%nat, 100, 10,
      [(400, 50); (500, 50); (700, 80); (900, 100)], 400, 50. split; [|exact Hl].
    constructor; try reflexivity.
    - cbn. repeat split; reflexivity.
    - cbn. repeat split; discriminate. }
  constructor; [apply K; exact I|]. constructor; [apply K; split; discriminate|constructor].
Qed.

(* 8. user -> design -> user is the identity on strictly increasing maps (everywhere, also
   outside the rows). *)
Theorem map_reverse_roundtrip : forall (m : plm) (v : Q),
  inc_from m -> inc_to m -> plm_map (plm_reverse m) (plm_map m v) == v.
Proof.
  intros m v H1 H2.
  assert (nd_to m) as H3.
  { destruct m as [|p t]; [exact I|]. cbn in *. apply chain_lt_le. exact H2. }
  rewrite (plm_reverse_monotone m H1 H3). apply plm_roundtrip; assumption.
Qed.
Print Assumptions map_reverse_roundtrip.

Example map_reverse_roundtrip_nonvacuous :
  inc_from [(100, -10); (400, 0); (700, 19)] /\ inc_to [(100, -10); (400, 0); (700, 19)].
Proof. split; cbn; repeat split; reflexivity. Qed.

(* 9. Monotonicity of the design values is necessary for 4: rows 0->50 (default), 50->0,
   100->200 are accepted by the code, and at user 75 the avar it builds gives 0 where the
   source's own conversion gives 1/3. *)
Theorem avar_agrees_refuted_nonmonotone :
  exists segs, segment_map_ideal nonmono_axis = Some segs /\
    ~ avar_eval segs (spec_default_norm 0 0 100 75) == user_to_norm (aconv nonmono_axis) 75.
Proof. exact nonmono_disagrees. Qed.
Print Assumptions avar_agrees_refuted_nonmonotone.
