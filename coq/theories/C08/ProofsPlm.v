(* C08 — lemmas about the piecewise linear map (sorting, evaluation, assertion,
   node values, ranges, reverse). *)
From Coq Require Import List ZArith QArith Qround Qabs Qminmax Bool Lqa Lia Permutation Setoid Morphisms.
From FV.C08 Require Import Model.
Import ListNotations.
Open Scope Q_scope.

(* ------------------------------------------------------------------ *)
(* comparisons                                                          *)

Lemma Qltb_true : forall a b, Qltb a b = true <-> a < b.
Proof.
  intros a b. unfold Qltb. destruct (Qcompare_spec a b) as [E|L|G]; split; intro H; try discriminate; try reflexivity.
  - rewrite E in H. exfalso. apply (Qlt_irrefl b H).
  - exact L.
  - exfalso. apply (Qlt_irrefl a). apply Qlt_trans with b; assumption.
Qed.

Lemma Qltb_false : forall a b, Qltb a b = false <-> b <= a.
Proof.
  intros a b. unfold Qltb. destruct (Qcompare_spec a b) as [E|L|G]; split; intro H; try discriminate; try reflexivity.
  - rewrite E. apply Qle_refl.
  - exfalso. apply (Qlt_irrefl a). apply Qlt_le_trans with b; assumption.
  - apply Qlt_le_weak. exact G.
Qed.

Lemma cmp_lt : forall a b, a < b -> (a ?= b) = Lt.
Proof. intros a b H. apply Qlt_alt. exact H. Qed.
Lemma cmp_gt : forall a b, b < a -> (a ?= b) = Gt.
Proof. intros a b H. apply Qgt_alt. exact H. Qed.
Lemma cmp_eq : forall a b, a == b -> (a ?= b) = Eq.
Proof. intros a b H. apply Qeq_alt. exact H. Qed.

Lemma div_unit : forall v pf f, pf < v -> v < f -> 0 <= (v - pf) / (f - pf) /\ (v - pf) / (f - pf) <= 1.
Proof.
  intros v pf f H1 H2. split.
  - apply Qle_shift_div_l; lra.
  - apply Qle_shift_div_r; lra.
Qed.

Lemma div_unit_strict : forall v pf f, pf < v -> v < f -> 0 < (v - pf) / (f - pf) /\ (v - pf) / (f - pf) < 1.
Proof.
  intros v pf f H1 H2. split.
  - apply Qlt_shift_div_l; lra.
  - apply Qlt_shift_div_r; lra.
Qed.

(* ------------------------------------------------------------------ *)
(* the lerp assertion never fires: for ANY vector of pairs               *)

Lemma map_go_opt_some : forall l pf pt_ v, pf < v -> map_go_opt pf pt_ l v = Some (map_go pf pt_ l v).
Proof.
  induction l as [|[f t] r IH]; intros pf pt_ v H; cbn [map_go_opt map_go].
  - reflexivity.
  - destruct (Qcompare_spec v f) as [E|L|G].
    + reflexivity.
    + unfold lerp_opt, lerp. destruct (div_unit v pf f H L) as [A B].
      apply Qle_bool_iff in A. apply Qle_bool_iff in B. rewrite A, B. reflexivity.
    + apply IH. exact G.
Qed.

Lemma plm_map_opt_some : forall m v, plm_map_opt m v = Some (plm_map m v).
Proof.
  intros [|[f t] r] v; cbn [plm_map_opt plm_map].
  - reflexivity.
  - destruct (Qcompare_spec v f) as [E|L|G]; try reflexivity.
    apply map_go_opt_some. exact G.
Qed.

(* ------------------------------------------------------------------ *)
(* evaluation respects == on the argument                               *)

Lemma map_go_comp : forall l pf pt_ v v', v == v' -> map_go pf pt_ l v == map_go pf pt_ l v'.
Proof.
  induction l as [|[f t] r IH]; intros pf pt_ v v' E; cbn [map_go].
  - rewrite E. reflexivity.
  - rewrite (Qcompare_comp v v' E f f (Qeq_refl f)).
    destruct (v' ?= f).
    + reflexivity.
    + unfold lerp. rewrite E. reflexivity.
    + apply IH. exact E.
Qed.

Lemma plm_map_comp : forall m v v', v == v' -> plm_map m v == plm_map m v'.
Proof.
  intros [|[f t] r] v v' E; cbn [plm_map].
  - exact E.
  - rewrite (Qcompare_comp v v' E f f (Qeq_refl f)).
    destruct (v' ?= f).
    + reflexivity.
    + rewrite E. reflexivity.
    + apply map_go_comp. exact E.
Qed.

(* ------------------------------------------------------------------ *)
(* chains                                                               *)

Fixpoint chain (R : Q -> Q -> Prop) (prev : Q) (l : list Q) : Prop :=
  match l with
  | [] => True
  | x :: t => R prev x /\ chain R x t
  end.

Definition inc_from (l : list pt) : Prop :=
  match l with [] => True | p :: t => chain Qlt (fst p) (map fst t) end.
Definition nd_from (l : list pt) : Prop :=
  match l with [] => True | p :: t => chain Qle (fst p) (map fst t) end.
Definition nd_to (l : list pt) : Prop :=
  match l with [] => True | p :: t => chain Qle (snd p) (map snd t) end.
Definition inc_to (l : list pt) : Prop :=
  match l with [] => True | p :: t => chain Qlt (snd p) (map snd t) end.

Lemma chain_lt_lower : forall l x y, chain Qlt x l -> In y l -> x < y.
Proof.
  induction l as [|a t IH]; intros x y C I; [contradiction|].
  destruct C as [C1 C2]. destruct I as [I|I].
  - subst. exact C1.
  - apply Qlt_trans with a; [exact C1|]. apply IH; assumption.
Qed.

Lemma chain_le_lower : forall l x y, chain Qle x l -> In y l -> x <= y.
Proof.
  induction l as [|a t IH]; intros x y C I; [contradiction|].
  destruct C as [C1 C2]. destruct I as [I|I].
  - subst. exact C1.
  - apply Qle_trans with a; [exact C1|]. apply IH; assumption.
Qed.

Lemma chain_lt_le : forall l x, chain Qlt x l -> chain Qle x l.
Proof.
  induction l as [|a t IH]; intros x C; [exact I|].
  destruct C as [C1 C2]. split; [apply Qlt_le_weak; exact C1|apply IH; exact C2].
Qed.

(* last element of prev :: l *)
Definition lastq (prev : Q) (l : list Q) : Q := last l prev.

Lemma last_nonempty_default : forall (t : list Q) b d d', last (b :: t) d = last (b :: t) d'.
Proof.
  induction t as [|c t IH]; intros b d d'.
  - reflexivity.
  - change (last (b :: c :: t) d) with (last (c :: t) d).
    change (last (b :: c :: t) d') with (last (c :: t) d'). apply IH.
Qed.

Lemma lastq_cons : forall a t prev, lastq prev (a :: t) = lastq a t.
Proof.
  intros a t prev. unfold lastq. destruct t as [|b t].
  - reflexivity.
  - change (last (a :: b :: t) prev) with (last (b :: t) prev). apply last_nonempty_default.
Qed.

Lemma chain_le_last : forall l x, chain Qle x l -> x <= lastq x l.
Proof.
  induction l as [|a t IH]; intros x C.
  - apply Qle_refl.
  - destruct C as [C1 C2]. rewrite lastq_cons. apply Qle_trans with a; [exact C1|apply IH; exact C2].
Qed.

Lemma chain_le_upper : forall l x y, chain Qle x l -> In y l -> y <= lastq x l.
Proof.
  induction l as [|a t IH]; intros x y C I; [contradiction|].
  destruct C as [C1 C2]. rewrite lastq_cons. destruct I as [I|I].
  - subst. apply chain_le_last. exact C2.
  - apply IH; assumption.
Qed.

Lemma lastq_in : forall l x, In (lastq x l) (x :: l).
Proof.
  induction l as [|a t IH]; intro x.
  - left. reflexivity.
  - rewrite lastq_cons. right. apply IH.
Qed.

(* ------------------------------------------------------------------ *)
(* sorting                                                              *)

Lemma insert_perm : forall p l, Permutation (insert_pt p l) (p :: l).
Proof.
  intros p l. induction l as [|h t IH]; cbn [insert_pt].
  - apply Permutation_refl.
  - destruct (pt_leb p h).
    + apply Permutation_refl.
    + apply Permutation_trans with (h :: p :: t).
      * apply perm_skip. exact IH.
      * apply perm_swap.
Qed.

Lemma sort_perm : forall l, Permutation (sort_pts l) l.
Proof.
  induction l as [|h t IH]; cbn [sort_pts].
  - apply Permutation_refl.
  - apply Permutation_trans with (h :: sort_pts t).
    + apply insert_perm.
    + apply perm_skip. exact IH.
Qed.

(* a vector whose neighbours are in order is left alone by sort *)
Fixpoint locally_sorted (l : list pt) : Prop :=
  match l with
  | a :: ((b :: _) as t) => pt_leb a b = true /\ locally_sorted t
  | _ => True
  end.

Lemma sort_id : forall l, locally_sorted l -> sort_pts l = l.
Proof.
  induction l as [|a t IH]; intro H; cbn [sort_pts].
  - reflexivity.
  - destruct t as [|b t'].
    + reflexivity.
    + destruct H as [H1 H2]. rewrite (IH H2). cbn [insert_pt]. rewrite H1. reflexivity.
Qed.

Lemma pt_leb_lt : forall a b : pt, fst a < fst b -> pt_leb a b = true.
Proof.
  intros a b H. unfold pt_leb. rewrite (cmp_lt _ _ H). reflexivity.
Qed.

Lemma pt_leb_eq_le : forall a b : pt, fst a == fst b -> snd a <= snd b -> pt_leb a b = true.
Proof.
  intros a b H1 H2. unfold pt_leb. rewrite (cmp_eq _ _ H1). apply Qle_bool_iff. exact H2.
Qed.

Lemma inc_from_locally_sorted : forall l, inc_from l -> locally_sorted l.
Proof.
  induction l as [|a t IH]; intro H; [exact I|].
  destruct t as [|b t']; [exact I|].
  cbn in H. destruct H as [H1 H2]. split.
  - apply pt_leb_lt. exact H1.
  - apply IH. exact H2.
Qed.

(* ------------------------------------------------------------------ *)
(* node values and range of a map with increasing `from`               *)

(* below/above *)
Lemma map_go_node_head : forall r pf pt_ f t v, v == f -> map_go pf pt_ ((f, t) :: r) v = t.
Proof.
  intros r pf pt_ f t v E. cbn [map_go]. rewrite (cmp_eq _ _ E). reflexivity.
Qed.

(* value at a node: the first row with that `from` *)
Lemma map_go_node : forall l pf pt_ u d,
  pf < u -> chain Qlt pf (map fst l) -> In (u, d) l -> map_go pf pt_ l u == d.
Proof.
  induction l as [|[f t] r IH]; intros pf pt_ u d Hp C I; [contradiction|].
  cbn [map fst] in C. destruct C as [C1 C2]. cbn [map_go].
  destruct I as [I|I].
  - inversion I; subst. rewrite (cmp_eq u u (Qeq_refl u)). reflexivity.
  - assert (f < u) as L.
    { apply chain_lt_lower with (map fst r); [exact C2|]. change u with (fst (u, d)). apply in_map. exact I. }
    rewrite (cmp_gt _ _ L). apply IH; [exact L|exact C2|exact I].
Qed.

Lemma plm_map_node : forall m u d, inc_from m -> In (u, d) m -> plm_map m u == d.
Proof.
  intros [|[f t] r] u d C I; [contradiction|].
  cbn [plm_map]. destruct I as [I|I].
  - inversion I; subst. rewrite (cmp_eq u u (Qeq_refl u)). reflexivity.
  - cbn in C. assert (f < u) as L.
    { apply chain_lt_lower with (map fst r); [exact C|]. change u with (fst (u, d)). apply in_map. exact I. }
    rewrite (cmp_gt _ _ L). apply map_go_node; assumption.
Qed.

(* range: with non-decreasing `to`, inside the rows the value lies between the first and last `to` *)
Lemma lerp_between : forall a b t, a <= b -> 0 <= t -> t <= 1 -> a <= lerp a b t /\ lerp a b t <= b.
Proof.
  intros a b t H H0 H1. unfold lerp. split; nra.
Qed.

Lemma map_go_range : forall l pf pt_ v,
  pf < v -> v <= lastq pf (map fst l) ->
  chain Qle pt_ (map snd l) ->
  pt_ <= map_go pf pt_ l v /\ map_go pf pt_ l v <= lastq pt_ (map snd l).
Proof.
  induction l as [|[f t] r IH]; intros pf pt_ v H1 H2 C.
  - cbn in H2. unfold lastq in H2. cbn in H2. lra.
  - cbn [map fst snd] in *. rewrite lastq_cons in H2. rewrite lastq_cons.
    destruct C as [C1 C2]. cbn [map_go].
    destruct (Qcompare_spec v f) as [E|L|G].
    + split; [exact C1|apply chain_le_last; exact C2].
    + destruct (div_unit v pf f H1 L) as [A B].
      destruct (lerp_between pt_ t _ C1 A B) as [X Y]. split; [exact X|].
      apply Qle_trans with t; [exact Y|apply chain_le_last; exact C2].
    + destruct (IH f t v G H2 C2) as [X Y]. split; [|exact Y].
      apply Qle_trans with t; assumption.
Qed.

Lemma plm_map_range : forall f t r v,
  f <= v -> v <= lastq f (map fst r) -> chain Qle t (map snd r) ->
  t <= plm_map ((f, t) :: r) v /\ plm_map ((f, t) :: r) v <= lastq t (map snd r).
Proof.
  intros f t r v H1 H2 C. cbn [plm_map].
  destruct (Qcompare_spec v f) as [E|L|G].
  - split; [apply Qle_refl|apply chain_le_last; exact C].
  - lra.
  - apply map_go_range; assumption.
Qed.

(* monotone: larger argument, larger value (non-decreasing `to`, increasing `from`) *)
Lemma map_go_lower : forall l pf pt_ v,
  pf < v -> chain Qle pt_ (map snd l) -> chain Qlt pf (map fst l) -> pt_ <= map_go pf pt_ l v.
Proof.
  induction l as [|[f t] r IH]; intros pf pt_ v H1 C D; cbn [map_go].
  - lra.
  - cbn [map fst snd] in *. destruct C as [C1 C2]. destruct D as [D1 D2].
    destruct (Qcompare_spec v f) as [E|L|G].
    + exact C1.
    + destruct (div_unit v pf f H1 L) as [A B]. apply (lerp_between pt_ t _ C1 A B).
    + apply Qle_trans with t; [exact C1|]. apply IH; assumption.
Qed.

(* ------------------------------------------------------------------ *)
(* reverse                                                              *)

Lemma map_swap_fst : forall l : list pt, map fst (map swap l) = map snd l.
Proof. induction l as [|a t IH]; cbn; [reflexivity|rewrite IH; reflexivity]. Qed.
Lemma map_swap_snd : forall l : list pt, map snd (map swap l) = map fst l.
Proof. induction l as [|a t IH]; cbn; [reflexivity|rewrite IH; reflexivity]. Qed.

(* user strictly increasing, design non-decreasing: the swapped vector is already sorted *)
Lemma swap_locally_sorted : forall l, inc_from l -> nd_to l -> locally_sorted (map swap l).
Proof.
  induction l as [|a t IH]; intros H1 H2; [exact I|].
  destruct t as [|b t']; [exact I|].
  cbn in H1, H2. destruct H1 as [H1 H1']. destruct H2 as [H2 H2'].
  cbn [map]. split.
  - unfold swap, pt_leb. cbn [fst snd].
    destruct (Qcompare_spec (snd a) (snd b)) as [E|L|G].
    + apply Qle_bool_iff. apply Qlt_le_weak. exact H1.
    + reflexivity.
    + exfalso. lra.
  - apply IH; assumption.
Qed.

Lemma plm_reverse_monotone : forall l, inc_from l -> nd_to l -> plm_reverse l = map swap l.
Proof.
  intros l H1 H2. unfold plm_reverse, plm_new. apply sort_id. apply swap_locally_sorted; assumption.
Qed.

(* round trip on strictly increasing maps *)
Lemma map_go_above : forall l pf pt_ v,
  pf < v -> chain Qlt pt_ (map snd l) -> chain Qlt pf (map fst l) -> pt_ < map_go pf pt_ l v.
Proof.
  induction l as [|[f t] r IH]; intros pf pt_ v H1 C D; cbn [map_go].
  - lra.
  - cbn [map fst snd] in *. destruct C as [C1 C2]. destruct D as [D1 D2].
    destruct (Qcompare_spec v f) as [E|L|G].
    + exact C1.
    + destruct (div_unit_strict v pf f H1 L) as [A B]. unfold lerp. nra.
    + apply Qlt_trans with t; [exact C1|]. apply IH; assumption.
Qed.

Lemma map_go_roundtrip : forall l pf pt_ v,
  pf < v -> chain Qlt pt_ (map snd l) -> chain Qlt pf (map fst l) ->
  map_go pt_ pf (map swap l) (map_go pf pt_ l v) == v.
Proof.
  induction l as [|[f t] r IH]; intros pf pt_ v H1 C D.
  - cbn [map map_go]. lra.
  - cbn [map fst snd] in *. destruct C as [C1 C2]. destruct D as [D1 D2].
    cbn [map_go]. destruct (Qcompare_spec v f) as [E|L|G].
    + cbn [map swap fst snd map_go]. unfold swap at 1. cbn [fst snd].
      rewrite (cmp_eq t t (Qeq_refl t)). symmetry. exact E.
    + destruct (div_unit_strict v pf f H1 L) as [A B].
      assert (pt_ < lerp pt_ t ((v - pf) / (f - pf)) /\ lerp pt_ t ((v - pf) / (f - pf)) < t) as [X Y]
        by (unfold lerp; split; nra).
      cbn [map]. unfold swap at 1. cbn [fst snd map_go].
      rewrite (cmp_lt _ _ Y). unfold lerp. field. split; lra.
    + cbn [map]. unfold swap at 1. cbn [fst snd map_go].
      assert (t < map_go f t r v) as X by (apply map_go_above; assumption).
      rewrite (cmp_gt _ _ X). apply IH; assumption.
Qed.

Lemma plm_roundtrip : forall m v, inc_from m -> inc_to m -> plm_map (map swap m) (plm_map m v) == v.
Proof.
  intros [|[f t] r] v H1 H2.
  - cbn. reflexivity.
  - cbn in H1, H2. cbn [plm_map]. destruct (Qcompare_spec v f) as [E|L|G].
    + cbn [map]. unfold swap at 1. cbn [fst snd plm_map].
      rewrite (cmp_eq t t (Qeq_refl t)). symmetry. exact E.
    + cbn [map]. unfold swap at 1. cbn [fst snd plm_map].
      assert (v + t - f < t) as X by lra. rewrite (cmp_lt _ _ X). lra.
    + cbn [map]. unfold swap at 1. cbn [fst snd plm_map].
      assert (t < map_go f t r v) as X by (apply map_go_above; assumption).
      rewrite (cmp_gt _ _ X). apply map_go_roundtrip; assumption.
Qed.
