(* C08 — executable model of
     fontdrasil/src/piecewise_linear_map.rs   PiecewiseLinearMap::{new, reverse, map}, lerp
     fontdrasil/src/coords.rs                 CoordConverter::{new, default_normalization, unmapped},
                                              the ConvertSpace impls (user/design/normalized)
     fontdrasil/src/types.rs                  Axis::{default_converter, is_point}
     fontbe/src/avar.rs                       to_segment_map, default_segment_map, AvarWork::exec
     fontbe/src/fvar.rs                       the VariationAxisRecord / InstanceRecord values
     font-types fixed.rs                      F2Dot14::from_f64, Fixed::from_f64
   and, written from the OpenType specification (not from the code), of default
   normalisation (fvar) and of avar segment-map evaluation.
   f64 is modelled by Q (exact); OrderedFloat comparison is Qcompare.
   Executable definitions only; proofs are in Proofs*.v. *)
From Coq Require Import List ZArith QArith Qround Qabs Qminmax Bool.
Import ListNotations.
Open Scope Q_scope.

Definition pt := (Q * Q)%type.

Definition Qltb (a b : Q) : bool := match a ?= b with Lt => true | _ => false end.

(* ------------------------------------------------------------------ *)
(* PiecewiseLinearMap                                                  *)

(* derive(Ord) on (OrderedFloat, OrderedFloat): lexicographic *)
Definition pt_leb (a b : pt) : bool :=
  match fst a ?= fst b with
  | Lt => true
  | Gt => false
  | Eq => Qle_bool (snd a) (snd b)
  end.

Fixpoint insert_pt (p : pt) (l : list pt) : list pt :=
  match l with
  | [] => [p]
  | h :: t => if pt_leb p h then p :: l else h :: insert_pt p t
  end.

(* `mappings.sort()`.  Elements that compare equal are the same pair of floats,
   so every sorting algorithm gives the same vector. *)
Fixpoint sort_pts (l : list pt) : list pt :=
  match l with
  | [] => []
  | h :: t => insert_pt h (sort_pts t)
  end.

(* the struct is the sorted vector of pairs (`from` and `to` are its two columns) *)
Definition plm := list pt.
Definition plm_new (mappings : list pt) : plm := sort_pts mappings.
Definition swap (p : pt) : pt := (snd p, fst p).
Definition plm_reverse (m : plm) : plm := plm_new (map swap m).

(* fn lerp(a, b, t): `assert!((0..=1).contains(&t))` is the None branch *)
Definition lerp_opt (a b t : Q) : option Q :=
  if Qle_bool 0 t && Qle_bool t 1 then Some (a + t * (b - a)) else None.
Definition lerp (a b t : Q) : Q := a + t * (b - a).

(* PiecewiseLinearMap::map.  `from` is sorted, so `binary_search` answers Ok
   exactly when the value is present and otherwise Err(number of elements
   smaller than the value); the Ok branch then takes the FIRST element with
   that `from` (partition_point).  A left-to-right scan for the first element
   with from >= value is the same function on a sorted vector; (pf, pt_) is
   the element before it. *)
Fixpoint map_go_opt (pf pt_ : Q) (l : plm) (v : Q) : option Q :=
  match l with
  | [] => Some (v + pt_ - pf)                       (* idx == len: too big *)
  | (f, t) :: r =>
      match v ?= f with
      | Eq => Some t                                (* exact hit, first occurrence *)
      | Lt => lerp_opt pt_ t ((v - pf) / (f - pf))
      | Gt => map_go_opt f t r v
      end
  end.

Definition plm_map_opt (m : plm) (v : Q) : option Q :=
  match m with
  | [] => Some v                                    (* is_empty *)
  | (f, t) :: r =>
      match v ?= f with
      | Eq => Some t
      | Lt => Some (v + t - f)                      (* idx == 0: too small *)
      | Gt => map_go_opt f t r v
      end
  end.

(* the same without the assertion (shown equal on every constructed map) *)
Fixpoint map_go (pf pt_ : Q) (l : plm) (v : Q) : Q :=
  match l with
  | [] => v + pt_ - pf
  | (f, t) :: r =>
      match v ?= f with
      | Eq => t
      | Lt => lerp pt_ t ((v - pf) / (f - pf))
      | Gt => map_go f t r v
      end
  end.

Definition plm_map (m : plm) (v : Q) : Q :=
  match m with
  | [] => v
  | (f, t) :: r =>
      match v ?= f with
      | Eq => t
      | Lt => v + t - f
      | Gt => map_go f t r v
      end
  end.

(* ------------------------------------------------------------------ *)
(* CoordConverter                                                      *)

Record converter := mkConv {
  u2d : plm;   (* user_to_design *)
  d2u : plm;   (* design_to_user *)
  d2n : plm;   (* design_to_normalized *)
  n2d : plm    (* normalized_to_design *)
}.

Definition list_min (x : Q) (l : list Q) : Q := fold_left Qmin l x.
Definition list_max (x : Q) (l : list Q) : Q := fold_left Qmax l x.

(* the "examples" vector: lo -> -1 (only if lo < mid), mid -> 0, hi -> +1 (only if mid < hi) *)
Definition ex3 (lo mid hi : Q) : list pt :=
  (if Qltb lo mid then [(lo, -1)] else []) ++ [(mid, 0)] ++ (if Qltb mid hi then [(hi, 1)] else []).

(* CoordConverter::new; None = Err(DefaultOutOfBounds) *)
Definition converter_new (mappings : list pt) (default_idx : nat) : option converter :=
  let mappings := match mappings with [] => [(0, 0)] | _ => mappings end in
  let ds := map snd mappings in
  match ds with
  | [] => None
  | d0 :: dr =>
      let dmin := list_min d0 dr in
      let dmax := list_max d0 dr in
      match nth_error ds default_idx with
      | None => None
      | Some ddef =>
          let m := plm_new mappings in
          let n := plm_new (ex3 dmin ddef dmax) in
          Some (mkConv m (plm_reverse m) n (plm_reverse n))
      end
  end.

(* CoordConverter::default_normalization (the `unwrap` is the None branch) *)
Definition default_normalization (mn df mx : Q) : option converter :=
  converter_new (ex3 mn df mx) (if Qltb mn df then 1%nat else 0%nat).

(* Vec::dedup on pairs *)
Definition pt_eqb (a b : pt) : bool := Qeq_bool (fst a) (fst b) && Qeq_bool (snd a) (snd b).
Fixpoint dedup_pts (l : list pt) : list pt :=
  match l with
  | [] => []
  | a :: t =>
      match dedup_pts t with
      | [] => [a]
      | b :: t' => if pt_eqb a b then b :: t' else a :: b :: t'
      end
  end.

Fixpoint position_user (x : Q) (l : list pt) : option nat :=
  match l with
  | [] => None
  | p :: t => if Qeq_bool (fst p) x then Some 0%nat else option_map S (position_user x t)
  end.

(* CoordConverter::unmapped *)
Definition unmapped (mn df mx : Q) : option converter :=
  let ms := dedup_pts [(mn, mn); (df, df); (mx, mx)] in
  match position_user df ms with
  | None => None
  | Some i => converter_new ms i
  end.

(* impl ConvertSpace<..> *)
Definition user_to_design (c : converter) (u : Q) : Q := plm_map (u2d c) u.
Definition design_to_norm (c : converter) (d : Q) : Q := plm_map (d2n c) d.
Definition user_to_norm (c : converter) (u : Q) : Q := design_to_norm c (user_to_design c u).
Definition design_to_user (c : converter) (d : Q) : Q := plm_map (d2u c) d.
Definition norm_to_design (c : converter) (n : Q) : Q := plm_map (n2d c) n.
Definition norm_to_user (c : converter) (n : Q) : Q := design_to_user c (norm_to_design c n).

(* the same with the lerp assertion kept *)
Definition user_to_norm_opt (c : converter) (u : Q) : option Q :=
  match plm_map_opt (u2d c) u with
  | None => None
  | Some d => plm_map_opt (d2n c) d
  end.

(* ------------------------------------------------------------------ *)
(* Axis, avar, fvar                                                    *)

Record axis := mkAxis { amin : Q; adef : Q; amax : Q; aconv : converter }.

Definition is_point (a : axis) : bool := Qeq_bool (amin a) (adef a) && Qeq_bool (amax a) (adef a).

(* font-types float_conv!: `(x * ONE + (±0.5)) as iN` — truncation toward zero of
   x*ONE ± 1/2 (round half away from zero), saturating at the integer bounds. *)
Definition trunc (x : Q) : Z := if Qle_bool 0 x then Qfloor x else Qceiling x.
Definition sat (lo hi z : Z) : Z := Z.max lo (Z.min hi z).
Definition fix_from_q (one : Z) (lo hi : Z) (x : Q) : Z :=
  let y := x * inject_Z one in
  sat lo hi (trunc (if Qle_bool 0 x then y + (1#2) else y - (1#2))).
Definition f2dot14 (x : Q) : Z := fix_from_q 16384 (-32768) 32767 x.
Definition fixed16 (x : Q) : Z := fix_from_q 65536 (-2147483648) 2147483647 x.

Definition default_segment_map : list pt := [(-1, -1); (0, 0); (1, 1)].

Definition is_identity_q (l : list pt) : bool := forallb (fun p => Qeq_bool (fst p) (snd p)) l.

(* to_segment_map up to (not including) the identity short cut and the F2Dot14
   conversion: the (default normalisation, actual normalisation) pair of every
   mapping row, padded.  NOTE the padding test as written in the code: the
   minimum is taken over the FIRST column only and the maximum over the SECOND
   column only.  None = one of the `unwrap`s panics. *)
Definition segment_nodes (a : axis) : option (list pt) :=
  match default_normalization (amin a) (adef a) (amax a) with
  | None => None
  | Some dc =>
      let ms := map (fun p => (user_to_norm dc (fst p), user_to_norm (aconv a) (fst p))) (u2d (aconv a)) in
      match ms with
      | [] => None
      | m0 :: mr =>
          let mn := fold_left (fun acc p => Qmin acc (fst p)) mr (fst m0) in
          let mx := fold_left (fun acc p => Qmax acc (snd p)) mr (snd m0) in
          let ms1 := if Qeq_bool mn (-1) then ms else (-1, -1) :: ms in
          let ms2 := if Qeq_bool mx 1 then ms1 else ms1 ++ [(1, 1)] in
          Some ms2
      end
  end.

(* ... with the identity short cut: the segment map before quantisation *)
Definition segment_map_ideal (a : axis) : option (list pt) :=
  match segment_nodes a with
  | None => None
  | Some ms => Some (if is_identity_q ms then default_segment_map else ms)
  end.

(* to_segment_map: raw F2Dot14 values *)
Definition zpt := (Z * Z)%type.
Definition quantise (l : list pt) : list zpt := map (fun p => (f2dot14 (fst p), f2dot14 (snd p))) l.
Definition to_segment_map (a : axis) : option (list zpt) := option_map quantise (segment_map_ideal a).

(* SegmentMaps::is_identity and AvarWork::exec: avar is written iff some map is not an identity *)
Definition is_identity_z (l : list zpt) : bool := forallb (fun p => Z.eqb (fst p) (snd p)) l.
Definition avar_table (axes : list axis) : option (option (list (list zpt))) :=
  let fix all (l : list axis) : option (list (list zpt)) :=
      match l with
      | [] => Some []
      | a :: t => match to_segment_map a, all t with
                  | Some m, Some r => Some (m :: r)
                  | _, _ => None
                  end
      end in
  match all axes with
  | None => None                                              (* panic *)
  | Some maps => Some (if existsb (fun m => negb (is_identity_z m)) maps then Some maps else None)
  end.

(* fvar VariationAxisRecord (min, default, max) and one InstanceRecord coordinate *)
Definition fvar_axis (a : axis) : Z * Z * Z := (fixed16 (amin a), fixed16 (adef a), fixed16 (amax a)).
Definition fvar_instance_coord (a : axis) (loc : option Q) : Z :=
  fixed16 (match loc with Some x => x | None => adef a end).

(* ------------------------------------------------------------------ *)
(* OpenType side, from the specification text                          *)

(* OpenType "Coordinate scales and normalization": clamp to [min,max], then
   scale the two sides of the default separately. *)
Definition spec_default_norm (mn df mx u : Q) : Q :=
  let u := Qmax mn (Qmin mx u) in
  match u ?= df with
  | Lt => - ((df - u) / (df - mn))
  | Gt => (u - df) / (mx - df)
  | Eq => 0
  end.

(* avar: "find the segment [from_k, from_k+1] that contains the coordinate and
   interpolate linearly between to_k and to_k+1"; a coordinate equal to a
   `from` takes that record's `to` (the first such record).  Outside the
   records (cannot happen with the three required records and a coordinate in
   [-1,1]) the coordinate is returned unchanged. *)
Fixpoint avar_go (pf pt_ : Q) (l : list pt) (x : Q) : Q :=
  match l with
  | [] => x
  | (f, t) :: r =>
      match x ?= f with
      | Eq => t
      | Lt => pt_ + (x - pf) * (t - pt_) / (f - pf)
      | Gt => avar_go f t r x
      end
  end.

Definition avar_eval (segs : list pt) (x : Q) : Q :=
  match segs with
  | [] => x
  | (f, t) :: r =>
      match x ?= f with
      | Eq => t
      | Lt => x
      | Gt => avar_go f t r x
      end
  end.

(* raw table values back to numbers *)
Definition of_f2dot14 (z : Z) : Q := inject_Z z / 16384.
Definition of_fixed16 (z : Z) : Q := inject_Z z / 65536.
Definition dequantise (l : list zpt) : list pt := map (fun p => (of_f2dot14 (fst p), of_f2dot14 (snd p))) l.

(* what a font with fvar (mn,df,mx as raw 16.16) and this axis' avar record does to a user coordinate *)
Definition font_normalize (fv : Z * Z * Z) (segs : option (list zpt)) (u : Q) : Q :=
  let '(mn, df, mx) := fv in
  let x := spec_default_norm (of_fixed16 mn) (of_fixed16 df) (of_fixed16 mx) u in
  match segs with
  | None => x
  | Some s => avar_eval (dequantise s) x
  end.

(* ------------------------------------------------------------------ *)
(* boolean predicates (the property, as evaluated on table contents)   *)

Fixpoint nondecreasing (l : list Q) : bool :=
  match l with
  | a :: ((b :: _) as t) => Qle_bool a b && nondecreasing t
  | _ => true
  end.

Fixpoint increasing (l : list Q) : bool :=
  match l with
  | a :: ((b :: _) as t) => Qltb a b && increasing t
  | _ => true
  end.

Definition has_pt (p : pt) (l : list pt) : bool := existsb (pt_eqb p) l.

Definition segmap_wf (l : list pt) : bool :=
  has_pt (-1, -1) l && has_pt (0, 0) l && has_pt (1, 1) l
  && increasing (map fst l) && nondecreasing (map snd l)
  && forallb (fun p => Qle_bool (-1) (fst p) && Qle_bool (fst p) 1
                       && Qle_bool (-1) (snd p) && Qle_bool (snd p) 1) l.

(* the weaker form that survives quantisation: two rows may share a `from` *)
Definition segmap_wf_weak (l : list pt) : bool :=
  has_pt (-1, -1) l && has_pt (0, 0) l && has_pt (1, 1) l
  && nondecreasing (map fst l) && nondecreasing (map snd l)
  && forallb (fun p => Qle_bool (-1) (fst p) && Qle_bool (fst p) 1
                       && Qle_bool (-1) (snd p) && Qle_bool (snd p) 1) l.

(* ------------------------------------------------------------------ *)
(* comparison helpers for the correspondence run                        *)

(* an F2Dot14 produced from the f64 computation agrees with the model value x:
   it is the model's value, or a nearest value (ties, and values within 2^-30 of a tie, may go
   either way) *)
Definition near14 (x : Q) (z : Z) : bool :=
  Z.eqb (f2dot14 x) z ||
  Qle_bool (Qabs (x * 16384 - inject_Z z)) ((1#2) + (1#1073741824)).
Definition near16 (x : Q) (z : Z) : bool :=
  Z.eqb (fixed16 x) z ||
  Qle_bool (Qabs (x * 65536 - inject_Z z)) ((1#2) + (1#1073741824)).

(* instance coordinates go through one more float round trip (design -> user, or design ->
   normalized -> design -> user); allow 2^-30 on the value before rounding *)
Definition near16u (x : Q) (z : Z) : bool :=
  near16 x z || Qle_bool (Qabs (x * 65536 - inject_Z z)) ((1#2) + (1#16384)).

(* one coordinate of a named instance (designspace front end): `loc` is the instance's design
   value for the axis, None when its <location> does not mention the axis — the coordinate is
   then the axis default (fvar.rs: `ni.location.get(axis.tag).unwrap_or(axis.default)`) *)
Definition inst_agrees (a : axis) (loc : option Q) (z : Z) : bool :=
  match loc with
  | None => near16 (adef a) z && Z.eqb (fvar_instance_coord a None) z
  | Some d => near16u (design_to_user (aconv a) d) z
  end.

(* a whole InstanceRecord: one coordinate per fvar axis, in axis order *)
Definition fvar_instance_record (axes : list axis) (loc : list (option Q)) : list Z :=
  map (fun al => fvar_instance_coord (fst al) (option_map (design_to_user (aconv (fst al))) (snd al)))
      (combine axes loc).

Fixpoint nodes_agree (l : list pt) (z : list zpt) : bool :=
  match l, z with
  | [], [] => true
  | p :: l', q :: z' => near14 (fst p) (fst q) && near14 (snd p) (snd q) && nodes_agree l' z'
  | _, _ => false
  end.

Definition zpt_eqb (a b : zpt) : bool := Z.eqb (fst a) (fst b) && Z.eqb (snd a) (snd b).
Fixpoint zlist_eqb (a b : list zpt) : bool :=
  match a, b with
  | [], [] => true
  | x :: a', y :: b' => zpt_eqb x y && zlist_eqb a' b'
  | _, _ => false
  end.

Definition near_identity (l : list pt) : bool :=
  forallb (fun p => Qle_bool (Qabs (fst p - snd p)) (1 # 1099511627776)) l.

(* model vs implementation for one axis.  The identity short cut compares
   floats for equality; when every node is within 2^-40 of the diagonal the
   f64 computation may take either branch, and both are accepted. *)
Definition segmap_agrees (a : axis) (impl : list zpt) : bool :=
  match segment_nodes a with
  | None => false
  | Some ms =>
      if is_identity_q ms then
        zlist_eqb impl (quantise default_segment_map) || nodes_agree ms impl
      else if near_identity ms then
        zlist_eqb impl (quantise default_segment_map) || nodes_agree ms impl
      else nodes_agree ms impl
  end.

Definition fvar_agrees (a : axis) (impl : Z * Z * Z) : bool :=
  let '(mn, df, mx) := impl in
  near16 (amin a) mn && near16 (adef a) df && near16 (amax a) mx.

(* build an axis the way the front ends do: explicit mapping rows + index of the default row *)
Definition mk_axis (mn df mx : Q) (rows : list pt) (default_idx : nat) : option axis :=
  option_map (mkAxis mn df mx) (converter_new rows default_idx).
Definition mk_axis_unmapped (mn df mx : Q) : option axis :=
  option_map (mkAxis mn df mx) (unmapped mn df mx).

Definition Qclose (eps a b : Q) : bool := Qle_bool (Qabs (a - b)) eps.

(* |model - impl| <= eps * max(1, |model|) *)
Definition rel_close (eps m x : Q) : bool := Qle_bool (Qabs (m - x)) (eps * Qmax 1 (Qabs m)).

(* sampled conversions (user, design, normalized, design->user of that design) of the real
   converter against the model; the lerp assertion must not fire in the model either *)
Definition conv_agrees (a : axis) (samples : list (Q * Q * Q * Q)) : bool :=
  let c := aconv a in
  forallb (fun s => let '(u, d, n, b) := s in
             rel_close (1 # 1099511627776) (user_to_design c u) d
             && rel_close (1 # 1073741824) (user_to_norm c u) n
             && rel_close (1 # 1073741824) (design_to_user c d) b
             && match user_to_norm_opt c u with Some _ => true | None => false end
             && match plm_map_opt (d2u c) d with Some _ => true | None => false end) samples.

(* no avar record for this axis in the font: the model's map must be an identity *)
Definition segmap_identity_z (a : axis) : bool :=
  match to_segment_map a with Some m => is_identity_z m | None => false end.
