(* C03 — the master bound for ANY nearest-integer rounding of the deltas (ProofsRounding), through
   the OpenType reading, and the corresponding certified checker that takes the delta lists the
   backend actually produced (its GvarFragment) instead of the model's round-ties-even deltas. *)
From Coq Require Import List ZArith QArith Qabs Qround Bool Lia Lqa Sorting.Permutation.
From FV.C07 Require Import Model Tents Trim Influence Deltas Main Props.
From FV.C03 Require Import Model ProofsTents ProofsBound ProofsEval Proofs ProofsRounding.
Import ListNotations.
Open Scope Q_scope.

Theorem bound_coord_any n gl : wf_input n gl ->
  let m := model_new gl in
  forall vals, length vals = length (m_locs m) ->
  forall a, valid_rounding 0 (m_weights m) vals a [] = true ->
  forall eps st, 0 <= eps -> stored_rel (tol_of eps) a st ->
  forall k lk x, nth_error (m_locs m) k = Some lk -> nth_error vals k = Some (Some x) ->
    Qabs (interpolate (m_infl m) st lk - x) <= (1 # 2) + eps * active_sum (m_infl m) a lk.
Proof.
  intros W m vals Hlen a Hva eps st Heps Hrel k lk x Hk Hx. subst m.
  pose proof (any_nearest_rounding n gl W vals a Hlen Hva k lk x Hk Hx) as Hm.
  pose proof (perturbed_interp (m_infl (model_new gl)) (tol_of eps) lk (fun j => tol_of_nonneg eps j Heps) _ _ Hrel) as Hp.
  rewrite wsum_scale in Hp. unfold active_sum.
  set (ia := interpolate (m_infl (model_new gl)) a lk) in *.
  set (ib := interpolate (m_infl (model_new gl)) st lk) in *.
  setoid_replace (ib - x) with ((ib - ia) + (ia - x)) by ring.
  eapply Qle_trans; [apply Qabs_triangle|]. lra.
Qed.

(* column (c, i) of a fragment: the delta of point i, coordinate c, in every entry *)
Definition frag_column (c : bool) (i : nat) (frag : list (nat * list pt)) : list (nat * Q) :=
  map (fun kd => (fst kd, coord c (nth i (snd kd) pzero))) frag.

Definition glyph_ok_frag (kd : kind) (D : Z) (eps : Q) (gl : list loc) (sq : list (option (list pt)))
           (frag : list (nat * list pt)) (base : list pt) (ends : list nat) (kts : list (nat * list (option pt))) : bool :=
  let m := model_new gl in
  Nat.eqb (length sq) (length (m_locs m))
  && forallb (fun kt => Nat.ltb (fst kt) (length (m_infl m)) && Nat.eqb (length (snd kt)) (length base)) kts
  && forallb (fun i => forallb (fun c =>
        valid_rounding 0 (m_weights m) (coord_vals c i sq) (frag_column c i frag) []
        && stored_rel_b (tol_of eps) (frag_column c i frag)
             ((0%nat, coord c (nth i base pzero)) :: effective c i kd base ends D (m_infl m) kts)) [false; true])
       (seq 0 (length base)).

Theorem glyph_ok_frag_sound n gl o D kd eps : wf_input n gl -> In o gl -> is_origin o -> (0 < D)%Z -> 0 <= eps ->
  let m := model_new gl in
  forall sq frag base ends kts, glyph_ok_frag kd D eps gl sq frag base ends kts = true ->
  forall k lk s, nth_error (m_locs m) k = Some lk -> nth_error sq k = Some (Some s) ->
  forall c i, (i < length base)%nat ->
    Qabs (coord c (nth i (instantiate kd base ends base (map (font_tuple D (m_infl m)) kts) (locQ D lk)) pzero)
          - coord c (nth i s pzero))
    <= (1 # 2) + eps * active_sum (m_infl m) (frag_column c i frag) lk.
Proof.
  intros W Hin Ho HD Heps m sq frag base ends kts H k lk s Hlk Hs c i Hi. subst m.
  unfold glyph_ok_frag in H. apply andb_true_iff in H as [H H3]. apply andb_true_iff in H as [H1 H2].
  apply Nat.eqb_eq in H1. rewrite forallb_forall in H2, H3.
  set (infl := m_infl (model_new gl)) in *.
  destruct (model_invariants n gl W) as (_ & A & _). fold infl in A.
  pose proof (model_regions_zok n gl W) as Hz. fold infl in Hz.
  assert (Hk : Forall (fun kt : nat * list (option pt) => (fst kt < length infl)%nat /\ length (snd kt) = length base) kts).
  { apply Forall_forall. intros kt Hkt. specialize (H2 kt Hkt). apply andb_true_iff in H2 as [X Y].
    apply Nat.ltb_lt in X. apply Nat.eqb_eq in Y. split; assumption. }
  assert (Hin' : In i (seq 0 (length base))) by (apply in_seq; lia).
  specialize (H3 i Hin'). rewrite forallb_forall in H3.
  assert (Hc : valid_rounding 0 (m_weights (model_new gl)) (coord_vals c i sq) (frag_column c i frag) [] = true
               /\ stored_rel (tol_of eps) (frag_column c i frag)
                    ((0%nat, coord c (nth i base pzero)) :: effective c i kd base ends D infl kts)).
  { assert (Hcin : In c [false; true]) by (destruct c; cbn; auto).
    specialize (H3 c Hcin). apply andb_true_iff in H3 as [X Y]. split; [exact X|apply stored_rel_b_sound; exact Y]. }
  destruct Hc as [Hva Hrel].
  assert (Hlens : Forall (fun t => length (tp_deltas t) = length base) (map (font_tuple D infl) kts)).
  { apply Forall_forall. intros t Ht. apply in_map_iff in Ht as (kt & <- & Hkt).
    rewrite Forall_forall in Hk. destruct (Hk kt Hkt) as [_ Hl]. exact Hl. }
  assert (Hkeys : Forall (fun kt : nat * list (option pt) => (fst kt < length infl)%nat) kts).
  { eapply Forall_impl; [|exact Hk]. intros kt [X _]. exact X. }
  assert (E : coord c (nth i (instantiate kd base ends base (map (font_tuple D infl) kts) (locQ D lk)) pzero)
              == interpolate infl ((0%nat, coord c (nth i base pzero)) :: effective c i kd base ends D infl kts) lk).
  { rewrite (instantiate_coord c kd base ends (locQ D lk) i _ base eq_refl Hi Hlens).
    rewrite (contrib_is_interpolate c kd base ends D _ infl lk i HD A Hz kts Hkeys).
    rewrite interp_cons. unfold infl. rewrite (default_scalar_one n gl o W Hin Ho lk). ring. }
  rewrite E.
  assert (Hlen' : length (coord_vals c i sq) = length (m_locs (model_new gl)))
    by (unfold coord_vals; rewrite map_length; exact H1).
  assert (Hx : nth_error (coord_vals c i sq) k = Some (Some (coord c (nth i s pzero))))
    by (unfold coord_vals; rewrite (map_nth_error _ _ _ Hs); reflexivity).
  exact (bound_coord_any n gl W (coord_vals c i sq) Hlen' _ Hva eps _ Heps Hrel k lk _ Hlk Hx).
Qed.
