(* C03 — the bound at a master location, at the level of the C07 interpolation:
   stored deltas that differ from the model's deltas by at most a per-region
   tolerance (0 for the default, 1/2 for an IUP-optimised tuple, a dropped tuple
   counts as stored 0) reproduce a master within 1/2 + sum of scalar * tolerance;
   at the default location the tolerance does not matter. *)
From Coq Require Import List ZArith QArith Qabs Qround Bool Lia Lqa Sorting.Permutation.
From FV.C07 Require Import Model Tents Trim Influence Deltas Main Props.
From FV.C03 Require Import Model ProofsTents.
Import ListNotations.
Open Scope Q_scope.

(* per-region tolerance: the default region (model index 0) is stored exactly *)
Definition tol_of (eps : Q) (k : nat) : Q := if Nat.eqb k 0 then 0 else eps.

(* how a stored keyed delta list relates to the model's: same keys in the same order,
   each stored delta within the tolerance of its region; a model entry may be missing
   from the stored list when it is within the tolerance of zero (dropped tuple) *)
Inductive stored_rel (tol : nat -> Q) : list (nat * Q) -> list (nat * Q) -> Prop :=
| sr_nil : stored_rel tol [] []
| sr_keep k p q a b : Qabs (q - p) <= tol k -> stored_rel tol a b -> stored_rel tol ((k, p) :: a) ((k, q) :: b)
| sr_drop k p a b : Qabs p <= tol k -> stored_rel tol a b -> stored_rel tol ((k, p) :: a) b.

Definition scalar_k (infl : list region) (k : nat) (l : loc) : Q :=
  match nth_error infl k with Some r => scalar_at r l | None => 0 end.

(* sum over the model's delta sets of scalar * tolerance *)
Fixpoint wsum (infl : list region) (tol : nat -> Q) (a : list (nat * Q)) (l : loc) : Q :=
  match a with
  | [] => 0
  | (k, _) :: t => scalar_k infl k l * tol k + wsum infl tol t l
  end.

(* "sum of active region scalars": the non-default regions of the glyph's model that reach l *)
Definition active_sum (infl : list region) (a : list (nat * Q)) (l : loc) : Q := wsum infl (tol_of 1) a l.

Lemma scalar_k_unit infl k l : 0 <= scalar_k infl k l <= 1.
Proof. unfold scalar_k. destruct (nth_error infl k); [apply scalar_tents_unit|lra]. Qed.

Lemma interp_cons infl k d t l :
  interpolate infl ((k, d) :: t) l == scalar_k infl k l * d + interpolate infl t l.
Proof. cbn [interpolate]. unfold scalar_k. destruct (nth_error infl k); [reflexivity|ring]. Qed.

Lemma Qabs_mult_nonneg s x : 0 <= s -> Qabs (s * x) == s * Qabs x.
Proof. intro H. rewrite Qabs_Qmult. rewrite (Qabs_pos s H). reflexivity. Qed.

Lemma Qmult_le_l0 s x y : 0 <= s -> x <= y -> s * x <= s * y.
Proof. intros Hs H. rewrite (Qmult_comm s x), (Qmult_comm s y). apply Qmult_le_compat_r; assumption. Qed.

Lemma perturbed_interp infl tol l : (forall k, 0 <= tol k) -> forall a b, stored_rel tol a b ->
  Qabs (interpolate infl b l - interpolate infl a l) <= wsum infl tol a l.
Proof.
  intros Htol a b H. induction H as [|k p q a b Hq _ IH|k p a b Hp _ IH].
  - cbn [interpolate wsum]. apply Qabs_case; intros; lra.
  - rewrite !interp_cons. cbn [wsum].
    pose proof (scalar_k_unit infl k l) as [Hs _].
    setoid_replace (scalar_k infl k l * q + interpolate infl b l - (scalar_k infl k l * p + interpolate infl a l))
      with (scalar_k infl k l * (q - p) + (interpolate infl b l - interpolate infl a l)) by ring.
    eapply Qle_trans; [apply Qabs_triangle|].
    rewrite (Qabs_mult_nonneg _ _ Hs).
    apply Qplus_le_compat; [|exact IH].
    apply Qmult_le_l0; assumption.
  - rewrite interp_cons. cbn [wsum].
    pose proof (scalar_k_unit infl k l) as [Hs _].
    setoid_replace (interpolate infl b l - (scalar_k infl k l * p + interpolate infl a l))
      with (scalar_k infl k l * (- p) + (interpolate infl b l - interpolate infl a l)) by ring.
    eapply Qle_trans; [apply Qabs_triangle|].
    rewrite (Qabs_mult_nonneg _ _ Hs), Qabs_opp.
    apply Qplus_le_compat; [|exact IH].
    apply Qmult_le_l0; assumption.
Qed.

Lemma tol_of_nonneg eps k : 0 <= eps -> 0 <= tol_of eps k.
Proof. intro H. unfold tol_of. destruct (Nat.eqb k 0); lra. Qed.

Lemma wsum_scale infl eps a l : wsum infl (tol_of eps) a l == eps * wsum infl (tol_of 1) a l.
Proof.
  induction a as [|[k d] a IH]; cbn [wsum]; [ring|]. rewrite IH. unfold tol_of.
  destruct (Nat.eqb k 0); ring.
Qed.

Lemma wsum_nonneg infl tol a l : (forall k, 0 <= tol k) -> 0 <= wsum infl tol a l.
Proof.
  intro Ht. induction a as [|[k d] a IH]; cbn [wsum]; [lra|].
  pose proof (scalar_k_unit infl k l) as [Hs _]. specialize (Ht k).
  assert (0 <= scalar_k infl k l * tol k) by (apply Qmult_le_0_compat; assumption). lra.
Qed.

(* ---- at a master ------------------------------------------------------------------------ *)
Theorem bound_coord n gl : wf_input n gl ->
  let m := model_new gl in
  forall vals, length vals = length (m_locs m) ->
  forall eps st, 0 <= eps -> stored_rel (tol_of eps) (deltas m true vals) st ->
  forall k lk x, nth_error (m_locs m) k = Some lk -> nth_error vals k = Some (Some x) ->
    Qabs (interpolate (m_infl m) st lk - x)
      <= (1 # 2) + eps * active_sum (m_infl m) (deltas m true vals) lk.
Proof.
  intros W m vals Hlen eps st Heps Hrel k lk x Hk Hx. subst m.
  pose proof (deltas_reproduce_rounded n gl W vals Hlen k lk x Hk Hx) as Hm.
  pose proof (perturbed_interp (m_infl (model_new gl)) (tol_of eps) lk (fun j => tol_of_nonneg eps j Heps) _ _ Hrel) as Hp.
  rewrite wsum_scale in Hp. unfold active_sum.
  set (a := interpolate (m_infl (model_new gl)) (deltas (model_new gl) true vals) lk) in *.
  set (b := interpolate (m_infl (model_new gl)) st lk) in *.
  setoid_replace (b - x) with ((b - a) + (a - x)) by ring.
  eapply Qle_trans; [apply Qabs_triangle|]. lra.
Qed.

(* ---- at the default ------------------------------------------------------------------------ *)
Lemma wsum_origin n gl o : wf_input n gl -> In o gl -> is_origin o ->
  forall eps a, wsum (m_infl (model_new gl)) (tol_of eps) a o == 0.
Proof.
  intros W Hin Ho eps a. destruct (default_exact n gl o W Hin Ho) as [H0 _].
  induction a as [|[k d] a IH]; cbn [wsum]; [reflexivity|]. rewrite IH.
  unfold tol_of. destruct (Nat.eqb_spec k 0) as [->|Hk]; [ring|].
  unfold scalar_k. destruct (nth_error (m_infl (model_new gl)) k) as [r|] eqn:Hr; [|ring].
  rewrite (later_has_no_influence n gl W 0%nat k o r); [ring|lia|exact H0|exact Hr].
Qed.

Lemma Qabs_le0 y : Qabs y <= 0 -> y == 0.
Proof. revert y. intro y. apply Qabs_case; intros; lra. Qed.

Theorem default_coord n gl o : wf_input n gl -> In o gl -> is_origin o ->
  let m := model_new gl in
  forall vals x0, length vals = length (m_locs m) -> nth_error vals 0 = Some (Some (inject_Z x0)) ->
  forall eps st, 0 <= eps -> stored_rel (tol_of eps) (deltas m true vals) st ->
    interpolate (m_infl m) st o == inject_Z x0.
Proof.
  intros W Hin Ho m vals x0 Hlen Hx eps st Heps Hrel. subst m.
  destruct (default_exact n gl o W Hin Ho) as [H0 Hd].
  pose proof (Hd true vals (inject_Z x0) Hlen Hx) as Ha. rewrite default_exact_integer in Ha.
  pose proof (perturbed_interp (m_infl (model_new gl)) (tol_of eps) o (fun j => tol_of_nonneg eps j Heps) _ _ Hrel) as Hp.
  rewrite (wsum_origin n gl o W Hin Ho) in Hp. apply Qabs_le0 in Hp. lra.
Qed.
