(* C03 — Outlines at every master location reproduce that master's drawing.
   Property theorems about the model FV.C03.Model (on top of the C07 model of the variation
   model).  Statements only; proofs are in ProofsTents, ProofsBound, ProofsEval, Proofs.

   Reading guide.  A glyph has sources at the locations `gl` (any number of axes, any
   duplicate-free set containing the default `o`: on-axis, corner, intermediate, sparse
   per-glyph masters alike).  `sq` holds, per location of the glyph's model, the point
   sequence the backend feeds to the model: rounded outline points (simple glyph) or rounded
   component offsets (composite glyph) followed by the four phantom points (Model.point_seq).
   The font stores the default sequence `base` (glyf, hmtx/vmtx) and tuples `kts`, keyed by the
   model index of their region; `instantiate` is the OpenType reading of glyf + gvar (tuple
   scalars, inferred deltas for un-referenced points of simple glyphs, accumulation), written
   from the specification, at the location `locQ D lk`.

   What is assumed of the two write-fonts oracles is exactly `stored_rel`: the deltas a stored
   tuple stands for (after inference) are within eps (1/2 = the IUP tolerance fontc passes;
   0 for composites) of the model's rounded deltas, a dropped tuple's model deltas are within
   eps of zero, the default is stored exactly.  That hypothesis is decidable (stored_rel_b) and
   is evaluated on every decoded font of the correspondence run by the certified checker
   `glyph_ok` (theorem glyph_ok_sound). *)
From Coq Require Import List ZArith QArith Qabs Qround Qminmax Bool Lia Sorting.Permutation.
From FV.C07 Require Import Model Main Props.
From FV.C07 Require Tents Trim.
From FV.C03 Require Import Model ProofsTents ProofsBound ProofsEval Proofs ProofsRounding ProofsAny ProofsKept.
Import ListNotations.
Open Scope Q_scope.

(* 1. A glyph always gets the variation model of exactly its own source locations: the
      `num_locations == len && all contains` test re-uses the global model only when that
      model IS the glyph's own (sparse glyphs, glyphs missing from a master, any supply and
      hash order). *)
Theorem glyph_gets_its_own_model : forall n global gl, wf_input n global -> wf_input n gl ->
  glyph_model (model_new global) gl = model_new gl
  /\ Permutation (m_locs (glyph_model (model_new global) gl)) gl.
Proof.
  intros n global gl Wg W. rewrite (glyph_model_is_own_model n global gl Wg W).
  split; [reflexivity|apply (model_locations_are_the_masters n gl W)].
Qed.
Print Assumptions glyph_gets_its_own_model.

(* 2. The bound, at the level of the C07 interpolation, for one coordinate of one point:
      stored deltas within eps of the model's (dropped when within eps of zero) reproduce every
      master of the glyph within 1/2 + eps * (sum of the scalars of the non-default regions). *)
Theorem gvar_master_bound : forall n gl, wf_input n gl ->
  let m := model_new gl in
  forall vals, length vals = length (m_locs m) ->
  forall eps st, 0 <= eps -> stored_rel (tol_of eps) (deltas m true vals) st ->
  forall k lk x, nth_error (m_locs m) k = Some lk -> nth_error vals k = Some (Some x) ->
    Qabs (interpolate (m_infl m) st lk - x)
      <= (1 # 2) + eps * active_sum (m_infl m) (deltas m true vals) lk.
Proof. exact bound_coord. Qed.
Print Assumptions gvar_master_bound.

(* 3. OpenType's per-tuple scalar of a stored model region is the model's scalar_at: the
      spec's start/peak/end rules and fontdrasil's Tent rules agree on every region the model
      builds (in particular a region's zero-peak axes are all-zero tents, which is what makes
      "peak = 0: ignore the axis" and fontdrasil's (0,0,0) test coincide). *)
Theorem opentype_scalar_is_model_scalar : forall n gl D, wf_input n gl -> (0 < D)%Z ->
  let m := model_new gl in
  forall k r l, nth_error (m_infl m) k = Some r ->
    tuple_scalar (map (tentQ D) (tents r)) (locQ D l) == scalar_at r l.
Proof.
  intros n gl D W HD m k r l Hr. subst m.
  destruct (model_invariants n gl W) as (_ & A & _).
  destruct (nth_error_Forall2 _ _ _ A k r Hr) as (l0 & _ & Hw).
  apply (tuple_scalar_region D l0 r l HD Hw).
  pose proof (model_regions_zok n gl W) as Hz. rewrite Forall_forall in Hz. apply Hz.
  eapply nth_error_In. exact Hr.
Qed.
Print Assumptions opentype_scalar_is_model_scalar.

(* 4. The instantiated glyph at every master location of the glyph (simple glyphs: eps = 1/2;
      every point of the outline and the four phantom points, both coordinates):
      within 1/2 + 1/2 * (sum of active region scalars) of that master's point sequence. *)
Theorem outline_at_every_master : forall n gl o D kd, wf_input n gl -> In o gl -> is_origin o -> (0 < D)%Z ->
  let m := model_new gl in
  forall (sq : list (option (list pt))) (base : list pt) (ends : list nat) (kts : list (nat * list (option pt))),
    length sq = length (m_locs m) ->
    Forall (fun kt => (fst kt < length (m_infl m))%nat /\ length (snd kt) = length base) kts ->
  forall c i, (i < length base)%nat ->
    stored_rel (tol_of (1 # 2)) (point_deltas m sq c i)
               ((0%nat, coord c (nth i base pzero)) :: effective c i kd base ends D (m_infl m) kts) ->
  forall k lk s, nth_error (m_locs m) k = Some lk -> nth_error sq k = Some (Some s) ->
    Qabs (coord c (nth i (instantiate kd base ends base (map (font_tuple D (m_infl m)) kts) (locQ D lk)) pzero)
          - coord c (nth i s pzero))
    <= (1 # 2) + (1 # 2) * active_sum (m_infl m) (point_deltas m sq c i) lk.
Proof.
  intros n gl o D kd W Hin Ho HD. apply (outline_at_master_gen n gl o D kd (1 # 2) W Hin Ho HD). discriminate.
Qed.
Print Assumptions outline_at_every_master.

(* 5. Composite glyphs: nothing is inferred, both packings read back exactly (theorem 8), so
      eps = 0 and every component offset and phantom point is within 1/2 at every master. *)
Theorem component_offsets_at_every_master : forall n gl o D, wf_input n gl -> In o gl -> is_origin o -> (0 < D)%Z ->
  let m := model_new gl in
  forall (sq : list (option (list pt))) (base : list pt) (ends : list nat) (kts : list (nat * list (option pt))),
    length sq = length (m_locs m) ->
    Forall (fun kt => (fst kt < length (m_infl m))%nat /\ length (snd kt) = length base) kts ->
  forall c i, (i < length base)%nat ->
    stored_rel (tol_of 0) (point_deltas m sq c i)
               ((0%nat, coord c (nth i base pzero)) :: effective c i Composite base ends D (m_infl m) kts) ->
  forall k lk s, nth_error (m_locs m) k = Some lk -> nth_error sq k = Some (Some s) ->
    Qabs (coord c (nth i (instantiate Composite base ends base (map (font_tuple D (m_infl m)) kts) (locQ D lk)) pzero)
          - coord c (nth i s pzero))
    <= 1 # 2.
Proof.
  intros n gl o D W Hin Ho HD m sq base ends kts Hl Hk c i Hi Hrel k lk s Hlk Hs.
  pose proof (outline_at_master_gen n gl o D Composite 0 W Hin Ho HD (Qle_refl 0) sq base ends kts Hl Hk c i Hi Hrel k lk s Hlk Hs) as H.
  eapply Qle_trans; [exact H|]. rewrite Qmult_0_l, Qplus_0_r. apply Qle_refl.
Qed.
Print Assumptions component_offsets_at_every_master.

(* 6. At the default location the instantiated glyph IS the stored default sequence, point by
      point, whatever the tuples contain (no hypothesis on the deltas at all): every tuple
      to_deltas keeps belongs to a non-default region, and such a region does not reach the
      default.  With 7 the stored default is the rounded default master. *)
Theorem gvar_default_exact : forall n gl o D kd, wf_input n gl -> In o gl -> is_origin o -> (0 < D)%Z ->
  let m := model_new gl in
  forall (base : list pt) (ends : list nat) (frag : list (nat * list gdelta)) (kts : list (nat * list (option pt))),
    map fst kts = map fst (to_deltas (m_infl m) frag) ->
    Forall (fun kt => (fst kt < length (m_infl m))%nat /\ length (snd kt) = length base) kts ->
  forall c i, (i < length base)%nat ->
    coord c (nth i (instantiate kd base ends base (map (font_tuple D (m_infl m)) kts) (locQ D o)) pzero)
    == coord c (nth i base pzero).
Proof.
  intros n gl o D kd W Hin Ho HD m base ends frag kts Hkeys Hk c i Hi.
  apply (outline_at_default_gen n gl o D kd W Hin Ho HD base ends kts); [|exact Hi].
  apply Forall_forall. intros kt Hkt. rewrite Forall_forall in Hk. destruct (Hk kt Hkt) as [A B].
  split; [exact A|]. split; [exact B|].
  assert (Hf : In (fst kt) (map fst (to_deltas (m_infl m) frag))) by (rewrite <- Hkeys; apply in_map; exact Hkt).
  apply in_map_iff in Hf as (kd' & E & Hkd). rewrite <- E.
  apply (to_deltas_kept _ _ _ Hkd).
Qed.
Print Assumptions gvar_default_exact.

(* 7. What the default sequence is: the rounded default master — outline points rounded to
      (i16, i16), component offsets OtRound-ed, then (0,0), (round(width),0), the vertical
      origin and origin - height (or zeros without vertical metrics).  All integral. *)
Theorem default_is_rounded_master : forall bv src,
  (forall i p, nth_error (i_outline (snd src)) i = Some p ->
     nth_error (point_seq Simple bv src) i = Some (zpt (to_i16 (fst p)) (to_i16 (snd p))))
  /\ (forall i p, nth_error (i_comps (snd src)) i = Some p ->
     nth_error (point_seq Composite bv src) i = Some (zpt (ot_round (fst p)) (ot_round (snd p))))
  /\ (forall kd, Forall integral_pt (point_seq kd bv src))
  /\ nth 1 (phantoms bv (fst src) (snd src)) pzero = zpt (to_u16 (i_width (snd src))) 0.
Proof.
  intros bv src. split; [apply point_seq_outline|]. split; [apply point_seq_offsets|].
  split; [intro kd; apply point_seq_integral|reflexivity].
Qed.
Print Assumptions default_is_rounded_master.

(* 8. Composite tuples: whichever packing write-fonts picks, the tuple reads back as exactly
      the deltas that were computed; and a composite tuple is dropped only if all its deltas
      are zero. *)
Theorem composite_tuple_exact : forall coords ends tents ds, Forall integral_pt ds ->
  Forall2 pt_eq (full_deltas Composite coords ends (mkTuple tents (pack_sparse (composite_flags ds)))) ds
  /\ Forall2 pt_eq (full_deltas Composite coords ends (mkTuple tents (pack_dense (composite_flags ds)))) ds
  /\ (existsb snd (composite_flags ds) = false -> Forall (pt_eq pzero) ds).
Proof.
  intros coords ends tents ds H. destruct (composite_pack_exact coords ends tents ds H) as [A B].
  split; [exact A|]. split; [exact B|]. apply composite_dropped_zero. exact H.
Qed.
Print Assumptions composite_tuple_exact.

(* 9. The inferred-delta reading (simple glyphs): a referenced point keeps its explicit delta,
      and an inferred delta never leaves the range of the two reference deltas (or is zero). *)
Theorem iup_referenced_points_keep_their_delta : forall l i c d,
  nth_error l i = Some (c, Some d) -> nth i (iup_contour l) pzero = d.
Proof. exact iup_contour_explicit. Qed.
Print Assumptions iup_referenced_points_keep_their_delta.

Theorem iup_inferred_delta_in_range : forall c1 d1 c2 d2 c,
  (Qmin d1 d2 <= infer1 c1 d1 c2 d2 c <= Qmax d1 d2) \/ infer1 c1 d1 c2 d2 c == 0.
Proof. exact infer1_in_range. Qed.
Print Assumptions iup_inferred_delta_in_range.

(* 10. The certified checker: if glyph_ok accepts the decoded font data of a glyph, the glyph
       satisfies the bound at every one of its masters, for every point and both coordinates. *)
Theorem check_glyph_sound : forall n gl o D kd eps, wf_input n gl -> In o gl -> is_origin o -> (0 < D)%Z -> 0 <= eps ->
  let m := model_new gl in
  forall sq base ends kts, glyph_ok kd D eps gl sq base ends kts = true ->
  forall k lk s, nth_error (m_locs m) k = Some lk -> nth_error sq k = Some (Some s) ->
  forall c i, (i < length base)%nat ->
    Qabs (coord c (nth i (instantiate kd base ends base (map (font_tuple D (m_infl m)) kts) (locQ D lk)) pzero)
          - coord c (nth i s pzero))
    <= (1 # 2) + eps * active_sum (m_infl m) (point_deltas m sq c i) lk.
Proof. exact glyph_ok_sound. Qed.
Print Assumptions check_glyph_sound.

(* 11. The backend's fragment (what the correspondence run compares with the real GvarFragment)
       is, entry by entry, the per-point per-coordinate delta computation the theorems above
       speak about; it has one entry per model location that has a point sequence; its first
       entry is the default's own sequence. *)
Theorem fragment_is_pointwise_deltas : forall m sq n,
  map fst (model_deltas m sq n) = present_from 0 sq
  /\ forall k ds i, In (k, ds) (model_deltas m sq n) -> (i < n)%nat ->
       nth i ds pzero = (delta_at (point_deltas m sq false i) k, delta_at (point_deltas m sq true i) k).
Proof.
  intros m sq n. split; [apply model_deltas_keys|]. intros k ds i. apply model_deltas_pointwise.
Qed.
Print Assumptions fragment_is_pointwise_deltas.

(* 12. The bound does not depend on how rounding ties fall.  The model rounds exact rationals to
       even; the implementation rounds f64 values, which next to a tie x.5 may land on the other
       neighbour (and then every later delta of that point differs).  ANY delta list in which each
       delta is within 1/2 of the residual left by the list's own earlier deltas reproduces every
       master within 1/2; the model's round-ties-even list is one of them. *)
Theorem any_nearest_rounding_reproduces_masters : forall n gl, wf_input n gl ->
  let m := model_new gl in
  forall vals, length vals = length (m_locs m) ->
  valid_rounding 0 (m_weights m) vals (deltas m true vals) [] = true
  /\ forall a, valid_rounding 0 (m_weights m) vals a [] = true ->
     forall k lk x, nth_error (m_locs m) k = Some lk -> nth_error vals k = Some (Some x) ->
       Qabs (interpolate (m_infl m) a lk - x) <= 1 # 2.
Proof.
  intros n gl W m vals Hl. split; [apply model_deltas_are_a_valid_rounding|].
  intros a Ha. exact (any_nearest_rounding n gl W vals a Hl Ha).
Qed.
Print Assumptions any_nearest_rounding_reproduces_masters.

(* 13. The certified checker in the form that takes the backend's own delta lists (the decoded
       GvarFragment) instead of the model's: it checks that they are a nearest-integer rounding
       (12) and that the stored tuples are within eps of them; acceptance implies the bound at
       every master.  Used for the glyphs the harness flags as near a rounding tie. *)
Theorem check_glyph_frag_sound : forall n gl o D kd eps, wf_input n gl -> In o gl -> is_origin o -> (0 < D)%Z -> 0 <= eps ->
  let m := model_new gl in
  forall sq frag base ends kts, glyph_ok_frag kd D eps gl sq frag base ends kts = true ->
  forall k lk s, nth_error (m_locs m) k = Some lk -> nth_error sq k = Some (Some s) ->
  forall c i, (i < length base)%nat ->
    Qabs (coord c (nth i (instantiate kd base ends base (map (font_tuple D (m_infl m)) kts) (locQ D lk)) pzero)
          - coord c (nth i s pzero))
    <= (1 # 2) + eps * active_sum (m_infl m) (frag_column c i frag) lk.
Proof. exact glyph_ok_frag_sound. Qed.
Print Assumptions check_glyph_frag_sound.

(* 14. A glyph is kept as a composite only if every source lists the same base and the same 2x2
       at the same component POSITION (and no 2x2 entry leaves [-2,2], and the glyph has no outline
       of its own).  fontbe pairs component i of the default source with offset i of every source,
       so this - not "the same set of (base, 2x2) pairs" - is what theorems 5 and 7 need: the
       sequences compared at index i belong to the same component.  Which source the check looks at
       first (HashMap order) does not matter.  A glyph that repeats a base with two different 2x2s
       in different orders is therefore decomposed, per source, in that source's own order. *)
Theorem kept_composite_is_positional : forall has_outline srcs, kept_composite has_outline srcs = true ->
  has_outline = false
  /\ forall s s', In s srcs -> In s' srcs ->
       forall i c, nth_error s i = Some c ->
         exists c', nth_error s' i = Some c' /\ c_base c = c_base c' /\ q4_eq (c_2x2 c) (c_2x2 c').
Proof.
  intros ho srcs H. unfold kept_composite in H. apply andb_true_iff in H as [H Ho].
  apply andb_true_iff in H as [Hc _]. split; [destruct ho; [discriminate|reflexivity]|].
  intros s s' Hs Hs' i c Hi.
  destruct (Forall2_nth _ _ _ (consistent_positional srcs Hc s s' Hs Hs') i c Hi) as (c' & Hc' & He).
  exists c'. split; [exact Hc'|exact He].
Qed.
Print Assumptions kept_composite_is_positional.

(* ---- the hypotheses are satisfiable, the conclusions not vacuous ------------------------------------ *)
(* one axis, masters at 0, 1/2 (a sparse per-glyph master, drawn off the line between its
   neighbours, with a width of 570.5) and 1; the stored tuples omit points IUP can infer *)
Example ex_gl : list loc := [[0]; [2]; [1]]%Z.
Example ex_wf : wf_input 1 ex_gl.
Proof. split; [repeat (constructor; [cbn; intuition discriminate|]); constructor|repeat constructor]. Qed.
Example ex_origin : In [0%Z] ex_gl /\ is_origin [0%Z].
Proof. split; [left; reflexivity|repeat constructor]. Qed.

Example ex_src (w : Q) (pts : list pt) : gmetrics * instance := (mkGM 800 (-200), mkInst w None None pts []).
Example ex_seqs : list (loc * list pt) :=
  [ ([0%Z], point_seq Simple false (ex_src 500 [(0, 0); (100, 0); (50, 80)]));
    ([2%Z], point_seq Simple false (ex_src 640 [(0, 0); (141 # 1, 0); (70, 80)]));
    ([1%Z], point_seq Simple false (ex_src (1141 # 2) [(0, 0); (241 # 2, 0); (63, 95)])) ].
Example ex_sq := seqs_for (model_new ex_gl) ex_seqs.
Example ex_base : list pt := point_seq Simple false (ex_src 500 [(0, 0); (100, 0); (50, 80)]).
(* model order is 0, 1/2, 1: tuple 1 = the intermediate master, tuple 2 = the end master;
   the end master's tuple leaves point 2 to be inferred (true x delta 20, inferred 20.5) *)
Example ex_kts : list (nat * list (option pt)) :=
  [ (1%nat, [Some (zpt 0 0); Some (zpt 21 0); Some (zpt 13 15); None; Some (zpt 71 0); None; None]);
    (2%nat, [Some (zpt 0 0); Some (zpt 41 0); None; None; Some (zpt 140 0); None; None]) ].

Example ex_model_deltas :
  glyph_deltas (model_new ex_gl) ex_sq
  = Some [ (0%nat, [zpt 0 0; zpt 100 0; zpt 50 80; zpt 0 0; zpt 500 0; zpt 0 0; zpt 0 0]);
           (1%nat, [zpt 0 0; zpt 21 0; zpt 13 15; zpt 0 0; zpt 71 0; zpt 0 0; zpt 0 0]);
           (2%nat, [zpt 0 0; zpt 41 0; zpt 20 0; zpt 0 0; zpt 140 0; zpt 0 0; zpt 0 0]) ].
Proof. vm_compute. reflexivity. Qed.

Example ex_checker_accepts : glyph_ok Simple 2 (1 # 2) ex_gl ex_sq ex_base [2%nat] ex_kts = true.
Proof. vm_compute. reflexivity. Qed.

(* the end master's point 2 instantiates to (70.5, 80): half a unit from the master's (70, 80),
   inside the bound 1/2 + 1/2 * 1 — and the bound is attained only through the IUP term *)
Example ex_instance_at_end_master :
  let p := nth 2 (instantiate Simple ex_base [2%nat] ex_base (map (font_tuple 2 (m_infl (model_new ex_gl))) ex_kts) (locQ 2 [2%Z])) pzero in
  Qeq_bool (fst p) (141 # 2) && Qeq_bool (snd p) 80 = true.
Proof. vm_compute. reflexivity. Qed.

Example ex_active_sum_at_end_master :
  Qeq_bool (active_sum (m_infl (model_new ex_gl)) (point_deltas (model_new ex_gl) ex_sq false 2) [2%Z]) 1 = true.
Proof. vm_compute. reflexivity. Qed.

(* a fragment that differs from the model's at a tie (observed in the correspondence run): two
   axes on a 1/6 grid, masters (0,0), (1/3,1), (5/6,5/6), (1,1); the values 880, 844, 880, 900
   leave the residual 880 - 880 + 36 * 5/24 = 7.5 at (5/6,5/6): the model rounds it to 8 (even),
   the implementation's f64 arithmetic lands just below the tie and rounds to 7.  Both lists are
   nearest roundings - and nothing else with a 6 there is. *)
Example ex_tie_gl : list loc := [[0; 0]; [5; 5]; [6; 6]; [2; 6]]%Z.
Example ex_tie_vals : list (option Q) := [Some 880; Some 844; Some 880; Some 900].
Example ex_tie_model : deltas (model_new ex_tie_gl) true ex_tie_vals = [(0%nat, 880); (1%nat, -36); (2%nat, 8); (3%nat, 20)].
Proof. vm_compute. reflexivity. Qed.
Example ex_tie_other_is_valid :
  valid_rounding 0 (m_weights (model_new ex_tie_gl)) ex_tie_vals [(0%nat, 880); (1%nat, -36); (2%nat, 7); (3%nat, 20)] [] = true
  /\ valid_rounding 0 (m_weights (model_new ex_tie_gl)) ex_tie_vals [(0%nat, 880); (1%nat, -36); (2%nat, 6); (3%nat, 21)] [] = false.
Proof. vm_compute. split; reflexivity. Qed.

(* the same base twice, full size and half size; the second master lists them the other way round:
   the SET of (base, 2x2) pairs is the same in both masters, the positions are not - decomposed *)
Example ex_reordered : list (list comp) :=
  [ [mkComp 1 (1, 0, 0, 1) (0, 0); mkComp 1 (1 # 2, 0, 0, 1 # 2) (560, 0)];
    [mkComp 1 (1 # 2, 0, 0, 1 # 2) (580, 0); mkComp 1 (1, 0, 0, 1) (50, 0)] ].
Example ex_reordered_decomposed : kept_composite false ex_reordered = false.
Proof. vm_compute. reflexivity. Qed.
Example ex_same_order_kept :
  kept_composite false [ [mkComp 1 (1, 0, 0, 1) (0, 0); mkComp 1 (1 # 2, 0, 0, 1 # 2) (560, 0)];
                         [mkComp 1 (1, 0, 0, 1) (50, 0); mkComp 1 (1 # 2, 0, 0, 1 # 2) (580, 0)] ] = true.
Proof. vm_compute. reflexivity. Qed.

