(* C03 — comparison functions used by the correspondence run (no proofs): the model
   evaluated on the masters' point sequences against what the implementation left behind
   (the per-glyph GvarFragment, the decoded gvar tuples, the positions an independent
   evaluator computes at every master), plus the certified checker Proofs.glyph_ok run on
   the decoded font. *)
From Coq Require Import List ZArith QArith Qabs Qround Bool.
From FV.Base Require Import Harness.
From FV.C07 Require Import Model.
From FV.C03 Require Import Model ProofsBound ProofsEval Proofs ProofsRounding ProofsAny.
Import ListNotations.
Open Scope Q_scope.

Fixpoint all2 {A B} (f : A -> B -> bool) (a : list A) (b : list B) : bool :=
  match a, b with
  | [], [] => true
  | x :: a', y :: b' => f x y && all2 f a' b'
  | _, _ => false
  end.

Definition zp (p : Z * Z) : pt := zpt (fst p) (snd p).
Definition pt_eqb (a b : pt) : bool := Qeq_bool (fst a) (fst b) && Qeq_bool (snd a) (snd b).
Definition triple_eqb (a b : Z * Z * Z) : bool :=
  let '(a1, a2, a3) := a in let '(b1, b2, b3) := b in (a1 =? b1)%Z && (a2 =? b2)%Z && (a3 =? b3)%Z.
Definition tent_triple (t : tent) : Z * Z * Z := (tmin t, tpeak t, tmax t).

Definition frag_t := (list (Z * Z * Z) * list (Z * Z * bool))%type.
Definition tuple_t := (list (Z * Z * Z) * list (option (Z * Z)))%type.

Definition frag_deltas (f : frag_t) : list gdelta := map (fun d => (zpt (fst (fst d)) (snd (fst d)), snd d)) (snd f).

(* the fragment is the model's delta list: same regions (exact tents), same deltas, in model order *)
Definition frag_matches (infl : list region) (md : list (nat * list pt)) (frag : list frag_t) : bool :=
  all2 (fun (a : nat * list pt) (f : frag_t) =>
              list_eqb triple_eqb (map tent_triple (tents (region_at infl (fst a)))) (fst f)
              && list_eqb pt_eqb (snd a) (map fst (frag_deltas f)))
           md frag.

Definition opt_pt_eqb (a b : option pt) : bool :=
  match a, b with Some x, Some y => pt_eqb x y | None, None => true | _, _ => false end.

(* the decoded tuples are what to_deltas keeps, tents in 2.14, each packed dense or sparse *)
Definition tuples_match (D : Z) (infl : list region) (kept : list (nat * list gdelta)) (tuples : list tuple_t) : bool :=
  all2 (fun (k : nat * list gdelta) (t : tuple_t) =>
              list_eqb triple_eqb (map (tentF D) (tents (region_at infl (fst k)))) (fst t)
              && (let st := map (option_map zp) (snd t) in
                  list_eqb opt_pt_eqb st (pack_sparse (snd k)) || list_eqb opt_pt_eqb st (pack_dense (snd k))))
           kept tuples.

Definition qtuple (t : tuple_t) : tuple :=
  mkTuple (map (fun x => let '(s, p, e) := x in (inject_Z s / 16384, inject_Z p / 16384, inject_Z e / 16384)) (fst t))
          (map (option_map zp) (snd t)).
Definition qloc (D : Z) (l : loc) : list Q := map (fun z => inject_Z (f2dot14 (inject_Z z / inject_Z D)) / 16384) l.

Definition close_pts (eps : Q) (a b : list pt) : bool :=
  list_eqb (fun p q => Qclose eps (fst p) (fst q) && Qclose eps (snd p) (snd q)) a b.

Record verdict := mkVerdict {
  v_deltas : bool;      (* glyph_deltas defined *)
  v_frag : bool;        (* fragment = model deltas and regions *)
  v_flags : bool;       (* composite: required <-> non-zero *)
  v_tuples : bool;      (* decoded gvar = to_deltas + packing, 2.14 tents *)
  v_checker : bool;     (* certified checker on the decoded font *)
  v_eval : bool;        (* Coq evaluator = harness evaluator at every master *)
  v_seq : bool          (* Model.point_seq on the source values = the masters' sequences: phantom points, component offsets *)
}.

(* per master: width, height, vertical origin, component offsets - the source values, unrounded *)
Definition src_t := (Q * option Q * option Q * list (Q * Q))%type.
Definition src_instance (s : src_t) : gmetrics * instance :=
  let '(w, h, vo, comps) := s in (mkGM 800 (-200), mkInst w h vo [] comps).

(* the rounded component offsets and the four phantom points the model derives from the source values
   are what the master's own static build shows (outline points: from the conversion oracle) *)
Definition seq_matches (kd : kind) (bv : bool) (s : src_t) (sq : list pt) : bool :=
  let ps := point_seq Composite bv (src_instance s) in
  match kd with
  | Composite => list_eqb pt_eqb ps sq
  | Simple => list_eqb pt_eqb (skipn (length ps - 4) ps) (skipn (length sq - 4) sq)
  end.

(* positions come from the harness as integers in units of 2^-20 *)
Definition unscale (p : Z * Z) : pt := (inject_Z (fst p) / 1048576, inject_Z (snd p) / 1048576).

Definition judge (kd : kind) (D : Z) (global gl : list loc) (seqs : list (list (Z * Z))) (zends : list Z)
           (frag : list frag_t) (tuples : list tuple_t) (zinsts : list (list (Z * Z)))
           (bv : bool) (srcs : list src_t) : verdict :=
  let ends := map Z.to_nat zends in
  let insts := map (map unscale) zinsts in
  let m := glyph_model (model_new global) gl in
  let pseqs := map (map zp) seqs in
  let sq := seqs_for m (combine gl pseqs) in
  let base := hd [] pseqs in
  match glyph_deltas m sq with
  | None => mkVerdict false false false false false false false
  | Some md =>
      let infl := m_infl m in
      let kfrag := combine (map fst md) (map frag_deltas frag) in
      let kept := to_deltas infl kfrag in
      let kts := combine (map fst kept) (map (fun t : tuple_t => map (option_map zp) (snd t)) tuples) in
      let eps := match kd with Simple => 1 # 2 | Composite => 0 end in
      mkVerdict true
        (frag_matches infl md frag)
        (match kd with
         | Simple => true
         | Composite => all2 (fun (a : nat * list pt) (f : frag_t) =>
                                     list_eqb (fun (x y : gdelta) => pt_eqb (fst x) (fst y) && Bool.eqb (snd x) (snd y))
                                              (composite_flags (snd a)) (frag_deltas f)) md frag
         end)
        (tuples_match D infl kept tuples)
        (Nat.eqb (length kept) (length tuples)
         && glyph_ok kd D eps gl (seqs_for (model_new gl) (combine gl pseqs)) base ends kts)
        (all2 (fun (l : loc) (inst : list pt) =>
                     close_pts (1 # 100000) (instantiate kd base ends base (map qtuple tuples) (qloc D l)) inst)
                  gl insts)
        (all2 (seq_matches kd bv) srcs pseqs)
  end.

(* ---- rounding ties --------------------------------------------------------------------------
   The model rounds exact rationals; the implementation rounds f64 values.  When a pre-rounding
   value is (within f64 error of) a tie x.5 the two may round to different neighbours, and every
   later delta of that point then differs too.  For glyphs the harness flags as near a tie the
   comparison is made tolerant: the fragment must be SOME nearest-integer rounding of the
   residuals computed from its own earlier deltas (exactly the model's rule, ties either way). *)
Definition frag_valid_rounding (m : model) (sq : list (option (list pt))) (n : nat) (frag : list frag_t) : bool :=
  let keys := present_from 0 sq in
  let kf := combine keys (map (fun f => map fst (frag_deltas f)) frag) in
  Nat.eqb (length keys) (length frag)
  && forallb (fun i => forallb (fun c =>
       valid_rounding 0 (m_weights m) (coord_vals c i sq) (frag_column c i kf) []) [false; true]) (seq 0 n)
  && all2 (fun k (f : frag_t) => list_eqb triple_eqb (map tent_triple (tents (region_at (m_infl m) k))) (fst f)) keys frag.

(* the bound of the property, evaluated directly with the model's exact regions *)
Definition direct_bound_ok (kd : kind) (D : Z) (infl : list region) (gl : list loc) (pseqs : list (list pt))
           (base : list pt) (ends : list nat) (kts : list (nat * list (option pt))) : bool :=
  let ts := map (font_tuple D infl) kts in
  all2 (fun (l : loc) (s : list pt) =>
          let act := fold_right (fun t a => tuple_scalar (tp_tents t) (locQ D l) + a) 0 ts in
          let b := (1 # 2) + (1 # 2) * act in
          all2 (fun p q => Qle_bool (Qabs (fst p - fst q)) b && Qle_bool (Qabs (snd p - snd q)) b)
               (instantiate kd base ends base ts (locQ D l)) s)
       gl pseqs.

Definition check_glyph_tie (kd : kind) (D : Z) (global gl : list loc) (seqs : list (list (Z * Z))) (zends : list Z)
           (frag : list frag_t) (tuples : list tuple_t) (insts : list (list (Z * Z)))
           (bv : bool) (srcs : list src_t) : bool :=
  let ends := map Z.to_nat zends in
  let v := judge kd D global gl seqs zends frag tuples insts bv srcs in
  (v_deltas v && v_frag v && v_flags v && v_tuples v && v_checker v && v_eval v && v_seq v)
  || (let m := glyph_model (model_new global) gl in
      let pseqs := map (map zp) seqs in
      let sq := seqs_for m (combine gl pseqs) in
      let base := hd [] pseqs in
      let infl := m_infl m in
      let kfrag := combine (present_from 0 sq) (map frag_deltas frag) in
      let kept := to_deltas infl kfrag in
      let kts := combine (map fst kept) (map (fun t : tuple_t => map (option_map zp) (snd t)) tuples) in
      let eps := match kd with Simple => 1 # 2 | Composite => 0 end in
      let kf := combine (present_from 0 sq) (map (fun f => map fst (frag_deltas f)) frag) in
      frag_valid_rounding m sq (length base) frag
      && tuples_match D infl kept tuples
      && Nat.eqb (length kept) (length tuples)
      && glyph_ok_frag kd D eps gl (seqs_for (model_new gl) (combine gl pseqs)) kf base ends kts
      && direct_bound_ok kd D infl gl pseqs base ends kts
      && v_eval v && v_seq v).

Definition check_glyph kd D global gl seqs ends frag tuples insts bv srcs : bool :=
  let v := judge kd D global gl seqs ends frag tuples insts bv srcs in
  v_deltas v && v_frag v && v_flags v && v_tuples v && v_checker v && v_eval v && v_seq v.

(* diagnostics for a failing case *)
Definition explain_glyph kd D global gl seqs ends frag tuples insts bv srcs :=
  let v := judge kd D global gl seqs ends frag tuples insts bv srcs in
  let m := glyph_model (model_new global) gl in
  (v, m_locs m, glyph_deltas m (seqs_for m (combine gl (map (map zp) seqs)))).

(* ---- kept as a composite or decomposed: the model's (positional) decision against the glyf table ------ *)
Definition mk_comps (srcs : list (list (N * (Q * Q * Q * Q)))) : list (list comp) :=
  map (map (fun c => mkComp (fst c) (snd c) pzero)) srcs.

Definition check_kept (observed_composite has_outline : bool) (srcs : list (list (N * (Q * Q * Q * Q)))) : bool :=
  Bool.eqb observed_composite (kept_composite has_outline (mk_comps srcs)).

