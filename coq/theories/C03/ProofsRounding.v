(* C03 — the bound does not depend on how ties are broken: ANY delta list in which every delta
   is within 1/2 of the residual computed from the earlier deltas of the list (round-ties-even on
   exact rationals, round-ties-even on f64 values that landed on the other side of a tie, round
   half up, ...) reproduces every master within 1/2.  This is the C07 induction
   (Deltas.deltas_from_inv) with the rounding function replaced by its only property used. *)
From Coq Require Import List ZArith QArith Qabs Qround Bool Lia Lqa Sorting.Permutation.
From FV.C07 Require Import Model Tents Trim Influence Deltas Main Props.
From FV.C03 Require Import Model.
Import ListNotations.
Open Scope Q_scope.

(* fr: the delta list under test, one entry per location with a value, in model order;
   res: the entries consumed so far *)
Fixpoint valid_rounding (i : nat) (ws : list (list (nat * Q))) (vals : list (option Q))
         (fr : list (nat * Q)) (res : list (nat * Q)) : bool :=
  match ws, vals with
  | w :: ws', v :: vals' =>
      match v with
      | Some x =>
          match fr with
          | (k, d) :: fr' =>
              Nat.eqb k i && Qle_bool (Qabs (d - subtract_influences x w res)) (1 # 2)
              && valid_rounding (S i) ws' vals' fr' (res ++ [(i, d)])
          | [] => false
          end
      | None => valid_rounding (S i) ws' vals' fr res
      end
  | _, _ => match fr with [] => true | _ => false end
  end.

Section AnyRounding.
  Variable locs : list loc.
  Variable infl : list region.
  Hypothesis Hwf : Forall2 wf_region locs infl.
  Hypothesis Hdead : later_dead locs infl.

  Definition inv2 (pre : list loc) (vpre : list (option Q)) (res : list (nat * Q)) : Prop :=
    Forall (fun p => (fst p < length pre)%nat) res
    /\ NoDup (map fst res)
    /\ (forall k lk x, nth_error pre k = Some lk -> nth_error vpre k = Some (Some x) ->
                       Qabs (interpolate infl res lk - x) <= 1 # 2).

  Lemma valid_rounding_inv sl : forall pre vpre vsl res fr,
    locs = pre ++ sl -> length vpre = length pre -> length vsl = length sl ->
    inv2 pre vpre res ->
    valid_rounding (length pre) (delta_weights_from (length pre) infl sl) vsl fr res = true ->
    inv2 locs (vpre ++ vsl) (res ++ fr).
  Proof.
    induction sl as [|l sl IH]; intros pre vpre vsl res fr Hl Hvp Hvs Hinv Hv.
    - destruct vsl; [|discriminate]. rewrite app_nil_r in *. subst pre.
      cbn [delta_weights_from valid_rounding] in Hv. destruct fr; [|discriminate]. rewrite app_nil_r. exact Hinv.
    - destruct vsl as [|v vsl]; [discriminate|]. cbn [delta_weights_from valid_rounding] in Hv.
      cbn [length] in Hvs.
      assert (Hi : nth_error locs (length pre) = Some l).
      { rewrite Hl, nth_error_app2 by lia. rewrite Nat.sub_diag. reflexivity. }
      assert (Hlen : (length pre < length infl)%nat).
      { rewrite (infl_length locs infl Hwf), Hl, app_length. cbn [length]. lia. }
      destruct (nth_error infl (length pre)) as [ri|] eqn:Hri; [|apply nth_error_None in Hri; lia].
      replace (S (length pre)) with (length (pre ++ [l])) in Hv by (rewrite app_length; cbn [length]; lia).
      replace (vpre ++ v :: vsl) with ((vpre ++ [v]) ++ vsl) by (rewrite <- app_assoc; reflexivity).
      destruct Hinv as (Hlt & Hnd & Hrep).
      destruct v as [x|].
      + destruct fr as [|[k d] fr']; [discriminate|].
        apply andb_true_iff in Hv as [Hv Hrest]. apply andb_true_iff in Hv as [Hk Hd].
        apply Nat.eqb_eq in Hk. subst k. apply Qle_bool_iff in Hd.
        replace (res ++ (length pre, d) :: fr') with ((res ++ [(length pre, d)]) ++ fr')
          by (rewrite <- app_assoc; reflexivity).
        apply (IH (pre ++ [l]) (vpre ++ [Some x]) vsl); [rewrite <- app_assoc; exact Hl|rewrite !app_length; cbn [length]; lia|lia| |exact Hrest].
        split; [|split].
        * apply Forall_app. split.
          -- eapply Forall_impl; [|exact Hlt]. intros p Hp. cbn beta in Hp |- *. rewrite app_length. cbn [length]. lia.
          -- constructor; [|constructor]. cbn [fst]. rewrite app_length. cbn [length]. lia.
        * rewrite map_app. cbn [map fst]. apply NoDup_app_snoc; [exact Hnd|].
          intro Hin. apply in_map_iff in Hin as (p & Hp1 & Hp2).
          rewrite Forall_forall in Hlt. specialize (Hlt p Hp2). lia.
        * intros k lk y Hk Hy.
          assert (E : interpolate infl (res ++ [(length pre, d)]) lk == interpolate infl res lk + scalar_at ri lk * d).
          { rewrite interpolate_app. cbn [interpolate]. rewrite Hri. ring. }
          rewrite E.
          destruct (Nat.lt_ge_cases k (length pre)) as [Hkl|Hkl].
          -- rewrite nth_error_app1 in Hk by exact Hkl. rewrite nth_error_app1 in Hy by lia.
             assert (Hk' : nth_error locs k = Some lk) by (rewrite Hl, nth_error_app1 by exact Hkl; exact Hk).
             rewrite (later_scalar_at locs infl Hdead k (length pre) lk ri Hkl Hk' Hri).
             setoid_replace (interpolate infl res lk + 0 * d - y) with (interpolate infl res lk - y) by ring.
             eapply Hrep; eassumption.
          -- assert (k = length pre).
             { assert (Hb : (k < length (pre ++ [l]))%nat) by (apply nth_error_Some; congruence).
               rewrite app_length in Hb. cbn [length] in Hb. lia. }
             subst k. rewrite nth_error_app2 in Hk by lia. rewrite Nat.sub_diag in Hk. cbn in Hk.
             injection Hk as <-.
             rewrite nth_error_app2 in Hy by lia. rewrite Hvp, Nat.sub_diag in Hy. cbn in Hy.
             injection Hy as <-.
             rewrite (own_scalar_at locs infl Hwf (length pre) l ri Hi Hri).
             assert (Hsub : subtract_influences x (weights_at 0 (firstn (length pre) infl) l) res
                            == x - interpolate infl res l).
             { rewrite subtract_sumw, sumw_weights, sumall_interpolate; [reflexivity|exact Hnd|exact Hlt|lia]. }
             rewrite Hsub in Hd.
             setoid_replace (interpolate infl res l + 1 * d - x) with (d - (x - interpolate infl res l)) by ring.
             exact Hd.
      + apply (IH (pre ++ [l]) (vpre ++ [None]) vsl); [rewrite <- app_assoc; exact Hl|rewrite !app_length; cbn [length]; lia|lia| |exact Hv].
        split; [|split].
        * eapply Forall_impl; [|exact Hlt]. intros p Hp. cbn beta in Hp |- *. rewrite app_length. cbn [length]. lia.
        * exact Hnd.
        * intros k lk y Hk Hy.
          destruct (Nat.lt_ge_cases k (length pre)) as [Hkl|Hkl].
          -- rewrite nth_error_app1 in Hk by exact Hkl. rewrite nth_error_app1 in Hy by lia.
             eapply Hrep; eassumption.
          -- assert (k = length pre).
             { assert (Hb : (k < length (pre ++ [l]))%nat) by (apply nth_error_Some; congruence).
               rewrite app_length in Hb. cbn [length] in Hb. lia. }
             subst k. rewrite nth_error_app2 in Hy by lia. rewrite Hvp, Nat.sub_diag in Hy. cbn in Hy. discriminate.
  Qed.

  Theorem valid_rounding_reproduces vals fr : length vals = length locs ->
    valid_rounding 0 (delta_weights_from 0 infl locs) vals fr [] = true ->
    forall k lk x, nth_error locs k = Some lk -> nth_error vals k = Some (Some x) ->
      Qabs (interpolate infl fr lk - x) <= 1 # 2.
  Proof.
    intros Hv H. pose proof (valid_rounding_inv locs [] [] vals [] fr eq_refl eq_refl Hv) as Hi.
    destruct Hi as (_ & _ & Hi); [|exact H|exact Hi].
    split; [constructor|]. split; [constructor|]. intros k lk x Hk. destruct k; discriminate.
  Qed.
End AnyRounding.

(* for the model of VariationModel::new *)
Theorem any_nearest_rounding n gl : wf_input n gl ->
  let m := model_new gl in
  forall vals fr, length vals = length (m_locs m) ->
    valid_rounding 0 (m_weights m) vals fr [] = true ->
  forall k lk x, nth_error (m_locs m) k = Some lk -> nth_error vals k = Some (Some x) ->
    Qabs (interpolate (m_infl m) fr lk - x) <= 1 # 2.
Proof.
  intros W m vals fr Hl Hv. subst m. destruct (model_invariants n gl W) as (_ & A & B & C).
  rewrite C in Hv. exact (valid_rounding_reproduces _ _ A B vals fr Hl Hv).
Qed.

(* round-ties-even on exact rationals is one such rounding: the model's own deltas pass the test *)
Lemma model_deltas_valid_from rounding_ws : forall i vals res,
  valid_rounding i rounding_ws vals (skipn (length res) (deltas_from true i rounding_ws vals res)) res = true.
Proof.
  induction rounding_ws as [|w ws IH]; intros i vals res.
  - cbn [deltas_from valid_rounding]. rewrite skipn_all. destruct vals; reflexivity.
  - destruct vals as [|[x|] vals]; cbn [deltas_from valid_rounding].
    + rewrite skipn_all. reflexivity.
    + set (d := apply_rounding true (subtract_influences x w res)).
      assert (Hpre : exists tail, deltas_from true (S i) ws vals (res ++ [(i, d)]) = (res ++ [(i, d)]) ++ tail).
      { clear. generalize (res ++ [(i, d)]) as r. generalize (S i) as j. revert vals.
        induction ws as [|w' ws IHw]; intros vals j r; [exists []; cbn; rewrite app_nil_r; destruct vals; reflexivity|].
        destruct vals as [|[y|] vals]; cbn [deltas_from].
        - exists []. rewrite app_nil_r. reflexivity.
        - destruct (IHw vals (S j) (r ++ [(j, apply_rounding true (subtract_influences y w' r))])) as (t & Ht).
          exists ((j, apply_rounding true (subtract_influences y w' r)) :: t). rewrite Ht, <- app_assoc. reflexivity.
        - apply IHw. }
      destruct Hpre as (tail & Ht).
      specialize (IH (S i) vals (res ++ [(i, d)])). rewrite Ht in IH |- *.
      rewrite <- app_assoc. cbn [app].
      rewrite skipn_app, skipn_all, Nat.sub_diag. cbn [skipn app].
      rewrite Nat.eqb_refl. cbn [andb].
      replace (Qle_bool (Qabs (d - subtract_influences x w res)) (1 # 2)) with true.
      * cbn [andb]. rewrite skipn_app, skipn_all, Nat.sub_diag in IH. cbn [skipn app] in IH. exact IH.
      * symmetry. apply Qle_bool_iff. unfold d, apply_rounding. apply round_ties_even_bound.
    + apply IH.
Qed.

Theorem model_deltas_are_a_valid_rounding m vals :
  valid_rounding 0 (m_weights m) vals (deltas m true vals) [] = true.
Proof. unfold deltas. exact (model_deltas_valid_from (m_weights m) 0%nat vals []). Qed.
