(* C03 — tents of the model's regions as OpenType reads them.
   1. An extra invariant of the C07 influence regions: a tent whose peak is 0 is the
      all-zero tent (the trimming never touches an inactive axis).
   2. For such tents the OpenType per-axis scalar (axis_scalar, from the spec) equals
      the C07 tent_scalar; hence tuple_scalar = scalar_at on the model's regions. *)
From Coq Require Import List ZArith QArith Qabs Qround Bool Lia Lqa Sorting.Permutation.
From Coq Require Import ZifyBool.
From FV.C07 Require Import Model Tents Trim Influence Deltas Main.
From FV.C03 Require Import Model.
Import ListNotations.

Open Scope Z_scope.

Definition zok (t : tent) : Prop := tpeak t = 0 -> is_zero_tent t.
Definition zok_region (r : region) : Prop := Forall zok (tents r).

Lemma region_tents_zok locs l : forall i, Forall zok (region_tents locs i l).
Proof.
  induction l as [|v l IH]; intro i; cbn [region_tents]; constructor; [|apply IH].
  unfold zok, is_zero_tent, tent_new. destruct (Z.eqb_spec v 0) as [->|Hv]; cbn.
  - lia.
  - destruct (Z.ltb_spec 0 v); cbn [tpeak tmin tmax]; lia.
Qed.

Lemma apply_cut_zok x fl : good x -> flag_ok x fl -> zok (fst (fst x)) -> zok (apply_cut x fl).
Proof.
  destruct x as [[t pp] act]. intros (_ & _ & Ha) Hf Hz. cbn [fst] in Hz.
  unfold apply_cut. destruct fl; cbn [fst snd]; [|exact Hz].
  specialize (Hf eq_refl). unfold cand in Hf.
  assert (Hact : act = true) by lia. specialize (Ha Hact).
  unfold zok, cut_tent. destruct (Z.ltb_spec pp (tpeak t)); cbn [tpeak tmin tmax]; intro; contradiction.
Qed.

Lemma map2_cut_zok xs : forall f,
  Forall good xs -> Forall2 flag_ok xs f -> Forall zok (map (fun x => fst (fst x)) xs) ->
  Forall zok (map2 apply_cut xs f).
Proof.
  induction xs as [|x xs IH]; intros f Hg HF Hz; inversion HF as [|? fl ? f' Hfl HF']; subst;
    cbn [map2 map] in *; [constructor|].
  inversion Hg as [|? ? Hgx Hgxs]; subst. inversion Hz as [|? ? Hzx Hzxs]; subst.
  constructor; [apply apply_cut_zok; assumption|apply IH; assumption].
Qed.

Lemma trim_zok l lp r prev :
  wf_region l r -> wf_region lp prev -> length lp = length l -> zok_region r -> zok_region (trim r prev).
Proof.
  intros Hr Hp Hlen Hz. unfold trim.
  destruct (negb (bools_eqb (active r) (active prev))); [exact Hz|].
  rewrite (wf_peaks _ _ Hp).
  destruct (forallb overlap1 (combine (tents r) lp)) eqn:Hov; cbn [negb]; [|exact Hz].
  destruct (axis_inputs_good l r lp Hr Hlen Hov) as (Hg & Ht & Hpp & Ha).
  fold (axis_inputs r lp).
  destruct (one_pass_flags (axis_inputs r lp)) as [HF _].
  unfold zok_region. cbn [tents]. apply map2_cut_zok; [exact Hg|exact HF|]. rewrite Ht. exact Hz.
Qed.

Lemma fold_trim_zok acc : forall alocs l r,
  Forall2 wf_region alocs acc -> Forall (fun a => length a = length l) alocs ->
  wf_region l r -> zok_region r -> zok_region (fold_left trim acc r).
Proof.
  induction acc as [|p acc IH]; intros alocs l r HA HL Hr Hz; cbn [fold_left]; [exact Hz|].
  inversion HA as [|lp ? alocs' ? Hp HA']; subst. inversion HL as [|? ? Hlp HL']; subst.
  eapply IH; [exact HA'|exact HL'|eapply trim_wf; eassumption|eapply trim_zok; eassumption].
Qed.

Lemma influence_acc_zok full rest : forall alocs acc,
  Forall2 wf_region alocs acc -> Forall zok_region acc ->
  Forall (fun a => length a = length (hd [] full)) (alocs ++ rest) ->
  incl rest full ->
  Forall zok_region (influence_acc acc (map (region_of full) rest)).
Proof.
  induction rest as [|lj rest IH]; intros alocs acc HA HZ HL Hincl; cbn [map influence_acc]; [exact HZ|].
  assert (Hlj_in : In lj full) by (apply Hincl; left; reflexivity).
  pose proof (region_of_wf full lj Hlj_in) as Hrj.
  assert (HLa : Forall (fun a => length a = length lj) alocs).
  { apply Forall_app in HL as [HL1 HL2]. inversion HL2 as [|? ? Hlj _]; subst.
    eapply Forall_impl; [|exact HL1]. intros a Ha. cbn beta in *. congruence. }
  pose proof (fold_trim_wf acc alocs lj _ HA HLa Hrj) as Hnew.
  assert (Hzj : zok_region (region_of full lj)).
  { unfold zok_region, region_of. cbn [tents]. apply region_tents_zok. }
  pose proof (fold_trim_zok acc alocs lj _ HA HLa Hrj Hzj) as Hznew.
  apply (IH (alocs ++ [lj])).
  - apply Forall2_app; [exact HA|constructor; [exact Hnew|constructor]].
  - apply Forall_app. split; [exact HZ|constructor; [exact Hznew|constructor]].
  - rewrite <- app_assoc. exact HL.
  - intros x Hx. apply Hincl. right. exact Hx.
Qed.

Theorem model_regions_zok n locs : wf_input n locs -> Forall zok_region (m_infl (model_new locs)).
Proof.
  intros [Hnd Hlen]. unfold model_new. cbn [m_infl]. unfold master_influence, regions_for.
  set (s := sort_locations locs).
  assert (Hp : Permutation s locs) by apply sort_perm.
  apply (influence_acc_zok s s [] []).
  - constructor.
  - constructor.
  - cbn [app]. assert (Hs : Forall (fun l => length l = n) s).
    { eapply Permutation_Forall; [symmetry; exact Hp|exact Hlen]. }
    destruct s as [|h t]; [constructor|]. cbn [hd]. inversion Hs as [|? ? Hh _]; subst.
    eapply Forall_impl; [|exact Hs]. intros a Ha. cbn beta in *. congruence.
  - apply incl_refl.
Qed.

(* ---- OpenType axis scalar = C07 tent scalar ------------------------------------------- *)
Open Scope Q_scope.

Lemma Qeq_bool_false_neq a b : Qeq_bool a b = false -> ~ a == b.
Proof. intros H E. apply Qeq_bool_iff in E. congruence. Qed.

Lemma inj_eq0 z : inject_Z z == 0 -> z = 0%Z.
Proof. unfold Qeq. cbn. lia. Qed.
Lemma inj_inj a b : inject_Z a == inject_Z b -> a = b.
Proof. unfold Qeq. cbn. lia. Qed.

Lemma inj_sub a b : inject_Z (a - b) == inject_Z a - inject_Z b.
Proof. unfold Z.sub. rewrite inject_Z_plus, inject_Z_opp. ring. Qed.

Lemma inj_pos D : (0 < D)%Z -> 0 < inject_Z D.
Proof. intro H. change 0 with (inject_Z 0). rewrite <- Zlt_Qlt. exact H. Qed.

Lemma inj_div_lt a b D : (0 < D)%Z -> (inject_Z a / inject_Z D < inject_Z b / inject_Z D <-> (a < b)%Z).
Proof.
  intro HD. assert (Hd : 0 < inject_Z D) by (apply inj_pos; exact HD).
  rewrite Zlt_Qlt. unfold Qdiv. split; intro H.
  - apply Qmult_lt_r with (z := / inject_Z D); [apply Qinv_lt_0_compat; exact Hd|exact H].
  - apply Qmult_lt_r; [apply Qinv_lt_0_compat; exact Hd|exact H].
Qed.

Lemma inj_div_le a b D : (0 < D)%Z -> (inject_Z a / inject_Z D <= inject_Z b / inject_Z D <-> (a <= b)%Z).
Proof.
  intro HD. assert (Hd : 0 < inject_Z D) by (apply inj_pos; exact HD).
  rewrite Zle_Qle. unfold Qdiv. split; intro H.
  - apply Qmult_le_r with (z := / inject_Z D); [apply Qinv_lt_0_compat; exact Hd|exact H].
  - apply Qmult_le_r; [apply Qinv_lt_0_compat; exact Hd|exact H].
Qed.

Lemma inj_div_eq a b D : (0 < D)%Z -> (inject_Z a / inject_Z D == inject_Z b / inject_Z D <-> a = b).
Proof.
  intro HD. split; intro H.
  - apply Z.le_antisymm; apply (inj_div_le _ _ D HD); rewrite H; apply Qle_refl.
  - subst. reflexivity.
Qed.

Lemma inj_div_0 D : inject_Z 0 / inject_Z D == 0.
Proof. unfold Qdiv. change (inject_Z 0) with 0. ring. Qed.

Lemma inj_div_neg a D : (0 < D)%Z -> inject_Z a / inject_Z D < 0 -> (a < 0)%Z.
Proof. intros HD H. apply (proj1 (inj_div_lt a 0 D HD)). rewrite inj_div_0. exact H. Qed.
Lemma inj_div_pos a D : (0 < D)%Z -> 0 < inject_Z a / inject_Z D -> (0 < a)%Z.
Proof. intros HD H. apply (proj1 (inj_div_lt 0 a D HD)). rewrite inj_div_0. exact H. Qed.
Lemma inj_div_is0 a D : (0 < D)%Z -> inject_Z a / inject_Z D == 0 -> a = 0%Z.
Proof. intros HD H. apply (proj1 (inj_div_eq a 0 D HD)). rewrite inj_div_0. exact H. Qed.

Lemma ratio_div a b D : (0 < D)%Z -> ~ (b = 0)%Z ->
  (inject_Z a / inject_Z D) / (inject_Z b / inject_Z D) == ratio a b.
Proof.
  intros HD Hb. unfold ratio.
  assert (Hd : ~ inject_Z D == 0).
  { intro E. apply inj_eq0 in E. lia. }
  assert (Hb' : ~ inject_Z b == 0).
  { intro E. apply inj_eq0 in E. lia. }
  field. split; assumption.
Qed.

(* the OpenType scalar of a model tent at a scaled coordinate *)
Lemma axis_scalar_tent D t v : (0 < D)%Z -> valid t -> zok t ->
  axis_scalar (tentQ D t) (inject_Z v / inject_Z D) == tent_scalar t v.
Proof.
  intros HD Hv Hz. unfold axis_scalar, tentQ, tent_scalar.
  pose proof (proj2 (tent_valid_iff t) Hv) as Hvb. rewrite Hvb. cbn [negb].
  destruct Hv as [[H1 H2] H3].
  destruct (Qlt_le_dec _ _) as [L|_]; [apply (proj1 (inj_div_lt _ _ D HD)) in L; lia|].
  destruct (Qlt_le_dec _ _) as [L|_]; [apply (proj1 (inj_div_lt _ _ D HD)) in L; lia|].
  (* start < 0 < end with a non-zero peak: impossible for a valid tent *)
  match goal with |- context [if ?c then 1 else _] =>
    assert (Hc : c = false); [|rewrite Hc; clear Hc] end.
  { destruct (Qlt_le_dec _ 0) as [L1|_]; [|reflexivity].
    destruct (Qlt_le_dec 0 _) as [L2|_]; [|reflexivity].
    apply (inj_div_neg _ D HD) in L1. apply (inj_div_pos _ D HD) in L2. lia. }
  destruct (Qeq_bool (inject_Z (tpeak t) / inject_Z D) 0) eqn:Ep.
  - (* peak = 0: the tent is the zero tent *)
    apply Qeq_bool_iff in Ep. apply (inj_div_is0 _ D HD) in Ep.
    destruct (Hz Ep) as (Z1 & Z2 & Z3). rewrite Z1, Z2, Z3.
    destruct (Z.eqb_spec v 0); reflexivity.
  - apply Qeq_bool_false_neq in Ep.
    assert (Hp0 : tpeak t <> 0%Z).
    { intro E. apply Ep. rewrite E. apply inj_div_0. }
    destruct (Z.eqb_spec v (tpeak t)) as [->|Hne].
    + (* at the peak *)
      destruct (Qlt_le_dec _ _) as [L|_]; [apply (proj1 (inj_div_lt _ _ D HD)) in L; lia|].
      destruct (Qlt_le_dec _ _) as [L|_]; [apply (proj1 (inj_div_lt _ _ D HD)) in L; lia|].
      rewrite Qeq_bool_refl. reflexivity.
    + replace ((tmin t =? 0)%Z && (tpeak t =? 0)%Z && (tmax t =? 0)%Z) with false by lia.
      destruct (Qlt_le_dec _ _) as [L|L].
      { apply (proj1 (inj_div_lt _ _ D HD)) in L. replace ((v <=? tmin t)%Z || (tmax t <=? v)%Z) with true by lia. reflexivity. }
      apply (proj1 (inj_div_le _ _ D HD)) in L.
      destruct (Qlt_le_dec _ _) as [L2|L2].
      { apply (proj1 (inj_div_lt _ _ D HD)) in L2. replace ((v <=? tmin t)%Z || (tmax t <=? v)%Z) with true by lia. reflexivity. }
      apply (proj1 (inj_div_le _ _ D HD)) in L2.
      destruct (Qeq_bool (inject_Z v / inject_Z D) (inject_Z (tpeak t) / inject_Z D)) eqn:Ev.
      { apply Qeq_bool_iff in Ev. apply (proj1 (inj_div_eq _ _ D HD)) in Ev. contradiction. }
      destruct (Z.eq_dec v (tmin t)) as [Em|Nm].
      { (* on the start edge: (v - s)/(p - s) = 0 *)
        replace ((v <=? tmin t)%Z || (tmax t <=? v)%Z) with true by lia.
        destruct (Qlt_le_dec _ _) as [L3|L3].
        - subst v. unfold Qdiv. ring.
        - apply (proj1 (inj_div_le _ _ D HD)) in L3. lia. }
      destruct (Z.eq_dec v (tmax t)) as [Ex|Nx].
      { replace ((v <=? tmin t)%Z || (tmax t <=? v)%Z) with true by lia.
        destruct (Qlt_le_dec _ _) as [L3|L3].
        - apply (proj1 (inj_div_lt _ _ D HD)) in L3. lia.
        - subst v. unfold Qdiv. ring. }
      replace ((v <=? tmin t)%Z || (tmax t <=? v)%Z) with false by lia.
      destruct (Qlt_le_dec _ _) as [L3|L3].
      * apply (proj1 (inj_div_lt _ _ D HD)) in L3. replace (v <? tpeak t)%Z with true by lia.
        rewrite <- (ratio_div (v - tmin t) (tpeak t - tmin t) D HD) by lia.
        rewrite !inj_sub. unfold Qdiv. field.
        repeat split; intro E;
          first [ apply inj_eq0 in E; lia
                | assert (E' : inject_Z (tpeak t) == inject_Z (tmin t)) by lra; apply inj_inj in E'; lia
                | assert (E' : inject_Z (tpeak t) == inject_Z (tmax t)) by lra; apply inj_inj in E'; lia ].
      * apply (proj1 (inj_div_le _ _ D HD)) in L3. replace (v <? tpeak t)%Z with false by lia.
        rewrite <- (ratio_div (v - tmax t) (tpeak t - tmax t) D HD) by lia.
        rewrite !inj_sub. unfold Qdiv. field.
        repeat split; intro E;
          first [ apply inj_eq0 in E; lia
                | assert (E' : inject_Z (tpeak t) == inject_Z (tmin t)) by lra; apply inj_inj in E'; lia
                | assert (E' : inject_Z (tpeak t) == inject_Z (tmax t)) by lra; apply inj_inj in E'; lia ].
Qed.

Lemma tuple_scalar_tents D ts : (0 < D)%Z -> forall l,
  Forall valid ts -> Forall zok ts ->
  tuple_scalar (map (tentQ D) ts) (locQ D l) == scalar_tents ts l.
Proof.
  intro HD. induction ts as [|t ts IH]; intros [|v l] Hv Hz; cbn [map locQ tuple_scalar scalar_tents]; try reflexivity.
  inversion Hv; inversion Hz; subst.
  fold (locQ D l). rewrite IH by assumption. rewrite axis_scalar_tent by assumption. reflexivity.
Qed.

(* OpenType's scalar of a stored model region = the model's scalar_at *)
Theorem tuple_scalar_region D l0 r l : (0 < D)%Z -> wf_region l0 r -> zok_region r ->
  tuple_scalar (map (tentQ D) (tents r)) (locQ D l) == scalar_at r l.
Proof.
  intros HD [Hw _] Hz. unfold scalar_at. apply tuple_scalar_tents; [exact HD| |exact Hz].
  clear Hz. induction Hw as [|v t l' ts [_ Hv] _ IH]; constructor; assumption.
Qed.
