(* C03 — the OpenType reading of the stored tuples (instantiate) is, point by point and
   coordinate by coordinate, the base value plus the C07 interpolation of the deltas
   each tuple stands for. *)
From Coq Require Import List ZArith QArith Qabs Qround Bool Lia Lqa Sorting.Permutation.
From FV.C07 Require Import Model Tents Trim Influence Deltas Main Props.
From FV.C03 Require Import Model ProofsTents ProofsBound.
Import ListNotations.
Open Scope Q_scope.

(* ---- list plumbing ------------------------------------------------------------------------- *)
Lemma map2_length {A B C} (f : A -> B -> C) a : forall b, length b = length a -> length (map2 f a b) = length a.
Proof. induction a as [|x a IH]; intros [|y b] H; cbn [map2 length] in *; try discriminate; [reflexivity|]. rewrite IH; lia. Qed.

Lemma map2_nth {A B C} (f : A -> B -> C) da db dc a : forall b i,
  length b = length a -> (i < length a)%nat -> nth i (map2 f a b) dc = f (nth i a da) (nth i b db).
Proof.
  induction a as [|x a IH]; intros [|y b] i H Hi; cbn [map2 length nth] in *; try discriminate; try lia.
  destruct i as [|i]; [reflexivity|]. apply IH; lia.
Qed.

Lemma concat_split_contours {A} ends : forall start (l : list A), concat (split_contours start ends l) = l.
Proof.
  induction ends as [|e ends IH]; intros start l; cbn [split_contours].
  - induction l as [|x l IHl]; cbn [map concat]; [reflexivity|]. cbn [app]. rewrite IHl. reflexivity.
  - cbn [concat]. rewrite IH. apply firstn_skipn.
Qed.

Lemma iup_contour_length l : length (iup_contour l) = length l.
Proof. unfold iup_contour. rewrite map_length, seq_length. reflexivity. Qed.

Lemma length_concat_map {A B} (f : list A -> list B) (ls : list (list A)) :
  (forall l, length (f l) = length l) -> length (concat (map f ls)) = length (concat ls).
Proof.
  intro H. induction ls as [|l ls IH]; cbn [map concat]; [reflexivity|].
  rewrite !app_length, H, IH. reflexivity.
Qed.

Lemma iup_glyph_length coords ends ds : length ds = length coords -> length (iup_glyph coords ends ds) = length coords.
Proof.
  intro H. unfold iup_glyph. rewrite (length_concat_map _ _ iup_contour_length).
  rewrite concat_split_contours, combine_length. lia.
Qed.

Lemma full_deltas_length kd coords ends t :
  length (tp_deltas t) = length coords -> length (full_deltas kd coords ends t) = length coords.
Proof.
  intro H. destruct kd; cbn [full_deltas]; [apply iup_glyph_length; exact H|]. rewrite map_length. exact H.
Qed.

(* ---- instantiate, coordinate by coordinate ------------------------------------------------------ *)
Fixpoint contrib_sum (c : bool) (kd : kind) (coords : list pt) (ends : list nat) (ts : list tuple)
         (l : list Q) (i : nat) : Q :=
  match ts with
  | [] => 0
  | t :: ts' => tuple_scalar (tp_tents t) l * coord c (nth i (full_deltas kd coords ends t) pzero)
                + contrib_sum c kd coords ends ts' l i
  end.

Lemma coord_padd_pscale c a s d : coord c (padd a (pscale s d)) = coord c a + s * coord c d.
Proof. destruct c; reflexivity. Qed.

Lemma instantiate_length kd coords ends l : forall ts acc,
  length acc = length coords -> Forall (fun t => length (tp_deltas t) = length coords) ts ->
  length (instantiate kd coords ends acc ts l) = length coords.
Proof.
  induction ts as [|t ts IH]; intros acc Ha Ht; cbn [instantiate]; [exact Ha|].
  inversion Ht as [|? ? H1 H2]; subst. apply IH; [|exact H2].
  rewrite map2_length; [exact Ha|]. rewrite full_deltas_length by exact H1. lia.
Qed.

Theorem instantiate_coord c kd coords ends l i : forall ts acc,
  length acc = length coords -> (i < length coords)%nat ->
  Forall (fun t => length (tp_deltas t) = length coords) ts ->
  coord c (nth i (instantiate kd coords ends acc ts l) pzero)
  == coord c (nth i acc pzero) + contrib_sum c kd coords ends ts l i.
Proof.
  induction ts as [|t ts IH]; intros acc Ha Hi Ht; cbn [instantiate contrib_sum]; [ring|].
  inversion Ht as [|? ? H1 H2]; subst.
  assert (Hfd : length (full_deltas kd coords ends t) = length acc) by (rewrite full_deltas_length by exact H1; lia).
  rewrite IH; [|rewrite map2_length; [exact Ha|exact Hfd]|exact Hi|exact H2].
  rewrite (map2_nth _ pzero pzero pzero) by (try exact Hfd; lia).
  rewrite coord_padd_pscale. ring.
Qed.

(* ---- the stored tuples as a keyed delta list of the C07 interpolation --------------------------- *)
Definition effective (c : bool) (i : nat) (kd : kind) (coords : list pt) (ends : list nat) (D : Z)
           (infl : list region) (kts : list (nat * list (option pt))) : list (nat * Q) :=
  map (fun kt => (fst kt, coord c (nth i (full_deltas kd coords ends (font_tuple D infl kt)) pzero))) kts.

Lemma region_at_nth infl k r : nth_error infl k = Some r -> region_at infl k = r.
Proof. intro H. unfold region_at. apply nth_error_nth. exact H. Qed.

Lemma nth_error_Forall2 {A B} (R : A -> B -> Prop) la lb : Forall2 R la lb ->
  forall k b, nth_error lb k = Some b -> exists a, nth_error la k = Some a /\ R a b.
Proof.
  induction 1 as [|a b la lb H _ IH]; intros [|k] b' Hb; cbn in Hb; try discriminate.
  - injection Hb as <-. exists a. split; [reflexivity|exact H].
  - apply IH. exact Hb.
Qed.

Theorem contrib_is_interpolate c kd coords ends D locs infl l i : (0 < D)%Z ->
  Forall2 wf_region locs infl -> Forall zok_region infl ->
  forall kts, Forall (fun kt => (fst kt < length infl)%nat) kts ->
  contrib_sum c kd coords ends (map (font_tuple D infl) kts) (locQ D l) i
  == interpolate infl (effective c i kd coords ends D infl kts) l.
Proof.
  intros HD Hwf Hz. induction kts as [|[k ds] kts IH]; intro Hk; cbn [map contrib_sum effective interpolate]; [reflexivity|].
  inversion Hk as [|? ? Hk1 Hk2]; subst. cbn [fst] in Hk1.
  fold (effective c i kd coords ends D infl kts). rewrite IH by exact Hk2.
  cbn [fst].
  destruct (nth_error infl k) as [r|] eqn:Hr; [|apply nth_error_None in Hr; lia].
  unfold font_tuple at 1. cbn [tp_tents fst].
  rewrite (region_at_nth _ _ _ Hr).
  destruct (nth_error_Forall2 _ _ _ Hwf k r Hr) as (l0 & _ & Hw).
  assert (Hzr : zok_region r) by (rewrite Forall_forall in Hz; apply Hz; eapply nth_error_In; exact Hr).
  rewrite (tuple_scalar_region D l0 r l HD Hw Hzr). reflexivity.
Qed.

(* ---- the default region is on everywhere, every other region is off at the default ------------------ *)
Lemma zero_tents_scalar ts : Forall is_zero_tent ts -> forall l, scalar_tents ts l == 1.
Proof.
  induction 1 as [|t ts (H1 & H2 & H3) _ IH]; intros [|v l]; cbn [scalar_tents]; try reflexivity.
  rewrite IH. unfold tent_scalar, tent_valid. rewrite H1, H2, H3. cbn.
  destruct (Z.eqb_spec v 0); ring.
Qed.

Lemma default_region_on o r : wf_region o r -> zok_region r -> is_origin o -> forall l, scalar_at r l == 1.
Proof.
  intros [Hw _] Hz Ho l. unfold scalar_at. apply zero_tents_scalar.
  unfold zok_region in Hz. revert Hz Ho. induction Hw as [|v t o' ts [Hp _] _ IH]; intros Hz Ho; constructor.
  - inversion Hz; inversion Ho; subst. match goal with H : zok t |- _ => apply H end. congruence.
  - inversion Hz; inversion Ho; subst. apply IH; assumption.
Qed.

Lemma nondefault_region_off l r o : wf_region l r -> region_is_default r = false ->
  is_origin o -> length o = length l -> scalar_at r o == 0.
Proof.
  intros [Hw Ha] Hd Ho Hlen. unfold scalar_at. apply dead_scalar.
  unfold region_is_default in Hd. rewrite Ha in Hd. clear Ha.
  revert o Ho Hlen Hd. induction Hw as [|v t l' ts [Hp Hv] _ IH]; intros o Ho Hlen Hd; [discriminate|].
  destruct o as [|z o]; [discriminate|]. inversion Ho as [|? ? Hz Ho']; subst z.
  cbn [map forallb] in Hd. destruct (nz v) eqn:Hnz; cbn [negb andb] in Hd.
  - apply dead_here. unfold kills. unfold nz in Hnz.
    destruct Hv as [[H1 H2] H3]. split; [split; [split|]; assumption|].
    assert (v <> 0%Z) by (destruct (Z.eqb_spec v 0); [discriminate|assumption]).
    repeat split; try lia.
  - apply dead_later. apply IH; [exact Ho'|cbn [length] in Hlen; lia|exact Hd].
Qed.
