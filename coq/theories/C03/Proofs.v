(* C03 — assembly: the choice of the glyph's variation model, the instantiated outline at
   every master and at the default, composite glyphs, the certified per-glyph checker. *)
From Coq Require Import List ZArith QArith Qabs Qround Qminmax Bool Lia Lqa Sorting.Permutation.
From FV.C07 Require Import Model Tents Trim Influence Deltas Main Props.
From FV.C03 Require Import Model ProofsTents ProofsBound ProofsEval.
Import ListNotations.
Open Scope Q_scope.

(* ---- which model a glyph gets ------------------------------------------------------------------ *)
Lemma loc_eqb_eq a : forall b, loc_eqb a b = true <-> a = b.
Proof.
  induction a as [|x a IH]; intros [|y b]; cbn [loc_eqb]; split; intro H; try reflexivity; try discriminate.
  - apply andb_true_iff in H as [H1 H2]. apply Z.eqb_eq in H1. apply IH in H2. congruence.
  - inversion H; subst. apply andb_true_iff. split; [apply Z.eqb_refl|apply IH; reflexivity].
Qed.

Lemma mem_loc_In l ls : mem_loc l ls = true <-> In l ls.
Proof.
  unfold mem_loc. rewrite existsb_exists. split.
  - intros (x & Hx & E). apply loc_eqb_eq in E. subst. exact Hx.
  - intro H. exists l. split; [exact H|apply loc_eqb_eq; reflexivity].
Qed.

Lemma same_locs_perm a b : NoDup a -> NoDup b -> same_locs a b = true -> Permutation a b.
Proof.
  intros Ha Hb H. unfold same_locs in H. apply andb_true_iff in H as [Hl Hi].
  apply Nat.eqb_eq in Hl. rewrite forallb_forall in Hi.
  apply NoDup_Permutation_bis; [exact Ha|lia|].
  intros x Hx. apply mem_loc_In. apply Hi. exact Hx.
Qed.

Theorem glyph_model_is_own_model n global gl : wf_input n global -> wf_input n gl ->
  glyph_model (model_new global) gl = model_new gl.
Proof.
  intros Wg [Hnd Hlen]. unfold glyph_model.
  destruct (same_locs (m_locs (model_new global)) gl) eqn:E; [|reflexivity].
  pose proof (model_locations_are_the_masters n global Wg) as Hp.
  destruct Wg as [Hndg Hleng].
  assert (Hp2 : Permutation (m_locs (model_new global)) gl).
  { apply same_locs_perm; [|exact Hnd|exact E]. eapply Permutation_NoDup; [symmetry; exact Hp|exact Hndg]. }
  symmetry. apply (result_independent_of_supply_order n); [exact Hleng|].
  eapply Permutation_trans; [symmetry; exact Hp|exact Hp2].
Qed.

(* ---- point sequences are integral; the default's is the rounded default master ------------------------ *)
Definition integral_pt (p : pt) : Prop := exists x y : Z, p = zpt x y.

Lemma point_seq_integral kd bv src : Forall integral_pt (point_seq kd bv src).
Proof.
  unfold point_seq. apply Forall_app. split.
  - destruct kd; apply Forall_forall; intros p Hp; apply in_map_iff in Hp as (q & <- & _); eexists; eexists; reflexivity.
  - unfold phantoms. repeat constructor; eexists; eexists; reflexivity.
Qed.

Lemma point_seq_outline bv src i p : nth_error (i_outline (snd src)) i = Some p ->
  nth_error (point_seq Simple bv src) i = Some (zpt (to_i16 (fst p)) (to_i16 (snd p))).
Proof.
  intro H. unfold point_seq. rewrite nth_error_app1.
  - apply (map_nth_error round_outline_pt). exact H.
  - rewrite map_length. apply nth_error_Some. congruence.
Qed.

Lemma point_seq_offsets bv src i p : nth_error (i_comps (snd src)) i = Some p ->
  nth_error (point_seq Composite bv src) i = Some (zpt (ot_round (fst p)) (ot_round (snd p))).
Proof.
  intro H. unfold point_seq. rewrite nth_error_app1.
  - apply (map_nth_error round_offset_pt). exact H.
  - rewrite map_length. apply nth_error_Some. congruence.
Qed.

(* ---- the instantiated glyph at a master ------------------------------------------------------------------ *)
Lemma Forall2_nth_l {A B} (R : A -> B -> Prop) la lb : Forall2 R la lb ->
  forall k a, nth_error la k = Some a -> exists b, nth_error lb k = Some b /\ R a b.
Proof.
  induction 1 as [|a b la lb H _ IH]; intros [|k] a' Ha; cbn in Ha; try discriminate.
  - injection Ha as <-. exists b. split; [reflexivity|exact H].
  - apply IH. exact Ha.
Qed.

Lemma default_scalar_one n gl o : wf_input n gl -> In o gl -> is_origin o ->
  forall l, scalar_k (m_infl (model_new gl)) 0 l == 1.
Proof.
  intros W Hin Ho l. destruct (default_exact n gl o W Hin Ho) as [H0 _].
  destruct (model_invariants n gl W) as (_ & A & _).
  destruct (Forall2_nth_l _ _ _ A 0%nat o H0) as (r0 & Hr & Hw).
  unfold scalar_k. rewrite Hr. apply (default_region_on o); [exact Hw| |exact Ho].
  pose proof (model_regions_zok n gl W) as Hz. rewrite Forall_forall in Hz. apply Hz.
  eapply nth_error_In. exact Hr.
Qed.

Theorem outline_at_master_gen n gl o D kd eps : wf_input n gl -> In o gl -> is_origin o -> (0 < D)%Z -> 0 <= eps ->
  let m := model_new gl in
  forall (sq : list (option (list pt))) (base : list pt) (ends : list nat) (kts : list (nat * list (option pt))),
    length sq = length (m_locs m) ->
    Forall (fun kt => (fst kt < length (m_infl m))%nat /\ length (snd kt) = length base) kts ->
  forall c i, (i < length base)%nat ->
    stored_rel (tol_of eps) (point_deltas m sq c i)
               ((0%nat, coord c (nth i base pzero)) :: effective c i kd base ends D (m_infl m) kts) ->
  forall k lk s, nth_error (m_locs m) k = Some lk -> nth_error sq k = Some (Some s) ->
    Qabs (coord c (nth i (instantiate kd base ends base (map (font_tuple D (m_infl m)) kts) (locQ D lk)) pzero)
          - coord c (nth i s pzero))
    <= (1 # 2) + eps * active_sum (m_infl m) (point_deltas m sq c i) lk.
Proof.
  intros W Hin Ho HD Heps m sq base ends kts Hlen Hk c i Hi Hrel k lk s Hlk Hs. subst m.
  set (infl := m_infl (model_new gl)) in *.
  destruct (model_invariants n gl W) as (_ & A & _). fold infl in A.
  pose proof (model_regions_zok n gl W) as Hz. fold infl in Hz.
  assert (Hlens : Forall (fun t => length (tp_deltas t) = length base) (map (font_tuple D infl) kts)).
  { apply Forall_forall. intros t Ht. apply in_map_iff in Ht as (kt & <- & Hkt).
    rewrite Forall_forall in Hk. destruct (Hk kt Hkt) as [_ Hl]. exact Hl. }
  assert (Hkeys : Forall (fun kt : nat * list (option pt) => (fst kt < length infl)%nat) kts).
  { eapply Forall_impl; [|exact Hk]. intros kt [H1 _]. exact H1. }
  assert (E : coord c (nth i (instantiate kd base ends base (map (font_tuple D infl) kts) (locQ D lk)) pzero)
              == interpolate infl ((0%nat, coord c (nth i base pzero)) :: effective c i kd base ends D infl kts) lk).
  { rewrite (instantiate_coord c kd base ends (locQ D lk) i _ base eq_refl Hi Hlens).
    rewrite (contrib_is_interpolate c kd base ends D _ infl lk i HD A Hz kts Hkeys).
    rewrite interp_cons. unfold infl. rewrite (default_scalar_one n gl o W Hin Ho lk). ring. }
  rewrite E.
  unfold point_deltas in *.
  assert (Hlen' : length (coord_vals c i sq) = length (m_locs (model_new gl)))
    by (unfold coord_vals; rewrite map_length; exact Hlen).
  assert (Hx : nth_error (coord_vals c i sq) k = Some (Some (coord c (nth i s pzero))))
    by (unfold coord_vals; rewrite (map_nth_error _ _ _ Hs); reflexivity).
  exact (bound_coord n gl W (coord_vals c i sq) Hlen' eps _ Heps Hrel k lk _ Hlk Hx).
Qed.

(* ---- the instantiated glyph at the default ------------------------------------------------------------------ *)
Lemma interpolate_all_off infl l : forall E, Forall (fun kd : nat * Q => scalar_k infl (fst kd) l == 0) E ->
  interpolate infl E l == 0.
Proof.
  induction E as [|[k d] E IH]; intro H; [reflexivity|]. inversion H as [|? ? H1 H2]; subst.
  rewrite interp_cons, IH by exact H2. cbn [fst] in H1. rewrite H1. ring.
Qed.

Theorem outline_at_default_gen n gl o D kd : wf_input n gl -> In o gl -> is_origin o -> (0 < D)%Z ->
  let m := model_new gl in
  forall (base : list pt) (ends : list nat) (kts : list (nat * list (option pt))),
    Forall (fun kt => (fst kt < length (m_infl m))%nat /\ length (snd kt) = length base
                      /\ region_is_default (region_at (m_infl m) (fst kt)) = false) kts ->
  forall c i, (i < length base)%nat ->
    coord c (nth i (instantiate kd base ends base (map (font_tuple D (m_infl m)) kts) (locQ D o)) pzero)
    == coord c (nth i base pzero).
Proof.
  intros W Hin Ho HD m base ends kts Hk c i Hi. subst m.
  set (infl := m_infl (model_new gl)) in *.
  destruct (model_invariants n gl W) as (Hperm & A & _). fold infl in A.
  pose proof (model_regions_zok n gl W) as Hz. fold infl in Hz.
  assert (Hlens : Forall (fun t => length (tp_deltas t) = length base) (map (font_tuple D infl) kts)).
  { apply Forall_forall. intros t Ht. apply in_map_iff in Ht as (kt & <- & Hkt).
    rewrite Forall_forall in Hk. destruct (Hk kt Hkt) as (_ & Hl & _). exact Hl. }
  assert (Hkeys : Forall (fun kt : nat * list (option pt) => (fst kt < length infl)%nat) kts).
  { eapply Forall_impl; [|exact Hk]. intros kt [H1 _]. exact H1. }
  rewrite (instantiate_coord c kd base ends (locQ D o) i _ base eq_refl Hi Hlens).
  rewrite (contrib_is_interpolate c kd base ends D _ infl o i HD A Hz kts Hkeys).
  rewrite interpolate_all_off; [ring|].
  unfold effective. apply Forall_forall. intros e He. apply in_map_iff in He as (kt & <- & Hkt). cbn [fst].
  rewrite Forall_forall in Hk. destruct (Hk kt Hkt) as (Hlt & _ & Hnd).
  unfold scalar_k. destruct (nth_error infl (fst kt)) as [r|] eqn:Hr; [|reflexivity].
  rewrite (region_at_nth _ _ _ Hr) in Hnd.
  destruct (nth_error_Forall2 _ _ _ A (fst kt) r Hr) as (l0 & Hl0 & Hw).
  apply (nondefault_region_off l0); [exact Hw|exact Hnd|exact Ho|].
  destruct W as [_ Hlen]. rewrite Forall_forall in Hlen.
  rewrite (Hlen o Hin). symmetry. apply Hlen.
  eapply Permutation_in; [exact Hperm|]. eapply nth_error_In. exact Hl0.
Qed.

(* what to_deltas keeps never includes the default region *)
Lemma to_deltas_kept infl frag kd : In kd (to_deltas infl frag) ->
  In kd frag /\ region_is_default (region_at infl (fst kd)) = false /\ existsb snd (snd kd) = true.
Proof.
  unfold to_deltas. rewrite filter_In. intros [H1 H2]. unfold keep_tuple in H2.
  apply andb_true_iff in H2 as [H2 H3]. apply negb_true_iff in H2. repeat split; assumption.
Qed.

(* ---- composite glyphs: nothing is inferred, so the stored deltas are the model's ------------------------------- *)
Definition pt_eq (a b : pt) : Prop := fst a == fst b /\ snd a == snd b.

Lemma ot_round_int z : ot_round (inject_Z z) = z.
Proof.
  unfold ot_round. set (x := inject_Z z + (1 # 2)).
  pose proof (Qfloor_le x) as H1. pose proof (Qlt_floor x) as H2.
  set (f := Qfloor x) in *. rewrite inject_Z_plus in H2. change (inject_Z 1) with 1 in H2. unfold x in H1, H2.
  assert (A : inject_Z f < inject_Z (z + 1)) by (rewrite inject_Z_plus; change (inject_Z 1) with 1; lra).
  assert (B : inject_Z z < inject_Z (f + 1)) by (rewrite inject_Z_plus; change (inject_Z 1) with 1; lra).
  rewrite <- Zlt_Qlt in A, B. lia.
Qed.

Lemma round_offset_integral p : integral_pt p -> round_offset_pt p = p.
Proof. intros (x & y & ->). unfold round_offset_pt, zpt. cbn [fst snd]. rewrite !ot_round_int. reflexivity. Qed.

Lemma pt_is_zero_eq p : pt_is_zero p = true -> pt_eq pzero p.
Proof.
  unfold pt_is_zero. intro H. apply andb_true_iff in H as [H1 H2].
  apply Qeq_bool_iff in H1, H2. split; cbn [pzero fst snd]; symmetry; assumption.
Qed.

Lemma pt_eq_refl p : pt_eq p p.
Proof. split; reflexivity. Qed.

(* both packings of a composite tuple read back as the deltas that were computed *)
Theorem composite_pack_exact coords ends tents ds : Forall integral_pt ds ->
  Forall2 pt_eq (full_deltas Composite coords ends (mkTuple tents (pack_sparse (composite_flags ds)))) ds
  /\ Forall2 pt_eq (full_deltas Composite coords ends (mkTuple tents (pack_dense (composite_flags ds)))) ds.
Proof.
  intro H. cbn [full_deltas tp_deltas]. unfold pack_sparse, pack_dense, composite_flags. rewrite !map_map.
  split; induction H as [|d ds Hd _ IH]; cbn [map]; constructor; try exact IH; cbn [fst snd];
    rewrite (round_offset_integral d Hd).
  - destruct (pt_is_zero d) eqn:E; cbn [negb opt_or]; [apply pt_is_zero_eq; exact E|apply pt_eq_refl].
  - cbn [opt_or]. apply pt_eq_refl.
Qed.

(* a composite tuple is dropped only when every delta is zero *)
Theorem composite_dropped_zero ds : Forall integral_pt ds ->
  existsb snd (composite_flags ds) = false -> Forall (pt_eq pzero) ds.
Proof.
  intros H E. induction H as [|d ds Hd _ IH]; [constructor|].
  unfold composite_flags in E. cbn [map existsb snd] in E. apply orb_false_iff in E as [E1 E2].
  rewrite (round_offset_integral d Hd) in E1. apply negb_false_iff in E1.
  constructor; [apply pt_is_zero_eq; exact E1|apply IH; exact E2].
Qed.

(* ---- the inferred-delta reading: referenced points keep their delta; an inferred delta never
        leaves the range spanned by the two reference deltas (or is zero) ------------------------------- *)
Lemma nth_map_seq {A} (f : nat -> A) n i d : (i < n)%nat -> nth i (map f (seq 0 n)) d = f i.
Proof.
  intro H. rewrite (nth_indep _ d (f 0%nat)) by (rewrite map_length, seq_length; exact H).
  rewrite (map_nth f (seq 0 n) 0%nat i). rewrite seq_nth by exact H. reflexivity.
Qed.

Theorem iup_contour_explicit l i c d : nth_error l i = Some (c, Some d) -> nth i (iup_contour l) pzero = d.
Proof.
  intro H. assert (Hi : (i < length l)%nat) by (apply nth_error_Some; congruence).
  unfold iup_contour. rewrite nth_map_seq by exact Hi.
  rewrite (nth_error_nth l i (pzero, None) H). reflexivity.
Qed.

Theorem infer1_in_range c1 d1 c2 d2 c :
  (Qmin d1 d2 <= infer1 c1 d1 c2 d2 c <= Qmax d1 d2) \/ infer1 c1 d1 c2 d2 c == 0.
Proof.
  unfold infer1. destruct (Qeq_bool c1 c2) eqn:Ec.
  - destruct (Qeq_bool d1 d2) eqn:Ed; [left|right; reflexivity].
    split; [apply Q.le_min_l|apply Q.le_max_l].
  - left. apply Qeq_bool_false_neq in Ec.
    assert (R : forall lc ld hc hd, lc < hc ->
      Qmin ld hd <= (if Qlt_le_dec lc c then if Qlt_le_dec c hc then ld + (c - lc) * ((hd - ld) / (hc - lc)) else hd else ld)
      <= Qmax ld hd).
    { intros lc ld hc hd Hlt. destruct (Qlt_le_dec lc c) as [L1|L1]; [destruct (Qlt_le_dec c hc) as [L2|L2]|].
      - set (t := (c - lc) / (hc - lc)).
        assert (Ht : 0 < t < 1).
        { unfold t. split.
          - apply Qlt_shift_div_l; lra.
          - apply Qlt_shift_div_r; lra. }
        setoid_replace (ld + (c - lc) * ((hd - ld) / (hc - lc))) with (ld + t * (hd - ld))
          by (unfold t; field; lra).
        destruct (Qlt_le_dec ld hd) as [O|O].
        + rewrite (Q.min_l ld hd) by lra. rewrite (Q.max_r ld hd) by lra. split; nra.
        + rewrite (Q.min_r ld hd) by lra. rewrite (Q.max_l ld hd) by lra. split; nra.
      - split; [apply Q.le_min_r|apply Q.le_max_r].
      - split; [apply Q.le_min_l|apply Q.le_max_l]. }
    destruct (Qlt_le_dec c1 c2) as [L|L].
    + apply R. exact L.
    + rewrite Q.min_comm, Q.max_comm. apply R.
      destruct (Qle_lt_or_eq _ _ L) as [L'|L']; [exact L'|]. exfalso. apply Ec. symmetry. exact L'.
Qed.

(* ---- the boolean form of stored_rel and the certified per-glyph checker --------------------------------- *)
Fixpoint stored_rel_b (tol : nat -> Q) (a b : list (nat * Q)) : bool :=
  match a with
  | [] => match b with [] => true | _ => false end
  | (k, p) :: a' =>
      match b with
      | (k', q) :: b' =>
          if Nat.eqb k k' then Qle_bool (Qabs (q - p)) (tol k) && stored_rel_b tol a' b'
          else Qle_bool (Qabs p) (tol k) && stored_rel_b tol a' b
      | [] => Qle_bool (Qabs p) (tol k) && stored_rel_b tol a' []
      end
  end.

Lemma stored_rel_b_sound tol a : forall b, stored_rel_b tol a b = true -> stored_rel tol a b.
Proof.
  induction a as [|[k p] a IH]; intros b H; cbn [stored_rel_b] in H.
  - destruct b; [constructor|discriminate].
  - destruct b as [|[k' q] b].
    + apply andb_true_iff in H as [H1 H2]. apply Qle_bool_iff in H1. apply sr_drop; [exact H1|apply IH; exact H2].
    + destruct (Nat.eqb_spec k k') as [->|Hne]; apply andb_true_iff in H as [H1 H2]; apply Qle_bool_iff in H1.
      * apply sr_keep; [exact H1|apply IH; exact H2].
      * apply sr_drop; [exact H1|apply IH; exact H2].
Qed.

(* everything outline_at_master_gen asks of one glyph, as a computation on the decoded font *)
Definition glyph_ok (kd : kind) (D : Z) (eps : Q) (gl : list loc) (sq : list (option (list pt)))
           (base : list pt) (ends : list nat) (kts : list (nat * list (option pt))) : bool :=
  let m := model_new gl in
  Nat.eqb (length sq) (length (m_locs m))
  && forallb (fun kt => Nat.ltb (fst kt) (length (m_infl m)) && Nat.eqb (length (snd kt)) (length base)) kts
  && forallb (fun i => forallb (fun c =>
        stored_rel_b (tol_of eps) (point_deltas m sq c i)
          ((0%nat, coord c (nth i base pzero)) :: effective c i kd base ends D (m_infl m) kts)) [false; true])
       (seq 0 (length base)).

Theorem glyph_ok_sound n gl o D kd eps : wf_input n gl -> In o gl -> is_origin o -> (0 < D)%Z -> 0 <= eps ->
  let m := model_new gl in
  forall sq base ends kts, glyph_ok kd D eps gl sq base ends kts = true ->
  forall k lk s, nth_error (m_locs m) k = Some lk -> nth_error sq k = Some (Some s) ->
  forall c i, (i < length base)%nat ->
    Qabs (coord c (nth i (instantiate kd base ends base (map (font_tuple D (m_infl m)) kts) (locQ D lk)) pzero)
          - coord c (nth i s pzero))
    <= (1 # 2) + eps * active_sum (m_infl m) (point_deltas m sq c i) lk.
Proof.
  intros W Hin Ho HD Heps m sq base ends kts H k lk s Hlk Hs c i Hi. subst m.
  unfold glyph_ok in H. apply andb_true_iff in H as [H H3]. apply andb_true_iff in H as [H1 H2].
  apply Nat.eqb_eq in H1. rewrite forallb_forall in H2, H3.
  assert (Hk : Forall (fun kt : nat * list (option pt) =>
                 (fst kt < length (m_infl (model_new gl)))%nat /\ length (snd kt) = length base) kts).
  { apply Forall_forall. intros kt Hkt. specialize (H2 kt Hkt). apply andb_true_iff in H2 as [A B].
    apply Nat.ltb_lt in A. apply Nat.eqb_eq in B. split; assumption. }
  assert (Hrel : stored_rel (tol_of eps) (point_deltas (model_new gl) sq c i)
                   ((0%nat, coord c (nth i base pzero)) :: effective c i kd base ends D (m_infl (model_new gl)) kts)).
  { assert (Hin' : In i (seq 0 (length base))) by (apply in_seq; lia).
    specialize (H3 i Hin'). rewrite forallb_forall in H3.
    apply stored_rel_b_sound. apply H3. destruct c; cbn; auto. }
  exact (outline_at_master_gen n gl o D kd eps W Hin Ho HD Heps sq base ends kts H1 Hk c i Hi Hrel k lk s Hlk Hs).
Qed.

(* ---- the fragment (one delta vector per master) is the per-point, per-coordinate C07 computation ------- *)
Theorem model_deltas_pointwise m sq n k ds i : In (k, ds) (model_deltas m sq n) -> (i < n)%nat ->
  nth i ds pzero = (delta_at (point_deltas m sq false i) k, delta_at (point_deltas m sq true i) k).
Proof.
  unfold model_deltas. intros H Hi. apply in_map_iff in H as (k' & E & _). injection E as -> <-.
  unfold all_point_deltas. rewrite map_map.
  rewrite nth_map_seq by exact Hi. reflexivity.
Qed.

Lemma present_from_In {A} (sq : list (option A)) : forall o k, In k (present_from o sq) <->
  exists s, nth_error sq (k - o) = Some (Some s) /\ (o <= k)%nat.
Proof.
  induction sq as [|[x|] sq IH]; intros o k; cbn [present_from].
  - split; [intros []|intros (s & H & _)]. destruct (k - o)%nat; discriminate.
  - cbn [In]. rewrite IH. split.
    + intros [<-|(s & H & Hle)].
      * exists x. rewrite Nat.sub_diag. split; [reflexivity|lia].
      * exists s. replace (k - o)%nat with (S (k - S o)) by lia. split; [exact H|lia].
    + intros (s & H & Hle). destruct (Nat.eq_dec o k) as [->|Hne]; [left; reflexivity|right].
      exists s. replace (k - o)%nat with (S (k - S o)) in H by lia. split; [exact H|lia].
  - rewrite IH. split.
    + intros (s & H & Hle). exists s. replace (k - o)%nat with (S (k - S o)) by lia. split; [exact H|lia].
    + intros (s & H & Hle). destruct (Nat.eq_dec o k) as [->|Hne].
      * rewrite Nat.sub_diag in H. discriminate.
      * exists s. replace (k - o)%nat with (S (k - S o)) in H by lia. split; [exact H|lia].
Qed.

(* the fragment has one entry for exactly the model locations that have a point sequence *)
Theorem model_deltas_keys m sq n : map fst (model_deltas m sq n) = present_from 0 sq.
Proof. unfold model_deltas. rewrite map_map. cbn [fst]. apply map_id. Qed.
