(* C03 — model of the gvar pipeline of fontbe (glyphs.rs GlyphWork::exec,
   point_seqs_for_simple_glyph / point_seqs_for_composite_glyph, compute_deltas,
   process_composite_deltas; orchestration.rs GvarFragment::to_deltas;
   fontir ir.rs GlyphInstance::add_phantom_points) on top of the C07 model of
   fontdrasil's VariationModel, and of the OpenType reading of the resulting
   glyf + gvar data (tuple scalars, inferred deltas for un-referenced points,
   accumulation), written from the OpenType specification.

   Executable definitions only; proofs are in Proofs*.v.

   Numbers: coordinates, deltas, scalars are rationals (f64 in the code,
   DESIGN.md 4.1).  Locations are the C07 integer-scaled locations.

   Oracles (not modelled; their outputs are inputs of the model):
     kurbo cubics_to_quadratic_splines and write-fonts
     SimpleGlyph::interpolatable_glyphs_from_bezpaths  -> `i_outline`, the
        point list of a master's converted outline BEFORE rounding;
     write-fonts iup_delta_optimize                     -> the `required` flags
        of a simple glyph's deltas (`flags` below);
     write-fonts GlyphDeltas::new                       -> dense or sparse
        packing of a tuple (`packed`). *)
From Coq Require Import List ZArith QArith Qabs Qround Bool.
From FV.C07 Require Model.
Import ListNotations.
Module V := FV.C07.Model.
Open Scope Q_scope.

(* ---- points and rounding ---------------------------------------------------- *)
Definition pt := (Q * Q)%type.
Definition zpt (x y : Z) : pt := (inject_Z x, inject_Z y).
Definition pzero : pt := (0, 0).
(* false = x, true = y *)
Definition coord (c : bool) (p : pt) : Q := if c then snd p else fst p.

(* write-fonts OtRound: floor(x + 0.5); `as u16` / `as i16` saturate *)
Definition ot_round (q : Q) : Z := Qfloor (q + (1 # 2)).
Definition clamp (lo hi z : Z) : Z := Z.max lo (Z.min hi z).
Definition to_u16 (q : Q) : Z := clamp 0 65535 (ot_round q).
Definition to_i16 (q : Q) : Z := clamp (-32768) 32767 (ot_round q).

(* ---- ir::GlyphInstance as the backend sees it ---------------------------------- *)
Record instance := mkInst {
  i_width : Q;
  i_height : option Q;
  i_vorigin : option Q;
  i_outline : list pt;   (* contour glyph: points of the converted outline, unrounded *)
  i_comps : list pt      (* composite glyph: (dx, dy) of each component transform *)
}.
(* the two GlobalMetricsInstance fields add_phantom_points can read *)
Record gmetrics := mkGM { gm_asc : Q; gm_desc : Q }.

Definition opt_or {A} (o : option A) (d : A) : A := match o with Some x => x | None => d end.

(* GlyphInstance::add_phantom_points *)
Definition phantoms (bv : bool) (gm : gmetrics) (i : instance) : list pt :=
  let adv := to_u16 (i_width i) in
  let top := if bv then to_i16 (opt_or (i_vorigin i) (gm_asc gm)) else 0%Z in
  let bottom := if bv then (top - to_u16 (opt_or (i_height i) (gm_asc gm - gm_desc gm)%Q))%Z else 0%Z in
  [zpt 0 0; zpt adv 0; zpt 0 top; zpt 0 bottom].

Inductive kind := Simple | Composite.

(* point_seqs_for_simple_glyph (CurvePoint = OtRound to (i16, i16)) and
   point_seqs_for_composite_glyph (dx.ot_round(), dy.ot_round() as f64) *)
Definition round_outline_pt (p : pt) : pt := zpt (to_i16 (fst p)) (to_i16 (snd p)).
Definition round_offset_pt (p : pt) : pt := zpt (ot_round (fst p)) (ot_round (snd p)).

Definition point_seq (k : kind) (bv : bool) (src : gmetrics * instance) : list pt :=
  match k with
  | Simple => map round_outline_pt (i_outline (snd src))
  | Composite => map round_offset_pt (i_comps (snd src))
  end ++ phantoms bv (fst src) (snd src).

(* ---- which variation model a glyph gets (GlyphWork::exec) ------------------------ *)
Fixpoint loc_eqb (a b : V.loc) : bool :=
  match a, b with
  | [], [] => true
  | x :: a', y :: b' => (x =? y)%Z && loc_eqb a' b'
  | _, _ => false
  end.
Definition mem_loc (l : V.loc) (ls : list V.loc) : bool := existsb (loc_eqb l) ls.

(* global_model.num_locations() == sources.len() && all global locations are sources *)
Definition same_locs (global glyph_locs : list V.loc) : bool :=
  Nat.eqb (length global) (length glyph_locs) && forallb (fun l => mem_loc l glyph_locs) global.

Definition glyph_model (global : V.model) (glyph_locs : list V.loc) : V.model :=
  if same_locs (V.m_locs global) glyph_locs then global else V.model_new glyph_locs.

(* ---- deltas ------------------------------------------------------------------------ *)
Fixpoint lookup_loc {A} (l : V.loc) (xs : list (V.loc * A)) : option A :=
  match xs with
  | [] => None
  | (k, v) :: t => if loc_eqb k l then Some v else lookup_loc l t
  end.

(* point_seqs.get(loc) for every model location, in model order *)
Definition seqs_for {A} (m : V.model) (ps : list (V.loc * A)) : list (option A) :=
  map (fun l => lookup_loc l ps) (V.m_locs m).

(* coordinate c of point i at every model location *)
Definition coord_vals (c : bool) (i : nat) (sq : list (option (list pt))) : list (option Q) :=
  map (option_map (fun s => coord c (nth i s pzero))) sq.

(* VariationModel::deltas is pointwise and, on Vec2, coordinatewise (RoundTiesEven
   rounds x and y separately): one C07 delta computation per point and coordinate *)
Definition point_deltas (m : V.model) (sq : list (option (list pt))) (c : bool) (i : nat) : list (nat * Q) :=
  V.deltas m true (coord_vals c i sq).

Definition delta_at (ds : list (nat * Q)) (k : nat) : Q := opt_or (V.lookup_delta ds k) 0.

(* model indices that have a point sequence *)
Fixpoint present_from {A} (k : nat) (sq : list (option A)) : list nat :=
  match sq with
  | [] => []
  | Some _ :: t => k :: present_from (S k) t
  | None :: t => present_from (S k) t
  end.

Definition all_point_deltas (m : V.model) (sq : list (option (list pt))) (n : nat)
  : list (list (nat * Q) * list (nat * Q)) :=
  map (fun i => (point_deltas m sq false i, point_deltas m sq true i)) (seq 0 n).

(* the ModelDeltas: (model index, delta of every point) in model order *)
Definition model_deltas (m : V.model) (sq : list (option (list pt))) (n : nat) : list (nat * list pt) :=
  let pd := all_point_deltas m sq n in
  map (fun k => (k, map (fun d => (delta_at (fst d) k, delta_at (snd d) k)) pd)) (present_from 0 sq).

(* DeltaError::InconsistentNumbersOfPoints / GlyphProblem::MissingDefault *)
Definition consistent (sq : list (option (list pt))) (n : nat) : bool :=
  forallb (fun o => match o with Some s => Nat.eqb (length s) n | None => true end) sq.

Definition glyph_deltas (m : V.model) (sq : list (option (list pt))) : option (list (nat * list pt)) :=
  match sq with
  | Some s0 :: _ => if consistent sq (length s0) then Some (model_deltas m sq (length s0)) else None
  | _ => None
  end.

(* ---- GlyphDelta flags, to_deltas, packing ----------------------------------------------- *)
Definition gdelta := (pt * bool)%type.   (* delta, required *)

Definition pt_is_zero (p : pt) : bool := Qeq_bool (fst p) 0 && Qeq_bool (snd p) 0.

(* process_composite_deltas: (0,0) optional, everything else required *)
Definition composite_flags (ds : list pt) : list gdelta :=
  map (fun d => let r := round_offset_pt d in (r, negb (pt_is_zero r))) ds.

(* VariationRegion::is_default: no active axis *)
Definition region_is_default (r : V.region) : bool := forallb negb (V.active r).

Definition region_at (infl : list V.region) (k : nat) : V.region := nth k infl (V.mkRegion [] []).

(* GvarFragment::to_deltas: drop the default region and tuples without a required delta *)
Definition keep_tuple (infl : list V.region) (kd : nat * list gdelta) : bool :=
  negb (region_is_default (region_at infl (fst kd))) && existsb snd (snd kd).
Definition to_deltas (infl : list V.region) (frag : list (nat * list gdelta)) : list (nat * list gdelta) :=
  filter (keep_tuple infl) frag.

(* GlyphDeltas::new keeps every delta (dense) or only the required ones (sparse) *)
Definition pack_sparse (ds : list gdelta) : list (option pt) := map (fun g : gdelta => if snd g then Some (fst g) else None) ds.
Definition pack_dense (ds : list gdelta) : list (option pt) := map (fun g : gdelta => Some (fst g)) ds.

(* ---- OpenType reading of glyf + gvar -------------------------------------------------------- *)
(* one tuple variation: per axis (start, peak, end), per point an explicit delta or none *)
Record tuple := mkTuple { tp_tents : list (Q * Q * Q); tp_deltas : list (option pt) }.

(* OpenType: "Algorithm for interpolation of instance values", per-axis scalar *)
Definition axis_scalar (t : Q * Q * Q) (v : Q) : Q :=
  let '(s, p, e) := t in
  if Qlt_le_dec p s then 1          (* start > peak: ignored *)
  else if Qlt_le_dec e p then 1     (* peak > end: ignored *)
  else if (if Qlt_le_dec s 0 then if Qlt_le_dec 0 e then negb (Qeq_bool p 0) else false else false) then 1
  else if Qeq_bool p 0 then 1
  else if Qlt_le_dec v s then 0
  else if Qlt_le_dec e v then 0
  else if Qeq_bool v p then 1
  else if Qlt_le_dec v p then (v - s) / (p - s)
  else (e - v) / (e - p).

Fixpoint tuple_scalar (ts : list (Q * Q * Q)) (l : list Q) : Q :=
  match ts, l with
  | t :: ts', v :: l' => axis_scalar t v * tuple_scalar ts' l'
  | _, _ => 1
  end.

(* OpenType gvar: "Inferred deltas for un-referenced point numbers", one direction *)
Definition infer1 (c1 d1 c2 d2 c : Q) : Q :=
  if Qeq_bool c1 c2 then (if Qeq_bool d1 d2 then d1 else 0)
  else
    let '(lc, ld, hc, hd) := if Qlt_le_dec c1 c2 then (c1, d1, c2, d2) else (c2, d2, c1, d1) in
    if Qlt_le_dec lc c then (if Qlt_le_dec c hc then ld + (c - lc) * ((hd - ld) / (hc - lc)) else hd)
    else ld.

Definition infer_pt (r1 r2 : pt * pt) (c : pt) : pt :=
  (infer1 (fst (fst r1)) (fst (snd r1)) (fst (fst r2)) (fst (snd r2)) (fst c),
   infer1 (snd (fst r1)) (snd (snd r1)) (snd (fst r2)) (snd (snd r2)) (snd c)).

(* first referenced point of a list of (coordinate, explicit delta) *)
Fixpoint first_ref (l : list (pt * option pt)) : option (pt * pt) :=
  match l with
  | [] => None
  | (c, Some d) :: _ => Some (c, d)
  | (_, None) :: t => first_ref t
  end.

(* the contour as seen from position i: the points after i (cyclically), ending with i itself *)
Definition rot {A} (i : nat) (l : list A) : list A := skipn (S i) l ++ firstn (S i) l.

(* a closed contour: every un-referenced point gets the delta inferred from the nearest
   referenced points after and before it; a contour without referenced points does not move *)
Definition iup_contour (l : list (pt * option pt)) : list pt :=
  map (fun i =>
         match nth i l (pzero, None) with
         | (_, Some d) => d
         | (c, None) =>
             let r := rot i l in
             match first_ref r, first_ref (rev r) with
             | Some nx, Some pv => infer_pt pv nx c
             | _, _ => pzero
             end
         end) (seq 0 (length l)).

(* cut a point list at the contour end indices; the four phantom points are
   single-point contours *)
Fixpoint split_contours {A} (start : nat) (ends : list nat) (l : list A) : list (list A) :=
  match ends with
  | [] => map (fun x => [x]) l
  | e :: ends' =>
      let n := (S e - start)%nat in
      firstn n l :: split_contours (S e) ends' (skipn n l)
  end.

Definition iup_glyph (coords : list pt) (ends : list nat) (ds : list (option pt)) : list pt :=
  concat (map iup_contour (split_contours 0 ends (combine coords ds))).

(* the delta of every point a tuple stands for: explicit, inferred (simple glyphs), or
   zero (composite glyphs: no inference) *)
Definition full_deltas (k : kind) (coords : list pt) (ends : list nat) (t : tuple) : list pt :=
  match k with
  | Simple => iup_glyph coords ends (tp_deltas t)
  | Composite => map (fun o => opt_or o pzero) (tp_deltas t)
  end.

Definition padd (a b : pt) : pt := (fst a + fst b, snd a + snd b).
Definition pscale (s : Q) (a : pt) : pt := (s * fst a, s * snd a).

(* instantiated point list (outline points / component offsets, then phantom points) *)
Fixpoint instantiate (k : kind) (coords : list pt) (ends : list nat) (acc : list pt)
         (ts : list tuple) (l : list Q) : list pt :=
  match ts with
  | [] => acc
  | t :: ts' =>
      let s := tuple_scalar (tp_tents t) l in
      instantiate k coords ends
        (V.map2 (fun a d => padd a (pscale s d)) acc (full_deltas k coords ends t)) ts' l
  end.

(* ---- from the model's regions to what the font stores ------------------------------------- *)
(* a C07 tent over the scale D as a (start, peak, end) triple of rationals *)
Definition tentQ (D : Z) (t : V.tent) : Q * Q * Q :=
  (inject_Z (V.tmin t) / inject_Z D, inject_Z (V.tpeak t) / inject_Z D, inject_Z (V.tmax t) / inject_Z D).
Definition locQ (D : Z) (l : V.loc) : list Q := map (fun z => inject_Z z / inject_Z D) l.

Definition font_tuple (D : Z) (infl : list V.region) (kd : nat * list (option pt)) : tuple :=
  mkTuple (map (tentQ D) (V.tents (region_at infl (fst kd)))) (snd kd).

(* F2Dot14::from_f64: nearest, ties away from zero; raw 2.14 integer *)
Definition f2dot14 (q : Q) : Z :=
  if Qlt_le_dec q 0 then (- Qfloor (- q * 16384 + (1 # 2)))%Z else Qfloor (q * 16384 + (1 # 2)).
Definition tentF (D : Z) (t : V.tent) : Z * Z * Z :=
  (f2dot14 (inject_Z (V.tmin t) / inject_Z D), f2dot14 (inject_Z (V.tpeak t) / inject_Z D),
   f2dot14 (inject_Z (V.tmax t) / inject_Z D)).

(* ---- is a glyph kept as a composite?  (fontir ir.rs has_consistent_2x2_transforms /
        has_overflowing_2x2_transforms, glyph.rs GlyphOrderWork: ConvertToContour) -------------------
   fontbe is positional: base and 2x2 of component i come from the default source, the offset of
   component i from components[i] of each source.  fontir therefore keeps a glyph composite only
   if every source lists the same (base, 2x2) at the same POSITION as the first source it looks at
   (HashMap order: any source; the relation is an equivalence, so the choice does not matter);
   otherwise - and when a 2x2 entry leaves [-2, 2], or the glyph also has an outline of its own
   (PREFER_SIMPLE_GLYPHS, the default) - it is decomposed per source. *)
Record comp := mkComp { c_base : N; c_2x2 : Q * Q * Q * Q; c_off : pt }.

Definition q4_eqb (a b : Q * Q * Q * Q) : bool :=
  let '(a1, a2, a3, a4) := a in let '(b1, b2, b3, b4) := b in
  Qeq_bool a1 b1 && Qeq_bool a2 b2 && Qeq_bool a3 b3 && Qeq_bool a4 b4.

Definition same_shape (a b : comp) : bool := N.eqb (c_base a) (c_base b) && q4_eqb (c_2x2 a) (c_2x2 b).

Fixpoint all2b {A B} (f : A -> B -> bool) (a : list A) (b : list B) : bool :=
  match a, b with
  | [], [] => true
  | x :: a', y :: b' => f x y && all2b f a' b'
  | _, _ => false
  end.

Definition has_consistent_components (srcs : list (list comp)) : bool :=
  match srcs with
  | [] => true
  | first :: rest => forallb (fun inst => all2b same_shape first inst) rest
  end.

Definition in_f2dot14_range (q : Q) : bool := Qle_bool (-2) q && Qle_bool q 2.
Definition has_overflowing_2x2 (srcs : list (list comp)) : bool :=
  existsb (existsb (fun c => let '(a, b, c', d) := c_2x2 c in
                             negb (in_f2dot14_range a && in_f2dot14_range b && in_f2dot14_range c' && in_f2dot14_range d))) srcs.

Definition kept_composite (has_outline : bool) (srcs : list (list comp)) : bool :=
  has_consistent_components srcs && negb (has_overflowing_2x2 srcs) && negb has_outline.
