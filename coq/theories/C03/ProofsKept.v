(* C03 — a glyph that is kept as a composite has, in every source, the same base and the same 2x2
   at every component POSITION: what fontbe's positional pairing of default components with
   per-source offsets needs. *)
From Coq Require Import List NArith ZArith QArith Bool Lia.
From FV.C03 Require Import Model.
Import ListNotations.
Open Scope Q_scope.

Definition q4_eq (a b : Q * Q * Q * Q) : Prop :=
  let '(a1, a2, a3, a4) := a in let '(b1, b2, b3, b4) := b in a1 == b1 /\ a2 == b2 /\ a3 == b3 /\ a4 == b4.
Definition shape_eq (a b : comp) : Prop := c_base a = c_base b /\ q4_eq (c_2x2 a) (c_2x2 b).

Lemma q4_eqb_iff a b : q4_eqb a b = true <-> q4_eq a b.
Proof.
  destruct a as [[[a1 a2] a3] a4], b as [[[b1 b2] b3] b4]. unfold q4_eqb, q4_eq.
  rewrite !andb_true_iff, !Qeq_bool_iff. tauto.
Qed.

Lemma same_shape_iff a b : same_shape a b = true <-> shape_eq a b.
Proof. unfold same_shape, shape_eq. rewrite andb_true_iff, N.eqb_eq, q4_eqb_iff. tauto. Qed.

Lemma q4_eq_refl a : q4_eq a a.
Proof. destruct a as [[[a1 a2] a3] a4]. cbn. repeat split; reflexivity. Qed.
Lemma q4_eq_sym a b : q4_eq a b -> q4_eq b a.
Proof. destruct a as [[[a1 a2] a3] a4], b as [[[b1 b2] b3] b4]. cbn. intros (H1 & H2 & H3 & H4). repeat split; symmetry; assumption. Qed.
Lemma q4_eq_trans a b c : q4_eq a b -> q4_eq b c -> q4_eq a c.
Proof.
  destruct a as [[[a1 a2] a3] a4], b as [[[b1 b2] b3] b4], c as [[[c1 c2] c3] c4]. cbn.
  intros (H1 & H2 & H3 & H4) (G1 & G2 & G3 & G4). repeat split; etransitivity; eassumption.
Qed.

Lemma shape_eq_refl a : shape_eq a a.
Proof. split; [reflexivity|apply q4_eq_refl]. Qed.
Lemma shape_eq_sym a b : shape_eq a b -> shape_eq b a.
Proof. intros [H1 H2]. split; [symmetry; exact H1|apply q4_eq_sym; exact H2]. Qed.
Lemma shape_eq_trans a b c : shape_eq a b -> shape_eq b c -> shape_eq a c.
Proof. intros [H1 H2] [G1 G2]. split; [congruence|eapply q4_eq_trans; eassumption]. Qed.

Lemma all2b_Forall2 a : forall b, all2b same_shape a b = true <-> Forall2 shape_eq a b.
Proof.
  induction a as [|x a IH]; intros [|y b]; cbn [all2b]; split; intro H; try discriminate; try constructor; try solve [inversion H].
  - apply andb_true_iff in H as [H _]. apply same_shape_iff. exact H.
  - apply andb_true_iff in H as [_ H]. apply IH. exact H.
  - inversion H; subst. apply andb_true_iff. split; [apply same_shape_iff; assumption|apply IH; assumption].
Qed.

Lemma F2_refl a : Forall2 shape_eq a a.
Proof. induction a; constructor; [apply shape_eq_refl|assumption]. Qed.
Lemma F2_sym a : forall b, Forall2 shape_eq a b -> Forall2 shape_eq b a.
Proof. induction a; intros b H; inversion H; subst; constructor; [apply shape_eq_sym; assumption|auto]. Qed.
Lemma F2_trans a : forall b c, Forall2 shape_eq a b -> Forall2 shape_eq b c -> Forall2 shape_eq a c.
Proof.
  induction a; intros b c H G; inversion H; subst; inversion G; subst; constructor;
    [eapply shape_eq_trans; eassumption|eapply IHa; eassumption].
Qed.

Theorem consistent_positional srcs : has_consistent_components srcs = true ->
  forall s s', In s srcs -> In s' srcs -> Forall2 shape_eq s s'.
Proof.
  destruct srcs as [|first rest]; [intros _ s s' []|]. cbn [has_consistent_components]. intro H.
  rewrite forallb_forall in H.
  assert (A : forall s, In s (first :: rest) -> Forall2 shape_eq first s).
  { intros s [<-|Hs]; [apply F2_refl|apply all2b_Forall2; apply H; exact Hs]. }
  intros s s' Hs Hs'. eapply F2_trans; [apply F2_sym; apply A; exact Hs|apply A; exact Hs'].
Qed.

Lemma Forall2_nth {A B} (R : A -> B -> Prop) la lb : Forall2 R la lb ->
  forall i a, nth_error la i = Some a -> exists b, nth_error lb i = Some b /\ R a b.
Proof.
  induction 1 as [|a b la lb H _ IH]; intros [|i] a' Ha; cbn in Ha; try discriminate.
  - injection Ha as <-. exists b. split; [reflexivity|exact H].
  - apply IH. exact Ha.
Qed.

(* which source is looked at first (HashMap order) does not matter *)
Theorem consistent_any_first first rest s : has_consistent_components (first :: rest) = true -> In s (first :: rest) ->
  forall s', In s' (first :: rest) -> all2b same_shape s s' = true.
Proof. intros H Hs s' Hs'. apply all2b_Forall2. exact (consistent_positional _ H s s' Hs Hs'). Qed.
