(* C11 — pair positioning: specific pairs (first rule wins) before class pairs; class pairs split
   into subtables, the first subtable that covers the first glyph decides. *)
From Coq Require Import List NArith ZArith Bool Arith Lia.
From FV.C11 Require Import Model Wf ProofsBase ProofsGsub.
Import ListNotations.

(* ---- glyph sets --------------------------------------------------------------------------------- *)
Definition seteq (a b : list glyph) : Prop := forall g, In g a <-> In g b.
Definition disj (a b : list glyph) : Prop := forall g, In g a -> ~ In g b.
Definition cmp (a b : list glyph) : Prop := seteq a b \/ disj a b.

Lemma subset_spec : forall a b, subset a b = true <-> (forall g, In g a -> In g b).
Proof.
  intros a b. unfold subset. rewrite forallb_forall. split; intros H g Hg.
  - apply mem_In. apply H. exact Hg.
  - apply mem_In. apply H. exact Hg.
Qed.

Lemma set_eqb_spec : forall a b, set_eqb a b = true <-> seteq a b.
Proof.
  intros a b. unfold set_eqb, seteq. rewrite andb_true_iff, !subset_spec. split.
  - intros [H1 H2] g. split; auto.
  - intros H. split; intros g; apply H.
Qed.

Lemma disjoint_spec : forall a b, disjoint a b = true <-> disj a b.
Proof.
  intros a b. unfold disjoint, disj. rewrite forallb_forall. split; intros H g Hg.
  - specialize (H g Hg). apply negb_true_iff in H. intro Hb. apply mem_In in Hb. congruence.
  - apply negb_true_iff. destruct (mem g b) eqn:M; [|reflexivity].
    apply mem_In in M. exfalso. exact (H g Hg M).
Qed.

Lemma seteq_refl : forall a, seteq a a. Proof. intros a g. reflexivity. Qed.
Lemma seteq_sym : forall a b, seteq a b -> seteq b a. Proof. intros a b H g. symmetry. apply H. Qed.
Lemma seteq_trans : forall a b c, seteq a b -> seteq b c -> seteq a c.
Proof. intros a b c H1 H2 g. rewrite (H1 g). apply H2. Qed.
Lemma disj_sym : forall a b, disj a b -> disj b a. Proof. intros a b H g Hb Ha. exact (H g Ha Hb). Qed.
Lemma cmp_sym : forall a b, cmp a b -> cmp b a.
Proof. intros a b [H|H]; [left; apply seteq_sym | right; apply disj_sym]; exact H. Qed.

(* two comparable sets sharing a glyph are equal *)
Lemma cmp_share : forall a b g, cmp a b -> In g a -> In g b -> seteq a b.
Proof. intros a b g [H|H] Ha Hb; [exact H | exfalso; exact (H g Ha Hb)]. Qed.

(* ---- specific pairs ------------------------------------------------------------------------------- *)
Definition lookup2 {V} (g1 g2 : glyph) (m : list (glyph * list (glyph * V))) : option V :=
  match assoc g1 m with Some ps => assoc g2 ps | None => None end.

Lemma lookup2_pair_insert : forall g1 g2 m a b v,
  lookup2 g1 g2 (pair_insert m a b v)
  = match lookup2 g1 g2 m with
    | Some x => Some x
    | None => if N.eqb g1 a && N.eqb g2 b then Some (v, vzero) else None
    end.
Proof.
  intros g1 g2 m a b v. unfold lookup2, pair_insert.
  destruct (assoc a m) as [l|] eqn:A.
  - destruct (N.eqb_spec g1 a) as [E|E].
    + subst a. rewrite assoc_upd_same, A. unfold upd_new.
      destruct (assoc b l) as [w|] eqn:B.
      * destruct (assoc g2 l) eqn:G; [reflexivity|]. simpl.
        destruct (N.eqb_spec g2 b); [subst; congruence | reflexivity].
      * rewrite assoc_app. destruct (assoc g2 l); [reflexivity|]. simpl.
        destruct (N.eqb g2 b); reflexivity.
    + rewrite assoc_upd_other by exact E. destruct (assoc g1 m) as [ps|]; [|reflexivity].
      destruct (assoc g2 ps); reflexivity.
  - rewrite assoc_app. destruct (N.eqb_spec g1 a) as [E|E].
    + subst a. rewrite A. simpl. rewrite N.eqb_refl. simpl. destruct (N.eqb g2 b); reflexivity.
    + destruct (assoc g1 m) as [ps|]; [destruct (assoc g2 ps); reflexivity|].
      simpl. destruct (N.eqb_spec g1 a); [contradiction | reflexivity].
Qed.

Lemma lookup2_fold_second : forall g1 g2 a v c2 m,
  lookup2 g1 g2 (fold_left (fun m b => pair_insert m a b v) c2 m)
  = match lookup2 g1 g2 m with
    | Some x => Some x
    | None => if N.eqb g1 a && mem g2 c2 then Some (v, vzero) else None
    end.
Proof.
  intros g1 g2 a v. induction c2 as [|b c2 IH]; intros m; simpl.
  - rewrite andb_false_r. destruct (lookup2 g1 g2 m); reflexivity.
  - rewrite IH, lookup2_pair_insert. destruct (lookup2 g1 g2 m); [reflexivity|].
    destruct (N.eqb g1 a); simpl; [|reflexivity].
    destruct (N.eqb g2 b); reflexivity.
Qed.

Lemma lookup2_fold_first : forall g1 g2 v c2 c1 m,
  lookup2 g1 g2 (fold_left (fun m a => fold_left (fun m b => pair_insert m a b v) c2 m) c1 m)
  = match lookup2 g1 g2 m with
    | Some x => Some x
    | None => if mem g1 c1 && mem g2 c2 then Some (v, vzero) else None
    end.
Proof.
  intros g1 g2 v c2. induction c1 as [|a c1 IH]; intros m; simpl.
  - destruct (lookup2 g1 g2 m); reflexivity.
  - rewrite IH, lookup2_fold_second. destruct (lookup2 g1 g2 m); [reflexivity|].
    destruct (N.eqb g1 a); simpl; [|reflexivity].
    destruct (mem g2 c2); [reflexivity|]. rewrite andb_false_r. reflexivity.
Qed.

Lemma pairs_glyph_fold : forall g1 g2 rules m,
  lookup2 g1 g2 (fold_left (fun m r => match r with
                                       | XPairE c1 c2 v =>
                                           fold_left (fun m a => fold_left (fun m b => pair_insert m a b v) c2 m) c1 m
                                       | _ => m
                                       end) rules m)
  = match lookup2 g1 g2 m with
    | Some x => Some x
    | None => option_map (fun v => (v, vzero)) (first_some (paire_of g1 g2) rules)
    end.
Proof.
  intros g1 g2. induction rules as [|r rules IH]; intros m; simpl.
  - destruct (lookup2 g1 g2 m); reflexivity.
  - rewrite IH. destruct r; try reflexivity.
    rewrite lookup2_fold_first. cbn [paire_of].
    destruct (lookup2 g1 g2 m); [reflexivity|].
    destruct (mem g1 c1 && mem g2 c2); reflexivity.
Qed.

Theorem pairs_glyph_refines : forall g1 g2 rules,
  lookup2 g1 g2 (compile_pairs_glyph rules)
  = option_map (fun v => (v, vzero)) (first_some (paire_of g1 g2) rules).
Proof. intros. unfold compile_pairs_glyph. rewrite pairs_glyph_fold. reflexivity. Qed.

(* ---- the groups are internally comparable ----------------------------------------------------------- *)
Definition firsts (grp : list xrule) : list (list glyph) :=
  flat_map (fun r => match r with XPairC a _ _ => [a] | _ => [] end) grp.
Definition seconds (grp : list xrule) : list (list glyph) :=
  flat_map (fun r => match r with XPairC _ b _ => [b] | _ => [] end) grp.

Definition pairwise (cls : list (list glyph)) : Prop := forall a b, In a cls -> In b cls -> cmp a b.
Definition group_ok (grp : list xrule) : Prop := pairwise (firsts grp) /\ pairwise (seconds grp).

Lemma class_fits_pairwise : forall cls c,
  pairwise cls -> class_fits cls c = true -> pairwise (cls ++ [c]).
Proof.
  intros cls c P F a b Ha Hb.
  assert (forall k, In k cls -> cmp c k) as Hc.
  { unfold class_fits in F. apply orb_true_iff in F as [F|F].
    - apply existsb_exists in F as [k0 [Hk0 E]]. apply set_eqb_spec in E.
      intros k Hk. destruct (P k0 k Hk0 Hk) as [H|H].
      + left. eapply seteq_trans; eassumption.
      + right. intros g Hg Hgk. apply (H g); [apply E; exact Hg | exact Hgk].
    - rewrite forallb_forall in F. intros k Hk. right. apply disjoint_spec. apply F. exact Hk. }
  apply in_app_or in Ha. apply in_app_or in Hb.
  destruct Ha as [Ha|[Ha|[]]]; destruct Hb as [Hb|[Hb|[]]]; subst.
  - apply P; assumption.
  - apply cmp_sym. apply Hc. exact Ha.
  - apply Hc. exact Hb.
  - left. apply seteq_refl.
Qed.

Lemma firsts_app : forall a b, firsts (a ++ b) = firsts a ++ firsts b.
Proof. intros. unfold firsts. apply flat_map_app. Qed.
Lemma seconds_app : forall a b, seconds (a ++ b) = seconds a ++ seconds b.
Proof. intros. unfold seconds. apply flat_map_app. Qed.

Lemma group_fits_ok : forall grp c1 c2 v,
  group_ok grp -> group_fits grp c1 c2 = true -> group_ok (grp ++ [XPairC c1 c2 v]).
Proof.
  intros grp c1 c2 v [P1 P2] F. unfold group_fits in F. apply andb_true_iff in F as [F1 F2].
  split.
  - rewrite firsts_app. simpl. apply class_fits_pairwise; assumption.
  - rewrite seconds_app. simpl. apply class_fits_pairwise; assumption.
Qed.

Lemma group_ok_single : forall c1 c2 v, group_ok [XPairC c1 c2 v].
Proof.
  intros. split; intros a b Ha Hb; simpl in *; destruct Ha as [Ha|[]]; destruct Hb as [Hb|[]]; subst;
    left; apply seteq_refl.
Qed.

Lemma pair_groups_ok : forall rules acc, Forall group_ok acc -> Forall group_ok (pair_groups acc rules).
Proof.
  induction rules as [|r rules IH]; intros acc F; simpl; [exact F|].
  destruct r; try (apply IH; exact F).
  destruct (rev acc) as [|last before] eqn:R.
  - apply IH. constructor; [apply group_ok_single | constructor].
  - assert (acc = rev before ++ [last]) as Eacc.
    { rewrite <- (rev_involutive acc), R. reflexivity. }
    rewrite Eacc in F. apply Forall_app in F as [Fb Fl].
    assert (group_ok last) as Hl by (inversion Fl; assumption).
    destruct (group_fits last c1 c2) eqn:G.
    + apply IH. apply Forall_app. split; [exact Fb|].
      constructor; [apply group_fits_ok; assumption | constructor].
    + apply IH. rewrite Eacc. apply Forall_app. split.
      * apply Forall_app. split; [exact Fb | constructor; [assumption | constructor]].
      * constructor; [apply group_ok_single | constructor].
Qed.

(* ---- one group ------------------------------------------------------------------------------------------ *)
Lemma find_set_app {V} : forall g (a b : list (list glyph * V)),
  find_set g (a ++ b) = match find_set g a with Some v => Some v | None => find_set g b end.
Proof.
  induction a as [|[s v] a IH]; intros b; simpl; [reflexivity|].
  destruct (mem g s); [reflexivity | apply IH].
Qed.

(* the first row that holds g1 is the row of the first rule whose first class holds g1 *)
Lemma find_row : forall g1 all grp,
  find_set g1 (flat_map (fun r => match r with XPairC c1 _ _ => [(c1, cols_for all c1)] | _ => [] end) grp)
  = first_some (fun r => match r with
                         | XPairC c1 _ _ => if mem g1 c1 then Some (cols_for all c1) else None
                         | _ => None
                         end) grp.
Proof.
  intros g1 all. induction grp as [|r grp IH]; simpl; [reflexivity|].
  rewrite find_set_app. destruct r; simpl; try exact IH.
  destruct (mem g1 c1); [reflexivity | exact IH].
Qed.

(* last rule satisfying p *)
Fixpoint last_some {A B} (f : A -> option B) (l : list A) : option B :=
  match l with
  | [] => None
  | x :: t => match last_some f t with Some y => Some y | None => f x end
  end.

Lemma find_set_rev_cols : forall g2 c1 grp,
  find_set g2 (cols_for grp c1)
  = last_some (fun r => match r with
                        | XPairC c1' c2' v' => if set_eqb c1' c1 && mem g2 c2' then Some (v', vzero) else None
                        | _ => None
                        end) grp.
Proof.
  intros g2 c1 grp. unfold cols_for. induction grp as [|r grp IH]; simpl; [reflexivity|].
  rewrite rev_app_distr, find_set_app, IH.
  destruct (last_some _ grp); [reflexivity|].
  destruct r; simpl; try reflexivity.
  destruct (set_eqb c0 c1); simpl; [|reflexivity].
  destruct (mem g2 c2); reflexivity.
Qed.

Lemma first_some_In {A B} (f : A -> option B) : forall l y, first_some f l = Some y -> exists x, In x l /\ f x = Some y.
Proof.
  induction l as [|x l IH]; intros y H; simpl in H; [discriminate|].
  destruct (f x) eqn:E; [inversion H; subst; exists x; split; [left; reflexivity | exact E]|].
  destruct (IH y H) as [x' [Hx Hf]]. exists x'. split; [right; exact Hx | exact Hf].
Qed.

Lemma last_some_In {A B} (f : A -> option B) : forall l y, last_some f l = Some y -> exists x, In x l /\ f x = Some y.
Proof.
  induction l as [|x l IH]; intros y H; simpl in H; [discriminate|].
  destruct (last_some f l) eqn:E.
  - inversion H; subst. destruct (IH y eq_refl) as [x' [Hx Hf]]. exists x'. split; [right; exact Hx | exact Hf].
  - exists x. split; [left; reflexivity | exact H].
Qed.

Lemma first_some_none {A B} (f : A -> option B) : forall l, first_some f l = None -> forall x, In x l -> f x = None.
Proof.
  induction l as [|x l IH]; intros H y Hy; [contradiction|]. simpl in H.
  destruct (f x) eqn:E; [discriminate|]. destruct Hy as [Hy|Hy]; [subst; exact E | apply IH; assumption].
Qed.

Lemma last_some_none {A B} (f : A -> option B) : forall l, last_some f l = None -> forall x, In x l -> f x = None.
Proof.
  induction l as [|x l IH]; intros H y Hy; [contradiction|]. simpl in H.
  destruct (last_some f l) eqn:E; [discriminate|]. destruct Hy as [Hy|Hy]; [subst; exact H | apply IH; auto].
Qed.

Lemma In_firsts : forall grp c1 c2 v, In (XPairC c1 c2 v) grp -> In c1 (firsts grp).
Proof. intros. unfold firsts. apply in_flat_map. exists (XPairC c1 c2 v). split; [assumption | left; reflexivity]. Qed.
Lemma In_seconds : forall grp c1 c2 v, In (XPairC c1 c2 v) grp -> In c2 (seconds grp).
Proof. intros. unfold seconds. apply in_flat_map. exists (XPairC c1 c2 v). split; [assumption | left; reflexivity]. Qed.

Lemma first_some_all_none {A B} (f : A -> option B) : forall l, (forall x, In x l -> f x = None) -> first_some f l = None.
Proof.
  induction l as [|x l IH]; intros H; [reflexivity|]. simpl.
  rewrite (H x (or_introl eq_refl)). apply IH. intros y Hy. apply H. right; exact Hy.
Qed.

Lemma consistent_In {K V} (keq : K -> K -> bool) (veq : V -> V -> bool) :
  (forall a b, keq a b = keq b a) -> (forall a b, veq a b = true -> a = b) ->
  forall l k1 v1 k2 v2, consistent keq veq l = true ->
  In (k1, v1) l -> In (k2, v2) l -> keq k1 k2 = true -> v1 = v2.
Proof.
  intros Ks Ve. induction l as [|[k v] l IH]; intros k1 v1 k2 v2 C H1 H2 E; [contradiction|].
  simpl in C. apply andb_true_iff in C as [C1 C2]. rewrite forallb_forall in C1.
  destruct H1 as [H1|H1]; destruct H2 as [H2|H2].
  - congruence.
  - inversion H1; subst. specialize (C1 _ H2). simpl in C1. rewrite E in C1. simpl in C1. apply Ve. exact C1.
  - inversion H2; subst. specialize (C1 _ H1). simpl in C1. rewrite Ks, E in C1. simpl in C1.
    symmetry. apply Ve. exact C1.
  - eapply IH; eassumption.
Qed.

Definition pkeq (a b : list glyph * list glyph) : bool := set_eqb (fst a) (fst b) && set_eqb (snd a) (snd b).

Lemma pkeq_sym : forall a b, pkeq a b = pkeq b a.
Proof.
  intros [a1 a2] [b1 b2]. unfold pkeq, set_eqb. simpl.
  destruct (subset a1 b1), (subset b1 a1), (subset a2 b2), (subset b2 a2); reflexivity.
Qed.

Definition pair_consistent (rules : list xrule) : Prop :=
  forall c1 c2 v c1' c2' v', In (XPairC c1 c2 v) rules -> In (XPairC c1' c2' v') rules ->
  seteq c1 c1' -> seteq c2 c2' -> v = v'.

Lemma wf_pair_consistent : forall rules,
  consistent (fun a b => set_eqb (fst a) (fst b) && set_eqb (snd a) (snd b)) veqb (flat_map pairc_bindings rules) = true ->
  pair_consistent rules.
Proof.
  intros rules C c1 c2 v c1' c2' v' H1 H2 E1 E2.
  apply (consistent_In pkeq veqb pkeq_sym (fun a b H => proj1 (veqb_eq a b) H)
                       (flat_map pairc_bindings rules) (c1, c2) v (c1', c2') v' C).
  - apply in_flat_map. exists (XPairC c1 c2 v). split; [exact H1 | left; reflexivity].
  - apply in_flat_map. exists (XPairC c1' c2' v'). split; [exact H2 | left; reflexivity].
  - unfold pkeq. simpl. apply andb_true_iff. split; apply set_eqb_spec; assumption.
Qed.

Section Group.
Variable grp : list xrule.
Hypothesis OK : group_ok grp.
Hypothesis CONS : pair_consistent grp.

Lemma group_rows_cover : forall g1, find_set g1 (group_rows grp) = None <-> group_covers g1 grp = false.
Proof.
  intros g1. unfold group_rows. rewrite find_row. unfold group_covers. split; intro H.
  - destruct (existsb _ grp) eqn:E; [|reflexivity]. exfalso.
    apply existsb_exists in E as [r [Hr M]].
    pose proof (first_some_none _ _ H r Hr) as N. destruct r; try discriminate. rewrite M in N. discriminate.
  - apply first_some_all_none. intros r Hr. destruct r; try reflexivity.
    destruct (mem g1 c1) eqn:M; [|reflexivity]. exfalso.
    assert (existsb (fun r => match r with XPairC c _ _ => mem g1 c | _ => false end) grp = true) as E.
    { apply existsb_exists. exists (XPairC c1 c2 v). split; [exact Hr | exact M]. }
    congruence.
Qed.

Lemma group_rows_value : forall g1 g2 cols,
  find_set g1 (group_rows grp) = Some cols ->
  find_set g2 cols = option_map (fun v => (v, vzero)) (first_some (pairc_of g1 g2) grp).
Proof.
  intros g1 g2 cols H. unfold group_rows in H. rewrite find_row in H.
  apply first_some_In in H as [r0 [Hr0 F0]]. destruct r0 as [| | | | | | |c1 c2 v0]; try discriminate.
  destruct (mem g1 c1) eqn:M1; [|discriminate]. inversion F0; subst cols; clear F0.
  apply mem_In in M1. destruct OK as [P1 P2].
  rewrite find_set_rev_cols.
  destruct (last_some _ grp) as [w|] eqn:L.
  - apply last_some_In in L as [r' [Hr' F']]. destruct r' as [| | | | | | |c1' c2' v']; try discriminate.
    destruct (set_eqb c1' c1 && mem g2 c2') eqn:E; [|discriminate]. inversion F'; subst w; clear F'.
    apply andb_true_iff in E as [E1 E2]. apply set_eqb_spec in E1. apply mem_In in E2.
    destruct (first_some (pairc_of g1 g2) grp) as [v''|] eqn:FS.
    + apply first_some_In in FS as [r'' [Hr'' F'']]. destruct r'' as [| | | | | | |c1'' c2'' v3]; try discriminate.
      simpl in F''. destruct (mem g1 c1'' && mem g2 c2'') eqn:E'; [|discriminate]. inversion F''; subst v''.
      apply andb_true_iff in E' as [E1' E2']. apply mem_In in E1'. apply mem_In in E2'.
      simpl. f_equal. f_equal. symmetry.
      apply (CONS c1'' c2'' v3 c1' c2' v' Hr'' Hr').
      * apply (cmp_share _ _ g1 (P1 _ _ (In_firsts _ _ _ _ Hr'') (In_firsts _ _ _ _ Hr')) E1').
        apply E1. exact M1.
      * apply (cmp_share _ _ g2 (P2 _ _ (In_seconds _ _ _ _ Hr'') (In_seconds _ _ _ _ Hr')) E2' E2).
    + exfalso. pose proof (first_some_none _ _ FS _ Hr') as N. simpl in N.
      assert (mem g1 c1' = true) as M by (apply mem_In; apply E1; exact M1).
      assert (mem g2 c2' = true) as M' by (apply mem_In; exact E2).
      rewrite M, M' in N. discriminate.
  - rewrite first_some_all_none; [reflexivity|].
    intros r'' Hr''. destruct r'' as [| | | | | | |c1'' c2'' v3]; try reflexivity. simpl.
    destruct (mem g1 c1'' && mem g2 c2'') eqn:E'; [|reflexivity]. exfalso.
    apply andb_true_iff in E' as [E1' E2']. apply mem_In in E1'.
    pose proof (last_some_none _ _ L _ Hr'') as N. simpl in N.
    assert (set_eqb c1'' c1 = true) as S.
    { apply set_eqb_spec.
      apply (cmp_share _ _ g1 (P1 _ _ (In_firsts _ _ _ _ Hr'') (In_firsts _ _ _ _ Hr0)) E1' M1). }
    rewrite S, E2' in N. discriminate.
Qed.

End Group.

(* ---- the groups hold only rules of the lookup --------------------------------------------------------- *)
Lemma pair_groups_members : forall rules acc grp r,
  In grp (pair_groups acc rules) -> In r grp -> In r rules \/ exists g0, In g0 acc /\ In r g0.
Proof.
  induction rules as [|x rules IH]; intros acc grp r Hg Hr; simpl in Hg.
  - right. exists grp. split; assumption.
  - assert (forall acc', (forall g0 r0, In g0 acc' -> In r0 g0 -> r0 = x \/ exists g1, In g1 acc /\ In r0 g1) ->
                          In grp (pair_groups acc' rules) -> In r (x :: rules) \/ exists g0, In g0 acc /\ In r g0) as Step.
    { intros acc' Hacc' Hg'. destruct (IH acc' grp r Hg' Hr) as [H|[g0 [Hg0 Hr0]]].
      - left. right. exact H.
      - destruct (Hacc' g0 r Hg0 Hr0) as [E|H]; [left; left; symmetry; exact E | right; exact H]. }
    destruct x; try (apply (Step acc); [intros g0 r0 H0 H1; right; exists g0; split; assumption | exact Hg]).
    destruct (rev acc) as [|last before] eqn:R.
    + apply (Step [[XPairC c1 c2 v]]); [|exact Hg].
      intros g0 r0 [E|[]] H1. subst g0. destruct H1 as [E|[]]. left. symmetry. exact E.
    + assert (acc = rev before ++ [last]) as Eacc.
      { rewrite <- (rev_involutive acc), R. reflexivity. }
      destruct (group_fits last c1 c2).
      * apply (Step (rev before ++ [last ++ [XPairC c1 c2 v]])); [|exact Hg].
        intros g0 r0 H0 H1. apply in_app_or in H0 as [H0|[H0|[]]].
        -- right. exists g0. split; [rewrite Eacc; apply in_or_app; left; exact H0 | exact H1].
        -- subst g0. apply in_app_or in H1 as [H1|[H1|[]]].
           ++ right. exists last. split; [rewrite Eacc; apply in_or_app; right; left; reflexivity | exact H1].
           ++ left. symmetry. exact H1.
      * apply (Step (acc ++ [[XPairC c1 c2 v]])); [|exact Hg].
        intros g0 r0 H0 H1. apply in_app_or in H0 as [H0|[H0|[]]].
        -- right. exists g0. split; assumption.
        -- subst g0. destruct H1 as [E|[]]. left. symmetry. exact E.
Qed.

Lemma pair_groups_In : forall rules grp r, In grp (pair_groups [] rules) -> In r grp -> In r rules.
Proof.
  intros rules grp r Hg Hr. destruct (pair_groups_members rules [] grp r Hg Hr) as [H|[g0 [Hg0 _]]]; [exact H | destruct Hg0].
Qed.

(* ---- the whole pair lookup -------------------------------------------------------------------------------- *)
Section PairLookup.
Variable gd : gdef.
Variable fl : lflag.

Lemma try_groups : forall cur after g2 sk w aft groups,
  next_nonskip gd fl after = Some (sk, (g2, w), aft) ->
  Forall group_ok groups -> Forall pair_consistent groups ->
  try_gpos_subs gd fl (map compile_group groups) cur after
  = match find (group_covers cur) groups with
    | None => None
    | Some grp => match first_some (pairc_of cur g2) grp with
                  | Some v => Some (v, Some (vzero, false))
                  | None => Some (vzero, Some (vzero, false))
                  end
    end.
Proof.
  intros cur after g2 sk w aft groups NN. induction groups as [|grp groups IH]; intros FO FC; [reflexivity|].
  inversion FO; subst. inversion FC; subst. simpl.
  destruct (find_set cur (group_rows grp)) as [cols|] eqn:FR.
  - assert (group_covers cur grp = true) as GC.
    { destruct (group_covers cur grp) eqn:G; [reflexivity|].
      apply (group_rows_cover grp) in G. congruence. }
    rewrite GC, NN. rewrite (group_rows_value grp H1 H3 cur g2 cols FR).
    destruct (first_some (pairc_of cur g2) grp); reflexivity.
  - apply (group_rows_cover grp) in FR. rewrite FR. apply IH; assumption.
Qed.

Theorem pair_refines : forall rules cur after,
  pair_consistent rules ->
  try_gpos_subs gd fl (compile_pair rules) cur after
  = src_try_pos gd (mkSL fl KPosPair rules) cur after.
Proof.
  intros rules cur after CONS. unfold compile_pair, src_try_pos. simpl.
  destruct (next_nonskip gd fl after) as [[[sk [g2 w]] aft]|] eqn:NN.
  - pose proof (pairs_glyph_refines cur g2 rules) as PG. unfold lookup2 in PG.
    assert (Forall group_ok (pair_groups [] rules)) as FO by (apply pair_groups_ok; constructor).
    assert (Forall pair_consistent (pair_groups [] rules)) as FC.
    { apply Forall_forall. intros grp Hg c1 c2 v c1' c2' v' H1 H2.
      apply CONS; eapply pair_groups_In; eassumption. }
    destruct (assoc cur (compile_pairs_glyph rules)) as [ps|].
    + rewrite PG. destruct (first_some (paire_of cur g2) rules); simpl; [reflexivity|].
      apply (try_groups cur after g2 sk w aft _ NN FO FC).
    + destruct (first_some (paire_of cur g2) rules); simpl in PG; [discriminate|].
      apply (try_groups cur after g2 sk w aft _ NN FO FC).
  - (* no second glyph: nothing applies *)
    destruct (assoc cur (compile_pairs_glyph rules)).
    + clear - NN. induction (pair_groups [] rules) as [|grp gs IH]; simpl; [reflexivity|].
      destruct (find_set cur (group_rows grp)); rewrite ?NN; exact IH.
    + clear - NN. induction (pair_groups [] rules) as [|grp gs IH]; simpl; [reflexivity|].
      destruct (find_set cur (group_rows grp)); rewrite ?NN; exact IH.
Qed.

End PairLookup.
