(* C11 — single, multiple and alternate substitution, single positioning: the compiled per-glyph
   map answers like the first matching rule. *)
From Coq Require Import List NArith ZArith Bool Arith Lia.
From FV.C11 Require Import Model Wf ProofsBase.
Import ListNotations.

Definition updf {V} (m : list (N * V)) (kv : N * V) := upd (fst kv) (snd kv) m.

Lemma compile_single_bindings : forall rules m,
  fold_left (fun m r => match r with XSingle tgt repl => ins_pairs tgt repl m | _ => m end) rules m
  = fold_left updf (flat_map single_bindings rules) m.
Proof.
  induction rules as [|r rules IH]; intros m; simpl; [reflexivity|].
  rewrite fold_left_app, IH. destruct r; reflexivity.
Qed.

Lemma compile_multi_bindings : forall rules m,
  fold_left (fun m r => match r with
                        | XSingle tgt repl => ins_pairs tgt (map (fun g => [g]) repl) m
                        | XMulti tgt seqs => ins_pairs tgt seqs m
                        | _ => m
                        end) rules m
  = fold_left updf (flat_map multi_bindings rules) m.
Proof.
  induction rules as [|r rules IH]; intros m; simpl; [reflexivity|].
  rewrite fold_left_app, IH. destruct r; reflexivity.
Qed.

Lemma compile_alt_bindings : forall rules m,
  fold_left (fun m r => match r with XAlt t alts => upd t alts m | _ => m end) rules m
  = fold_left updf (flat_map alt_bindings rules) m.
Proof.
  induction rules as [|r rules IH]; intros m; simpl; [reflexivity|].
  rewrite fold_left_app, IH. destruct r; reflexivity.
Qed.

Lemma compile_possingle_bindings : forall rules m,
  fold_left (fun m r => match r with
                        | XPosSingle tgt v => fold_left (fun m g => upd g v m) tgt m
                        | _ => m
                        end) rules m
  = fold_left updf (flat_map pos_bindings rules) m.
Proof.
  induction rules as [|r rules IH]; intros m; simpl; [reflexivity|].
  rewrite fold_left_app, IH. destruct r; try reflexivity.
  f_equal. simpl. clear. revert m. induction tgt as [|g t IHt]; intros m; simpl; [reflexivity|].
  apply IHt.
Qed.

(* a consistent binding list, folded with overwrite, looks up like its first binding *)
Lemma fold_upd_first {V} (veq : V -> V -> bool) :
  (forall a b, veq a b = true -> a = b) ->
  forall g (l : list (N * V)), consistent N.eqb veq l = true ->
  assoc g (fold_left updf l []) = assoc g l.
Proof.
  intros Hv g l C. unfold updf. rewrite assoc_fold_upd.
  rewrite (consistent_last_first veq Hv g l C). destruct (assoc g l); reflexivity.
Qed.

Lemma single_of_assoc : forall g r, single_of g r = assoc g (single_bindings r).
Proof.
  intros g [] ; simpl; try reflexivity. rewrite assoc_combine. reflexivity.
Qed.

Lemma multi_of_assoc : forall g r, multi_of g r = assoc g (multi_bindings r).
Proof.
  intros g []; simpl; try reflexivity.
  - rewrite assoc_combine. destruct (index_of g tgt); [|reflexivity].
    rewrite nth_error_map. reflexivity.
  - rewrite assoc_combine. reflexivity.
Qed.

Lemma alt_of_assoc : forall g r, alt_of g r = assoc g (alt_bindings r).
Proof. intros g []; simpl; reflexivity. Qed.

Lemma possingle_of_assoc : forall g r, possingle_of g r = assoc g (pos_bindings r).
Proof.
  intros g []; simpl; try reflexivity.
  induction tgt as [|x t IH]; simpl; [reflexivity|].
  destruct (N.eqb g x); [reflexivity | exact IH].
Qed.

Theorem single_refines : forall rules g,
  consistent N.eqb N.eqb (flat_map single_bindings rules) = true ->
  assoc g (compile_single rules) = first_some (single_of g) rules.
Proof.
  intros rules g C. unfold compile_single. rewrite compile_single_bindings.
  transitivity (assoc g (flat_map single_bindings rules)).
  - apply (fold_upd_first N.eqb (fun a b H => proj1 (N.eqb_eq a b) H)). exact C.
  - symmetry. apply first_some_assoc. apply single_of_assoc.
Qed.

Theorem multi_refines : forall rules g,
  consistent N.eqb glyphs_eqb (flat_map multi_bindings rules) = true ->
  assoc g (compile_multi rules) = first_some (multi_of g) rules.
Proof.
  intros rules g C. unfold compile_multi. rewrite compile_multi_bindings.
  transitivity (assoc g (flat_map multi_bindings rules)).
  - apply (fold_upd_first glyphs_eqb (fun a b H => proj1 (glyphs_eqb_eq a b) H)). exact C.
  - symmetry. apply first_some_assoc. apply multi_of_assoc.
Qed.

Theorem alt_refines : forall rules g,
  consistent N.eqb glyphs_eqb (flat_map alt_bindings rules) = true ->
  assoc g (compile_alt rules) = first_some (alt_of g) rules.
Proof.
  intros rules g C. unfold compile_alt. rewrite compile_alt_bindings.
  transitivity (assoc g (flat_map alt_bindings rules)).
  - apply (fold_upd_first glyphs_eqb (fun a b H => proj1 (glyphs_eqb_eq a b) H)). exact C.
  - symmetry. apply first_some_assoc. apply alt_of_assoc.
Qed.

Theorem possingle_refines : forall rules g,
  consistent N.eqb veqb (flat_map pos_bindings rules) = true ->
  assoc g (compile_possingle rules) = first_some (possingle_of g) rules.
Proof.
  intros rules g C. unfold compile_possingle. rewrite compile_possingle_bindings.
  transitivity (assoc g (flat_map pos_bindings rules)).
  - apply (fold_upd_first veqb (fun a b H => proj1 (veqb_eq a b) H)). exact C.
  - symmetry. apply first_some_assoc. apply possingle_of_assoc.
Qed.
