(* C11 — the boolean terms evaluated (vm_compute) for each generated feature file of the
   correspondence run.  `real` is the GSUB/GPOS/GDEF fea-rs produced, decoded by the harness. *)
From Coq Require Import List NArith ZArith Bool Arith.
From FV.C11 Require Import Common Range OT Source Interp Compile Model.
Import ListNotations.

Fixpoint nats_eqb (a b : list nat) : bool :=
  match a, b with
  | [], [] => true
  | x :: a', y :: b' => Nat.eqb x y && nats_eqb a' b'
  | _, _ => false
  end.

Definition behav_eq (f g : selection -> list glyph -> list pitem) (sels : list selection)
           (strs : list (list glyph)) : bool :=
  forallb (fun sel => forallb (fun s => pitems_eqb (f sel s) (g sel s)) strs) sels.

(* lookup type tag of a lookup: GSUB 1 2 3 4 6, GPOS 11 12; 0 = no subtable *)
Definition lk_type (lk : lookup) : N :=
  match lk_subs lk with
  | [] => 0
  | STSingle _ :: _ => 1 | STMultiple _ :: _ => 2 | STAlternate _ :: _ => 3 | STLigature _ :: _ => 4
  | STChain _ :: _ => 6 | STSinglePos _ :: _ => 11
  | STPairGlyph _ _ :: _ => 12 | STPairClass _ _ :: _ => 12 | STPairClassRaw _ _ _ _ _ :: _ => 12
  end%N.

Fixpoint lookups_alike (a b : list lookup) : bool :=
  match a, b with
  | [], [] => true
  | x :: a', y :: b' =>
      flag_eqb (lk_flag x) (lk_flag y)
      && (N.eqb (lk_type x) (lk_type y) || N.eqb (lk_type x) 0 || N.eqb (lk_type y) 0)
      && lookups_alike a' b'
  | _, _ => false
  end.

(* `incl`, `delp`, `eskip`, `refc`, `mixs`, `isng`, `imul`, `ilig`: which of the repairs / specification readings this build of fea-rs
   has (numeric ranges, `by NULL` rules, empty named lookups in contextual rules, the three inline-rule
   defects), probed by the harness on fixed inputs; all false on the unrepaired tree, all true after.
   fea-rs accepted the file.
   (A) the model of the compiler and the real compiler yield tables that behave alike, list the same
       lookups for every selection, and have the same lookup list shape;
   (B) the property predicate (real tables vs. source semantics under the SPECIFICATION's range
       reading) has the value the harness computed;
   (C) the harness's own apply_ot / interp_fea give the model's results on the samples. *)
Definition case_ok (incl delp eskip refc mixs isng imul ilig : bool) (gm : list str) (p : prog) (real : otfont)
           (sels : list selection)
           (alphabet : list glyph) (n : nat) (extra : list (list glyph)) (pred_ok : bool)
           (samples : list (nat * list glyph * list pitem * list pitem)) : bool :=
  match elab_gen incl gm delp eskip refc mixs p with
  | Some e =>
      let strs := strings_upto alphabet n ++ extra in
      let cm := compile_mini_g isng imul ilig e in
      behav_eq (apply_ot cm) (apply_ot real) sels strs
      && forallb (fun sel => nats_eqb (active_lookups (f_gsub cm) sel) (active_lookups (f_gsub real) sel)
                             && nats_eqb (active_lookups (f_gpos cm) sel) (active_lookups (f_gpos real) sel)) sels
      && lookups_alike (ot_lookups (f_gsub cm)) (ot_lookups (f_gsub real))
      && lookups_alike (ot_lookups (f_gpos cm)) (ot_lookups (f_gpos real))
      && match elab_spec gm p with
         | Some espec =>
             Bool.eqb (behav_eq (apply_ot real) (interp_fea espec) sels strs) pred_ok
             && forallb (fun '(i, s, out_real, out_src) =>
                           match nth_error sels i with
                           | Some sel => pitems_eqb (apply_ot real sel s) out_real
                                         && pitems_eqb (interp_fea espec sel s) out_src
                           | None => false
                           end) samples
         | None =>
             (* the specification's reading rejects the file although fea-rs compiled it: the predicate fails *)
             negb pred_ok
         end
  | None => false
  end.

(* fea-rs rejected the file with diagnostics: so does the walk *)
Definition case_rejected (incl delp eskip refc mixs : bool) (gm : list str) (p : prog) : bool :=
  match elab_gen incl gm delp eskip refc mixs p with None => true | Some _ => false end.

(* glyph ranges alone *)
Fixpoint strs_eqb (a b : list str) : bool :=
  match a, b with
  | [], [] => true
  | x :: a', y :: b' => str_eqb x y && strs_eqb a' b'
  | _, _ => false
  end.
Definition case_range (incl : bool) (a b : str) (impl : option (list str)) : bool :=
  match (if incl then range_named_spec a b else range_named a b), impl with
  | Some x, Some y => strs_eqb x y
  | None, None => true
  | _, _ => false
  end.
