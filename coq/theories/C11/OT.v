(* C11 — abstract OpenType layout tables and the OpenType lookup application algorithm
   (`apply_ot`).  The algorithm follows the reference behaviour of OpenType shapers
   (HarfBuzz `apply_forward`, `match_input`, `apply_lookup`, `PairPos*::apply`):
   lookups of the enabled features of the chosen language system are applied in lookup-list
   order, each once over the whole glyph run; at each position that the lookup flag does not
   skip, the subtables are tried in order and the first that applies wins.
   Executable definitions only. *)
From Coq Require Import List NArith ZArith Bool Arith.
From FV.C11 Require Import Common.
Import ListNotations.

(* ---- tables ----------------------------------------------------------------------------- *)
(* one rule of a (chained) sequence context subtable; every position is a glyph set.
   cr_back is in OpenType order: closest glyph first.  cr_recs: (sequence index, lookup index). *)
Record chain_rule := mkCR { cr_back : list (list glyph); cr_input : list (list glyph);
                            cr_look : list (list glyph); cr_recs : list (nat * nat) }.

Inductive subtable :=
| STSingle (m : list (glyph * glyph))
| STMultiple (m : list (glyph * list glyph))
| STAlternate (m : list (glyph * list glyph))
| STLigature (m : list (glyph * list (list glyph * glyph)))   (* first glyph -> (other components, ligature), in order *)
| STChain (rules : list chain_rule)                           (* formats 1-3 flattened; rules tried in order *)
| STSinglePos (m : list (glyph * value))
| STPairGlyph (second : bool) (m : list (glyph * list (glyph * (value * value))))
  (* class pairs as the compiler's builder holds them: rows keyed by first-glyph set, columns by second-glyph set *)
| STPairClass (second : bool) (rows : list (list glyph * list (list glyph * (value * value))))
  (* class pairs as stored in a font: coverage, two class definitions, class1 x class2 matrix *)
| STPairClassRaw (second : bool) (cov : list glyph) (cd1 cd2 : list (glyph * N))
                 (recs : list (list (value * value))).

Record lookup := mkLookup { lk_flag : lflag; lk_subs : list subtable }.

(* ot_features: feature list (tag, lookup indices); ot_langsys: (script, language) -> feature indices,
   language `dflt` standing for the script's DefaultLangSys *)
Record ottable := mkTable { ot_lookups : list lookup; ot_features : list (tag * list nat);
                            ot_langsys : list ((tag * tag) * list nat) }.
Record otfont := mkFont { f_gsub : ottable; f_gpos : ottable; f_gdef : gdef }.

Definition empty_table : ottable := mkTable [] [] [].

(* ---- matching --------------------------------------------------------------------------- *)
Section Apply.
Variable gd : gdef.
Variable alt : nat.

(* Match glyph sets against a glyph list, passing over skippable glyphs.
   Result: the consumed glyphs, each marked matched / skipped, and the untouched rest. *)
Fixpoint match_seq (fl : lflag) (pats : list (list glyph)) (l : list glyph)
  : option (list (glyph * bool) * list glyph) :=
  match pats with
  | [] => Some ([], l)
  | p :: ps =>
      match l with
      | [] => None
      | g :: tl =>
          if skip gd fl g then
            match match_seq fl pats tl with
            | Some (c, r) => Some ((g, false) :: c, r)
            | None => None
            end
          else if mem g p then
            match match_seq fl ps tl with
            | Some (c, r) => Some ((g, true) :: c, r)
            | None => None
            end
          else None
      end
  end.

Definition match_ctx (fl : lflag) (pats : list (list glyph)) (l : list glyph) : bool :=
  match match_seq fl pats l with Some _ => true | None => false end.

Definition skipped_of (c : list (glyph * bool)) : list glyph :=
  map fst (filter (fun x => negb (snd x)) c).

(* positions (offset by `from`) of the matched glyphs in a consumed list *)
Fixpoint matched_pos (from : nat) (c : list (glyph * bool)) : list nat :=
  match c with
  | [] => []
  | (_, true) :: t => from :: matched_pos (S from) t
  | (_, false) :: t => matched_pos (S from) t
  end.

(* ---- nested lookups of a matched context (HarfBuzz apply_lookup) ------------------------- *)
(* `rec a before at_` applies action `a` once at the head of `at_`; the result is the glyphs
   that replace the consumed part and the untouched rest. *)
Section Records.
Variable A : Type.
Variable rec : A -> list glyph -> list glyph -> option (list glyph * list glyph).
Variable before : list glyph.   (* output so far, closest first *)

Definition rec_step (st : list glyph * list nat * nat) (r : nat * A) : list glyph * list nat * nat :=
  let '(B, mp, e) := st in
  let '(si, a) := r in
  match nth_error mp si with
  | None => st
  | Some p =>
      if Nat.leb (length B) p then st else
      match rec a (rev (firstn p B) ++ before) (skipn p B) with
      | None => st
      | Some (out, rest') =>
          let B' := firstn p B ++ out ++ rest' in
          let delta := (Z.of_nat (length B') - Z.of_nat (length B))%Z in
          if Z.eqb delta 0 then (B', mp, e) else
          let e1 := (Z.of_nat e + delta)%Z in
          let '(delta, e2) := if Z.ltb e1 (Z.of_nat p)
                              then ((delta + (Z.of_nat p - e1))%Z, Z.of_nat p) else (delta, e1) in
          let next := S si in
          if Z.ltb 0 delta then
            let d := Z.to_nat delta in
            (B', firstn next mp ++ map (fun k => p + k) (seq 1 d) ++ map (fun q => q + d) (skipn next mp),
             Z.to_nat e2)
          else
            let dd := Z.max delta (Z.of_nat next - Z.of_nat (length mp))%Z in
            let nd := Z.to_nat (- dd) in
            (B', firstn next mp ++ map (fun q => q - nd) (skipn (next + nd) mp), Z.to_nat e2)
      end
  end.

(* returns the glyphs up to the end of the (edited) match and the rest *)
Definition apply_records (recs : list (nat * A)) (W rest : list glyph) (mp : list nat)
  : list glyph * list glyph :=
  let '(B, _, e) := fold_left rec_step recs (W ++ rest, mp, length W) in
  (firstn e B, skipn e B).
End Records.

(* ---- GSUB subtables at one position ----------------------------------------------------- *)
Definition try_liga (fl : lflag) (ligs : list (list glyph * glyph)) (after : list glyph)
  : option (list glyph * list glyph) :=
  (fix go (ligs : list (list glyph * glyph)) :=
     match ligs with
     | [] => None
     | (comps, lig) :: t =>
         match match_seq fl (map (fun c => [c]) comps) after with
         | Some (c, rest) => Some ([lig], skipped_of c ++ rest)
         | None => go t
         end
     end) ligs.

Section Try.
Variable rec : nat -> list glyph -> list glyph -> option (list glyph * list glyph).

Definition try_chain_rule (fl : lflag) (r : chain_rule) (before : list glyph) (cur : glyph)
           (after : list glyph) : option (list glyph * list glyph) :=
  match cr_input r with
  | [] => None
  | p0 :: ps =>
      if mem cur p0 then
        match match_seq fl ps after with
        | None => None
        | Some (c, rest) =>
            if match_ctx fl (cr_back r) before && match_ctx fl (cr_look r) rest then
              Some (apply_records nat rec before (cr_recs r) (cur :: map fst c) rest
                                  (O :: matched_pos 1 c))
            else None
        end
      else None
  end.

Definition try_gsub_sub (fl : lflag) (st : subtable) (before : list glyph) (cur : glyph)
           (after : list glyph) : option (list glyph * list glyph) :=
  match st with
  | STSingle m => match assoc cur m with Some g => Some ([g], after) | None => None end
  | STMultiple m => match assoc cur m with Some s => Some (s, after) | None => None end
  | STAlternate m =>
      match assoc cur m with
      | Some alts => match nth_error alts alt with Some g => Some ([g], after) | None => None end
      | None => None
      end
  | STLigature m => match assoc cur m with Some ligs => try_liga fl ligs after | None => None end
  | STChain rules =>
      (fix go (rules : list chain_rule) :=
         match rules with
         | [] => None
         | r :: t => match try_chain_rule fl r before cur after with
                     | Some x => Some x
                     | None => go t
                     end
         end) rules
  | _ => None
  end.

Fixpoint try_gsub_subs (fl : lflag) (subs : list subtable) (before : list glyph) (cur : glyph)
         (after : list glyph) : option (list glyph * list glyph) :=
  match subs with
  | [] => None
  | st :: t => match try_gsub_sub fl st before cur after with
               | Some x => Some x
               | None => try_gsub_subs fl t before cur after
               end
  end.
End Try.

(* nested application by lookup index, at most `fuel` levels deep *)
Fixpoint rec_at (fuel : nat) (lks : list lookup) (i : nat) (before at_ : list glyph)
  : option (list glyph * list glyph) :=
  match fuel with
  | O => None
  | S f =>
      match nth_error lks i, at_ with
      | Some lk, cur :: after => try_gsub_subs (rec_at f lks) (lk_flag lk) (lk_subs lk) before cur after
      | _, _ => None
      end
  end.

(* one pass of a substitution step function over the run *)
Fixpoint gsub_loop (fuel : nat) (fl : lflag)
         (try : list glyph -> glyph -> list glyph -> option (list glyph * list glyph))
         (before rest : list glyph) : list glyph :=
  match fuel with
  | O => rev before ++ rest
  | S f =>
      match rest with
      | [] => rev before
      | g :: tl =>
          if skip gd fl g then gsub_loop f fl try (g :: before) tl
          else match try before g tl with
               | Some (out, rest') => gsub_loop f fl try (rev out ++ before) rest'
               | None => gsub_loop f fl try (g :: before) tl
               end
      end
  end.

Definition apply_gsub_lookup (lks : list lookup) (lk : lookup) (s : list glyph) : list glyph :=
  gsub_loop (S (length s)) (lk_flag lk)
            (try_gsub_subs (rec_at (S (length lks)) lks) (lk_flag lk) (lk_subs lk)) [] s.

(* ---- GPOS -------------------------------------------------------------------------------- *)
(* next glyph that the flag does not skip: (skipped items, it, rest) *)
Fixpoint next_nonskip (fl : lflag) (l : list pitem) : option (list pitem * pitem * list pitem) :=
  match l with
  | [] => None
  | x :: t =>
      if skip gd fl (fst x) then
        match next_nonskip fl t with
        | Some (sk, y, r) => Some (x :: sk, y, r)
        | None => None
        end
      else Some ([], x, t)
  end.

Definition class_in (cd : list (glyph * N)) (g : glyph) : N :=
  match assoc g cd with Some c => c | None => 0%N end.

(* first row / column whose glyph set contains g *)
Fixpoint find_set {V : Type} (g : glyph) (rows : list (list glyph * V)) : option V :=
  match rows with
  | [] => None
  | (s, v) :: t => if mem g s then Some v else find_set g t
  end.

(* result of a positioning subtable at `cur`: value for cur, and for pairs the value of the second
   glyph and whether the second glyph is consumed *)
Definition try_gpos_sub (fl : lflag) (st : subtable) (cur : glyph) (after : list pitem)
  : option (value * option (value * bool)) :=
  match st with
  | STSinglePos m => match assoc cur m with Some v => Some (v, None) | None => None end
  | STPairGlyph second m =>
      match assoc cur m with
      | None => None
      | Some ps =>
          match next_nonskip fl after with
          | None => None
          | Some (_, (g2, _), _) =>
              match assoc g2 ps with
              | Some (v1, v2) => Some (v1, Some (v2, second))
              | None => None
              end
          end
      end
  | STPairClass second rows =>
      match find_set cur rows with
      | None => None
      | Some cols =>
          match next_nonskip fl after with
          | None => None
          | Some (_, (g2, _), _) =>
              match find_set g2 cols with
              | Some (v1, v2) => Some (v1, Some (v2, second))
              | None => Some (vzero, Some (vzero, second))
              end
          end
      end
  | STPairClassRaw second cov cd1 cd2 recs =>
      if mem cur cov then
        match next_nonskip fl after with
        | None => None
        | Some (_, (g2, _), _) =>
            match nth_error recs (N.to_nat (class_in cd1 cur)) with
            | None => None
            | Some row =>
                match nth_error row (N.to_nat (class_in cd2 g2)) with
                | Some (v1, v2) => Some (v1, Some (v2, second))
                | None => None
                end
            end
        end
      else None
  | _ => None
  end.

Fixpoint try_gpos_subs (fl : lflag) (subs : list subtable) (cur : glyph) (after : list pitem)
  : option (value * option (value * bool)) :=
  match subs with
  | [] => None
  | st :: t => match try_gpos_sub fl st cur after with
               | Some x => Some x
               | None => try_gpos_subs fl t cur after
               end
  end.

Fixpoint gpos_loop (fuel : nat) (fl : lflag)
         (try : glyph -> list pitem -> option (value * option (value * bool)))
         (before rest : list pitem) : list pitem :=
  match fuel with
  | O => rev before ++ rest
  | S f =>
      match rest with
      | [] => rev before
      | (g, v) :: tl =>
          if skip gd fl g then gpos_loop f fl try ((g, v) :: before) tl
          else match try g tl with
               | None => gpos_loop f fl try ((g, v) :: before) tl
               | Some (v1, None) => gpos_loop f fl try ((g, vadd v v1) :: before) tl
               | Some (v1, Some (v2, consume)) =>
                   match next_nonskip fl tl with
                   | None => gpos_loop f fl try ((g, vadd v v1) :: before) tl
                   | Some (sk, (g2, w2), aft) =>
                       let before' := rev sk ++ (g, vadd v v1) :: before in
                       if consume then gpos_loop f fl try ((g2, vadd w2 v2) :: before') aft
                       else gpos_loop f fl try before' ((g2, vadd w2 v2) :: aft)
                   end
               end
      end
  end.

Definition apply_gpos_lookup (lk : lookup) (s : list pitem) : list pitem :=
  gpos_loop (S (length s)) (lk_flag lk) (try_gpos_subs (lk_flag lk) (lk_subs lk)) [] s.

End Apply.

(* ---- which lookups, in which order ------------------------------------------------------ *)
Fixpoint assoc_ls {V : Type} (s l : tag) (m : list ((tag * tag) * V)) : option V :=
  match m with
  | [] => None
  | ((s', l'), v) :: t => if N.eqb s s' && N.eqb l l' then Some v else assoc_ls s l t
  end.

(* lookup indices of the enabled features of the language system, increasing, without repeats *)
Definition active_lookups (t : ottable) (sel : selection) : list nat :=
  match assoc_ls (s_script sel) (s_lang sel) (ot_langsys t) with
  | None => []
  | Some fidx =>
      sort_uniq (flat_map (fun i => match nth_error (ot_features t) i with
                                    | Some (tg, lks) => if mem tg (s_feats sel) then lks else []
                                    | None => []
                                    end) fidx)
  end.

Definition apply_gsub (gd : gdef) (t : ottable) (sel : selection) (s : list glyph) : list glyph :=
  fold_left (fun s i => match nth_error (ot_lookups t) i with
                        | Some lk => apply_gsub_lookup gd (s_alt sel) (ot_lookups t) lk s
                        | None => s
                        end) (active_lookups t sel) s.

Definition apply_gpos (gd : gdef) (t : ottable) (sel : selection) (s : list pitem) : list pitem :=
  fold_left (fun s i => match nth_error (ot_lookups t) i with
                        | Some lk => apply_gpos_lookup gd lk s
                        | None => s
                        end) (active_lookups t sel) s.

(* shaping: all substitutions, then all positioning; result = glyphs with their adjustments *)
Definition apply_ot (f : otfont) (sel : selection) (s : list glyph) : list pitem :=
  apply_gpos (f_gdef f) (f_gpos f) sel
             (map (fun g => (g, vzero)) (apply_gsub (f_gdef f) (f_gsub f) sel s)).
