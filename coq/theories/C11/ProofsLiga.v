(* C11 — ligature substitution: the compiled table (entries grouped by first glyph, exact
   duplicates dropped, stably sorted longest first, first match wins) answers like the source
   reading (the matching rule with the most components, the first such). *)
From Coq Require Import List NArith ZArith Bool Arith Lia.
From FV.C11 Require Import Model Wf ProofsBase ProofsGsub.
Import ListNotations.

Definition res := (list glyph * list glyph)%type.
Definition cand := option (nat * res).

(* an earlier candidate against the best of the later ones: longer wins, ties go to the earlier *)
Definition comb (c later : cand) : cand :=
  match c, later with
  | Some (n, r), Some (m, r') => if Nat.leb m n then Some (n, r) else Some (m, r')
  | Some x, None => Some x
  | None, o => o
  end.

Fixpoint pickC (l : list cand) : cand :=
  match l with [] => None | c :: t => comb c (pickC t) end.

Lemma pickC_app : forall a b, pickC (a ++ b) = fold_right comb (pickC b) a.
Proof. induction a; intros; simpl; [reflexivity | rewrite IHa; reflexivity]. Qed.

Ltac comb_cases :=
  repeat match goal with
         | c : cand |- _ => destruct c as [[? ?]|]
         end; simpl;
  repeat match goal with
         | |- context [Nat.leb ?a ?b] => destruct (Nat.leb_spec a b); simpl
         end; try reflexivity; try lia.

Lemma comb_absorb : forall c q A : cand, comb c (comb q (comb c A)) = comb c (comb q A).
Proof. intros c q A. comb_cases. Qed.

Lemma comb_idem : forall c A : cand, comb c (comb c A) = comb c A.
Proof. intros c A. comb_cases. Qed.

Lemma comb_same_len : forall n r1 r2 (A : cand), comb (Some (n, r1)) (comb (Some (n, r2)) A) = comb (Some (n, r1)) A.
Proof. intros n r1 r2 A. comb_cases. Qed.

(* a later copy of a candidate never wins *)
Lemma pickC_dup_aux : forall P c S, comb c (pickC (P ++ c :: S)) = comb c (pickC (P ++ S)).
Proof.
  induction P as [|q Q IH]; intros c S; simpl.
  - apply comb_idem.
  - rewrite <- (comb_absorb c q (pickC (Q ++ c :: S))), IH, comb_absorb. reflexivity.
Qed.

Lemma pickC_dup : forall P c S, In c P -> pickC (P ++ c :: S) = pickC (P ++ S).
Proof.
  induction P as [|p P IH]; intros c S HI; [contradiction|]. simpl.
  destruct HI as [E|HI].
  - subst p. apply pickC_dup_aux.
  - rewrite (IH c S HI). reflexivity.
Qed.

(* a block of candidates that are all None or all the same value *)
Lemma pickC_block : forall (c : nat * res) block L,
  (forall x, In x block -> x = None \/ x = Some c) ->
  pickC (block ++ L) = if existsb (fun x => match x with Some _ => true | None => false end) block
                       then comb (Some c) (pickC L) else pickC L.
Proof.
  intros c block L. induction block as [|x block IH]; intros H; [reflexivity|].
  change ((x :: block) ++ L) with (x :: (block ++ L)). cbn [pickC existsb].
  rewrite IH by (intros y Hy; apply H; right; exact Hy).
  destruct (H x (or_introl eq_refl)) as [E|E]; subst x.
  - reflexivity.
  - cbn [orb]. destruct (existsb _ block); [apply comb_idem | reflexivity].
Qed.

(* ---- the source fold is pickC -------------------------------------------------------------- *)
Definition stepL (best later : cand) : cand :=
  match best, later with
  | Some (m, r), Some (n, r') => if Nat.ltb m n then Some (n, r') else Some (m, r)
  | None, x => x
  | b, None => b
  end.

Lemma stepL_comb : forall best c P,
  stepL (match c, best with
         | Some (n, r), Some (m, r0) => if Nat.ltb m n then Some (n, r) else best
         | Some x, None => Some x
         | None, _ => best
         end) P = stepL best (comb c P).
Proof.
  intros best c P.
  destruct best as [[m r0]|]; destruct c as [[n r]|]; destruct P as [[k r2]|]; simpl;
    repeat match goal with
           | |- context [Nat.leb ?a ?b] => destruct (Nat.leb_spec a b); simpl
           | |- context [Nat.ltb ?a ?b] => destruct (Nat.ltb_spec a b); simpl
           end; try reflexivity; try lia.
Qed.

Section Liga.
Variable gd : gdef.
Variable fl : lflag.
Variable cur : glyph.
Variable after : list glyph.

Lemma pick_liga_pickC : forall rules best,
  pick_liga gd fl cur after rules best
  = option_map snd (stepL best (pickC (map (liga_cand gd fl cur after) rules))).
Proof.
  induction rules as [|r rules IH]; intros best; simpl.
  - destruct best as [[? ?]|]; reflexivity.
  - rewrite IH. f_equal.
    set (c := liga_cand gd fl cur after r).
    set (P := pickC (map (liga_cand gd fl cur after) rules)).
    rewrite <- (stepL_comb best c P).
    destruct c as [[n rr]|]; destruct best as [[m r0]|]; reflexivity.
Qed.

(* ---- the compiled side ------------------------------------------------------------------------ *)
(* candidate of one table entry (other components, ligature) *)
Definition candE (e : list glyph * glyph) : cand :=
  match match_seq gd fl (map (fun c => [c]) (fst e)) after with
  | Some (c, rest) => Some (S (length (fst e)), ([snd e], skipped_of c ++ rest))
  | None => None
  end.

Lemma try_liga_first : forall ligs, try_liga gd fl ligs after = option_map snd (first_some candE ligs).
Proof.
  induction ligs as [|[comps lig] ligs IH]; simpl; [reflexivity|].
  unfold candE at 1; simpl.
  destruct (match_seq gd fl (map (fun c => [c]) comps) after) as [[c rest]|]; simpl; [reflexivity | exact IH].
Qed.

Definition elen (e : list glyph * glyph) : nat := length (fst e).

Inductive sortedD : list (list glyph * glyph) -> Prop :=
| sd_nil : sortedD []
| sd_cons : forall x t, Forall (fun z => elen z <= elen x) t -> sortedD t -> sortedD (x :: t).

Lemma insert_Forall : forall (P : list glyph * glyph -> Prop) x l,
  P x -> Forall P l -> Forall P (lig_sort_insert x l).
Proof.
  intros P x l Px F. induction F as [|y t Py F IH]; simpl; [constructor; [exact Px | constructor]|].
  destruct (Nat.leb (length (fst y)) (length (fst x))).
  - constructor; [exact Px | constructor; assumption].
  - constructor; assumption.
Qed.

Lemma insert_sorted : forall x l, sortedD l -> sortedD (lig_sort_insert x l).
Proof.
  intros x l S. induction S as [|y t F S IH]; simpl.
  - constructor; constructor.
  - destruct (Nat.leb_spec (length (fst y)) (length (fst x))).
    + constructor; [|constructor; assumption].
      constructor; [exact H|]. eapply Forall_impl; [|exact F]. unfold elen. intros z Hz. simpl in *. lia.
    + constructor; [|exact IH]. apply insert_Forall; [unfold elen; lia | exact F].
Qed.

Lemma lig_sort_sorted : forall l, sortedD (lig_sort l).
Proof. induction l; simpl; [constructor | apply insert_sorted; assumption]. Qed.

Lemma first_some_candE_len : forall l m r, first_some candE l = Some (m, r) ->
  exists z, In z l /\ m = S (elen z).
Proof.
  induction l as [|y l IH]; intros m r H; simpl in H; [discriminate|].
  destruct (candE y) as [[n r0]|] eqn:E.
  - inversion H; subst. exists y. split; [left; reflexivity|].
    unfold candE in E. destruct (match_seq gd fl _ after) as [[c rest]|]; [|discriminate].
    inversion E. reflexivity.
  - destruct (IH _ _ H) as [z [Hz Hm]]. exists z. split; [right; exact Hz | exact Hm].
Qed.

Lemma candE_len : forall x n r, candE x = Some (n, r) -> n = S (elen x).
Proof.
  intros x n r E. unfold candE in E. destruct (match_seq gd fl _ after) as [[c rest]|]; [|discriminate].
  inversion E. reflexivity.
Qed.

Lemma first_some_insert : forall x S, sortedD S ->
  first_some candE (lig_sort_insert x S) = comb (candE x) (first_some candE S).
Proof.
  intros x S HS. induction HS as [|y t F HS IH]; simpl.
  - destruct (candE x) as [[? ?]|]; reflexivity.
  - destruct (Nat.leb_spec (length (fst y)) (length (fst x))) as [L|L]; simpl.
    + destruct (candE x) as [[n r]|] eqn:Ex; simpl; [|reflexivity].
      destruct (match candE y with Some y0 => Some y0 | None => first_some candE t end) as [[m r']|] eqn:Ey;
        [|reflexivity].
      assert (m <= n) as Hmn.
      { apply candE_len in Ex. subst n.
        destruct (first_some_candE_len (y :: t) m r' Ey) as [z [Hz Hm]]. subst m.
        destruct Hz as [Hz|Hz]; [subst z; unfold elen; lia|].
        rewrite Forall_forall in F. specialize (F z Hz). unfold elen in *. lia. }
      destruct (Nat.leb_spec m n); [reflexivity | lia].
    + destruct (candE y) as [[m r']|] eqn:Ey.
      * destruct (candE x) as [[n r]|] eqn:Ex; simpl; [|reflexivity].
        apply candE_len in Ex. apply candE_len in Ey. subst. unfold elen in *.
        destruct (Nat.leb_spec (S (length (fst y))) (S (length (fst x)))); [lia | reflexivity].
      * exact IH.
Qed.

Lemma first_some_sorted : forall L, first_some candE (lig_sort L) = pickC (map candE L).
Proof.
  induction L as [|x L IH]; simpl; [reflexivity|].
  rewrite first_some_insert by apply lig_sort_sorted. rewrite IH. reflexivity.
Qed.

(* ---- rows of the builder table ------------------------------------------------------------------- *)
Definition row (T : list (glyph * list (list glyph * glyph))) : list (list glyph * glyph) :=
  match assoc cur T with Some l => l | None => [] end.

Definition proj (e : list glyph * glyph) : list (list glyph * glyph) :=
  match fst e with
  | f :: rest => if N.eqb cur f then [(rest, snd e)] else []
  | [] => []
  end.

Definition add_nodup (r : list (list glyph * glyph)) (x : list glyph * glyph) :=
  if existsb (fun y => glyphs_eqb (fst y) (fst x) && N.eqb (snd y) (snd x)) r then r else r ++ [x].

Lemma lig_insert_row : forall T e, row (lig_insert T e) = fold_left add_nodup (proj e) (row T).
Proof.
  intros T [s lig]. unfold lig_insert, proj, row. simpl.
  destruct s as [|f rest]; [reflexivity|].
  destruct (assoc f T) as [l|] eqn:A.
  - destruct (existsb (fun x => glyphs_eqb (fst x) rest && N.eqb (snd x) lig) l) eqn:D.
    + destruct (N.eqb_spec cur f) as [E|E]; simpl; [|reflexivity].
      subst f. rewrite A. unfold add_nodup. simpl. rewrite D. reflexivity.
    + destruct (N.eqb_spec cur f) as [E|E]; simpl.
      * subst f. rewrite assoc_upd_same, A. unfold add_nodup. simpl. rewrite D. reflexivity.
      * rewrite assoc_upd_other by exact E. reflexivity.
  - rewrite assoc_app. destruct (N.eqb_spec cur f) as [E|E]; simpl.
    + subst f. rewrite A. simpl. rewrite N.eqb_refl. reflexivity.
    + destruct (assoc cur T); [reflexivity|]. simpl.
      destruct (N.eqb_spec cur f); [contradiction | reflexivity].
Qed.

Lemma fold_lig_insert_row : forall E T,
  row (fold_left lig_insert E T) = fold_left add_nodup (flat_map proj E) (row T).
Proof.
  induction E as [|e E IH]; intros T; simpl; [reflexivity|].
  rewrite IH, lig_insert_row, fold_left_app. reflexivity.
Qed.

Lemma existsb_dup_In : forall (r : list (list glyph * glyph)) x,
  existsb (fun y => glyphs_eqb (fst y) (fst x) && N.eqb (snd y) (snd x)) r = true -> In x r.
Proof.
  intros r [s l] H. apply existsb_exists in H as [[s' l'] [HI E]]. simpl in E.
  apply andb_true_iff in E as [E1 E2]. apply glyphs_eqb_eq in E1. apply N.eqb_eq in E2. subst. exact HI.
Qed.

Lemma pickC_add_nodup : forall X R,
  pickC (map candE (fold_left add_nodup X R)) = pickC (map candE (R ++ X)).
Proof.
  induction X as [|x X IH]; intros R; simpl; [rewrite app_nil_r; reflexivity|].
  rewrite IH. unfold add_nodup.
  destruct (existsb (fun y => glyphs_eqb (fst y) (fst x) && N.eqb (snd y) (snd x)) R) eqn:D.
  - apply existsb_dup_In in D. rewrite !map_app. simpl.
    symmetry. apply pickC_dup. apply in_map. exact D.
  - rewrite <- app_assoc. reflexivity.
Qed.

End Liga.
