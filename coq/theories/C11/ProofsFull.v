(* C11 — towards C11_full for the compiler in /repo: contextual lookups with inline single and
   inline multiple substitutions (inline ligatures excluded).  Layout of the compiled lookup list
   (anonymous lookups follow their parent), nested application at every depth, the theorem. *)
From Coq Require Import List NArith ZArith Bool Arith Lia.
From FV.C11 Require Import Model Wf ProofsBase ProofsGsub ProofsLiga ProofsLiga2 ProofsPair ProofsMain ProofsChain ProofsInline.
Import ListNotations.

(* ---- indexing into a concatenation ---------------------------------------------------------------------- *)
Definition offs {A} (bl : list (list A)) (k : nat) : nat := length (concat (firstn k bl)).

Lemma nth_error_concat {A} : forall (bl : list (list A)) k i b,
  nth_error bl k = Some b -> i < length b -> nth_error (concat bl) (offs bl k + i) = nth_error b i.
Proof.
  unfold offs. induction bl as [|b0 bl IH]; intros k i b Hk Hi; destruct k; simpl in *; try discriminate.
  - inversion Hk; subst. rewrite nth_error_app1 by exact Hi. reflexivity.
  - rewrite app_length, <- Nat.add_assoc, nth_error_app2 by lia.
    replace (length b0 + (length (concat (firstn k bl)) + i) - length b0) with (length (concat (firstn k bl)) + i) by lia.
    apply IH; assumption.
Qed.

Lemma offs_all {A} : forall (bl : list (list A)) k, length bl <= k -> offs bl k = length (concat bl).
Proof. intros bl k H. unfold offs. rewrite firstn_all2 by exact H. reflexivity. Qed.

Lemma offs_S {A} : forall (bl : list (list A)) k b, nth_error bl k = Some b -> offs bl (S k) = offs bl k + length b.
Proof.
  unfold offs. induction bl as [|b0 bl IH]; intros k b H; destruct k; simpl in *; try discriminate.
  - inversion H; subst. rewrite app_nil_r. lia.
  - rewrite !app_length. rewrite (IH k b H). lia.
Qed.

Lemma nth_error_map_combine_seq {A B} (G : nat * A -> B) : forall (l : list A) s k,
  nth_error (map G (combine (seq s (length l)) l)) k = option_map (fun x => G (s + k, x)) (nth_error l k).
Proof.
  induction l as [|x l IH]; intros s k; destruct k; simpl; try reflexivity.
  - rewrite Nat.add_0_r. reflexivity.
  - rewrite IH. destruct (nth_error l k); simpl; [|reflexivity]. f_equal. f_equal. f_equal. lia.
Qed.

Section Flags.
Variable ilig : bool.
Notation add_inline := (add_inline_g true true ilig).
Notation compile_chain := (compile_chain_g true true ilig).
Notation anon_count := (anon_count_g true true ilig).
Notation ot_index := (ot_index_g true true ilig).
Notation compile_gsub_lookup := (compile_gsub_lookup_g true true ilig).
Notation compile_mini := (compile_mini_g true true ilig).

(* ---- one step of compile_chain ---------------------------------------------------------------------------- *)
Definition cstep (root : nat) (idx : nat -> nat) (st : list chain_rule * list anon) (r : xrule) :=
  let '(crs, anons) := st in
  match r with
  | XChain back input look xi =>
      let '(anons', inl_rec) :=
        match xi with
        | None => (anons, [])
        | Some x => let '(an, i) := add_inline anons x in
                    (an, match i with Some k => [(O, root + 1 + k)] | None => [] end)
        end in
      (crs ++ [mkCR back (map fst input) look (inl_rec ++ named_recs idx input)], anons')
  | _ => (crs, anons)
  end.

Lemma compile_chain_cstep : forall root idx rules,
  compile_chain root idx rules = fold_left (cstep root idx) rules ([], []).
Proof.
  intros. unfold compile_chain_g. apply fold_left_ext. intros [crs anons] r. reflexivity.
Qed.

(* the anonymous lookups do not depend on where the lookup sits *)
Lemma cstep_anons_indep : forall r1 i1 r2 i2 rules c1 c2 an,
  snd (fold_left (cstep r1 i1) rules (c1, an)) = snd (fold_left (cstep r2 i2) rules (c2, an)).
Proof.
  intros r1 i1 r2 i2. induction rules as [|r rules IH]; intros c1 c2 an; [reflexivity|].
  cbn [fold_left]. destruct r; cbn [cstep]; try apply IH.
  destruct inl as [x|].
  - destruct (add_inline an x) as [an' o]. apply IH.
  - apply IH.
Qed.

Lemma anon_count_any : forall root idx sl, sl_kind sl = KChain ->
  anon_count sl = length (snd (compile_chain root idx (sl_rules sl))).
Proof.
  intros root idx sl K. unfold anon_count_g. rewrite K, !compile_chain_cstep.
  rewrite (cstep_anons_indep O (fun k => k) root idx (sl_rules sl) [] [] []). reflexivity.
Qed.

Lemma block_length : forall all k sl, length (compile_gsub_lookup all k sl) = S (anon_count sl).
Proof.
  intros all k sl. unfold compile_gsub_lookup_g. destruct (sl_kind sl) eqn:K;
    try (unfold anon_count_g; rewrite K; reflexivity).
  rewrite (anon_count_any (ot_index all k) (ot_index all) sl K).
  destruct (compile_chain (ot_index all k) (ot_index all) (sl_rules sl)) as [crs anons]. simpl.
  rewrite map_length. reflexivity.
Qed.

(* ---- the compiled lookup list as blocks ------------------------------------------------------------------- *)
Definition blocks (all : list slookup) : list (list lookup) :=
  map (fun p => compile_gsub_lookup all (fst p) (snd p)) (combine (seq 0 (length all)) all).

Lemma lookups_blocks : forall all,
  flat_map (fun '(k, sl) => compile_gsub_lookup all k sl) (combine (seq 0 (length all)) all) = concat (blocks all).
Proof.
  intros all. unfold blocks. rewrite flat_map_concat_map. f_equal. apply map_ext. intros [k sl]. reflexivity.
Qed.

Lemma blocks_nth : forall all k,
  nth_error (blocks all) k = option_map (fun sl => compile_gsub_lookup all k sl) (nth_error all k).
Proof.
  intros all k. unfold blocks. rewrite (nth_error_map_combine_seq (fun p => compile_gsub_lookup all (fst p) (snd p))).
  destruct (nth_error all k); reflexivity.
Qed.

Lemma ot_index_offs_gen : forall (G : nat * slookup -> list lookup),
  (forall p, length (G p) = S (anon_count (snd p))) ->
  forall l s k, k <= length l ->
  ot_index l k = offs (map G (combine (seq s (length l)) l)) k.
Proof.
  intros G HG. induction l as [|sl l IH]; intros s k Hk; destruct k; simpl in *; try reflexivity; try lia.
  unfold offs. simpl. rewrite app_length, HG. simpl. f_equal. f_equal.
  rewrite (IH (S s) k) by lia. reflexivity.
Qed.

Lemma ot_index_offs : forall all k, k <= length all -> ot_index all k = offs (blocks all) k.
Proof.
  intros all k H. unfold blocks. apply ot_index_offs_gen; [|exact H]. intros [j sl]. apply block_length.
Qed.

Lemma ot_index_beyond : forall l k, length l <= k ->
  ot_index l k = ot_index l (length l) + (k - length l).
Proof.
  induction l as [|sl l IH]; intros k H; destruct k; simpl in *; try lia.
  rewrite (IH k) by lia. lia.
Qed.

Lemma ot_index_mono : forall l k, ot_index l k < ot_index l (S k).
Proof.
  induction l as [|sl l IH]; intros k; destruct k; simpl; try lia.
  specialize (IH k). simpl in IH. lia.
Qed.

Lemma ot_index_mono_lt : forall l a b, a < b -> ot_index l a < ot_index l b.
Proof.
  intros l a b H. induction H; [apply ot_index_mono|]. pose proof (ot_index_mono l m). lia.
Qed.


(* ---- compile_chain rule by rule ------------------------------------------------------------------------------ *)
(* what the record list of a compiled rule starts with, given the FINAL anonymous lookups *)
Definition inl_sound (an : list anon) (root : nat) (xi : option xinline) (inl : list (nat * nat)) : Prop :=
  match xi with
  | None => inl = []
  | Some (XISingle tgt repl _) =>
      exists i m, inl = [(O, root + 1 + i)] /\ nth_error an i = Some (AnSingle m)
                  /\ forall g v, assoc g (combine tgt repl) = Some v -> assoc g m = Some v
  | Some (XIMulti tgt seqs) =>
      (combine tgt seqs = [] /\ inl = [])
      \/ exists i m, inl = [(O, root + 1 + i)] /\ nth_error an i = Some (AnMulti m)
                     /\ forall g v, assoc g (combine tgt seqs) = Some v -> assoc g m = Some v
  | Some (XILiga _ _) => False
  end.

Lemma inl_sound_mono : forall an an' root xi inl,
  singles_ext an an' -> multis_ext an an' -> inl_sound an root xi inl -> inl_sound an' root xi inl.
Proof.
  intros an an' root xi inl S M H. destruct xi as [[tgt repl n|tgt seqs|comps lig]|]; simpl in *; try exact H.
  - destruct H as [i [m [E [N0 Hm]]]]. destruct (S i m N0) as [m' [N' X]].
    exists i, m'. split; [exact E|]. split; [exact N'|]. intros g v Hg. apply X. apply Hm. exact Hg.
  - destruct H as [H|[i [m [E [N0 Hm]]]]]; [left; exact H|]. right. destruct (M i m N0) as [m' [N' X]].
    exists i, m'. split; [exact E|]. split; [exact N'|]. intros g v Hg. apply X. apply Hm. exact Hg.
Qed.

Inductive crel (an : list anon) (root : nat) (idx : nat -> nat) : list xrule -> list chain_rule -> Prop :=
| crel_nil : crel an root idx [] []
| crel_skip : forall r rules crs, (forall b i l x, r <> XChain b i l x) ->
    crel an root idx rules crs -> crel an root idx (r :: rules) crs
| crel_chain : forall back input look xi inl rules crs, inl_sound an root xi inl ->
    crel an root idx rules crs ->
    crel an root idx (XChain back input look xi :: rules)
         (mkCR back (map fst input) look (inl ++ named_recs idx input) :: crs).

Lemma crel_mono : forall an an' root idx rules crs,
  singles_ext an an' -> multis_ext an an' -> crel an root idx rules crs -> crel an' root idx rules crs.
Proof.
  intros an an' root idx rules crs S M H. induction H.
  - constructor.
  - apply crel_skip; assumption.
  - apply crel_chain; [eapply inl_sound_mono; eassumption | assumption].
Qed.

(* an inline rule is acceptable: not a ligature, and it does not give one glyph two results *)
Definition rule_ok (r : xrule) : bool := inline_ok r && negb (has_inline_liga r).

Lemma add_inline_sm : forall an x an' o root,
  add_inline an x = (an', o) -> rule_ok (XChain [] [] [] (Some x)) = true ->
  singles_ext an an' /\ multis_ext an an'
  /\ inl_sound an' root (Some x) (match o with Some k => [(O, root + 1 + k)] | None => [] end).
Proof.
  intros an x an' o root H W. unfold rule_ok in W. apply andb_true_iff in W as [W1 W2].
  destruct x as [tgt repl n|tgt seqs|comps lig]; [| |discriminate].
  - simpl in W1. assert (exists i, o = Some i) as [i Eo].
    { simpl in H. destruct (find_or_create _ (AnSingle []) an) as [a k]. inversion H. eauto. }
    subst o. destruct (inline_single_add_sound true ilig _ _ _ _ _ _ H W1) as [A [B [m [Nm Hm]]]].
    split; [exact A|]. split; [exact B|]. simpl. exists i, m. auto.
  - simpl in W1. destruct o as [i|].
    + destruct (inline_multiple_add_sound ilig true _ _ _ _ _ H W1) as [A [B [m [Nm Hm]]]].
      split; [exact A|]. split; [exact B|]. simpl. right. exists i, m. auto.
    + simpl in H. destruct (find_or_create _ (AnMulti []) an) as [a k] eqn:F.
      destruct (combine tgt seqs) as [|p ps] eqn:Eps; [|discriminate].
      apply find_or_create_spec in F.
      assert (ins_pairs tgt seqs = fun m : list (glyph * list glyph) => m) as Eid
          by (unfold ins_pairs; rewrite Eps; reflexivity).
      assert (singles_ext an an' /\ multis_ext an an') as [A B].
      { destruct F as [[Ean [x [Nx Cx]]]|[Ean Ek]]; subst a.
        - destruct x as [|m|]; try discriminate. rewrite Nx, Eid in H. inversion H; subst an'.
          split; intros j m0 Hj.
          + destruct (Nat.eq_dec k j) as [->|NE]; [rewrite Nx in Hj; discriminate|].
            exists m0. split; [rewrite nth_error_set_nth_other by exact NE; exact Hj | apply ext_refl].
          + destruct (Nat.eq_dec k j) as [->|NE].
            * rewrite Nx in Hj. inversion Hj; subst m0. exists m.
              split; [eapply nth_error_set_nth_same; exact Nx | apply ext_refl].
            * exists m0. split; [rewrite nth_error_set_nth_other by exact NE; exact Hj | apply ext_refl].
        - subst k. rewrite nth_error_app2 in H by lia. rewrite Nat.sub_diag in H. simpl in H.
          inversion H; subst an'.
          split; intros j m0 Hj; exists m0; (split; [|apply ext_refl]);
            (rewrite nth_error_set_nth_other;
             [apply nth_error_app_l; exact Hj
             | assert (j < length an) by (apply nth_error_Some; congruence); lia]). }
      split; [exact A|]. split; [exact B|]. simpl. left. split; [exact Eps | reflexivity].
Qed.

Lemma cstep_fold_crel : forall root idx rules crs0 an0 crs an,
  forallb rule_ok rules = true ->
  fold_left (cstep root idx) rules (crs0, an0) = (crs, an) ->
  exists crs', crs = crs0 ++ crs' /\ crel an root idx rules crs'
               /\ singles_ext an0 an /\ multis_ext an0 an.
Proof.
  intros root idx. induction rules as [|r rules IH]; intros crs0 an0 crs an W H; cbn [fold_left forallb] in *.
  - inversion H; subst. exists []. rewrite app_nil_r. split; [reflexivity|]. split; [constructor|].
    split; [apply singles_ext_refl | apply multis_ext_refl].
  - apply andb_true_iff in W as [W1 W2].
    destruct r as [t0 r0|t0 s0|t0 a0|c0 l0|back input look xi|t0 v0|c1 c2 v0|c1 c2 v0];
      try (cbn [cstep] in H; destruct (IH _ _ _ _ W2 H) as [crs' [E [C [S M]]]];
           exists crs'; split; [exact E|]; split; [apply crel_skip; [intros; discriminate | exact C]|]; split; assumption).
    cbn [cstep] in H. destruct xi as [x|].
    + destruct (add_inline an0 x) as [an1 o] eqn:A.
      destruct (add_inline_sm _ _ _ _ root A) as [S1 [M1 I1]]; [destruct x; exact W1|].
      destruct (IH _ _ _ _ W2 H) as [crs' [E [C [S M]]]].
      exists (mkCR back (map fst input) look
                   (match o with Some k => [(O, root + 1 + k)] | None => [] end ++ named_recs idx input) :: crs').
      split; [rewrite E, <- app_assoc; reflexivity|].
      split; [apply crel_chain; [eapply inl_sound_mono; eassumption | exact C]|].
      split; [eapply singles_ext_trans; eassumption | eapply multis_ext_trans; eassumption].
    + destruct (IH _ _ _ _ W2 H) as [crs' [E [C [S M]]]].
      exists (mkCR back (map fst input) look ([] ++ named_recs idx input) :: crs').
      split; [rewrite E, <- app_assoc; reflexivity|].
      split; [apply crel_chain; [reflexivity | exact C]|]. split; assumption.
Qed.

Lemma compile_chain_crel : forall root idx rules crs an,
  forallb rule_ok rules = true -> compile_chain root idx rules = (crs, an) -> crel an root idx rules crs.
Proof.
  intros root idx rules crs an W H. rewrite compile_chain_cstep in H.
  destruct (cstep_fold_crel root idx rules [] [] crs an W H) as [crs' [E [C _]]]. simpl in E. subst. exact C.
Qed.

End Flags.

(* ---- one compiled contextual rule against its source rule ------------------------------------------------------ *)
Definition rule_shape (r : xrule) : bool :=
  match r with
  | XChain _ ((p0, _) :: _) _ (Some (XISingle tgt repl _)) => glyphs_eqb p0 tgt && Nat.eqb (length tgt) (length repl)
  | XChain _ ((p0, _) :: _) _ (Some (XIMulti tgt seqs)) => glyphs_eqb p0 tgt && Nat.eqb (length tgt) (length seqs)
  | _ => true
  end.

Lemma named_recs_map : forall idx input,
  named_recs idx input = map (fun '(i, k) => (i, idx k)) (named_recs (fun k => k) input).
Proof.
  intros idx input. unfold named_recs.
  induction (combine (seq 0 (length input)) (map snd input)) as [|[i ids] l IH]; [reflexivity|].
  simpl. rewrite map_app, IH. f_equal. rewrite map_map. reflexivity.
Qed.

Lemma chain_records_split : forall input xi,
  chain_records input xi
  = match xi with Some x => [(O, AInline x)] | None => [] end
    ++ map (fun '(i, k) => (i, ANamed k)) (named_recs (fun k => k) input).
Proof.
  intros input xi. rewrite <- chain_records_named. unfold chain_records. destruct xi; reflexivity.
Qed.

Lemma assoc_combine_some {V} : forall g (t : list N) (r : list V),
  length t = length r -> mem g t = true -> exists v, assoc g (combine t r) = Some v.
Proof.
  induction t as [|x t IH]; intros r L M; [discriminate|].
  destruct r as [|y r]; [discriminate|]. simpl in *.
  destruct (N.eqb g x); [eauto|]. apply IH; [lia | exact M].
Qed.

Section RuleTry.
Variable gd : gdef.
Variable alt : nat.
Variable rec recn : nat -> list glyph -> list glyph -> option (list glyph * list glyph).
Variable an : list anon.
Variable root : nat.
Variable idx : nat -> nat.

(* what applying an anonymous single / multiple lookup means *)
Definition anon_sem : Prop :=
  (forall i m, nth_error an i = Some (AnSingle m) -> forall b cur after,
     rec (root + 1 + i) b (cur :: after) = match assoc cur m with Some g => Some ([g], after) | None => None end)
  /\ (forall i m, nth_error an i = Some (AnMulti m) -> forall b cur after,
     rec (root + 1 + i) b (cur :: after) = match assoc cur m with Some s => Some (s, after) | None => None end).

Lemma steps_named : forall fl before (Nm : list (nat * nat)),
  (forall i k, In (i, k) Nm -> forall b c, rec (idx k) b c = recn k b c) ->
  forall st,
  fold_left (rec_step nat rec before) (map (fun '(i, k) => (i, idx k)) Nm) st
  = fold_left (rec_step saction (act gd recn fl) before) (map (fun '(i, k) => (i, ANamed k)) Nm) st.
Proof.
  intros fl before. induction Nm as [|[i k] Nm IH]; intros H st; [reflexivity|]. simpl.
  rewrite <- IH by (intros i0 k0 Hin; apply (H i0 k0); right; exact Hin). f_equal.
  unfold rec_step. destruct st as [[B mp] e]. destruct (nth_error mp i); [|reflexivity].
  destruct (Nat.leb (length B) n); [reflexivity|]. simpl act. rewrite (H i k (or_introl eq_refl)). reflexivity.
Qed.

Lemma first_step_inline : forall fl before cur T mp e a1 x,
  rec a1 before (cur :: T) = inline_try gd fl x (cur :: T) ->
  rec_step nat rec before (cur :: T, O :: mp, e) (O, a1)
  = rec_step saction (act gd recn fl) before (cur :: T, O :: mp, e) (O, AInline x).
Proof.
  intros fl before cur T mp e a1 x H. unfold rec_step. simpl nth_error. cbn [length Nat.leb firstn rev app skipn].
  simpl act. rewrite H. reflexivity.
Qed.

Theorem try_compiled_rule : forall fl back input look xi inl before cur after,
  inl_sound an root xi inl -> rule_shape (XChain back input look xi) = true ->
  anon_sem ->
  (forall i k, In (i, k) (named_recs (fun k => k) input) -> forall b c, rec (idx k) b c = recn k b c) ->
  try_chain_rule gd rec fl (mkCR back (map fst input) look (inl ++ named_recs idx input)) before cur after
  = chain_try gd recn fl before cur after (XChain back input look xi).
Proof.
  intros fl back input look xi inl before cur after IS SH [AS AM] HN.
  unfold try_chain_rule, chain_try. simpl.
  destruct input as [|[p0 ids0] ps]; [reflexivity|]. cbn [map fst].
  destruct (mem cur p0) eqn:M0; [|reflexivity].
  destruct (match_seq gd fl (map fst ps) after) as [[c rest]|]; [|reflexivity].
  destruct (match_ctx gd fl back before && match_ctx gd fl look rest); [|reflexivity].
  f_equal. unfold apply_records. rewrite chain_records_split, (named_recs_map idx).
  set (Nm := named_recs (fun k => k) ((p0, ids0) :: ps)) in *.
  set (T := map fst c ++ rest).
  change ((cur :: map fst c) ++ rest) with (cur :: T).
  assert (forall st, fold_left (rec_step nat rec before) (map (fun '(i, k) => (i, idx k)) Nm) st
                     = fold_left (rec_step saction (act gd recn fl) before) (map (fun '(i, k) => (i, ANamed k)) Nm) st) as SN
      by (apply steps_named; exact HN).
  destruct xi as [[tgt repl n|tgt seqs|comps lig]|]; simpl in IS.
  - (* inline single *)
    destruct IS as [i [m [Ei [Ni Hm]]]]. subst inl. simpl in SH. apply andb_true_iff in SH as [SH1 SH2].
    apply glyphs_eqb_eq in SH1. apply Nat.eqb_eq in SH2. subst p0.
    cbn [app fold_left]. rewrite (first_step_inline fl before cur T (matched_pos 1 c) (length (cur :: map fst c))
                                  (root + 1 + i) (XISingle tgt repl n)).
    + rewrite SN. reflexivity.
    + rewrite (AS i m Ni).
      destruct (assoc_combine_some cur tgt repl SH2 M0) as [v Hv]. rewrite (Hm cur v Hv).
      rewrite assoc_combine in Hv. simpl. rewrite Hv. reflexivity.
  - (* inline multiple *)
    simpl in SH. apply andb_true_iff in SH as [SH1 SH2].
    apply glyphs_eqb_eq in SH1. apply Nat.eqb_eq in SH2. subst p0.
    destruct (assoc_combine_some cur tgt seqs SH2 M0) as [v Hv].
    destruct IS as [[E0 _]|[i [m [Ei [Ni Hm]]]]].
    { exfalso. assert (assoc cur (@nil (glyph * list glyph)) = Some v) as X by (rewrite <- E0; exact Hv). discriminate X. }
    subst inl.
    cbn [app fold_left]. rewrite (first_step_inline fl before cur T (matched_pos 1 c) (length (cur :: map fst c))
                                  (root + 1 + i) (XIMulti tgt seqs)).
    + rewrite SN. reflexivity.
    + rewrite (AM i m Ni). rewrite (Hm cur v Hv).
      rewrite assoc_combine in Hv. simpl. rewrite Hv. reflexivity.
  - contradiction.
  - subst inl. cbn [app]. rewrite SN. reflexivity.
Qed.

(* the whole contextual lookup *)
Theorem try_compiled_chain : forall fl rules crs before cur after,
  crel an root idx rules crs -> forallb rule_shape rules = true -> anon_sem ->
  (forall back input look xi i k, In (XChain back input look xi) rules ->
     In (i, k) (named_recs (fun k => k) input) -> forall b c, rec (idx k) b c = recn k b c) ->
  try_gsub_subs gd alt rec fl (map (fun r => STChain [r]) crs) before cur after
  = first_some (chain_try gd recn fl before cur after) rules.
Proof.
  intros fl rules crs before cur after C. induction C as [|r rules crs NC C IH|back input look xi inl rules crs IS C IH];
    intros SH AS HN.
  - reflexivity.
  - simpl in SH. apply andb_true_iff in SH as [_ SH]. simpl.
    assert (chain_try gd recn fl before cur after r = None) as E.
    { destruct r; try reflexivity. exfalso. eapply NC. reflexivity. }
    rewrite E. apply IH; [exact SH | exact AS|].
    intros b0 i0 l0 x0 i1 k1 Hr Hin. eapply (HN b0 i0 l0 x0 i1 k1); [right; exact Hr | exact Hin].
  - simpl in SH. apply andb_true_iff in SH as [SH1 SH].
    cbn [map try_gsub_subs try_gsub_sub first_some].
    rewrite (try_compiled_rule fl back input look xi inl before cur after IS SH1 AS).
    + destruct (chain_try gd recn fl before cur after (XChain back input look xi)); [reflexivity|].
      apply IH; [exact SH | exact AS|].
      intros b0 i0 l0 x0 i1 k1 Hr Hin. eapply (HN b0 i0 l0 x0 i1 k1); [right; exact Hr | exact Hin].
    + intros i k Hin. eapply (HN back input look xi i k); [left; reflexivity | exact Hin].
Qed.

End RuleTry.

(* ---- the whole program ------------------------------------------------------------------------------------------- *)
Definition refs_ok (k : nat) (r : xrule) : bool :=
  match r with
  | XChain _ input _ _ => forallb (fun ids => forallb (fun k' => Nat.ltb k' k) ids) (map snd input)
  | _ => true
  end.

Definition lookup_full_ok (p : nat * slookup) : bool :=
  forallb (fun r => rule_ok r && rule_shape r && refs_ok (fst p) r) (sl_rules (snd p)).

(* inline rules are single or multiple substitutions on the first input's class and do not give one glyph
   two results; contextual rules name earlier lookups only (all true of what `elab` produces) *)
Definition full_ok (e : eprog) : bool :=
  forallb lookup_full_ok (combine (seq 0 (length (e_gsub e))) (e_gsub e)).

(* rules of one lookup do not contradict each other; nothing is asked of a contextual lookup here (its
   inline rules are covered by full_ok: after the repairs, two contextual rules may map one glyph
   differently) *)
Definition wf_simple (sl : slookup) : bool := kind_eqb (sl_kind sl) KChain || wf_lookup sl.
Definition wf_eprog_full (e : eprog) : bool := forallb wf_simple (e_gsub e) && forallb wf_lookup (e_gpos e).

Lemma wf_eprog_full_of_wf : forall e, wf_eprog e = true -> wf_eprog_full e = true.
Proof.
  intros e H. unfold wf_eprog in H. apply andb_true_iff in H as [H1 H2]. unfold wf_eprog_full.
  apply andb_true_iff. split; [|exact H2]. rewrite forallb_forall in *. intros sl Hs.
  unfold wf_simple. rewrite (H1 sl Hs). apply orb_true_r.
Qed.

Section Program.
Variable ilig : bool.
Notation compile_chain := (compile_chain_g true true ilig).
Notation ot_index := (ot_index_g true true ilig).
Notation compile_gsub_lookup := (compile_gsub_lookup_g true true ilig).
Notation compile_mini := (compile_mini_g true true ilig).

Variable gd : gdef.
Variable alt : nat.
Variable all : list slookup.

Definition chain_of (k : nat) (sl : slookup) := compile_chain (ot_index all k) (ot_index all) (sl_rules sl).
Definition head_of (k : nat) (sl : slookup) : lookup :=
  match sl_kind sl with
  | KChain => mkLookup (sl_flag sl) (map (fun r => STChain [r]) (fst (chain_of k sl)))
  | _ => simple_gsub sl
  end.
Definition anons_of (k : nat) (sl : slookup) : list anon :=
  match sl_kind sl with KChain => snd (chain_of k sl) | _ => [] end.

Lemma block_eq : forall k sl,
  compile_gsub_lookup all k sl = head_of k sl :: map (anon_lookup (sl_flag sl)) (anons_of k sl).
Proof.
  intros k sl. unfold compile_gsub_lookup_g, head_of, anons_of, chain_of, simple_gsub.
  destruct (sl_kind sl); try reflexivity.
  destruct (compile_chain (ot_index all k) (ot_index all) (sl_rules sl)) as [crs anons]. reflexivity.
Qed.

Definition LL : list lookup := concat (blocks ilig all).

Lemma nth_head : forall k sl, nth_error all k = Some sl -> nth_error LL (ot_index all k) = Some (head_of k sl).
Proof.
  intros k sl H. unfold LL.
  assert (k < length all) as Lk by (apply nth_error_Some; congruence).
  rewrite (ot_index_offs ilig all k) by lia. rewrite <- (Nat.add_0_r (offs (blocks ilig all) k)).
  rewrite (nth_error_concat (blocks ilig all) k 0 (compile_gsub_lookup all k sl)).
  - rewrite block_eq. reflexivity.
  - rewrite blocks_nth, H. reflexivity.
  - rewrite block_eq. simpl. lia.
Qed.

Lemma nth_anon : forall k sl i a, nth_error all k = Some sl -> nth_error (anons_of k sl) i = Some a ->
  nth_error LL (ot_index all k + 1 + i) = Some (anon_lookup (sl_flag sl) a).
Proof.
  intros k sl i a H Ha. unfold LL.
  assert (k < length all) as Lk by (apply nth_error_Some; congruence).
  assert (i < length (anons_of k sl)) as Li by (apply nth_error_Some; congruence).
  rewrite (ot_index_offs ilig all k) by lia. rewrite <- Nat.add_assoc.
  rewrite (nth_error_concat (blocks ilig all) k (1 + i) (compile_gsub_lookup all k sl)).
  - rewrite block_eq. simpl. rewrite nth_error_map, Ha. reflexivity.
  - rewrite blocks_nth, H. reflexivity.
  - rewrite block_eq. simpl. rewrite map_length. lia.
Qed.

Lemma ot_index_ge : forall l k, k <= ot_index l k.
Proof.
  intros l k. induction k; [lia|]. pose proof (ot_index_mono ilig l k). lia.
Qed.

Lemma LL_length : length LL = ot_index all (length all).
Proof.
  unfold LL. rewrite (ot_index_offs ilig all (length all)) by lia.
  rewrite offs_all; [reflexivity|]. unfold blocks. rewrite map_length, combine_length, seq_length. lia.
Qed.

Lemma nth_beyond : forall k, length all <= k -> nth_error LL (ot_index all k) = None.
Proof.
  intros k H. apply nth_error_None. rewrite LL_length, (ot_index_beyond ilig all k H). lia.
Qed.

Lemma head_flag : forall k sl, lk_flag (head_of k sl) = sl_flag sl.
Proof. intros k sl. unfold head_of, simple_gsub. destruct (sl_kind sl); reflexivity. Qed.

(* the anonymous lookups do what their tables say, at any positive depth *)
Lemma anon_sem_rec_at : forall k sl f, nth_error all k = Some sl ->
  anon_sem (rec_at gd alt (S f) LL) (anons_of k sl) (ot_index all k).
Proof.
  intros k sl f H. split; intros i m Hi b cur after; simpl;
    rewrite (nth_anon k sl i _ H Hi); simpl; destruct (assoc cur m); reflexivity.
Qed.

(* one source lookup against the head of its block, given what nested calls do *)
Lemma try_head : forall k sl rec recn,
  nth_error all k = Some sl -> wf_simple sl = true -> lookup_full_ok (k, sl) = true ->
  (forall k', k' < k -> forall b c, rec (ot_index all k') b c = recn k' b c) ->
  anon_sem rec (anons_of k sl) (ot_index all k) ->
  forall before cur after,
  try_gsub_subs gd alt rec (sl_flag sl) (lk_subs (head_of k sl)) before cur after
  = src_try gd alt recn sl before cur after.
Proof.
  intros k sl rec recn Hk W FO H1 H2 before cur after.
  destruct (kind_eqb (sl_kind sl) KChain) eqn:K.
  - destruct sl as [fl kd rules]. destruct kd; try discriminate.
    unfold head_of, anons_of, chain_of in *. cbn [sl_kind sl_flag sl_rules lk_subs] in *.
    destruct (compile_chain (ot_index all k) (ot_index all) rules) as [crs an] eqn:CC. cbn [fst snd] in *.
    unfold lookup_full_ok in FO. cbn [fst snd sl_rules] in FO. rewrite forallb_forall in FO.
    unfold src_try. cbn [sl_kind sl_flag sl_rules].
    apply (try_compiled_chain gd alt rec recn an (ot_index all k) (ot_index all) fl rules crs).
    + apply (compile_chain_crel ilig _ _ _ _ _); [|exact CC].
      apply forallb_forall. intros r Hr. specialize (FO r Hr).
      apply andb_true_iff in FO as [FO _]. apply andb_true_iff in FO as [FO _]. exact FO.
    + apply forallb_forall. intros r Hr. specialize (FO r Hr).
      apply andb_true_iff in FO as [FO _]. apply andb_true_iff in FO as [_ FO]. exact FO.
    + exact H2.
    + intros back input look xi i k' Hr Hin b c. apply H1.
      specialize (FO _ Hr). apply andb_true_iff in FO as [_ RO]. simpl in RO.
      rewrite forallb_forall in RO. unfold named_recs in Hin. apply in_flat_map in Hin as [[j ids] [Hj Hk']].
      apply in_map_iff in Hk' as [k0 [E Hk0]]. inversion E; subst.
      apply in_combine_r in Hj. specialize (RO ids Hj). rewrite forallb_forall in RO.
      apply Nat.ltb_lt. apply RO. exact Hk0.
  - assert (head_of k sl = simple_gsub sl) as E.
    { unfold head_of. destruct (sl_kind sl); try reflexivity. discriminate. }
    rewrite E. apply try_simple_gsub; [|exact K]. unfold wf_simple in W. rewrite K in W. exact W.
Qed.

Hypothesis WF : forallb wf_simple all = true.
Hypothesis FO : forallb lookup_full_ok (combine (seq 0 (length all)) all) = true.

Lemma full_ok_nth : forall k sl, nth_error all k = Some sl -> lookup_full_ok (k, sl) = true.
Proof.
  intros k sl H. rewrite forallb_forall in FO. apply FO.
  assert (nth_error (combine (seq 0 (length all)) all) k = Some (k, sl)) as N0.
  { pose proof (nth_error_map_combine_seq (fun p : nat * slookup => p) all 0 k) as X.
    rewrite map_id in X. rewrite X, H. reflexivity. }
  eapply nth_error_In. exact N0.
Qed.

Lemma wf_nth : forall k sl, nth_error all k = Some sl -> wf_simple sl = true.
Proof. intros k sl H. rewrite forallb_forall in WF. apply WF. eapply nth_error_In. exact H. Qed.

(* nested application by lookup index agrees at every sufficient depth *)
Lemma rec_src_full : forall k, k < length all -> forall f f', k + 2 <= f -> k + 1 <= f' ->
  forall b a, rec_at gd alt f LL (ot_index all k) b a = src_at gd alt f' all k b a.
Proof.
  induction k as [k IH] using lt_wf_ind. intros Lk f f' Hf Hf' b a.
  destruct f as [|f0]; [lia|]. destruct f' as [|f0']; [lia|].
  destruct (nth_error all k) as [sl|] eqn:Nk; [|apply nth_error_None in Nk; lia].
  simpl. rewrite (nth_head k sl Nk), Nk.
  destruct a as [|cur after]; [reflexivity|].
  rewrite head_flag. apply try_head; try assumption.
  - eapply wf_nth. exact Nk.
  - apply full_ok_nth. exact Nk.
  - intros k' Hk' b0 c0. apply IH; lia.
  - destruct f0 as [|f1]; [lia|]. apply anon_sem_rec_at. exact Nk.
Qed.

Lemma lookup_full : forall k sl s, nth_error all k = Some sl ->
  apply_gsub_lookup gd alt LL (head_of k sl) s = interp_gsub_lookup gd alt all sl s.
Proof.
  intros k sl s Nk. unfold apply_gsub_lookup, interp_gsub_lookup. rewrite head_flag.
  assert (k < length all) as Lk by (apply nth_error_Some; congruence).
  apply gsub_loop_ext. intros b c a. apply try_head; try assumption.
  - eapply wf_nth. exact Nk.
  - apply full_ok_nth. exact Nk.
  - intros k' Hk' b0 c0. apply rec_src_full; try lia.
    rewrite LL_length. pose proof (ot_index_ge all (length all)). lia.
  - apply anon_sem_rec_at. exact Nk.
Qed.

End Program.

(* ---- lookup indices of features under a strictly increasing renumbering --------------------------------------- *)
Lemma ssorted_map : forall f, (forall a b, a < b -> f a < f b) -> forall l, ssorted l -> ssorted (map f l).
Proof.
  intros f Hf l S. induction S; simpl; constructor; auto.
Qed.

Lemma sort_uniq_map_mono : forall f, (forall a b, a < b -> f a < f b) ->
  forall l, sort_uniq (map f l) = map f (sort_uniq l).
Proof.
  intros f Hf l. apply ssorted_ext.
  - apply sort_uniq_sorted.
  - apply ssorted_map; [exact Hf | apply sort_uniq_sorted].
  - intros x. rewrite sort_uniq_In, !in_map_iff. split; intros [y [E Hy]]; exists y; (split; [exact E|]).
    + apply (proj2 (sort_uniq_In l y)). exact Hy.
    + apply (proj1 (sort_uniq_In l y)). exact Hy.
Qed.

Lemma flat_map_sel_map : forall (f : nat -> nat) sel (feats : list (fkey * list nat)),
  flat_map (fun x : fkey * list nat => if sel_match sel (fst x) then snd x else [])
           (map (fun '(k, ids) => (k, map f ids)) feats)
  = map f (flat_map (fun x : fkey * list nat => if sel_match sel (fst x) then snd x else []) feats).
Proof.
  intros f sel. induction feats as [|[k ids] feats IH]; [reflexivity|]. simpl.
  rewrite map_app, IH. destruct (sel_match sel k); reflexivity.
Qed.

Lemma fold_left_map {A B C} (g : A -> B -> A) (f : C -> B) : forall l a,
  fold_left g (map f l) a = fold_left (fun a x => g a (f x)) l a.
Proof. induction l; intros a0; simpl; [reflexivity | apply IHl]. Qed.

(* ---- the theorem ---------------------------------------------------------------------------------------------------- *)
Theorem compile_preserves_inline_sm : forall ilig e sel s,
  wf_eprog_full e = true -> full_ok e = true ->
  apply_ot (compile_mini_g true true ilig e) sel s = interp_fea e sel s.
Proof.
  intros ilig e sel s W FO. unfold wf_eprog_full in W. apply andb_true_iff in W as [Wg Wp]. unfold full_ok in FO.
  unfold apply_ot, interp_fea, compile_mini_g.
  rewrite (lookups_blocks ilig (e_gsub e)). fold (LL ilig (e_gsub e)).
  destruct (build_features (map (fun '(k, ids) => (k, map (ot_index_g true true ilig (e_gsub e)) (gsub_ids ids))) (e_feats e)))
    as [gf gl] eqn:BG.
  destruct (build_features (map (fun '(k, ids) => (k, gpos_ids ids)) (e_feats e))) as [pf pl] eqn:BP.
  cbn [f_gsub f_gpos f_gdef].
  assert (apply_gsub (e_gdef e) (mkTable (LL ilig (e_gsub e)) gf gl) sel s = interp_gsub e sel s) as EG.
  { unfold apply_gsub, interp_gsub.
    assert (active_lookups (mkTable (LL ilig (e_gsub e)) gf gl) sel
            = map (ot_index_g true true ilig (e_gsub e)) (gsub_ids (feat_lids e sel))) as EA.
    { rewrite (active_build' _ _ _ _ _ BG).
      assert (map (fun '(k, ids) => (k, map (ot_index_g true true ilig (e_gsub e)) (gsub_ids ids))) (e_feats e)
              = map (fun '(k, ids) => (k, map (ot_index_g true true ilig (e_gsub e)) ids))
                    (map (fun '(k, ids) => (k, gsub_ids ids)) (e_feats e))) as EM.
      { rewrite map_map. apply map_ext. intros [k ids]. reflexivity. }
      rewrite EM, flat_map_sel_map, sort_uniq_map_mono by (apply ot_index_mono_lt).
      f_equal. rewrite feat_lids_alt.
      apply (ids_of_feats gsub_ids (fun i => match i with LGsub n => [n] | _ => [] end)).
      intros l. reflexivity. }
    rewrite EA. cbn [ot_lookups]. rewrite fold_left_map. apply fold_left_ext. intros s0 k.
    destruct (nth_error (e_gsub e) k) as [sl|] eqn:N0.
    - rewrite (nth_head ilig (e_gsub e) k sl N0).
      apply (lookup_full ilig (e_gdef e) (s_alt sel) (e_gsub e) Wg FO k sl s0 N0).
    - apply nth_error_None in N0. rewrite (nth_beyond ilig (e_gsub e) k N0). reflexivity. }
  rewrite EG.
  unfold apply_gpos, interp_gpos.
  assert (active_lookups (mkTable (map compile_gpos_lookup (e_gpos e)) pf pl) sel = gpos_ids (feat_lids e sel)) as EA.
  { rewrite (active_build' _ _ _ _ _ BP), feat_lids_alt.
    apply (ids_of_feats gpos_ids (fun i => match i with LGpos n => [n] | _ => [] end)).
    intros l. reflexivity. }
  rewrite EA. cbn [ot_lookups]. apply fold_left_ext. intros s0 k.
  rewrite nth_error_map. destruct (nth_error (e_gpos e) k) as [sl|] eqn:N0; [|reflexivity]. simpl.
  apply nth_error_In in N0. rewrite forallb_forall in Wp.
  apply lookup_gpos. apply Wp. exact N0.
Qed.
