(* C11 — `compile_mini`: from the elaborated feature file to abstract OpenType tables, the way
   fea-rs (compile_ctx.rs add_* methods, lookups.rs, lookups/contextual.rs) and the write-fonts
   builders do it: glyph classes expanded into per-glyph maps with BTreeMap::insert (overwrite)
   semantics, ligatures grouped by first glyph and stably sorted longest first, specific pairs
   before class pairs, class pairs split into subtables, inline rules of contextual lookups
   collected into shared anonymous lookups placed after their parent, feature lookup lists
   sorted and deduplicated.  Executable definitions only. *)
From Coq Require Import List NArith ZArith Bool Arith.
From FV.C11 Require Import Common Range OT Source Interp.
Import ListNotations.

(* ---- simple GSUB kinds (compile_single, the ligature builder state: Source.v) ------------- *)
Definition compile_multi (rules : list xrule) : list (glyph * list glyph) :=
  fold_left (fun m r => match r with
                        | XSingle tgt repl => ins_pairs tgt (map (fun g => [g]) repl) m
                        | XMulti tgt seqs => ins_pairs tgt seqs m
                        | _ => m
                        end) rules [].

Definition compile_alt (rules : list xrule) : list (glyph * list glyph) :=
  fold_left (fun m r => match r with XAlt t alts => upd t alts m | _ => m end) rules [].

(* ---- ligatures --------------------------------------------------------------------------- *)
(* stable sort, longest component list first (Vec::sort_by_key(Reverse(len)) is stable) *)
Fixpoint lig_sort_insert (x : list glyph * glyph) (l : list (list glyph * glyph)) : list (list glyph * glyph) :=
  match l with
  | [] => [x]
  | y :: t => if Nat.leb (length (fst y)) (length (fst x)) then x :: l else y :: lig_sort_insert x t
  end.
Definition lig_sort (l : list (list glyph * glyph)) : list (list glyph * glyph) :=
  fold_right lig_sort_insert [] l.

Definition compile_liga (rules : list xrule) : list (glyph * list (list glyph * glyph)) :=
  map (fun '(g, l) => (g, lig_sort l)) (liga_table rules).

(* ---- GPOS -------------------------------------------------------------------------------- *)
Definition compile_possingle (rules : list xrule) : list (glyph * value) :=
  fold_left (fun m r => match r with
                        | XPosSingle tgt v => fold_left (fun m g => upd g v m) tgt m
                        | _ => m
                        end) rules [].

(* insert_pair: entry(g1).or_default().entry(g2).or_insert(..) *)
Definition pair_insert (m : list (glyph * list (glyph * (value * value)))) (g1 g2 : glyph) (v : value)
  : list (glyph * list (glyph * (value * value))) :=
  match assoc g1 m with
  | Some l => upd g1 (upd_new g2 (v, vzero) l) m
  | None => m ++ [(g1, [(g2, (v, vzero))])]
  end.

Definition compile_pairs_glyph (rules : list xrule) : list (glyph * list (glyph * (value * value))) :=
  fold_left (fun m r => match r with
                        | XPairE c1 c2 v =>
                            fold_left (fun m g1 => fold_left (fun m g2 => pair_insert m g1 g2 v) c2 m) c1 m
                        | _ => m
                        end) rules [].

(* ClassPairPosSubtable: items[class1][class2] = value, on glyph SETS, a later rule for the same two
   sets replacing an earlier one.  One row per rule's first class (the first row holding a glyph is
   used, so repeats are inert); its columns are the rules with that first class, the latest first. *)
Definition cols_for (grp : list xrule) (c1 : list glyph) : list (list glyph * (value * value)) :=
  rev (flat_map (fun r => match r with
                          | XPairC c1' c2' v' => if set_eqb c1' c1 then [(c2', (v', vzero))] else []
                          | _ => []
                          end) grp).

Definition group_rows (grp : list xrule) : list (list glyph * list (list glyph * (value * value))) :=
  flat_map (fun r => match r with XPairC c1 _ _ => [(c1, cols_for grp c1)] | _ => [] end) grp.

Definition compile_group (grp : list xrule) : subtable := STPairClass false (group_rows grp).

Definition compile_pair (rules : list xrule) : list subtable :=
  STPairGlyph false (compile_pairs_glyph rules) :: map compile_group (pair_groups [] rules).

(* ---- contextual lookups and their anonymous lookups ----------------------------------------- *)
Inductive anon :=
| AnSingle (m : list (glyph * glyph))
| AnMulti (m : list (glyph * list glyph))
| AnLiga (tbl : list (glyph * list (list glyph * glyph))).

Definition single_can_add (m : list (glyph * glyph)) (a b : glyph) : bool :=
  match assoc a m with Some x => N.eqb x b | None => true end.
Definition multi_can_add (m : list (glyph * list glyph)) (a : glyph) (s : list glyph) : bool :=
  match assoc a m with Some x => glyphs_eqb x s | None => true end.
(* find_or_create_anon_lookup: index of the first usable lookup, else a new one at the end *)
Fixpoint find_idx {A : Type} (p : A -> bool) (l : list A) : option nat :=
  match l with
  | [] => None
  | x :: t => if p x then Some O else option_map S (find_idx p t)
  end.

Fixpoint set_nth {A : Type} (n : nat) (x : A) (l : list A) : list A :=
  match n, l with
  | O, _ :: t => x :: t
  | S k, y :: t => y :: set_nth k x t
  | _, [] => []
  end.

Definition find_or_create (can : anon -> bool) (fresh : anon) (anons : list anon) : list anon * nat :=
  match find_idx can anons with
  | Some i => (anons, i)
  | None => (anons ++ [fresh], length anons)
  end.

Fixpoint is_prefix (a b : list glyph) : bool :=
  match a, b with
  | [], _ => true
  | x :: a', y :: b' => N.eqb x y && is_prefix a' b'
  | _ :: _, [] => false
  end.

(* the table holds, under the same first glyph, a sequence that extends e's or that e's extends *)
Definition one_extends_other (tbl : list (glyph * list (list glyph * glyph))) (e : list glyph * glyph) : bool :=
  match fst e with
  | [] => false
  | first :: rest =>
      match assoc first tbl with
      | Some l => existsb (fun x => negb (Nat.eqb (length (fst x)) (length rest))
                                    && (is_prefix (fst x) rest || is_prefix rest (fst x))) l
      | None => false
      end
  end.

(* The three defects of the inline-rule bookkeeping repaired in 2026-09; a flag is true for the
   repaired behaviour (probed by the harness on fixed inputs):
   isng: the shared-lookup check of an inline single substitution covers every target glyph;
   imul: all glyphs of an inline multiple substitution go in one anonymous lookup (the rule's);
   ilig: all sequences of an inline ligature go in one anonymous lookup, and a lookup is not shared
         with a sequence that extends, or is extended by, one of them. *)
Section Inline.
Variable isng imul ilig : bool.

(* add one inline rule; result: the anonymous lookups and the index (among them) the rule refers to *)
Definition add_inline_g (anons : list anon) (x : xinline) : list anon * option nat :=
  match x with
  | XISingle tgt repl nchk =>
      (* unrepaired: the check runs over target.iter().zip(replacement.iter()) and so sees only the
         first pair when the replacement is one glyph; the insert below covers every target glyph *)
      let ps := if isng then combine tgt repl else firstn nchk (combine tgt repl) in
      let '(an, i) := find_or_create
                        (fun a => match a with
                                  | AnSingle m => forallb (fun p => single_can_add m (fst p) (snd p)) ps
                                  | _ => false end) (AnSingle []) anons in
      (match nth_error an i with
       | Some (AnSingle m) => set_nth i (AnSingle (ins_pairs tgt repl m)) an
       | _ => an
       end, Some i)
  | XIMulti tgt seqs =>
      if imul then
        let ps := combine tgt seqs in
        let '(an, i) := find_or_create
                          (fun a => match a with
                                    | AnMulti m => forallb (fun p => multi_can_add m (fst p) (snd p)) ps
                                    | _ => false end) (AnMulti []) anons in
        (match nth_error an i with
         | Some (AnMulti m) => set_nth i (AnMulti (ins_pairs tgt seqs m)) an
         | _ => an
         end, match ps with [] => None | _ => Some i end)
      else
      (* unrepaired: one call per target glyph; the rule keeps the id returned by the last call *)
      fold_left (fun '(an, _) '(g, s) =>
                   let '(an1, i) := find_or_create
                                      (fun a => match a with AnMulti m => multi_can_add m g s | _ => false end)
                                      (AnMulti []) an in
                   (match nth_error an1 i with
                    | Some (AnMulti m) => set_nth i (AnMulti (upd g s m)) an1
                    | _ => an1
                    end, Some i))
                (combine tgt seqs) (anons, None)
  | XILiga comps lig =>
      if ilig then
        let es := map (fun sq => (sq, lig)) (sequences comps) in
        let '(an, i) := find_or_create
                          (fun a => match a with
                                    | AnLiga t => forallb (fun e => liga_tbl_can_add t e && negb (one_extends_other t e)) es
                                    | _ => false end) (AnLiga []) anons in
        (match nth_error an i with
         | Some (AnLiga t) => set_nth i (AnLiga (fold_left lig_insert es t)) an
         | _ => an
         end, match es with [] => None | _ => Some i end)
      else
      (* unrepaired: one call per sequence; the rule keeps the id returned by the last call *)
      fold_left (fun '(an, _) sq =>
                   let e := (sq, lig) in
                   let '(an1, i) := find_or_create
                                      (fun a => match a with AnLiga t => liga_tbl_can_add t e | _ => false end)
                                      (AnLiga []) an in
                   (match nth_error an1 i with
                    | Some (AnLiga t) => set_nth i (AnLiga (lig_insert t e)) an1
                    | _ => an1
                    end, Some i))
                (sequences comps) (anons, None)
  end.

Definition anon_lookup (fl : lflag) (a : anon) : lookup :=
  match a with
  | AnSingle m => mkLookup fl [STSingle m]
  | AnMulti m => mkLookup fl [STMultiple m]
  | AnLiga t => mkLookup fl [STLigature (map (fun '(g, l) => (g, lig_sort l)) t)]
  end.

(* `root`: index of the contextual lookup in the lookup list; `idx`: source index -> table index.
   Every rule becomes one rule of the (format-3 style) subtable list, in order. *)
Definition compile_chain_g (root : nat) (idx : nat -> nat) (rules : list xrule) : list chain_rule * list anon :=
  fold_left (fun '(crs, anons) r =>
               match r with
               | XChain back input look xi =>
                   let '(anons', inl_rec) :=
                     match xi with
                     | None => (anons, [])
                     | Some x => let '(an, i) := add_inline_g anons x in
                                 (an, match i with Some k => [(O, root + 1 + k)] | None => [] end)
                     end in
                   let named := flat_map (fun '(i, ids) => map (fun k => (i, idx k)) ids)
                                         (combine (seq 0 (length input)) (map snd input)) in
                   (crs ++ [mkCR back (map fst input) look (inl_rec ++ named)], anons')
               | _ => (crs, anons)
               end) rules ([], []).

(* number of anonymous lookups a source lookup brings with it *)
Definition anon_count_g (sl : slookup) : nat :=
  match sl_kind sl with
  | KChain => length (snd (compile_chain_g O (fun k => k) (sl_rules sl)))
  | _ => O
  end.

(* table index of source GSUB lookup k *)
Fixpoint ot_index_g (lks : list slookup) (k : nat) : nat :=
  match k, lks with
  | O, _ => O
  | S k', sl :: t => S (anon_count_g sl) + ot_index_g t k'
  | S k', [] => S k'
  end.

Definition compile_gsub_lookup_g (all : list slookup) (k : nat) (sl : slookup) : list lookup :=
  let fl := sl_flag sl in
  match sl_kind sl with
  | KSingle => [mkLookup fl [STSingle (compile_single (sl_rules sl))]]
  | KMulti => [mkLookup fl [STMultiple (compile_multi (sl_rules sl))]]
  | KAlt => [mkLookup fl [STAlternate (compile_alt (sl_rules sl))]]
  | KLiga => [mkLookup fl [STLigature (compile_liga (sl_rules sl))]]
  | KChain =>
      let '(crs, anons) := compile_chain_g (ot_index_g all k) (ot_index_g all) (sl_rules sl) in
      mkLookup fl (map (fun r => STChain [r]) crs) :: map (anon_lookup fl) anons
  | _ => [mkLookup fl []]
  end.

Definition compile_gpos_lookup (sl : slookup) : lookup :=
  match sl_kind sl with
  | KPosSingle => mkLookup (sl_flag sl) [STSinglePos (compile_possingle (sl_rules sl))]
  | KPosPair => mkLookup (sl_flag sl) (compile_pair (sl_rules sl))
  | _ => mkLookup (sl_flag sl) []
  end.

(* ---- features ------------------------------------------------------------------------------ *)
(* one feature record per (feature, script, language) entry with lookups in this table; the language
   system lists the records of its script/language *)
Fixpoint idx_of (s l : tag) (i : nat) (fl : list (fkey * list nat)) : list nat :=
  match fl with
  | [] => []
  | ((_, s', l'), _) :: t => (if N.eqb s s' && N.eqb l l' then [i] else []) ++ idx_of s l (S i) t
  end.

Definition build_features (feats : list (fkey * list nat)) : list (tag * list nat) * list ((tag * tag) * list nat) :=
  let fl := filter (fun x => match snd x with [] => false | _ => true end) feats in
  (map (fun x => (fst (fst (fst x)), snd x)) fl,
   map (fun x => ((snd (fst (fst x)), snd (fst x)), idx_of (snd (fst (fst x))) (snd (fst x)) 0 fl)) fl).

Definition compile_mini_g (e : eprog) : otfont :=
  let gsub_lks := flat_map (fun '(k, sl) => compile_gsub_lookup_g (e_gsub e) k sl)
                           (combine (seq 0 (length (e_gsub e))) (e_gsub e)) in
  let '(gf, gl) := build_features (map (fun '(k, ids) => (k, map (ot_index_g (e_gsub e)) (gsub_ids ids))) (e_feats e)) in
  let '(pf, pl) := build_features (map (fun '(k, ids) => (k, gpos_ids ids)) (e_feats e)) in
  mkFont (mkTable gsub_lks gf gl) (mkTable (map compile_gpos_lookup (e_gpos e)) pf pl) (e_gdef e).

End Inline.

(* the compiler with all three inline-rule repairs of 2026-09, and as it was before them *)
Definition compile_mini : eprog -> otfont := compile_mini_g true true true.
Definition compile_mini_unrepaired : eprog -> otfont := compile_mini_g false false false.
(* the compiler in /repo: the inline single and inline multiple repairs are applied, the inline ligature
   repair is not (it departs from feaLib's lookup list; its key is a known finding) *)
Definition compile_repo : eprog -> otfont := compile_mini_g true true false.

(* ---- whole pipeline from the AST ------------------------------------------------------------ *)
Definition compile_prog (incl : bool) (gm : list str) (p : prog) : option otfont :=
  option_map compile_repo (elab incl gm p).

Definition interp_prog (incl : bool) (gm : list str) (p : prog) (sel : selection) (s : list glyph)
  : option (list pitem) :=
  option_map (fun e => interp_fea e sel s) (elab incl gm p).
