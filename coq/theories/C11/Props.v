(* C11 — Compiled GSUB/GPOS behave as the feature file says.  Property theorems; every proof is `exact` of a
   lemma of Proofs*.v.
     interp_fea (Interp.v)   source semantics of an elaborated feature file (elab, Source.v)
     apply_ot (OT.v)         the OpenType lookup application algorithm
     compile_mini_g isng imul ilig (Compile.v)   model of fea-rs's compilation, parametrised by the three
                             inline-rule repairs of 2026-09 (single, multiple, ligature)
   WHICH BUILD a theorem is about is part of its name:
     compile_repo  = compile_mini_g true true false   THE COMPILER IN /repo: the inline single and inline
                     multiple repairs are applied, the inline ligature repair is not (known finding
                     contextual-inline-ligature-shared-lookup);
     compile_mini  = compile_mini_g true true true    /repo plus the inline ligature repair — theorems
                     named with_ligature_repair_* hold only if that repair is applied;
     compile_mini_unrepaired = compile_mini_g false false false   the compiler before the repairs —
                     theorems named unrepaired_* (what a regression would bring back).
   Theorems with `any_build` / an explicit flag quantifier hold for every combination.
   All statements are for every glyph string, lookup flag, GDEF class assignment and selection of
   script / language / features. *)
From Coq Require Import List NArith ZArith Bool Arith.
From FV.C11 Require Import Model Wf Proofs.
Import ListNotations.

(* ---- 1. the compiler-correctness theorem, for the compiler in /repo --------------------------------------- *)
(* Full statement of the property for the model of /repo. *)
Definition C11_full : Prop :=
  forall (e : eprog) (sel : selection) (s : list glyph),
    wf_eprog_full e = true -> apply_ot (compile_repo e) sel s = interp_fea e sel s.

(* PARTIAL: proved for every elaborated feature file whose INLINE contextual rules are inline single and
   inline multiple substitutions (incl. `by NULL`): single, multiple, alternate, ligature substitution;
   chaining contextual substitution with named nested lookups (themselves contextual, any nesting, nested
   lookups changing the length of the run), inline single / multiple rules sharing anonymous lookups that
   follow their parent in the lookup list, `ignore` rules; single and pair positioning; any lookup flags,
   GDEF classes, feature / script / language registration.
   Hypotheses: wf_eprog_full — no two rules of one non-contextual lookup give one glyph (sequence, class
   pair) different results (conflicting-rules-later-wins keys, known findings);
   full_ok — (a) no inline LIGATURE rule: for these C11_full is FALSE for compile_repo (theorem 2, the known
   finding); (b) an inline rule's target is its first input class with one replacement per glyph and does
   not itself give one glyph two results; (c) contextual rules name earlier lookups only.  (b) and (c) hold
   of everything `elab` produces from a file fea-rs accepts; that is exercised by the correspondence run,
   not proved about `elab`.
   Missing for C11_full: exactly (a), where the statement fails, and a proof of (b), (c) for `elab`. *)
Theorem compile_repo_preserves_partial : forall (e : eprog) (sel : selection) (s : list glyph),
  wf_eprog_full e = true -> full_ok e = true ->
  apply_ot (compile_repo e) sel s = interp_fea e sel s.
Proof. exact compile_repo_preserves. Qed.
Print Assumptions compile_repo_preserves_partial.

(* the same from the feature-file AST: whenever the walk accepts the file *)
Theorem compile_prog_repo_preserves_partial : forall incl gm (p : prog) (e : eprog) sel s,
  elab incl gm p = Some e -> wf_eprog_full e = true -> full_ok e = true ->
  compile_prog incl gm p = Some (compile_repo e)
  /\ interp_prog incl gm p sel s = Some (apply_ot (compile_repo e) sel s).
Proof. exact compile_prog_repo_preserves. Qed.
Print Assumptions compile_prog_repo_preserves_partial.

(* the proof does not depend on the inline ligature repair: the theorem holds with and without it *)
Theorem compile_preserves_inline_any_ligature_build_partial : forall ilig e sel s,
  wf_eprog_full e = true -> full_ok e = true ->
  apply_ot (compile_mini_g true true ilig e) sel s = interp_fea e sel s.
Proof. exact compile_preserves_inline_sm. Qed.
Print Assumptions compile_preserves_inline_any_ligature_build_partial.

(* without inline rules none of the three repairs matters: the theorem holds for every build, in particular
   for the compiler as it was before the repairs *)
Theorem compile_preserves_noinline_any_build_partial : forall isng imul ilig e sel s,
  wf_eprog e = true -> no_inline e = true ->
  apply_ot (compile_mini_g isng imul ilig e) sel s = interp_fea e sel s.
Proof. exact compile_preserves_noinline. Qed.
Print Assumptions compile_preserves_noinline_any_build_partial.

(* the hypotheses are satisfiable by files that do something: the two former counterexamples with inline
   rules, a file with nested named lookups and an `ignore` rule, a file with flags, ligatures and kerning *)
Example compile_repo_preserves_nonvacuous :
  (wf_eprog_full w_inline = true /\ full_ok w_inline = true)
  /\ (wf_eprog_full w_imulti = true /\ full_ok w_imulti = true)
  /\ (wf_eprog_full w_ctx = true /\ full_ok w_ctx = true)
  /\ (wf_eprog_full w_good = true /\ full_ok w_good = true)
  /\ interp_fea w_inline w_sel [2; 4; 4; 2]%N = [(4, vzero); (4, vzero); (1, vzero); (2, vzero)]%N.
Proof. exact w_full_ok_facts. Qed.

Example compile_preserves_contextual_nonvacuous :
  wf_eprog w_ctx = true /\ no_inline w_ctx = true /\ no_chain w_ctx = false
  /\ interp_fea w_ctx w_sel [4; 0; 2; 3; 0; 2]%N
     = [(4, vzero); (3, vzero); (3, vzero); (0, vzero); (2, vzero)]%N.
Proof. exact w_ctx_facts. Qed.

(* ---- 2. where the statement fails, per build ----------------------------------------------------------------- *)
(* THE COMPILER IN /repo (known finding contextual-inline-ligature-shared-lookup):
   `sub a' b' by x; sub a' b' c' by d;` — both ligatures share one anonymous lookup, and where the first
   rule matches "a b c" the longer ligature is formed.  On the two former counterexamples with inline single
   and inline multiple rules compile_repo agrees with the source on every string up to length 4. *)
Theorem repo_inline_ligature_refuted_and_others_agree :
  agree_repo_upto w_inline 4 = true /\ agree_repo_upto w_imulti 4 = true
  /\ apply_ot (compile_repo w_iliga) w_sel [0; 1; 2]%N <> interp_fea w_iliga w_sel [0; 1; 2]%N.
Proof. exact w_repo_facts. Qed.
Print Assumptions repo_inline_ligature_refuted_and_others_agree.

(* EVERY BUILD: the hypothesis on conflicting rules is needed — fea-rs accepts two rules of one lookup that
   give the same glyph different results and lets the LATER one win, where the specification reads "first
   matching rule" (keys conflicting-rules-later-wins:KIND, known findings). *)
Theorem repo_later_rule_wins_refuted :
  no_chain w_conflict = true /\ wf_eprog w_conflict = false
  /\ apply_ot (compile_repo w_conflict) w_sel [0%N] <> interp_fea w_conflict w_sel [0%N].
Proof. exact w_conflict_facts. Qed.
Print Assumptions repo_later_rule_wins_refuted.

(* BEFORE THE REPAIRS (compile_mini_unrepaired; each replayed on the real compiler by the correspondence
   run under the key named, should it come back):
   (a) `sub c' x by x; sub [x c]' c by b;`   contextual-inline-single-overwrites-shared-lookup
   (b) `sub a' x by b c; sub [a d]' b by c b;`   contextual-inline-multiple-wrong-shared-lookup
   (c) `sub a' b' by x; sub a' b' c' by d;`   contextual-inline-ligature-shared-lookup *)
Theorem unrepaired_inline_single_refuted :
  wf_eprog w_inline = true
  /\ apply_ot (compile_mini_unrepaired w_inline) w_sel [2; 4]%N <> interp_fea w_inline w_sel [2; 4]%N.
Proof. exact w_inline_facts. Qed.
Print Assumptions unrepaired_inline_single_refuted.

Theorem unrepaired_inline_multiple_refuted :
  apply_ot (compile_mini_unrepaired w_imulti) w_sel [0; 1]%N <> interp_fea w_imulti w_sel [0; 1]%N.
Proof. exact w_imulti_facts. Qed.
Print Assumptions unrepaired_inline_multiple_refuted.

Theorem unrepaired_inline_ligature_refuted :
  apply_ot (compile_mini_unrepaired w_iliga) w_sel [0; 1; 2]%N <> interp_fea w_iliga w_sel [0; 1; 2]%N.
Proof. exact w_iliga_facts. Qed.
Print Assumptions unrepaired_inline_ligature_refuted.

(* ---- 3. conditional: holds IF THE INLINE-LIGATURE REPAIR IS APPLIED (compile_mini, not /repo) ------------- *)
(* with it the three former counterexamples, (c) included, shape as they say on every string up to length 4 *)
Theorem with_ligature_repair_witnesses_agree :
  agree_upto w_inline 4 = true /\ agree_upto w_imulti 4 = true /\ agree_upto w_iliga 4 = true.
Proof. exact w_inline_repaired. Qed.
Print Assumptions with_ligature_repair_witnesses_agree.

(* for every contextual lookup compiled WITH the ligature repair (any rules before and after, inline
   ligature rules among them): the rule compiled from an inline single substitution calls at input position 0
   an anonymous lookup that maps each target glyph of that rule as the rule says *)
Theorem with_ligature_repair_inline_single_rule_lookup_sound :
  forall root idx rules1 back input look tgt repl n rules2 crs anons,
  forallb inline_ok (rules1 ++ XChain back input look (Some (XISingle tgt repl n)) :: rules2) = true ->
  compile_chain_g true true true root idx
    (rules1 ++ XChain back input look (Some (XISingle tgt repl n)) :: rules2) = (crs, anons) ->
  exists (crs1 : list chain_rule) (i : nat) (recs : list (nat * nat)) (crs2 : list chain_rule)
         (m : list (glyph * glyph)),
    crs = crs1 ++ mkCR back (map fst input) look ((O, (root + 1 + i)%nat) :: recs) :: crs2
    /\ length crs1 = length (fst (compile_chain_g true true true root idx rules1))
    /\ nth_error anons i = Some (AnSingle m)
    /\ forall g v, assoc g (combine tgt repl) = Some v -> assoc g m = Some v.
Proof. exact inline_single_rule_lookup. Qed.
Print Assumptions with_ligature_repair_inline_single_rule_lookup_sound.

Theorem with_ligature_repair_inline_multiple_rule_lookup_sound :
  forall root idx rules1 back input look tgt seqs rules2 crs anons,
  combine tgt seqs <> [] ->
  forallb inline_ok (rules1 ++ XChain back input look (Some (XIMulti tgt seqs)) :: rules2) = true ->
  compile_chain_g true true true root idx
    (rules1 ++ XChain back input look (Some (XIMulti tgt seqs)) :: rules2) = (crs, anons) ->
  exists (crs1 : list chain_rule) (i : nat) (recs : list (nat * nat)) (crs2 : list chain_rule)
         (m : list (glyph * list glyph)),
    crs = crs1 ++ mkCR back (map fst input) look ((O, (root + 1 + i)%nat) :: recs) :: crs2
    /\ length crs1 = length (fst (compile_chain_g true true true root idx rules1))
    /\ nth_error anons i = Some (AnMulti m)
    /\ forall g v, assoc g (combine tgt seqs) = Some v -> assoc g m = Some v.
Proof. exact inline_multiple_rule_lookup. Qed.
Print Assumptions with_ligature_repair_inline_multiple_rule_lookup_sound.

(* ... and the rule compiled from an inline LIGATURE substitution calls an anonymous ligature lookup whose table
   is well formed (one ligature per sequence, no sequence extends another) and holds every component sequence
   of the rule with the rule's ligature ... *)
Theorem with_ligature_repair_inline_ligature_rule_lookup_sound :
  forall root idx rules1 back input look comps lig rules2 crs anons,
  sequences comps <> [] ->
  compile_chain_g true true true root idx
    (rules1 ++ XChain back input look (Some (XILiga comps lig)) :: rules2) = (crs, anons) ->
  exists (crs1 : list chain_rule) (i : nat) (recs : list (nat * nat)) (crs2 : list chain_rule)
         (t : list (glyph * list (list glyph * glyph))),
    crs = crs1 ++ mkCR back (map fst input) look ((O, (root + 1 + i)%nat) :: recs) :: crs2
    /\ length crs1 = length (fst (compile_chain_g true true true root idx rules1))
    /\ nth_error anons i = Some (AnLiga t) /\ tbl_ok t
    /\ forall first rest, In (first :: rest) (sequences comps) -> In (rest, lig) (row first t).
Proof. exact inline_ligature_rule_lookup. Qed.
Print Assumptions with_ligature_repair_inline_ligature_rule_lookup_sound.

(* ... so that (a fact about any well-formed ligature table, the repair is what establishes well-formedness)
   applied where components of the rule match — any lookup flag, glyphs skipped in between — it forms exactly
   the rule's ligature, whatever other ligatures share the lookup *)
Theorem wellformed_ligature_lookup_forms_rule_ligature : forall gd alt rec fl t cur r lig before after c rest,
  tbl_ok t -> In (r, lig) (row cur t) ->
  match_seq gd fl (map (fun g => [g]) r) after = Some (c, rest) ->
  try_gsub_subs gd alt rec fl (lk_subs (anon_lookup fl (AnLiga t))) before cur after
  = Some ([lig], skipped_of c ++ rest).
Proof. exact liga_lookup_forms_rule_ligature. Qed.
Print Assumptions wellformed_ligature_lookup_forms_rule_ligature.

Example inline_rule_lookup_nonvacuous :
  forallb inline_ok (concat (map sl_rules (e_gsub w_inline))) = true
  /\ forallb inline_ok (concat (map sl_rules (e_gsub w_imulti))) = true.
Proof. exact inline_ok_witnesses. Qed.

(* ---- 4. the lookup kinds one by one (every build; used by 1; each for every rule list) --------------------- *)
(* single substitution: the compiled glyph map answers like the first rule naming the glyph *)
Theorem single_lookup_first_match : forall rules g,
  consistent N.eqb N.eqb (flat_map single_bindings rules) = true ->
  assoc g (compile_single rules) = first_some (single_of g) rules.
Proof. exact single_refines. Qed.
Print Assumptions single_lookup_first_match.

(* multiple substitution (with the single substitutions promoted into the same lookup) *)
Theorem multiple_lookup_first_match : forall rules g,
  consistent N.eqb glyphs_eqb (flat_map multi_bindings rules) = true ->
  assoc g (compile_multi rules) = first_some (multi_of g) rules.
Proof. exact multi_refines. Qed.
Print Assumptions multiple_lookup_first_match.

Theorem alternate_lookup_first_match : forall rules g,
  consistent N.eqb glyphs_eqb (flat_map alt_bindings rules) = true ->
  assoc g (compile_alt rules) = first_some (alt_of g) rules.
Proof. exact alt_refines. Qed.
Print Assumptions alternate_lookup_first_match.

(* ligature substitution: class sequences enumerated, grouped by first glyph, duplicates dropped, stably sorted
   longest first, first match wins  =  among the rules that match at the position (components matched by class
   membership, glyphs skipped per lookup flag) the one with the most components, the first declared among those.
   Only the single substitutions promoted into the lookup must not contradict each other. *)
Theorem ligature_lookup_longest_first : forall gd fl cur after rules,
  consistent N.eqb N.eqb (flat_map single_bindings (fst (single_prefix rules))) = true ->
  match assoc cur (compile_liga rules) with
  | Some ligs => try_liga gd fl ligs after
  | None => None
  end = pick_liga gd fl cur after rules None.
Proof. exact liga_refines. Qed.
Print Assumptions ligature_lookup_longest_first.

Theorem single_pos_first_match : forall rules g,
  consistent N.eqb veqb (flat_map pos_bindings rules) = true ->
  assoc g (compile_possingle rules) = first_some (possingle_of g) rules.
Proof. exact possingle_refines. Qed.
Print Assumptions single_pos_first_match.

(* pair positioning: the format-1 subtable of specific pairs followed by the class subtables behaves like: first
   specific-pair rule (incl. `enum`) for the two glyphs; else the first class subtable whose first classes hold
   the first glyph decides (its first matching rule, or no adjustment) *)
Theorem pair_pos_subtables : forall gd fl rules cur after,
  pair_consistent rules ->
  try_gpos_subs gd fl (compile_pair rules) cur after
  = src_try_pos gd (mkSL fl KPosPair rules) cur after.
Proof. exact pair_refines. Qed.
Print Assumptions pair_pos_subtables.

(* when all class pairs of the lookup fit one subtable the reading is literally "first matching rule" *)
Theorem pair_first_match_when_compatible : forall gd fl rules cur after sk g2 w aft,
  pair_compatible rules = true ->
  next_nonskip gd fl after = Some (sk, (g2, w), aft) ->
  src_try_pos gd (mkSL fl KPosPair rules) cur after
  = match first_some (paire_of cur g2) rules with
    | Some v => Some (v, Some (vzero, false))
    | None =>
        match first_some (pairc_of cur g2) rules with
        | Some v => Some (v, Some (vzero, false))
        | None => if group_covers cur rules then Some (vzero, Some (vzero, false)) else None
        end
    end.
Proof. exact pair_first_match. Qed.
Print Assumptions pair_first_match_when_compatible.

(* ... and not otherwise: `pos [a b] [c d] 10; pos [a x] [b] 20;` — the pair (a, b) matches the second rule, but
   that rule sits in a second subtable and the first one covers `a`: no adjustment.  This is the subtable
   behaviour the feature file specification describes for class kerning; the source semantics includes it. *)
Theorem class_pair_shadowing_example :
  pair_compatible w_shadow_rules = false
  /\ first_some (pairc_of 0%N 1%N) w_shadow_rules = Some (mkV 0 0 20 0)
  /\ src_try_pos [] (mkSL flag0 KPosPair w_shadow_rules) 0%N [(1%N, vzero)] = Some (vzero, Some (vzero, false)).
Proof. exact w_shadow_facts. Qed.
Print Assumptions class_pair_shadowing_example.

(* ---- 5. class and range expansion ------------------------------------------------------------------------------ *)
(* named glyph classes (at top level and inside feature / lookup blocks): a definition `@n = [items];` is resolved
   in the environment BEFORE it (so `@n = [@n more];` extends the class), and from then on a reference `@n`
   means this definition — the latest one preceding the reference — until the next definition of `n`; other
   names are untouched.  The walk `elab` (shared by interp_fea and compile_mini) and the harness's source-side
   interpreter both resolve references this way, independently of fea-rs. *)
Theorem class_reference_resolves_to_latest_definition : forall incl gm delp eskip refc mixs st n items c,
  resolve_items incl gm (es_classes st) items = Some c ->
  exists st',
    elab_top incl gm delp eskip refc mixs st (TClassDef n items) = Some st'
    /\ elab_lstmt incl gm delp eskip st (LClassDef n items) = Some st'
    /\ resolve_items incl gm (es_classes st') [IRef n] = Some c
    /\ forall n', n' <> n ->
         resolve_items incl gm (es_classes st') [IRef n'] = resolve_items incl gm (es_classes st) [IRef n'].
Proof. exact class_definition_then_reference. Qed.
Print Assumptions class_reference_resolves_to_latest_definition.

(* glyph_range.rs before the repair: a numeric range stopped one glyph short of its end
   (key glyph-range-numeric-excludes-end) *)
Theorem unrepaired_numeric_range_excludes_end_refuted :
  exists a b l, range_named a b = Some l /\ ~ In b l /\ exists l', range_named_spec a b = Some l' /\ In b l'.
Proof. exact unrepaired_range_witness. Qed.
Print Assumptions unrepaired_numeric_range_excludes_end_refuted.

(* in /repo (the reading `resolve_items true` uses): whenever a range is accepted its end glyph is a member.
   (That this function is the repaired code's expansion is tied by the range cases of every run.) *)
Theorem repo_numeric_range_includes_end : forall a b l, range_named_spec a b = Some l -> In b l.
Proof. exact range_spec_end. Qed.
Print Assumptions repo_numeric_range_includes_end.
