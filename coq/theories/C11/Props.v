(* C11 — Compiled GSUB/GPOS behave as the feature file says.  Property theorems; proofs are in
   Proofs*.v.  `interp_fea` (Interp.v) is the source semantics, `apply_ot` (OT.v) the OpenType
   lookup application algorithm, `compile_mini` (Compile.v) the model of fea-rs's compilation of an
   elaborated feature file (`elab`, Source.v).  All statements are for every glyph string, every
   lookup flag, every GDEF class assignment, every selection of script / language / features. *)
From Coq Require Import List NArith ZArith Bool Arith.
From FV.C11 Require Import Model Wf Proofs.
Import ListNotations.

(* ---- 1. the compiler-correctness theorem -------------------------------------------------------- *)
(* Full statement of the property for the model. *)
Definition C11_full : Prop :=
  forall (e : eprog) (sel : selection) (s : list glyph),
    wf_eprog e = true -> apply_ot (compile_mini e) sel s = interp_fea e sel s.

(* PARTIAL: proved for every elaborated feature file WITHOUT INLINE contextual rules: single, multiple,
   alternate, ligature substitution; chaining contextual substitution whose rules call NAMED lookups
   (themselves possibly contextual, any nesting, nested lookups changing the length of the run) and
   `ignore` rules; single and pair positioning; any lookup flags, GDEF classes, feature / script /
   language registration: shaping with the compiled tables = interpreting the source rules.
   Missing for the full statement: contextual rules with an inline replacement (`sub a' b by c;`).
   For these the statement was FALSE before the repairs of 2026-09 (theorem 2); for the repaired
   compiler it is open: not proved, no counterexample known (the former counterexamples now satisfy
   it, and the correspondence run evaluates it on every generated file). *)
Theorem compile_preserves_noinline_partial : forall (e : eprog) (sel : selection) (s : list glyph),
  wf_eprog e = true -> no_inline e = true ->
  apply_ot (compile_mini e) sel s = interp_fea e sel s.
Proof. exact (compile_preserves_noinline true true true). Qed.
Print Assumptions compile_preserves_noinline_partial.

(* the same from the feature-file AST: whenever the walk accepts the file *)
Theorem compile_prog_preserves_noinline_partial : forall incl gm (p : prog) (e : eprog) sel s,
  elab incl gm p = Some e -> wf_eprog e = true -> no_inline e = true ->
  compile_prog incl gm p = Some (compile_mini e)
  /\ interp_prog incl gm p sel s = Some (apply_ot (compile_mini e) sel s).
Proof.
  intros incl gm p e sel s E W N. unfold compile_prog, interp_prog. rewrite E. simpl.
  split; [reflexivity|]. unfold compile_mini. rewrite (compile_preserves_noinline true true true e sel s W N). reflexivity.
Qed.
Print Assumptions compile_prog_preserves_noinline_partial.

(* the instance without any contextual lookup *)
Theorem compile_preserves_nochain_partial : forall (e : eprog) (sel : selection) (s : list glyph),
  wf_eprog e = true -> no_chain e = true ->
  apply_ot (compile_mini e) sel s = interp_fea e sel s.
Proof. exact (compile_preserves_nochain true true true). Qed.
Print Assumptions compile_preserves_nochain_partial.

Example compile_preserves_nonvacuous :
  wf_eprog w_good = true /\ no_chain w_good = true
  /\ interp_fea w_good w_sel [0; 4; 1; 2]%N = [(1, mkV 0 0 5 0); (4, vzero); (3, vzero)]%N.
Proof. exact w_good_facts. Qed.

(* ... and one with contextual rules: named nested lookups (one contextual itself), two lookups at one
   position, a nested ligature that shortens the run, an `ignore` rule *)
Example compile_preserves_contextual_nonvacuous :
  wf_eprog w_ctx = true /\ no_inline w_ctx = true /\ no_chain w_ctx = false
  /\ interp_fea w_ctx w_sel [4; 0; 2; 3; 0; 2]%N
     = [(4, vzero); (3, vzero); (3, vzero); (0, vzero); (2, vzero)]%N.
Proof. exact w_ctx_facts. Qed.

(* without inline rules the three repairs of the inline-rule bookkeeping are immaterial: the theorem holds
   for every combination of them, in particular for the compiler as it was before *)
Theorem compile_preserves_noinline_any_build_partial : forall isng imul ilig e sel s,
  wf_eprog e = true -> no_inline e = true ->
  apply_ot (compile_mini_g isng imul ilig e) sel s = interp_fea e sel s.
Proof. exact compile_preserves_noinline. Qed.
Print Assumptions compile_preserves_noinline_any_build_partial.

(* ---- 2. inline contextual rules: before and after the repairs ------------------------------------------- *)
(* BEFORE (compile_mini_unrepaired; what a regression would bring back, each replayed on the real
   compiler by the correspondence run under the key named):
   (a) `sub c' x by x; sub [x c]' c by b;` — the second rule's class target was checked against the
       shared anonymous lookup on its first glyph only and then overwrote the first rule's entry
       (contextual-inline-single-overwrites-shared-lookup);
   (b) `sub a' x by b c; sub [a d]' b by c b;` — the glyphs of a class target were spread over two
       anonymous lookups, the rule kept the last (contextual-inline-multiple-wrong-shared-lookup);
   (c) `sub a' b' by x; sub a' b' c' by d;` — both ligatures in one anonymous lookup, the longer one
       formed where the first rule matched (contextual-inline-ligature-shared-lookup). *)
Theorem unrepaired_inline_single_refuted :
  exists e sel s, wf_eprog e = true /\ apply_ot (compile_mini_unrepaired e) sel s <> interp_fea e sel s.
Proof. exists w_inline, w_sel, [2; 4]%N. exact w_inline_facts. Qed.
Print Assumptions unrepaired_inline_single_refuted.

Theorem unrepaired_inline_multiple_refuted :
  exists e sel s, apply_ot (compile_mini_unrepaired e) sel s <> interp_fea e sel s.
Proof. exists w_imulti, w_sel, [0; 1]%N. exact w_imulti_facts. Qed.
Print Assumptions unrepaired_inline_multiple_refuted.

Theorem unrepaired_inline_ligature_refuted :
  exists e sel s, apply_ot (compile_mini_unrepaired e) sel s <> interp_fea e sel s.
Proof. exists w_iliga, w_sel, [0; 1; 2]%N. exact w_iliga_facts. Qed.
Print Assumptions unrepaired_inline_ligature_refuted.

(* AFTER: the same three files shape as they say, on every glyph string up to length 4 over their
   five glyphs (a finite sweep, bound in the statement; the general statement is C11_full, open) *)
Theorem repaired_inline_witnesses_agree :
  agree_upto w_inline 4 = true /\ agree_upto w_imulti 4 = true /\ agree_upto w_iliga 4 = true.
Proof. exact w_inline_repaired. Qed.
Print Assumptions repaired_inline_witnesses_agree.

(* AFTER, for every contextual lookup (any rules before and after, named lookups, other inline rules):
   the rule compiled from an inline SINGLE substitution calls at input position 0 an anonymous lookup
   (index root + 1 + i) that maps each target glyph of that rule as the rule says.  `inline_ok`: the
   rule does not itself give one glyph two results.  This is the general positive form of (a). *)
Theorem inline_single_rule_lookup_sound : forall root idx rules1 back input look tgt repl n rules2 crs anons,
  forallb inline_ok (rules1 ++ XChain back input look (Some (XISingle tgt repl n)) :: rules2) = true ->
  compile_chain_g true true true root idx
    (rules1 ++ XChain back input look (Some (XISingle tgt repl n)) :: rules2) = (crs, anons) ->
  exists (crs1 : list chain_rule) (i : nat) (recs : list (nat * nat)) (crs2 : list chain_rule)
         (m : list (glyph * glyph)),
    crs = crs1 ++ mkCR back (map fst input) look ((O, (root + 1 + i)%nat) :: recs) :: crs2
    /\ length crs1 = length (fst (compile_chain_g true true true root idx rules1))
    /\ nth_error anons i = Some (AnSingle m)
    /\ forall g v, assoc g (combine tgt repl) = Some v -> assoc g m = Some v.
Proof. exact inline_single_rule_lookup. Qed.
Print Assumptions inline_single_rule_lookup_sound.

(* ... and of (b), for an inline MULTIPLE substitution (incl. `by NULL`) *)
Theorem inline_multiple_rule_lookup_sound : forall root idx rules1 back input look tgt seqs rules2 crs anons,
  combine tgt seqs <> [] ->
  forallb inline_ok (rules1 ++ XChain back input look (Some (XIMulti tgt seqs)) :: rules2) = true ->
  compile_chain_g true true true root idx
    (rules1 ++ XChain back input look (Some (XIMulti tgt seqs)) :: rules2) = (crs, anons) ->
  exists (crs1 : list chain_rule) (i : nat) (recs : list (nat * nat)) (crs2 : list chain_rule)
         (m : list (glyph * list glyph)),
    crs = crs1 ++ mkCR back (map fst input) look ((O, (root + 1 + i)%nat) :: recs) :: crs2
    /\ length crs1 = length (fst (compile_chain_g true true true root idx rules1))
    /\ nth_error anons i = Some (AnMulti m)
    /\ forall g v, assoc g (combine tgt seqs) = Some v -> assoc g m = Some v.
Proof. exact inline_multiple_rule_lookup. Qed.
Print Assumptions inline_multiple_rule_lookup_sound.

(* ... and of (c), for an inline LIGATURE substitution: the rule calls an anonymous ligature lookup whose
   table is well formed (one ligature per sequence, no sequence extends another) and holds every component
   sequence of the rule with the rule's ligature ... *)
Theorem inline_ligature_rule_lookup_sound : forall root idx rules1 back input look comps lig rules2 crs anons,
  sequences comps <> [] ->
  compile_chain_g true true true root idx
    (rules1 ++ XChain back input look (Some (XILiga comps lig)) :: rules2) = (crs, anons) ->
  exists (crs1 : list chain_rule) (i : nat) (recs : list (nat * nat)) (crs2 : list chain_rule)
         (t : list (glyph * list (list glyph * glyph))),
    crs = crs1 ++ mkCR back (map fst input) look ((O, (root + 1 + i)%nat) :: recs) :: crs2
    /\ length crs1 = length (fst (compile_chain_g true true true root idx rules1))
    /\ nth_error anons i = Some (AnLiga t) /\ tbl_ok t
    /\ forall first rest, In (first :: rest) (sequences comps) -> In (rest, lig) (row first t).
Proof. exact inline_ligature_rule_lookup. Qed.
Print Assumptions inline_ligature_rule_lookup_sound.

(* ... so that, applied where components of the rule match (any lookup flag, glyphs skipped in between), it
   forms exactly the rule's ligature, whatever other ligatures share the lookup *)
Theorem inline_ligature_lookup_forms_rule_ligature : forall gd alt rec fl t cur r lig before after c rest,
  tbl_ok t -> In (r, lig) (row cur t) ->
  match_seq gd fl (map (fun g => [g]) r) after = Some (c, rest) ->
  try_gsub_subs gd alt rec fl (lk_subs (anon_lookup fl (AnLiga t))) before cur after
  = Some ([lig], skipped_of c ++ rest).
Proof. exact liga_lookup_forms_rule_ligature. Qed.
Print Assumptions inline_ligature_lookup_forms_rule_ligature.

Example inline_rule_lookup_nonvacuous :
  forallb inline_ok (concat (map sl_rules (e_gsub w_inline))) = true
  /\ forallb inline_ok (concat (map sl_rules (e_gsub w_imulti))) = true.
Proof. split; reflexivity. Qed.

(* The hypothesis wf_eprog is needed: fea-rs accepts two rules of one lookup that give the same glyph
   different results and lets the LATER one win, where the specification reads "first matching
   rule" (keys conflicting-rules-later-wins:KIND). *)
Theorem later_rule_wins_refuted :
  exists e sel s, no_chain e = true /\ wf_eprog e = false
                  /\ apply_ot (compile_mini e) sel s <> interp_fea e sel s.
Proof. exists w_conflict, w_sel, [0%N]. exact w_conflict_facts. Qed.
Print Assumptions later_rule_wins_refuted.

(* ---- 3. the lookup kinds one by one (used by 1; each for every rule list) ------------------------------ *)
(* single substitution: the compiled glyph map answers like the first rule naming the glyph *)
Theorem single_lookup_first_match : forall rules g,
  consistent N.eqb N.eqb (flat_map single_bindings rules) = true ->
  assoc g (compile_single rules) = first_some (single_of g) rules.
Proof. exact single_refines. Qed.
Print Assumptions single_lookup_first_match.

(* multiple substitution (with the single substitutions promoted into the same lookup) *)
Theorem multiple_lookup_first_match : forall rules g,
  consistent N.eqb glyphs_eqb (flat_map multi_bindings rules) = true ->
  assoc g (compile_multi rules) = first_some (multi_of g) rules.
Proof. exact multi_refines. Qed.
Print Assumptions multiple_lookup_first_match.

Theorem alternate_lookup_first_match : forall rules g,
  consistent N.eqb glyphs_eqb (flat_map alt_bindings rules) = true ->
  assoc g (compile_alt rules) = first_some (alt_of g) rules.
Proof. exact alt_refines. Qed.
Print Assumptions alternate_lookup_first_match.

(* ligature substitution: class sequences enumerated, grouped by first glyph, duplicates dropped,
   stably sorted longest first, first match wins  =  among the rules that match at the position
   (components matched by class membership, glyphs skipped per lookup flag) the one with the most
   components, the first declared among those.  Only the single substitutions promoted into the
   lookup must not contradict each other. *)
Theorem ligature_lookup_longest_first : forall gd fl cur after rules,
  consistent N.eqb N.eqb (flat_map single_bindings (fst (single_prefix rules))) = true ->
  match assoc cur (compile_liga rules) with
  | Some ligs => try_liga gd fl ligs after
  | None => None
  end = pick_liga gd fl cur after rules None.
Proof. intros. apply liga_refines. assumption. Qed.
Print Assumptions ligature_lookup_longest_first.

Theorem single_pos_first_match : forall rules g,
  consistent N.eqb veqb (flat_map pos_bindings rules) = true ->
  assoc g (compile_possingle rules) = first_some (possingle_of g) rules.
Proof. exact possingle_refines. Qed.
Print Assumptions single_pos_first_match.

(* pair positioning: the format-1 subtable of specific pairs followed by the class subtables behaves
   like: first specific-pair rule (incl. `enum`) for the two glyphs; else the first class subtable
   whose first classes hold the first glyph decides (its first matching rule, or no adjustment) *)
Theorem pair_pos_subtables : forall gd fl rules cur after,
  pair_consistent rules ->
  try_gpos_subs gd fl (compile_pair rules) cur after
  = src_try_pos gd (mkSL fl KPosPair rules) cur after.
Proof. exact pair_refines. Qed.
Print Assumptions pair_pos_subtables.

(* when all class pairs of the lookup fit one subtable the reading is literally "first matching rule" *)
Theorem pair_first_match_when_compatible : forall gd fl rules cur after sk g2 w aft,
  pair_compatible rules = true ->
  next_nonskip gd fl after = Some (sk, (g2, w), aft) ->
  src_try_pos gd (mkSL fl KPosPair rules) cur after
  = match first_some (paire_of cur g2) rules with
    | Some v => Some (v, Some (vzero, false))
    | None =>
        match first_some (pairc_of cur g2) rules with
        | Some v => Some (v, Some (vzero, false))
        | None => if group_covers cur rules then Some (vzero, Some (vzero, false)) else None
        end
    end.
Proof. exact pair_first_match. Qed.
Print Assumptions pair_first_match_when_compatible.

(* ... and not otherwise: `pos [a b] [c d] 10; pos [a x] [b] 20;` — the pair (a, b) matches the second
   rule, but that rule sits in a second subtable and the first one covers `a`: no adjustment.  This is
   the subtable behaviour the feature file specification describes for class kerning; the source
   semantics above includes it. *)
Theorem class_pair_shadowing_example :
  pair_compatible w_shadow_rules = false
  /\ first_some (pairc_of 0%N 1%N) w_shadow_rules = Some (mkV 0 0 20 0)
  /\ src_try_pos [] (mkSL flag0 KPosPair w_shadow_rules) 0%N [(1%N, vzero)] = Some (vzero, Some (vzero, false)).
Proof. exact w_shadow_facts. Qed.
Print Assumptions class_pair_shadowing_example.

(* ---- 4. class and range expansion ------------------------------------------------------------------------ *)
(* glyph_range.rs before the repair: a numeric range stopped one glyph short of its end
   (key glyph-range-numeric-excludes-end) *)
Theorem unrepaired_numeric_range_excludes_end_refuted :
  exists a b l, range_named a b = Some l /\ ~ In b l /\ exists l', range_named_spec a b = Some l' /\ In b l'.
Proof.
  exists [103; 48; 49]%N, [103; 48; 52]%N, [[103; 48; 49]; [103; 48; 50]; [103; 48; 51]]%N.
  destruct w_range_facts as [R1 R2]. split; [exact R1|]. split.
  - intros [H|[H|[H|[]]]]; discriminate.
  - eexists. split; [exact R2|]. simpl. auto.
Qed.
Print Assumptions unrepaired_numeric_range_excludes_end_refuted.

(* after it (the reading `resolve_items true` uses): whenever a range is accepted its end glyph is a
   member.  (That this function is the repaired code's expansion is tied by the range cases of every run.) *)
Theorem numeric_range_includes_end : forall a b l, range_named_spec a b = Some l -> In b l.
Proof. exact range_spec_end. Qed.
Print Assumptions numeric_range_includes_end.
