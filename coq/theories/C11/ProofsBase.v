(* C11 — lemmas on association lists, bindings, sorted duplicate-free index lists. *)
From Coq Require Import List NArith ZArith Bool Arith Lia.
From FV.C11 Require Import Model Wf.
Import ListNotations.

(* ---- boolean equalities ------------------------------------------------------------------ *)
Lemma glyphs_eqb_eq : forall a b, glyphs_eqb a b = true <-> a = b.
Proof.
  induction a as [|x a IH]; intros [|y b]; simpl; split; intro H; try reflexivity; try discriminate.
  - apply andb_true_iff in H as [H1 H2]. apply N.eqb_eq in H1. apply IH in H2. congruence.
  - inversion H; subst. apply andb_true_iff; split; [apply N.eqb_refl | apply IH; reflexivity].
Qed.

Lemma veqb_eq : forall a b, veqb a b = true <-> a = b.
Proof.
  intros [a1 a2 a3 a4] [b1 b2 b3 b4]; unfold veqb; simpl. split; intro H.
  - repeat (apply andb_true_iff in H as [H ?]). apply Z.eqb_eq in H.
    repeat match goal with E : Z.eqb _ _ = true |- _ => apply Z.eqb_eq in E end. congruence.
  - inversion H; subst. rewrite !Z.eqb_refl. reflexivity.
Qed.

Lemma mem_In : forall g l, mem g l = true <-> In g l.
Proof.
  induction l as [|x l IH]; simpl; split; intro H; try discriminate; try contradiction.
  - destruct (N.eqb_spec g x); [left; congruence | right; apply IH; exact H].
  - destruct (N.eqb_spec g x); [reflexivity|]. destruct H as [H|H]; [congruence | apply IH; exact H].
Qed.

(* ---- assoc / upd -------------------------------------------------------------------------- *)
Lemma assoc_app {V} : forall k (a b : list (N * V)),
  assoc k (a ++ b) = match assoc k a with Some v => Some v | None => assoc k b end.
Proof.
  induction a as [|[k' v] a IH]; intros b; simpl; [reflexivity|].
  destruct (N.eqb k k'); [reflexivity | apply IH].
Qed.

Lemma assoc_upd_same {V} : forall k (v : V) m, assoc k (upd k v m) = Some v.
Proof.
  induction m as [|[k' v'] m IH]; simpl.
  - rewrite N.eqb_refl. reflexivity.
  - destruct (N.eqb_spec k k') as [E|E]; simpl.
    + rewrite N.eqb_refl. reflexivity.
    + destruct (N.eqb_spec k k'); [contradiction | exact IH].
Qed.

Lemma assoc_upd_other {V} : forall k k' (v : V) m, k <> k' -> assoc k (upd k' v m) = assoc k m.
Proof.
  induction m as [|[k2 v2] m IH]; intros NE; simpl.
  - destruct (N.eqb_spec k k'); [contradiction | reflexivity].
  - destruct (N.eqb_spec k' k2) as [E|E]; simpl.
    + subst. destruct (N.eqb_spec k k2); [contradiction | reflexivity].
    + destruct (N.eqb_spec k k2); [reflexivity | apply IH; exact NE].
Qed.

(* last binding of k in a list of bindings *)
Fixpoint last_binding {V} (k : N) (l : list (N * V)) : option V :=
  match l with
  | [] => None
  | (k', v) :: t => match last_binding k t with
                    | Some w => Some w
                    | None => if N.eqb k k' then Some v else None
                    end
  end.

Lemma assoc_fold_upd {V} : forall k (l : list (N * V)) m,
  assoc k (fold_left (fun m kv => upd (fst kv) (snd kv) m) l m)
  = match last_binding k l with Some v => Some v | None => assoc k m end.
Proof.
  induction l as [|[k' v] l IH]; intros m; simpl; [reflexivity|].
  rewrite IH. destruct (last_binding k l); [reflexivity|].
  destruct (N.eqb_spec k k') as [E|E].
  - subst. apply assoc_upd_same.
  - apply assoc_upd_other; exact E.
Qed.

(* in a consistent list of bindings the last binding of a key is its first *)
Lemma consistent_last_first {V} (veq : V -> V -> bool) :
  (forall a b, veq a b = true -> a = b) ->
  forall k (l : list (N * V)), consistent N.eqb veq l = true -> last_binding k l = assoc k l.
Proof.
  intros Hveq k. induction l as [|[k' v] l IH]; intros C; simpl in *; [reflexivity|].
  apply andb_true_iff in C as [C1 C2]. rewrite (IH C2).
  destruct (N.eqb_spec k k') as [E|E].
  - subst. destruct (assoc k' l) as [w|] eqn:A; [|reflexivity].
    (* the later binding equals v *)
    assert (In (k', w) l) as HI.
    { clear -A. induction l as [|[k2 v2] l IH]; simpl in *; [discriminate|].
      destruct (N.eqb_spec k' k2); [inversion A; subst; left; reflexivity | right; apply IH; exact A]. }
    rewrite forallb_forall in C1. specialize (C1 _ HI). simpl in C1.
    rewrite N.eqb_refl in C1. simpl in C1. apply Hveq in C1. congruence.
  - destruct (assoc k l); reflexivity.
Qed.

Lemma consistent_app_l {K V} (keq : K -> K -> bool) (veq : V -> V -> bool) : forall a b,
  consistent keq veq (a ++ b) = true -> consistent keq veq a = true.
Proof.
  induction a as [|[k v] a IH]; intros b C; simpl in *; [reflexivity|].
  apply andb_true_iff in C as [C1 C2]. apply andb_true_iff; split; [|eapply IH; exact C2].
  rewrite forallb_app in C1. apply andb_true_iff in C1 as [C1 _]. exact C1.
Qed.

Lemma consistent_app_r {K V} (keq : K -> K -> bool) (veq : V -> V -> bool) : forall a b,
  consistent keq veq (a ++ b) = true -> consistent keq veq b = true.
Proof.
  induction a as [|[k v] a IH]; intros b C; simpl in *; [exact C|].
  apply andb_true_iff in C as [_ C2]. apply IH; exact C2.
Qed.

Lemma fold_left_flat_map {A B C} (f : C -> B -> C) (g : A -> list B) : forall l c,
  fold_left (fun c x => fold_left f (g x) c) l c = fold_left f (flat_map g l) c.
Proof.
  induction l as [|x l IH]; intros c; simpl; [reflexivity|].
  rewrite fold_left_app. apply IH.
Qed.

(* index_of / nth_error against assoc on combine *)
Lemma assoc_combine {V} : forall g (t : list N) (r : list V),
  assoc g (combine t r) = match index_of g t with Some i => nth_error r i | None => None end.
Proof.
  induction t as [|x t IH]; intros r; simpl; [reflexivity|].
  destruct r as [|y r]; simpl.
  - destruct (N.eqb g x); [reflexivity|]. destruct (index_of g t); reflexivity.
  - destruct (N.eqb g x); simpl; [reflexivity|].
    rewrite IH. destruct (index_of g t); reflexivity.
Qed.

Lemma first_some_app {A B} (f : A -> option B) : forall a b,
  first_some f (a ++ b) = match first_some f a with Some y => Some y | None => first_some f b end.
Proof.
  induction a as [|x a IH]; intros b; simpl; [reflexivity|].
  destruct (f x); [reflexivity | apply IH].
Qed.

(* first_some over rules = assoc in the concatenated bindings, when each rule's answer is an assoc *)
Lemma first_some_assoc {A V} (f : A -> list (N * V)) (h : A -> option V) (g : N) :
  (forall r, h r = assoc g (f r)) ->
  forall rules, first_some h rules = assoc g (flat_map f rules).
Proof.
  intros H. induction rules as [|r rules IH]; simpl; [reflexivity|].
  rewrite assoc_app, <- H. destruct (h r); [reflexivity | exact IH].
Qed.

(* ---- sort_uniq ------------------------------------------------------------------------------ *)
Inductive ssorted : list nat -> Prop :=
| ss_nil : ssorted []
| ss_one : forall x, ssorted [x]
| ss_cons : forall x y t, x < y -> ssorted (y :: t) -> ssorted (x :: y :: t).

Lemma ins_sorted_In : forall n l x, In x (ins_sorted n l) <-> x = n \/ In x l.
Proof.
  induction l as [|y l IH]; intros x; simpl.
  - intuition.
  - destruct (Nat.ltb_spec n y); simpl; [intuition|].
    destruct (Nat.eqb_spec n y); simpl.
    + subst. intuition.
    + rewrite IH. intuition.
Qed.

Lemma ins_sorted_sorted : forall n l, ssorted l -> ssorted (ins_sorted n l).
Proof.
  intros n l S. induction S as [|x|x y t L S IH]; simpl.
  - constructor.
  - destruct (Nat.ltb_spec n x); [constructor; [exact H | constructor]|].
    destruct (Nat.eqb_spec n x); [constructor|]. constructor; [lia | constructor].
  - destruct (Nat.ltb_spec n x); [constructor; [exact H | constructor; assumption]|].
    destruct (Nat.eqb_spec n x); [constructor; assumption|].
    simpl in IH. destruct (Nat.ltb_spec n y).
    + constructor; [lia | exact IH].
    + destruct (Nat.eqb_spec n y); [constructor; assumption|].
      constructor; [exact L | exact IH].
Qed.

Lemma sort_uniq_sorted : forall l, ssorted (sort_uniq l).
Proof. induction l; simpl; [constructor | apply ins_sorted_sorted; assumption]. Qed.

Lemma sort_uniq_In : forall l x, In x (sort_uniq l) <-> In x l.
Proof.
  induction l as [|y l IH]; intros x; simpl; [reflexivity|].
  rewrite ins_sorted_In, IH. intuition.
Qed.

Lemma ssorted_head_lt : forall x t, ssorted (x :: t) -> forall y, In y t -> x < y.
Proof.
  intros x t. revert x. induction t as [|z t IH]; intros x S y HI; [contradiction|].
  inversion S; subst. destruct HI as [HI|HI]; [subst; assumption|].
  specialize (IH z H3 y HI). lia.
Qed.

Lemma ssorted_ext : forall a b, ssorted a -> ssorted b -> (forall x, In x a <-> In x b) -> a = b.
Proof.
  induction a as [|x a IH]; intros b Sa Sb E.
  - destruct b as [|y b]; [reflexivity|]. exfalso. apply (E y). left; reflexivity.
  - destruct b as [|y b]; [exfalso; apply (E x); left; reflexivity|].
    assert (ssorted a) as Sa' by (inversion Sa; subst; [constructor | assumption]).
    assert (ssorted b) as Sb' by (inversion Sb; subst; [constructor | assumption]).
    assert (x = y) as Exy.
    { destruct (proj1 (E x) (or_introl eq_refl)) as [H|H]; [congruence|].
      destruct (proj2 (E y) (or_introl eq_refl)) as [H'|H']; [congruence|].
      pose proof (ssorted_head_lt _ _ Sb _ H). pose proof (ssorted_head_lt _ _ Sa _ H'). lia. }
    subst y. f_equal. apply IH; try assumption.
    intros z. split; intro H.
    + destruct (proj1 (E z) (or_intror H)) as [H'|H']; [|exact H'].
      subst z. pose proof (ssorted_head_lt _ _ Sa _ H). lia.
    + destruct (proj2 (E z) (or_intror H)) as [H'|H']; [|exact H'].
      subst z. pose proof (ssorted_head_lt _ _ Sb _ H). lia.
Qed.

Lemma sort_uniq_ext : forall a b, (forall x, In x a <-> In x b) -> sort_uniq a = sort_uniq b.
Proof.
  intros a b E. apply ssorted_ext; try apply sort_uniq_sorted.
  intros x. rewrite !sort_uniq_In. apply E.
Qed.

Lemma sort_uniq_idem : forall l, sort_uniq (sort_uniq l) = sort_uniq l.
Proof. intros l. apply sort_uniq_ext. intros x. apply sort_uniq_In. Qed.
