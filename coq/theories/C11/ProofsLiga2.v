(* C11 — ligature substitution, second part: rules with classes against enumerated entries;
   the refinement theorem for ligature lookups. *)
From Coq Require Import List NArith ZArith Bool Arith Lia.
From FV.C11 Require Import Model Wf ProofsBase ProofsGsub ProofsLiga.
Import ListNotations.

Lemma sequences_In : forall cs s, In s (sequences cs) <-> Forall2 (fun g c => In g c) s cs.
Proof.
  induction cs as [|c cs IH]; intros s; simpl.
  - split; intro H.
    + destruct H as [H|[]]. subst. constructor.
    + inversion H. left; reflexivity.
  - rewrite in_flat_map. split.
    + intros [g [Hg Hs]]. apply in_map_iff in Hs as [s' [E Hs']]. subst s.
      constructor; [exact Hg | apply IH; exact Hs'].
    + intros H. inversion H as [|g c' s' cs' Hg Hs']; subst.
      exists g. split; [exact Hg|]. apply in_map. apply IH. exact Hs'.
Qed.

Lemma Forall2_len {A B} (R : A -> B -> Prop) : forall a b, Forall2 R a b -> length a = length b.
Proof. intros a b F. induction F; simpl; congruence. Qed.

Section Match.
Variable gd : gdef.
Variable fl : lflag.

Lemma match_seq_nil : forall l, match_seq gd fl [] l = Some ([], l).
Proof. destruct l; reflexivity. Qed.

Lemma match_seq_mono : forall l p1 p2,
  Forall2 (fun a b => forall g, mem g a = true -> mem g b = true) p1 p2 ->
  forall x, match_seq gd fl p1 l = Some x -> match_seq gd fl p2 l = Some x.
Proof.
  induction l as [|g tl IH]; intros p1 p2 F x H.
  - destruct F; simpl in *; [exact H | discriminate].
  - destruct F as [|a b p1' p2' Hab F].
    + exact H.
    + simpl in *. destruct (skip gd fl g).
      * destruct (match_seq gd fl (a :: p1') tl) as [[c r]|] eqn:E; [|discriminate].
        rewrite (IH (a :: p1') (b :: p2') (Forall2_cons _ _ Hab F) _ E). exact H.
      * destruct (mem g a) eqn:Ma; [|discriminate]. rewrite (Hab g Ma).
        destruct (match_seq gd fl p1' tl) as [[c r]|] eqn:E; [|discriminate].
        rewrite (IH p1' p2' F _ E). exact H.
Qed.

Lemma match_seq_witness : forall l cs c rest,
  match_seq gd fl cs l = Some (c, rest) ->
  exists s, Forall2 (fun g k => In g k) s cs /\ match_seq gd fl (map (fun g => [g]) s) l = Some (c, rest).
Proof.
  induction l as [|g tl IH]; intros cs c rest H.
  - destruct cs; simpl in H; [|discriminate]. exists []. split; [constructor | exact H].
  - destruct cs as [|p ps].
    + exists []. split; [constructor | exact H].
    + simpl in H. destruct (skip gd fl g) eqn:Sk.
      * destruct (match_seq gd fl (p :: ps) tl) as [[c' r']|] eqn:E; [|discriminate].
        destruct (IH _ _ _ E) as [s [F M]]. exists s. split; [exact F|].
        inversion F as [|a b s' cs' Hab F']; subst. simpl. rewrite Sk.
        simpl in M. rewrite M. exact H.
      * destruct (mem g p) eqn:Mp; [|discriminate].
        destruct (match_seq gd fl ps tl) as [[c' r']|] eqn:E; [|discriminate].
        destruct (IH _ _ _ E) as [s [F M]]. exists (g :: s). split.
        -- constructor; [apply mem_In; exact Mp | exact F].
        -- simpl. rewrite Sk, N.eqb_refl, M. exact H.
Qed.

Lemma match_seq_of_member : forall l cs s x,
  Forall2 (fun g k => In g k) s cs ->
  match_seq gd fl (map (fun g => [g]) s) l = Some x -> match_seq gd fl cs l = Some x.
Proof.
  intros l cs s x F. apply match_seq_mono.
  induction F as [|g k s cs Hg F IH]; simpl; constructor; [|exact IH].
  intros g' M. simpl in M. destruct (N.eqb_spec g' g); [subst; apply mem_In; exact Hg | discriminate].
Qed.

End Match.

Section Liga2.
Variable gd : gdef.
Variable fl : lflag.
Variable cur : glyph.
Variable after : list glyph.

Notation candE := (candE gd fl after).
Notation proj := (proj cur).
Notation lcand := (liga_cand gd fl cur after).

Lemma pickC_all_none : forall block L, (forall x, In x block -> x = None) -> pickC (block ++ L) = pickC L.
Proof.
  induction block as [|x block IH]; intros L H; [reflexivity|].
  change ((x :: block) ++ L) with (x :: (block ++ L)). cbn [pickC].
  rewrite (H x (or_introl eq_refl)). simpl. apply IH. intros y Hy. apply H. right; exact Hy.
Qed.

(* the entries a single-substitution rule contributes *)
Lemma block_single : forall (l : list (glyph * glyph)) L,
  pickC (map candE (flat_map proj (map (fun '(a, b) => ([a], b)) l)) ++ L)
  = comb (match assoc cur l with Some b => Some (1, ([b], after)) | None => None end) (pickC L).
Proof.
  induction l as [|[a b] l IH]; intros L; [reflexivity|].
  cbn [map flat_map]. unfold ProofsLiga.proj at 1. cbn [fst snd assoc].
  destruct (N.eqb_spec cur a) as [E|E].
  - cbn [app map]. cbn [pickC]. rewrite IH.
    assert (candE ([], b) = Some (1, ([b], after))) as Ec.
    { unfold ProofsLiga.candE. simpl. rewrite match_seq_nil. reflexivity. }
    rewrite Ec.
    destruct (assoc cur l) as [b'|].
    + apply comb_same_len.
    + reflexivity.
  - cbn [app]. apply IH.
Qed.

Lemma in_block_liga : forall c0 cs lig x,
  In x (map candE (flat_map proj (map (fun s => (s, lig)) (sequences (c0 :: cs))))) ->
  exists s, In cur c0 /\ In s (sequences cs) /\ x = candE (s, lig).
Proof.
  intros c0 cs lig x H. apply in_map_iff in H as [y [Ex Hy]]. subst x.
  apply in_flat_map in Hy as [e [He Hy]].
  apply in_map_iff in He as [s' [Ee Hs']]. subst e.
  simpl in Hs'. apply in_flat_map in Hs' as [g [Hg Hs']].
  apply in_map_iff in Hs' as [s [Es Hs]]. subst s'.
  unfold ProofsLiga.proj in Hy. simpl in Hy.
  destruct (N.eqb_spec cur g) as [E|E]; [|contradiction].
  destruct Hy as [Hy|[]]. subst y g. exists s. auto.
Qed.

Lemma block_liga : forall comps lig L,
  pickC (map candE (flat_map proj (map (fun s => (s, lig)) (sequences comps))) ++ L)
  = comb (lcand (XLiga comps lig)) (pickC L).
Proof.
  intros comps lig L. destruct comps as [|c0 cs].
  - reflexivity.
  - destruct (lcand (XLiga (c0 :: cs) lig)) as [cv|] eqn:Lc.
    + (* the rule matches: every entry candidate is None or that value, and one is it *)
      simpl in Lc. destruct (mem cur c0) eqn:M0; [|discriminate].
      destruct (match_seq gd fl cs after) as [[c rest]|] eqn:Mc; [|discriminate].
      inversion Lc; subst cv; clear Lc.
      rewrite (pickC_block (S (length cs), ([lig], skipped_of c ++ rest))).
      * match goal with |- (if ?b then _ else _) = _ => assert (b = true) as Hb end.
        { apply existsb_exists.
          destruct (match_seq_witness gd fl after cs c rest Mc) as [s [F Ms]].
          exists (candE (s, lig)). split.
          - apply in_map. apply in_flat_map. exists (cur :: s, lig). split.
            + apply (in_map (fun s0 : list glyph => (s0, lig))). simpl. apply in_flat_map.
              exists cur. split; [apply mem_In; exact M0|].
              apply (in_map (fun s0 : list glyph => cur :: s0)). apply sequences_In. exact F.
            + unfold ProofsLiga.proj. simpl. rewrite N.eqb_refl. left; reflexivity.
          - unfold ProofsLiga.candE. simpl. rewrite Ms. reflexivity. }
        rewrite Hb. reflexivity.
      * intros x Hx. destruct (in_block_liga _ _ _ _ Hx) as [s [_ [Hs Ex]]]. subst x.
        unfold ProofsLiga.candE. simpl.
        destruct (match_seq gd fl (map (fun g => [g]) s) after) as [[c' r']|] eqn:Ms; [|left; reflexivity].
        right. apply sequences_In in Hs.
        pose proof (match_seq_of_member gd fl after cs s _ Hs Ms) as Mc'.
        rewrite Mc in Mc'. inversion Mc'; subst.
        rewrite (Forall2_len _ _ _ Hs). reflexivity.
    + (* the rule does not match: no entry candidate does *)
      rewrite pickC_all_none; [reflexivity|].
      intros x Hx. destruct (in_block_liga _ _ _ _ Hx) as [s [H0 [Hs Ex]]]. subst x.
      unfold ProofsLiga.candE. simpl.
      destruct (match_seq gd fl (map (fun g => [g]) s) after) as [[c' r']|] eqn:Ms; [|reflexivity].
      exfalso. apply sequences_In in Hs.
      pose proof (match_seq_of_member gd fl after cs s _ Hs Ms) as Mc'.
      simpl in Lc. apply mem_In in H0. rewrite H0, Mc' in Lc. discriminate.
Qed.

Lemma block_rule : forall r L,
  pickC (map candE (flat_map proj (liga_entries_of r)) ++ L) = comb (lcand r) (pickC L).
Proof.
  intros r L. destruct r; try reflexivity.
  - (* XSingle *)
    simpl liga_entries_of. rewrite block_single. unfold liga_cand.
    rewrite single_of_assoc. simpl single_bindings.
    destruct (assoc cur (combine tgt repl)); reflexivity.
  - apply block_liga.
Qed.

Lemma pick_rules_entries : forall rules L,
  pickC (map candE (flat_map proj (flat_map liga_entries_of rules)) ++ L)
  = pickC (map lcand rules ++ L).
Proof.
  induction rules as [|r rules IH]; intros L; [reflexivity|].
  cbn [flat_map map app]. rewrite flat_map_app, map_app, <- app_assoc.
  rewrite block_rule. cbn [pickC]. rewrite IH. reflexivity.
Qed.

End Liga2.

(* ---- the refinement theorem ------------------------------------------------------------------- *)
Lemma assoc_map_values {A B} (f : A -> B) : forall k (m : list (N * A)),
  assoc k (map (fun '(g, l) => (g, f l)) m) = option_map f (assoc k m).
Proof.
  induction m as [|[g l] m IH]; simpl; [reflexivity|].
  destruct (N.eqb k g); [reflexivity | exact IH].
Qed.

Lemma single_prefix_app : forall rules,
  rules = fst (single_prefix rules) ++ snd (single_prefix rules).
Proof.
  induction rules as [|r rules IH]; [reflexivity|].
  destruct r; try reflexivity.
  simpl. destruct (single_prefix rules) as [a b]. simpl in *. congruence.
Qed.

Lemma single_prefix_single : forall rules r, In r (fst (single_prefix rules)) ->
  exists t rp, r = XSingle t rp.
Proof.
  induction rules as [|x rules IH]; intros r H; [contradiction|].
  destruct x; try contradiction.
  simpl in H. destruct (single_prefix rules) as [a b]. simpl in *.
  destruct H as [H|H]; [subst; eauto | apply IH; exact H].
Qed.

Section Liga3.
Variable gd : gdef.
Variable fl : lflag.
Variable cur : glyph.
Variable after : list glyph.

Notation candE := (candE gd fl after).
Notation lcand := (liga_cand gd fl cur after).

Lemma pick_singles : forall pre L,
  (forall r, In r pre -> exists t rp, r = XSingle t rp) ->
  pickC (map lcand pre ++ L)
  = comb (match first_some (single_of cur) pre with Some g => Some (1, ([g], after)) | None => None end)
         (pickC L).
Proof.
  induction pre as [|r pre IH]; intros L H; [reflexivity|].
  cbn [map app pickC first_some]. rewrite IH by (intros x Hx; apply H; right; exact Hx).
  destruct (H r (or_introl eq_refl)) as [t [rp E]]. subst r.
  unfold liga_cand. destruct (single_of cur (XSingle t rp)) as [g|]; [|reflexivity].
  destruct (first_some (single_of cur) pre); [apply comb_same_len | reflexivity].
Qed.

Theorem liga_refines : forall rules,
  consistent N.eqb N.eqb (flat_map single_bindings (fst (single_prefix rules))) = true ->
  match assoc cur (compile_liga rules) with
  | Some ligs => try_liga gd fl ligs after
  | None => None
  end = pick_liga gd fl cur after rules None.
Proof.
  intros rules C.
  rewrite pick_liga_pickC.
  assert (forall x : cand, stepL None x = x) as HsL by (intros [[? ?]|]; reflexivity). rewrite HsL.
  (* compiled side as a pick over the row *)
  transitivity (option_map snd (pickC (map candE (row cur (liga_table rules))))).
  { unfold compile_liga. rewrite assoc_map_values. unfold row.
    destruct (assoc cur (liga_table rules)) as [l|]; simpl; [|reflexivity].
    rewrite try_liga_first, first_some_sorted. reflexivity. }
  f_equal.
  unfold liga_table.
  pose proof (single_prefix_app rules) as Happ.
  pose proof (single_prefix_single rules) as Hpre.
  destruct (single_prefix rules) as [pre rest]. simpl in *.
  rewrite fold_lig_insert_row, pickC_add_nodup, map_app.
  (* the promoted single substitutions *)
  assert (row cur (map (fun '(a, b) => (a, [([], b)])) (compile_single pre))
          = match first_some (single_of cur) pre with Some b => [([], b)] | None => [] end) as Hrow.
  { unfold row. rewrite (assoc_map_values (fun b : glyph => [(@nil glyph, b)])).
    rewrite (single_refines pre cur C). destruct (first_some (single_of cur) pre); reflexivity. }
  rewrite Hrow. rewrite Happ. rewrite map_app.
  rewrite (pickC_app (map lcand pre)), <- (app_nil_r (map lcand rest)).
  rewrite <- pick_rules_entries, app_nil_r, <- pickC_app.
  rewrite pick_singles by exact Hpre.
  destruct (first_some (single_of cur) pre) as [b|]; [|reflexivity].
  cbn [map app pickC]. unfold ProofsLiga.candE at 1. simpl. rewrite match_seq_nil. reflexivity.
Qed.

End Liga3.
