(* C11 — class pairs that all fit one subtable: the source reading is literally "first matching rule". *)
From Coq Require Import List NArith ZArith Bool Arith Lia.
From FV.C11 Require Import Model Wf ProofsBase ProofsPair.
Import ListNotations.

Definition is_pairc (r : xrule) : bool := match r with XPairC _ _ _ => true | _ => false end.

Lemma concat_snoc {A} : forall (l : list (list A)) x, concat (l ++ [x]) = concat l ++ x.
Proof. intros. rewrite concat_app. simpl. rewrite app_nil_r. reflexivity. Qed.

Lemma pair_groups_concat : forall rules acc,
  concat (pair_groups acc rules) = concat acc ++ filter is_pairc rules.
Proof.
  induction rules as [|r rules IH]; intros acc; simpl; [rewrite app_nil_r; reflexivity|].
  destruct r; simpl; try apply IH.
  destruct (rev acc) as [|last before] eqn:R.
  - assert (acc = []) as E by (rewrite <- (rev_involutive acc), R; reflexivity). subst acc.
    rewrite IH. reflexivity.
  - assert (acc = rev before ++ [last]) as Eacc by (rewrite <- (rev_involutive acc), R; reflexivity).
    destruct (group_fits last c1 c2); rewrite IH.
    + rewrite Eacc, !concat_snoc, <- !app_assoc. reflexivity.
    + rewrite concat_snoc, <- app_assoc. reflexivity.
Qed.

Lemma first_some_filter {A B} (f : A -> option B) (p : A -> bool) :
  (forall x, p x = false -> f x = None) -> forall l, first_some f (filter p l) = first_some f l.
Proof.
  intros H. induction l as [|x l IH]; [reflexivity|]. simpl.
  destruct (p x) eqn:P; simpl.
  - rewrite IH. reflexivity.
  - rewrite (H x P). exact IH.
Qed.

Lemma group_covers_filter : forall g rules,
  group_covers g (filter is_pairc rules) = group_covers g rules.
Proof.
  intros g. induction rules as [|r rules IH]; [reflexivity|].
  unfold group_covers in *. destruct r; simpl; try exact IH. rewrite IH. reflexivity.
Qed.

Theorem pair_first_match : forall gd fl rules cur after sk g2 w aft,
  pair_compatible rules = true ->
  next_nonskip gd fl after = Some (sk, (g2, w), aft) ->
  src_try_pos gd (mkSL fl KPosPair rules) cur after
  = match first_some (paire_of cur g2) rules with
    | Some v => Some (v, Some (vzero, false))
    | None =>
        match first_some (pairc_of cur g2) rules with
        | Some v => Some (v, Some (vzero, false))
        | None => if group_covers cur rules then Some (vzero, Some (vzero, false)) else None
        end
    end.
Proof.
  intros gd fl rules cur after sk g2 w aft PC NN. unfold src_try_pos. simpl. rewrite NN.
  destruct (first_some (paire_of cur g2) rules); [reflexivity|].
  unfold pair_compatible in PC. apply Nat.leb_le in PC.
  pose proof (pair_groups_concat rules []) as CC. simpl in CC.
  destruct (pair_groups [] rules) as [|grp [|g' gs]] eqn:PG; simpl in PC; try lia.
  - (* no class rule at all *)
    simpl in CC. simpl.
    rewrite <- (first_some_filter (pairc_of cur g2) is_pairc) by (intros x Hx; destruct x; try reflexivity; discriminate).
    rewrite <- (group_covers_filter cur rules), <- CC. reflexivity.
  - simpl in CC. rewrite app_nil_r in CC. subst grp. simpl.
    rewrite group_covers_filter.
    destruct (group_covers cur rules) eqn:GC.
    + rewrite (first_some_filter (pairc_of cur g2) is_pairc) by (intros x Hx; destruct x; try reflexivity; discriminate).
      reflexivity.
    + assert (first_some (pairc_of cur g2) rules = None) as EN.
      { rewrite <- (first_some_filter (pairc_of cur g2) is_pairc) by (intros x Hx; destruct x; try reflexivity; discriminate).
        apply first_some_all_none. intros x Hx. apply filter_In in Hx as [Hx Px].
        destruct x; try discriminate. simpl.
        destruct (mem cur c1) eqn:M; [|reflexivity]. exfalso.
        assert (group_covers cur rules = true) as G.
        { unfold group_covers. apply existsb_exists. exists (XPairC c1 c2 v). split; [exact Hx | exact M]. }
        congruence. }
      rewrite EN. reflexivity.
Qed.
