(* C11 — the compiler-correctness theorem for feature files without contextual lookups. *)
From Coq Require Import List NArith ZArith Bool Arith Lia.
From FV.C11 Require Import Model Wf ProofsBase ProofsGsub ProofsLiga ProofsLiga2 ProofsPair.
Import ListNotations.

Section Flags.
Variable isng imul ilig : bool.
Notation add_inline := (add_inline_g isng imul ilig).
Notation compile_chain := (compile_chain_g isng imul ilig).
Notation anon_count := (anon_count_g isng imul ilig).
Notation ot_index := (ot_index_g isng imul ilig).
Notation compile_gsub_lookup := (compile_gsub_lookup_g isng imul ilig).
Notation compile_mini := (compile_mini_g isng imul ilig).


(* ---- loops respect extensional equality of the step function -------------------------------------- *)
Lemma gsub_loop_ext : forall gd fl t1 t2,
  (forall b c a, t1 b c a = t2 b c a) ->
  forall fuel before rest, gsub_loop gd fuel fl t1 before rest = gsub_loop gd fuel fl t2 before rest.
Proof.
  intros gd fl t1 t2 H. induction fuel as [|f IH]; intros before rest; simpl; [reflexivity|].
  destruct rest as [|g tl]; [reflexivity|].
  destruct (skip gd fl g); [apply IH|]. rewrite H.
  destruct (t2 before g tl) as [[out rest']|]; apply IH.
Qed.

Lemma gpos_loop_ext : forall gd fl t1 t2,
  (forall c a, t1 c a = t2 c a) ->
  forall fuel before rest, gpos_loop gd fuel fl t1 before rest = gpos_loop gd fuel fl t2 before rest.
Proof.
  intros gd fl t1 t2 H. induction fuel as [|f IH]; intros before rest; simpl; [reflexivity|].
  destruct rest as [|[g v] tl]; [reflexivity|].
  destruct (skip gd fl g); [apply IH|]. rewrite H.
  destruct (t2 g tl) as [[v1 [[v2 consume]|]]|]; try apply IH.
  destruct (next_nonskip gd fl tl) as [[[sk [g2 w2]] aft]|]; [|apply IH].
  destruct consume; apply IH.
Qed.

Lemma fold_left_ext {A B} (f g : A -> B -> A) : (forall a b, f a b = g a b) ->
  forall l a, fold_left f l a = fold_left g l a.
Proof. intros H. induction l; intros a0; simpl; [reflexivity | rewrite H; apply IHl]. Qed.

Lemma fold_left_ext_in {A B} (f g : A -> B -> A) : forall l,
  (forall a b, In b l -> f a b = g a b) -> forall a, fold_left f l a = fold_left g l a.
Proof.
  induction l as [|x l IH]; intros H a0; simpl; [reflexivity|].
  rewrite H by (left; reflexivity). apply IH. intros a b Hb. apply H. right; exact Hb.
Qed.

(* ---- one GSUB lookup ----------------------------------------------------------------------------------- *)
Definition simple_gsub (sl : slookup) : lookup :=
  let fl := sl_flag sl in
  match sl_kind sl with
  | KSingle => mkLookup fl [STSingle (compile_single (sl_rules sl))]
  | KMulti => mkLookup fl [STMultiple (compile_multi (sl_rules sl))]
  | KAlt => mkLookup fl [STAlternate (compile_alt (sl_rules sl))]
  | KLiga => mkLookup fl [STLigature (compile_liga (sl_rules sl))]
  | _ => mkLookup fl []
  end.

Lemma forallb_map' {A B} (f : A -> B) (p : B -> bool) : forall l, forallb p (map f l) = forallb (fun x => p (f x)) l.
Proof. induction l; simpl; [reflexivity | rewrite IHl; reflexivity]. Qed.

Lemma forallb_ext' {A} (p q : A -> bool) : (forall x, p x = q x) -> forall l, forallb p l = forallb q l.
Proof. intros H. induction l; simpl; [reflexivity | rewrite H, IHl; reflexivity]. Qed.

Lemma consistent_single_keys : forall (l : list (glyph * glyph)),
  consistent glyphs_eqb N.eqb (map (fun '(a, b) => ([a], b)) l) = consistent N.eqb N.eqb l.
Proof.
  induction l as [|[a b] l IH]; simpl; [reflexivity|]. rewrite IH. f_equal.
  rewrite forallb_map'. apply forallb_ext'. intros [a' b']. simpl. rewrite andb_true_r. reflexivity.
Qed.

Lemma prefix_bindings : forall pre, (forall r, In r pre -> exists t rp, r = XSingle t rp) ->
  flat_map liga_entries_of pre = map (fun '(a, b) => ([a], b)) (flat_map single_bindings pre).
Proof.
  induction pre as [|r pre IH]; intros H; [reflexivity|]. simpl.
  rewrite map_app, <- IH by (intros x Hx; apply H; right; exact Hx).
  destruct (H r (or_introl eq_refl)) as [t [rp E]]. subst r. reflexivity.
Qed.

Lemma wf_liga_prefix : forall rules,
  consistent glyphs_eqb N.eqb (flat_map liga_entries_of rules) = true ->
  consistent N.eqb N.eqb (flat_map single_bindings (fst (single_prefix rules))) = true.
Proof.
  intros rules C. rewrite (single_prefix_app rules), flat_map_app in C.
  apply consistent_app_l in C. rewrite prefix_bindings in C by apply single_prefix_single.
  rewrite consistent_single_keys in C. exact C.
Qed.

Section OneLookup.
Variable gd : gdef.
Variable alt : nat.

Lemma try_simple_gsub : forall rec recn sl before cur after,
  wf_lookup sl = true -> kind_eqb (sl_kind sl) KChain = false ->
  try_gsub_subs gd alt rec (sl_flag sl) (lk_subs (simple_gsub sl)) before cur after
  = src_try gd alt recn sl before cur after.
Proof.
  intros rec recn [fl k rules] before cur after W NC. unfold wf_lookup in W. unfold simple_gsub, src_try.
  simpl in *. destruct k; simpl; try discriminate; try reflexivity.
  - rewrite (single_refines rules cur W). destruct (first_some (single_of cur) rules); reflexivity.
  - rewrite (multi_refines rules cur W). destruct (first_some (multi_of cur) rules); reflexivity.
  - rewrite (alt_refines rules cur W). destruct (first_some (alt_of cur) rules) as [alts|]; [|reflexivity].
    destruct (nth_error alts alt); reflexivity.
  - rewrite <- (liga_refines gd fl cur after rules (wf_liga_prefix rules W)).
    destruct (assoc cur (compile_liga rules)) as [ligs|]; [|reflexivity].
    destruct (try_liga gd fl ligs after); reflexivity.
Qed.

Lemma lookup_simple_gsub : forall lks slks sl s,
  wf_lookup sl = true -> kind_eqb (sl_kind sl) KChain = false ->
  apply_gsub_lookup gd alt lks (simple_gsub sl) s = interp_gsub_lookup gd alt slks sl s.
Proof.
  intros lks slks sl s W NC. unfold apply_gsub_lookup, interp_gsub_lookup.
  assert (lk_flag (simple_gsub sl) = sl_flag sl) as Ef by (unfold simple_gsub; destruct (sl_kind sl); reflexivity).
  rewrite Ef. apply gsub_loop_ext. intros b c a. apply try_simple_gsub; assumption.
Qed.

(* ---- one GPOS lookup ------------------------------------------------------------------------------------ *)
Lemma try_gpos_lookup : forall sl cur after,
  wf_lookup sl = true ->
  try_gpos_subs gd (sl_flag sl) (lk_subs (compile_gpos_lookup sl)) cur after = src_try_pos gd sl cur after.
Proof.
  intros [fl k rules] cur after W. unfold wf_lookup in W. unfold compile_gpos_lookup.
  simpl in *. destruct k; try reflexivity.
  - unfold src_try_pos. simpl. rewrite (possingle_refines rules cur W).
    destruct (first_some (possingle_of cur) rules); reflexivity.
  - simpl lk_subs. apply pair_refines. apply wf_pair_consistent. exact W.
Qed.

Lemma lookup_gpos : forall sl s, wf_lookup sl = true ->
  apply_gpos_lookup gd (compile_gpos_lookup sl) s = interp_gpos_lookup gd sl s.
Proof.
  intros sl s W. unfold apply_gpos_lookup, interp_gpos_lookup.
  assert (lk_flag (compile_gpos_lookup sl) = sl_flag sl) as Ef
      by (unfold compile_gpos_lookup; destruct (sl_kind sl); reflexivity).
  rewrite Ef. apply gpos_loop_ext. intros c a. apply try_gpos_lookup. exact W.
Qed.

End OneLookup.

(* ---- without contextual lookups the lookup list is the list of compiled lookups, same indices ---------- *)
Lemma anon_count_zero : forall sl, kind_eqb (sl_kind sl) KChain = false -> anon_count sl = 0.
Proof. intros sl H. unfold anon_count. destruct (sl_kind sl); try reflexivity. discriminate. Qed.

Definition nochain (l : list slookup) : bool := forallb (fun sl => negb (kind_eqb (sl_kind sl) KChain)) l.

Lemma ot_index_id : forall lks k, nochain lks = true -> ot_index lks k = k.
Proof.
  induction lks as [|sl lks IH]; intros k H; destruct k; simpl; try reflexivity.
  simpl in H. apply andb_true_iff in H as [H1 H2]. apply negb_true_iff in H1.
  rewrite (anon_count_zero sl H1), (IH k H2). reflexivity.
Qed.

Lemma compile_gsub_simple : forall all k sl, kind_eqb (sl_kind sl) KChain = false ->
  compile_gsub_lookup all k sl = [simple_gsub sl].
Proof.
  intros all k sl H. unfold compile_gsub_lookup, simple_gsub. destruct (sl_kind sl); try reflexivity. discriminate.
Qed.

Lemma gsub_lookups_simple : forall all l n, nochain l = true ->
  flat_map (fun '(k, sl) => compile_gsub_lookup all k sl) (combine (seq n (length l)) l) = map simple_gsub l.
Proof.
  intros all. induction l as [|sl l IH]; intros n H; [reflexivity|].
  simpl in H. apply andb_true_iff in H as [H1 H2]. apply negb_true_iff in H1.
  simpl. rewrite (compile_gsub_simple all n sl H1), (IH (S n) H2). reflexivity.
Qed.

(* ---- active lookups -------------------------------------------------------------------------------------- *)
Definition sel_match (sel : selection) (k : fkey) : bool :=
  N.eqb (snd (fst k)) (s_script sel) && N.eqb (snd k) (s_lang sel) && mem (fst (fst k)) (s_feats sel).

Lemma idx_of_flat_map {B} (g : option (tag * list nat) -> list B) : forall s l fl P,
  flat_map (fun i => g (nth_error (map (fun x : fkey * list nat => (fst (fst (fst x)), snd x)) (P ++ fl)) i))
           (idx_of s l (length P) fl)
  = flat_map (fun x : fkey * list nat =>
                if N.eqb s (snd (fst (fst x))) && N.eqb l (snd (fst x))
                then g (Some (fst (fst (fst x)), snd x)) else []) fl.
Proof.
  intros s l. induction fl as [|x fl IH]; intros P; [reflexivity|].
  destruct x as [[[f s'] l'] ids]. cbn [idx_of flat_map fst snd].
  rewrite flat_map_app.
  specialize (IH (P ++ [((f, s', l'), ids)])). rewrite app_length in IH. simpl in IH.
  rewrite <- app_assoc in IH. simpl in IH.
  rewrite Nat.add_1_r in IH. apply (f_equal2 (@app B)); [|exact IH].
  destruct (N.eqb s s' && N.eqb l l'); [|reflexivity].
  simpl. rewrite app_nil_r.
  rewrite map_app, nth_error_app2 by (rewrite map_length; lia).
  rewrite map_length, Nat.sub_diag. reflexivity.
Qed.

Lemma assoc_ls_build : forall s l (fl : list (fkey * list nat)) (h : fkey * list nat -> list nat),
  assoc_ls s l (map (fun x => ((snd (fst (fst x)), snd (fst x)), h x)) fl)
  = match find (fun x => N.eqb s (snd (fst (fst x))) && N.eqb l (snd (fst x))) fl with
    | Some x => Some (h x)
    | None => None
    end.
Proof.
  intros s l fl h. induction fl as [|x fl IH]; [reflexivity|].
  destruct x as [[[f s'] l'] ids]. simpl.
  destruct (N.eqb s s' && N.eqb l l'); simpl; [reflexivity | exact IH].
Qed.

Lemma active_build : forall (F : list (fkey * list nat)) lks sel,
  active_lookups (mkTable lks (fst (build_features F)) (snd (build_features F))) sel
  = sort_uniq (flat_map (fun x => if sel_match sel (fst x) then snd x else []) F).
Proof.
  intros F lks sel. unfold active_lookups, build_features. cbn [ot_langsys ot_features fst snd].
  set (fl := filter (fun x : fkey * list nat => match snd x with [] => false | _ => true end) F).
  assert (flat_map (fun x => if sel_match sel (fst x) then snd x else []) F
          = flat_map (fun x => if sel_match sel (fst x) then snd x else []) fl) as EF.
  { unfold fl. clear. induction F as [|x F IH]; [reflexivity|].
    destruct x as [k [|i ids]]; simpl.
    - destruct (sel_match sel k); exact IH.
    - rewrite IH. reflexivity. }
  rewrite EF.
  pose proof (assoc_ls_build (s_script sel) (s_lang sel) fl
             (fun x => idx_of (snd (fst (fst x))) (snd (fst x)) 0 fl)) as HA.
  cbv beta in HA. unfold fkey in *. rewrite HA. clear HA.
  destruct (find (fun x => N.eqb (s_script sel) (snd (fst (fst x))) && N.eqb (s_lang sel) (snd (fst x))) fl)
    as [x0|] eqn:Fd.
  - apply find_some in Fd as [_ Ex]. destruct x0 as [[[f0 s0] l0] ids0]. simpl in Ex |- *.
    apply andb_true_iff in Ex as [E1 E2].
    apply N.eqb_eq in E1. apply N.eqb_eq in E2. subst s0 l0.
    f_equal.
    etransitivity;
      [exact (idx_of_flat_map (fun o => match o with
                                        | Some (tg, lks0) => if mem tg (s_feats sel) then lks0 else []
                                        | None => []
                                        end) (s_script sel) (s_lang sel) fl [])|].
    apply flat_map_ext. intros [[[f s'] l'] ids]. unfold sel_match. simpl.
    rewrite (N.eqb_sym s'), (N.eqb_sym l').
    destruct (N.eqb (s_script sel) s' && N.eqb (s_lang sel) l'); [|reflexivity].
    simpl. destruct (mem f (s_feats sel)); reflexivity.
  - (* no language system: nothing matches *)
    assert (forall x, In x fl -> sel_match sel (fst x) = false) as Hn.
    { intros x Hx. pose proof (find_none _ _ Fd x Hx) as N0. destruct x as [[[f1 s1] l1] ids1].
      unfold sel_match. simpl in *. rewrite (N.eqb_sym s1), (N.eqb_sym l1), N0. reflexivity. }
    clear - Hn. induction fl as [|x fl IH]; [reflexivity|]. simpl.
    rewrite (Hn x (or_introl eq_refl)). apply IH. intros y Hy. apply Hn. right; exact Hy.
Qed.

Lemma active_build' : forall (F : list (fkey * list nat)) lks sel gf gl,
  build_features F = (gf, gl) ->
  active_lookups (mkTable lks gf gl) sel
  = sort_uniq (flat_map (fun x => if sel_match sel (fst x) then snd x else []) F).
Proof.
  intros F lks sel gf gl E. rewrite <- (active_build F lks sel), E. reflexivity.
Qed.

Lemma feat_lids_alt : forall e sel,
  feat_lids e sel = flat_map (fun x => if sel_match sel (fst x) then snd x else []) (e_feats e).
Proof.
  intros e sel. unfold feat_lids. apply flat_map_ext. intros [[[f s] l] ids]. reflexivity.
Qed.

Lemma ids_of_feats : forall (proj : list lid -> list nat) (pick : lid -> list nat) feats sel,
  (forall l, proj l = sort_uniq (flat_map pick l)) ->
  sort_uniq (flat_map (fun x : fkey * list nat => if sel_match sel (fst x) then snd x else [])
                      (map (fun '(k, ids) => (k, proj ids)) feats))
  = proj (flat_map (fun x : fkey * list lid => if sel_match sel (fst x) then snd x else []) feats).
Proof.
  intros proj pick feats sel Hp.
  rewrite (Hp (flat_map (fun x : fkey * list lid => if sel_match sel (fst x) then snd x else []) feats)).
  apply sort_uniq_ext. intros n.
  rewrite !in_flat_map. split.
  - intros [[k ids'] [Hx Hn]]. apply in_map_iff in Hx as [[k0 ids] [E Hx]]. inversion E; subst. simpl in Hn.
    destruct (sel_match sel k) eqn:M; [|contradiction].
    rewrite Hp in Hn. apply (proj1 (sort_uniq_In _ _)) in Hn. apply in_flat_map in Hn as [i [Hi Hn]].
    exists i. split; [|exact Hn]. apply in_flat_map. exists (k, ids). split; [exact Hx|]. simpl. rewrite M. exact Hi.
  - intros [i [Hi Hn]]. apply in_flat_map in Hi as [[k ids] [Hx Hi]]. simpl in Hi.
    destruct (sel_match sel k) eqn:M; [|contradiction].
    exists (k, proj ids). split.
    + apply in_map_iff. exists (k, ids). split; [reflexivity | exact Hx].
    + simpl. rewrite M, Hp. apply sort_uniq_In. apply in_flat_map. exists i. split; assumption.
Qed.

(* ---- the theorem -------------------------------------------------------------------------------------------- *)
Theorem compile_preserves_nochain : forall e sel s,
  wf_eprog e = true -> no_chain e = true ->
  apply_ot (compile_mini e) sel s = interp_fea e sel s.
Proof.
  intros e sel s W NC. unfold wf_eprog in W. apply andb_true_iff in W as [Wg Wp].
  unfold no_chain in NC. fold (nochain (e_gsub e)) in NC.
  unfold apply_ot, interp_fea, compile_mini.
  rewrite (gsub_lookups_simple (e_gsub e) (e_gsub e) 0 NC).
  destruct (build_features (map (fun '(k, ids) => (k, map (ot_index (e_gsub e)) (gsub_ids ids))) (e_feats e)))
    as [gf gl] eqn:BG.
  destruct (build_features (map (fun '(k, ids) => (k, gpos_ids ids)) (e_feats e))) as [pf pl] eqn:BP.
  cbn [f_gsub f_gpos f_gdef].
  (* substitution *)
  assert (apply_gsub (e_gdef e) (mkTable (map simple_gsub (e_gsub e)) gf gl) sel s = interp_gsub e sel s) as EG.
  { unfold apply_gsub, interp_gsub.
    assert (active_lookups (mkTable (map simple_gsub (e_gsub e)) gf gl) sel = gsub_ids (feat_lids e sel)) as EA.
    { rewrite (active_build' _ _ _ _ _ BG).
      assert (map (fun '(k, ids) => (k, map (ot_index (e_gsub e)) (gsub_ids ids))) (e_feats e)
              = map (fun '(k, ids) => (k, gsub_ids ids)) (e_feats e)) as EM.
      { apply map_ext. intros [k ids]. f_equal. rewrite <- (map_id (gsub_ids ids)) at 2.
        apply map_ext. intros n. apply ot_index_id. exact NC. }
      rewrite EM, feat_lids_alt.
      apply (ids_of_feats gsub_ids (fun i => match i with LGsub n => [n] | _ => [] end)).
      intros l. reflexivity. }
    rewrite EA. cbn [ot_lookups]. apply fold_left_ext. intros s0 k.
    rewrite nth_error_map. destruct (nth_error (e_gsub e) k) as [sl|] eqn:N; [|reflexivity]. simpl.
    apply nth_error_In in N. rewrite forallb_forall in Wg. unfold nochain in NC. rewrite forallb_forall in NC.
    apply lookup_simple_gsub; [apply Wg; exact N | apply negb_true_iff; apply NC; exact N]. }
  rewrite EG.
  (* positioning *)
  unfold apply_gpos, interp_gpos.
  assert (active_lookups (mkTable (map compile_gpos_lookup (e_gpos e)) pf pl) sel = gpos_ids (feat_lids e sel)) as EA.
  { rewrite (active_build' _ _ _ _ _ BP), feat_lids_alt.
    apply (ids_of_feats gpos_ids (fun i => match i with LGpos n => [n] | _ => [] end)).
    intros l. reflexivity. }
  rewrite EA. cbn [ot_lookups]. apply fold_left_ext. intros s0 k.
  rewrite nth_error_map. destruct (nth_error (e_gpos e) k) as [sl|] eqn:N; [|reflexivity]. simpl.
  apply nth_error_In in N. rewrite forallb_forall in Wp.
  apply lookup_gpos. apply Wp. exact N.
Qed.

End Flags.
