(* C11 — source semantics of an elaborated feature file (`interp_fea`), following the feature
   file specification: the lookups registered for the chosen feature / script / language are
   applied in declaration order, each once over the glyph run; at each position the first
   matching rule of the lookup applies (for ligature rules: the rule with the most components,
   the first such); contextual rules apply their nested lookups at the matched positions.
   Rules are interpreted as written: glyph classes are matched by membership, replacement
   classes by the index of the matched glyph.  Executable definitions only. *)
From Coq Require Import List NArith ZArith Bool Arith.
From FV.C11 Require Import Common Range OT Source.
Import ListNotations.

Fixpoint first_some {A B : Type} (f : A -> option B) (l : list A) : option B :=
  match l with
  | [] => None
  | x :: t => match f x with Some y => Some y | None => first_some f t end
  end.

(* what a rule says about one glyph *)
Definition single_of (g : glyph) (r : xrule) : option glyph :=
  match r with
  | XSingle tgt repl => match index_of g tgt with Some i => nth_error repl i | None => None end
  | _ => None
  end.

Definition multi_of (g : glyph) (r : xrule) : option (list glyph) :=
  match r with
  | XSingle tgt repl => match index_of g tgt with
                        | Some i => option_map (fun x => [x]) (nth_error repl i)
                        | None => None
                        end
  | XMulti tgt seqs => match index_of g tgt with Some i => nth_error seqs i | None => None end
  | _ => None
  end.

Definition alt_of (g : glyph) (r : xrule) : option (list glyph) :=
  match r with
  | XAlt t alts => if N.eqb g t then Some alts else None
  | _ => None
  end.

Definition possingle_of (g : glyph) (r : xrule) : option value :=
  match r with
  | XPosSingle tgt v => if mem g tgt then Some v else None
  | _ => None
  end.

Definition paire_of (g1 g2 : glyph) (r : xrule) : option value :=
  match r with
  | XPairE c1 c2 v => if mem g1 c1 && mem g2 c2 then Some v else None
  | _ => None
  end.

Definition pairc_of (g1 g2 : glyph) (r : xrule) : option value :=
  match r with
  | XPairC c1 c2 v => if mem g1 c1 && mem g2 c2 then Some v else None
  | _ => None
  end.

(* ---- class pairs: the specification's subtables ------------------------------------------ *)
(* A class pair rule joins the current subtable when its first class is one of the subtable's
   first classes or shares no glyph with them, and likewise for the second class; otherwise a new
   subtable starts.  A pair is looked for only in the first subtable whose first classes contain
   the first glyph. *)
Definition class_fits (classes : list (list glyph)) (c : list glyph) : bool :=
  existsb (set_eqb c) classes || forallb (fun k => disjoint c k) classes.

Definition group_fits (grp : list xrule) (c1 c2 : list glyph) : bool :=
  class_fits (flat_map (fun r => match r with XPairC a _ _ => [a] | _ => [] end) grp) c1
  && class_fits (flat_map (fun r => match r with XPairC _ b _ => [b] | _ => [] end) grp) c2.

(* groups in order; each group holds its rules in order *)
Fixpoint pair_groups (acc : list (list xrule)) (rules : list xrule) : list (list xrule) :=
  match rules with
  | [] => acc
  | XPairC c1 c2 v :: t =>
      match rev acc with
      | last :: before =>
          if group_fits last c1 c2 then pair_groups (rev before ++ [last ++ [XPairC c1 c2 v]]) t
          else pair_groups (acc ++ [[XPairC c1 c2 v]]) t
      | [] => pair_groups [[XPairC c1 c2 v]] t
      end
  | _ :: t => pair_groups acc t
  end.

Definition group_covers (g1 : glyph) (grp : list xrule) : bool :=
  existsb (fun r => match r with XPairC c1 _ _ => mem g1 c1 | _ => false end) grp.

Section Interp.
Variable gd : gdef.
Variable alt : nat.

(* ---- one position, GSUB ------------------------------------------------------------------ *)
(* candidate of a ligature-lookup rule at (cur, after): number of components and the result *)
Definition liga_cand (fl : lflag) (cur : glyph) (after : list glyph) (r : xrule)
  : option (nat * (list glyph * list glyph)) :=
  match r with
  | XLiga (c0 :: cs) lig =>
      if mem cur c0 then
        match match_seq gd fl cs after with
        | Some (c, rest) => Some (S (length cs), ([lig], skipped_of c ++ rest))
        | None => None
        end
      else None
  | XSingle _ _ => match single_of cur r with Some g => Some (1, ([g], after)) | None => None end
  | _ => None
  end.

Fixpoint pick_liga (fl : lflag) (cur : glyph) (after : list glyph) (rules : list xrule)
         (best : option (nat * (list glyph * list glyph))) : option (list glyph * list glyph) :=
  match rules with
  | [] => option_map snd best
  | r :: t =>
      let best' := match liga_cand fl cur after r, best with
                   | Some (n, res), Some (m, _) => if Nat.ltb m n then Some (n, res) else best
                   | Some c, None => Some c
                   | None, _ => best
                   end in
      pick_liga fl cur after t best'
  end.

Inductive saction := ANamed (k : nat) | AInline (x : xinline).

(* the nested actions of a contextual rule, in order of input position *)
Definition chain_records (input : list (list glyph * list nat)) (inl : option xinline)
  : list (nat * saction) :=
  match inl with Some x => [(O, AInline x)] | None => [] end
  ++ flat_map (fun '(i, ids) => map (fun k => (i, ANamed k)) ids)
              (combine (seq 0 (length input)) (map snd input)).

(* an inline rule applied at the head of at_ *)
Definition inline_try (fl : lflag) (x : xinline) (at_ : list glyph) : option (list glyph * list glyph) :=
  match at_ with
  | [] => None
  | cur :: after =>
      match x with
      | XISingle tgt repl _ =>
          match single_of cur (XSingle tgt repl) with Some g => Some ([g], after) | None => None end
      | XIMulti tgt seqs =>
          match multi_of cur (XMulti tgt seqs) with Some s => Some (s, after) | None => None end
      | XILiga comps lig =>
          option_map snd (liga_cand fl cur after (XLiga comps lig))
      end
  end.

Section Try.
Variable recn : nat -> list glyph -> list glyph -> option (list glyph * list glyph).

Definition act (fl : lflag) (a : saction) (before at_ : list glyph) : option (list glyph * list glyph) :=
  match a with
  | ANamed k => recn k before at_
  | AInline x => inline_try fl x at_
  end.

Definition chain_try (fl : lflag) (before : list glyph) (cur : glyph) (after : list glyph) (r : xrule)
  : option (list glyph * list glyph) :=
  match r with
  | XChain back ((p0, ids0) :: ps) look xi =>
      if mem cur p0 then
        match match_seq gd fl (map fst ps) after with
        | None => None
        | Some (c, rest) =>
            if match_ctx gd fl back before && match_ctx gd fl look rest then
              Some (apply_records saction (act fl) before (chain_records ((p0, ids0) :: ps) xi)
                                  (cur :: map fst c) rest (O :: matched_pos 1 c))
            else None
        end
      else None
  | _ => None
  end.

Definition src_try (sl : slookup) (before : list glyph) (cur : glyph) (after : list glyph)
  : option (list glyph * list glyph) :=
  let fl := sl_flag sl in
  match sl_kind sl with
  | KSingle => option_map (fun g => ([g], after)) (first_some (single_of cur) (sl_rules sl))
  | KMulti => option_map (fun s => (s, after)) (first_some (multi_of cur) (sl_rules sl))
  | KAlt => match first_some (alt_of cur) (sl_rules sl) with
            | Some alts => match nth_error alts alt with Some g => Some ([g], after) | None => None end
            | None => None
            end
  | KLiga => pick_liga fl cur after (sl_rules sl) None
  | KChain => first_some (chain_try fl before cur after) (sl_rules sl)
  | _ => None
  end.
End Try.

Fixpoint src_at (fuel : nat) (lks : list slookup) (k : nat) (before at_ : list glyph)
  : option (list glyph * list glyph) :=
  match fuel with
  | O => None
  | S f =>
      match nth_error lks k, at_ with
      | Some sl, cur :: after => src_try (src_at f lks) sl before cur after
      | _, _ => None
      end
  end.

Definition interp_gsub_lookup (lks : list slookup) (sl : slookup) (s : list glyph) : list glyph :=
  gsub_loop gd (S (length s)) (sl_flag sl) (src_try (src_at (S (length lks)) lks) sl) [] s.

(* ---- one position, GPOS ------------------------------------------------------------------ *)
Definition src_try_pos (sl : slookup) (cur : glyph) (after : list pitem)
  : option (value * option (value * bool)) :=
  match sl_kind sl with
  | KPosSingle => match first_some (possingle_of cur) (sl_rules sl) with
                  | Some v => Some (v, None)
                  | None => None
                  end
  | KPosPair =>
      match next_nonskip gd (sl_flag sl) after with
      | None => None
      | Some (_, (g2, _), _) =>
          match first_some (paire_of cur g2) (sl_rules sl) with
          | Some v => Some (v, Some (vzero, false))
          | None =>
              match find (group_covers cur) (pair_groups [] (sl_rules sl)) with
              | None => None
              | Some grp =>
                  match first_some (pairc_of cur g2) grp with
                  | Some v => Some (v, Some (vzero, false))
                  | None => Some (vzero, Some (vzero, false))
                  end
              end
          end
      end
  | _ => None
  end.

Definition interp_gpos_lookup (sl : slookup) (s : list pitem) : list pitem :=
  gpos_loop gd (S (length s)) (sl_flag sl) (src_try_pos sl) [] s.

End Interp.

(* ---- whole program ------------------------------------------------------------------------ *)
Definition feat_lids (e : eprog) (sel : selection) : list lid :=
  flat_map (fun '((f, s, l), ids) =>
              if N.eqb s (s_script sel) && N.eqb l (s_lang sel) && mem f (s_feats sel) then ids else [])
           (e_feats e).

Definition interp_gsub (e : eprog) (sel : selection) (s : list glyph) : list glyph :=
  fold_left (fun s k => match nth_error (e_gsub e) k with
                        | Some sl => interp_gsub_lookup (e_gdef e) (s_alt sel) (e_gsub e) sl s
                        | None => s
                        end) (gsub_ids (feat_lids e sel)) s.

Definition interp_gpos (e : eprog) (sel : selection) (s : list pitem) : list pitem :=
  fold_left (fun s k => match nth_error (e_gpos e) k with
                        | Some sl => interp_gpos_lookup (e_gdef e) sl s
                        | None => s
                        end) (gpos_ids (feat_lids e sel)) s.

Definition interp_fea (e : eprog) (sel : selection) (s : list glyph) : list pitem :=
  interp_gpos e sel (map (fun g => (g, vzero)) (interp_gsub e sel s)).
