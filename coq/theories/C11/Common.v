(* C11 — shared definitions: glyphs, glyph lists as sets, association lists, value records,
   lookup flags, GDEF glyph classes.  Executable definitions only. *)
From Coq Require Import List NArith ZArith Bool Arith.
Import ListNotations.

Definition glyph := N.
Definition tag := N.          (* four bytes, big endian *)
Definition str := list N.     (* glyph name: bytes *)

Definition DFLT : tag := 1145457748%N.  (* 'DFLT' *)
Definition dflt : tag := 1684434036%N.  (* 'dflt' *)

(* ---- glyph lists used as ordered classes and as sets ------------------------------------ *)
Fixpoint mem (g : N) (l : list N) : bool :=
  match l with
  | [] => false
  | x :: t => if N.eqb g x then true else mem g t
  end.

Fixpoint index_of (g : N) (l : list N) : option nat :=
  match l with
  | [] => None
  | x :: t => if N.eqb g x then Some O else option_map S (index_of g t)
  end.

Definition subset (a b : list N) : bool := forallb (fun g => mem g b) a.
Definition set_eqb (a b : list N) : bool := subset a b && subset b a.
Definition disjoint (a b : list N) : bool := forallb (fun g => negb (mem g b)) a.

Fixpoint nat_mem (n : nat) (l : list nat) : bool :=
  match l with
  | [] => false
  | x :: t => if Nat.eqb n x then true else nat_mem n t
  end.

(* ---- association lists (first binding wins on lookup) ----------------------------------- *)
Fixpoint assoc {V : Type} (k : N) (m : list (N * V)) : option V :=
  match m with
  | [] => None
  | (k', v) :: t => if N.eqb k k' then Some v else assoc k t
  end.

(* BTreeMap::insert: overwrite an existing binding, else add one *)
Fixpoint upd {V : Type} (k : N) (v : V) (m : list (N * V)) : list (N * V) :=
  match m with
  | [] => [(k, v)]
  | (k', v') :: t => if N.eqb k k' then (k, v) :: t else (k', v') :: upd k v t
  end.

(* entry().or_insert(): keep an existing binding *)
Definition upd_new {V : Type} (k : N) (v : V) (m : list (N * V)) : list (N * V) :=
  match assoc k m with Some _ => m | None => m ++ [(k, v)] end.

Fixpoint nassoc {V : Type} (k : nat) (m : list (nat * V)) : option V :=
  match m with
  | [] => None
  | (k', v) :: t => if Nat.eqb k k' then Some v else nassoc k t
  end.

(* ---- value records ---------------------------------------------------------------------- *)
Record value := mkV { v_xp : Z; v_yp : Z; v_xa : Z; v_ya : Z }.
Definition vzero : value := mkV 0 0 0 0.
Definition vadd (a b : value) : value :=
  mkV (v_xp a + v_xp b) (v_yp a + v_yp b) (v_xa a + v_xa b) (v_ya a + v_ya b).
Definition veqb (a b : value) : bool :=
  Z.eqb (v_xp a) (v_xp b) && Z.eqb (v_yp a) (v_yp b) && Z.eqb (v_xa a) (v_xa b) && Z.eqb (v_ya a) (v_ya b).

(* ---- lookup flags and GDEF -------------------------------------------------------------- *)
(* f_filter: UseMarkFilteringSet, f_mattach: MarkAttachmentType, each with its class resolved to glyphs *)
Record lflag := mkF { f_rtl : bool; f_ibase : bool; f_ilig : bool; f_imark : bool;
                      f_filter : option (list glyph); f_mattach : option (list glyph) }.
Definition flag0 : lflag := mkF false false false false None None.

(* LookupFlagInfo ==: the flag bits (the mark attachment class id among them) and the id of the filter
   set; both ids are per distinct glyph SET *)
Definition oset_eqb (a b : option (list glyph)) : bool :=
  match a, b with
  | None, None => true
  | Some x, Some y => set_eqb x y
  | _, _ => false
  end.
Definition flag_eqb (a b : lflag) : bool :=
  Bool.eqb (f_rtl a) (f_rtl b) && Bool.eqb (f_ibase a) (f_ibase b) && Bool.eqb (f_ilig a) (f_ilig b)
  && Bool.eqb (f_imark a) (f_imark b)
  && oset_eqb (f_filter a) (f_filter b) && oset_eqb (f_mattach a) (f_mattach b).

(* GDEF glyph class definition: 1 base, 2 ligature, 3 mark, 4 component; absent = 0 *)
Definition gdef := list (glyph * N).
Definition gclass (gd : gdef) (g : glyph) : N := match assoc g gd with Some c => c | None => 0%N end.

(* the glyph is passed over by a lookup with this flag *)
Definition skip (gd : gdef) (fl : lflag) (g : glyph) : bool :=
  match gclass gd g with
  | 1%N => f_ibase fl
  | 2%N => f_ilig fl
  | 3%N => f_imark fl || match f_filter fl with Some s => negb (mem g s) | None => false end
                      || match f_mattach fl with Some s => negb (mem g s) | None => false end
  | _ => false
  end.

(* ---- a shaping request ------------------------------------------------------------------ *)
(* script, language, enabled feature tags, 0-based alternate index (feature value - 1) *)
Record selection := mkSel { s_script : tag; s_lang : tag; s_feats : list tag; s_alt : nat }.

(* sorted, duplicate-free insertion (lookup indices are applied in increasing order, once) *)
Fixpoint ins_sorted (n : nat) (l : list nat) : list nat :=
  match l with
  | [] => [n]
  | x :: t => if Nat.ltb n x then n :: l else if Nat.eqb n x then l else x :: ins_sorted n t
  end.
Definition sort_uniq (l : list nat) : list nat := fold_right ins_sorted [] l.

(* a positioned glyph *)
Definition pitem := (glyph * value)%type.
Definition pitem_eqb (a b : pitem) : bool := N.eqb (fst a) (fst b) && veqb (snd a) (snd b).
Fixpoint pitems_eqb (a b : list pitem) : bool :=
  match a, b with
  | [], [] => true
  | x :: a', y :: b' => pitem_eqb x y && pitems_eqb a' b'
  | _, _ => false
  end.
Fixpoint glyphs_eqb (a b : list glyph) : bool :=
  match a, b with
  | [], [] => true
  | x :: a', y :: b' => N.eqb x y && glyphs_eqb a' b'
  | _, _ => false
  end.
