(* C11 — inline rules of contextual lookups after the repairs of 2026-09: the anonymous lookup an
   inline single / multiple substitution rule refers to answers, on the rule's target glyphs, like
   the rule itself, and later inline rules of the lookup never change that. *)
From Coq Require Import List NArith ZArith Bool Arith Lia.
From FV.C11 Require Import Model Wf ProofsBase ProofsGsub ProofsMain.
Import ListNotations.

Section Ext.
Context {V : Type}.
Variable veq : V -> V -> bool.
Hypothesis veq_eq : forall a b, veq a b = true -> a = b.

(* m' has every binding of m *)
Definition ext (m m' : list (N * V)) : Prop := forall g v, assoc g m = Some v -> assoc g m' = Some v.

Lemma ext_refl : forall m, ext m m. Proof. intros m g v H. exact H. Qed.
Lemma ext_trans : forall a b c, ext a b -> ext b c -> ext a c.
Proof. intros a b c H1 H2 g v H. apply H2. apply H1. exact H. Qed.

Lemma last_binding_In : forall k (l : list (N * V)) w, last_binding k l = Some w -> In (k, w) l.
Proof.
  induction l as [|[k' v] l IH]; intros w H; simpl in H; [discriminate|].
  destruct (last_binding k l) as [w'|] eqn:E.
  - inversion H; subst. right. apply IH. reflexivity.
  - destruct (N.eqb_spec k k'); [|discriminate]. inversion H; subst. left. reflexivity.
Qed.

(* inserting a consistent list of bindings, each absent from m or already there with that value *)
Lemma fold_upd_spec : forall (l : list (N * V)) m,
  consistent N.eqb veq l = true ->
  (forall a b, In (a, b) l -> assoc a m = None \/ assoc a m = Some b) ->
  ext m (fold_left updf l m)
  /\ (forall g v, assoc g l = Some v -> assoc g (fold_left updf l m) = Some v).
Proof.
  intros l m C H. split.
  - intros g v A. unfold updf. rewrite assoc_fold_upd.
    destruct (last_binding g l) as [w|] eqn:L; [|exact A].
    apply last_binding_In in L. destruct (H g w L) as [N0|S0]; congruence.
  - intros g v A. unfold updf. rewrite assoc_fold_upd.
    rewrite (consistent_last_first veq veq_eq g l C), A. reflexivity.
Qed.
End Ext.

(* ---- find_or_create ---------------------------------------------------------------------------------- *)
Lemma find_idx_some {A} (p : A -> bool) : forall l i, find_idx p l = Some i ->
  exists x, nth_error l i = Some x /\ p x = true.
Proof.
  induction l as [|y l IH]; intros i H; simpl in H; [discriminate|].
  destruct (p y) eqn:P.
  - inversion H; subst. exists y. split; [reflexivity | exact P].
  - destruct (find_idx p l) as [k|] eqn:E; [|discriminate]. inversion H; subst.
    destruct (IH k eq_refl) as [x [Hx Px]]. exists x. split; assumption.
Qed.

Lemma find_or_create_spec : forall can fresh anons an i,
  find_or_create can fresh anons = (an, i) ->
  (an = anons /\ exists x, nth_error anons i = Some x /\ can x = true)
  \/ (an = anons ++ [fresh] /\ i = length anons).
Proof.
  intros can fresh anons an i H. unfold find_or_create in H.
  destruct (find_idx can anons) as [k|] eqn:E; inversion H; subst.
  - left. split; [reflexivity|]. apply find_idx_some. exact E.
  - right. split; reflexivity.
Qed.

Lemma nth_error_set_nth_same {A} : forall (l : list A) i x y, nth_error l i = Some y -> nth_error (set_nth i x l) i = Some x.
Proof.
  induction l as [|z l IH]; intros [|i] x y H; simpl in *; try discriminate; [reflexivity|].
  eapply IH. exact H.
Qed.

Lemma nth_error_set_nth_other {A} : forall (l : list A) i j x, i <> j -> nth_error (set_nth i x l) j = nth_error l j.
Proof.
  induction l as [|z l IH]; intros [|i] [|j] x H; simpl; try reflexivity; try congruence.
  apply IH. congruence.
Qed.

(* every single-substitution anonymous lookup keeps its bindings *)
Definition singles_ext (a a' : list anon) : Prop :=
  forall j m, nth_error a j = Some (AnSingle m) -> exists m', nth_error a' j = Some (AnSingle m') /\ ext m m'.
Definition multis_ext (a a' : list anon) : Prop :=
  forall j m, nth_error a j = Some (AnMulti m) -> exists m', nth_error a' j = Some (AnMulti m') /\ ext m m'.

Lemma singles_ext_refl : forall a, singles_ext a a.
Proof. intros a j m H. exists m. split; [exact H | apply ext_refl]. Qed.
Lemma singles_ext_trans : forall a b c, singles_ext a b -> singles_ext b c -> singles_ext a c.
Proof.
  intros a b c H1 H2 j m H. destruct (H1 j m H) as [m1 [N1 E1]]. destruct (H2 j m1 N1) as [m2 [N2 E2]].
  exists m2. split; [exact N2 | eapply ext_trans; eassumption].
Qed.
Lemma multis_ext_refl : forall a, multis_ext a a.
Proof. intros a j m H. exists m. split; [exact H | apply ext_refl]. Qed.
Lemma multis_ext_trans : forall a b c, multis_ext a b -> multis_ext b c -> multis_ext a c.
Proof.
  intros a b c H1 H2 j m H. destruct (H1 j m H) as [m1 [N1 E1]]. destruct (H2 j m1 N1) as [m2 [N2 E2]].
  exists m2. split; [exact N2 | eapply ext_trans; eassumption].
Qed.

Lemma nth_error_app_l {A} : forall (l l' : list A) j x, nth_error l j = Some x -> nth_error (l ++ l') j = Some x.
Proof. intros l l' j x H. rewrite nth_error_app1; [exact H|]. apply nth_error_Some. congruence. Qed.

(* ---- an inline single substitution --------------------------------------------------------------------- *)
Lemma can_add_single_spec : forall m a b, single_can_add m a b = true -> assoc a m = None \/ assoc a m = Some b.
Proof.
  intros m a b H. unfold single_can_add in H. destruct (assoc a m) as [x|]; [|left; reflexivity].
  apply N.eqb_eq in H. right. congruence.
Qed.

Lemma can_add_multi_spec : forall m a s, multi_can_add m a s = true -> assoc a m = None \/ assoc a m = Some s.
Proof.
  intros m a s H. unfold multi_can_add in H. destruct (assoc a m) as [x|]; [|left; reflexivity].
  apply glyphs_eqb_eq in H. right. congruence.
Qed.

Section Repaired.
Variable imul ilig : bool.

Theorem inline_single_add_sound : forall anons tgt repl n anons' i,
  add_inline_g true imul ilig anons (XISingle tgt repl n) = (anons', Some i) ->
  consistent N.eqb N.eqb (combine tgt repl) = true ->
  singles_ext anons anons' /\ multis_ext anons anons'
  /\ exists m', nth_error anons' i = Some (AnSingle m')
                /\ forall g v, assoc g (combine tgt repl) = Some v -> assoc g m' = Some v.
Proof.
  intros anons tgt repl n anons' i H C. simpl in H.
  destruct (find_or_create _ (AnSingle []) anons) as [an k] eqn:F.
  apply find_or_create_spec in F.
  assert (forall m, (forall a b, In (a, b) (combine tgt repl) -> assoc a m = None \/ assoc a m = Some b) ->
                    ext m (ins_pairs tgt repl m)
                    /\ forall g v, assoc g (combine tgt repl) = Some v -> assoc g (ins_pairs tgt repl m) = Some v) as SP.
  { intros m Hm. apply (fold_upd_spec N.eqb (fun a b E => proj1 (N.eqb_eq a b) E) (combine tgt repl) m C Hm). }
  destruct F as [[Ean [x [Nx Cx]]]|[Ean Ek]]; subst an.
  - (* an existing lookup *)
    destruct x as [m| |]; try discriminate. rewrite Nx in H. inversion H; subst anons' i. clear H.
    rewrite forallb_forall in Cx.
    destruct (SP m) as [E1 E2].
    { intros a b Hab. apply can_add_single_spec. apply (Cx (a, b) Hab). }
    split; [|split].
    + intros j m0 Hj. destruct (Nat.eq_dec k j) as [->|NE].
      * rewrite Nx in Hj. inversion Hj; subst m0. exists (ins_pairs tgt repl m).
        split; [eapply nth_error_set_nth_same; exact Nx | exact E1].
      * exists m0. split; [rewrite nth_error_set_nth_other by exact NE; exact Hj | apply ext_refl].
    + intros j m0 Hj. destruct (Nat.eq_dec k j) as [->|NE]; [rewrite Nx in Hj; discriminate|].
      exists m0. split; [rewrite nth_error_set_nth_other by exact NE; exact Hj | apply ext_refl].
    + exists (ins_pairs tgt repl m). split; [eapply nth_error_set_nth_same; exact Nx | exact E2].
  - (* a new lookup at the end *)
    subst k. rewrite nth_error_app2 in H by lia. rewrite Nat.sub_diag in H. simpl in H.
    inversion H; subst anons' i. clear H.
    destruct (SP []) as [_ E2]; [intros; left; reflexivity|].
    assert (forall j (x : anon), nth_error anons j = Some x ->
              nth_error (set_nth (length anons) (AnSingle (ins_pairs tgt repl [])) (anons ++ [AnSingle []])) j = Some x) as Keep.
    { intros j x Hj. rewrite nth_error_set_nth_other.
      - apply nth_error_app_l. exact Hj.
      - assert (j < length anons) by (apply nth_error_Some; congruence). lia. }
    split; [|split].
    + intros j m0 Hj. exists m0. split; [apply Keep; exact Hj | apply ext_refl].
    + intros j m0 Hj. exists m0. split; [apply Keep; exact Hj | apply ext_refl].
    + exists (ins_pairs tgt repl []). split; [|exact E2].
      eapply nth_error_set_nth_same. rewrite nth_error_app2 by lia. rewrite Nat.sub_diag. reflexivity.
Qed.


Theorem inline_multiple_add_sound : forall isng anons tgt seqs anons' i,
  add_inline_g isng true ilig anons (XIMulti tgt seqs) = (anons', Some i) ->
  consistent N.eqb glyphs_eqb (combine tgt seqs) = true ->
  singles_ext anons anons' /\ multis_ext anons anons'
  /\ exists m', nth_error anons' i = Some (AnMulti m')
                /\ forall g v, assoc g (combine tgt seqs) = Some v -> assoc g m' = Some v.
Proof.
  intros isng anons tgt seqs anons' i H C. simpl in H.
  destruct (find_or_create _ (AnMulti []) anons) as [an k] eqn:F.
  apply find_or_create_spec in F.
  assert (forall m, (forall a b, In (a, b) (combine tgt seqs) -> assoc a m = None \/ assoc a m = Some b) ->
                    ext m (ins_pairs tgt seqs m)
                    /\ forall g v, assoc g (combine tgt seqs) = Some v -> assoc g (ins_pairs tgt seqs m) = Some v) as SP.
  { intros m Hm. apply (fold_upd_spec glyphs_eqb (fun a b E => proj1 (glyphs_eqb_eq a b) E) (combine tgt seqs) m C Hm). }
  assert (exists p ps, combine tgt seqs = p :: ps) as [p0 [ps0 Eps]].
  { destruct (combine tgt seqs) as [|p ps]; [|eauto]. destruct (nth_error an k) as [[]|]; discriminate. }
  destruct F as [[Ean [x [Nx Cx]]]|[Ean Ek]]; subst an.
  - destruct x as [|m|]; try discriminate. rewrite Nx, Eps in H. inversion H; subst anons' i. clear H.
    rewrite forallb_forall in Cx.
    destruct (SP m) as [E1 E2].
    { intros a b Hab. apply can_add_multi_spec. apply (Cx (a, b) Hab). }
    split; [|split].
    + intros j m0 Hj. destruct (Nat.eq_dec k j) as [->|NE]; [rewrite Nx in Hj; discriminate|].
      exists m0. split; [rewrite nth_error_set_nth_other by exact NE; exact Hj | apply ext_refl].
    + intros j m0 Hj. destruct (Nat.eq_dec k j) as [->|NE].
      * rewrite Nx in Hj. inversion Hj; subst m0. exists (ins_pairs tgt seqs m).
        split; [eapply nth_error_set_nth_same; exact Nx | exact E1].
      * exists m0. split; [rewrite nth_error_set_nth_other by exact NE; exact Hj | apply ext_refl].
    + exists (ins_pairs tgt seqs m). split; [eapply nth_error_set_nth_same; exact Nx | exact E2].
  - subst k. rewrite nth_error_app2 in H by lia. rewrite Nat.sub_diag in H. simpl in H. rewrite Eps in H.
    inversion H; subst anons' i. clear H.
    destruct (SP []) as [_ E2]; [intros; left; reflexivity|].
    assert (forall j (x : anon), nth_error anons j = Some x ->
              nth_error (set_nth (length anons) (AnMulti (ins_pairs tgt seqs [])) (anons ++ [AnMulti []])) j = Some x) as Keep.
    { intros j x Hj. rewrite nth_error_set_nth_other.
      - apply nth_error_app_l. exact Hj.
      - assert (j < length anons) by (apply nth_error_Some; congruence). lia. }
    split; [|split].
    + intros j m0 Hj. exists m0. split; [apply Keep; exact Hj | apply ext_refl].
    + intros j m0 Hj. exists m0. split; [apply Keep; exact Hj | apply ext_refl].
    + exists (ins_pairs tgt seqs []). split; [|exact E2].
      eapply nth_error_set_nth_same. rewrite nth_error_app2 by lia. rewrite Nat.sub_diag. reflexivity.
Qed.

(* an inline ligature touches ligature lookups only *)
Lemma inline_liga_add_preserves : forall isng anons comps lig anons' o,
  add_inline_g isng imul true anons (XILiga comps lig) = (anons', o) ->
  singles_ext anons anons' /\ multis_ext anons anons'.
Proof.
  intros isng anons comps lig anons' o H. simpl in H.
  destruct (find_or_create _ (AnLiga []) anons) as [an k] eqn:F.
  apply find_or_create_spec in F.
  destruct F as [[Ean [x [Nx Cx]]]|[Ean Ek]]; subst an.
  - destruct x as [| |t]; try discriminate. rewrite Nx in H. inversion H; subst anons'. clear H.
    split; intros j m0 Hj; (destruct (Nat.eq_dec k j) as [->|NE]; [rewrite Nx in Hj; discriminate|]);
      exists m0; (split; [rewrite nth_error_set_nth_other by exact NE; exact Hj | apply ext_refl]).
  - subst k. rewrite nth_error_app2 in H by lia. rewrite Nat.sub_diag in H. simpl in H.
    inversion H; subst anons'. clear H.
    split; intros j m0 Hj; exists m0; (split; [|apply ext_refl]);
      (rewrite nth_error_set_nth_other;
       [apply nth_error_app_l; exact Hj
       | assert (j < length anons) by (apply nth_error_Some; congruence); lia]).
Qed.

End Repaired.

(* ---- the whole contextual lookup, repaired compiler ------------------------------------------------------ *)
Definition inline_ok (r : xrule) : bool :=
  match r with
  | XChain _ _ _ (Some (XISingle tgt repl _)) => consistent N.eqb N.eqb (combine tgt repl)
  | XChain _ _ _ (Some (XIMulti tgt seqs)) => consistent N.eqb glyphs_eqb (combine tgt seqs)
  | _ => true
  end.

Definition chain_step (root : nat) (idx : nat -> nat) (st : list chain_rule * list anon) (r : xrule) :=
  let '(crs, anons) := st in
  match r with
  | XChain back input look xi =>
      let '(anons', inl_rec) :=
        match xi with
        | None => (anons, [])
        | Some x => let '(an, i) := add_inline_g true true true anons x in
                    (an, match i with Some k => [(O, root + 1 + k)] | None => [] end)
        end in
      let named := flat_map (fun '(i, ids) => map (fun k => (i, idx k)) ids)
                            (combine (seq 0 (length input)) (map snd input)) in
      (crs ++ [mkCR back (map fst input) look (inl_rec ++ named)], anons')
  | _ => (crs, anons)
  end.

Lemma compile_chain_fold : forall root idx rules,
  compile_chain_g true true true root idx rules = fold_left (chain_step root idx) rules ([], []).
Proof.
  intros. unfold compile_chain_g. apply ProofsMain.fold_left_ext. intros [crs anons] r. reflexivity.
Qed.

Lemma add_inline_ext : forall anons x anons' o,
  add_inline_g true true true anons x = (anons', o) ->
  inline_ok (XChain [] [] [] (Some x)) = true ->
  singles_ext anons anons' /\ multis_ext anons anons'.
Proof.
  intros anons x anons' o H W. destruct x as [tgt repl n|tgt seqs|comps lig].
  - simpl in W. destruct o as [i|].
    + destruct (inline_single_add_sound true true _ _ _ _ _ _ H W) as [A [B _]]. split; assumption.
    + simpl in H. destruct (find_or_create _ (AnSingle []) anons) as [an k]. discriminate.
  - simpl in W. destruct o as [i|].
    + destruct (inline_multiple_add_sound true true _ _ _ _ _ H W) as [A [B _]]. split; assumption.
    + (* no target glyph: nothing inserted *)
      simpl in H. destruct (find_or_create _ (AnMulti []) anons) as [an k] eqn:F.
      destruct (combine tgt seqs) as [|p ps] eqn:Eps; [|discriminate].
      apply find_or_create_spec in F.
      assert (ins_pairs tgt seqs = fun m => m) as Eid by (unfold ins_pairs; rewrite Eps; reflexivity).
      destruct F as [[Ean [x [Nx Cx]]]|[Ean Ek]]; subst an.
      * destruct x as [|m|]; try discriminate. rewrite Nx, Eid in H. inversion H; subst anons'.
        split; intros j m0 Hj.
        -- destruct (Nat.eq_dec k j) as [->|NE]; [rewrite Nx in Hj; discriminate|].
           exists m0. split; [rewrite nth_error_set_nth_other by exact NE; exact Hj | apply ext_refl].
        -- destruct (Nat.eq_dec k j) as [->|NE].
           ++ rewrite Nx in Hj. inversion Hj; subst m0. exists m.
              split; [eapply nth_error_set_nth_same; exact Nx | apply ext_refl].
           ++ exists m0. split; [rewrite nth_error_set_nth_other by exact NE; exact Hj | apply ext_refl].
      * subst k. rewrite nth_error_app2 in H by lia. rewrite Nat.sub_diag in H. simpl in H.
        inversion H; subst anons'.
        split; intros j m0 Hj; exists m0; (split; [|apply ext_refl]);
          (rewrite nth_error_set_nth_other;
           [apply nth_error_app_l; exact Hj
           | assert (j < length anons) by (apply nth_error_Some; congruence); lia]).
  - eapply inline_liga_add_preserves. exact H.
Qed.

Lemma chain_fold_ext : forall root idx rules crs0 an0 crs an,
  forallb inline_ok rules = true ->
  fold_left (chain_step root idx) rules (crs0, an0) = (crs, an) ->
  (exists tail, crs = crs0 ++ tail) /\ singles_ext an0 an /\ multis_ext an0 an.
Proof.
  intros root idx. induction rules as [|r rules IH]; intros crs0 an0 crs an W H; cbn [fold_left forallb] in *.
  - inversion H; subst. split; [exists []; rewrite app_nil_r; reflexivity|].
    split; [apply singles_ext_refl | apply multis_ext_refl].
  - apply andb_true_iff in W as [W1 W2].
    destruct (chain_step root idx (crs0, an0) r) as [crs1 an1] eqn:S.
    destruct (IH _ _ _ _ W2 H) as [[tail Et] [E1 E2]].
    assert ((exists t1, crs1 = crs0 ++ t1) /\ singles_ext an0 an1 /\ multis_ext an0 an1) as [[t1 Et1] [F1 F2]].
    { unfold chain_step in S. destruct r; try (inversion S; subst; split;
        [exists []; rewrite app_nil_r; reflexivity | split; [apply singles_ext_refl | apply multis_ext_refl]]).
      destruct inl as [x|].
      - destruct (add_inline_g true true true an0 x) as [an' o] eqn:A. inversion S; subst.
        split; [eexists; reflexivity|]. eapply add_inline_ext; [exact A|].
        destruct x; exact W1.
      - inversion S; subst. split; [eexists; reflexivity|].
        split; [apply singles_ext_refl | apply multis_ext_refl]. }
    split; [exists (t1 ++ tail); rewrite Et, Et1, app_assoc; reflexivity|].
    split; [eapply singles_ext_trans; eassumption | eapply multis_ext_trans; eassumption].
Qed.

(* The positive counterpart of the first two former counterexamples, for every contextual lookup: in
   the compiled lookup list of the (repaired) compiler, the rule compiled from an inline single
   substitution calls, at input position 0, an anonymous single-substitution lookup that maps every
   target glyph of THAT rule as the rule says — whatever inline rules precede or follow it. *)
Theorem inline_single_rule_lookup : forall root idx rules1 back input look tgt repl n rules2 crs anons,
  forallb inline_ok (rules1 ++ XChain back input look (Some (XISingle tgt repl n)) :: rules2) = true ->
  compile_chain_g true true true root idx
    (rules1 ++ XChain back input look (Some (XISingle tgt repl n)) :: rules2) = (crs, anons) ->
  exists crs1 i recs crs2 m,
    crs = crs1 ++ mkCR back (map fst input) look ((O, root + 1 + i) :: recs) :: crs2
    /\ length crs1 = length (fst (compile_chain_g true true true root idx rules1))
    /\ nth_error anons i = Some (AnSingle m)
    /\ forall g v, assoc g (combine tgt repl) = Some v -> assoc g m = Some v.
Proof.
  intros root idx rules1 back input look tgt repl n rules2 crs anons W H.
  rewrite compile_chain_fold, fold_left_app in H. rewrite compile_chain_fold.
  destruct (fold_left (chain_step root idx) rules1 ([], [])) as [crs1 an1] eqn:F1.
  rewrite forallb_app in W. apply andb_true_iff in W as [W1 W2]. simpl in W2.
  apply andb_true_iff in W2 as [Wr W2].
  cbn [fold_left] in H.
  destruct (chain_step root idx (crs1, an1) (XChain back input look (Some (XISingle tgt repl n)))) as [crs' an2] eqn:S.
  unfold chain_step in S.
  destruct (add_inline_g true true true an1 (XISingle tgt repl n)) as [an' o] eqn:A.
  assert (exists i, o = Some i) as [i Eo].
  { simpl in A. destruct (find_or_create _ (AnSingle []) an1) as [an k]. inversion A. eauto. }
  subst o. inversion S; subst crs' an2. clear S.
  destruct (inline_single_add_sound true true _ _ _ _ _ _ A Wr) as [_ [_ [m' [Nm Hm]]]].
  destruct (chain_fold_ext root idx rules2 _ _ _ _ W2 H) as [[tail Et] [E1 _]].
  destruct (E1 i m' Nm) as [m [Nf Ef]].
  exists crs1, i, (flat_map (fun '(i0, ids) => map (fun k => (i0, idx k)) ids)
                            (combine (seq 0 (length input)) (map snd input))), tail, m.
  split; [rewrite Et, <- app_assoc; reflexivity|].
  split; [reflexivity|]. split; [exact Nf|].
  intros g v Hg. apply Ef. apply Hm. exact Hg.
Qed.

Theorem inline_multiple_rule_lookup : forall root idx rules1 back input look tgt seqs rules2 crs anons,
  combine tgt seqs <> [] ->
  forallb inline_ok (rules1 ++ XChain back input look (Some (XIMulti tgt seqs)) :: rules2) = true ->
  compile_chain_g true true true root idx
    (rules1 ++ XChain back input look (Some (XIMulti tgt seqs)) :: rules2) = (crs, anons) ->
  exists crs1 i recs crs2 m,
    crs = crs1 ++ mkCR back (map fst input) look ((O, root + 1 + i) :: recs) :: crs2
    /\ length crs1 = length (fst (compile_chain_g true true true root idx rules1))
    /\ nth_error anons i = Some (AnMulti m)
    /\ forall g v, assoc g (combine tgt seqs) = Some v -> assoc g m = Some v.
Proof.
  intros root idx rules1 back input look tgt seqs rules2 crs anons NE W H.
  rewrite compile_chain_fold, fold_left_app in H. rewrite compile_chain_fold.
  destruct (fold_left (chain_step root idx) rules1 ([], [])) as [crs1 an1] eqn:F1.
  rewrite forallb_app in W. apply andb_true_iff in W as [W1 W2]. simpl in W2.
  apply andb_true_iff in W2 as [Wr W2].
  cbn [fold_left] in H.
  destruct (chain_step root idx (crs1, an1) (XChain back input look (Some (XIMulti tgt seqs)))) as [crs' an2] eqn:S.
  unfold chain_step in S.
  destruct (add_inline_g true true true an1 (XIMulti tgt seqs)) as [an' o] eqn:A.
  assert (exists i, o = Some i) as [i Eo].
  { simpl in A. destruct (find_or_create _ (AnMulti []) an1) as [an k].
    destruct (combine tgt seqs); [contradiction|]. inversion A. eauto. }
  subst o. inversion S; subst crs' an2. clear S.
  destruct (inline_multiple_add_sound true true _ _ _ _ _ A Wr) as [_ [_ [m' [Nm Hm]]]].
  destruct (chain_fold_ext root idx rules2 _ _ _ _ W2 H) as [[tail Et] [_ E2]].
  destruct (E2 i m' Nm) as [m [Nf Ef]].
  exists crs1, i, (flat_map (fun '(i0, ids) => map (fun k => (i0, idx k)) ids)
                            (combine (seq 0 (length input)) (map snd input))), tail, m.
  split; [rewrite Et, <- app_assoc; reflexivity|].
  split; [reflexivity|]. split; [exact Nf|].
  intros g v Hg. apply Ef. apply Hm. exact Hg.
Qed.
