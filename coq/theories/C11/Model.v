(* C11 — Compiled GSUB/GPOS behave as the feature file says.  The executable model:
     Common.v   glyphs, value records, lookup flags, GDEF classes
     Range.v    glyph-name ranges (fea-rs glyph_range.rs)
     OT.v       abstract OpenType layout tables and the lookup application algorithm `apply_ot`
     Source.v   the feature-file subset and the walk that groups rules into lookups (`elab`)
     Interp.v   source semantics `interp_fea`
     Compile.v  `compile_mini`
   No proofs here. *)
From FV.C11 Require Export Common Range OT Source Interp Compile.
From Coq Require Import List NArith ZArith Bool.
Import ListNotations.

(* comparison helpers used by the generated cases *)
Definition opt_pitems_eqb (a b : option (list pitem)) : bool :=
  match a, b with
  | Some x, Some y => pitems_eqb x y
  | None, None => true
  | _, _ => false
  end.

(* all glyph strings over an alphabet up to a length *)
Fixpoint strings_upto (alphabet : list glyph) (n : nat) : list (list glyph) :=
  match n with
  | O => [[]]
  | S k => [] :: flat_map (fun g => map (fun s => g :: s) (strings_upto alphabet k)) alphabet
  end.
