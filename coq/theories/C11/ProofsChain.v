(* C11 — contextual lookups whose rules call NAMED lookups only (no inline rules; `ignore` rules
   included): the compiler-correctness theorem extends to them. *)
From Coq Require Import List NArith ZArith Bool Arith Lia.
From FV.C11 Require Import Model Wf ProofsBase ProofsGsub ProofsLiga ProofsLiga2 ProofsPair ProofsMain.
Import ListNotations.

Section Flags.
Variable isng imul ilig : bool.
Notation add_inline := (add_inline_g isng imul ilig).
Notation compile_chain := (compile_chain_g isng imul ilig).
Notation anon_count := (anon_count_g isng imul ilig).
Notation ot_index := (ot_index_g isng imul ilig).
Notation compile_gsub_lookup := (compile_gsub_lookup_g isng imul ilig).
Notation compile_mini := (compile_mini_g isng imul ilig).


Definition rule_no_inline (r : xrule) : bool :=
  match r with XChain _ _ _ (Some _) => false | _ => true end.
Definition lookup_no_inline (sl : slookup) : bool := forallb rule_no_inline (sl_rules sl).
Definition no_inline (e : eprog) : bool := forallb lookup_no_inline (e_gsub e).

(* ---- compile_chain without inline rules --------------------------------------------------------------- *)
Definition named_recs (idx : nat -> nat) (input : list (list glyph * list nat)) : list (nat * nat) :=
  flat_map (fun '(i, ids) => map (fun k => (i, idx k)) ids) (combine (seq 0 (length input)) (map snd input)).

Definition plain_rules (idx : nat -> nat) (rules : list xrule) : list chain_rule :=
  flat_map (fun r => match r with
                     | XChain back input look _ => [mkCR back (map fst input) look (named_recs idx input)]
                     | _ => []
                     end) rules.

Lemma compile_chain_plain_gen : forall root idx rules crs0 an0,
  forallb rule_no_inline rules = true ->
  fold_left (fun '(crs, anons) r =>
               match r with
               | XChain back input look xi =>
                   let '(anons', inl_rec) :=
                     match xi with
                     | None => (anons, [])
                     | Some x => let '(an, i) := add_inline anons x in
                                 (an, match i with Some k => [(O, root + 1 + k)] | None => [] end)
                     end in
                   let named := flat_map (fun '(i, ids) => map (fun k => (i, idx k)) ids)
                                         (combine (seq 0 (length input)) (map snd input)) in
                   (crs ++ [mkCR back (map fst input) look (inl_rec ++ named)], anons')
               | _ => (crs, anons)
               end) rules (crs0, an0)
  = (crs0 ++ plain_rules idx rules, an0).
Proof.
  intros root idx. induction rules as [|r rules IH]; intros crs0 an0 H; simpl.
  - rewrite app_nil_r. reflexivity.
  - simpl in H. apply andb_true_iff in H as [H1 H2].
    destruct r; try (rewrite IH by exact H2; reflexivity).
    destruct inl as [x|]; [discriminate|].
    rewrite IH by exact H2. simpl. rewrite <- app_assoc. reflexivity.
Qed.

Lemma compile_chain_plain : forall root idx rules,
  forallb rule_no_inline rules = true ->
  compile_chain root idx rules = (plain_rules idx rules, []).
Proof. intros. unfold compile_chain. rewrite compile_chain_plain_gen by assumption. reflexivity. Qed.

Lemma anon_count_plain : forall sl, lookup_no_inline sl = true -> anon_count sl = 0.
Proof.
  intros sl H. unfold anon_count. destruct (sl_kind sl); try reflexivity.
  rewrite compile_chain_plain by exact H. reflexivity.
Qed.

Lemma ot_index_plain : forall lks k, forallb lookup_no_inline lks = true -> ot_index lks k = k.
Proof.
  induction lks as [|sl lks IH]; intros k H; destruct k; simpl; try reflexivity.
  simpl in H. apply andb_true_iff in H as [H1 H2].
  rewrite (anon_count_plain sl H1), (IH k H2). reflexivity.
Qed.

Lemma named_recs_ext : forall f g input, (forall k, f k = g k) -> named_recs f input = named_recs g input.
Proof.
  intros f g input H. unfold named_recs. apply flat_map_ext. intros [i ids].
  apply map_ext. intros k. rewrite H. reflexivity.
Qed.

Lemma plain_rules_ext : forall f g rules, (forall k, f k = g k) -> plain_rules f rules = plain_rules g rules.
Proof.
  intros f g rules H. unfold plain_rules. apply flat_map_ext. intros r. destruct r; try reflexivity.
  rewrite (named_recs_ext f g input H). reflexivity.
Qed.

(* the one lookup a source lookup compiles to *)
Definition plain_gsub (sl : slookup) : lookup :=
  match sl_kind sl with
  | KChain => mkLookup (sl_flag sl) (map (fun r => STChain [r]) (plain_rules (fun k => k) (sl_rules sl)))
  | _ => simple_gsub sl
  end.

Lemma compile_gsub_plain : forall all k sl,
  forallb lookup_no_inline all = true -> lookup_no_inline sl = true ->
  compile_gsub_lookup all k sl = [plain_gsub sl].
Proof.
  intros all k sl Ha Hs. unfold compile_gsub_lookup, plain_gsub, simple_gsub.
  destruct (sl_kind sl); try reflexivity.
  rewrite compile_chain_plain by exact Hs. simpl.
  rewrite (plain_rules_ext (ot_index all) (fun k => k)) by (intros; apply ot_index_plain; exact Ha).
  reflexivity.
Qed.

Lemma gsub_lookups_plain : forall all l n,
  forallb lookup_no_inline all = true -> forallb lookup_no_inline l = true ->
  flat_map (fun '(k, sl) => compile_gsub_lookup all k sl) (combine (seq n (length l)) l) = map plain_gsub l.
Proof.
  intros all. induction l as [|sl l IH]; intros n Ha H; [reflexivity|].
  simpl in H. apply andb_true_iff in H as [H1 H2].
  simpl. rewrite (compile_gsub_plain all n sl Ha H1), (IH (S n) Ha H2). reflexivity.
Qed.

(* ---- nested application ---------------------------------------------------------------------------------- *)
Lemma rec_step_map {A B} (f : A -> B) (recB : B -> list glyph -> list glyph -> option (list glyph * list glyph))
      before st i a :
  rec_step B recB before st (i, f a) = rec_step A (fun x => recB (f x)) before st (i, a).
Proof. reflexivity. Qed.

Lemma apply_records_map {A B} (f : A -> B) recB before (recs : list (nat * A)) W rest mp :
  apply_records B recB before (map (fun '(i, a) => (i, f a)) recs) W rest mp
  = apply_records A (fun x => recB (f x)) before recs W rest mp.
Proof.
  unfold apply_records. f_equal.
  generalize (W ++ rest, mp, length W). induction recs as [|[i a] recs IH]; intros st; simpl; [reflexivity|].
  rewrite IH. reflexivity.
Qed.

Lemma apply_records_ext {A} (r1 r2 : A -> list glyph -> list glyph -> option (list glyph * list glyph)) :
  (forall a b c, r1 a b c = r2 a b c) ->
  forall before recs W rest mp,
  apply_records A r1 before recs W rest mp = apply_records A r2 before recs W rest mp.
Proof.
  intros H before recs W rest mp. unfold apply_records.
  assert (forall st, fold_left (rec_step A r1 before) recs st = fold_left (rec_step A r2 before) recs st) as E.
  { induction recs as [|[i a] recs IH]; intros st; simpl; [reflexivity|].
    rewrite <- IH. f_equal. unfold rec_step. destruct st as [[B mp0] e].
    destruct (nth_error mp0 i); [|reflexivity].
    destruct (Nat.leb (length B) n); [reflexivity|]. rewrite H. reflexivity. }
  rewrite E. reflexivity.
Qed.

Lemma chain_records_named : forall input,
  chain_records input None = map (fun '(i, k) => (i, ANamed k)) (named_recs (fun k => k) input).
Proof.
  intros input. unfold chain_records, named_recs. simpl.
  induction (combine (seq 0 (length input)) (map snd input)) as [|[i ids] l IH]; [reflexivity|].
  simpl. rewrite map_app, IH. f_equal. rewrite map_map. reflexivity.
Qed.

Section ChainTry.
Variable gd : gdef.
Variable alt : nat.
Variable rec recn : nat -> list glyph -> list glyph -> option (list glyph * list glyph).
Hypothesis REC : forall k b a, rec k b a = recn k b a.

Lemma try_chain_plain : forall fl back input look before cur after,
  try_chain_rule gd rec fl (mkCR back (map fst input) look (named_recs (fun k => k) input)) before cur after
  = chain_try gd recn fl before cur after (XChain back input look None).
Proof.
  intros fl back input look before cur after. unfold try_chain_rule, chain_try. simpl.
  destruct input as [|[p0 ids0] ps]; [reflexivity|]. cbn [map fst].
  destruct (mem cur p0); [|reflexivity].
  destruct (match_seq gd fl (map fst ps) after) as [[c rest]|]; [|reflexivity].
  destruct (match_ctx gd fl back before && match_ctx gd fl look rest); [|reflexivity].
  f_equal. rewrite chain_records_named.
  rewrite (apply_records_map (fun k => ANamed k) (act gd recn fl)).
  apply apply_records_ext. intros k b a. simpl. apply REC.
Qed.

Lemma try_plain_rules : forall fl rules before cur after,
  forallb rule_no_inline rules = true ->
  try_gsub_subs gd alt rec fl (map (fun r => STChain [r]) (plain_rules (fun k => k) rules)) before cur after
  = first_some (chain_try gd recn fl before cur after) rules.
Proof.
  intros fl rules before cur after. induction rules as [|r rules IH]; intros H; [reflexivity|].
  simpl in H. apply andb_true_iff in H as [H1 H2]. specialize (IH H2).
  destruct r; try exact IH.
  destruct inl as [x|]; [discriminate|].
  unfold plain_rules. cbn [flat_map app map try_gsub_subs try_gsub_sub first_some].
  rewrite try_chain_plain.
  destruct (chain_try gd recn fl before cur after (XChain back input look None)); [reflexivity|].
  exact IH.
Qed.

Lemma try_plain_gsub : forall sl before cur after,
  wf_lookup sl = true -> lookup_no_inline sl = true ->
  try_gsub_subs gd alt rec (sl_flag sl) (lk_subs (plain_gsub sl)) before cur after
  = src_try gd alt recn sl before cur after.
Proof.
  intros sl before cur after W NI. destruct (kind_eqb (sl_kind sl) KChain) eqn:K.
  - destruct sl as [fl k rules]. destruct k; try discriminate.
    unfold plain_gsub, src_try. simpl. apply try_plain_rules. exact NI.
  - assert (plain_gsub sl = simple_gsub sl) as E.
    { unfold plain_gsub. destruct (sl_kind sl); try reflexivity. discriminate. }
    rewrite E. apply try_simple_gsub; assumption.
Qed.

End ChainTry.

(* nested application agrees at every depth *)
Lemma rec_src_at : forall gd alt slks,
  forallb wf_lookup slks = true -> forallb lookup_no_inline slks = true ->
  forall fuel k b a,
  rec_at gd alt fuel (map plain_gsub slks) k b a = src_at gd alt fuel slks k b a.
Proof.
  intros gd alt slks W NI. induction fuel as [|f IH]; intros k b a; [reflexivity|].
  simpl. rewrite nth_error_map. destruct (nth_error slks k) as [sl|] eqn:N; [|reflexivity]. simpl.
  destruct a as [|cur after]; [reflexivity|].
  apply nth_error_In in N. rewrite forallb_forall in W, NI.
  assert (lk_flag (plain_gsub sl) = sl_flag sl) as Ef.
  { unfold plain_gsub, simple_gsub. destruct (sl_kind sl); reflexivity. }
  rewrite Ef. apply try_plain_gsub; [exact IH | apply W; exact N | apply NI; exact N].
Qed.

Lemma lookup_plain_gsub : forall gd alt slks sl s,
  forallb wf_lookup slks = true -> forallb lookup_no_inline slks = true ->
  wf_lookup sl = true -> lookup_no_inline sl = true ->
  apply_gsub_lookup gd alt (map plain_gsub slks) (plain_gsub sl) s = interp_gsub_lookup gd alt slks sl s.
Proof.
  intros gd alt slks sl s W NI Ws NIs. unfold apply_gsub_lookup, interp_gsub_lookup.
  assert (lk_flag (plain_gsub sl) = sl_flag sl) as Ef.
  { unfold plain_gsub, simple_gsub. destruct (sl_kind sl); reflexivity. }
  rewrite Ef, map_length. apply gsub_loop_ext. intros b c a.
  apply try_plain_gsub; [|assumption|assumption].
  intros k b0 a0. apply rec_src_at; assumption.
Qed.

(* ---- the theorem, now with contextual lookups that call named lookups ----------------------------------- *)
Theorem compile_preserves_noinline : forall e sel s,
  wf_eprog e = true -> no_inline e = true ->
  apply_ot (compile_mini e) sel s = interp_fea e sel s.
Proof.
  intros e sel s W NI. unfold wf_eprog in W. apply andb_true_iff in W as [Wg Wp].
  unfold no_inline in NI.
  unfold apply_ot, interp_fea, compile_mini.
  rewrite (gsub_lookups_plain (e_gsub e) (e_gsub e) 0 NI NI).
  destruct (build_features (map (fun '(k, ids) => (k, map (ot_index (e_gsub e)) (gsub_ids ids))) (e_feats e)))
    as [gf gl] eqn:BG.
  destruct (build_features (map (fun '(k, ids) => (k, gpos_ids ids)) (e_feats e))) as [pf pl] eqn:BP.
  cbn [f_gsub f_gpos f_gdef].
  assert (apply_gsub (e_gdef e) (mkTable (map plain_gsub (e_gsub e)) gf gl) sel s = interp_gsub e sel s) as EG.
  { unfold apply_gsub, interp_gsub.
    assert (active_lookups (mkTable (map plain_gsub (e_gsub e)) gf gl) sel = gsub_ids (feat_lids e sel)) as EA.
    { rewrite (active_build' _ _ _ _ _ BG).
      assert (map (fun '(k, ids) => (k, map (ot_index (e_gsub e)) (gsub_ids ids))) (e_feats e)
              = map (fun '(k, ids) => (k, gsub_ids ids)) (e_feats e)) as EM.
      { apply map_ext. intros [k ids]. f_equal. rewrite <- (map_id (gsub_ids ids)) at 2.
        apply map_ext. intros n. apply ot_index_plain. exact NI. }
      rewrite EM, feat_lids_alt.
      apply (ids_of_feats gsub_ids (fun i => match i with LGsub n => [n] | _ => [] end)).
      intros l. reflexivity. }
    rewrite EA. cbn [ot_lookups]. apply fold_left_ext. intros s0 k.
    rewrite nth_error_map. destruct (nth_error (e_gsub e) k) as [sl|] eqn:N; [|reflexivity]. simpl.
    apply nth_error_In in N.
    apply lookup_plain_gsub; try assumption.
    - rewrite forallb_forall in Wg. apply Wg. exact N.
    - rewrite forallb_forall in NI. apply NI. exact N. }
  rewrite EG.
  unfold apply_gpos, interp_gpos.
  assert (active_lookups (mkTable (map compile_gpos_lookup (e_gpos e)) pf pl) sel = gpos_ids (feat_lids e sel)) as EA.
  { rewrite (active_build' _ _ _ _ _ BP), feat_lids_alt.
    apply (ids_of_feats gpos_ids (fun i => match i with LGpos n => [n] | _ => [] end)).
    intros l. reflexivity. }
  rewrite EA. cbn [ot_lookups]. apply fold_left_ext. intros s0 k.
  rewrite nth_error_map. destruct (nth_error (e_gpos e) k) as [sl|] eqn:N; [|reflexivity]. simpl.
  apply nth_error_In in N. rewrite forallb_forall in Wp.
  apply lookup_gpos. apply Wp. exact N.
Qed.

End Flags.
