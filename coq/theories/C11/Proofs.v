(* C11 — lemmas (collected).  The development is split by topic:
     ProofsBase   association lists, bindings, sorted index lists
     ProofsGsub   single / multiple / alternate substitution, single positioning
     ProofsLiga, ProofsLiga2   ligature substitution
     ProofsPair, ProofsPair2   pair positioning
     ProofsMain   the compiler-correctness theorem without contextual lookups
     ProofsChain  ... extended to contextual lookups that call named lookups
     ProofsInline, ProofsInlineLiga   inline rules and their anonymous lookups
     ProofsFull   layout of the compiled lookup list, nested application at every depth, the theorem with
                  inline single / multiple rules
   plus the concrete witnesses used by the `_refuted` theorems. *)
From Coq Require Import List NArith ZArith Bool Arith Lia.
From FV.C11 Require Export Model Wf ProofsBase ProofsGsub ProofsLiga ProofsLiga2 ProofsPair ProofsPair2 ProofsMain ProofsChain ProofsInline ProofsInlineLiga ProofsFull.
Import ListNotations.
Open Scope N_scope.

(* glyph names a b c d x : ids 0..4 *)
Definition w_gm : list str := [[97]; [98]; [99]; [100]; [120]].
Definition w_sel : selection := mkSel DFLT dflt [1] 0.
Definition w_elab (p : prog) : eprog :=
  match elab false w_gm p with Some e => e | None => mkEP [] [] [] [] end.

(* feature f { sub a by b; sub a by c; } f;   -- fea-rs accepts it and the later rule wins *)
Definition w_conflict : eprog :=
  w_elab [TFeature 1 [FS (LRule (RSingle (OGlyph 0) (OGlyph 1))); FS (LRule (RSingle (OGlyph 0) (OGlyph 2)))]].

Lemma w_conflict_facts :
  no_chain w_conflict = true /\ wf_eprog w_conflict = false
  /\ apply_ot (compile_repo w_conflict) w_sel [0] <> interp_fea w_conflict w_sel [0].
Proof. split; [reflexivity|]. split; [reflexivity|]. intro H. vm_compute in H. discriminate. Qed.

(* feature f { sub c' x by x; sub [x c]' c by b; } f;
   two contextual rules with inline single substitutions; they do not conflict, yet the second
   overwrites the first one's entry in the shared anonymous lookup: "c x" becomes "b x", not "x x" *)
Definition w_inline : eprog :=
  w_elab [TFeature 1 [FS (LRule (RChain [] [(OGlyph 2, [])] [OGlyph 4] (InlSub [OGlyph 4])));
                      FS (LRule (RChain [] [(OClass [IGlyph 4; IGlyph 2], [])] [OGlyph 2] (InlSub [OGlyph 1])))]].

Lemma w_inline_facts :
  wf_eprog w_inline = true
  /\ apply_ot (compile_mini_unrepaired w_inline) w_sel [2; 4] <> interp_fea w_inline w_sel [2; 4].
Proof. split; [reflexivity|]. intro H. vm_compute in H. discriminate. Qed.

(* feature f { sub a' x by b c; sub [a d]' x by c b; } f;   (x after a or d)
   unrepaired: the glyphs of the second rule's target were spread over two anonymous lookups and the
   rule referred to the last one only *)
Definition w_imulti : eprog :=
  w_elab [TFeature 1 [FS (LRule (RChain [] [(OGlyph 0, [])] [OGlyph 4] (InlSub [OGlyph 1; OGlyph 2])));
                      FS (LRule (RChain [] [(OClass [IGlyph 0; IGlyph 3], [])] [OGlyph 1] (InlSub [OGlyph 2; OGlyph 1])))]].

Lemma w_imulti_facts :
  apply_ot (compile_mini_unrepaired w_imulti) w_sel [0; 1] <> interp_fea w_imulti w_sel [0; 1].
Proof. intro H. vm_compute in H. discriminate. Qed.

(* feature f { sub a' b' by x; sub a' b' c' by d; } f;
   unrepaired: both ligatures shared one anonymous lookup, so where the first rule matched "a b c" the
   longer ligature was formed *)
Definition w_iliga : eprog :=
  w_elab [TFeature 1 [FS (LRule (RChain [] [(OGlyph 0, []); (OGlyph 1, [])] [] (InlSub [OGlyph 4])));
                      FS (LRule (RChain [] [(OGlyph 0, []); (OGlyph 1, []); (OGlyph 2, [])] [] (InlSub [OGlyph 3])))]].

Lemma w_iliga_facts :
  apply_ot (compile_mini_unrepaired w_iliga) w_sel [0; 1; 2] <> interp_fea w_iliga w_sel [0; 1; 2].
Proof. intro H. vm_compute in H. discriminate. Qed.

(* after the repairs the three files shape as they say: every glyph string up to length 4 over a b c d x *)
Definition agree_upto (e : eprog) (n : nat) : bool :=
  forallb (fun s => pitems_eqb (apply_ot (compile_mini e) w_sel s) (interp_fea e w_sel s))
          (strings_upto [0; 1; 2; 3; 4] n).

Lemma w_inline_repaired : agree_upto w_inline 4 = true /\ agree_upto w_imulti 4 = true /\ agree_upto w_iliga 4 = true.
Proof. repeat split; vm_compute; reflexivity. Qed.

(* pos [a b] [c d] 10; pos [a x] [b] 20;  -- the second rule starts a new subtable; the pair (a, b)
   is looked for in the first subtable only, which covers a, and gets no adjustment *)
Definition w_shadow_rules : list xrule :=
  [XPairC [0; 1] [2; 3] (mkV 0 0 10 0); XPairC [0; 4] [1] (mkV 0 0 20 0)].

Lemma w_shadow_facts :
  pair_compatible w_shadow_rules = false
  /\ first_some (pairc_of 0 1) w_shadow_rules = Some (mkV 0 0 20 0)
  /\ src_try_pos [] (mkSL flag0 KPosPair w_shadow_rules) 0 [(1, vzero)] = Some (vzero, Some (vzero, false)).
Proof. repeat split; reflexivity. Qed.

(* the numeric range g01-g04 as the code expands it *)
Lemma w_range_facts :
  range_named [103; 48; 49] [103; 48; 52] = Some [[103; 48; 49]; [103; 48; 50]; [103; 48; 51]]
  /\ range_named_spec [103; 48; 49] [103; 48; 52]
     = Some [[103; 48; 49]; [103; 48; 50]; [103; 48; 51]; [103; 48; 52]].
Proof. split; reflexivity. Qed.

(* a feature file in the proven fragment that does something: single + ligature + kerning with a flag
   table GDEF: base a b c, mark x
   feature f { sub a by b; sub b c by d; lookupflag IgnoreMarks; sub b b by a; pos a d -30; pos [a b] [c d] 5; } f; *)
Definition w_good : eprog :=
  w_elab [TGdef [IGlyph 0; IGlyph 1; IGlyph 2] [] [IGlyph 4] [];
          TFeature 1 [FS (LRule (RSingle (OGlyph 0) (OGlyph 1)));
                      FS (LRule (RLiga [OGlyph 1; OGlyph 2] 3));
                      FS (LFlag (mkSF false false false true None None));
                      FS (LRule (RLiga [OGlyph 1; OGlyph 1] 0));
                      FS (LRule (RPosPair false (OGlyph 0) (OGlyph 3) (mkV 0 0 (-30) 0)));
                      FS (LRule (RPosPair false (OClass [IGlyph 0; IGlyph 1]) (OClass [IGlyph 2; IGlyph 3]) (mkV 0 0 5 0)))]].

Lemma w_good_facts :
  wf_eprog w_good = true /\ no_chain w_good = true
  /\ interp_fea w_good w_sel [0; 4; 1; 2] = [(1, mkV 0 0 5 0); (4, vzero); (3, vzero)].
Proof. repeat split; reflexivity. Qed.

(* a feature file with contextual rules calling named lookups (one of them contextual itself), an
   `ignore` rule and a nested ligature that shortens the run:
   lookup L1 { sub a by b; } L1;
   lookup L2 { sub b c by d; } L2;
   lookup L3 { sub x a' lookup L1; } L3;
   feature f { ignore sub d a'; sub a' lookup L3 lookup L1 c' lookup L2... *)
Definition w_ctx : eprog :=
  w_elab [TLookup 1 [LRule (RSingle (OGlyph 0) (OGlyph 1))];
          TLookup 2 [LRule (RLiga [OGlyph 1; OGlyph 2] 3)];
          TLookup 3 [LRule (RChain [OGlyph 4] [(OGlyph 0, [1])] [] InlNone)];
          TFeature 1 [FS (LRule (RIgnore [OGlyph 3] [OGlyph 0] []));
                      FS (LRule (RChain [OGlyph 4] [(OGlyph 0, [3; 2]); (OGlyph 2, [])] [] InlNone))]].

Lemma w_ctx_facts :
  wf_eprog w_ctx = true /\ no_inline w_ctx = true /\ no_chain w_ctx = false
  /\ interp_fea w_ctx w_sel [4; 0; 2; 3; 0; 2] = [(4, vzero); (3, vzero); (3, vzero); (0, vzero); (2, vzero)].
Proof. repeat split; reflexivity. Qed.

Lemma str_eqb_eq : forall a b, str_eqb a b = true -> a = b.
Proof.
  induction a as [|x a IH]; intros [|y b] H; simpl in H; try discriminate; [reflexivity|].
  apply andb_true_iff in H as [H1 H2]. apply N.eqb_eq in H1. rewrite (IH b H2), H1. reflexivity.
Qed.

Lemma range_spec_end : forall a b l, range_named_spec a b = Some l -> In b l.
Proof.
  intros a b l H. unfold range_named_spec in H. destruct (range_named a b) as [l0|]; [|discriminate].
  destruct (existsb (str_eqb b) l0) eqn:E; inversion H; subst.
  - apply existsb_exists in E as [x [Hx Ex]]. apply str_eqb_eq in Ex. subst. exact Hx.
  - apply in_or_app. right. left. reflexivity.
Qed.

(* ---- the compiler in /repo on the witnesses --------------------------------------------------------------------- *)
Definition agree_repo_upto (e : eprog) (n : nat) : bool :=
  forallb (fun s => pitems_eqb (apply_ot (compile_repo e) w_sel s) (interp_fea e w_sel s))
          (strings_upto [0; 1; 2; 3; 4] n).

Lemma w_repo_facts :
  agree_repo_upto w_inline 4 = true /\ agree_repo_upto w_imulti 4 = true
  /\ apply_ot (compile_repo w_iliga) w_sel [0; 1; 2] <> interp_fea w_iliga w_sel [0; 1; 2].
Proof. split; [vm_compute; reflexivity|]. split; [vm_compute; reflexivity|]. intro H. vm_compute in H. discriminate. Qed.

Lemma w_full_ok_facts :
  (wf_eprog_full w_inline = true /\ full_ok w_inline = true)
  /\ (wf_eprog_full w_imulti = true /\ full_ok w_imulti = true)
  /\ (wf_eprog_full w_ctx = true /\ full_ok w_ctx = true)
  /\ (wf_eprog_full w_good = true /\ full_ok w_good = true)
  /\ interp_fea w_inline w_sel [2; 4; 4; 2] = [(4, vzero); (4, vzero); (1, vzero); (2, vzero)].
Proof. repeat split; vm_compute; reflexivity. Qed.

Lemma compile_repo_preserves : forall e sel s,
  wf_eprog_full e = true -> full_ok e = true -> apply_ot (compile_repo e) sel s = interp_fea e sel s.
Proof. exact (compile_preserves_inline_sm false). Qed.

Lemma compile_prog_repo_preserves : forall incl gm (p : prog) (e : eprog) sel s,
  elab incl gm p = Some e -> wf_eprog_full e = true -> full_ok e = true ->
  compile_prog incl gm p = Some (compile_repo e)
  /\ interp_prog incl gm p sel s = Some (apply_ot (compile_repo e) sel s).
Proof.
  intros incl gm p e sel s E W F. unfold compile_prog, interp_prog. rewrite E. simpl.
  split; [reflexivity|]. rewrite (compile_repo_preserves e sel s W F). reflexivity.
Qed.

Lemma unrepaired_range_witness :
  exists a b l, range_named a b = Some l /\ ~ In b l /\ exists l', range_named_spec a b = Some l' /\ In b l'.
Proof.
  exists [103; 48; 49], [103; 48; 52], [[103; 48; 49]; [103; 48; 50]; [103; 48; 51]].
  destruct w_range_facts as [R1 R2]. split; [exact R1|]. split.
  - intros [H|[H|[H|[]]]]; discriminate.
  - eexists. split; [exact R2|]. simpl. auto.
Qed.

Lemma inline_ok_witnesses :
  forallb inline_ok (concat (map sl_rules (e_gsub w_inline))) = true
  /\ forallb inline_ok (concat (map sl_rules (e_gsub w_imulti))) = true.
Proof. split; reflexivity. Qed.

(* ---- named glyph classes: a reference means the latest definition before it ------------------------------------ *)
Lemma class_ref_latest : forall incl gm env n c, resolve_items incl gm ((n, c) :: env) [IRef n] = Some c.
Proof. intros. simpl. rewrite N.eqb_refl, app_nil_r. reflexivity. Qed.

Lemma class_ref_other : forall incl gm env n c n', n' <> n ->
  resolve_items incl gm ((n, c) :: env) [IRef n'] = resolve_items incl gm env [IRef n'].
Proof. intros incl gm env n c n' H. simpl. destruct (N.eqb_spec n' n); [contradiction | reflexivity]. Qed.

Lemma class_definition_then_reference : forall incl gm delp eskip refc mixs st n items c,
  resolve_items incl gm (es_classes st) items = Some c ->
  exists st',
    elab_top incl gm delp eskip refc mixs st (TClassDef n items) = Some st'
    /\ elab_lstmt incl gm delp eskip st (LClassDef n items) = Some st'
    /\ resolve_items incl gm (es_classes st') [IRef n] = Some c
    /\ forall n', n' <> n ->
         resolve_items incl gm (es_classes st') [IRef n'] = resolve_items incl gm (es_classes st) [IRef n'].
Proof.
  intros incl gm delp eskip refc mixs st n items c H. exists (set_classes st ((n, c) :: es_classes st)).
  split; [simpl; rewrite H; reflexivity|]. split; [simpl; rewrite H; reflexivity|].
  split; [apply class_ref_latest | intros n' Hn; apply class_ref_other; exact Hn].
Qed.
