(* C11 — model of fea-rs/src/compile/glyph_range.rs `named` (glyph-name ranges `a-z`,
   `g01-g12`) as the code stands, and `cid`.  Names are byte strings.
   Executable definitions only. *)
From Coq Require Import List NArith Bool Arith.
From FV.C11 Require Import Common.
Import ListNotations.

Definition is_digit (c : N) : bool := (N.leb 48 c) && (N.leb c 57).
Definition is_upper (c : N) : bool := (N.leb 65 c) && (N.leb c 90).
Definition is_lower (c : N) : bool := (N.leb 97 c) && (N.leb c 122).
Definition is_alpha (c : N) : bool := is_upper c || is_lower c.

Fixpoint str_eqb (a b : str) : bool :=
  match a, b with
  | [], [] => true
  | x :: a', y :: b' => N.eqb x y && str_eqb a' b'
  | _, _ => false
  end.

Fixpoint common_prefix (a b : str) : nat :=
  match a, b with
  | x :: a', y :: b' => if N.eqb x y then S (common_prefix a' b') else O
  | _, _ => O
  end.

Fixpoint leading_digits (a : str) : nat :=
  match a with
  | c :: t => if is_digit c then S (leading_digits t) else O
  | [] => O
  end.

(* get_diff_range: [front, back) of the differing part, widened over adjacent digits *)
Definition diff_range (a b : str) : nat * nat :=
  let front := common_prefix a b in
  let back := length a - common_prefix (rev a) (rev b) in
  if Nat.ltb back front then (O, O)
  else (front - leading_digits (rev (firstn front a)), back + leading_digits (skipn back a)).

(* str::parse::<u16>() on ASCII digits (an optional leading '+' is not modelled) *)
Fixpoint parse_digits (acc : N) (s : str) : option N :=
  match s with
  | [] => Some acc
  | c :: t => if is_digit c then parse_digits (acc * 10 + (c - 48)) t else None
  end.
Definition parse_u16 (s : str) : option N :=
  match s with
  | [] => None
  | _ => match parse_digits 0 s with
         | Some n => if N.leb n 65535 then Some n else None
         | None => None
         end
  end.

(* format!("{val:0width$}") *)
Fixpoint digits_rev (fuel : nat) (n : N) : list N :=
  match fuel with
  | O => []
  | S f => if N.ltb n 10 then [48 + n] else (48 + n mod 10) :: digits_rev f (n / 10)
  end%N.
Definition fmt_padded (width : nat) (n : N) : str :=
  let d := rev (digits_rev 6 n) in
  repeat 48%N (width - length d) ++ d.

Definition splice (s : str) (from to_ : nat) (mid : str) : str :=
  firstn from s ++ mid ++ skipn to_ s.

(* values lo, lo+1, ..., lo+n-1 *)
Fixpoint N_seq (lo : N) (n : nat) : list N :=
  match n with O => [] | S k => lo :: N_seq (N.succ lo) k end.

(* `named`: None = the error return.  NOTE the numeric branch iterates `one..two`, a half-open
   range: the end glyph of a numeric range is not produced (see known findings). *)
Definition range_named (a b : str) : option (list str) :=
  if negb (Nat.eqb (length a) (length b)) then None else
  let '(ds, de) := diff_range a b in
  let alpha :=
    if Nat.eqb (de - ds) 1 then
      let one := nth ds a 0%N in
      let two := nth ds b 0%N in
      if N.leb two one then Some None
      else if is_alpha one && is_alpha two && Bool.eqb (N.ltb 90 one) (N.ltb 90 two)
           then Some (Some (map (fun c => splice a ds de [c]) (N_seq one (S (N.to_nat (two - one))))))
           else None
    else None in
  match alpha with
  | Some r => r
  | None =>
      match parse_u16 (firstn (de - ds) (skipn ds a)), parse_u16 (firstn (de - ds) (skipn ds b)) with
      | Some one, Some two =>
          if N.ltb one two
          then Some (map (fun v => splice a ds de (fmt_padded (de - ds) v)) (N_seq one (N.to_nat (two - one))))
          else None
      | _, _ => None
      end
  end.

(* the specification's range: both ends included (what `range_named` should be) *)
Definition range_named_spec (a b : str) : option (list str) :=
  match range_named a b with
  | None => None
  | Some l => if existsb (str_eqb b) l then Some l else Some (l ++ [b])
  end.

(* glyph map: names by glyph id *)
Fixpoint name_index (n : str) (gm : list str) : option N :=
  match gm with
  | [] => None
  | x :: t => if str_eqb n x then Some 0%N else option_map N.succ (name_index n t)
  end.

Fixpoint lookup_all (gm : list str) (names : list str) : option (list glyph) :=
  match names with
  | [] => Some []
  | n :: t => match name_index n gm, lookup_all gm t with
              | Some g, Some r => Some (g :: r)
              | _, _ => None
              end
  end.

(* add_glyphs_from_range: every member must be in the font, else the compile fails *)
Definition resolve_range (gm : list str) (a b : str) : option (list glyph) :=
  match range_named a b with
  | None => None
  | Some names => lookup_all gm names
  end.
