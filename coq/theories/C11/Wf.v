(* C11 — well-formedness of an elaborated feature file: no two rules of one lookup give the same
   glyph (sequence, class pair) different results.  fea-rs accepts such files and lets the LATER
   rule win (BTreeMap::insert), whereas the specification's reading is "first matching rule";
   they are outside the theorems and reported by the correspondence run.  Boolean checkers. *)
From Coq Require Import List NArith ZArith Bool Arith.
From FV.C11 Require Import Common Range OT Source Interp Compile.
Import ListNotations.

(* a list of (key, value) bindings is a function *)
Fixpoint consistent {K V : Type} (keq : K -> K -> bool) (veq : V -> V -> bool) (l : list (K * V)) : bool :=
  match l with
  | [] => true
  | (k, v) :: t => forallb (fun kv => negb (keq k (fst kv)) || veq v (snd kv)) t && consistent keq veq t
  end.

Definition single_bindings (r : xrule) : list (glyph * glyph) :=
  match r with XSingle t rp => combine t rp | _ => [] end.
Definition multi_bindings (r : xrule) : list (glyph * list glyph) :=
  match r with
  | XSingle t rp => combine t (map (fun g => [g]) rp)
  | XMulti t seqs => combine t seqs
  | _ => []
  end.
Definition alt_bindings (r : xrule) : list (glyph * list glyph) :=
  match r with XAlt t alts => [(t, alts)] | _ => [] end.
Definition pos_bindings (r : xrule) : list (glyph * value) :=
  match r with XPosSingle t v => map (fun g => (g, v)) t | _ => [] end.
Definition pairc_bindings (r : xrule) : list ((list glyph * list glyph) * value) :=
  match r with XPairC c1 c2 v => [((c1, c2), v)] | _ => [] end.
Definition inline_multi_bindings (r : xrule) : list (glyph * list glyph) :=
  match r with XChain _ _ _ (Some (XIMulti t seqs)) => combine t seqs | _ => [] end.
Definition has_inline_liga (r : xrule) : bool :=
  match r with XChain _ _ _ (Some (XILiga _ _)) => true | _ => false end.

Definition wf_lookup (sl : slookup) : bool :=
  let rules := sl_rules sl in
  match sl_kind sl with
  | KSingle => consistent N.eqb N.eqb (flat_map single_bindings rules)
  | KMulti => consistent N.eqb glyphs_eqb (flat_map multi_bindings rules)
  | KAlt => consistent N.eqb glyphs_eqb (flat_map alt_bindings rules)
  | KLiga => consistent glyphs_eqb N.eqb (flat_map liga_entries_of rules)
  | KChain => consistent N.eqb glyphs_eqb (flat_map inline_multi_bindings rules)
              && negb (existsb has_inline_liga rules)
  | KPosSingle => consistent N.eqb veqb (flat_map pos_bindings rules)
  | KPosPair => consistent (fun a b => set_eqb (fst a) (fst b) && set_eqb (snd a) (snd b)) veqb
                           (flat_map pairc_bindings rules)
  end.

Definition wf_eprog (e : eprog) : bool := forallb wf_lookup (e_gsub e) && forallb wf_lookup (e_gpos e).

(* the fragment of the main theorem: no contextual lookups *)
Definition no_chain (e : eprog) : bool :=
  forallb (fun sl => negb (kind_eqb (sl_kind sl) KChain)) (e_gsub e).

(* class pairs of a lookup all fit one subtable: then "first matching rule" is literal *)
Definition pair_compatible (rules : list xrule) : bool :=
  Nat.leb (length (pair_groups [] rules)) 1.
