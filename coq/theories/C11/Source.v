(* C11 — the feature-file subset (AST), its resolution (glyph classes, ranges) and the walk of
   fea-rs `CompilationCtx` over the statements that groups rules into lookups, assigns lookup
   ids in declaration order and registers lookups under (feature, script, language):
   `elab`.  The result (`eprog`) still holds the rules as written (glyph classes resolved to
   glyph lists, nothing else expanded); `Interp.v` gives it its source semantics, `Compile.v`
   turns it into OpenType tables.  Executable definitions only. *)
From Coq Require Import List NArith ZArith Bool Arith.
From FV.C11 Require Import Common Range.
Import ListNotations.

(* ---- AST -------------------------------------------------------------------------------- *)
Inductive citem := IGlyph (g : glyph) | IRange (a b : str) | IRef (c : N).
Inductive goc := OGlyph (g : glyph) | OClass (items : list citem).   (* `@c` is OClass [IRef c] *)

Record sflag := mkSF { sf_rtl : bool; sf_ibase : bool; sf_ilig : bool; sf_imark : bool;
                       sf_filter : option (list citem); sf_mattach : option (list citem) }.

Inductive inline := InlNone | InlNull | InlSub (repl : list goc).

Inductive rule :=
| RSingle (tgt repl : goc)                       (* sub X by Y; *)
| RDelete (tgt : goc)                            (* sub X by NULL; *)
| RMulti (tgt : goc) (repl : list goc)           (* sub X by Y Z ...; *)
| RAlt (tgt : glyph) (alts : list citem)         (* sub x from [..]; *)
| RLiga (comps : list goc) (lig : glyph)         (* sub X Y ... by z; *)
| RChain (back : list goc) (input : list (goc * list N)) (look : list goc) (inl : inline)
| RIgnore (back input look : list goc)           (* ignore sub ...; *)
| RPosSingle (tgt : goc) (v : value)             (* pos X <v>; *)
| RPosPair (enum : bool) (a b : goc) (v : value) (* [enum] pos X Y <v>; *).

(* statements allowed in a lookup block *)
Inductive lstmt :=
| LRule (r : rule)
| LFlag (f : sflag)
| LClassDef (name : N) (items : list citem).

(* statements allowed in a feature block *)
Inductive fstmt :=
| FS (s : lstmt)
| FScript (t : tag)
| FLang (t : tag) (exclude_dflt : bool)
| FLookupRef (name : N)
| FLookupBlock (name : N) (body : list lstmt).

Inductive top :=
| TLangSys (s l : tag)
| TClassDef (name : N) (items : list citem)
| TLookup (name : N) (body : list lstmt)
| TFeature (t : tag) (body : list fstmt)
| TGdef (base lig mark comp : list citem).

Definition prog := list top.

(* ---- elaborated program ----------------------------------------------------------------- *)
Inductive lid := LGsub (n : nat) | LGpos (n : nat) | LEmpty.

Inductive xrule :=
| XSingle (tgt repl : list glyph)                 (* pointwise, equal lengths *)
| XMulti (tgt : list glyph) (seqs : list (list glyph))   (* pointwise, equal lengths *)
| XAlt (tgt : glyph) (alts : list glyph)
| XLiga (comps : list (list glyph)) (lig : glyph)
| XChain (back : list (list glyph)) (input : list (list glyph * list nat)) (look : list (list glyph))
         (inl : option xinline)                   (* back: closest first; nat: source GSUB lookup index *)
| XPosSingle (tgt : list glyph) (v : value)
| XPairE (c1 c2 : list glyph) (v : value)         (* specific pairs c1 x c2 *)
| XPairC (c1 c2 : list glyph) (v : value)         (* class pair *)
with xinline :=
| XISingle (tgt repl : list glyph) (nchk : nat)   (* nchk: pairs seen by the shared-lookup check *)
| XIMulti (tgt : list glyph) (seqs : list (list glyph))
| XILiga (comps : list (list glyph)) (lig : glyph).

Inductive kind := KSingle | KMulti | KAlt | KLiga | KChain | KPosSingle | KPosPair.
Definition kind_eqb (a b : kind) : bool :=
  match a, b with
  | KSingle, KSingle | KMulti, KMulti | KAlt, KAlt | KLiga, KLiga | KChain, KChain
  | KPosSingle, KPosSingle | KPosPair, KPosPair => true
  | _, _ => false
  end.
Definition is_gpos (k : kind) : bool := match k with KPosSingle | KPosPair => true | _ => false end.

Record slookup := mkSL { sl_flag : lflag; sl_kind : kind; sl_rules : list xrule }.

(* feature key: (feature, script, language) *)
Definition fkey := (tag * tag * tag)%type.
Definition fkey_eqb (a b : fkey) : bool :=
  let '(f, s, l) := a in let '(f', s', l') := b in N.eqb f f' && N.eqb s s' && N.eqb l l'.

Record eprog := mkEP { e_gsub : list slookup; e_gpos : list slookup;
                       e_feats : list (fkey * list lid); e_gdef : gdef }.

(* ---- resolution of classes -------------------------------------------------------------- *)
Section Resolve.
Variable incl : bool.        (* numeric ranges include their end glyph (false on the unrepaired tree) *)
Variable gm : list str.      (* glyph names by glyph id *)

Definition range_of (a b : str) : option (list str) :=
  if incl then range_named_spec a b else range_named a b.

Fixpoint resolve_items (env : list (N * list glyph)) (items : list citem) : option (list glyph) :=
  match items with
  | [] => Some []
  | it :: t =>
      match (match it with
             | IGlyph g => if N.ltb g (N.of_nat (length gm)) then Some [g] else None
             | IRange a b => match range_of a b with Some names => lookup_all gm names | None => None end
             | IRef c => assoc c env
             end), resolve_items env t with
      | Some x, Some y => Some (x ++ y)
      | _, _ => None
      end
  end.

Inductive rgoc := RG (g : glyph) | RC (c : list glyph).
Definition rgoc_list (r : rgoc) : list glyph := match r with RG g => [g] | RC c => c end.
Definition rgoc_is_class (r : rgoc) : bool := match r with RG _ => false | RC _ => true end.

Definition resolve_goc (env : list (N * list glyph)) (o : goc) : option rgoc :=
  match o with
  | OGlyph g => if N.ltb g (N.of_nat (length gm)) then Some (RG g) else None
  | OClass items => option_map RC (resolve_items env items)
  end.

Fixpoint resolve_gocs (env : list (N * list glyph)) (l : list goc) : option (list rgoc) :=
  match l with
  | [] => Some []
  | o :: t => match resolve_goc env o, resolve_gocs env t with
              | Some x, Some y => Some (x :: y)
              | _, _ => None
              end
  end.

Definition resolve_oclass (env : list (N * list glyph)) (o : option (list citem)) : option (option (list glyph)) :=
  match o with
  | None => Some None
  | Some items => option_map Some (resolve_items env items)
  end.

Definition resolve_flag (env : list (N * list glyph)) (f : sflag) : option lflag :=
  match resolve_oclass env (sf_filter f), resolve_oclass env (sf_mattach f) with
  | Some fs, Some ma => Some (mkF (sf_rtl f) (sf_ibase f) (sf_ilig f) (sf_imark f) fs ma)
  | _, _ => None
  end.

(* validate_single_sub_inputs + zip with into_iter_for_target: aligned target / replacement lists *)
Definition single_pairs (t r : rgoc) : option (list glyph * list glyph) :=
  match t, r with
  | RG a, RG b => Some ([a], [b])
  | RG _, RC _ => None
  | RC c1, RG b => Some (c1, map (fun _ => b) c1)
  | RC c1, RC c2 =>
      match c2 with
      | [b] => Some (c1, map (fun _ => b) c1)
      | _ => if Nat.eqb (length c1) (length c2) then Some (c1, c2) else None
      end
  end.

(* add_multiple_sub: replacement classes must have the target's length; item i of each *)
Definition multi_seqs (t : rgoc) (repl : list rgoc) : option (list glyph * list (list glyph)) :=
  let tg := rgoc_list t in
  if forallb (fun r => match r with RG _ => true | RC c => Nat.eqb (length c) (length tg) end) repl then
    Some (tg, map (fun i => map (fun r => match r with RG g => g | RC c => nth i c 0%N end) repl)
                  (seq 0 (length tg)))
  else None.

End Resolve.

(* ---- the walk ---------------------------------------------------------------------------- *)
Definition langsys := (tag * tag)%type.
Definition ls_eqb (a b : langsys) : bool := N.eqb (fst a) (fst b) && N.eqb (snd a) (snd b).
Definition ls_mem (x : langsys) (l : list langsys) : bool := existsb (ls_eqb x) l.

Fixpoint ls_assoc {V : Type} (k : langsys) (m : list (langsys * V)) : option V :=
  match m with
  | [] => None
  | (k', v) :: t => if ls_eqb k k' then Some v else ls_assoc k t
  end.
Fixpoint ls_remove {V : Type} (k : langsys) (m : list (langsys * V)) : list (langsys * V) :=
  match m with
  | [] => []
  | (k', v) :: t => if ls_eqb k k' then ls_remove k t else (k', v) :: ls_remove k t
  end.
(* push a value onto the list bound to k (entry().or_default().push()) *)
Fixpoint ls_push {V : Type} (k : langsys) (v : V) (m : list (langsys * list V)) : list (langsys * list V) :=
  match m with
  | [] => [(k, [v])]
  | (k', l) :: t => if ls_eqb k k' then (k', l ++ [v]) :: t else (k', l) :: ls_push k v t
  end.
Fixpoint tag_push {V : Type} (k : tag) (v : V) (m : list (tag * list V)) : list (tag * list V) :=
  match m with
  | [] => [(k, [v])]
  | (k', l) :: t => if N.eqb k k' then (k', l ++ [v]) :: t else (k', l) :: tag_push k v t
  end.

(* ActiveFeature *)
Record active := mkAF { af_tag : tag; af_cur : option langsys;
                        af_lookups : list (langsys * list lid);
                        af_sdl : list (tag * list lid) }.       (* script_default_lookups *)

Record estate := mkES {
  es_classes : list (N * list glyph);
  es_named : list (N * lid);
  es_gsub : list slookup;
  es_gpos : list slookup;
  es_cur : option slookup;
  es_cur_name : option N;
  es_flags : lflag;
  es_active : option active;
  es_script : option tag;
  es_feats : list (fkey * list lid);
  es_dls : bool * list langsys;                  (* DefaultLanguageSystems: explicit?, items *)
  es_gdefs : gdef }.

Definition es0 : estate :=
  mkES [] [] [] [] None None flag0 None None [] (false, [(DFLT, dflt)]) [].

Definition set_cur st c := mkES (es_classes st) (es_named st) (es_gsub st) (es_gpos st) c (es_cur_name st)
  (es_flags st) (es_active st) (es_script st) (es_feats st) (es_dls st) (es_gdefs st).
Definition set_flags st f := mkES (es_classes st) (es_named st) (es_gsub st) (es_gpos st) (es_cur st) (es_cur_name st)
  f (es_active st) (es_script st) (es_feats st) (es_dls st) (es_gdefs st).
Definition set_active st a := mkES (es_classes st) (es_named st) (es_gsub st) (es_gpos st) (es_cur st) (es_cur_name st)
  (es_flags st) a (es_script st) (es_feats st) (es_dls st) (es_gdefs st).
Definition set_script st s := mkES (es_classes st) (es_named st) (es_gsub st) (es_gpos st) (es_cur st) (es_cur_name st)
  (es_flags st) (es_active st) s (es_feats st) (es_dls st) (es_gdefs st).
Definition set_classes st c := mkES c (es_named st) (es_gsub st) (es_gpos st) (es_cur st) (es_cur_name st)
  (es_flags st) (es_active st) (es_script st) (es_feats st) (es_dls st) (es_gdefs st).
Definition set_cur_name st n := mkES (es_classes st) (es_named st) (es_gsub st) (es_gpos st) (es_cur st) n
  (es_flags st) (es_active st) (es_script st) (es_feats st) (es_dls st) (es_gdefs st).

(* AllLookups::push of the current lookup (without touching the name) *)
Definition push_current (st : estate) : estate * option lid :=
  match es_cur st with
  | None => (st, None)
  | Some sl =>
      if is_gpos (sl_kind sl) then
        (mkES (es_classes st) (es_named st) (es_gsub st) (es_gpos st ++ [sl]) None (es_cur_name st)
              (es_flags st) (es_active st) (es_script st) (es_feats st) (es_dls st) (es_gdefs st),
         Some (LGpos (length (es_gpos st))))
      else
        (mkES (es_classes st) (es_named st) (es_gsub st ++ [sl]) (es_gpos st) None (es_cur_name st)
              (es_flags st) (es_active st) (es_script st) (es_feats st) (es_dls st) (es_gdefs st),
         Some (LGsub (length (es_gsub st))))
  end.

(* AllLookups::finish_current *)
Definition finish_current (st : estate) : estate * option lid :=
  let '(st1, id) := push_current st in
  match id, es_cur_name st1 with
  | Some i, Some n =>
      (mkES (es_classes st1) ((n, i) :: es_named st1) (es_gsub st1) (es_gpos st1) None None
            (es_flags st1) (es_active st1) (es_script st1) (es_feats st1) (es_dls st1) (es_gdefs st1), Some i)
  | Some i, None => (st1, Some i)
  | None, Some n =>
      (mkES (es_classes st1) ((n, LEmpty) :: es_named st1) (es_gsub st1) (es_gpos st1) None None
            (es_flags st1) (es_active st1) (es_script st1) (es_feats st1) (es_dls st1) (es_gdefs st1), Some LEmpty)
  | None, None => (st1, None)
  end.

(* ActiveFeature::add_lookup *)
Definition af_add_lookup (a : active) (l : lid) : active :=
  match af_cur a with
  | Some (s, lg) =>
      if N.eqb lg dflt then mkAF (af_tag a) (af_cur a) (af_lookups a) (tag_push s l (af_sdl a))
      else mkAF (af_tag a) (af_cur a) (ls_push (s, lg) l (af_lookups a)) (af_sdl a)
  | None => mkAF (af_tag a) (af_cur a) (ls_push (DFLT, dflt) l (af_lookups a)) (af_sdl a)
  end.

(* add_lookup_to_current_feature_if_present *)
Definition add_to_feature (st : estate) (l : option lid) : estate :=
  match l, es_active st with
  | Some LEmpty, _ => st
  | Some i, Some a => set_active st (Some (af_add_lookup a i))
  | _, _ => st
  end.

Definition tag_assoc {V : Type} (k : tag) (m : list (tag * V)) : option V := assoc k m.

(* ActiveFeature::set_system *)
Definition af_set_system (dls : list langsys) (a : active) (sys : langsys) (exclude_dflt : bool) : active :=
  let '(s, lg) := sys in
  let lookups' :=
    if N.eqb lg dflt then af_lookups a else
    match ls_assoc sys (af_lookups a) with
    | Some _ => af_lookups a
    | None =>
        let inherited :=
          if exclude_dflt then [] else
          (if ls_mem sys dls
              || (ls_mem (s, dflt) dls && match tag_assoc s (af_sdl a) with Some _ => true | None => false end)
           then match ls_assoc (DFLT, dflt) (af_lookups a) with Some v => v | None => [] end else [])
          ++ match tag_assoc s (af_sdl a) with Some v => v | None => [] end in
        af_lookups a ++ [(sys, inherited)]
    end in
  mkAF (af_tag a) (Some sys) lookups' (af_sdl a).

(* extend the (feature, script, language) entry *)
Fixpoint feats_extend (k : fkey) (l : list lid) (m : list (fkey * list lid)) : list (fkey * list lid) :=
  match m with
  | [] => [(k, l)]
  | (k', l') :: t => if fkey_eqb k k' then (k', l' ++ l) :: t else (k', l') :: feats_extend k l t
  end.

(* ActiveFeature::add_to_features *)
Definition af_finish (dls : list langsys) (a : active) (feats : list (fkey * list lid)) : list (fkey * list lid) :=
  let defaults := match ls_assoc (DFLT, dflt) (af_lookups a) with Some v => v | None => [] end in
  let l0 := ls_remove (DFLT, dflt) (af_lookups a) in
  let l1 := fold_left (fun acc '(s, lks) =>
                         acc ++ [((s, dflt), if ls_mem (s, dflt) dls then defaults ++ lks else lks)])
                      (af_sdl a) l0 in
  let l2 := fold_left (fun acc sys => match ls_assoc sys acc with Some _ => acc | None => acc ++ [(sys, defaults)] end)
                      dls l1 in
  fold_left (fun fs '((s, lg), lks) => feats_extend (af_tag a, s, lg) lks fs) l2 feats.

(* ---- adding rules to the current lookup -------------------------------------------------- *)
Definition cur_is (st : estate) (k : kind) : bool :=
  match es_cur st with Some sl => kind_eqb (sl_kind sl) k | None => false end.
Definition same_flags (st : estate) : bool :=
  match es_cur st with Some sl => flag_eqb (sl_flag sl) (es_flags st) | None => false end.

(* ensure_current_lookup_type *)
Definition ensure (st : estate) (k : kind) : estate :=
  if cur_is st k && same_flags st then st
  else let '(st1, fin) := push_current st in
       add_to_feature (set_cur st1 (Some (mkSL (es_flags st1) k []))) fin.

Definition add_rule (st : estate) (r : xrule) : estate :=
  match es_cur st with
  | Some sl => set_cur st (Some (mkSL (sl_flag sl) (sl_kind sl) (sl_rules sl ++ [r])))
  | None => st
  end.

(* promote_single_sub_to_{multi,liga}_if_necessary *)
Definition promote (st : estate) (k : kind) : estate :=
  if same_flags st && cur_is st KSingle then
    match es_cur st with
    | Some sl => set_cur st (Some (mkSL (sl_flag sl) k (sl_rules sl)))
    | None => st
    end
  else st.

(* cartesian product of component classes: sequence_enumerator *)
Fixpoint sequences (cs : list (list glyph)) : list (list glyph) :=
  match cs with
  | [] => [[]]
  | c :: t => flat_map (fun g => map (fun s => g :: s) (sequences t)) c
  end.

(* the ligature entries (component sequence, ligature) a rule contributes *)
Definition liga_entries_of (r : xrule) : list (list glyph * glyph) :=
  match r with
  | XSingle tgt repl => map (fun '(a, b) => ([a], b)) (combine tgt repl)
  | XLiga comps lig => map (fun s => (s, lig)) (sequences comps)
  | _ => []
  end.

(* ---- builder state of the current ligature lookup ------------------------------------------ *)
Definition ins_pairs {V : Type} (ks : list glyph) (vs : list V) (m : list (glyph * V)) : list (glyph * V) :=
  fold_left (fun m kv => upd (fst kv) (snd kv) m) (combine ks vs) m.

(* SingleSubBuilder: BTreeMap::insert overwrites *)
Definition compile_single (rules : list xrule) : list (glyph * glyph) :=
  fold_left (fun m r => match r with XSingle tgt repl => ins_pairs tgt repl m | _ => m end) rules [].

(* LigatureSubBuilder::insert: append under the first glyph unless the same entry is there *)
Definition lig_insert (tbl : list (glyph * list (list glyph * glyph))) (e : list glyph * glyph)
  : list (glyph * list (list glyph * glyph)) :=
  match fst e with
  | [] => tbl
  | first :: rest =>
      match assoc first tbl with
      | Some l => if existsb (fun x => glyphs_eqb (fst x) rest && N.eqb (snd x) (snd e)) l then tbl
                  else upd first (l ++ [(rest, snd e)]) tbl
      | None => tbl ++ [(first, [(rest, snd e)])]
      end
  end.

(* LigatureSubBuilder::can_add *)
Definition liga_tbl_can_add (tbl : list (glyph * list (list glyph * glyph))) (e : list glyph * glyph) : bool :=
  match fst e with
  | [] => false
  | first :: rest =>
      match assoc first tbl with
      | Some l => negb (existsb (fun x => glyphs_eqb (fst x) rest && negb (N.eqb (snd x) (snd e))) l)
      | None => true
      end
  end.

Fixpoint single_prefix (rules : list xrule) : list xrule * list xrule :=
  match rules with
  | XSingle t r :: tl => let '(a, b) := single_prefix tl in (XSingle t r :: a, b)
  | _ => ([], rules)
  end.

(* single substitutions seen before the first ligature rule were held in a single-substitution
   builder (overwrite) and promoted; everything later is inserted *)
Definition liga_table (rules : list xrule) : list (glyph * list (list glyph * glyph)) :=
  let '(pre, rest) := single_prefix rules in
  fold_left lig_insert (flat_map liga_entries_of rest)
            (map (fun '(a, b) => (a, [([], b)])) (compile_single pre)).

(* add_gsub_type_4 for each new entry in turn: can_add, then insert *)
Fixpoint liga_add_all (tbl : list (glyph * list (list glyph * glyph))) (new : list (list glyph * glyph)) : bool :=
  match new with
  | [] => true
  | e :: t => liga_tbl_can_add tbl e && liga_add_all (lig_insert tbl e) t
  end.

Definition cur_liga_table (st : estate) : list (glyph * list (list glyph * glyph)) :=
  match es_cur st with Some sl => liga_table (sl_rules sl) | None => [] end.

Section Rules.
Variable incl : bool.
Variable gm : list str.
(* `sub X by NULL;` joins a running single-substitution lookup (promoting it to a multiple
   substitution lookup), as the other multiple substitution rules do.  false on the unrepaired tree:
   there the rule starts a new lookup — inside a named lookup block this splits the block, and the
   name then denotes the last part only (see known findings). *)
Variable delp : bool.
(* a contextual rule that names a lookup block without rules: the block has no lookup and nothing is
   applied.  false on the unrepaired tree, where the compiler panics (modelled as a rejected file). *)
Variable eskip : bool.
(* `lookup NAME;` in a feature closes the lookup that is being built, so that the rules after it start
   a new one (the specification's "lookups in declaration order"; feaLib does this).  false in /repo:
   the rules before and after the reference share one lookup (known finding
   lookup-reference-does-not-close-running-lookup). *)
Variable refc : bool.
(* a named lookup block that holds multiple-substitution AND ligature rules (after single substitutions)
   is rejected, as any other mix of rule types is.  false in /repo: validation compares every rule with
   the block's FIRST rule only, the block is split into two lookups and the name denotes the last one
   (known finding mixed-rule-types-in-named-block-split-lookup). *)
Variable mixs : bool.

Definition named_gsub (st : estate) (names : list N) : option (list nat) :=
  fold_right (fun n acc =>
                match assoc n (es_named st), acc with
                | Some (LGsub k), Some l => Some (k :: l)
                | Some LEmpty, Some l => if eskip then Some l else None
                | _, _ => None        (* undefined / GPOS: error *)
                end) (Some []) names.

Definition elab_rule (st : estate) (r : rule) : option estate :=
  let env := es_classes st in
  match r with
  | RSingle t rp =>
      match resolve_goc incl gm env t, resolve_goc incl gm env rp with
      | Some t', Some r' =>
          match single_pairs t' r' with
          | None => None
          | Some (tg, rl) =>
              if cur_is st KMulti && same_flags st then Some (add_rule st (XSingle tg rl))
              else if cur_is st KLiga && same_flags st then
                if liga_add_all (cur_liga_table st) (liga_entries_of (XSingle tg rl))
                then Some (add_rule st (XSingle tg rl)) else None
              else Some (add_rule (ensure st KSingle) (XSingle tg rl))
          end
      | _, _ => None
      end
  | RDelete t =>
      match resolve_goc incl gm env t with
      | Some t' => let tg := rgoc_list t' in
                   Some (add_rule (ensure (if delp then promote st KMulti else st) KMulti)
                                  (XMulti tg (map (fun _ => []) tg)))
      | None => None
      end
  | RMulti t rp =>
      match resolve_goc incl gm env t, resolve_gocs incl gm env rp with
      | Some t', Some r' =>
          match multi_seqs t' r' with
          | Some (tg, seqs) => Some (add_rule (ensure (promote st KMulti) KMulti) (XMulti tg seqs))
          | None => None
          end
      | _, _ => None
      end
  | RAlt t alts =>
      if N.ltb t (N.of_nat (length gm)) then
        match resolve_items incl gm env alts with
        | Some a => Some (add_rule (ensure st KAlt) (XAlt t a))
        | None => None
        end
      else None
  | RLiga comps lig =>
      if N.ltb lig (N.of_nat (length gm)) && Nat.leb 2 (length comps) then
        match resolve_gocs incl gm env comps with
        | Some cs =>
            let st1 := ensure (promote st KLiga) KLiga in
            let x := XLiga (map rgoc_list cs) lig in
            if liga_add_all (cur_liga_table st1) (liga_entries_of x) then Some (add_rule st1 x) else None
        | None => None
        end
      else None
  | RChain back input look inlr =>
      match resolve_gocs incl gm env back, resolve_gocs incl gm env (map fst input), resolve_gocs incl gm env look with
      | Some b, Some i, Some l =>
          let inputs := map rgoc_list i in
          let named := map snd input in
          (* validation: no named lookups together with an inline rule; at least one input *)
          match i with
          | [] => None
          | i0 :: irest =>
              let xin : option (option xinline) :=
                match inlr with
                | InlNone => Some None
                | InlNull =>
                    match irest with
                    | [] => let tg := rgoc_list i0 in Some (Some (XIMulti tg (map (fun _ => []) tg)))
                    | _ => None
                    end
                | InlSub repl =>
                    match resolve_gocs incl gm env repl with
                    | None => None
                    | Some rs =>
                        (* validation: a class in the replacement needs a class as first input *)
                        if existsb rgoc_is_class rs && negb (rgoc_is_class i0) then None else
                        match irest with
                        | _ :: _ =>
                            match rs with
                            | [RG g] => Some (Some (XILiga inputs g))
                            | [RC [g]] => Some (Some (XILiga inputs g))
                            | _ => None
                            end
                        | [] =>
                            match rs with
                            | [] => None
                            | [r1] =>
                                match single_pairs i0 r1 with
                                | Some (tg, rl) =>
                                    (* add_anon_gsub_type_1 checks target.iter().zip(replacement.iter()):
                                       one pair when the replacement is a single glyph *)
                                    Some (Some (XISingle tg rl (match r1 with
                                                                | RC (_ :: _ :: _) => length tg
                                                                | _ => 1
                                                                end)))
                                | None => None
                                end
                            | _ =>
                                match multi_seqs i0 rs with
                                | Some (tg, seqs) => Some (Some (XIMulti tg seqs))
                                | None => None
                                end
                            end
                        end
                    end
                end in
              match xin with
              | None => None
              | Some xi =>
                  let has_named := existsb (fun l => match l with [] => false | _ => true end) named in
                  if has_named && match xi with Some _ => true | None => false end then None else
                  match fold_right (fun ns acc => match named_gsub st ns, acc with
                                                   | Some x, Some y => Some (x :: y)
                                                   | _, _ => None end) (Some []) named with
                  | None => None
                  | Some ids =>
                      Some (add_rule (ensure st KChain)
                                     (XChain (rev (map rgoc_list b)) (combine inputs ids) (map rgoc_list l) xi))
                  end
              end
          end
      | _, _, _ => None
      end
  | RIgnore back input look =>
      match resolve_gocs incl gm env back, resolve_gocs incl gm env input, resolve_gocs incl gm env look with
      | Some b, Some i, Some l =>
          match i with
          | [] => None
          | _ => Some (add_rule (ensure st KChain)
                                (XChain (rev (map rgoc_list b)) (map (fun x => (rgoc_list x, [])) i)
                                        (map rgoc_list l) None))
          end
      | _, _, _ => None
      end
  | RPosSingle t v =>
      match resolve_goc incl gm env t with
      | Some t' => Some (add_rule (ensure st KPosSingle) (XPosSingle (rgoc_list t') v))
      | None => None
      end
  | RPosPair enum a b v =>
      match resolve_goc incl gm env a, resolve_goc incl gm env b with
      | Some a', Some b' =>
          let st1 := ensure st KPosPair in
          if (rgoc_is_class a' || rgoc_is_class b') && negb enum
          then Some (add_rule st1 (XPairC (rgoc_list a') (rgoc_list b') v))
          else Some (add_rule st1 (XPairE (rgoc_list a') (rgoc_list b') v))
      | _, _ => None
      end
  end.

Definition elab_lstmt (st : estate) (s : lstmt) : option estate :=
  match s with
  | LRule r => elab_rule st r
  | LFlag f => match resolve_flag incl gm (es_classes st) f with
               | Some fl => Some (set_flags st fl)
               | None => None
               end
  | LClassDef n items => match resolve_items incl gm (es_classes st) items with
                         | Some c => Some (set_classes st ((n, c) :: es_classes st))
                         | None => None
                         end
  end.

Fixpoint elab_lstmts (st : estate) (l : list lstmt) : option estate :=
  match l with
  | [] => Some st
  | s :: t => match elab_lstmt st s with Some st' => elab_lstmts st' t | None => None end
  end.

(* validate_lookup_block: one rule kind per named block (single may mix with multiple or with
   ligature); no lookupflag between rules; the name is new *)
Definition rule_kind (r : rule) : N :=
  match r with
  | RSingle _ _ => 1 | RDelete _ => 1 | RMulti _ _ => 2 | RAlt _ _ => 3 | RLiga _ _ => 4
  | RChain _ _ _ _ => 6 | RIgnore _ _ _ => 16 | RPosSingle _ _ => 11 | RPosPair _ _ _ _ => 12
  end%N.

Fixpoint block_ok (kind : option N) (flag_after_rule : bool) (l : list lstmt) : bool :=
  match l with
  | [] => true
  | LRule r :: t =>
      if flag_after_rule then false else
      let k := rule_kind r in
      match kind with
      | None => block_ok (Some k) false t
      | Some k0 =>
          if N.eqb k0 k then block_ok kind false t
          else if (N.eqb k0 1 || N.eqb k0 2) && (N.eqb k 1 || N.eqb k 2) then block_ok kind false t
          else if (N.eqb k0 1 || N.eqb k0 4) && (N.eqb k 1 || N.eqb k 4) then block_ok kind false t
          else false
      end
  | LFlag _ :: t => block_ok kind (match kind with Some _ => true | None => false end) t
  | LClassDef _ _ :: t => block_ok kind flag_after_rule t
  end.

Definition block_has (k : N) (l : list lstmt) : bool :=
  existsb (fun s => match s with LRule r => N.eqb (rule_kind r) k | _ => false end) l.

(* resolve_lookup_block = start_lookup_block; statements; end_lookup_block *)
Definition elab_block (st : estate) (name : N) (body : list lstmt) : option estate :=
  match assoc name (es_named st) with
  | Some _ => None
  | None =>
      if negb (block_ok None false body) || (mixs && block_has 2 body && block_has 4 body) then None else
      let '(st1, fin) := finish_current st in
      let st2 := add_to_feature st1 fin in
      let st3 := match es_active st2 with None => set_flags st2 flag0 | Some _ => st2 end in
      match elab_lstmts (set_cur_name st3 (Some name)) body with
      | None => None
      | Some st4 =>
          let '(st5, cur) := finish_current st4 in
          match es_active st5 with
          | Some _ => Some (add_to_feature st5 cur)
          | None => Some (set_flags st5 flag0)
          end
      end
  end.

Definition set_script_language (st : estate) (sys : langsys) (excl : bool) : estate :=
  let '(st1, fin) := finish_current st in
  let st2 := add_to_feature st1 fin in
  match es_active st2 with
  | Some a => set_active st2 (Some (af_set_system (snd (es_dls st2)) a sys excl))
  | None => st2
  end.

Definition elab_fstmt (st : estate) (s : fstmt) : option estate :=
  match s with
  | FS s' => elab_lstmt st s'
  | FScript t =>
      match es_active st with
      | None => None
      | Some a =>
          if match af_cur a with Some sys => ls_eqb sys (t, dflt) | None => false end then Some st
          else Some (set_script_language (set_flags (set_script st (Some t)) flag0) (t, dflt) false)
      end
  | FLang t excl =>
      let s := match es_script st with Some s => s | None => DFLT end in
      Some (set_script_language st (s, t) excl)
  | FLookupRef n =>
      match assoc n (es_named st) with
      | Some i =>
          if refc then
            let '(st1, fin) := finish_current st in
            Some (add_to_feature (add_to_feature st1 fin) (Some i))
          else Some (add_to_feature st (Some i))
      | None => None
      end
  | FLookupBlock n body => elab_block st n body
  end.

Fixpoint elab_fstmts (st : estate) (l : list fstmt) : option estate :=
  match l with
  | [] => Some st
  | s :: t => match elab_fstmt st s with Some st' => elab_fstmts st' t | None => None end
  end.

(* GlyphClassDef: a glyph may not be put in two different classes *)
Fixpoint gdef_add (cls : N) (gs : list glyph) (gd : gdef) : option gdef :=
  match gs with
  | [] => Some gd
  | g :: t => match assoc g gd with
              | Some c => if N.eqb c cls then gdef_add cls t gd else None
              | None => gdef_add cls t (gd ++ [(g, cls)])
              end
  end.

Definition elab_top (st : estate) (t : top) : option estate :=
  match t with
  | TLangSys s l =>
      let '(explicit, items) := es_dls st in
      let items' := if explicit then (if ls_mem (s, l) items then items else items ++ [(s, l)]) else [(s, l)] in
      Some (mkES (es_classes st) (es_named st) (es_gsub st) (es_gpos st) (es_cur st) (es_cur_name st)
                 (es_flags st) (es_active st) (es_script st) (es_feats st) (true, items') (es_gdefs st))
  | TClassDef n items =>
      match resolve_items incl gm (es_classes st) items with
      | Some c => Some (set_classes st ((n, c) :: es_classes st))
      | None => None
      end
  | TLookup n body => elab_block st n body
  | TFeature tg body =>
      (* start_feature *)
      let st1 := set_flags (set_active st (Some (mkAF tg None [] []))) flag0 in
      match elab_fstmts st1 body with
      | None => None
      | Some st2 =>
          (* end_feature *)
          let '(st3, fin) := finish_current st2 in
          let st4 := add_to_feature st3 fin in
          match es_active st4 with
          | None => None
          | Some a =>
              Some (mkES (es_classes st4) (es_named st4) (es_gsub st4) (es_gpos st4) None None flag0 None None
                         (af_finish (snd (es_dls st4)) a (es_feats st4)) (es_dls st4) (es_gdefs st4))
          end
      end
  | TGdef b l m c =>
      match resolve_items incl gm (es_classes st) b, resolve_items incl gm (es_classes st) l,
            resolve_items incl gm (es_classes st) m, resolve_items incl gm (es_classes st) c with
      | Some b', Some l', Some m', Some c' =>
          match gdef_add 1 b' [] with
          | Some g1 => match gdef_add 2 l' g1 with
                       | Some g2 => match gdef_add 3 m' g2 with
                                    | Some g3 => match gdef_add 4 c' g3 with
                                                 | Some g4 =>
                                                     Some (mkES (es_classes st) (es_named st) (es_gsub st) (es_gpos st)
                                                                (es_cur st) (es_cur_name st) (es_flags st) (es_active st)
                                                                (es_script st) (es_feats st) (es_dls st) g4)
                                                 | None => None end
                                    | None => None end
                       | None => None end
          | None => None end
      | _, _, _, _ => None
      end
  end.

Fixpoint elab_tops (st : estate) (l : list top) : option estate :=
  match l with
  | [] => Some st
  | t :: r => match elab_top st t with Some st' => elab_tops st' r | None => None end
  end.

Definition elab_gen (p : prog) : option eprog :=
  match elab_tops es0 p with
  | Some st => Some (mkEP (es_gsub st) (es_gpos st) (es_feats st) (es_gdefs st))
  | None => None
  end.

End Rules.

(* the walk as fea-rs in /repo does it (numeric ranges per `incl`; by-NULL and empty-lookup repairs applied;
   the two known findings refc / mixs not) *)
Definition elab (incl : bool) (gm : list str) (p : prog) : option eprog := elab_gen incl gm true true false false p.
(* the walk under the specification's reading: ranges include their end, a named block is one lookup,
   an empty named lookup does nothing, a lookup reference closes the running lookup, a named block mixing
   multiple-substitution and ligature rules is rejected *)
Definition elab_spec (gm : list str) (p : prog) : option eprog := elab_gen true gm true true true true p.

(* lookup indices of a feature entry, per table, increasing and without repeats (dedupe_lookups) *)
Definition gsub_ids (l : list lid) : list nat :=
  sort_uniq (flat_map (fun i => match i with LGsub n => [n] | _ => [] end) l).
Definition gpos_ids (l : list lid) : list nat :=
  sort_uniq (flat_map (fun i => match i with LGpos n => [n] | _ => [] end) l).
