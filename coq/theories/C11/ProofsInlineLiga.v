(* C11 — inline ligature rules after the repairs of 2026-09: the anonymous ligature lookup the rule
   refers to forms, wherever the rule's own components match, exactly the rule's ligature. *)
From Coq Require Import List NArith ZArith Bool Arith Lia.
From FV.C11 Require Import Model Wf ProofsBase ProofsGsub ProofsLiga ProofsLiga2 ProofsMain ProofsInline.
Import ListNotations.

Lemma is_prefix_refl : forall a, is_prefix a a = true.
Proof. induction a; simpl; [reflexivity | rewrite N.eqb_refl; exact IHa]. Qed.

Lemma is_prefix_same_len : forall a b, length a = length b -> is_prefix a b = true -> a = b.
Proof.
  induction a as [|x a IH]; intros [|y b] L P; simpl in *; try discriminate; [reflexivity|].
  apply andb_true_iff in P as [P1 P2]. apply N.eqb_eq in P1. f_equal; [exact P1 | apply IH; [lia | exact P2]].
Qed.

Section Match2.
Variable gd : gdef.
Variable fl : lflag.

Notation sing := (map (fun c : glyph => [c])).

(* two component sequences that both match the same glyphs: the shorter starts the longer *)
Lemma match_both_prefix : forall l r1 r2 x1 x2,
  match_seq gd fl (sing r1) l = Some x1 -> match_seq gd fl (sing r2) l = Some x2 ->
  length r1 <= length r2 -> is_prefix r1 r2 = true.
Proof.
  induction l as [|g tl IH]; intros r1 r2 x1 x2 M1 M2 L.
  - destruct r1; [reflexivity|]. cbn in M1. discriminate M1.
  - destruct r1 as [|a r1]; [reflexivity|]. destruct r2 as [|b r2]; [simpl in L; lia|].
    simpl in M1, M2. destruct (skip gd fl g).
    + destruct (match_seq gd fl ([a] :: sing r1) tl) as [[c1 q1]|] eqn:E1; [|discriminate].
      destruct (match_seq gd fl ([b] :: sing r2) tl) as [[c2 q2]|] eqn:E2; [|discriminate].
      exact (IH (a :: r1) (b :: r2) _ _ E1 E2 L).
    + destruct (N.eqb_spec g a) as [Ea|]; [|discriminate].
      destruct (N.eqb_spec g b) as [Eb|]; [|discriminate].
      destruct (match_seq gd fl (sing r1) tl) as [[c1 q1]|] eqn:E1; [|discriminate].
      destruct (match_seq gd fl (sing r2) tl) as [[c2 q2]|] eqn:E2; [|discriminate].
      simpl. subst a b. rewrite N.eqb_refl. simpl. apply (IH r1 r2 _ _ E1 E2). simpl in L. lia.
Qed.

End Match2.

(* ---- well-formed rows ------------------------------------------------------------------------------------- *)
Definition row_ok (l : list (list glyph * glyph)) : Prop :=
  forall r1 l1 r2 l2, In (r1, l1) l -> In (r2, l2) l ->
    (r1 = r2 -> l1 = l2)
    /\ (length r1 <> length r2 -> is_prefix r1 r2 = false /\ is_prefix r2 r1 = false).

Definition tbl_ok (t : list (glyph * list (list glyph * glyph))) : Prop := forall g, row_ok (row g t).

(* an entry (component sequence, ligature) agrees with everything under its first glyph *)
Definition compat (t : list (glyph * list (list glyph * glyph))) (e : list glyph * glyph) : Prop :=
  forall first rest, fst e = first :: rest ->
  forall r l0, In (r, l0) (row first t) ->
    (r = rest -> l0 = snd e)
    /\ (length r <> length rest -> is_prefix r rest = false /\ is_prefix rest r = false).

Definition entry_ok (t : list (glyph * list (list glyph * glyph))) (e : list glyph * glyph) : bool :=
  liga_tbl_can_add t e && negb (one_extends_other t e).

Lemma entry_ok_compat : forall t e, entry_ok t e = true -> compat t e.
Proof.
  intros t [sq lig] H first rest E r l0 HI. simpl in E. subst sq. unfold row in HI.
  destruct (assoc first t) as [l|] eqn:A; [|contradiction].
  unfold entry_ok, liga_tbl_can_add, one_extends_other in H.
  simpl in H. rewrite A in H. apply andb_true_iff in H as [H1 H2].
  apply negb_true_iff in H1. apply negb_true_iff in H2. simpl. split.
  - intros E. subst r. destruct (N.eqb_spec l0 lig) as [|NE]; [assumption|]. exfalso.
    assert (existsb (fun x => glyphs_eqb (fst x) rest && negb (N.eqb (snd x) lig)) l = true) as X.
    { apply existsb_exists. exists (rest, l0). split; [exact HI|]. simpl.
      rewrite (proj2 (glyphs_eqb_eq rest rest) eq_refl). simpl.
      destruct (N.eqb_spec l0 lig); [contradiction | reflexivity]. }
    congruence.
  - intros NL.
    assert (forall b, (negb (Nat.eqb (length r) (length rest)) && b) = b) as Hb.
    { intros b. destruct (Nat.eqb_spec (length r) (length rest)); [contradiction | reflexivity]. }
    destruct (is_prefix r rest || is_prefix rest r) eqn:P.
    + exfalso.
      assert (existsb (fun x => negb (Nat.eqb (length (fst x)) (length rest))
                                && (is_prefix (fst x) rest || is_prefix rest (fst x))) l = true) as X.
      { apply existsb_exists. exists (r, l0). split; [exact HI|]. simpl. rewrite Hb. exact P. }
      congruence.
    + apply orb_false_iff in P. exact P.
Qed.

(* rows after one insertion *)
Lemma row_insert_cases : forall g t e,
  row g (lig_insert t e) = row g t
  \/ (exists rest, fst e = g :: rest /\ row g (lig_insert t e) = row g t ++ [(rest, snd e)]).
Proof.
  intros g t [sq lig]. rewrite lig_insert_row. unfold proj. simpl.
  destruct sq as [|f rest]; [left; reflexivity|].
  destruct (N.eqb_spec g f) as [E|NE]; [|left; reflexivity]. subst f. simpl. unfold add_nodup. simpl.
  match goal with |- context [existsb ?f ?l] => destruct (existsb f l) end;
    [left; reflexivity|]. right. exists rest. split; reflexivity.
Qed.

Lemma row_insert_mono : forall g t e x, In x (row g t) -> In x (row g (lig_insert t e)).
Proof.
  intros g t e x H. destruct (row_insert_cases g t e) as [E|[rest [_ E]]]; rewrite E;
    [exact H | apply in_or_app; left; exact H].
Qed.

Lemma row_insert_has : forall t first rest lig, In (rest, lig) (row first (lig_insert t (first :: rest, lig))).
Proof.
  intros t first rest lig. rewrite lig_insert_row. unfold proj. simpl. rewrite N.eqb_refl. simpl.
  unfold add_nodup. simpl.
  match goal with |- context [existsb ?f ?l] => destruct (existsb f l) eqn:D end.
  - apply (existsb_dup_In (row first t) (rest, lig)). exact D.
  - apply in_or_app. right. left. reflexivity.
Qed.

Lemma lig_insert_ok : forall t e, tbl_ok t -> compat t e -> tbl_ok (lig_insert t e).
Proof.
  intros t e OK C g. destruct (row_insert_cases g t e) as [E|[rest [Ef E]]]; rewrite E; [apply OK|].
  intros r1 l1 r2 l2 H1 H2. apply in_app_or in H1. apply in_app_or in H2.
  destruct H1 as [H1|[H1|[]]]; destruct H2 as [H2|[H2|[]]].
  - apply (OK g); assumption.
  - inversion H2; subst r2 l2. apply (C g rest Ef r1 l1 H1).
  - inversion H1; subst r1 l1. destruct (C g rest Ef r2 l2 H2) as [A B]. split.
    + intros Er. symmetry. apply A. symmetry. exact Er.
    + intros NL. destruct B as [B1 B2]; [congruence|]. split; assumption.
  - inversion H1; inversion H2; subst. split; [reflexivity | intros NL; congruence].
Qed.

(* two entries of one rule: same ligature, same length *)
Definition alike (e1 e2 : list glyph * glyph) : Prop := snd e1 = snd e2 /\ length (fst e1) = length (fst e2).

Lemma compat_after_insert : forall t e1 e2, alike e1 e2 -> compat t e2 -> compat (lig_insert t e1) e2.
Proof.
  intros t e1 e2 [Al1 Al2] C first rest Ef r l0 HI.
  destruct (row_insert_cases first t e1) as [E|[rest1 [Ef1 E]]]; rewrite E in HI; [apply (C first rest Ef); exact HI|].
  apply in_app_or in HI as [HI|[HI|[]]]; [apply (C first rest Ef); exact HI|].
  inversion HI; subst r l0. rewrite Ef1, Ef in Al2. simpl in Al2. split.
  - intros _. exact Al1.
  - intros NL. lia.
Qed.

Lemma fold_insert_ok : forall es t,
  tbl_ok t -> (forall e, In e es -> compat t e) -> (forall e1 e2, In e1 es -> In e2 es -> alike e1 e2) ->
  tbl_ok (fold_left lig_insert es t)
  /\ (forall g x, In x (row g t) -> In x (row g (fold_left lig_insert es t)))
  /\ (forall first rest lig, In (first :: rest, lig) es -> In (rest, lig) (row first (fold_left lig_insert es t))).
Proof.
  induction es as [|e es IH]; intros t OK C A; simpl.
  - split; [exact OK|]. split; [auto | intros ? ? ? []].
  - destruct (IH (lig_insert t e)) as [O1 [M1 I1]].
    + apply lig_insert_ok; [exact OK | apply C; left; reflexivity].
    + intros e2 H2. apply compat_after_insert; [apply A; [left; reflexivity | right; exact H2] | apply C; right; exact H2].
    + intros e1 e2 H1 H2. apply A; right; assumption.
    + split; [exact O1|]. split.
      * intros g x Hx. apply M1. apply row_insert_mono. exact Hx.
      * intros first rest lig [E|Hin].
        -- subst e. apply M1. apply row_insert_has.
        -- apply I1. exact Hin.
Qed.

(* ---- what the lookup does where the rule's components match --------------------------------------------------- *)
Section Try.
Variable gd : gdef.
Variable alt : nat.
Variable rec : nat -> list glyph -> list glyph -> option (list glyph * list glyph).

Theorem liga_lookup_forms_rule_ligature : forall fl t cur r lig before after c rest,
  tbl_ok t -> In (r, lig) (row cur t) ->
  match_seq gd fl (map (fun g => [g]) r) after = Some (c, rest) ->
  try_gsub_subs gd alt rec fl (lk_subs (anon_lookup fl (AnLiga t))) before cur after
  = Some ([lig], skipped_of c ++ rest).
Proof.
  intros fl t cur r lig before after c rest OK HI M. simpl.
  rewrite (assoc_map_values lig_sort). unfold row in HI.
  destruct (assoc cur t) as [l|] eqn:A; [|contradiction]. simpl.
  assert (try_liga gd fl (lig_sort l) after = Some ([lig], skipped_of c ++ rest)) as E.
  { rewrite try_liga_first, first_some_sorted.
    rewrite <- (app_nil_r (map (candE gd fl after) l)).
    rewrite (pickC_block (S (length r), ([lig], skipped_of c ++ rest))).
    - assert (existsb (fun x : option (nat * res) => match x with Some _ => true | None => false end)
                      (map (candE gd fl after) l) = true) as X.
      { apply existsb_exists. exists (candE gd fl after (r, lig)). split; [apply in_map; exact HI|].
        unfold candE. simpl. rewrite M. reflexivity. }
      rewrite X. reflexivity.
    - intros x Hx. apply in_map_iff in Hx as [[r' l'] [Ex Hr']]. subst x.
      unfold candE. simpl.
      destruct (match_seq gd fl (map (fun g => [g]) r') after) as [[c' q']|] eqn:M'; [|left; reflexivity].
      right.
      assert (row_ok l) as RO by (specialize (OK cur); unfold row in OK; rewrite A in OK; exact OK).
      destruct (RO r' l' r lig Hr' HI) as [Same Diff].
      destruct (Nat.eq_dec (length r') (length r)) as [EL|NL].
      + assert (r' = r) as Er.
        { apply is_prefix_same_len; [exact EL|].
          apply (match_both_prefix gd fl after r' r _ _ M' M). lia. }
        subst r'. rewrite (Same eq_refl). rewrite M in M'. inversion M'; subst. reflexivity.
      + exfalso. destruct (Diff NL) as [D1 D2].
        destruct (Nat.le_ge_cases (length r') (length r)) as [L|L].
        * rewrite (match_both_prefix gd fl after r' r _ _ M' M L) in D1. discriminate.
        * rewrite (match_both_prefix gd fl after r r' _ _ M M' L) in D2. discriminate. }
  rewrite E. reflexivity.
Qed.

End Try.

(* ---- the anonymous lookups of a contextual lookup ---------------------------------------------------------------- *)
Definition ligas_ok (a : list anon) : Prop := forall j t, nth_error a j = Some (AnLiga t) -> tbl_ok t.
Definition ligas_ext (a a' : list anon) : Prop :=
  forall j t, nth_error a j = Some (AnLiga t) ->
  exists t', nth_error a' j = Some (AnLiga t') /\ forall g x, In x (row g t) -> In x (row g t').

Lemma ligas_ext_refl : forall a, ligas_ext a a.
Proof. intros a j t H. exists t. split; [exact H | auto]. Qed.
Lemma ligas_ext_trans : forall a b c, ligas_ext a b -> ligas_ext b c -> ligas_ext a c.
Proof.
  intros a b c H1 H2 j t H. destruct (H1 j t H) as [t1 [N1 E1]]. destruct (H2 j t1 N1) as [t2 [N2 E2]].
  exists t2. split; [exact N2 | auto].
Qed.

Lemma sequences_length : forall cs s, In s (sequences cs) -> length s = length cs.
Proof. intros cs s H. apply sequences_In in H. apply (Forall2_len _ _ _ H). Qed.

Lemma tbl_ok_nil : tbl_ok [].
Proof. intros g r1 l1 r2 l2 []. Qed.

(* changing / appending a non-ligature lookup *)
Lemma ligas_keep_set : forall a k x y, nth_error a k = Some y -> (forall t, y <> AnLiga t) -> (forall t, x <> AnLiga t) ->
  ligas_ok a -> ligas_ok (set_nth k x a) /\ ligas_ext a (set_nth k x a).
Proof.
  intros a k x y Nk Hy Hx OK. split.
  - intros j t Hj. destruct (Nat.eq_dec k j) as [->|NE].
    + rewrite (nth_error_set_nth_same a j x y Nk) in Hj. inversion Hj. exfalso. eapply Hx. eassumption.
    + rewrite nth_error_set_nth_other in Hj by exact NE. eapply OK. exact Hj.
  - intros j t Hj. destruct (Nat.eq_dec k j) as [->|NE].
    + rewrite Nk in Hj. inversion Hj. exfalso. eapply Hy. eassumption.
    + exists t. split; [rewrite nth_error_set_nth_other by exact NE; exact Hj | auto].
Qed.

Lemma ligas_keep_app : forall a x y, (forall t, x <> AnLiga t) -> ligas_ok a ->
  ligas_ok (set_nth (length a) x (a ++ [y])) /\ ligas_ext a (set_nth (length a) x (a ++ [y])).
Proof.
  intros a x y Hx OK.
  assert (nth_error (a ++ [y]) (length a) = Some y) as Ny
      by (rewrite nth_error_app2 by lia; rewrite Nat.sub_diag; reflexivity).
  split.
  - intros j t Hj. destruct (Nat.eq_dec (length a) j) as [E|NE].
    + subst j. rewrite (nth_error_set_nth_same _ _ x y Ny) in Hj. inversion Hj. exfalso. eapply Hx. eassumption.
    + rewrite nth_error_set_nth_other in Hj by exact NE.
      destruct (Nat.lt_ge_cases j (length a)) as [L|L].
      * rewrite nth_error_app1 in Hj by exact L. eapply OK. exact Hj.
      * rewrite nth_error_app2 in Hj by exact L. destruct (j - length a) as [|d] eqn:D; [lia|].
        simpl in Hj. destruct d; discriminate.
  - intros j t Hj. exists t. split; [|auto].
    assert (j < length a) by (apply nth_error_Some; congruence).
    rewrite nth_error_set_nth_other by lia. apply nth_error_app_l. exact Hj.
Qed.

Section Repaired.
Variable isng imul : bool.

Theorem inline_liga_add_sound : forall anons comps lig anons' i,
  add_inline_g isng imul true anons (XILiga comps lig) = (anons', Some i) ->
  ligas_ok anons ->
  ligas_ok anons' /\ ligas_ext anons anons'
  /\ exists t', nth_error anons' i = Some (AnLiga t')
                /\ forall first rest, In (first :: rest) (sequences comps) -> In (rest, lig) (row first t').
Proof.
  intros anons comps lig anons' i H OK. simpl in H.
  set (es := map (fun sq => (sq, lig)) (sequences comps)) in *.
  destruct (find_or_create _ (AnLiga []) anons) as [an k] eqn:F.
  apply find_or_create_spec in F.
  assert (forall e1 e2, In e1 es -> In e2 es -> alike e1 e2) as AL.
  { intros e1 e2 H1 H2. apply in_map_iff in H1 as [s1 [E1 S1]]. apply in_map_iff in H2 as [s2 [E2 S2]].
    subst e1 e2. split; [reflexivity|]. simpl. rewrite (sequences_length _ _ S1), (sequences_length _ _ S2). reflexivity. }
  assert (forall t, tbl_ok t -> (forall e, In e es -> compat t e) ->
            tbl_ok (fold_left lig_insert es t)
            /\ (forall g x, In x (row g t) -> In x (row g (fold_left lig_insert es t)))
            /\ forall first rest, In (first :: rest) (sequences comps) ->
                 In (rest, lig) (row first (fold_left lig_insert es t))) as FI.
  { intros t Ht Hc. destruct (fold_insert_ok es t Ht Hc AL) as [A [B C]]. split; [exact A|]. split; [exact B|].
    intros first rest Hs. apply C. unfold es. apply (in_map (fun sq => (sq, lig))). exact Hs. }
  destruct F as [[Ean [x [Nx Cx]]]|[Ean Ek]]; subst an.
  - destruct x as [| |t]; try discriminate. rewrite Nx in H.
    destruct es as [|e0 es0] eqn:Ees; [discriminate|]. rewrite <- Ees in *. inversion H; subst anons' i. clear H.
    rewrite forallb_forall in Cx.
    destruct (FI t (OK k t Nx)) as [A [B C]].
    { intros e He. apply entry_ok_compat. apply Cx. exact He. }
    split; [|split].
    + intros j t0 Hj. destruct (Nat.eq_dec k j) as [->|NE].
      * rewrite (nth_error_set_nth_same anons j _ _ Nx) in Hj. inversion Hj; subst. exact A.
      * rewrite nth_error_set_nth_other in Hj by exact NE. eapply OK. exact Hj.
    + intros j t0 Hj. destruct (Nat.eq_dec k j) as [->|NE].
      * rewrite Nx in Hj. inversion Hj; subst t0. eexists. split; [eapply nth_error_set_nth_same; exact Nx | exact B].
      * exists t0. split; [rewrite nth_error_set_nth_other by exact NE; exact Hj | auto].
    + eexists. split; [eapply nth_error_set_nth_same; exact Nx | exact C].
  - subst k. rewrite nth_error_app2 in H by lia. rewrite Nat.sub_diag in H. simpl in H.
    destruct es as [|e0 es0] eqn:Ees; [discriminate|]. rewrite <- Ees in *. inversion H; subst anons' i. clear H.
    destruct (FI [] tbl_ok_nil) as [A [B C]].
    { intros e He first rest Ef r l0 []. }
    assert (nth_error (anons ++ [AnLiga []]) (length anons) = Some (AnLiga []))
      as Ny by (rewrite nth_error_app2 by lia; rewrite Nat.sub_diag; reflexivity).
    split; [|split].
    + intros j t0 Hj. destruct (Nat.eq_dec (length anons) j) as [E|NE].
      * subst j. rewrite (nth_error_set_nth_same _ _ _ _ Ny) in Hj. inversion Hj; subst. exact A.
      * rewrite nth_error_set_nth_other in Hj by exact NE.
        destruct (Nat.lt_ge_cases j (length anons)) as [L|L].
        -- rewrite nth_error_app1 in Hj by exact L. eapply OK. exact Hj.
        -- rewrite nth_error_app2 in Hj by exact L. destruct (j - length anons) as [|d] eqn:D; [lia|].
           simpl in Hj. destruct d; discriminate.
    + intros j t0 Hj. exists t0. split; [|auto].
      assert (j < length anons) by (apply nth_error_Some; congruence).
      rewrite nth_error_set_nth_other by lia. apply nth_error_app_l. exact Hj.
    + eexists. split; [eapply nth_error_set_nth_same; exact Ny | exact C].
Qed.

End Repaired.

(* any repaired inline rule keeps the ligature tables well formed and growing *)
Lemma add_inline_ligas : forall anons x anons' o,
  add_inline_g true true true anons x = (anons', o) -> ligas_ok anons ->
  ligas_ok anons' /\ ligas_ext anons anons'.
Proof.
  intros anons x anons' o H OK. destruct x as [tgt repl n|tgt seqs|comps lig].
  - simpl in H. destruct (find_or_create _ (AnSingle []) anons) as [an k] eqn:F.
    apply find_or_create_spec in F. destruct F as [[Ean [x [Nx Cx]]]|[Ean Ek]]; subst an.
    + destruct x as [m| |]; try discriminate. rewrite Nx in H. inversion H; subst anons'.
      apply (ligas_keep_set anons k _ _ Nx); [intros t; discriminate | intros t; discriminate | exact OK].
    + subst k. rewrite nth_error_app2 in H by lia. rewrite Nat.sub_diag in H. simpl in H. inversion H; subst anons'.
      apply ligas_keep_app; [intros t; discriminate | exact OK].
  - simpl in H. destruct (find_or_create _ (AnMulti []) anons) as [an k] eqn:F.
    apply find_or_create_spec in F. destruct F as [[Ean [x [Nx Cx]]]|[Ean Ek]]; subst an.
    + destruct x as [|m|]; try discriminate. rewrite Nx in H. inversion H; subst anons'.
      apply (ligas_keep_set anons k _ _ Nx); [intros t; discriminate | intros t; discriminate | exact OK].
    + subst k. rewrite nth_error_app2 in H by lia. rewrite Nat.sub_diag in H. simpl in H. inversion H; subst anons'.
      apply ligas_keep_app; [intros t; discriminate | exact OK].
  - destruct o as [i|].
    + destruct (inline_liga_add_sound true true _ _ _ _ _ H OK) as [A [B _]]. split; assumption.
    + (* no sequence: nothing inserted *)
      simpl in H. destruct (find_or_create _ (AnLiga []) anons) as [an k] eqn:F.
      destruct (map (fun sq => (sq, lig)) (sequences comps)) as [|e0 es0] eqn:Ees; [|discriminate].
      apply find_or_create_spec in F. destruct F as [[Ean [x [Nx Cx]]]|[Ean Ek]]; subst an.
      * destruct x as [| |t]; try discriminate. rewrite Nx in H. simpl in H. inversion H; subst anons'.
        split.
        -- intros j t0 Hj. destruct (Nat.eq_dec k j) as [->|NE].
           ++ rewrite (nth_error_set_nth_same anons j _ _ Nx) in Hj. inversion Hj; subst. eapply OK. exact Nx.
           ++ rewrite nth_error_set_nth_other in Hj by exact NE. eapply OK. exact Hj.
        -- intros j t0 Hj. destruct (Nat.eq_dec k j) as [->|NE].
           ++ rewrite Nx in Hj. inversion Hj; subst. exists t0. split; [eapply nth_error_set_nth_same; exact Nx | auto].
           ++ exists t0. split; [rewrite nth_error_set_nth_other by exact NE; exact Hj | auto].
      * subst k. rewrite nth_error_app2 in H by lia. rewrite Nat.sub_diag in H. simpl in H. inversion H; subst anons'.
        assert (nth_error (anons ++ [AnLiga []]) (length anons) = Some (AnLiga []))
          as Ny by (rewrite nth_error_app2 by lia; rewrite Nat.sub_diag; reflexivity).
        split.
        -- intros j t0 Hj. destruct (Nat.eq_dec (length anons) j) as [E|NE].
           ++ subst j. rewrite (nth_error_set_nth_same _ _ _ _ Ny) in Hj. inversion Hj; subst. apply tbl_ok_nil.
           ++ rewrite nth_error_set_nth_other in Hj by exact NE.
              destruct (Nat.lt_ge_cases j (length anons)) as [L|L].
              ** rewrite nth_error_app1 in Hj by exact L. eapply OK. exact Hj.
              ** rewrite nth_error_app2 in Hj by exact L. destruct (j - length anons) as [|d] eqn:D; [lia|].
                 simpl in Hj. destruct d; discriminate.
        -- intros j t0 Hj. exists t0. split; [|auto].
           assert (j < length anons) by (apply nth_error_Some; congruence).
           rewrite nth_error_set_nth_other by lia. apply nth_error_app_l. exact Hj.
Qed.

Lemma chain_fold_ligas : forall root idx rules crs0 an0 crs an,
  fold_left (chain_step root idx) rules (crs0, an0) = (crs, an) -> ligas_ok an0 ->
  (exists tail, crs = crs0 ++ tail) /\ ligas_ok an /\ ligas_ext an0 an.
Proof.
  intros root idx. induction rules as [|r rules IH]; intros crs0 an0 crs an H OK; cbn [fold_left] in *.
  - inversion H; subst. split; [exists []; rewrite app_nil_r; reflexivity|]. split; [exact OK | apply ligas_ext_refl].
  - destruct (chain_step root idx (crs0, an0) r) as [crs1 an1] eqn:S.
    assert ((exists t1, crs1 = crs0 ++ t1) /\ ligas_ok an1 /\ ligas_ext an0 an1) as [[t1 Et1] [O1 X1]].
    { unfold chain_step in S. destruct r; try (inversion S; subst; split;
        [exists []; rewrite app_nil_r; reflexivity | split; [exact OK | apply ligas_ext_refl]]).
      destruct inl as [x|].
      - destruct (add_inline_g true true true an0 x) as [an' o] eqn:A. inversion S; subst.
        split; [eexists; reflexivity|]. eapply add_inline_ligas; eassumption.
      - inversion S; subst. split; [eexists; reflexivity|]. split; [exact OK | apply ligas_ext_refl]. }
    destruct (IH _ _ _ _ H O1) as [[tail Et] [O2 X2]].
    split; [exists (t1 ++ tail); rewrite Et, Et1, app_assoc; reflexivity|].
    split; [exact O2 | eapply ligas_ext_trans; eassumption].
Qed.

(* The positive counterpart of the third former counterexample, for every contextual lookup: the rule
   compiled from an inline LIGATURE substitution calls at input position 0 an anonymous ligature lookup
   whose table is well formed (no sequence extends another, one ligature per sequence) and holds every
   component sequence of that rule with the rule's ligature ... *)
Theorem inline_ligature_rule_lookup : forall root idx rules1 back input look comps lig rules2 crs anons,
  sequences comps <> [] ->
  compile_chain_g true true true root idx
    (rules1 ++ XChain back input look (Some (XILiga comps lig)) :: rules2) = (crs, anons) ->
  exists (crs1 : list chain_rule) (i : nat) (recs : list (nat * nat)) (crs2 : list chain_rule)
         (t : list (glyph * list (list glyph * glyph))),
    crs = crs1 ++ mkCR back (map fst input) look ((O, root + 1 + i) :: recs) :: crs2
    /\ length crs1 = length (fst (compile_chain_g true true true root idx rules1))
    /\ nth_error anons i = Some (AnLiga t) /\ tbl_ok t
    /\ forall first rest, In (first :: rest) (sequences comps) -> In (rest, lig) (row first t).
Proof.
  intros root idx rules1 back input look comps lig rules2 crs anons NE H.
  rewrite compile_chain_fold, fold_left_app in H. rewrite compile_chain_fold.
  destruct (fold_left (chain_step root idx) rules1 ([], [])) as [crs1 an1] eqn:F1.
  destruct (chain_fold_ligas root idx rules1 [] [] crs1 an1 F1) as [_ [O1 _]].
  { intros j t Hj. destruct j; discriminate. }
  cbn [fold_left] in H.
  destruct (chain_step root idx (crs1, an1) (XChain back input look (Some (XILiga comps lig)))) as [crs' an2] eqn:S.
  unfold chain_step in S.
  destruct (add_inline_g true true true an1 (XILiga comps lig)) as [an' o] eqn:A.
  assert (exists i, o = Some i) as [i Eo].
  { simpl in A. destruct (find_or_create _ (AnLiga []) an1) as [an k].
    destruct (sequences comps); [contradiction|]. simpl in A. inversion A. eauto. }
  subst o. inversion S; subst crs' an2. clear S.
  destruct (inline_liga_add_sound true true _ _ _ _ _ A O1) as [O2 [_ [t' [Nt Ht]]]].
  destruct (chain_fold_ligas root idx rules2 _ _ _ _ H O2) as [[tail Et] [O3 X3]].
  destruct (X3 i t' Nt) as [t [Nf Ef]].
  exists crs1, i, (flat_map (fun '(i0, ids) => map (fun k => (i0, idx k)) ids)
                            (combine (seq 0 (length input)) (map snd input))), tail, t.
  split; [rewrite Et, <- app_assoc; reflexivity|].
  split; [reflexivity|]. split; [exact Nf|]. split; [eapply O3; exact Nf|].
  intros first rest Hs. apply Ef. apply Ht. exact Hs.
Qed.
