(* C13 — lemmas.  The work is in ProofsLexer / ProofsSink / ProofsParser /
   ProofsTree / ProofsInclude; this file assembles the statements Props.v uses. *)
From Coq Require Import List NArith Bool Arith Lia.
From FV.C13 Require Export Keywords Model ProofsLexer ProofsSink ProofsParser ProofsTree ProofsInclude ProofsSafe ProofsCut.
Import ListNotations.
Open Scope nat_scope.

(* ---- lexer ------------------------------------------------------------------ *)

Lemma lex_total : forall text,
  exists ls, lex text = Some ls
             /\ total_len ls = length text
             /\ Forall (fun l => 1 <= ll l) ls
             /\ Forall (fun l => lexer_kind (lk l)) ls.
Proof.
  intro text. destruct (lex_all_total (length text) lstate0 text (le_n _)) as (ls & H & T & P).
  exists ls. unfold lex. repeat split; try assumption.
  apply (lex_all_kinds _ _ _ _ H).
Qed.

Lemma lex_no_eof : forall text ls,
  lex text = Some ls -> Forall (fun l => lk l <> K_Eof) ls.
Proof. intros text ls H. unfold lex in H. apply (lex_all_kinds _ _ _ _ H). Qed.

Lemma lex_boundaries : forall text ls,
  utf8_wf text = true -> lex text = Some ls ->
  Forall (fun p => is_boundary text p = true) (ends 0 ls).
Proof.
  intros text ls W H. unfold lex in H.
  apply (lex_all_bounds _ _ [] text ls true (utf8_wf_ok _ W) H).
Qed.

(* ---- any sequence of primitive calls ----------------------------------------- *)

Lemma run_good : forall gm text ls ops st0 st,
  gm_lossless gm ->
  parser_new gm text ls = Some st0 -> run gm text st0 ops = Some st -> Good text ls st.
Proof.
  intros gm text ls ops st0 st G N R.
  destruct (parser_new_good gm text G ls st0 N) as (B & I & _).
  eapply run_inv; eauto. split; [exists []; exact B|exact I].
Qed.

Lemma run_prefix : forall gm text ls ops st0 st,
  gm_lossless gm ->
  parser_new gm text ls = Some st0 -> run gm text st0 ops = Some st ->
  flatten_all (s_children (sk st)) = firstn (s_pos (sk st)) text
  /\ s_pos (sk st) <= length text
  /\ p_start (b0 st) = s_pos (sk st)
  /\ Forall wf_tree (s_children (sk st))
  /\ (total_len ls = length text -> s_pos (sk st) + total_len (pend st) = length text).
Proof.
  intros gm text ls ops st0 st G N R.
  destruct (run_good _ _ _ _ _ _ G N R) as [[c BI] [A B C]].
  repeat split; try assumption.
  - destruct BI as [_ _ S _ _ _ _ _ _ _]. lia.
  - intro T. eapply buf_total; eauto.
Qed.

(* the whole front end: lexer + any driver that stops at at_eof, eats the
   trailing trivia and finishes the root *)
Lemma front_end_lossless : forall gm text ops ls st0 st root,
  gm_lossless gm ->
  lex text = Some ls -> parser_new gm text ls = Some st0 -> run gm text st0 ops = Some st ->
  at_eof st = true -> p_triv (b0 st) = [] -> sink_root (sk st) = Some root ->
  flatten root = text /\ wf_tree root.
Proof.
  intros gm text ops ls st0 st root G L N R E T S.
  destruct (lex_total text) as (ls' & L' & Tl & _). rewrite L in L'. injection L' as L'; subst ls'.
  pose proof (run_good _ _ _ _ _ _ G N R) as Gd.
  split.
  - eapply lossless_no_eof; eauto. eapply lex_no_eof; eauto.
  - destruct Gd as [_ [_ _ W]]. unfold sink_root in S.
    destruct (s_children (sk st)) as [|[k0 x|k0 n0 e0 ch] [|y r]]; try discriminate.
    injection S as S; subst root. inversion W; assumption.
Qed.

(* ---- positions ------------------------------------------------------------------ *)

Lemma positions_in_source : forall root text,
  wf_tree root -> flatten root = text ->
  chain 0 (tok_ranges (annotate root 0)) (length text)
  /\ Forall (fun r => let '(lo, hi, x) := r in
                      hi <= length text /\ hi = lo + length x /\ x = firstn (hi - lo) (skipn lo text))
            (tok_ranges (annotate root 0))
  /\ Forall (fun r => fst r <= snd r /\ snd r <= length text) (node_ranges (annotate root 0)).
Proof.
  intros root text W F.
  destruct (tok_ranges_chain root W 0) as [C T].
  assert (Ln : tlen root = length text) by (rewrite wf_len by assumption; congruence).
  cbn [Nat.add] in C. rewrite Ln in C.
  split; [exact C|]. split.
  - pose proof (chain_slices _ _ _ C) as S. rewrite T, F in S.
    rewrite Forall_forall in *. intros [[lo hi] x] Hin. specialize (S _ Hin). cbn beta iota in S.
    destruct S as (A & B & B' & D). rewrite Nat.sub_0_r in D. split; [exact B|]. split; [exact B'|exact D].
  - pose proof (node_ranges_bounds root W 0) as Nb. rewrite Ln in Nb.
    rewrite Forall_forall in *. intros r Hr. specialize (Nb r Hr). cbn [Nat.add] in Nb. lia.
Qed.

(* ---- totality of the primitives -------------------------------------------------- *)

Lemma advance_empty_total : forall gm text st,
  p_triv (b0 st) = [] ->
  exists st', advance gm text st = Some st'
              /\ b0 st' = b1 st /\ b1 st' = b2 st /\ b2 st' = b3 st.
Proof.
  intros gm text st H. unfold advance, eat_trivia. rewrite H. cbn [emit_trivia lx b1 b2 b3 sk].
  destruct (pull (lx st) [] 0) as [[[tr n] tk] rest].
  eexists. split; [reflexivity|].
  match goal with |- context [validate_new ?m] =>
    pose proof (validate_new_props m) as V; cbv zeta in V end.
  destruct V as (_ & V2 & V3 & V4 & _). rewrite V2, V3, V4. auto.
Qed.

(* Parser::new returns on every lexeme stream *)
Lemma parser_new_total : forall gm text ls, exists st0, parser_new gm text ls = Some st0.
Proof.
  intros gm text ls. unfold parser_new.
  destruct (advance_empty_total gm text (mkPS ls P_EMPTY P_EMPTY P_EMPTY P_EMPTY sink0) eq_refl)
    as (s1 & A1 & a0 & a1 & a2). rewrite A1.
  destruct (advance_empty_total gm text s1 ltac:(rewrite a0; reflexivity)) as (s2 & A2 & b0' & b1' & b2').
  rewrite A2.
  destruct (advance_empty_total gm text s2 ltac:(rewrite b0', a1; reflexivity)) as (s3 & A3 & c0 & c1 & c2).
  rewrite A3.
  destruct (advance_empty_total gm text s3 ltac:(rewrite c0, b1', a2; reflexivity)) as (s4 & A4 & _).
  rewrite A4. eexists; reflexivity.
Qed.

(* in every state a grammar can reach on well-formed UTF-8, the token-consuming
   primitives return *)
Lemma token_primitives_total : forall gm text ops ls st0 st,
  gm_lossless gm -> utf8_wf text = true -> lex text = Some ls ->
  parser_new gm text ls = Some st0 -> run gm text st0 ops = Some st ->
  (exists st', step gm text st OEatTrivia = Some st')
  /\ (exists st', step gm text st OEatRaw = Some st')
  /\ (forall k, exists st', step gm text st (OBump 1 k) = Some st').
Proof.
  intros gm text ops ls st0 st G W L N R.
  destruct (lex_total text) as (ls' & L' & T & _ & K). rewrite L in L'. injection L' as L'; subst ls'.
  pose proof (lex_boundaries _ _ W L) as B.
  pose proof (run_good _ _ _ _ _ _ G N R) as Gd.
  assert (S : SafeInv text st).
  { destruct (parser_new_good gm text G ls st0 N) as (B0 & I0 & _).
    eapply (run_safe gm text ls G); [| |exact R].
    - split; [exists []; exact B0|exact I0].
    - eapply parser_new_safe; eauto. }
  split; [|split].
  - cbn [step]. eapply eat_trivia_total; eauto.
  - eapply eat_raw_total; eauto.
  - intro k. cbn [step]. eapply do_bump1_total; eauto.
Qed.

Lemma err_range_boundaries : forall gm text ops ls st0 st,
  gm_lossless gm -> utf8_wf text = true -> lex text = Some ls ->
  parser_new gm text ls = Some st0 -> run gm text st0 ops = Some st ->
  tok_start (b0 st) <= tok_end (b0 st) /\ tok_end (b0 st) <= length text
  /\ is_boundary text (tok_start (b0 st)) = true /\ is_boundary text (tok_end (b0 st)) = true.
Proof.
  intros gm text ops ls st0 st G W L N R.
  destruct (lex_total text) as (ls' & L' & T & _ & K). rewrite L in L'. injection L' as L'; subst ls'.
  pose proof (lex_boundaries _ _ W L) as B.
  pose proof (run_good _ _ _ _ _ _ G N R) as Gd.
  assert (S : SafeInv text st).
  { destruct (parser_new_good gm text G ls st0 N) as (B0 & I0 & _).
    eapply (run_safe gm text ls G); [| |exact R].
    - split; [exists []; exact B0|exact I0].
    - eapply parser_new_safe; eauto. }
  destruct (err_range_bnd text ls T B st Gd S) as [[B1 _] [B2 L2]].
  unfold tok_start, tok_end in *. repeat split; try assumption; lia.
Qed.

(* ---- split_remap_current ------------------------------------------------------------ *)

(* the split function's ranges: contiguous from 0, covering the token, cutting the
   text on character boundaries *)
Fixpoint parts_ok (text : list N) (base prev len : nat) (parts : list (nat * nat * N)) : Prop :=
  match parts with
  | [] => prev = len
  | (a, b, _) :: t => a = prev /\ a <= b /\ bnd text (base + b) /\ parts_ok text base b len t
  end.

Lemma emit_parts_total : forall gm text base len parts prev s,
  gm_lossless gm -> SinkInv text s -> bnd text (s_pos s) -> s_pos s = base + prev ->
  parts_ok text base prev len parts ->
  exists s', emit_parts gm text parts prev s = Some (len, s').
Proof.
  intros gm text base len parts. induction parts as [|[[a b] k] t IH]; intros prev s G I B P H.
  - cbn in H. subst. eexists; reflexivity.
  - cbn [parts_ok] in H. destruct H as (E & L & Bb & H). subst a. cbn [emit_parts].
    rewrite Nat.eqb_refl. cbn [negb]. destruct (b <? prev) eqn:Q; [apply Nat.ltb_lt in Q; lia|].
    assert (B2 : bnd text (s_pos s + (b - prev))) by (replace (s_pos s + (b - prev)) with (base + b) by lia; exact Bb).
    destruct (sink_token_total gm text G k (b - prev) s B B2) as [s1 T]. rewrite T.
    destruct (sink_token_inv gm text G _ _ _ _ I T) as (I1 & P1 & _).
    apply IH; [exact G|exact I1|eapply (sink_token_bnd gm text G); eauto|lia|exact H].
Qed.

(* with the trivia eaten first, a well-formed split never panics *)
Lemma split_total : forall gm text ops ls st0 st parts,
  gm_lossless gm -> utf8_wf text = true -> lex text = Some ls ->
  parser_new gm text ls = Some st0 -> run gm text st0 ops = Some st ->
  parts_ok text (tok_start (b0 st)) 0 (ll (p_tok (b0 st))) parts ->
  exists st', step gm text st (OSplit parts) = Some st'.
Proof.
  intros gm text ops ls st0 st parts G W L N R PO.
  destruct (lex_total text) as (ls' & L' & T & _ & K). rewrite L in L'. injection L' as L'; subst ls'.
  pose proof (lex_boundaries _ _ W L) as B.
  pose proof (run_good _ _ _ _ _ _ G N R) as Gd.
  assert (S : SafeInv text st).
  { destruct (parser_new_good gm text G ls st0 N) as (B0 & I0 & _).
    eapply (run_safe gm text ls G); [| |exact R].
    - split; [exists []; exact B0|exact I0].
    - eapply parser_new_safe; eauto. }
  cbn [step]. unfold split_remap. destruct parts as [|p ps]; [eexists; reflexivity|].
  destruct (eat_trivia_total gm text ls G T B st Gd S) as [st1 Et]. rewrite Et.
  destruct Gd as [[c BI] I].
  destruct (eat_trivia_inv gm text G _ _ _ _ _ _ BI I Et) as (BI1 & I1 & Tr & Tk & _).
  assert (Ps : s_pos (sk st1) = tok_start (b0 st)).
  { destruct BI1 as [_ S2 _ _ _ _ _ _ _ _]. destruct BI as [_ S2' Bs _ _ _ T0 _ _ _].
    rewrite total_len_app in S2. unfold tok_start. lia. }
  destruct (emit_parts_total gm text (tok_start (b0 st)) (ll (p_tok (b0 st))) (p :: ps) 0 (sk st1) G I1)
    as [s E]; [eapply (eat_trivia_pos gm text G); [apply S|exact Et]|lia|exact PO|].
  rewrite E, Tk, Nat.eqb_refl. cbn [negb].
  destruct (advance_empty_total gm text (with_sink st1 s) Tr) as (st' & A & _).
  exists st'. exact A.
Qed.

(* err_before_ws / warn_before_ws: the character at the start of the buffer *)
Lemma err_before_ws_boundaries : forall gm text ops ls st0 st,
  gm_lossless gm -> utf8_wf text = true -> lex text = Some ls ->
  parser_new gm text ls = Some st0 -> run gm text st0 ops = Some st ->
  let lo := p_start (b0 st) in
  let hi := char_end text (p_start (b0 st)) in
  lo <= hi /\ hi <= length text /\ is_boundary text lo = true /\ is_boundary text hi = true.
Proof.
  intros gm text ops ls st0 st G W L N R.
  destruct (lex_total text) as (ls' & L' & T & _ & K). rewrite L in L'. injection L' as L'; subst ls'.
  pose proof (lex_boundaries _ _ W L) as B.
  pose proof (run_good _ _ _ _ _ _ G N R) as Gd.
  assert (S : SafeInv text st).
  { destruct (parser_new_good gm text G ls st0 N) as (B0 & I0 & _).
    eapply (run_safe gm text ls G); [| |exact R].
    - split; [exists []; exact B0|exact I0].
    - eapply parser_new_safe; eauto. }
  destruct Gd as [[c BI] I]. destruct BI as [_ _ Bs _ _ _ _ _ _ _].
  destruct (sf_pos _ _ S) as [P1 P2].
  replace (p_start (b0 st)) with (s_pos (sk st)) by lia. cbv zeta.
  destruct (char_end_boundary text (s_pos (sk st)) W P1 P2) as (A1 & A2 & A3). auto.
Qed.

