(* C13 — include graph: the statements IncludeGraph::validate reports cut every
   cycle, so generate_recurse terminates on what is left; in particular a graph
   on which nothing is reported is acyclic from the root.

   The walk of `validate` is a depth-first search from the root in which the
   bottom frame plays a virtual root (the root file itself is an ordinary,
   initially unseen node).  `ord` is ghost state: the files in the order in which
   their exploration finished. *)
From Coq Require Import List NArith Bool Arith Lia.
From FV.C13 Require Import Keywords Model ProofsInclude.
Import ListNotations.
Open Scope nat_scope.

Section Cut.
  Variable g : graph.
  Variable root : N.

  Definition is_cut (bad : list ierr) (n : N) (i : nat) : Prop := skipped bad n i = true.

  (* the ghost finish order after one step *)
  Definition gord (v : vstate) (ord : list N) : list N :=
    match v_stack v with
    | [] => ord
    | fr :: rest =>
        match nth_error (f_edges fr) (f_cur fr) with
        | None => match rest with [] => ord | _ => ord ++ [f_node fr] end
        | Some child =>
            if MAX_INCLUDE_DEPTH - 1 <=? length (mkF (f_node fr) (f_edges fr) (S (f_cur fr)) :: rest) then ord
            else if negb (memN child (v_seen v)) then
              match edges_of g child with Some _ => ord | None => ord ++ [child] end
            else ord
        end
    end.

  (* processed edges of the frames: not cut => the target has finished, or is the
     frame directly above (for the edge being explored) *)
  Fixpoint frames_ok (bad : list ierr) (ord : list N) (above : option N) (s : list frame) : Prop :=
    match s with
    | [] => True
    | f :: t =>
        (forall i c, i < f_cur f -> nth_error (f_edges f) i = Some c ->
                     skipped bad (f_node f) i = false ->
                     In c ord \/ (above = Some c /\ S i = f_cur f))
        /\ frames_ok bad ord (Some (f_node f)) t
    end.

  Definition upper (s : list frame) : list frame := removelast s.

  Record Inv (v : vstate) (ord : list N) : Prop := {
    i_bot : v_stack v = [] \/ exists ups bot, v_stack v = ups ++ [bot] /\ f_node bot = root;
    i_edges : forall f, In f (v_stack v) -> edges_of g (f_node f) = Some (f_edges f);
    i_seen : forall n, In n ord -> memN n (v_seen v) = true;
    i_cover : forall n, memN n (v_seen v) = true ->
                        In n ord \/ exists f, In f (upper (v_stack v)) /\ f_node f = n;
    i_upseen : forall f, In f (upper (v_stack v)) -> memN (f_node f) (v_seen v) = true;
    i_closed : forall p d q, ord = p ++ d :: q ->
                 forall es i c, edges_of g d = Some es -> nth_error es i = Some c ->
                                skipped (v_bad v) d i = false -> In c p;
    i_frames : frames_ok (v_bad v) ord None (v_stack v);
    i_final : v_stack v = [] ->
              forall es i c, edges_of g root = Some es -> nth_error es i = Some c ->
                             skipped (v_bad v) root i = false -> In c ord
  }.

  Lemma skipped_app : forall bad e n i,
    skipped (bad ++ [e]) n i = skipped bad n i || (nbeq (e_file e) n && (e_idx e =? i)).
  Proof. intros. unfold skipped. rewrite existsb_app. cbn. rewrite orb_false_r. reflexivity. Qed.

  Lemma skipped_mono : forall bad e n i, skipped (bad ++ [e]) n i = false -> skipped bad n i = false.
  Proof. intros bad e n i H. rewrite skipped_app in H. apply orb_false_iff in H. tauto. Qed.

  Lemma skipped_new : forall bad n i c, skipped (bad ++ [mkIE n i c]) n i = true.
  Proof.
    intros. rewrite skipped_app. cbn. unfold nbeq. rewrite N.eqb_refl, Nat.eqb_refl.
    apply orb_true_r.
  Qed.

  Lemma frames_ok_mono : forall bad bad' ord ord' above s,
    (forall n i, skipped bad' n i = false -> skipped bad n i = false) ->
    (forall c, In c ord -> In c ord') ->
    frames_ok bad ord above s -> frames_ok bad' ord' above s.
  Proof.
    intros bad bad' ord ord' above s Hb Ho. revert above.
    induction s as [|f t IH]; intros above H; [exact I|].
    destruct H as [H1 H2]. split; [|apply IH; exact H2].
    intros i c Li Hn Hs. destruct (H1 i c Li Hn (Hb _ _ Hs)) as [A|A]; [left; auto|right; exact A].
  Qed.

  (* the frame above has finished: its node is now in ord *)
  Lemma frames_ok_pop : forall bad ord n s,
    frames_ok bad ord (Some n) s -> frames_ok bad (ord ++ [n]) None s.
  Proof.
    intros bad ord n s H. destruct s as [|f t]; [exact I|].
    destruct H as [H1 H2]. split.
    - intros i c Li Hn Hs. left. destruct (H1 i c Li Hn Hs) as [A|[A _]].
      + apply in_or_app. left. exact A.
      + injection A as A; subst. apply in_or_app. right. left. reflexivity.
    - eapply frames_ok_mono; [| |exact H2]; auto. intros c Hc. apply in_or_app. left. exact Hc.
  Qed.

  Lemma removelast_cons2 : forall (A : Type) (x y : A) l, removelast (x :: y :: l) = x :: removelast (y :: l).
  Proof. reflexivity. Qed.

  Lemma upper_push : forall f s, s <> [] -> upper (f :: s) = f :: upper s.
  Proof. intros f s H. destruct s; [congruence|reflexivity]. Qed.

  Lemma bot_shape_cons : forall (fr : frame) rest,
    (exists ups bot, fr :: rest = ups ++ [bot] /\ f_node bot = root) ->
    (rest = [] /\ f_node fr = root) \/ (rest <> [] /\ exists ups bot, rest = ups ++ [bot] /\ f_node bot = root).
  Proof.
    intros fr rest (ups & bot & E & R). destruct ups as [|u ups'].
    - cbn in E. injection E as E1 E2. subst. left. auto.
    - cbn in E. injection E as E1 E2. subst. right. split; [destruct ups'; discriminate|].
      exists ups', bot. auto.
  Qed.

  Lemma vstep_inv : forall v v' ord, Inv v ord -> vstep g v = Some v' -> Inv v' (gord v ord).
  Proof.
    intros v v' ord [Bot Ed Se Co Us Cl Fr Fi] H. unfold vstep in H. unfold gord.
    destruct (v_stack v) as [|fr rest] eqn:Es; [discriminate|].
    destruct Bot as [Bot|Bot]; [discriminate|].
    apply bot_shape_cons in Bot.
    cbn [frames_ok] in Fr. destruct Fr as [Fr1 Fr2].
    destruct (nth_error (f_edges fr) (f_cur fr)) as [child|] eqn:En.
    - (* an edge of the top frame *)
      assert (Lc : f_cur fr < length (f_edges fr)) by (apply nth_error_Some; congruence).
      set (fr' := mkF (f_node fr) (f_edges fr) (S (f_cur fr))) in *.
      assert (Bot' : forall extra, exists ups bot, extra ++ fr' :: rest = ups ++ [bot] /\ f_node bot = root).
      { intro extra. destruct Bot as [[R1 R2]|[R1 (ups & bot & R2 & R3)]].
        - subst rest. exists extra, fr'. split; [reflexivity|exact R2].
        - exists (extra ++ fr' :: ups), bot. split; [rewrite R2, <- app_assoc; reflexivity|exact R3]. }
      assert (Ed' : forall f, In f (fr' :: rest) -> edges_of g (f_node f) = Some (f_edges f)).
      { intros f [Hf|Hf]; [subst f; cbn; apply Ed; left; reflexivity|apply Ed; right; exact Hf]. }
      assert (Up' : forall n, (exists f, In f (upper (fr :: rest)) /\ f_node f = n) ->
                              exists f, In f (upper (fr' :: rest)) /\ f_node f = n).
      { intros n (f & Hf & Hn). unfold upper in *. destruct rest as [|r rs]; [destruct Hf|].
        rewrite removelast_cons2 in *. destruct Hf as [Hf|Hf].
        - subst f. exists fr'. split; [left; reflexivity|exact Hn].
        - exists f. split; [right; exact Hf|exact Hn]. }
      assert (Us' : forall f seen', (forall n, memN n (v_seen v) = true -> memN n seen' = true) ->
                              In f (upper (fr' :: rest)) -> memN (f_node f) seen' = true).
      { intros f seen' Hm Hf. unfold upper in *. destruct rest as [|r rs]; [destruct Hf|].
        rewrite removelast_cons2 in Hf. apply Hm. destruct Hf as [Hf|Hf].
        - subst f. cbn. apply (Us fr). rewrite removelast_cons2. left. reflexivity.
        - apply (Us f). rewrite removelast_cons2. right. exact Hf. }
      (* processed edges of the top frame after the step, given what happens to edge cur *)
      assert (Top : forall bad' ord' above,
                 (forall n i, skipped bad' n i = false -> skipped (v_bad v) n i = false) ->
                 (forall c, In c ord -> In c ord') ->
                 (skipped bad' (f_node fr) (f_cur fr) = false -> In child ord' \/ above = Some child) ->
                 frames_ok bad' ord' above (fr' :: rest)).
      { intros bad' ord' above Hb Ho Hc. split.
        - intros i c Li Hn Hs. cbn [fr' f_cur f_edges f_node] in *.
          destruct (Nat.eq_dec i (f_cur fr)) as [Q|Q].
          + subst i. rewrite En in Hn. injection Hn as Hn; subst c.
            destruct (Hc Hs) as [A|A]; [left; exact A|right; auto].
          + destruct (Fr1 i c ltac:(lia) Hn (Hb _ _ Hs)) as [A|[A _]]; [left; auto|discriminate].
        - eapply frames_ok_mono; [exact Hb|exact Ho|exact Fr2]. }
      destruct (MAX_INCLUDE_DEPTH - 1 <=? length (fr' :: rest)) eqn:Ed0.
      + (* too deep: the edge is cut *)
        injection H as H; subst v'. constructor; cbn [v_stack v_seen v_bad].
        * right. apply (Bot' []).
        * exact Ed'.
        * exact Se.
        * intros n Hn. destruct (Co n Hn) as [A|A]; [left; exact A|right; apply Up'; exact A].
        * intros f Hf. apply (Us' f); auto.
        * intros p d q E es i c He Hn Hs. eapply Cl; eauto. eapply skipped_mono; eauto.
        * apply Top; [intros; eapply skipped_mono; eauto|auto|].
          intro Q. rewrite skipped_new in Q. discriminate.
        * discriminate.
      + destruct (negb (memN child (v_seen v))) eqn:Em.
        * apply negb_true_iff in Em.
          destruct (edges_of g child) as [ce|] eqn:Ee; injection H as H; subst v'.
          -- (* descend into child *)
             constructor; cbn [v_stack v_seen v_bad].
             ++ right. apply (Bot' [mkF child ce 0]).
             ++ intros f [Hf|Hf]; [subst f; cbn; exact Ee|apply Ed'; exact Hf].
             ++ intros n Hn. rewrite memN_cons. rewrite (Se n Hn). apply orb_true_r.
             ++ intros n Hn. rewrite memN_cons in Hn. apply orb_true_iff in Hn as [Hn|Hn].
                ** apply N.eqb_eq in Hn. subst n. right. exists (mkF child ce 0).
                   split; [|reflexivity]. unfold upper. cbn. left. reflexivity.
                ** destruct (Co n Hn) as [A|A]; [left; exact A|right].
                   apply Up' in A. destruct A as (f & Hf & Hfn). exists f. split; [|exact Hfn].
                   rewrite upper_push by discriminate. right. exact Hf.
             ++ intros f Hf. rewrite upper_push in Hf by discriminate. destruct Hf as [Hf|Hf].
                ** subst f. cbn [f_node]. rewrite memN_cons. unfold nbeq. rewrite N.eqb_refl. reflexivity.
                ** apply (Us' f); [|exact Hf]. intros n Hn. rewrite memN_cons, Hn. apply orb_true_r.
             ++ exact Cl.
             ++ split; [intros i c Li; cbn in Li; lia|].
                apply Top; auto; intros _; right; reflexivity.
             ++ discriminate.
          -- (* a file without includes: finished at once *)
             constructor; cbn [v_stack v_seen v_bad].
             ++ right. apply (Bot' []).
             ++ exact Ed'.
             ++ intros n Hn. rewrite memN_cons. apply in_app_or in Hn as [Hn|[Hn|[]]].
                ** rewrite (Se n Hn). apply orb_true_r.
                ** subst n. unfold nbeq. rewrite N.eqb_refl. reflexivity.
             ++ intros n Hn. rewrite memN_cons in Hn. apply orb_true_iff in Hn as [Hn|Hn].
                ** apply N.eqb_eq in Hn. subst n. left. apply in_or_app. right. left. reflexivity.
                ** destruct (Co n Hn) as [A|A]; [left; apply in_or_app; left; exact A|right; apply Up'; exact A].
             ++ intros f Hf. apply (Us' f); [|exact Hf]. intros n Hn. rewrite memN_cons, Hn. apply orb_true_r.
             ++ intros p d q E es i c He Hn Hs.
                destruct q as [|q0 qs] using rev_ind.
                ** (* d is the new last element: child, which has no edges *)
                   apply app_inj_tail in E as [E1 E2]. subst. congruence.
                ** clear IHqs. rewrite app_comm_cons, app_assoc in E.
                   apply app_inj_tail in E as [E1 E2]. subst. eapply Cl; eauto.
             ++ apply Top; auto; [intros c Hc; apply in_or_app; left; exact Hc|];
                  intros _; left; apply in_or_app; right; left; reflexivity.
             ++ discriminate.
        * apply negb_false_iff in Em.
          destruct (existsb (fun f => nbeq (f_node f) child) (fr' :: rest)) eqn:Ex;
            injection H as H; subst v'.
          -- (* back edge: cut *)
             constructor; cbn [v_stack v_seen v_bad].
             ++ right. apply (Bot' []).
             ++ exact Ed'.
             ++ exact Se.
             ++ intros n Hn. destruct (Co n Hn) as [A|A]; [left; exact A|right; apply Up'; exact A].
             ++ intros f Hf. apply (Us' f); auto.
             ++ intros p d q E es i c He Hn Hs. eapply Cl; eauto. eapply skipped_mono; eauto.
             ++ apply Top; [intros; eapply skipped_mono; eauto|auto|].
                intro Q. rewrite skipped_new in Q. discriminate.
             ++ discriminate.
          -- (* seen, on no frame: it has finished *)
             constructor; cbn [v_stack v_seen v_bad].
             ++ right. apply (Bot' []).
             ++ exact Ed'.
             ++ exact Se.
             ++ intros n Hn. destruct (Co n Hn) as [A|A]; [left; exact A|right; apply Up'; exact A].
             ++ intros f Hf. apply (Us' f); auto.
             ++ exact Cl.
             ++ apply Top; auto. intros _. left.
                destruct (Co child Em) as [A|(f & Hf & Hn)]; [exact A|exfalso].
                assert (Hin : In f (fr :: rest)).
                { unfold upper in Hf. clear - Hf. revert Hf. generalize (fr :: rest) as s.
                  induction s as [|x s IH]; intro Hf; [destruct Hf|].
                  destruct s as [|y s']; [destruct Hf|]. rewrite removelast_cons2 in Hf.
                  destruct Hf as [Hf|Hf]; [left; exact Hf|right; apply IH; exact Hf]. }
                assert (Q : existsb (fun f0 => nbeq (f_node f0) child) (fr' :: rest) = true).
                { apply existsb_exists. destruct Hin as [Hin|Hin].
                  - subst f. exists fr'. split; [left; reflexivity|]. cbn. rewrite Hn.
                    unfold nbeq. apply N.eqb_refl.
                  - exists f. split; [right; exact Hin|]. rewrite Hn. unfold nbeq. apply N.eqb_refl. }
                congruence.
             ++ discriminate.
    - (* the top frame is exhausted *)
      injection H as H; subst v'.
      assert (All : forall i c, nth_error (f_edges fr) i = Some c ->
                                skipped (v_bad v) (f_node fr) i = false -> In c ord).
      { intros i c Hn Hs. assert (Li : i < f_cur fr).
        { apply nth_error_None in En. assert (i < length (f_edges fr)) by (apply nth_error_Some; congruence). lia. }
        destruct (Fr1 i c Li Hn Hs) as [A|[A _]]; [exact A|discriminate]. }
      destruct Bot as [[R1 R2]|[R1 (ups & bot & R2 & R3)]].
      + (* it was the bottom frame: the walk is over *)
        subst rest. constructor; cbn [v_stack v_seen v_bad].
        * left. reflexivity.
        * intros f [].
        * exact Se.
        * intros n Hn. destruct (Co n Hn) as [A|(f & Hf & _)]; [left; exact A|destruct Hf].
        * intros f [].
        * exact Cl.
        * exact I.
        * intros _ es i c He Hn Hs. rewrite <- R2 in He, Hs.
          rewrite (Ed fr (or_introl eq_refl)) in He. injection He as He; subst es.
          eapply All; eauto.
      + destruct rest as [|r rs]; [congruence|].
        constructor; cbn [v_stack v_seen v_bad].
        * right. exists ups, bot. auto.
        * intros f Hf. apply Ed. right. exact Hf.
        * intros n Hn. apply in_app_or in Hn as [Hn|[Hn|[]]]; [apply Se; exact Hn|].
          subst n. apply (Us fr). unfold upper. rewrite removelast_cons2. left. reflexivity.
        * intros n Hn. destruct (Co n Hn) as [A|(f & Hf & Hfn)]; [left; apply in_or_app; left; exact A|].
          unfold upper in Hf. rewrite removelast_cons2 in Hf. destruct Hf as [Hf|Hf].
          -- subst f. left. apply in_or_app. right. left. exact Hfn.
          -- right. exists f. split; [exact Hf|exact Hfn].
        * intros f Hf. apply (Us f). unfold upper. rewrite removelast_cons2. right. exact Hf.
        * intros p d q E es i c He Hn Hs.
          destruct q as [|q0 qs] using rev_ind.
          -- apply app_inj_tail in E as [E1 E2]. subst.
             rewrite (Ed fr (or_introl eq_refl)) in He. injection He as He; subst es. eapply All; eauto.
          -- clear IHqs. rewrite app_comm_cons, app_assoc in E.
             apply app_inj_tail in E as [E1 E2]. subst. eapply Cl; eauto.
        * apply frames_ok_pop. exact Fr2.
        * discriminate.
  Qed.

  Lemma inv_init : forall e, edges_of g root = Some e -> Inv (mkV [mkF root e 0] [] []) [].
  Proof.
    intros e He. constructor; cbn [v_stack v_seen v_bad].
    - right. exists [], (mkF root e 0). auto.
    - intros f [Hf|[]]. subst f. exact He.
    - intros n [].
    - intros n Hn. discriminate.
    - intros f [].
    - intros p d q E. destruct p; discriminate.
    - split; [intros i c Li; cbn in Li; lia|exact I].
    - discriminate.
  Qed.

  Lemma vstep_none : forall v, vstep g v = None -> v_stack v = [].
  Proof.
    intros v H. unfold vstep in H. destruct (v_stack v) as [|fr rest]; [reflexivity|].
    destruct (nth_error (f_edges fr) (f_cur fr)); [|discriminate].
    destruct (_ <=? _); [discriminate|]. destruct (negb _).
    - destruct (edges_of g n); discriminate.
    - destruct (existsb _ _); discriminate.
  Qed.

  Lemma vloop_inv : forall fuel v ord bad,
    Inv v ord -> vloop fuel g v = Some bad ->
    exists v' ord', Inv v' ord' /\ v_stack v' = [] /\ v_bad v' = bad.
  Proof.
    induction fuel as [|f IH]; intros v ord bad I H; cbn [vloop] in H.
    - destruct (vstep g v) as [v1|] eqn:E; [discriminate|]. injection H as H.
      exists v, ord. split; [exact I|]. split; [apply vstep_none; exact E|exact H].
    - destruct (vstep g v) as [v1|] eqn:E.
      + eapply IH; [eapply vstep_inv; eauto|exact H].
      + injection H as H. exists v, ord. split; [exact I|]. split; [apply vstep_none; exact E|exact H].
  Qed.

  (* ---- generate_recurse on what is left --------------------------------------- *)

  Lemma gen_children_mono : forall (gen gen' : N -> option (list N)) bad id l i r,
    (forall c a, gen c = Some a -> gen' c = Some a) ->
    gen_children gen bad id l i = Some r -> gen_children gen' bad id l i = Some r.
  Proof.
    intros gen gen' bad id l. induction l as [|c t IH]; intros i r Hg H; [exact H|].
    cbn [gen_children] in *. destruct (skipped bad id i); [apply IH; assumption|].
    destruct (gen c) as [a|] eqn:Ga; [|discriminate]. rewrite (Hg _ _ Ga).
    destruct (gen_children gen bad id t (S i)) as [b|] eqn:Gb; [|discriminate].
    rewrite (IH _ _ Hg Gb). exact H.
  Qed.

  Lemma generate_mono : forall fuel bad id r,
    generate fuel g bad id = Some r -> generate (S fuel) g bad id = Some r.
  Proof.
    induction fuel as [|f IH]; intros bad id r H; [discriminate|].
    cbn [generate] in H. change (generate (S (S f)) g bad id) with
      (match edges_of g id with
       | None => Some [id]
       | Some es => match gen_children (generate (S f) g bad) bad id es 0 with
                    | Some l => Some (id :: l) | None => None end
       end).
    destruct (edges_of g id) as [es|]; [|exact H].
    destruct (gen_children (generate f g bad) bad id es 0) as [l|] eqn:G; [|discriminate].
    rewrite (gen_children_mono _ (generate (S f) g bad) _ _ _ _ _ (IH bad) G). exact H.
  Qed.

  Lemma generate_mono_le : forall f1 f2 bad id r,
    f1 <= f2 -> generate f1 g bad id = Some r -> generate f2 g bad id = Some r.
  Proof.
    intros f1 f2 bad id r L H. induction L; [exact H|]. apply generate_mono. exact IHL.
  Qed.

  Lemma gen_children_total : forall (gen : N -> option (list N)) bad id l i,
    (forall j c, nth_error l j = Some c -> skipped bad id (i + j) = false -> exists r, gen c = Some r) ->
    exists r, gen_children gen bad id l i = Some r.
  Proof.
    intros gen bad id l. induction l as [|c t IH]; intros i Ht; [eexists; reflexivity|].
    cbn [gen_children].
    destruct (IH (S i)) as [b Hb].
    { intros j c' Hn Hs. apply (Ht (S j) c'); [exact Hn|]. replace (i + S j) with (S i + j) by lia. exact Hs. }
    destruct (skipped bad id i) eqn:Sk; [exists b; exact Hb|].
    destruct (Ht 0 c eq_refl) as [a Ha]; [rewrite Nat.add_0_r; exact Sk|].
    rewrite Ha, Hb. eexists; reflexivity.
  Qed.

  (* if every uncut child of id can be generated with fuel f, so can id with fuel S f *)
  Lemma generate_node : forall f bad id,
    (forall es i c, edges_of g id = Some es -> nth_error es i = Some c -> skipped bad id i = false ->
                    exists r, generate f g bad c = Some r) ->
    exists r, generate (S f) g bad id = Some r.
  Proof.
    intros f bad id H. cbn [generate].
    destruct (edges_of g id) as [es|] eqn:Ee; [|eexists; reflexivity].
    destruct (gen_children_total (generate f g bad) bad id es 0) as [l Hl].
    { intros j c Hn Hs. eapply H; eauto. }
    rewrite Hl. eexists; reflexivity.
  Qed.

  Lemma generate_finished : forall v ord,
    Inv v ord -> forall k n, In n (firstn k ord) -> exists r, generate (S k) g (v_bad v) n = Some r.
  Proof.
    intros v ord I. induction k as [|k IH]; intros n Hn; [destruct Hn|].
    (* n sits at some index j <= k of ord *)
    destruct (in_split _ _ Hn) as (p & q & Epq).
    assert (Lp : length p <= k).
    { assert (length (firstn (S k) ord) <= S k) by apply firstn_le_length.
      rewrite Epq, app_length in H. cbn in H. lia. }
    assert (Eo : exists q', ord = p ++ n :: q').
    { exists (q ++ skipn (S k) ord). rewrite <- (firstn_skipn (S k) ord) at 1. rewrite Epq, <- app_assoc. reflexivity. }
    destruct Eo as [q' Eo].
    apply generate_node. intros es i c He Hc Hs.
    pose proof (i_closed _ _ I p n q' Eo es i c He Hc Hs) as Hin.
    assert (Hk : In c (firstn k ord)).
    { rewrite Eo. rewrite firstn_app. apply in_or_app. left.
      rewrite firstn_all2 by lia. exact Hin. }
    destruct (IH c Hk) as [r Hr]. exists r. exact Hr.
  Qed.

  Lemma generate_root : forall v ord,
    Inv v ord -> v_stack v = [] ->
    exists r, generate (S (S (length ord))) g (v_bad v) root = Some r.
  Proof.
    intros v ord I E. apply generate_node. intros es i c He Hc Hs.
    pose proof (i_final _ _ I E es i c He Hc Hs) as Hin.
    apply (generate_finished v ord I (length ord)). rewrite firstn_all. exact Hin.
  Qed.

  (* The statements validate reports cut every cycle: assembling the tree without
     them terminates. *)
  Lemma generate_after_validate : forall bad,
    validate g root = Some bad -> exists fuel r, generate fuel g bad root = Some r.
  Proof.
    intros bad H. unfold validate in H.
    destruct (edges_of g root) as [e|] eqn:Ee.
    - destruct (vloop_inv _ _ _ _ (inv_init e Ee) H) as (v' & ord' & I & Es & Eb).
      subst bad. destruct (generate_root v' ord' I Es) as [r Hr]. eexists _, r. exact Hr.
    - injection H as H; subst bad. exists 1, [root]. cbn [generate]. rewrite Ee. reflexivity.
  Qed.
End Cut.

(* a cyclic include graph (one on which the full expansion never ends) is reported *)
Lemma cycle_is_reported : forall g root bad,
  (forall fuel, generate fuel g [] root = None) -> validate g root = Some bad -> bad <> [].
Proof.
  intros g root bad Hcyc H E. subst bad.
  destruct (generate_after_validate g root [] H) as (fuel & r & Hr).
  rewrite Hcyc in Hr. discriminate.
Qed.

(* ---- stated on routes: no cycle survives on ANY route of unskipped statements ------ *)

(* statement i of file a includes b and was not reported *)
Definition uedge (g : graph) (bad : list ierr) (a b : N) : Prop :=
  exists es i, edges_of g a = Some es /\ nth_error es i = Some b /\ skipped bad a i = false.

(* a route of k unskipped include statements *)
Inductive upath (g : graph) (bad : list ierr) : nat -> N -> N -> Prop :=
| up_here : forall a, upath g bad 0 a a
| up_step : forall k a b c, uedge g bad a b -> upath g bad k b c -> upath g bad (S k) a c.

Lemma upath_app : forall g bad k1 a b, upath g bad k1 a b ->
  forall k2 c, upath g bad k2 b c -> upath g bad (k1 + k2) a c.
Proof.
  intros g bad k1 a b H. induction H as [a|k a b c' E P IH]; intros k2 c Q; [exact Q|].
  cbn [Nat.add]. econstructor; [exact E|apply IH; exact Q].
Qed.

Lemma upath_loop : forall g bad c n, upath g bad (S c) n n -> forall m, upath g bad (m * S c) n n.
Proof.
  intros g bad c n H m. induction m as [|m IH]; [constructor|].
  cbn [Nat.mul]. eapply upath_app; eauto.
Qed.

Lemma gen_children_edge : forall (gen : N -> option (list N)) bad id es i0 r j b,
  gen_children gen bad id es i0 = Some r -> nth_error es j = Some b ->
  skipped bad id (i0 + j) = false -> exists r', gen b = Some r'.
Proof.
  intros gen bad id es. induction es as [|c t IH]; intros i0 r j b H Hn Hs; [destruct j; discriminate|].
  cbn [gen_children] in H. destruct j as [|j].
  - cbn in Hn. injection Hn as Hn; subst c. rewrite Nat.add_0_r in Hs. rewrite Hs in H.
    destruct (gen b) as [a|]; [eexists; reflexivity|discriminate].
  - cbn in Hn. replace (i0 + S j) with (S i0 + j) in Hs by lia.
    destruct (skipped bad id i0).
    + eapply IH; eauto.
    + destruct (gen c); [|discriminate].
      destruct (gen_children gen bad id t (S i0)) as [l2|] eqn:G; [|discriminate]. eapply IH; eauto.
Qed.

Lemma generate_edge : forall g bad f a b r,
  generate (S f) g bad a = Some r -> uedge g bad a b -> exists r', generate f g bad b = Some r'.
Proof.
  intros g bad f a b r H (es & i & He & Hn & Hs). cbn [generate] in H. rewrite He in H.
  destruct (gen_children (generate f g bad) bad a es 0) as [l|] eqn:G; [|discriminate].
  eapply gen_children_edge; eauto.
Qed.

Lemma generate_path : forall g bad k a c, upath g bad k a c ->
  forall f r, generate f g bad a = Some r -> k < f.
Proof.
  intros g bad k a c H. induction H as [a|k a b c E P IH]; intros f r G.
  - destruct f; [discriminate|lia].
  - destruct f; [discriminate|]. destruct (generate_edge _ _ _ _ _ _ G E) as [r' G'].
    specialize (IH _ _ G'). lia.
Qed.

(* Whatever route of unreported include statements leads from the root to a file,
   that file is on no cycle of unreported statements: every cycle reachable from
   the root by SOME route is cut by a reported statement. *)
Lemma no_unreported_cycle : forall g root bad,
  validate g root = Some bad ->
  forall k n, upath g bad k root n -> forall c, ~ upath g bad (S c) n n.
Proof.
  intros g root bad V k n P c L.
  destruct (generate_after_validate g root bad V) as (fuel & r & G).
  pose proof (upath_app _ _ _ _ _ P _ _ (upath_loop _ _ _ _ L fuel)) as Q.
  pose proof (generate_path _ _ _ _ _ Q _ _ G) as B.
  assert (fuel <= fuel * S c) by (rewrite Nat.mul_comm; cbn; lia). lia.
Qed.

