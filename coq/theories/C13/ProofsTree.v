(* C13 — positions (update_positions_from_root): token ranges tile the root's
   range and each carries exactly the text found there; node ranges nest. *)
From Coq Require Import List NArith Bool Arith Lia.
From FV.C13 Require Import Keywords Model ProofsSink.
Import ListNotations.
Open Scope nat_scope.

Fixpoint tok_ranges_all (l : list ptree) : list (nat * nat * list byte) :=
  match l with [] => [] | c :: r => tok_ranges c ++ tok_ranges_all r end.
Fixpoint node_ranges_all (l : list ptree) : list (nat * nat) :=
  match l with [] => [] | c :: r => node_ranges c ++ node_ranges_all r end.

Lemma annotate_node : forall k n e ch p, annotate (Nd k n e ch) p = PNd k p n (annotate_all ch p).
Proof.
  intros k n e ch p. reflexivity.
Qed.
Lemma tok_ranges_node : forall k p n ch, tok_ranges (PNd k p n ch) = tok_ranges_all ch.
Proof.
  intros k p n ch. reflexivity.
Qed.
Lemma node_ranges_node : forall k p n ch,
  node_ranges (PNd k p n ch) = (p, p + n) :: node_ranges_all ch.
Proof.
  intros k p n ch. reflexivity.
Qed.

(* ranges follow one another from p to q, each as long as its text *)
Fixpoint chain (p : nat) (rs : list (nat * nat * list byte)) (q : nat) : Prop :=
  match rs with
  | [] => p = q
  | (lo, hi, x) :: r => lo = p /\ hi = lo + length x /\ chain hi r q
  end.
Definition texts (rs : list (nat * nat * list byte)) : list byte := flat_map (fun r => snd r) rs.

Lemma chain_app : forall a p q b r, chain p a q -> chain q b r -> chain p (a ++ b) r.
Proof.
  induction a as [|[[lo hi] x] t IH]; intros p q b r H1 H2; cbn [chain app] in *.
  - subst. exact H2.
  - destruct H1 as (E1 & E2 & E3). repeat split; auto. eapply IH; eauto.
Qed.
Lemma texts_app : forall a b, texts (a ++ b) = texts a ++ texts b.
Proof. intros. unfold texts. apply flat_map_app. Qed.
Lemma chain_le : forall rs p q, chain p rs q -> p <= q.
Proof.
  induction rs as [|[[lo hi] x] t IH]; intros p q H; cbn [chain] in H; [lia|].
  destruct H as (E1 & E2 & E3). apply IH in E3. lia.
Qed.

Lemma tok_ranges_chain : forall t, wf_tree t -> forall p,
  chain p (tok_ranges (annotate t p)) (p + tlen t)
  /\ texts (tok_ranges (annotate t p)) = flatten t.
Proof.
  induction t as [k x|k n e ch IH] using tree_ind'; intros W p.
  - cbn. rewrite app_nil_r. auto.
  - inversion W as [|k' e' ch' Wc]; subst. rewrite annotate_node, tok_ranges_node, flatten_node.
    cbn [tlen]. clear W. revert p.
    induction ch as [|c r IHr]; intro p.
    + cbn. split; [lia|reflexivity].
    + pose proof (Forall_inv IH) as Hc. pose proof (Forall_inv_tail IH) as Hr.
      pose proof (Forall_inv Wc) as Wc1. pose proof (Forall_inv_tail Wc) as Wr.
      destruct (Hc Wc1 p) as [C1 T1]. destruct (IHr Hr Wr (p + tlen c)) as [C2 T2].
      cbn [annotate_all tok_ranges_all sum_len flatten_all]. split.
      * eapply chain_app; [exact C1|]. replace (p + (tlen c + sum_len r)) with (p + tlen c + sum_len r) by lia.
        exact C2.
      * rewrite texts_app, T1, T2. reflexivity.
Qed.

Lemma skipn_app_len : forall (A : Type) (x l : list A) m, skipn (length x + m) (x ++ l) = skipn m l.
Proof. induction x as [|a x IH]; intros l m; [reflexivity|]. cbn. apply IH. Qed.

(* every range of a chain carries the slice of the concatenated text it names *)
Lemma chain_slices : forall rs p q,
  chain p rs q ->
  Forall (fun r => let '(lo, hi, x) := r in
                   p <= lo /\ hi <= q /\ hi = lo + length x
                   /\ x = firstn (hi - lo) (skipn (lo - p) (texts rs))) rs.
Proof.
  induction rs as [|[[lo hi] x] t IH]; intros p q H; [constructor|].
  cbn [chain] in H. destruct H as (E1 & E2 & E3). subst lo.
  pose proof (chain_le _ _ _ E3) as L.
  constructor.
  - split; [lia|]. split; [lia|]. split; [lia|]. rewrite Nat.sub_diag. cbn [skipn]. unfold texts. cbn [flat_map snd].
    replace (hi - p) with (length x) by lia. rewrite firstn_app, Nat.sub_diag, firstn_all. cbn [firstn].
    rewrite app_nil_r. reflexivity.
  - apply IH in E3. rewrite Forall_forall in *. intros [[lo' hi'] x'] Hin.
    specialize (E3 _ Hin). cbn beta iota in E3. destruct E3 as (A & B & B' & C).
    split; [lia|]. split; [lia|]. split; [exact B'|]. rewrite C at 1. f_equal.
    unfold texts at 2. cbn [flat_map snd]. fold (texts t).
    replace (lo' - p) with (length x + (lo' - hi)) by lia.
    rewrite skipn_app_len. reflexivity.
Qed.

Lemma node_ranges_bounds : forall t, wf_tree t -> forall p,
  Forall (fun r => p <= fst r /\ fst r <= snd r /\ snd r <= p + tlen t) (node_ranges (annotate t p)).
Proof.
  induction t as [k x|k n e ch IH] using tree_ind'; intros W p; [constructor|].
  inversion W as [|k' e' ch' Wc]; subst. rewrite annotate_node, node_ranges_node. cbn [tlen].
  constructor; [cbn; lia|]. clear W.
  assert (G : forall q, p <= q -> q + sum_len ch <= p + sum_len ch ->
              Forall (fun r => p <= fst r /\ fst r <= snd r /\ snd r <= p + sum_len ch)
                     (node_ranges_all (annotate_all ch q))).
  { clear - IH Wc. generalize (p + sum_len ch) as top. intros top.
    induction ch as [|c r IHr]; intros q L1 L2; [constructor|].
    pose proof (Forall_inv IH) as Hc. pose proof (Forall_inv_tail IH) as Hr.
    pose proof (Forall_inv Wc) as Wc1. pose proof (Forall_inv_tail Wc) as Wr.
    cbn [annotate_all node_ranges_all sum_len] in *. apply Forall_app. split.
    - specialize (Hc Wc1 q). rewrite Forall_forall in *. intros x Hx. specialize (Hc x Hx). lia.
    - apply IHr; try assumption; lia. }
  apply G; lia.
Qed.
