(* C13 — executable model of the feature-file front end of fea-rs:
     parse/lexer.rs          (Lexer::next_token and its helpers, byte for byte)
     parse/parser.rs         (the parser primitives: 4-slot lookahead buffer with
                              attached trivia, advance, eat_trivia, do_bump<N>,
                              validate_new_token, split_remap_current, err*, …)
     token_tree.rs           (AstSink::token / validate_token / try_split_range,
                              TreeBuilder start/finish/move_current_children,
                              rewrite_current_node, Node::new,
                              update_positions_from_root, AstSink::finish)
     token_tree/rewrite.rs   (ReparseCtx primitives: bump_raw, eat_trivia,
                              in_node, add_diagnostic)
     parse/context.rs        (IncludeGraph::validate, generate_recurse)
   The grammar (parse/grammar/*.rs, ~3000 lines) is NOT modelled: it is any
   sequence of primitive calls (`op`).  Definitions only; proofs in Proofs*.v.
   `None` from a step means the Rust code panics there (slice out of range or
   off a char boundary, unwrap on None, failed assert). *)
From Coq Require Import List NArith Bool Arith Lia.
From FV.C13 Require Import Keywords.
Import ListNotations.
Open Scope nat_scope.

Notation byte := N (only parsing).
Definition nbeq (a b : N) : bool := N.eqb a b.
Definition nble (a b : N) : bool := N.leb a b.

(* ------------------------------------------------------------------ *)
(* Kinds: discriminants (`as u16`) of lexer::Kind and token_tree::Kind. *)
(* The first 120 variants of both enums coincide.                       *)
Definition K_Eof : N := 0.        Definition K_Ident : N := 1.
Definition K_String : N := 2.     Definition K_StringUnterminated : N := 3.
Definition K_Number : N := 4.     Definition K_Octal : N := 5.
Definition K_Hex : N := 6.        Definition K_HexEmpty : N := 7.
Definition K_Float : N := 8.      Definition K_NumberSuffix : N := 9.
Definition K_Whitespace : N := 10. Definition K_Comment : N := 11.
Definition K_Semi : N := 12.      Definition K_Colon : N := 13.
Definition K_Comma : N := 14.     Definition K_Backslash : N := 15.
Definition K_Hyphen : N := 16.    Definition K_Eq : N := 17.
Definition K_LBrace : N := 18.    Definition K_RBrace : N := 19.
Definition K_LSquare : N := 20.   Definition K_RSquare : N := 21.
Definition K_LParen : N := 22.    Definition K_RParen : N := 23.
Definition K_LAngle : N := 24.    Definition K_RAngle : N := 25.
Definition K_SingleQuote : N := 26. Definition K_NamedGlyphClass : N := 27.
Definition K_Cid : N := 28.       Definition K_IncludeKw : N := 50.
Definition K_Path : N := 119.
Definition K_Dollar : N := 120.   Definition K_Plus : N := 121.
Definition K_Asterisk : N := 122. Definition K_Slash : N := 123.
Definition K_Tombstone : N := 124.
(* token_tree::Kind only *)
Definition A_GlyphRange : N := 123.
Definition A_GlyphName : N := 126.
Definition A_GlyphNameOrRange : N := 127.
Definition A_GsubNodeNeedsRewrite : N := 131.
Definition A_GposNodeNeedsRewrite : N := 142.
Definition A_IncludeNode : N := 165.

(* Kind::is_trivia (same three variants in both enums) *)
Definition is_trivia (k : N) : bool :=
  nbeq k K_Comment || nbeq k K_Whitespace || nbeq k K_Backslash.

(* lexer::Kind::to_token_kind; None = the panic arm *)
Definition to_token_kind (k : N) : option N :=
  if nbeq k K_StringUnterminated || nbeq k K_HexEmpty then None
  else if N.ltb k 120 then Some k
  else if N.ltb k 124 then Some (k + 106)%N
  else None.

(* ------------------------------------------------------------------ *)
(* Lexer                                                                *)

Fixpoint span (p : byte -> bool) (l : list byte) : nat :=
  match l with
  | [] => 0
  | b :: t => if p b then S (span p t) else 0
  end.

(* Lexer::nth(i): byte at pos+i, EOF (0) past the end *)
Definition nthb (i : nat) (r : list byte) : byte := nth i r 0%N.

Definition in_range (lo hi b : N) : bool := nble lo b && nble b hi.
Definition is_ws (b : byte) : bool := nbeq b 32 || in_range 9 13 b.
Definition is_special (b : byte) : bool :=
  in_range 39 45 b || in_range 59 64 b || in_range 91 93 b || nbeq b 123 || nbeq b 125.
Definition is_digit (b : byte) : bool := in_range 48 57 b.
Definition is_octal (b : byte) : bool := in_range 48 55 b.
Definition is_hex (b : byte) : bool := is_digit b || in_range 97 102 b || in_range 65 70 b.
Definition is_x (b : byte) : bool := nbeq b 120 || nbeq b 88.
(* one iteration of eat_ident continues *)
Definition ident_cont (b : byte) : bool :=
  negb (nbeq b 0) && negb (is_ws b) && (nbeq b 45 || negb (is_special b)).
Definition comment_cont (b : byte) : bool := negb (nbeq b 10 || nbeq b 13 || nbeq b 0).
Definition string_cont (b : byte) : bool := negb (nbeq b 34) && negb (nbeq b 0).
Definition path_cont (b : byte) : bool := negb (nbeq b 0) && negb (nbeq b 41).

Fixpoint bytes_eqb (a b : list byte) : bool :=
  match a, b with
  | [], [] => true
  | x :: a', y :: b' => nbeq x y && bytes_eqb a' b'
  | _, _ => false
  end.

Fixpoint assoc_kw (w : list byte) (tbl : list (list N * N)) : option N :=
  match tbl with
  | [] => None
  | (k, v) :: t => if bytes_eqb w k then Some v else assoc_kw w t
  end.
Definition from_keyword (w : list byte) : option N := assoc_kw w keywords.

Record lexeme := mkLex { lk : N; ll : nat }.
Definition EOF0 : lexeme := mkLex K_Eof 0.

(* after_backslash, after_number_or_float, ExpectingPath (0 Ready, 1 SawInclude, 2 InPath) *)
Record lstate := mkLs { after_bs : bool; after_num : bool; in_path : N }.
Definition lstate0 : lstate := mkLs false false 0.

Definition path_transition (p k : N) : N :=
  if nbeq p 0 && nbeq k K_IncludeKw then 1
  else if nbeq p 1 && nbeq k K_LParen then 2
  else if nbeq p 1 && nbeq k K_Whitespace then 1
  else 0.

(* The helpers return (kind, number of bytes consumed after those already bumped). *)
Definition lex_decimal (r : list byte) : N * nat :=
  let d := span is_digit r in
  if nbeq (nthb d r) 46 then (K_Float, (d + 1 + span is_digit (skipn (S d) r))%nat) else (K_Number, d).

Definition lex_number (leading_zero : bool) (r : list byte) : N * nat :=
  if leading_zero && negb (nbeq (nthb 0 r) 46) then
    if is_x (nthb 0 r) then
      if is_hex (nthb 1 r) then (K_Hex, (1 + span is_hex (skipn 1 r))%nat) else (K_HexEmpty, 1%nat)
    else if is_digit (nthb 0 r) then (K_Octal, span is_octal r)
    else (K_Number, 0%nat)
  else lex_decimal r.

Definition lex_hyphen (r : list byte) : N * nat :=
  if nbeq (nthb 0 r) 48 && (is_digit (nthb 1 r) || is_x (nthb 1 r)) then (K_Hyphen, 0%nat)
  else if is_digit (nthb 0 r) then lex_decimal r
  else (K_Hyphen, 0%nat).

Definition lex_string (r : list byte) : N * nat :=
  let k := span string_cont r in
  if nbeq (nthb k r) 34 then (K_String, S k) else (K_StringUnterminated, k).

Definition lex_ident (st : lstate) (b : byte) (r : list byte) : N * nat :=
  let n := span ident_cont r in
  (if after_bs st then K_Ident
   else match from_keyword (b :: firstn n r) with Some k => k | None => K_Ident end, n).

(* the big match of next_token, first byte b already bumped, r the rest.  The
   `EOF` arm applies only when nothing was bumped (end of the input, see
   next_token): a NUL byte in the text takes the arms below like any other byte. *)
Definition lex_first (st : lstate) (b : byte) (r : list byte) : N * nat :=
  if nbeq (in_path st) 2 then (K_Path, span path_cont r)
  else if is_ws b then (K_Whitespace, span is_ws r)
  else if nbeq b 35 then (K_Comment, span comment_cont r)
  else if nbeq b 34 then lex_string r
  else if is_digit b && after_bs st then (K_Cid, span is_digit r)
  else if nbeq b 48 then lex_number true r
  else if is_digit b then lex_number false r
  else if nbeq b 59 then (K_Semi, 0%nat)
  else if nbeq b 58 then (K_Colon, 0%nat)
  else if nbeq b 44 then (K_Comma, 0%nat)
  else if nbeq b 64 then (K_NamedGlyphClass, span ident_cont r)
  else if nbeq b 92 then (K_Backslash, 0%nat)
  else if nbeq b 45 then lex_hyphen r
  else if nbeq b 61 then (K_Eq, 0%nat)
  else if nbeq b 123 then (K_LBrace, 0%nat)
  else if nbeq b 125 then (K_RBrace, 0%nat)
  else if nbeq b 91 then (K_LSquare, 0%nat)
  else if nbeq b 93 then (K_RSquare, 0%nat)
  else if nbeq b 40 then (K_LParen, 0%nat)
  else if nbeq b 41 then (K_RParen, 0%nat)
  else if nbeq b 60 then (K_LAngle, 0%nat)
  else if nbeq b 62 then (K_RAngle, 0%nat)
  else if nbeq b 39 then (K_SingleQuote, 0%nat)
  else if nbeq b 36 then (K_Dollar, 0%nat)
  else if nbeq b 42 then (K_Asterisk, 0%nat)
  else if nbeq b 43 then (K_Plus, 0%nat)
  else if nbeq b 47 then (K_Slash, 0%nat)
  else if (nbeq b 110 || nbeq b 117 || nbeq b 100) && after_num st then (K_NumberSuffix, 0%nat)
  else lex_ident st b r.

Definition lstate_after (st : lstate) (k : N) : lstate :=
  mkLs (nbeq k K_Backslash) (nbeq k K_Number || nbeq k K_Float) (path_transition (in_path st) k).

(* Lexer::next_token on the remaining input *)
Definition next_token (st : lstate) (rest : list byte) : lexeme * lstate :=
  match rest with
  | [] => (EOF0, lstate_after st K_Eof)
  | b :: r => let '(k, extra) := lex_first st b r in (mkLex k (S extra), lstate_after st k)
  end.

(* All lexemes up to the end of the input (after the end the lexer yields Eof/0
   for ever). *)
Fixpoint lex_all (fuel : nat) (st : lstate) (rest : list byte) : option (list lexeme) :=
  match rest with
  | [] => Some []
  | _ =>
      match fuel with
      | O => None
      | S f =>
          let '(l, st') := next_token st rest in
          match lex_all f st' (skipn (ll l) rest) with
          | Some t => Some (l :: t)
          | None => None
          end
      end
  end.
Definition lex (text : list byte) : option (list lexeme) := lex_all (length text) lstate0 text.

Fixpoint total_len (ls : list lexeme) : nat :=
  match ls with [] => 0 | l :: t => ll l + total_len t end.

(* str::is_char_boundary *)
Definition is_cont (b : byte) : bool := in_range 128 191 b.
Definition is_boundary (text : list byte) (p : nat) : bool :=
  (p =? 0) || (p =? length text) || ((p <? length text) && negb (is_cont (nthb p text))).

(* A consequence of UTF-8 validity that is all the lexer needs: a continuation
   byte never follows an ASCII byte, and never starts the text. *)
Fixpoint cont_ok (prev_ascii : bool) (t : list byte) : bool :=
  match t with
  | [] => true
  | b :: r => negb (prev_ascii && is_cont b) && cont_ok (N.ltb b 128) r
  end.
Definition utf8_ok (t : list byte) : bool := cont_ok true t.

(* Well-formed UTF-8 as far as byte classes go (lead byte, then the right
   number of continuation bytes); every Rust `str` satisfies this. *)
Fixpoint utf8_wf (t : list byte) : bool :=
  match t with
  | [] => true
  | b :: r =>
      if N.ltb b 128 then utf8_wf r
      else if in_range 194 223 b then
        match r with c1 :: r1 => is_cont c1 && utf8_wf r1 | _ => false end
      else if in_range 224 239 b then
        match r with c1 :: c2 :: r2 => is_cont c1 && is_cont c2 && utf8_wf r2 | _ => false end
      else if in_range 240 244 b then
        match r with
        | c1 :: c2 :: c3 :: r3 => is_cont c1 && is_cont c2 && is_cont c3 && utf8_wf r3
        | _ => false
        end
      else false
  end.

(* ------------------------------------------------------------------ *)
(* Token tree                                                           *)

Inductive tree :=
| Tok (k : N) (txt : list byte)
| Nd (k : N) (len : nat) (err : bool) (ch : list tree).

Definition tkind (t : tree) : N := match t with Tok k _ => k | Nd k _ _ _ => k end.
(* NodeOrToken::text_len: stored length for a node, text length for a token *)
Definition tlen (t : tree) : nat := match t with Tok _ x => length x | Nd _ n _ _ => n end.
Fixpoint sum_len (l : list tree) : nat :=
  match l with [] => 0 | t :: r => tlen t + sum_len r end.
(* Node::new *)
Definition mk_node (k : N) (ch : list tree) (err : bool) : tree := Nd k (sum_len ch) err ch.

(* iter_tokens().map(as_str).collect() *)
Fixpoint flatten (t : tree) : list byte :=
  match t with
  | Tok _ x => x
  | Nd _ _ _ ch => (fix go (l : list tree) : list byte :=
                      match l with [] => [] | c :: r => flatten c ++ go r end) ch
  end.
Fixpoint flatten_all (l : list tree) : list byte :=
  match l with [] => [] | c :: r => flatten c ++ flatten_all r end.

(* update_positions_from_root: the tree with abs_pos filled in *)
Inductive ptree :=
| PTok (k : N) (pos : nat) (txt : list byte)
| PNd (k : N) (pos : nat) (len : nat) (ch : list ptree).
Fixpoint annotate (t : tree) (pos : nat) : ptree :=
  match t with
  | Tok k x => PTok k pos x
  | Nd k n _ ch =>
      PNd k pos n ((fix go (l : list tree) (p : nat) : list ptree :=
                      match l with [] => [] | c :: r => annotate c p :: go r (p + tlen c) end) ch pos)
  end.
Fixpoint annotate_all (l : list tree) (p : nat) : list ptree :=
  match l with [] => [] | c :: r => annotate c p :: annotate_all r (p + tlen c) end.

(* (range.start, range.end) of every token / node, in tree order *)
Fixpoint tok_ranges (t : ptree) : list (nat * nat * list byte) :=
  match t with
  | PTok _ p x => [(p, p + length x, x)]
  | PNd _ _ _ ch => (fix go (l : list ptree) := match l with [] => [] | c :: r => tok_ranges c ++ go r end) ch
  end.
Fixpoint node_ranges (t : ptree) : list (nat * nat) :=
  match t with
  | PTok _ _ _ => []
  | PNd _ p n ch => (p, p + n) :: (fix go (l : list ptree) := match l with [] => [] | c :: r => node_ranges c ++ go r end) ch
  end.

(* ------------------------------------------------------------------ *)
(* AstSink                                                              *)

Record diag := mkDiag { d_lo : nat; d_hi : nat; d_hard : bool }.

Record sink := mkSink {
  s_pos : nat;                     (* text_pos *)
  s_parents : list (N * nat);      (* TreeBuilder.parents, last = head *)
  s_children : list tree;          (* TreeBuilder.children, in order *)
  s_errs : list diag;              (* in order *)
  s_cur_err : bool;                (* cur_node_contains_error *)
  s_incl : nat                     (* include_statement_count *)
}.
Definition sink0 : sink := mkSink 0 [] [] [] false 0.

(* AstSink::error *)
Definition sink_error (d : diag) (s : sink) : sink :=
  mkSink (s_pos s) (s_parents s) (s_children s) (s_errs s ++ [d]) (d_hard d) (s_incl s).
Definition sink_push (t : tree) (s : sink) : sink :=
  mkSink (s_pos s) (s_parents s) (s_children s ++ [t]) (s_errs s) (s_cur_err s) (s_incl s).

(* &text[a..a+len]: None when the slice would panic *)
Definition slice (text : list byte) (a len : nat) : option (list byte) :=
  if (a + len <=? length text) && is_boundary text a && is_boundary text (a + len)
  then Some (firstn len (skipn a text)) else None.

(* try_split_range: Some node on success, None for either error message.
   (The loop returns Err at the second split point that works, and Err when
   none does: exactly one candidate is the only success.)  The second name
   starts right after the hyphen at idx (`&tail[1..]`). *)
Definition split_ok (contains : list byte -> bool) (txt : list byte) (idx : nat) : bool :=
  nbeq (nthb idx txt) 45 && contains (firstn idx txt) && contains (skipn (S idx) txt).
Definition try_split_range (contains : list byte -> bool) (txt : list byte) : option tree :=
  match filter (split_ok contains txt) (seq 0 (length txt)) with
  | [idx] =>
      Some (mk_node A_GlyphRange
              [Tok A_GlyphName (firstn idx txt); Tok K_Hyphen [45%N];
               Tok A_GlyphName (skipn (S idx) txt)] false)
  | _ => None
  end.

(* AstSink::token (with validate_token) *)
Definition sink_token (gm : option (list byte -> bool)) (text : list byte) (k : N) (len : nat)
    (s : sink) : option sink :=
  match slice text (s_pos s) len with
  | None => None
  | Some txt =>
      let plain := sink_push (Tok k txt) s in
      let s' :=
        if nbeq k A_GlyphNameOrRange then
          match gm with
          | None => plain
          | Some contains =>
              if contains txt then sink_push (Tok A_GlyphName txt) s
              else match try_split_range contains txt with
                   | Some node => sink_push node s
                   | None =>
                       sink_push (Tok k txt)
                         (sink_error (mkDiag (s_pos s) (s_pos s + length txt) true) s)
                   end
          end
        else plain in
      Some (mkSink (s_pos s' + len) (s_parents s') (s_children s') (s_errs s') (s_cur_err s') (s_incl s'))
  end.

Definition sink_start (k : N) (s : sink) : sink :=
  mkSink (s_pos s) ((k, length (s_children s)) :: s_parents s) (s_children s) (s_errs s)
         (s_cur_err s) (s_incl s).

Definition last_kind (l : list tree) : option N :=
  match rev l with [] => None | t :: _ => Some (tkind t) end.

(* TreeBuilder::finish_node + the tail of AstSink::finish_node *)
Definition sink_finish_plain (newk : option N) (s : sink) : option sink :=
  match s_parents s with
  | [] => None
  | (k, first) :: ps =>
      if length (s_children s) <? first then None
      else
        let kind := match newk with Some k' => k' | None => k end in
        let node := mk_node kind (skipn first (s_children s)) (s_cur_err s) in
        Some (mkSink (s_pos s) ps (firstn first (s_children s) ++ [node]) (s_errs s) false
                     (if nbeq kind A_IncludeNode then S (s_incl s) else s_incl s))
  end.

(* ---- rewrite_current_node (contextual rules) ------------------------ *)
(* One primitive of ReparseCtx; the reparse functions of rewrite.rs are
   sequences of these. *)
Inductive rwop :=
| RBump                  (* bump_raw *)
| REatTrivia             (* eat_trivia *)
| RStart (k : N)         (* sink.start_node(kind) (after eat_trivia: in_node = REatTrivia; RStart; …; RFinish) *)
| RFinish                (* sink.finish_node(None) *)
| RDiag (hard : bool).   (* the tail of add_diagnostic(level) (add_diagnostic = REatTrivia; RDiag) *)

Definition is_rewrite_kind (k : N) : bool :=
  nbeq k A_GsubNodeNeedsRewrite || nbeq k A_GposNodeNeedsRewrite.

Record rctx := mkR { r_pos : nat; r_buf : list tree; r_sink : sink }.

Definition r_bump (c : rctx) : rctx :=
  match r_buf c with
  | [] => c
  | t :: rest => mkR (r_pos c + tlen t) rest (sink_push t (r_sink c))
  end.
Fixpoint r_eat_trivia (fuel : nat) (c : rctx) : rctx :=
  match fuel with
  | O => c
  | S f => match r_buf c with
           | t :: _ => if is_trivia (tkind t) then r_eat_trivia f (r_bump c) else c
           | [] => c
           end
  end.
Definition first_nontrivia_len (l : list tree) : nat :=
  match filter (fun t => negb (is_trivia (tkind t))) l with t :: _ => tlen t | [] => 0 end.

(* None: panic, or a call the reparse functions never make (finishing a node
   whose kind would itself be rewritten). *)
Definition r_step (c : rctx) (o : rwop) : option rctx :=
  match o with
  | RBump => Some (r_bump c)
  | REatTrivia => Some (r_eat_trivia (length (r_buf c)) c)
  | RStart k => if is_rewrite_kind k then None else Some (mkR (r_pos c) (r_buf c) (sink_start k (r_sink c)))
  | RFinish =>
      match sink_finish_plain None (r_sink c) with
      | Some s' => Some (mkR (r_pos c) (r_buf c) s')
      | None => None
      end
  | RDiag hard =>
      let d := mkDiag (r_pos c) (r_pos c + first_nontrivia_len (r_buf c)) hard in
      Some (mkR (r_pos c) (r_buf c) (sink_error d (r_sink c)))
  end.
Fixpoint r_run (c : rctx) (ops : list rwop) : option rctx :=
  match ops with
  | [] => Some c
  | o :: t => match r_step c o with Some c' => r_run c' t | None => None end
  end.

(* rewrite_current_node: move_current_children, run the script, assert the
   buffer is empty.  The script must leave exactly the parents it found. *)
Definition sink_rewrite (script : list rwop) (s : sink) : option sink :=
  match s_parents s with
  | [] => None
  | (k, first) :: _ =>
      if length (s_children s) <? first then None
      else
        let moved := skipn first (s_children s) in
        let off := sum_len moved in
        if s_pos s <? off then None
        else
          let s0 := mkSink (s_pos s) (s_parents s) (firstn first (s_children s)) (s_errs s)
                           (s_cur_err s) (s_incl s) in
          match r_run (mkR (s_pos s - off) moved s0) script with
          | Some c => match r_buf c with [] => Some (r_sink c) | _ => None end
          | None => None
          end
  end.

(* AstSink::finish_node(kind): `script`/`newk` stand for the reparse function
   that runs when the node is GsubNodeNeedsRewrite / GposNodeNeedsRewrite and
   holds no error, and the kind it returns. *)
Definition sink_finish (remap : option N) (script : list rwop) (newk : N) (s : sink) : option sink :=
  match s_parents s with
  | [] => None                         (* .unwrap() on None / parents.pop().unwrap() *)
  | (k, _) :: _ =>
      let cur := match remap with Some k' => k' | None => k end in
      if negb (s_cur_err s) && is_rewrite_kind cur then
        match sink_rewrite script s with
        | Some s' => sink_finish_plain (Some newk) s'
        | None => None
        end
      else sink_finish_plain remap s
  end.

(* AstSink::finish: the root node *)
Definition sink_root (s : sink) : option tree :=
  match s_children s, s_parents s with
  | [Nd k n e ch], _ => Some (Nd k n e ch)
  | _, _ => None
  end.

(* ------------------------------------------------------------------ *)
(* Parser                                                               *)

(* char::len_utf8 of the character whose first byte is b *)
Definition char_len (b : byte) : nat :=
  if N.ltb b 128 then 1 else if N.ltb b 224 then 2 else if N.ltb b 240 then 3 else 4.
(* Parser::char_range_at(pos).end: the end of the character at pos, pos itself at
   the end of the input *)
Definition char_end (text : list byte) (pos : nat) : nat :=
  match nth_error text pos with Some b => pos + char_len b | None => pos end.

Record pending := mkP { p_triv : list lexeme; p_start : nat; p_tlen : nat; p_tok : lexeme }.
Definition P_EMPTY : pending := mkP [] 0 0 (mkLex K_Tombstone 0).

Record pstate := mkPS {
  lx : list lexeme;      (* what the lexer has not produced yet; Eof/0 for ever after *)
  b0 : pending; b1 : pending; b2 : pending; b3 : pending;
  sk : sink
}.

Section Parser.
  Variable gm : option (list byte -> bool).
  Variable text : list byte.

  Definition with_sink (st : pstate) (s : sink) : pstate :=
    mkPS (lx st) (b0 st) (b1 st) (b2 st) (b3 st) s.

  (* eat_trivia: drain buf[0].preceding_trivia into the sink *)
  Fixpoint emit_trivia (tr : list lexeme) (s : sink) : option sink :=
    match tr with
    | [] => Some s
    | l :: t =>
        match to_token_kind (lk l) with
        | None => None
        | Some k => match sink_token gm text k (ll l) s with
                    | Some s' => emit_trivia t s'
                    | None => None
                    end
        end
    end.
  Definition eat_trivia (st : pstate) : option pstate :=
    match emit_trivia (p_triv (b0 st)) (sk st) with
    | None => None
    | Some s =>
        let p := b0 st in
        Some (mkPS (lx st) (mkP [] (p_start p + p_tlen p) 0 (p_tok p)) (b1 st) (b2 st) (b3 st) s)
    end.

  (* the loop of advance(): trivia lexemes, then one token *)
  Fixpoint pull (l : list lexeme) (acc : list lexeme) (n : nat)
      : list lexeme * nat * lexeme * list lexeme :=
    match l with
    | [] => (rev acc, n, EOF0, [])
    | x :: t => if is_trivia (lk x) then pull t (x :: acc) (n + ll x) else (rev acc, n, x, t)
    end.

  Definition tok_start (p : pending) : nat := p_start p + p_tlen p.
  Definition tok_end (p : pending) : nat := p_start p + p_tlen p + ll (p_tok p).

  (* validate_new_token on buf[3] *)
  Definition validate_new (st : pstate) : pstate :=
    let p := b3 st in
    let k := lk (p_tok p) in
    if nbeq k K_StringUnterminated then
      mkPS (lx st) (b0 st) (b1 st) (b2 st) (mkP (p_triv p) (p_start p) (p_tlen p) (mkLex K_String (ll (p_tok p))))
           (sink_error (mkDiag (tok_start p) (tok_start p + 1) true) (sk st))
    else if nbeq k K_HexEmpty then
      mkPS (lx st) (b0 st) (b1 st) (b2 st) (mkP (p_triv p) (p_start p) (p_tlen p) (mkLex K_Hex (ll (p_tok p))))
           (sink_error (mkDiag (tok_start p) (tok_end p) true) (sk st))
    else st.

  Definition advance (st : pstate) : option pstate :=
    match eat_trivia st with
    | None => None
    | Some st1 =>
        let new_start := tok_end (b3 st1) in
        let '(tr, n, tk, rest) := pull (lx st1) [] 0 in
        Some (validate_new (mkPS rest (b1 st1) (b2 st1) (b3 st1) (mkP tr new_start n tk) (sk st1)))
    end.

  (* do_bump::<N>(kind) *)
  Fixpoint bump_n (n : nat) (len : nat) (st : pstate) : option (nat * pstate) :=
    match n with
    | O => Some (len, st)
    | S m =>
        let l := ll (p_tok (b0 st)) in
        match advance st with
        | Some st' => bump_n m (len + l) st'
        | None => None
        end
    end.
  Definition do_bump (n : nat) (k : N) (st : pstate) : option pstate :=
    match bump_n n 0 st with
    | None => None
    | Some (len, st') =>
        match sink_token gm text k len (sk st') with
        | Some s => Some (with_sink st' s)
        | None => None
        end
    end.

  (* split_remap_current after the split function has filled the buffer with
     `parts` (start, end, kind): the trivia in front of the token goes to the
     sink first, then the parts; the asserts become None *)
  Fixpoint emit_parts (parts : list (nat * nat * N)) (prev_end : nat) (s : sink) : option (nat * sink) :=
    match parts with
    | [] => Some (prev_end, s)
    | (a, b, k) :: t =>
        if negb (a =? prev_end) then None
        else if b <? a then None
        else match sink_token gm text k (b - a) s with
             | Some s' => emit_parts t b s'
             | None => None
             end
    end.
  Definition split_remap (parts : list (nat * nat * N)) (st : pstate) : option pstate :=
    match parts with
    | [] => Some st
    | _ =>
        match eat_trivia st with
        | None => None
        | Some st1 =>
            match emit_parts parts 0 (sk st1) with
            | None => None
            | Some (e, s) =>
                if negb (e =? ll (p_tok (b0 st1))) then None
                else advance (with_sink st1 s)
            end
        end
    end.

  (* A call the grammar can make.  Conditions (`matches`, `at_eof`, …) are the
     grammar's business: every eat/expect variant is one of these effects. *)
  Inductive op :=
  | OStart (k : N)                                   (* start_node *)
  | OFinish (remap : option N) (script : list rwop) (newk : N)
                                                     (* finish_node / finish_and_remap_node *)
  | OEatTrivia
  | OEatRaw                                          (* eat_raw: do_bump::<1>(nth(0).kind.to_token_kind()) *)
  | OBump (n : nat) (k : N)                          (* do_bump::<N>(kind): eat_remap, eat_tag *)
  | OSplit (parts : list (nat * nat * N))            (* split_remap_current *)
  | OErr (hard : bool)                               (* err / warn: nth_range(0) *)
  | OErrBeforeWs (hard : bool)                       (* err_before_ws / warn_before_ws: the character at pos *)
  | ORawErr (lo hi : nat).                           (* raw_error with a range saved earlier *)

  Definition step (st : pstate) (o : op) : option pstate :=
    match o with
    | OStart k => Some (with_sink st (sink_start k (sk st)))
    | OFinish remap script newk =>
        match sink_finish remap script newk (sk st) with
        | Some s => Some (with_sink st s)
        | None => None
        end
    | OEatTrivia => eat_trivia st
    | OEatRaw =>
        match to_token_kind (lk (p_tok (b0 st))) with
        | Some k => do_bump 1 k st
        | None => None
        end
    | OBump n k => do_bump n k st
    | OSplit parts => split_remap parts st
    | OErr hard =>
        Some (with_sink st (sink_error (mkDiag (tok_start (b0 st)) (tok_end (b0 st)) hard) (sk st)))
    | OErrBeforeWs hard =>
        Some (with_sink st (sink_error (mkDiag (p_start (b0 st)) (char_end text (p_start (b0 st))) hard) (sk st)))
    | ORawErr lo hi => Some (with_sink st (sink_error (mkDiag lo hi true) (sk st)))
    end.

  Fixpoint run (st : pstate) (ops : list op) : option pstate :=
    match ops with
    | [] => Some st
    | o :: t => match step st o with Some st' => run st' t | None => None end
    end.

  (* Parser::new: four advances over the EMPTY buffer *)
  Definition parser_new (ls : list lexeme) : option pstate :=
    let st := mkPS ls P_EMPTY P_EMPTY P_EMPTY P_EMPTY sink0 in
    match advance st with
    | Some s1 => match advance s1 with
                 | Some s2 => match advance s2 with
                              | Some s3 => advance s3
                              | None => None end
                 | None => None end
    | None => None
    end.

  Definition at_eof (st : pstate) : bool := nbeq (lk (p_tok (b0 st))) K_Eof.

  (* what a whole parse returns: root, diagnostics *)
  Definition parse_with (ls : list lexeme) (ops : list op) : option (tree * list diag) :=
    match parser_new ls with
    | None => None
    | Some st0 =>
        match run st0 ops with
        | None => None
        | Some st => match sink_root (sk st) with
                     | Some r => Some (r, s_errs (sk st))
                     | None => None
                     end
        end
    end.
End Parser.

(* ------------------------------------------------------------------ *)
(* Include graph (parse/context.rs)                                     *)

Definition MAX_INCLUDE_DEPTH : nat := 50.

(* IncludeGraph.nodes: file -> the files its include statements resolve to, in
   statement order.  Keys are distinct (HashMap); lookup takes the first. *)
Definition graph := list (N * list N).
Fixpoint edges_of (g : graph) (n : N) : option (list N) :=
  match g with
  | [] => None
  | (k, l) :: t => if nbeq k n then Some l else edges_of t n
  end.

Record frame := mkF { f_node : N; f_edges : list N; f_cur : nat }.
(* IncludeError: file, statement_idx, kind (true = Cycle, false = ToDeep) *)
Record ierr := mkIE { e_file : N; e_idx : nat; e_cycle : bool }.
Record vstate := mkV { v_stack : list frame; v_seen : list N; v_bad : list ierr }.

Definition memN (x : N) (l : list N) : bool := existsb (nbeq x) l.

(* one iteration of `while let Some(..) = stack.pop()`; None when the stack is empty *)
Definition vstep (g : graph) (v : vstate) : option vstate :=
  match v_stack v with
  | [] => None
  | fr :: rest =>
      match nth_error (f_edges fr) (f_cur fr) with
      | None => Some (mkV rest (v_seen v) (v_bad v))
      | Some child =>
          let stack1 := mkF (f_node fr) (f_edges fr) (S (f_cur fr)) :: rest in
          if MAX_INCLUDE_DEPTH - 1 <=? length stack1 then
            Some (mkV stack1 (v_seen v) (v_bad v ++ [mkIE (f_node fr) (f_cur fr) false]))
          else if negb (memN child (v_seen v)) then
            match edges_of g child with
            | Some ce => Some (mkV (mkF child ce 0 :: stack1) (child :: v_seen v) (v_bad v))
            | None => Some (mkV stack1 (child :: v_seen v) (v_bad v))
            end
          else if existsb (fun f => nbeq (f_node f) child) stack1 then
            Some (mkV stack1 (v_seen v) (v_bad v ++ [mkIE (f_node fr) (f_cur fr) true]))
          else Some (mkV stack1 (v_seen v) (v_bad v))
      end
  end.

Fixpoint vloop (fuel : nat) (g : graph) (v : vstate) : option (list ierr) :=
  match vstep g v with
  | None => Some (v_bad v)
  | Some v' => match fuel with
               | O => None
               | S f => vloop f g v'
               end
  end.

Fixpoint graph_weight (g : graph) : nat :=
  match g with [] => 0 | (_, l) :: t => S (length l) + graph_weight t end.

(* IncludeGraph::validate; fuel is a bound proved sufficient *)
Definition validate_fuel (g : graph) (root : N) : nat :=
  match edges_of g root with Some e => S (length e) + graph_weight g | None => 0 end.
Definition validate (g : graph) (root : N) : option (list ierr) :=
  match edges_of g root with
  | None => Some []
  | Some e => vloop (validate_fuel g root) g (mkV [mkF root e 0] [] [])
  end.

Definition skipped (bad : list ierr) (file : N) (idx : nat) : bool :=
  existsb (fun e => nbeq (e_file e) file && (e_idx e =? idx)) bad.

(* generate_recurse: the files spliced into the tree, in order (pre-order);
   None = fuel exhausted (the real function would recurse for ever). *)
(* the loop over a file's include statements: statement i of file `id` is
   skipped when it was reported; `gen` assembles an included file *)
Fixpoint gen_children (gen : N -> option (list N)) (bad : list ierr) (id : N) (l : list N) (i : nat)
    : option (list N) :=
  match l with
  | [] => Some []
  | c :: r =>
      if skipped bad id i then gen_children gen bad id r (S i)
      else match gen c, gen_children gen bad id r (S i) with
           | Some a, Some b => Some (a ++ b)
           | _, _ => None
           end
  end.

Fixpoint generate (fuel : nat) (g : graph) (bad : list ierr) (id : N) : option (list N) :=
  match fuel with
  | O => None
  | S f =>
      match edges_of g id with
      | None => Some [id]
      | Some es =>
          match gen_children (generate f g bad) bad id es 0 with
          | Some l => Some (id :: l)
          | None => None
          end
      end
  end.

(* nesting depth of the generate_recurse calls (1 for a file without includes) *)
Fixpoint gen_depth (fuel : nat) (g : graph) (bad : list ierr) (id : N) : option nat :=
  match fuel with
  | O => None
  | S f =>
      match edges_of g id with
      | None => Some 1
      | Some es =>
          match (fix go (l : list N) (i : nat) : option nat :=
                   match l with
                   | [] => Some 0
                   | c :: r =>
                       if skipped bad id i then go r (S i)
                       else match gen_depth f g bad c, go r (S i) with
                            | Some a, Some b => Some (Nat.max a b)
                            | _, _ => None
                            end
                   end) es 0 with
          | Some d => Some (S d)
          | None => None
          end
      end
  end.

