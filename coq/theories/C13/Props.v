(* C13 — The feature-file front end is total and lossless: property theorems.
   Statements only; proofs are in Proofs*.v.  The grammar (parse/grammar/*.rs)
   is not modelled: `ops` ranges over every sequence of parser-primitive calls
   a grammar could make, so what is proved holds for the grammar that exists
   and for any other.  What is NOT proved here (only exercised by the harness):
   that the grammar terminates, never panics and respects the primitives'
   preconditions. *)
From Coq Require Import List NArith Bool Arith Lia.
From FV.C13 Require Import Model Tie Proofs.
Import ListNotations.
Open Scope nat_scope.

(* ========================= the lexer ========================================= *)

(* Lexing terminates on every byte string (the fuel of the model is never
   exhausted), every lexeme is non-empty and of a kind the parser can convert,
   and the lexemes tile the input exactly. *)
Theorem lexer_total_and_tiles : forall text : list byte,
  exists ls, lex text = Some ls
             /\ total_len ls = length text
             /\ Forall (fun l => 1 <= ll l) ls
             /\ Forall (fun l => lexer_kind (lk l)) ls.
Proof. exact lex_total. Qed.
Print Assumptions lexer_total_and_tiles.

(* Lexeme boundaries are character boundaries of the (well-formed UTF-8) input,
   so slicing the source at them cannot panic. *)
Theorem lexer_char_boundaries : forall text ls,
  utf8_wf text = true -> lex text = Some ls ->
  Forall (fun p => is_boundary text p = true) (ends 0 ls).
Proof. exact lex_boundaries. Qed.
Print Assumptions lexer_char_boundaries.

(* "aé;" is well formed; a lone continuation byte is not *)
Example utf8_wf_nonvacuous :
  utf8_wf [97; 195; 169; 59]%N = true /\ utf8_wf [97; 169]%N = false
  /\ lex [97; 195; 169; 59]%N = Some [mkLex K_Ident 3; mkLex K_Semi 1].
Proof. vm_compute. auto. Qed.

(* The lexer yields Eof only past the end of the input: a NUL byte in the text is
   lexed like any other unexpected byte (it starts an identifier), so the parser
   cannot mistake it for the end.  (Before the repair of fea-rs it was an Eof
   lexeme and the rest of the file was silently dropped.) *)
Theorem lexer_never_yields_eof : forall text ls,
  lex text = Some ls -> Forall (fun l => lk l <> K_Eof) ls.
Proof. exact lex_no_eof. Qed.
Print Assumptions lexer_never_yields_eof.

Example nul_is_lexed :
  lex [97; 59; 0; 98; 59]%N = Some [mkLex K_Ident 1; mkLex K_Semi 1; mkLex K_Ident 2; mkLex K_Semi 1].
Proof. vm_compute. reflexivity. Qed.

(* ========================= the sink, for any grammar ========================== *)

(* For ANY sequence of primitive calls: the token texts held by the sink,
   concatenated in order, are exactly text[0 .. text_pos]; text_pos is where the
   lookahead buffer starts; text_pos plus everything buffered and not yet lexed
   is the length of the input; every node's stored length is the length of its
   text.  With or without a glyph map. *)
Theorem sink_prefix_invariant : forall gm text ls ops st0 st,
  parser_new gm text ls = Some st0 -> run gm text st0 ops = Some st ->
  flatten_all (s_children (sk st)) = firstn (s_pos (sk st)) text
  /\ s_pos (sk st) <= length text
  /\ p_start (b0 st) = s_pos (sk st)
  /\ Forall wf_tree (s_children (sk st))
  /\ (total_len ls = length text -> s_pos (sk st) + total_len (pend st) = length text).
Proof. intros gm text ls ops st0 st. apply run_prefix. apply gm_all_lossless. Qed.
Print Assumptions sink_prefix_invariant.

(* With a glyph map, a hyphenated name that splits into two known glyphs becomes
   a range node head, "-", tail[1..]: it spells the name it was given (exactly one
   hyphen is taken out; before the repair of fea-rs every leading hyphen of the
   tail was dropped, so `a--b` lost a byte). *)
Theorem glyph_map_split_is_lossless : forall contains txt node,
  try_split_range contains txt = Some node -> flatten node = txt.
Proof. exact try_split_lossless. Qed.
Print Assumptions glyph_map_split_is_lossless.

Example split_nonvacuous :
  exists node, try_split_range (fun w => bytes_eqb w [97%N] || bytes_eqb w [122%N]) [97; 45; 122]%N = Some node
               /\ flatten node = [97; 45; 122]%N
  /\ try_split_range (fun w => bytes_eqb w [97%N] || bytes_eqb w [98%N]) [97; 45; 45; 98]%N = None.
Proof. vm_compute. eexists. repeat split; reflexivity. Qed.

(* "sub a by b;" driven as the grammar would: the hypotheses are satisfiable *)
Example sink_prefix_nonvacuous :
  let text := [115;117;98;32;97;32;98;121;32;98;59]%N in
  exists ls st0 st,
    lex text = Some ls /\ parser_new None text ls = Some st0
    /\ run None text st0 [OStart 120; OEatRaw; OBump 1 126; OEatRaw; OBump 1 126; OEatRaw;
                          OEatTrivia; OFinish None [] 0]%N = Some st
    /\ s_pos (sk st) = 11 /\ at_eof st = true.
Proof. vm_compute. eexists _, _, _. repeat split; reflexivity. Qed.

(* The contextual-rule rewrite (move_current_children + any reparse function made
   of the ReparseCtx primitives + the final assertion) changes neither the text
   nor text_pos. *)
Theorem rewrite_preserves_text : forall text script s s',
  SinkInv text s -> sink_rewrite script s = Some s' ->
  SinkInv text s' /\ s_pos s' = s_pos s
  /\ flatten_all (s_children s') = flatten_all (s_children s).
Proof. exact sink_rewrite_inv. Qed.
Print Assumptions rewrite_preserves_text.

(* a diagnostic recorded by a reparse function lies inside the text consumed so far *)
Theorem rewrite_diag_in_range : forall all pos c hard c',
  RwInv all pos c -> r_step c (RDiag hard) = Some c' ->
  exists d, s_errs (r_sink c') = s_errs (r_sink c) ++ [d] /\ d_lo d <= d_hi d /\ d_hi d <= pos.
Proof. exact r_step_diag_range. Qed.
Print Assumptions rewrite_diag_in_range.

(* ========================= no panic in the primitives ========================== *)

(* Parser::new returns for every lexeme stream, and in every state any grammar
   can reach on well-formed UTF-8 the token-consuming primitives return:
   eat_trivia, eat_raw, and do_bump::<1> with any kind (eat, eat_remap, expect*,
   eat_tag, err_and_bump, err_recover … are these plus a test).  In the model a
   primitive "returns" iff the Rust code does not panic in it (slice out of
   range or off a character boundary, the panic arm of to_token_kind). *)
Theorem parser_new_returns : forall gm text ls, exists st0, parser_new gm text ls = Some st0.
Proof. exact parser_new_total. Qed.
Print Assumptions parser_new_returns.

Theorem token_primitives_do_not_panic : forall gm text ops ls st0 st,
  utf8_wf text = true -> lex text = Some ls ->
  parser_new gm text ls = Some st0 -> run gm text st0 ops = Some st ->
  (exists st', step gm text st OEatTrivia = Some st')
  /\ (exists st', step gm text st OEatRaw = Some st')
  /\ (forall k, exists st', step gm text st (OBump 1 k) = Some st').
Proof. intros gm text ops ls st0 st. apply token_primitives_total. apply gm_all_lossless. Qed.
Print Assumptions token_primitives_do_not_panic.

(* split_remap_current: the trivia attached to the current token goes to the sink
   first, then the parts; whenever the split function returns ranges that follow
   one another from 0, cover the token and cut it on character boundaries, it
   returns.  (Before the repair of fea-rs the parts were cut out of the text of
   the pending trivia, and a non-ASCII comment in front of the token made it
   panic.) *)
Theorem split_remap_does_not_panic : forall gm text ops ls st0 st parts,
  utf8_wf text = true -> lex text = Some ls ->
  parser_new gm text ls = Some st0 -> run gm text st0 ops = Some st ->
  parts_ok text (tok_start (b0 st)) 0 (ll (p_tok (b0 st))) parts ->
  exists st', step gm text st (OSplit parts) = Some st'.
Proof. intros gm text ops ls st0 st parts. apply split_total. apply gm_all_lossless. Qed.
Print Assumptions split_remap_does_not_panic.

(* "#é\nb-c" split as b, -, c: the tokens carry their own text *)
Example split_after_trivia :
  let text := [35; 195; 169; 10; 98; 45; 99]%N in
  exists ls st0 st,
    lex text = Some ls /\ parser_new None text ls = Some st0
    /\ parts_ok text (tok_start (b0 st0)) 0 (ll (p_tok (b0 st0))) [(0, 1, 232%N); (1, 2, 16%N); (2, 3, 232%N)]
    /\ step None text st0 (OSplit [(0, 1, 232%N); (1, 2, 16%N); (2, 3, 232%N)]) = Some st
    /\ map tkind (s_children (sk st)) = [11; 10; 232; 16; 232]%N
    /\ flatten_all (s_children (sk st)) = text.
Proof. vm_compute. eexists _, _, _. repeat split; try reflexivity; lia. Qed.

(* ========================= lossless ============================================ *)

(* A driver that stops only at at_eof, eats the pending trivia and finishes the
   root (grammar::root): the tree spells the input up to the first Eof lexeme of
   the (padded) lexeme stream. *)
Theorem consumed_up_to_first_eof : forall gm text ls ops st0 st root,
  parser_new gm text ls = Some st0 -> run gm text st0 ops = Some st ->
  at_eof st = true -> p_triv (b0 st) = [] -> sink_root (sk st) = Some root ->
  exists k pre e post,
    ls ++ repeat EOF0 k = pre ++ e :: post /\ lk e = K_Eof
    /\ flatten root = firstn (total_len pre) text.
Proof.
  intros gm text ls ops st0 st root N R. apply at_eof_consumed.
  eapply run_good; eauto. apply gm_all_lossless.
Qed.
Print Assumptions consumed_up_to_first_eof.

(* Full statement, lexer included, for every input and with or without a glyph
   map: the token texts of the tree, concatenated in order, are exactly the input. *)
Theorem front_end_lossless : forall gm text ops ls st0 st root,
  lex text = Some ls -> parser_new gm text ls = Some st0 -> run gm text st0 ops = Some st ->
  at_eof st = true -> p_triv (b0 st) = [] -> sink_root (sk st) = Some root ->
  flatten root = text /\ wf_tree root.
Proof. intros gm text ops ls st0 st root. apply Proofs.front_end_lossless. apply gm_all_lossless. Qed.
Print Assumptions front_end_lossless.

(* "a\0b" driven to the end: hypotheses satisfiable, NUL included *)
Example front_end_lossless_nonvacuous :
  let text := [97; 0; 98]%N in
  exists ls st0 st root,
    lex text = Some ls /\ parser_new None text ls = Some st0
    /\ run None text st0 [OStart 120%N; OEatRaw; OEatRaw; OEatTrivia; OFinish None [] 0%N] = Some st
    /\ at_eof st = true /\ p_triv (b0 st) = [] /\ sink_root (sk st) = Some root /\ flatten root = text.
Proof. vm_compute. eexists _, _, _, _. repeat split; reflexivity. Qed.

(* ========================= positions ============================================ *)

(* update_positions_from_root: token ranges follow one another from 0 to the end
   of the source, each token's text is the source text at its range, node ranges
   are inside the source. *)
Theorem positions_consistent : forall root text,
  wf_tree root -> flatten root = text ->
  chain 0 (tok_ranges (annotate root 0)) (length text)
  /\ Forall (fun r => let '(lo, hi, x) := r in
                      hi <= length text /\ hi = lo + length x /\ x = firstn (hi - lo) (skipn lo text))
            (tok_ranges (annotate root 0))
  /\ Forall (fun r => fst r <= snd r /\ snd r <= length text) (node_ranges (annotate root 0)).
Proof. exact positions_in_source. Qed.
Print Assumptions positions_consistent.

(* ========================= diagnostics ========================================== *)

(* err / warn / expect*: the range is the current token's, inside the source *)
Theorem err_range_in_source : forall gm text ls ops st0 st,
  total_len ls = length text ->
  parser_new gm text ls = Some st0 -> run gm text st0 ops = Some st ->
  tok_start (b0 st) <= tok_end (b0 st) /\ tok_end (b0 st) <= length text.
Proof.
  intros gm text ls ops st0 st T N R. eapply err_range_ok; eauto. eapply run_good; eauto.
  apply gm_all_lossless.
Qed.
Print Assumptions err_range_in_source.

(* … and, lexer included, both its ends are character boundaries *)
Theorem err_range_on_char_boundaries : forall gm text ops ls st0 st,
  utf8_wf text = true -> lex text = Some ls ->
  parser_new gm text ls = Some st0 -> run gm text st0 ops = Some st ->
  tok_start (b0 st) <= tok_end (b0 st) /\ tok_end (b0 st) <= length text
  /\ is_boundary text (tok_start (b0 st)) = true /\ is_boundary text (tok_end (b0 st)) = true.
Proof. intros gm text ops ls st0 st. apply err_range_boundaries. apply gm_all_lossless. Qed.
Print Assumptions err_range_on_char_boundaries.

(* err_before_ws / warn_before_ws point at the character at the start of the
   lookahead buffer (nothing at the end of the input): inside the source and on
   character boundaries.  (Before the repair of fea-rs the range was pos..pos + 1:
   one past the end for a missing final ';', and into the middle of a multi-byte
   character.) *)
Theorem err_before_ws_range_on_char_boundaries : forall gm text ops ls st0 st,
  utf8_wf text = true -> lex text = Some ls ->
  parser_new gm text ls = Some st0 -> run gm text st0 ops = Some st ->
  let lo := p_start (b0 st) in
  let hi := char_end text (p_start (b0 st)) in
  lo <= hi /\ hi <= length text /\ is_boundary text lo = true /\ is_boundary text hi = true.
Proof. intros gm text ops ls st0 st. apply err_before_ws_boundaries. apply gm_all_lossless. Qed.
Print Assumptions err_before_ws_range_on_char_boundaries.

(* at the end of "a" the range is empty; in front of "é" it covers both bytes *)
Example err_before_ws_nonvacuous :
  (exists ls st0 st, lex [97%N] = Some ls /\ parser_new None [97%N] ls = Some st0
     /\ run None [97%N] st0 [OEatRaw; OErrBeforeWs true] = Some st
     /\ s_errs (sk st) = [mkDiag 1 1 true])
  /\ (exists ls st0 st, lex [91; 195; 169]%N = Some ls /\ parser_new None [91; 195; 169]%N ls = Some st0
     /\ run None [91; 195; 169]%N st0 [OEatRaw; OErrBeforeWs true] = Some st
     /\ s_errs (sk st) = [mkDiag 1 3 true]).
Proof. split; vm_compute; eexists _, _, _; repeat split; reflexivity. Qed.

(* ========================= includes ============================================== *)

(* IncludeGraph::validate terminates on every include graph, cyclic or not (the
   fuel bound of the model always suffices). *)
Theorem include_validate_terminates : forall g root, exists bad, validate g root = Some bad.
Proof. exact validate_total. Qed.
Print Assumptions include_validate_terminates.

(* The statements validate reports cut every cycle: generate_recurse, which skips
   exactly those statements, terminates on every include graph (some fuel
   suffices).  So no include graph makes the front end loop. *)
Theorem include_assembly_terminates : forall g root bad,
  validate g root = Some bad -> exists fuel r, generate fuel g bad root = Some r.
Proof. exact generate_after_validate. Qed.
Print Assumptions include_assembly_terminates.

(* Cyclic includes are reported: if the full textual expansion from the root never
   ends (the include graph has a cycle reachable from the root), validate returns
   at least one error. *)
Theorem include_cycle_is_reported : forall g root bad,
  (forall fuel, generate fuel g [] root = None) -> validate g root = Some bad -> bad <> [].
Proof. exact cycle_is_reported. Qed.
Print Assumptions include_cycle_is_reported.

(* The same, stated on routes: take ANY route of include statements that were not
   reported from the root to a file (the first route the walk took or any other,
   shorter or longer); that file lies on no cycle of unreported statements.  So a
   cycle reachable from the root by some route always contains a reported
   statement, however many routes lead to it and in whatever order they are
   visited. *)
Theorem include_no_unreported_cycle_on_any_route : forall g root bad,
  validate g root = Some bad ->
  forall k n, upath g bad k root n -> forall c, ~ upath g bad (S c) n n.
Proof. exact no_unreported_cycle. Qed.
Print Assumptions include_no_unreported_cycle_on_any_route.

(* the hypothesis is satisfiable: a -> b -> a never finishes expanding *)
Example two_cycle_never_expands :
  forall fuel, generate fuel [(0, [1]); (1, [0])]%N [] 0%N = None
               /\ generate fuel [(0, [1]); (1, [0])]%N [] 1%N = None.
Proof.
  induction fuel as [|f [IH0 IH1]]; [split; reflexivity|].
  split; cbn [generate edges_of nbeq N.eqb Pos.eqb gen_children skipped existsb].
  - rewrite IH1. reflexivity.
  - rewrite IH0. reflexivity.
Qed.

(* a -> b -> a: the cycle is reported, the offending statement is skipped and the
   tree is assembled without recursing for ever *)
Example include_cycle_reported :
  validate [(0, [1]); (1, [0])]%N 0%N = Some [mkIE 0%N 0 true]
  /\ generate 3 [(0, [1]); (1, [0])]%N [mkIE 0%N 0 true] 0%N = Some [0%N].
Proof. vm_compute. auto. Qed.

(* "Too-deep includes are reported" is false as stated: the depth test is made
   only along the path on which a file is first reached.  Here the root includes
   file 30 first directly and then through the chain 1 -> 2 -> … -> 29 -> 30, and
   30 heads the chain 30 -> … -> 56: no error is reported although generate_recurse
   nests 57 deep (MAX_INCLUDE_DEPTH = 50).  (Confirmed on the real code.) *)
Definition chain_edges (lo hi : nat) : graph :=
  map (fun i => (N.of_nat i, [N.of_nat (S i)])) (seq lo (hi - lo)).
Definition two_paths : graph := (0%N, [30%N; 1%N]) :: chain_edges 1 30 ++ chain_edges 30 56.
Theorem include_depth_limit_refuted :
  validate two_paths 0%N = Some [] /\ gen_depth 100 two_paths [] 0%N = Some 57
  /\ MAX_INCLUDE_DEPTH < 57.
Proof. vm_compute. repeat split. lia. Qed.

(* Two routes to one file, the first of them too deep, and a cycle below it
   (root -> c1 -> … -> c48 -> x, root -> x, x -> x): the too-deep statement of c48
   is reported and x is NOT marked as seen by it, so the walk descends into x on the
   second route and reports x's include of itself; assembly then terminates.  This
   pins the order of the depth test and `seen.insert` in IncludeGraph::validate. *)
Definition deep_then_short : graph :=
  (0%N, [1%N; 49%N]) :: chain_edges 1 49 ++ [(49%N, [49%N])].
Example deep_then_short_cycle_reported :
  validate deep_then_short 0%N = Some [mkIE 48%N 0 false; mkIE 49%N 0 true]
  /\ exists r, generate 60 deep_then_short [mkIE 48%N 0 false; mkIE 49%N 0 true] 0%N = Some r.
Proof. vm_compute. split; [reflexivity|eexists; reflexivity]. Qed.

