(* C13 — the token-consuming primitives do not panic: on well-formed UTF-8,
   in every reachable state, eat_trivia and do_bump::<1> (hence eat_raw,
   eat_remap, eat, expect*, eat_tag, err_and_bump …) return. *)
From Coq Require Import List NArith Bool Arith Lia.
From FV.C13 Require Import Keywords Model ProofsLexer ProofsSink ProofsParser.
Import ListNotations.
Open Scope nat_scope.

Definition tok_ok (l : lexeme) : Prop := to_token_kind (lk l) <> None.
Definition triv_ok (l : lexeme) : Prop := is_trivia (lk l) = true.

Lemma triv_ok_kind : forall l, triv_ok l -> to_token_kind (lk l) <> None.
Proof.
  intros l H. unfold triv_ok, is_trivia in H. unfold to_token_kind.
  repeat (apply orb_true_iff in H as [H|H]); apply N.eqb_eq in H; rewrite H; vm_compute; discriminate.
Qed.

Lemma lexer_kind_validated : forall k,
  lexer_kind k -> k <> K_StringUnterminated -> k <> K_HexEmpty -> to_token_kind k <> None.
Proof.
  intros k L A B. unfold to_token_kind, lexer_kind in *.
  destruct (nbeq k K_StringUnterminated) eqn:E1; [apply N.eqb_eq in E1; congruence|].
  destruct (nbeq k K_HexEmpty) eqn:E2; [apply N.eqb_eq in E2; congruence|]. simpl.
  destruct (N.ltb_spec k 120); [discriminate|]. destruct (N.ltb_spec k 124); [discriminate|lia].
Qed.

(* ---- lexeme ends -------------------------------------------------------------- *)

Lemma ends_app : forall a p b, ends p (a ++ b) = ends p a ++ ends (p + total_len a) b.
Proof.
  induction a as [|x r IH]; intros p b; cbn [app ends total_len]; [rewrite Nat.add_0_r; reflexivity|].
  rewrite IH. f_equal. f_equal. f_equal. lia.
Qed.

Lemma ends_sig : forall a b p, map sig a = map sig b -> ends p a = ends p b.
Proof.
  induction a as [|x r IH]; intros [|y s] p H; cbn in *; try discriminate; [reflexivity|].
  injection H as H1 _ H2. rewrite H1. f_equal. apply IH. exact H2.
Qed.

Lemma ends_repeat_eof : forall k p, Forall (fun q => q = p) (ends p (repeat EOF0 k)).
Proof.
  induction k as [|k IH]; intro p; cbn; [constructor|].
  rewrite Nat.add_0_r. constructor; [reflexivity|apply IH].
Qed.

Section Safe.
  Variable gm : option (list byte -> bool).
  Variable text : list byte.
  Variable ls : list lexeme.
  Hypothesis gm_ok : gm_lossless gm.
  Hypothesis tiles : total_len ls = length text.
  Hypothesis bounds : Forall (fun p => is_boundary text p = true) (ends 0 ls).
  Hypothesis kinds : Forall (fun l => lexer_kind (lk l)) ls.

  Definition bnd (p : nat) : Prop := is_boundary text p = true /\ p <= length text.

  Lemma bnd_0 : bnd 0.
  Proof. split; [reflexivity|lia]. Qed.
  Lemma bnd_end : bnd (length text).
  Proof. split; [unfold is_boundary; rewrite Nat.eqb_refl, orb_true_r; reflexivity|lia]. Qed.

  Lemma ends_le : forall l p, Forall (fun q => q <= p + total_len l) (ends p l).
  Proof.
    induction l as [|x r IH]; intro p; cbn [ends total_len]; constructor; [lia|].
    specialize (IH (p + ll x)). rewrite Forall_forall in *. intros q Hq. specialize (IH q Hq). lia.
  Qed.

  Lemma padded_bounds : forall k, Forall bnd (ends 0 (ls ++ repeat EOF0 k)).
  Proof.
    intro k. rewrite ends_app. apply Forall_app. split.
    - pose proof (ends_le ls 0) as L. rewrite Forall_forall in *. intros q Hq.
      split; [apply bounds; exact Hq|]. specialize (L q Hq). lia.
    - cbn [Nat.add]. rewrite tiles. pose proof (ends_repeat_eof k (length text)) as E.
      rewrite Forall_forall in *. intros q Hq. rewrite (E q Hq). apply bnd_end.
  Qed.

  (* in a state between primitive calls every pending lexeme ends on a boundary *)
  Lemma pend_bounds : forall c st,
    BufInv ls c 0 0 st -> Forall bnd (ends (s_pos (sk st)) (pend st)).
  Proof.
    intros c st [(k & S1) S2 _ _ _ _ _ _ _ _].
    pose proof (padded_bounds k) as P. rewrite <- (ends_sig _ _ 0 S1), ends_app in P.
    apply Forall_app in P as [_ P]. cbn [Nat.add] in P.
    replace (s_pos (sk st)) with (total_len c) by lia. exact P.
  Qed.

  (* ---- the sink never refuses a slice that ends on boundaries -------------------- *)

  Lemma sink_token_total : forall k len s,
    bnd (s_pos s) -> bnd (s_pos s + len) -> exists s', sink_token gm text k len s = Some s'.
  Proof.
    intros k len s [B1 _] [B2 L2]. unfold sink_token, slice.
    apply Nat.leb_le in L2. rewrite L2, B1, B2. cbn [andb].
    destruct (nbeq k A_GlyphNameOrRange); [|eexists; reflexivity].
    destruct gm as [contains|]; [|eexists; reflexivity].
    destruct (contains _); [eexists; reflexivity|].
    destruct (try_split_range _ _); eexists; reflexivity.
  Qed.

  Lemma sink_token_bnd : forall k len s s',
    sink_token gm text k len s = Some s' -> bnd (s_pos s').
  Proof.
    intros k len s s' H. unfold sink_token in H.
    destruct (slice text (s_pos s) len) as [txt|] eqn:E; [|discriminate].
    unfold slice in E.
    destruct ((s_pos s + len <=? length text) && is_boundary text (s_pos s)
              && is_boundary text (s_pos s + len)) eqn:C; [|discriminate].
    apply andb_true_iff in C as [C B2]. apply andb_true_iff in C as [L _]. apply Nat.leb_le in L.
    assert (P : s_pos s' = s_pos s + len).
    { destruct (nbeq k A_GlyphNameOrRange); [|injection H as H; subst; reflexivity].
      destruct gm as [contains|]; [|injection H as H; subst; reflexivity].
      destruct (contains txt); [injection H as H; subst; reflexivity|].
      destruct (try_split_range contains txt); injection H as H; subst; reflexivity. }
    rewrite P. split; assumption.
  Qed.

  Lemma emit_trivia_total : forall tr s,
    SinkInv text s -> bnd (s_pos s) -> Forall triv_ok tr -> Forall bnd (ends (s_pos s) tr) ->
    exists s', emit_trivia gm text tr s = Some s'.
  Proof.
    induction tr as [|l t IH]; intros s I B K E; cbn [emit_trivia]; [eexists; reflexivity|].
    inversion K as [|? ? K1 K2]; subst. cbn [ends] in E. inversion E as [|? ? E1 E2]; subst.
    destruct (to_token_kind (lk l)) as [k|] eqn:Ek; [|exfalso; apply (triv_ok_kind l K1); exact Ek].
    destruct (sink_token_total k (ll l) s B E1) as [s1 H1]. rewrite H1.
    destruct (sink_token_inv gm text gm_ok _ _ _ _ I H1) as (I1 & P1 & _).
    apply IH; [exact I1|eapply sink_token_bnd; eauto|exact K2|rewrite P1; exact E2].
  Qed.

  (* ---- kinds in the buffer ---------------------------------------------------------- *)

  Record SafeInv (st : pstate) : Prop := {
    sf_pos : bnd (s_pos (sk st));
    sf_t0 : Forall triv_ok (p_triv (b0 st));
    sf_t1 : Forall triv_ok (p_triv (b1 st));
    sf_t2 : Forall triv_ok (p_triv (b2 st));
    sf_t3 : Forall triv_ok (p_triv (b3 st));
    sf_k0 : tok_ok (p_tok (b0 st));
    sf_k1 : tok_ok (p_tok (b1 st));
    sf_k2 : tok_ok (p_tok (b2 st));
    sf_k3 : tok_ok (p_tok (b3 st));
    sf_lx : Forall (fun l => lexer_kind (lk l)) (lx st)
  }.

  Lemma pull_kinds : forall l acc n tr m tk rest,
    Forall (fun x => lexer_kind (lk x)) l -> Forall triv_ok acc ->
    pull l acc n = (tr, m, tk, rest) ->
    Forall triv_ok tr /\ lexer_kind (lk tk) /\ Forall (fun x => lexer_kind (lk x)) rest.
  Proof.
    induction l as [|x r IH]; intros acc n tr m tk rest K A H; cbn [pull] in H.
    - injection H as H1 H2 H3 H4; subst. split; [apply Forall_rev; exact A|].
      split; [unfold lexer_kind; vm_compute; reflexivity|constructor].
    - inversion K as [|? ? K1 K2]; subst. destruct (is_trivia (lk x)) eqn:T.
      + eapply IH; [exact K2| |exact H]. constructor; [exact T|exact A].
      + injection H as H1 H2 H3 H4; subst. split; [apply Forall_rev; exact A|]. split; assumption.
  Qed.

  Lemma validate_new_tok_ok : forall st,
    lexer_kind (lk (p_tok (b3 st))) -> tok_ok (p_tok (b3 (validate_new st))).
  Proof.
    intros st L. unfold validate_new, tok_ok.
    destruct (nbeq (lk (p_tok (b3 st))) K_StringUnterminated) eqn:E1; [cbn; vm_compute; discriminate|].
    destruct (nbeq (lk (p_tok (b3 st))) K_HexEmpty) eqn:E2; [cbn; vm_compute; discriminate|].
    apply lexer_kind_validated; [exact L| |].
    - intro Q. rewrite Q in E1. discriminate.
    - intro Q. rewrite Q in E2. discriminate.
  Qed.

  (* what advance does to the slots, whatever they held before *)
  Lemma advance_slots : forall st st',
    Forall (fun l => lexer_kind (lk l)) (lx st) ->
    advance gm text st = Some st' ->
    b0 st' = b1 st /\ b1 st' = b2 st /\ b2 st' = b3 st
    /\ Forall triv_ok (p_triv (b3 st')) /\ tok_ok (p_tok (b3 st'))
    /\ Forall (fun l => lexer_kind (lk l)) (lx st').
  Proof.
    intros st st' K H. unfold advance in H.
    destruct (eat_trivia gm text st) as [st1|] eqn:E; [|discriminate].
    unfold eat_trivia in E. destruct (emit_trivia gm text (p_triv (b0 st)) (sk st)) as [s|]; [|discriminate].
    injection E as E; subst st1. cbn [lx b1 b2 b3 sk] in H.
    destruct (pull (lx st) [] 0) as [[[tr n] tk] rest] eqn:P. injection H as H.
    destruct (pull_kinds _ _ _ _ _ _ _ K (Forall_nil _) P) as (T & L & R).
    set (mid := mkPS rest (b1 st) (b2 st) (b3 st) (mkP tr (tok_end (b3 st)) n tk) s) in *.
    pose proof (validate_new_props mid) as V. cbv zeta in V.
    destruct V as (V1 & V2 & V3 & V4 & V5 & _).
    subst st'. rewrite V1, V2, V3, V4, V5. subst mid. cbn [lx b0 b1 b2 b3 p_triv].
    repeat split; try assumption.
    apply (validate_new_tok_ok (mkPS rest (b1 st) (b2 st) (b3 st) (mkP tr (tok_end (b3 st)) n tk) s)).
    exact L.
  Qed.

  Lemma eat_trivia_pos : forall st st', bnd (s_pos (sk st)) ->
    eat_trivia gm text st = Some st' -> bnd (s_pos (sk st')).
  Proof.
    intros st st' B H. unfold eat_trivia in H.
    destruct (emit_trivia gm text (p_triv (b0 st)) (sk st)) as [s|] eqn:E; [|discriminate].
    injection H as H; subst st'. cbn [sk].
    revert E B. generalize (sk st) as s0. generalize (p_triv (b0 st)) as tr.
    induction tr as [|l t IH]; intros s0 E B; cbn [emit_trivia] in E.
    - injection E as E; subst. exact B.
    - destruct (to_token_kind (lk l)); [|discriminate].
      destruct (sink_token gm text n (ll l) s0) as [s1|] eqn:T; [|discriminate].
      eapply IH; [exact E|eapply sink_token_bnd; eauto].
  Qed.

  Lemma advance_pos : forall st st', bnd (s_pos (sk st)) ->
    advance gm text st = Some st' -> bnd (s_pos (sk st')).
  Proof.
    intros st st' B H. unfold advance in H.
    destruct (eat_trivia gm text st) as [st1|] eqn:E; [|discriminate].
    pose proof (eat_trivia_pos _ _ B E) as B1.
    destruct (pull (lx st1) [] 0) as [[[tr n] tk] rest]. injection H as H; subst st'.
    match goal with |- bnd (s_pos (sk (validate_new ?m))) =>
      pose proof (validate_new_props m) as V; cbv zeta in V end.
    destruct V as (_ & _ & _ & _ & _ & _ & _ & _ & V9 & _). rewrite V9. exact B1.
  Qed.

  Lemma safe_sink : forall st s, SafeInv st -> bnd (s_pos s) -> SafeInv (with_sink st s).
  Proof. intros st s [P T0 T1 T2 T3 K0 K1 K2 K3 L] B. constructor; assumption. Qed.

  Lemma advance_safe : forall st st', SafeInv st -> advance gm text st = Some st' -> SafeInv st'.
  Proof.
    intros st st' [P T0 T1 T2 T3 K0 K1 K2 K3 L] H.
    destruct (advance_slots _ _ L H) as (E0 & E1 & E2 & T & K & L').
    constructor; try (rewrite ?E0, ?E1, ?E2; assumption).
    eapply advance_pos; eauto.
  Qed.

  Lemma bump_n_safe : forall n len st len' st',
    SafeInv st -> bump_n gm text n len st = Some (len', st') -> SafeInv st'.
  Proof.
    induction n as [|n IH]; intros len st len' st' S H; cbn [bump_n] in H.
    - injection H as _ H; subst. exact S.
    - destruct (advance gm text st) as [st1|] eqn:E; [|discriminate].
      eapply IH; [eapply advance_safe; eauto|exact H].
  Qed.

  Lemma emit_parts_bnd : forall parts prev s e s',
    bnd (s_pos s) -> emit_parts gm text parts prev s = Some (e, s') -> bnd (s_pos s').
  Proof.
    induction parts as [|[[x y] k] t IH]; intros prev s e s' B H; cbn [emit_parts] in H.
    - injection H as _ H; subst. exact B.
    - destruct (negb (x =? prev)); [discriminate|]. destruct (y <? x); [discriminate|].
      destruct (sink_token gm text k (y - x) s) as [s1|] eqn:T; [|discriminate].
      eapply IH; [eapply sink_token_bnd; eauto|exact H].
  Qed.

  Lemma sink_finish_pos : forall remap script newk s s',
    SinkInv text s -> sink_finish remap script newk s = Some s' -> s_pos s' = s_pos s.
  Proof. intros. eapply (sink_finish_inv text); eauto. Qed.

  Lemma step_safe : forall st o st',
    Good text ls st -> SafeInv st -> step gm text st o = Some st' -> SafeInv st'.
  Proof.
    intros st o st' [_ I] S H. destruct o; cbn [step] in H.
    - injection H as H; subst. apply safe_sink; [exact S|]. cbn. apply S.
    - destruct (sink_finish remap script newk (sk st)) as [s|] eqn:F; [|discriminate].
      injection H as H; subst. apply safe_sink; [exact S|].
      rewrite (sink_finish_pos _ _ _ _ _ I F). apply S.
    - pose proof (eat_trivia_pos _ _ (sf_pos _ S) H) as B.
      unfold eat_trivia in H. destruct (emit_trivia gm text (p_triv (b0 st)) (sk st)); [|discriminate].
      injection H as H; subst st'. destruct S as [P T0 T1 T2 T3 K0 K1 K2 K3 L].
      constructor; cbn [sk b0 b1 b2 b3 lx p_triv p_tok] in *; try assumption. constructor.
    - destruct (to_token_kind (lk (p_tok (b0 st)))) as [k|]; [|discriminate].
      unfold do_bump in H. destruct (bump_n gm text 1 0 st) as [[len st1]|] eqn:E; [|discriminate].
      destruct (sink_token gm text k len (sk st1)) as [s|] eqn:T; [|discriminate].
      injection H as H; subst. apply safe_sink; [eapply bump_n_safe; eauto|eapply sink_token_bnd; eauto].
    - unfold do_bump in H. destruct (bump_n gm text n 0 st) as [[len st1]|] eqn:E; [|discriminate].
      destruct (sink_token gm text k len (sk st1)) as [s|] eqn:T; [|discriminate].
      injection H as H; subst. apply safe_sink; [eapply bump_n_safe; eauto|eapply sink_token_bnd; eauto].
    - unfold split_remap in H. destruct parts as [|p ps]; [injection H as H; subst; exact S|].
      destruct (eat_trivia gm text st) as [st1|] eqn:Et; [|discriminate].
      assert (S1 : SafeInv st1).
      { pose proof (eat_trivia_pos _ _ (sf_pos _ S) Et) as B.
        unfold eat_trivia in Et. destruct (emit_trivia gm text (p_triv (b0 st)) (sk st)); [|discriminate].
        injection Et as Et; subst st1. destruct S as [P T0 T1 T2 T3 K0 K1 K2 K3 L].
        constructor; cbn [sk b0 b1 b2 b3 lx p_triv p_tok] in *; try assumption. constructor. }
      destruct (emit_parts gm text (p :: ps) 0 (sk st1)) as [[e s]|] eqn:E; [|discriminate].
      destruct (negb (e =? ll (p_tok (b0 st1)))); [discriminate|].
      eapply advance_safe; [|exact H]. apply safe_sink; [exact S1|].
      eapply emit_parts_bnd; [apply S1|exact E].
    - injection H as H; subst. apply safe_sink; [exact S|]. cbn. apply S.
    - injection H as H; subst. apply safe_sink; [exact S|]. cbn. apply S.
    - injection H as H; subst. apply safe_sink; [exact S|]. cbn. apply S.
  Qed.

  Lemma run_safe : forall ops st st',
    Good text ls st -> SafeInv st -> run gm text st ops = Some st' -> SafeInv st'.
  Proof.
    induction ops as [|o t IH]; intros st st' G S H; cbn [run] in H.
    - injection H as H; subst. exact S.
    - destruct (step gm text st o) as [st1|] eqn:E; [|discriminate].
      eapply IH; [eapply (step_inv gm text gm_ok); eauto|eapply step_safe; eauto|exact H].
  Qed.

  Lemma parser_new_safe : forall st0, parser_new gm text ls = Some st0 -> SafeInv st0.
  Proof.
    intros st0 H. unfold parser_new in H.
    set (i0 := mkPS ls P_EMPTY P_EMPTY P_EMPTY P_EMPTY sink0) in *.
    destruct (advance gm text i0) as [s1|] eqn:A1; [|discriminate].
    destruct (advance gm text s1) as [s2|] eqn:A2; [|discriminate].
    destruct (advance gm text s2) as [s3|] eqn:A3; [|discriminate].
    assert (L0 : Forall (fun l => lexer_kind (lk l)) (lx i0)) by exact kinds.
    destruct (advance_slots _ _ L0 A1) as (a0 & a1 & a2 & aT & aK & L1).
    destruct (advance_slots _ _ L1 A2) as (b0' & b1' & b2' & bT & bK & L2).
    destruct (advance_slots _ _ L2 A3) as (c0 & c1 & c2 & cT & cK & L3).
    destruct (advance_slots _ _ L3 H) as (d0 & d1 & d2 & dT & dK & L4).
    assert (P0 : bnd (s_pos (sk i0))) by apply bnd_0.
    pose proof (advance_pos _ _ P0 A1) as P1. pose proof (advance_pos _ _ P1 A2) as P2.
    pose proof (advance_pos _ _ P2 A3) as P3. pose proof (advance_pos _ _ P3 H) as P4.
    constructor; try assumption.
    - rewrite d0, c1, b2'. exact aT.
    - rewrite d1, c2. exact bT.
    - rewrite d2. exact cT.
    - rewrite d0, c1, b2'. exact aK.
    - rewrite d1, c2. exact bK.
    - rewrite d2. exact cK.
  Qed.

  (* ---- totality ------------------------------------------------------------------------ *)

  Lemma ends_pend_b0 : forall st,
    ends (s_pos (sk st)) (pend st)
    = ends (s_pos (sk st)) (p_triv (b0 st))
      ++ (s_pos (sk st) + total_len (p_triv (b0 st)) + ll (p_tok (b0 st)))
      :: ends (s_pos (sk st) + total_len (p_triv (b0 st)) + ll (p_tok (b0 st)))
              (pend_of (b1 st) ++ pend_of (b2 st) ++ pend_of (b3 st) ++ lx st).
  Proof.
    intro st. unfold pend. unfold pend_of at 1. rewrite <- app_assoc. rewrite ends_app.
    reflexivity.
  Qed.

  Lemma eat_trivia_total : forall st,
    Good text ls st -> SafeInv st -> exists st', eat_trivia gm text st = Some st'.
  Proof.
    intros st [[c BI] I] S. unfold eat_trivia.
    pose proof (pend_bounds _ _ BI) as PB. rewrite ends_pend_b0 in PB.
    apply Forall_app in PB as [PB _].
    destruct (emit_trivia_total _ _ I (sf_pos _ S) (sf_t0 _ S) PB) as [s' E]. rewrite E.
    eexists; reflexivity.
  Qed.

  (* do_bump::<1>(kind) for any kind *)
  Lemma do_bump1_total : forall k st,
    Good text ls st -> SafeInv st -> exists st', do_bump gm text 1 k st = Some st'.
  Proof.
    intros k st G S. pose proof G as [[c BI] I].
    destruct (eat_trivia_total st G S) as [st1 E1].
    unfold do_bump. cbn [bump_n]. unfold advance. rewrite E1.
    destruct (pull (lx st1) [] 0) as [[[tr n] tk] rest] eqn:P.
    match goal with |- context [validate_new ?m] => set (mid := m) end.
    (* the token goes to the sink at the end of the trivia, and ends where it ends *)
    destruct (eat_trivia_inv gm text gm_ok _ _ _ _ _ _ BI I E1) as (BI1 & I1 & Tr & Tk & _).
    pose proof (pend_bounds _ _ BI) as PB. rewrite ends_pend_b0 in PB.
    apply Forall_app in PB as [_ PB]. inversion PB as [|? ? PB1 _]; subst.
    pose proof (validate_new_props mid) as V. cbv zeta in V.
    destruct V as (_ & _ & _ & _ & _ & _ & _ & _ & V9 & _).
    assert (Ps : s_pos (sk (validate_new mid)) = s_pos (sk st) + total_len (p_triv (b0 st))).
    { rewrite V9. subst mid. cbn [sk]. destruct BI1 as [_ S2 _ _ _ _ _ _ _ _].
      destruct BI as [_ S2' _ _ _ _ _ _ _ _]. rewrite total_len_app in S2. lia. }
    assert (B1 : bnd (s_pos (sk (validate_new mid)))).
    { rewrite V9. subst mid. cbn [sk]. eapply eat_trivia_pos; [apply S|exact E1]. }
    assert (B2 : bnd (s_pos (sk (validate_new mid)) + (0 + ll (p_tok (b0 st))))).
    { rewrite Ps. cbn [Nat.add]. exact PB1. }
    destruct (sink_token_total k (0 + ll (p_tok (b0 st))) _ B1 B2) as [s' T].
    rewrite T. eexists; reflexivity.
  Qed.

  Lemma eat_raw_total : forall st,
    Good text ls st -> SafeInv st -> exists st', step gm text st OEatRaw = Some st'.
  Proof.
    intros st G S. cbn [step].
    destruct (to_token_kind (lk (p_tok (b0 st)))) as [k|] eqn:E; [|exfalso; apply (sf_k0 _ S); exact E].
    apply do_bump1_total; assumption.
  Qed.

  Lemma ends_last : forall l p, l <> [] -> In (p + total_len l) (ends p l).
  Proof.
    induction l as [|x r IH]; intros p H; [congruence|]. cbn [ends total_len].
    destruct r as [|y r']; [left; cbn; lia|]. right.
    replace (p + (ll x + total_len (y :: r'))) with (p + ll x + total_len (y :: r')) by lia.
    apply IH. discriminate.
  Qed.

  (* err / warn: both ends of the range are character boundaries inside the source *)
  Lemma err_range_bnd : forall st,
    Good text ls st -> SafeInv st -> bnd (tok_start (b0 st)) /\ bnd (tok_end (b0 st)).
  Proof.
    intros st [[c BI] I] S.
    pose proof (pend_bounds _ _ BI) as PB. rewrite ends_pend_b0 in PB.
    apply Forall_app in PB as [PT PB]. inversion PB as [|? ? PB1 _]; subst.
    destruct BI as [_ _ B _ _ _ T0 _ _ _]. unfold tok_start, tok_end.
    replace (p_start (b0 st)) with (s_pos (sk st)) by lia. rewrite T0.
    split; [|exact PB1].
    destruct (p_triv (b0 st)) as [|x r] eqn:E.
    - cbn [total_len]. rewrite Nat.add_0_r. apply S.
    - rewrite Forall_forall in PT. apply PT. apply ends_last. discriminate.
  Qed.
End Safe.
