(* C13 — include graph: IncludeGraph::validate terminates on every graph (the
   fuel of the model is never exhausted). *)
From Coq Require Import List NArith Bool Arith Lia.
From FV.C13 Require Import Keywords Model.
Import ListNotations.
Open Scope nat_scope.

(* potential: work left in the frames on the stack plus the frames that can
   still be pushed (one per unseen key of the graph) *)
Fixpoint stack_weight (s : list frame) : nat :=
  match s with [] => 0 | f :: t => S (length (f_edges f) - f_cur f) + stack_weight t end.
Fixpoint unseen_weight (g : graph) (seen : list N) : nat :=
  match g with
  | [] => 0
  | (k, l) :: t => (if memN k seen then 0 else S (length l)) + unseen_weight t seen
  end.
Definition potential (g : graph) (v : vstate) : nat :=
  stack_weight (v_stack v) + unseen_weight g (v_seen v).

Lemma unseen_weight_nil : forall g, unseen_weight g [] = graph_weight g.
Proof. induction g as [|[k l] t IH]; simpl; [reflexivity|rewrite IH; reflexivity]. Qed.

Lemma memN_cons : forall x c s, memN x (c :: s) = nbeq x c || memN x s.
Proof. reflexivity. Qed.

Lemma unseen_weight_mono : forall g c seen, unseen_weight g (c :: seen) <= unseen_weight g seen.
Proof.
  induction g as [|[k l] t IH]; intros c seen; simpl; [lia|].
  specialize (IH c seen). destruct (nbeq k c); simpl; [lia|]. destruct (memN k seen); lia.
Qed.

Lemma unseen_weight_push : forall g c ce seen,
  edges_of g c = Some ce -> memN c seen = false ->
  unseen_weight g (c :: seen) + S (length ce) <= unseen_weight g seen.
Proof.
  induction g as [|[k l] t IH]; intros c ce seen He Hs; simpl in *; [discriminate|].
  destruct (nbeq k c) eqn:E.
  - apply N.eqb_eq in E. subst k. injection He as He; subst l. simpl.
    rewrite Hs. pose proof (unseen_weight_mono t c seen). lia.
  - specialize (IH c ce seen He Hs). simpl. destruct (memN k seen); lia.
Qed.

Lemma vstep_decreases : forall g v v', vstep g v = Some v' -> potential g v' < potential g v.
Proof.
  intros g v v' H. unfold vstep in H. unfold potential.
  destruct (v_stack v) as [|fr rest] eqn:Es; [discriminate|].
  destruct (nth_error (f_edges fr) (f_cur fr)) as [child|] eqn:En.
  - assert (L : f_cur fr < length (f_edges fr)) by (apply nth_error_Some; congruence).
    destruct (MAX_INCLUDE_DEPTH - 1 <=? length (mkF (f_node fr) (f_edges fr) (S (f_cur fr)) :: rest)).
    + injection H as H; subst v'. cbn [v_stack v_seen stack_weight f_edges f_cur]. lia.
    + destruct (negb (memN child (v_seen v))) eqn:Em.
      * apply negb_true_iff in Em.
        destruct (edges_of g child) as [ce|] eqn:Ee; injection H as H; subst v';
          cbn [v_stack v_seen stack_weight f_edges f_cur].
        -- pose proof (unseen_weight_push _ _ _ _ Ee Em). lia.
        -- pose proof (unseen_weight_mono g child (v_seen v)). lia.
      * destruct (existsb _ _); injection H as H; subst v';
          cbn [v_stack v_seen stack_weight f_edges f_cur]; lia.
  - injection H as H; subst v'. cbn [v_stack v_seen stack_weight]. lia.
Qed.

Lemma vloop_total : forall fuel g v, potential g v <= fuel -> exists bad, vloop fuel g v = Some bad.
Proof.
  induction fuel as [|f IH]; intros g v Hp.
  - cbn [vloop]. destruct (vstep g v) as [v'|] eqn:E; [|eexists; reflexivity].
    apply vstep_decreases in E. lia.
  - cbn [vloop]. destruct (vstep g v) as [v'|] eqn:E; [|eexists; reflexivity].
    apply vstep_decreases in E. apply IH. lia.
Qed.

Lemma validate_total : forall g root, exists bad, validate g root = Some bad.
Proof.
  intros g root. unfold validate, validate_fuel.
  destruct (edges_of g root) as [e|]; [|eexists; reflexivity].
  apply vloop_total. unfold potential. cbn [v_stack v_seen stack_weight f_edges f_cur].
  rewrite unseen_weight_nil. lia.
Qed.
