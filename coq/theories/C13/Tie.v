(* C13 — boolean comparisons used by the harness-written case files: each case
   is `true` iff the model reproduces what the implementation returned.
   Definitions only. *)
From Coq Require Import List NArith Bool Arith.
From FV.C13 Require Import Model.
Import ListNotations.
Open Scope nat_scope.

(* strict = false ignores the per-node error flags (used when a contextual-rule
   rewrite recorded diagnostics: the flag lands on whichever node is finished
   next, which the derived script cannot always place). *)
Fixpoint tree_eqb (strict : bool) (a b : tree) : bool :=
  match a, b with
  | Tok k x, Tok k' x' => nbeq k k' && bytes_eqb x x'
  | Nd k n e ch, Nd k' n' e' ch' =>
      nbeq k k' && (n =? n') && (negb strict || Bool.eqb e e') &&
      (fix go (l l' : list tree) : bool :=
         match l, l' with
         | [], [] => true
         | c :: r, c' :: r' => tree_eqb strict c c' && go r r'
         | _, _ => false
         end) ch ch'
  | _, _ => false
  end.
Fixpoint trees_eqb (strict : bool) (l l' : list tree) : bool :=
  match l, l' with
  | [], [] => true
  | c :: r, c' :: r' => tree_eqb strict c c' && trees_eqb strict r r'
  | _, _ => false
  end.

Fixpoint lexemes_eqb (a : list lexeme) (b : list (N * nat)) : bool :=
  match a, b with
  | [], [] => true
  | x :: a', (k, n) :: b' => nbeq (lk x) k && (ll x =? n) && lexemes_eqb a' b'
  | _, _ => false
  end.

(* the lexer case: the model's lexemes are the implementation's *)
Definition lex_matches (text : list byte) (impl : list (N * nat)) : bool :=
  utf8_wf text && match lex text with Some ls => lexemes_eqb ls impl | None => false end.

Fixpoint diags_eqb (a : list diag) (b : list (nat * nat * bool)) : bool :=
  match a, b with
  | [], [] => true
  | d :: a', (lo, hi, h) :: b' => (d_lo d =? lo) && (d_hi d =? hi) && Bool.eqb (d_hard d) h && diags_eqb a' b'
  | _, _ => false
  end.
Fixpoint parents_eqb (a : list (N * nat)) (b : list (N * nat)) : bool :=
  match a, b with
  | [], [] => true
  | (k, i) :: a', (k', i') :: b' => nbeq k k' && (i =? i') && parents_eqb a' b'
  | _, _ => false
  end.
(* slot: (start_pos, trivia_len, number of trivia lexemes, kind, len) *)
Definition pending_eqb (p : pending) (o : nat * nat * nat * N * nat) : bool :=
  let '(s, tl, nt, k, n) := o in
  (p_start p =? s) && (p_tlen p =? tl) && (length (p_triv p) =? nt) && nbeq (lk (p_tok p)) k
  && (ll (p_tok p) =? n).

(* what the hook reports after the last op *)
Record obs := mkObs {
  o_pos : nat; o_children : list tree; o_parents : list (N * nat) (* Vec order *);
  o_errs : list (nat * nat * bool); o_cur_err : bool; o_incl : nat;
  o_buf : list (nat * nat * nat * N * nat);
  o_strict : bool
}.

Definition state_matches (st : pstate) (o : obs) : bool :=
  (s_pos (sk st) =? o_pos o)
  && trees_eqb (o_strict o) (s_children (sk st)) (o_children o)
  && parents_eqb (rev (s_parents (sk st))) (o_parents o)
  && diags_eqb (s_errs (sk st)) (o_errs o)
  && (negb (o_strict o) || Bool.eqb (s_cur_err (sk st)) (o_cur_err o))
  && (s_incl (sk st) =? o_incl o)
  && match o_buf o with
     | [x0; x1; x2; x3] => pending_eqb (b0 st) x0 && pending_eqb (b1 st) x1
                           && pending_eqb (b2 st) x2 && pending_eqb (b3 st) x3
     | _ => false
     end.

(* run, reporting the index of the op that panics *)
Fixpoint run_idx (gm : option (list byte -> bool)) (text : list byte) (st : pstate)
    (ops : list op) (i : nat) : pstate + nat :=
  match ops with
  | [] => inl st
  | o :: t => match step gm text st o with
              | Some st' => run_idx gm text st' t (S i)
              | None => inr i
              end
  end.

(* expected: inl obs = every op returned and the state is obs; inr i = op i panicked *)
Definition drive_matches (gm : option (list byte -> bool)) (text : list byte) (ops : list op)
    (expected : obs + nat) : bool :=
  match lex text with
  | None => false
  | Some ls =>
      match parser_new gm text ls with
      | None => false
      | Some st0 =>
          match run_idx gm text st0 ops 0, expected with
          | inl st, inl o => state_matches st o
          | inr i, inr j => i =? j
          | _, _ => false
          end
      end
  end.

Fixpoint ranges_eqb (a b : list (nat * nat)) : bool :=
  match a, b with
  | [], [] => true
  | (x, y) :: a', (x', y') :: b' => (x =? x') && (y =? y') && ranges_eqb a' b'
  | _, _ => false
  end.
(* positions after update_positions_from_root: token ranges and node ranges, tree order *)
Definition positions_match (root : tree) (toks nodes : list (nat * nat)) : bool :=
  let p := annotate root 0 in
  ranges_eqb (map (fun x => (fst (fst x), snd (fst x))) (tok_ranges p)) toks
  && ranges_eqb (node_ranges p) nodes.

(* glyph map given as the list of its names *)
Definition gm_of (names : list (list byte)) : option (list byte -> bool) :=
  Some (fun w => existsb (bytes_eqb w) names).

Fixpoint ierrs_eqb (a : list ierr) (b : list (N * nat * bool)) : bool :=
  match a, b with
  | [], [] => true
  | e :: a', (f, i, c) :: b' => nbeq (e_file e) f && (e_idx e =? i) && Bool.eqb (e_cycle e) c && ierrs_eqb a' b'
  | _, _ => false
  end.
Fixpoint ids_eqb (a b : list N) : bool :=
  match a, b with
  | [], [] => true
  | x :: a', y :: b' => nbeq x y && ids_eqb a' b'
  | _, _ => false
  end.
(* include case: validate reports the implementation's include errors, and the
   files are spliced in the implementation's order *)
Definition include_matches (g : graph) (root : N) (impl_errs : list (N * nat * bool))
    (impl_order : list N) : bool :=
  match validate g root with
  | None => false
  | Some bad =>
      ierrs_eqb bad impl_errs &&
      match generate (S (length impl_order)) g bad root with
      | Some order => ids_eqb order impl_order
      | None => false
      end
  end.
