(* C13 — lexer lemmas: totality, tiling, non-empty lexemes, Eof only at NUL,
   lexeme boundaries are character boundaries. *)
From Coq Require Import List NArith Bool Arith Lia.
From FV.C13 Require Import Keywords Model.
Import ListNotations.
Open Scope nat_scope.

Lemma span_le : forall p l, span p l <= length l.
Proof. intros p l; induction l as [|b t IH]; simpl; [lia|]. destruct (p b); simpl; lia. Qed.

Lemma span_stop : forall p l, span p l = length l \/ p (nth (span p l) l 0%N) = false.
Proof.
  intros p l; induction l as [|b t IH]; simpl; [left; reflexivity|].
  destruct (p b) eqn:E; simpl.
  - destruct IH as [IH|IH]; [left; congruence | right; exact IH].
  - right; exact E.
Qed.

Lemma span_all : forall p l i, i < span p l -> p (nth i l 0%N) = true.
Proof.
  intros p l; induction l as [|b t IH]; simpl; intros i Hi; [lia|].
  destruct (p b) eqn:E; [|lia]. destruct i; [exact E|]. apply IH. lia.
Qed.

Lemma nthb_nonzero_lt : forall i r, nthb i r <> 0%N -> i < length r.
Proof.
  intros i r H. destruct (Nat.lt_ge_cases i (length r)) as [L|G]; [exact L|].
  exfalso; apply H. unfold nthb. apply nth_overflow. exact G.
Qed.

Lemma nbeq_eq : forall a b, nbeq a b = true -> a = b.
Proof. intros a b H; apply N.eqb_eq; exact H. Qed.

Lemma skipn_len_le : forall (A : Type) n (l : list A), length (skipn n l) = length l - n.
Proof. intros; apply skipn_length. Qed.

Lemma nth_skipn_add : forall (n i : nat) (l : list N), nth i (skipn n l) 0%N = nth (n + i) l 0%N.
Proof.
  induction n as [|n IH]; intros i l; [reflexivity|].
  destruct l as [|b r]; [simpl; destruct i; reflexivity|]. simpl. apply IH.
Qed.

(* ---- length bounds ---------------------------------------------------- *)

Lemma lex_decimal_le : forall r, snd (lex_decimal r) <= length r.
Proof.
  intro r. unfold lex_decimal.
  destruct (nbeq (nthb (span is_digit r) r) 46) eqn:E; cbn [fst snd].
  - apply nbeq_eq in E.
    assert (L : span is_digit r < length r) by (apply nthb_nonzero_lt; rewrite E; discriminate).
    pose proof (span_le is_digit (skipn (S (span is_digit r)) r)) as H.
    rewrite skipn_length in H. lia.
  - apply span_le.
Qed.

Lemma lex_number_le : forall lz r, snd (lex_number lz r) <= length r.
Proof.
  intros lz r. unfold lex_number.
  destruct (lz && negb (nbeq (nthb 0 r) 46)); [|apply lex_decimal_le].
  destruct (is_x (nthb 0 r)) eqn:X.
  - assert (L : 0 < length r).
    { apply nthb_nonzero_lt. intro Z. rewrite Z in X. discriminate. }
    destruct (is_hex (nthb 1 r)); cbn [fst snd]; [|lia].
    pose proof (span_le is_hex (skipn 1 r)) as H. rewrite skipn_length in H. lia.
  - destruct (is_digit (nthb 0 r)); cbn [fst snd]; [apply span_le|lia].
Qed.

Lemma lex_hyphen_le : forall r, snd (lex_hyphen r) <= length r.
Proof.
  intro r. unfold lex_hyphen.
  destruct (nbeq (nthb 0 r) 48 && (is_digit (nthb 1 r) || is_x (nthb 1 r))); cbn [fst snd]; [lia|].
  destruct (is_digit (nthb 0 r)); [apply lex_decimal_le|cbn [fst snd]; lia].
Qed.

Lemma lex_string_le : forall r, snd (lex_string r) <= length r.
Proof.
  intro r. unfold lex_string.
  destruct (nbeq (nthb (span string_cont r) r) 34) eqn:E; cbn [fst snd]; [|apply span_le].
  apply nbeq_eq in E. apply nthb_nonzero_lt. rewrite E; discriminate.
Qed.

Lemma lex_ident_le : forall st b r, snd (lex_ident st b r) <= length r.
Proof. intros; unfold lex_ident; cbn [fst snd]; apply span_le. Qed.

Ltac split_ifs :=
  repeat match goal with
         | |- context [if ?c then _ else _] => destruct c
         end.

Lemma lex_first_le : forall st b r, snd (lex_first st b r) <= length r.
Proof.
  intros st b r. unfold lex_first.
  split_ifs; cbn [fst snd];
    first [ lia | apply span_le | apply lex_string_le | apply lex_number_le
          | apply lex_hyphen_le | apply lex_ident_le ].
Qed.

Lemma next_token_len : forall st b r,
  1 <= ll (fst (next_token st (b :: r))) <= length (b :: r).
Proof.
  intros st b r. unfold next_token.
  pose proof (lex_first_le st b r) as H.
  destruct (lex_first st b r) as [k e]; cbn [fst snd ll length] in *. lia.
Qed.

(* ---- totality and tiling ---------------------------------------------- *)

Lemma lex_all_total : forall fuel st rest,
  length rest <= fuel ->
  exists ls, lex_all fuel st rest = Some ls
             /\ total_len ls = length rest
             /\ Forall (fun l => 1 <= ll l) ls.
Proof.
  induction fuel as [|f IH]; intros st rest Hf.
  - destruct rest; [|simpl in Hf; lia]. exists []; simpl; auto.
  - destruct rest as [|b r]; [exists []; simpl; auto|].
    cbn [lex_all].
    pose proof (next_token_len st b r) as Hl.
    destruct (next_token st (b :: r)) as [l st'] eqn:E. cbn [fst] in Hl.
    destruct (IH st' (skipn (ll l) (b :: r))) as (t & Ht & Hs & Hp).
    { rewrite skipn_length. cbn [length] in *. lia. }
    rewrite Ht. exists (l :: t). repeat split.
    + cbn [total_len]. rewrite Hs, skipn_length. cbn [length] in *. lia.
    + constructor; [lia|exact Hp].
Qed.

(* ---- the only Eof lexemes are NUL bytes -------------------------------- *)

Lemma assoc_kw_in : forall w tbl k, assoc_kw w tbl = Some k -> In k (map snd tbl).
Proof.
  intros w tbl; induction tbl as [|[a v] t IH]; simpl; intros k H; [discriminate|].
  destruct (bytes_eqb w a); [inversion H; auto | right; auto].
Qed.

Lemma keywords_range :
  forallb (fun v => (N.ltb 28 v) && (N.ltb v 119)) (map snd keywords) = true.
Proof. vm_compute. reflexivity. Qed.

Lemma from_keyword_range : forall w k, from_keyword w = Some k -> (28 < k < 119)%N.
Proof.
  intros w k H. apply assoc_kw_in in H.
  pose proof keywords_range as F. rewrite forallb_forall in F. apply F in H.
  apply andb_true_iff in H as [A B]. apply N.ltb_lt in A. apply N.ltb_lt in B. lia.
Qed.

(* kinds the lexer can produce: below Tombstone *)
Definition lexer_kind (k : N) : Prop := (k < 124)%N.

Lemma lex_ident_kind : forall st b r,
  fst (lex_ident st b r) = K_Ident \/ (28 < fst (lex_ident st b r) < 119)%N.
Proof.
  intros. unfold lex_ident. simpl. destruct (after_bs st); [left; reflexivity|].
  destruct (from_keyword (b :: firstn (span ident_cont r) r)) eqn:E; [right|left; reflexivity].
  eapply from_keyword_range; eauto.
Qed.

Ltac kind_const := unfold K_Eof, K_Ident, K_String, K_StringUnterminated, K_Number, K_Octal, K_Hex,
  K_HexEmpty, K_Float, K_NumberSuffix, K_Whitespace, K_Comment, K_Semi, K_Colon, K_Comma,
  K_Backslash, K_Hyphen, K_Eq, K_LBrace, K_RBrace, K_LSquare, K_RSquare, K_LParen, K_RParen,
  K_LAngle, K_RAngle, K_SingleQuote, K_NamedGlyphClass, K_Cid, K_Path, K_Dollar, K_Plus,
  K_Asterisk, K_Slash in *.

Lemma lex_decimal_kind : forall r, fst (lex_decimal r) = K_Float \/ fst (lex_decimal r) = K_Number.
Proof. intro r; unfold lex_decimal; split_ifs; simpl; auto. Qed.
Lemma lex_number_kind : forall lz r, (0 < fst (lex_number lz r) < 124)%N.
Proof.
  intros lz r; unfold lex_number.
  pose proof (lex_decimal_kind r) as D.
  split_ifs; simpl; kind_const; try lia; destruct D as [D|D]; rewrite D; lia.
Qed.
Lemma lex_hyphen_kind : forall r, (0 < fst (lex_hyphen r) < 124)%N.
Proof.
  intro r; unfold lex_hyphen. pose proof (lex_decimal_kind r) as D.
  split_ifs; simpl; kind_const; try lia; destruct D as [D|D]; rewrite D; lia.
Qed.
Lemma lex_string_kind : forall r, (0 < fst (lex_string r) < 124)%N.
Proof. intro r; unfold lex_string; split_ifs; simpl; kind_const; lia. Qed.

Lemma lex_first_kind : forall st b r,
  (fst (lex_first st b r) < 124)%N /\ fst (lex_first st b r) <> K_Eof.
Proof.
  intros st b r. unfold lex_first.
  pose proof (lex_number_kind true r) as N1. pose proof (lex_number_kind false r) as N2.
  pose proof (lex_hyphen_kind r) as Hh. pose proof (lex_string_kind r) as Hs.
  pose proof (lex_ident_kind st b r) as Hi.
  split_ifs; cbn [fst]; kind_const; try (split; [lia | intro Q; lia]);
    try (split; [lia | intro Q; discriminate]).
Qed.

(* the lexer never yields Eof inside the input (only past its end) *)
Lemma lex_all_kinds : forall fuel st rest ls,
  lex_all fuel st rest = Some ls ->
  Forall (fun l => lexer_kind (lk l)) ls /\ Forall (fun l => lk l <> K_Eof) ls.
Proof.
  induction fuel as [|f IH]; intros st rest ls H.
  - destruct rest; simpl in H; [inversion H; subst; split; constructor | discriminate].
  - destruct rest as [|b r]; [simpl in H; inversion H; subst; split; constructor|].
    cbn [lex_all] in H.
    destruct (next_token st (b :: r)) as [l st'] eqn:E.
    destruct (lex_all f st' (skipn (ll l) (b :: r))) as [t|] eqn:Et; [|discriminate].
    inversion H; subst; clear H.
    destruct (IH _ _ _ Et) as [K1 K2].
    unfold next_token in E. pose proof (lex_first_kind st b r) as [F1 F2].
    destruct (lex_first st b r) as [k e]. inversion E; subst; clear E. simpl in *.
    split; constructor; assumption.
Qed.

(* ---- character boundaries ---------------------------------------------- *)

(* a position n of the suffix `l` where a slice may end: the end, or a byte that
   is not a UTF-8 continuation byte *)
Definition stop_ok (l : list byte) (n : nat) : Prop :=
  n = length l \/ (n < length l /\ is_cont (nth n l 0%N) = false).

Lemma cont_ok_weaken : forall pa l, cont_ok pa l = true -> cont_ok false l = true.
Proof.
  intros pa l H. destruct l as [|b r]; [reflexivity|]. simpl in *.
  apply andb_true_iff in H as [_ H]. exact H.
Qed.

Lemma cont_ok_skipn : forall n pa l, cont_ok pa l = true -> cont_ok false (skipn n l) = true.
Proof.
  induction n as [|n IH]; intros pa l H; simpl.
  - eapply cont_ok_weaken; eauto.
  - destruct l as [|b r]; [reflexivity|]. simpl in H. apply andb_true_iff in H as [_ H].
    eapply IH; eauto.
Qed.

(* after an ASCII byte comes no continuation byte *)
Lemma ascii_then_stop : forall l pa i,
  cont_ok pa l = true -> i < length l -> (nth i l 0 < 128)%N -> stop_ok l (S i).
Proof.
  induction l as [|b r IH]; intros pa i H Hi Ha; [simpl in Hi; lia|].
  simpl in H. apply andb_true_iff in H as [_ H].
  destruct i as [|i].
  - simpl in Ha. destruct r as [|c r']; [left; reflexivity|].
    right. split; [simpl; lia|]. simpl in H. apply andb_true_iff in H as [H _].
    apply N.ltb_lt in Ha. rewrite Ha in H. simpl in H. simpl.
    destruct (is_cont c); [discriminate|reflexivity].
  - simpl in Hi, Ha. destruct (IH _ i H ltac:(lia) Ha) as [E|[L C]].
    + left. simpl. lia.
    + right. split; [simpl; lia|]. exact C.
Qed.

(* a span of a predicate that lets continuation bytes through stops at a boundary *)
Lemma span_accepting_stop : forall p r,
  (forall c, is_cont c = true -> p c = true) -> stop_ok r (span p r).
Proof.
  intros p r Hp. destruct (span_stop p r) as [E|E]; [left; exact E|].
  pose proof (span_le p r) as L.
  destruct (Nat.eq_dec (span p r) (length r)) as [Q|Q]; [left; exact Q|].
  right. split; [lia|].
  destruct (is_cont (nth (span p r) r 0%N)) eqn:C; [|reflexivity].
  apply Hp in C. congruence.
Qed.

Lemma stop_ok_cons : forall b r n, stop_ok r n -> stop_ok (b :: r) (S n).
Proof.
  intros b r n [E|[L C]]; [left; simpl; lia|right; split; [simpl; lia|exact C]].
Qed.

(* a span of ASCII-only bytes after an ASCII byte stops at a boundary *)
Lemma span_ascii_stop : forall p pa b r,
  (forall c, p c = true -> (c < 128)%N) -> (b < 128)%N ->
  cont_ok pa (b :: r) = true -> stop_ok (b :: r) (S (span p r)).
Proof.
  intros p pa b r Hp Hb H.
  pose proof (span_le p r) as L.
  destruct (span p r) as [|m] eqn:E.
  - apply (ascii_then_stop (b :: r) pa 0); [exact H|simpl; lia|simpl; exact Hb].
  - apply (ascii_then_stop (b :: r) pa (S m)); [exact H|simpl; lia|].
    simpl. apply Hp. apply span_all. lia.
Qed.

Lemma in_range_lt : forall lo hi b, in_range lo hi b = true -> (b <= hi)%N.
Proof. intros lo hi b H. apply andb_true_iff in H as [_ H]. apply N.leb_le in H. exact H. Qed.

Lemma is_ws_ascii : forall c, is_ws c = true -> (c < 128)%N.
Proof.
  intros c H. unfold is_ws in H. apply orb_true_iff in H as [H|H].
  - apply nbeq_eq in H. subst; lia.
  - apply in_range_lt in H. lia.
Qed.
Lemma is_digit_ascii : forall c, is_digit c = true -> (c < 128)%N.
Proof. intros c H. apply in_range_lt in H. lia. Qed.
Lemma is_octal_ascii : forall c, is_octal c = true -> (c < 128)%N.
Proof. intros c H. apply in_range_lt in H. lia. Qed.
Lemma is_hex_ascii : forall c, is_hex c = true -> (c < 128)%N.
Proof.
  intros c H. unfold is_hex in H.
  repeat (apply orb_true_iff in H as [H|H]); apply in_range_lt in H; lia.
Qed.
Lemma is_x_ascii : forall c, is_x c = true -> (c < 128)%N.
Proof. intros c H. unfold is_x in H. apply orb_true_iff in H as [H|H]; apply nbeq_eq in H; subst; lia. Qed.

Lemma is_cont_range : forall c, is_cont c = true -> (128 <= c <= 191)%N.
Proof.
  intros c H. unfold is_cont, in_range in H. apply andb_true_iff in H as [A B].
  apply N.leb_le in A. apply N.leb_le in B. lia.
Qed.

Ltac cont_false c H :=
  let R := fresh "R" in
  pose proof (is_cont_range c H) as R;
  unfold is_ws, is_special, in_range; unfold nbeq, nble;
  repeat match goal with
         | |- context [N.eqb c ?k] =>
             let Q := fresh "Q" in destruct (N.eqb_spec c k) as [Q|Q]; [exfalso; lia|]
         | |- context [N.leb ?a c] =>
             let Q := fresh "Q" in destruct (N.leb_spec a c) as [Q|Q]; [|exfalso; lia]
         | |- context [N.leb c ?a] =>
             let Q := fresh "Q" in destruct (N.leb_spec c a) as [Q|Q]; [exfalso; lia|]
         end; simpl; try reflexivity.

Lemma ident_cont_accepts : forall c, is_cont c = true -> ident_cont c = true.
Proof. intros c H. unfold ident_cont. cont_false c H. Qed.
Lemma comment_cont_accepts : forall c, is_cont c = true -> comment_cont c = true.
Proof. intros c H. unfold comment_cont. cont_false c H. Qed.
Lemma string_cont_accepts : forall c, is_cont c = true -> string_cont c = true.
Proof. intros c H. unfold string_cont. cont_false c H. Qed.
Lemma path_cont_accepts : forall c, is_cont c = true -> path_cont c = true.
Proof. intros c H. unfold path_cont. cont_false c H. Qed.

(* the last byte of a nonempty ASCII-only prefix is ASCII, so what follows is a boundary *)
Lemma stop_after_index : forall l pa i,
  cont_ok pa l = true -> i < length l -> (nth i l 0 < 128)%N -> stop_ok l (S i).
Proof. exact ascii_then_stop. Qed.

Lemma lex_decimal_stop : forall pa b r,
  (b < 128)%N -> cont_ok pa (b :: r) = true -> stop_ok (b :: r) (S (snd (lex_decimal r))).
Proof.
  intros pa b r Hb H. unfold lex_decimal.
  destruct (nbeq (nthb (span is_digit r) r) 46) eqn:E; cbn [snd].
  - apply nbeq_eq in E.
    assert (L : span is_digit r < length r) by (apply nthb_nonzero_lt; rewrite E; discriminate).
    remember (span is_digit r) as d eqn:Hd.
    pose proof (span_le is_digit (skipn (S d) r)) as L2. rewrite skipn_length in L2.
    remember (span is_digit (skipn (S d) r)) as m eqn:Hm.
    destruct m as [|m'].
    + replace (S (d + 1 + 0)) with (S (S d)) by lia.
      apply (ascii_then_stop (b :: r) pa (S d)); [exact H|cbn [length]; lia|].
      cbn [nth]. unfold nthb in E. rewrite E. lia.
    + replace (S (d + 1 + S m')) with (S (S (S d + m'))) by lia.
      apply (ascii_then_stop (b :: r) pa (S (S d + m'))); [exact H|cbn [length]; lia|].
      cbn [nth].
      assert (Q : nth (S d + m') r 0%N = nth m' (skipn (S d) r) 0%N).
      { rewrite nth_skipn_add. reflexivity. }
      rewrite Q. apply is_digit_ascii. apply span_all. rewrite <- Hm. lia.
  - eapply span_ascii_stop; eauto. exact is_digit_ascii.
Qed.

Lemma lex_number_stop : forall lz pa b r,
  (b < 128)%N -> cont_ok pa (b :: r) = true -> stop_ok (b :: r) (S (snd (lex_number lz r))).
Proof.
  intros lz pa b r Hb H. unfold lex_number.
  destruct (lz && negb (nbeq (nthb 0 r) 46)); [|eapply lex_decimal_stop; eauto].
  destruct (is_x (nthb 0 r)) eqn:X.
  - assert (L : 0 < length r).
    { apply nthb_nonzero_lt. intro Z. rewrite Z in X. discriminate. }
    destruct r as [|x r']; [simpl in L; lia|]. unfold nthb in X. simpl in X.
    assert (Hx : (x < 128)%N) by (apply is_x_ascii; exact X).
    assert (H' : cont_ok false (x :: r') = true).
    { simpl in H. apply andb_true_iff in H as [_ H]. eapply cont_ok_weaken; eauto. }
    destruct (is_hex (nthb 1 (x :: r'))); simpl.
    + apply stop_ok_cons. eapply span_ascii_stop; eauto. exact is_hex_ascii.
    + apply stop_ok_cons. apply (ascii_then_stop (x :: r') false 0); [exact H'|simpl; lia|exact Hx].
  - destruct (is_digit (nthb 0 r)); simpl.
    + eapply span_ascii_stop; eauto. exact is_octal_ascii.
    + apply (ascii_then_stop (b :: r) pa 0); [exact H|simpl; lia|exact Hb].
Qed.

Lemma lex_hyphen_stop : forall pa b r,
  (b < 128)%N -> cont_ok pa (b :: r) = true -> stop_ok (b :: r) (S (snd (lex_hyphen r))).
Proof.
  intros pa b r Hb H. unfold lex_hyphen.
  destruct (nbeq (nthb 0 r) 48 && (is_digit (nthb 1 r) || is_x (nthb 1 r))); simpl.
  - apply (ascii_then_stop (b :: r) pa 0); [exact H|simpl; lia|exact Hb].
  - destruct (is_digit (nthb 0 r)).
    + eapply lex_decimal_stop; eauto.
    + simpl. apply (ascii_then_stop (b :: r) pa 0); [exact H|simpl; lia|exact Hb].
Qed.

Lemma lex_string_stop : forall pa b r,
  cont_ok pa (b :: r) = true -> stop_ok (b :: r) (S (snd (lex_string r))).
Proof.
  intros pa b r H. unfold lex_string.
  destruct (nbeq (nthb (span string_cont r) r) 34) eqn:E; simpl.
  - apply nbeq_eq in E.
    assert (L : span string_cont r < length r) by (apply nthb_nonzero_lt; rewrite E; discriminate).
    apply (ascii_then_stop (b :: r) pa (S (span string_cont r))); [exact H|simpl; lia|].
    simpl. unfold nthb in E. rewrite E. lia.
  - apply stop_ok_cons. apply span_accepting_stop. exact string_cont_accepts.
Qed.

Lemma one_byte_stop : forall pa b r,
  (b < 128)%N -> cont_ok pa (b :: r) = true -> stop_ok (b :: r) 1.
Proof. intros. apply (ascii_then_stop (b :: r) pa 0); [assumption|simpl; lia|assumption]. Qed.

Lemma lex_first_stop : forall st pa b r,
  cont_ok pa (b :: r) = true -> stop_ok (b :: r) (S (snd (lex_first st b r))).
Proof.
  intros st pa b r H. unfold lex_first.
  repeat match goal with
         | |- context [if nbeq b ?k then _ else _] =>
             let E := fresh "E" in
             destruct (nbeq b k) eqn:E;
             [apply nbeq_eq in E;
              first [ subst b; simpl; eapply one_byte_stop; [lia|eassumption]
                    | idtac ] |]
         end.
  all: try (subst b).
  (* remaining: the branches that are not a single symbol *)
  all: try solve [simpl; eapply one_byte_stop; [lia|eassumption]].
  all: repeat match goal with
         | |- context [if ?c then _ else _] =>
             let E := fresh "E" in destruct c eqn:E
         end.
  all: simpl.
  all: try solve [ eapply one_byte_stop; [lia|eassumption] ].
  all: try solve [ apply stop_ok_cons; apply span_accepting_stop;
                   first [exact path_cont_accepts | exact comment_cont_accepts
                         | exact ident_cont_accepts | exact string_cont_accepts] ].
  all: try solve [ eapply lex_string_stop; eassumption ].
  all: try solve [ eapply span_ascii_stop; try eassumption;
                   first [exact is_ws_ascii | exact is_digit_ascii | idtac];
                   first [ apply is_ws_ascii; assumption
                         | apply is_digit_ascii; assumption
                         | (apply andb_true_iff in E5 as [E5 _]; apply is_digit_ascii; exact E5)
                         | lia ] ].
  all: try solve [ eapply lex_number_stop; try eassumption; try lia;
                   first [apply is_digit_ascii; assumption | lia] ].
  all: try solve [ eapply lex_hyphen_stop; try eassumption; lia ].
  all: try solve [ unfold lex_ident; simpl; apply stop_ok_cons; apply span_accepting_stop;
                   exact ident_cont_accepts ].
  all: try match goal with
    | E : is_digit ?b && _ = true |- stop_ok (_ :: _) (S (span is_digit _)) =>
        apply andb_true_iff in E as [E _];
        eapply span_ascii_stop; [exact is_digit_ascii | apply is_digit_ascii; exact E | eassumption]
    end.
  all: try match goal with
    | E : (nbeq ?b 110 || nbeq ?b 117 || nbeq ?b 100) && _ = true |- stop_ok _ 1 =>
        apply andb_true_iff in E as [E _]; eapply one_byte_stop; [|eassumption];
        repeat (apply orb_true_iff in E as [E|E]); apply nbeq_eq in E; subst; lia
    end.
Qed.

(* ---- all lexeme ends are character boundaries -------------------------- *)

Fixpoint ends (pos : nat) (ls : list lexeme) : list nat :=
  match ls with
  | [] => []
  | l :: t => (pos + ll l) :: ends (pos + ll l) t
  end.

Lemma stop_ok_boundary : forall pre rest n,
  n <= length rest -> stop_ok rest n -> is_boundary (pre ++ rest) (length pre + n) = true.
Proof.
  intros pre rest n Hn [E|[L C]]; unfold is_boundary; rewrite app_length.
  - subst n. rewrite Nat.eqb_refl. rewrite orb_true_r. reflexivity.
  - assert (Q : nthb (length pre + n) (pre ++ rest) = nth n rest 0%N).
    { unfold nthb. rewrite app_nth2 by lia. f_equal. lia. }
    rewrite Q, C.
    assert (T : (length pre + n <? length pre + length rest) = true) by (apply Nat.ltb_lt; lia).
    rewrite T. simpl. rewrite orb_true_r. reflexivity.
Qed.

Lemma lex_all_bounds : forall fuel st pre rest ls pa,
  cont_ok pa rest = true ->
  lex_all fuel st rest = Some ls ->
  Forall (fun p => is_boundary (pre ++ rest) p = true) (ends (length pre) ls).
Proof.
  induction fuel as [|f IH]; intros st pre rest ls pa Hc H.
  - destruct rest; simpl in H; [inversion H; constructor|discriminate].
  - destruct rest as [|b r]; [simpl in H; inversion H; constructor|].
    cbn [lex_all] in H.
    pose proof (next_token_len st b r) as Hl.
    destruct (next_token st (b :: r)) as [l st'] eqn:E. cbn [fst] in Hl.
    destruct (lex_all f st' (skipn (ll l) (b :: r))) as [t|] eqn:Et; [|discriminate].
    inversion H; subst; clear H. cbn [ends].
    assert (S1 : stop_ok (b :: r) (ll l)).
    { unfold next_token in E. pose proof (lex_first_stop st pa b r Hc) as Q.
      destruct (lex_first st b r) as [k e]. inversion E; subst. exact Q. }
    constructor.
    + apply stop_ok_boundary; [lia|exact S1].
    + pose proof (IH st' (pre ++ firstn (ll l) (b :: r)) (skipn (ll l) (b :: r)) t false
                    (cont_ok_skipn _ _ _ Hc) Et) as Q.
      rewrite <- app_assoc, firstn_skipn in Q.
      rewrite app_length, firstn_length_le in Q by lia. exact Q.
Qed.

Lemma utf8_wf_cont_ok : forall n t, length t <= n -> utf8_wf t = true -> cont_ok true t = true.
Proof.
  assert (G : forall n t pa, length t <= n -> utf8_wf t = true ->
              (pa = true -> match t with c :: _ => is_cont c = false | [] => True end) ->
              cont_ok pa t = true).
  { induction n as [|n IH]; intros t pa Hn Hw Hp.
    - destruct t; [reflexivity|simpl in Hn; lia].
    - destruct t as [|b r]; [reflexivity|].
      cbn [utf8_wf] in Hw. cbn [cont_ok].
      assert (Hb : negb (pa && is_cont b) = true).
      { destruct pa; [rewrite (Hp eq_refl); reflexivity|reflexivity]. }
      rewrite Hb. cbn [andb].
      destruct (N.ltb b 128) eqn:A.
      + apply IH; [simpl in Hn; lia|exact Hw|].
        intros _. destruct r as [|c r']; [exact I|].
        (* c starts a character: it is not a continuation byte *)
        cbn [utf8_wf] in Hw.
        destruct (is_cont c) eqn:C; [|reflexivity]. exfalso.
        apply is_cont_range in C.
        destruct (N.ltb_spec c 128); [lia|].
        unfold in_range, nble in Hw.
        repeat match type of Hw with
               | context [N.leb ?a c] => destruct (N.leb_spec a c); [|try lia]
               | context [N.leb c ?a] => destruct (N.leb_spec c a); [try lia|]
               end; simpl in Hw; try discriminate; lia.
      + (* a multi-byte character: skip to its end; no ASCII byte inside *)
        assert (K : forall l, cont_ok false l = true -> cont_ok false l = true) by auto.
        destruct (in_range 194 223 b).
        { destruct r as [|c1 r1]; [discriminate|]. apply andb_true_iff in Hw as [C1 Hw].
          cbn [cont_ok]. simpl. apply is_cont_range in C1.
          assert (Q : N.ltb c1 128 = false) by (apply N.ltb_ge; lia). rewrite Q.
          apply IH; [simpl in Hn; lia|exact Hw|discriminate]. }
        destruct (in_range 224 239 b).
        { destruct r as [|c1 [|c2 r2]]; try discriminate.
          apply andb_true_iff in Hw as [Hw W]. apply andb_true_iff in Hw as [C1 C2].
          cbn [cont_ok]. simpl. apply is_cont_range in C1. apply is_cont_range in C2.
          assert (Q1 : N.ltb c1 128 = false) by (apply N.ltb_ge; lia).
          assert (Q2 : N.ltb c2 128 = false) by (apply N.ltb_ge; lia). rewrite Q1, Q2.
          apply IH; [simpl in Hn; lia|exact W|discriminate]. }
        destruct (in_range 240 244 b); [|discriminate].
        { destruct r as [|c1 [|c2 [|c3 r3]]]; try discriminate.
          apply andb_true_iff in Hw as [Hw W]. apply andb_true_iff in Hw as [Hw C3].
          apply andb_true_iff in Hw as [C1 C2].
          cbn [cont_ok]. simpl. apply is_cont_range in C1. apply is_cont_range in C2.
          apply is_cont_range in C3.
          assert (Q1 : N.ltb c1 128 = false) by (apply N.ltb_ge; lia).
          assert (Q2 : N.ltb c2 128 = false) by (apply N.ltb_ge; lia).
          assert (Q3 : N.ltb c3 128 = false) by (apply N.ltb_ge; lia). rewrite Q1, Q2, Q3.
          apply IH; [simpl in Hn; lia|exact W|discriminate]. } }
  intros n t Hn Hw. apply (G n t true Hn Hw). intros _.
  destruct t as [|c r]; [exact I|].
  cbn [utf8_wf] in Hw.
  destruct (is_cont c) eqn:C; [|reflexivity]. exfalso.
  apply is_cont_range in C.
  destruct (N.ltb_spec c 128); [lia|].
  unfold in_range, nble in Hw.
  repeat match type of Hw with
         | context [N.leb ?a c] => destruct (N.leb_spec a c); [|try lia]
         | context [N.leb c ?a] => destruct (N.leb_spec c a); [try lia|]
         end; simpl in Hw; try discriminate; lia.
Qed.

Lemma utf8_wf_ok : forall t, utf8_wf t = true -> utf8_ok t = true.
Proof. intros t H. unfold utf8_ok. eapply utf8_wf_cont_ok; eauto. Qed.

(* ---- the character at a boundary (Parser::char_range_at) ------------------------ *)

Lemma in_range_bounds : forall lo hi b, in_range lo hi b = true -> (lo <= b <= hi)%N.
Proof.
  intros lo hi b H. unfold in_range, nble in H. apply andb_true_iff in H as [A B].
  apply N.leb_le in A. apply N.leb_le in B. lia.
Qed.

Lemma utf8_wf_head : forall t,
  utf8_wf t = true -> match t with c :: _ => is_cont c = false | [] => True end.
Proof.
  intros [|c r] H; [exact I|]. cbn [utf8_wf] in H.
  destruct (is_cont c) eqn:C; [|reflexivity]. exfalso. apply is_cont_range in C.
  destruct (N.ltb_spec c 128); [lia|].
  destruct (in_range 194 223 c) eqn:R1; [apply in_range_bounds in R1; lia|].
  destruct (in_range 224 239 c) eqn:R2; [apply in_range_bounds in R2; lia|].
  destruct (in_range 240 244 c) eqn:R3; [apply in_range_bounds in R3; lia|discriminate].
Qed.

Definition char_stop (t : list N) (p : nat) : Prop :=
  let e := p + char_len (nth p t 0%N) in
  e <= length t /\ (e = length t \/ is_cont (nth e t 0%N) = false).

Lemma head_stop : forall (r : list N), utf8_wf r = true ->
  0 = length r \/ is_cont (nth 0 r 0%N) = false.
Proof. intros [|c r] H; [left; reflexivity|right; apply (utf8_wf_head _ H)]. Qed.

Lemma char_stop_shift : forall pre t p, char_stop t p -> nth (length pre + p) (pre ++ t) 0%N = nth p t 0%N ->
  char_stop (pre ++ t) (length pre + p).
Proof.
  intros pre t p [L C] E. unfold char_stop. rewrite E. rewrite app_length. cbv zeta. split; [lia|].
  destruct C as [C|C]; [left; lia|right].
  replace (length pre + p + char_len (nth p t 0%N)) with (length pre + (p + char_len (nth p t 0%N))) by lia.
  rewrite app_nth2 by lia. replace (length pre + (p + char_len (nth p t 0%N)) - length pre) with (p + char_len (nth p t 0%N)) by lia.
  exact C.
Qed.

(* in well-formed UTF-8 a byte that is not a continuation byte starts a character
   that ends inside the text, on a boundary *)
Lemma char_end_ok : forall n t p,
  length t <= n -> utf8_wf t = true -> p < length t -> is_cont (nth p t 0%N) = false -> char_stop t p.
Proof.
  induction n as [|n IH]; intros t p Ln W Lp C; [destruct t; simpl in *; lia|].
  destruct t as [|b r]; [simpl in Lp; lia|]. cbn [utf8_wf] in W.
  assert (Sh : forall pre t' p', b :: r = pre ++ t' -> p = length pre + p' -> length t' <= n ->
               utf8_wf t' = true -> p' < length t' -> char_stop (b :: r) p).
  { intros pre t' p' E Ep Ln' W' Lp'. rewrite E, Ep.
    assert (Q : nth (length pre + p') (pre ++ t') 0%N = nth p' t' 0%N).
    { rewrite app_nth2 by lia. f_equal. lia. }
    apply char_stop_shift; [|exact Q]. apply (IH t' p' Ln' W' Lp').
    rewrite <- Q, <- E, <- Ep. exact C. }
  destruct (N.ltb b 128) eqn:A.
  - destruct p as [|p'].
    + unfold char_stop. cbn [nth]. unfold char_len. rewrite A. cbn [Nat.add length].
      split; [lia|]. destruct (head_stop r W) as [Q|Q]; [left; lia|right; exact Q].
    + apply (Sh [b] r p'); try reflexivity; cbn [length] in *; try lia. exact W.
  - apply N.ltb_ge in A.
    destruct (in_range 194 223 b) eqn:R1.
    { apply in_range_bounds in R1. destruct r as [|c1 r1]; [discriminate|].
      apply andb_true_iff in W as [C1 W].
      assert (CL : char_len b = 2).
      { unfold char_len. destruct (N.ltb_spec b 128); [lia|]. destruct (N.ltb_spec b 224); [reflexivity|lia]. }
      destruct p as [|[|p']].
      - unfold char_stop. cbn [nth]. rewrite CL. cbn [Nat.add length nth]. split; [lia|].
        destruct (head_stop r1 W) as [Q|Q]; [left; lia|right; exact Q].
      - cbn [nth] in C. congruence.
      - apply (Sh [b; c1] r1 p'); try reflexivity; cbn [length] in *; try lia. exact W. }
    destruct (in_range 224 239 b) eqn:R2.
    { apply in_range_bounds in R2. destruct r as [|c1 [|c2 r2]]; try discriminate.
      apply andb_true_iff in W as [W W2]. apply andb_true_iff in W as [C1 C2].
      assert (CL : char_len b = 3).
      { unfold char_len. destruct (N.ltb_spec b 128); [lia|]. destruct (N.ltb_spec b 224); [lia|].
        destruct (N.ltb_spec b 240); [reflexivity|lia]. }
      destruct p as [|[|[|p']]].
      - unfold char_stop. cbn [nth]. rewrite CL. cbn [Nat.add length nth]. split; [lia|].
        destruct (head_stop r2 W2) as [Q|Q]; [left; lia|right; exact Q].
      - cbn [nth] in C. congruence.
      - cbn [nth] in C. congruence.
      - apply (Sh [b; c1; c2] r2 p'); try reflexivity; cbn [length] in *; try lia. exact W2. }
    destruct (in_range 240 244 b) eqn:R3; [|discriminate].
    { apply in_range_bounds in R3. destruct r as [|c1 [|c2 [|c3 r3]]]; try discriminate.
      apply andb_true_iff in W as [W W3]. apply andb_true_iff in W as [W C3].
      apply andb_true_iff in W as [C1 C2].
      assert (CL : char_len b = 4).
      { unfold char_len. destruct (N.ltb_spec b 128); [lia|]. destruct (N.ltb_spec b 224); [lia|].
        destruct (N.ltb_spec b 240); [lia|reflexivity]. }
      destruct p as [|[|[|[|p']]]].
      - unfold char_stop. cbn [nth]. rewrite CL. cbn [Nat.add length nth]. split; [lia|].
        destruct (head_stop r3 W3) as [Q|Q]; [left; lia|right; exact Q].
      - cbn [nth] in C. congruence.
      - cbn [nth] in C. congruence.
      - cbn [nth] in C. congruence.
      - apply (Sh [b; c1; c2; c3] r3 p'); try reflexivity; cbn [length] in *; try lia. exact W3. }
Qed.

(* Parser::char_range_at on well-formed UTF-8, at a character boundary inside or at
   the end of the text: the range ends inside the text on a character boundary *)
Lemma char_end_boundary : forall text p,
  utf8_wf text = true -> is_boundary text p = true -> p <= length text ->
  p <= char_end text p /\ char_end text p <= length text /\ is_boundary text (char_end text p) = true.
Proof.
  intros text p W B L. unfold char_end.
  destruct (nth_error text p) as [b|] eqn:E.
  - assert (Lp : p < length text) by (apply nth_error_Some; congruence).
    assert (Nb : nth p text 0%N = b) by (apply nth_error_nth; exact E).
    assert (C : is_cont (nth p text 0%N) = false).
    { unfold is_boundary in B. apply orb_true_iff in B as [B|B]; [apply orb_true_iff in B as [B|B]|].
      - apply Nat.eqb_eq in B. subst p. destruct text as [|c r]; [simpl in Lp; lia|]. apply (utf8_wf_head _ W).
      - apply Nat.eqb_eq in B. lia.
      - apply andb_true_iff in B as [_ B]. apply negb_true_iff in B. exact B. }
    destruct (char_end_ok (length text) text p (le_n _) W Lp C) as [L1 L2]. rewrite Nb in *.
    split; [lia|]. split; [exact L1|]. unfold is_boundary.
    destruct (Nat.eq_dec (p + char_len b) (length text)) as [Q|Q].
    + rewrite Q, Nat.eqb_refl, orb_true_r. reflexivity.
    + destruct L2 as [L2|L2]; [lia|].
      assert (T : (p + char_len b <? length text) = true) by (apply Nat.ltb_lt; lia).
      unfold nthb. rewrite T, L2. cbn. rewrite orb_true_r. reflexivity.
  - split; [lia|]. split; [exact L|exact B].
Qed.
