(* C13 — parser-primitive lemmas: for any sequence of primitive calls the sink
   holds text[0 .. text_pos], text_pos plus what is buffered is the lexer
   position, and a driver that stops at at_eof has consumed the input up to the
   first Eof lexeme. *)
From Coq Require Import List NArith Bool Arith Lia.
From FV.C13 Require Import Keywords Model ProofsSink.
Import ListNotations.
Open Scope nat_scope.

(* what the invariants see of a lexeme: its length and whether it is Eof *)
Definition sig (l : lexeme) : nat * bool := (ll l, nbeq (lk l) K_Eof).

Lemma total_len_app : forall a b, total_len (a ++ b) = total_len a + total_len b.
Proof. induction a as [|x r IH]; intro b; simpl; [reflexivity|rewrite IH; lia]. Qed.

Lemma total_len_sig : forall a b, map sig a = map sig b -> total_len a = total_len b.
Proof.
  induction a as [|x r IH]; intros [|y s] H; simpl in *; try discriminate; [reflexivity|].
  inversion H. f_equal; auto.
Qed.

Lemma total_len_repeat_eof : forall k, total_len (repeat EOF0 k) = 0.
Proof. induction k; simpl; auto. Qed.

Definition pend_of (p : pending) : list lexeme := p_triv p ++ [p_tok p].
Definition pend (st : pstate) : list lexeme :=
  pend_of (b0 st) ++ pend_of (b1 st) ++ pend_of (b2 st) ++ pend_of (b3 st) ++ lx st.

(* ---- pull ---------------------------------------------------------------- *)

Lemma pull_spec : forall l acc n tr m tk rest,
  pull l acc n = (tr, m, tk, rest) ->
  exists t, tr = rev acc ++ t /\ m = n + total_len t
            /\ ((l = t ++ tk :: rest) \/ (l = t /\ tk = EOF0 /\ rest = [])).
Proof.
  induction l as [|x r IH]; intros acc n tr m tk rest H; cbn [pull] in H.
  - inversion H; subst. exists []. rewrite app_nil_r. simpl. repeat split; auto.
  - destruct (is_trivia (lk x)).
    + apply IH in H as (t & E1 & E2 & E3). exists (x :: t). cbn [rev] in E1.
      rewrite <- app_assoc in E1. split; [exact E1|]. split; [simpl; lia|].
      destruct E3 as [E3|(E3 & E4 & E5)]; [left; subst; reflexivity|right; subst; auto].
    + inversion H; subst. exists []. rewrite app_nil_r. simpl. repeat split; auto.
Qed.

Lemma repeat_snoc : forall (A : Type) (x : A) k, repeat x k ++ [x] = x :: repeat x k.
Proof. induction k; simpl; [reflexivity|rewrite IHk; reflexivity]. Qed.

Lemma pull_pad : forall l tr m tk rest k,
  pull l [] 0 = (tr, m, tk, rest) ->
  m = total_len tr /\
  exists k', tr ++ [tk] ++ rest ++ repeat EOF0 k = l ++ repeat EOF0 k'.
Proof.
  intros l tr m tk rest k H. apply pull_spec in H as (t & E1 & E2 & E3).
  simpl in E1, E2. subst tr m. split; [reflexivity|].
  destruct E3 as [E|(E & E' & E'')].
  - exists k. subst l. rewrite <- !app_assoc. reflexivity.
  - exists (S k). subst. simpl. reflexivity.
Qed.

(* ---- the buffer invariant -------------------------------------------------- *)

Section Parser.
  Variable gm : option (list byte -> bool).
  Variable text : list byte.
  Hypothesis gm_ok : gm_lossless gm.

  (* d: bytes of tokens already shifted out of the buffer but not yet given to
     the sink (inside do_bump); a: bytes given to the sink ahead of the buffer
     (inside split_remap_current).  Between primitive calls both are 0. *)
  (* ls: what the lexer produces; c: the lexemes consumed so far (with the kinds
     validate_new_token gave them) *)
  Record BufInv (ls c : list lexeme) (d a : nat) (st : pstate) : Prop := {
    bi_stream : exists k, map sig (c ++ pend st) = map sig (ls ++ repeat EOF0 k);
    bi_pos : s_pos (sk st) + d = total_len c + a;
    bi_start : p_start (b0 st) + a = s_pos (sk st) + d;
    bi_c1 : p_start (b1 st) = tok_end (b0 st);
    bi_c2 : p_start (b2 st) = tok_end (b1 st);
    bi_c3 : p_start (b3 st) = tok_end (b2 st);
    bi_t0 : p_tlen (b0 st) = total_len (p_triv (b0 st));
    bi_t1 : p_tlen (b1 st) = total_len (p_triv (b1 st));
    bi_t2 : p_tlen (b2 st) = total_len (p_triv (b2 st));
    bi_t3 : p_tlen (b3 st) = total_len (p_triv (b3 st))
  }.

  Definition Good (ls : list lexeme) (st : pstate) : Prop :=
    (exists c, BufInv ls c 0 0 st) /\ SinkInv text (sk st).

  (* only text_pos of the sink matters to the buffer invariant *)
  Lemma bufinv_sink : forall ls c d a d' st s',
    BufInv ls c d a st -> s_pos s' + d' = s_pos (sk st) + d -> BufInv ls c d' a (with_sink st s').
  Proof.
    intros ls c d a d' st s' [(k & S1) S2 B C1 C2 C3 T0 T1 T2 T3] E.
    constructor; cbn [with_sink sk b0 b1 b2 b3 lx]; try assumption.
    - exists k. exact S1.
    - lia.
    - lia.
  Qed.

  Lemma bufinv_shift : forall ls c d a x st, BufInv ls c (d + x) (a + x) st -> BufInv ls c d a st.
  Proof.
    intros ls c d a x st [(k & S1) S2 B C1 C2 C3 T0 T1 T2 T3].
    constructor; try assumption; [exists k; exact S1 | lia | lia].
  Qed.

  Lemma emit_trivia_spec : forall tr s s',
    SinkInv text s -> emit_trivia gm text tr s = Some s' ->
    SinkInv text s' /\ s_pos s' = s_pos s + total_len tr.
  Proof.
    induction tr as [|l t IH]; intros s s' I H; cbn [emit_trivia] in H.
    - inversion H; subst. split; [exact I|simpl; lia].
    - destruct (to_token_kind (lk l)) as [k|]; [|discriminate].
      destruct (sink_token gm text k (ll l) s) as [s1|] eqn:E; [|discriminate].
      destruct (sink_token_inv gm text gm_ok _ _ _ _ I E) as (I1 & P1 & _).
      destruct (IH _ _ I1 H) as [I2 P2]. split; [exact I2|]. cbn [total_len]. lia.
  Qed.

  Lemma eat_trivia_inv : forall ls c d a st st',
    BufInv ls c d a st -> SinkInv text (sk st) -> eat_trivia gm text st = Some st' ->
    BufInv ls (c ++ p_triv (b0 st)) d a st' /\ SinkInv text (sk st')
    /\ p_triv (b0 st') = [] /\ p_tok (b0 st') = p_tok (b0 st)
    /\ b1 st' = b1 st /\ b2 st' = b2 st /\ b3 st' = b3 st /\ lx st' = lx st.
  Proof.
    intros ls c d a st st' [(k & S1) S2 B C1 C2 C3 T0 T1 T2 T3] I H. unfold eat_trivia in H.
    destruct (emit_trivia gm text (p_triv (b0 st)) (sk st)) as [s|] eqn:E; [|discriminate].
    destruct (emit_trivia_spec _ _ _ I E) as [I' P'].
    injection H as Hs; subst st'. cbn [sk b0 b1 b2 b3 lx p_triv p_tok].
    split; [|split; [exact I'|repeat split; reflexivity]].
    constructor; cbn [sk b0 b1 b2 b3 lx p_triv p_tok p_start p_tlen tok_end]; try assumption.
    - exists k. rewrite <- S1. f_equal. unfold pend, pend_of. cbn [b0 b1 b2 b3 lx p_triv p_tok].
      rewrite <- !app_assoc. reflexivity.
    - rewrite total_len_app. lia.
    - lia.
    - unfold tok_end in *. cbn [p_start p_tlen p_tok]. lia.
    - reflexivity.
  Qed.

  (* validate_new_token changes neither lengths nor Eof-ness *)
  Lemma validate_new_props : forall st,
    let st' := validate_new st in
    lx st' = lx st /\ b0 st' = b0 st /\ b1 st' = b1 st /\ b2 st' = b2 st
    /\ p_triv (b3 st') = p_triv (b3 st) /\ p_start (b3 st') = p_start (b3 st)
    /\ p_tlen (b3 st') = p_tlen (b3 st) /\ sig (p_tok (b3 st')) = sig (p_tok (b3 st))
    /\ s_pos (sk st') = s_pos (sk st) /\ s_children (sk st') = s_children (sk st)
    /\ s_parents (sk st') = s_parents (sk st).
  Proof.
    intro st. unfold validate_new.
    destruct (nbeq (lk (p_tok (b3 st))) K_StringUnterminated) eqn:E1.
    - cbn. repeat split; auto. unfold sig. cbn. apply N.eqb_eq in E1. rewrite E1. reflexivity.
    - destruct (nbeq (lk (p_tok (b3 st))) K_HexEmpty) eqn:E2.
      + cbn. repeat split; auto. unfold sig. cbn. apply N.eqb_eq in E2. rewrite E2. reflexivity.
      + cbn. repeat split; auto.
  Qed.

  Lemma validate_new_sinkinv : forall st, SinkInv text (sk st) -> SinkInv text (sk (validate_new st)).
  Proof.
    intros st I. unfold validate_new.
    destruct (nbeq (lk (p_tok (b3 st))) K_StringUnterminated); [apply sink_error_inv; exact I|].
    destruct (nbeq (lk (p_tok (b3 st))) K_HexEmpty); [apply sink_error_inv; exact I|exact I].
  Qed.

  Lemma map_sig_app : forall a b, map sig (a ++ b) = map sig a ++ map sig b.
  Proof. intros; apply map_app. Qed.

  Lemma advance_inv : forall ls c d a st st',
    BufInv ls c d a st -> SinkInv text (sk st) -> advance gm text st = Some st' ->
    BufInv ls (c ++ p_triv (b0 st) ++ [p_tok (b0 st)]) (d + ll (p_tok (b0 st))) a st'
    /\ SinkInv text (sk st')
    /\ b0 st' = b1 st /\ b1 st' = b2 st /\ b2 st' = b3 st.
  Proof.
    intros ls c0 d a st st' BI I H. unfold advance in H.
    destruct (eat_trivia gm text st) as [st1|] eqn:E; [|discriminate].
    destruct (eat_trivia_inv _ _ _ _ _ _ BI I E) as (BI1 & I1 & Tr & Tk & E1 & E2 & E3 & EL).
    set (c := c0 ++ p_triv (b0 st)) in *.
    destruct (pull (lx st1) [] 0) as [[[tr n] tk] rest] eqn:P.
    injection H as Hs.
    destruct (pull_pad _ _ _ _ _ 0 P) as [Hn _].
    set (mid := mkPS rest (b1 st1) (b2 st1) (b3 st1) (mkP tr (tok_end (b3 st1)) n tk) (sk st1)) in *.
    pose proof (validate_new_props mid) as V. cbv zeta in V.
    destruct V as (V1 & V2 & V3 & V4 & V5 & V6 & V7 & V8 & V9 & V10 & V11).
    subst st'.
    split; [|split; [apply (validate_new_sinkinv mid); subst mid; exact I1|]].
    2: { rewrite V2, V3, V4. subst mid. cbn [b0 b1 b2]. rewrite E1, E2, E3. auto. }
    rewrite app_assoc. fold c. rewrite <- Tk.
    destruct BI1 as [(k & S1) S2 B C1 C2 C3 T0 T1 T2 T3].
    assert (Hst : map sig (pend (validate_new mid)) = map sig (pend mid)).
    { unfold pend, pend_of. rewrite V1, V2, V3, V4, V5. rewrite !map_sig_app. cbn [map].
      rewrite V8. reflexivity. }
    constructor.
    - (* stream *)
      destruct (pull_spec _ _ _ _ _ _ _ P) as (t & Et & _ & Ecase). simpl in Et. subst tr.
      assert (Pm : pend st1 = p_tok (b0 st1) :: pend mid
                   \/ (pend st1 ++ [EOF0] = p_tok (b0 st1) :: pend mid)).
      { unfold pend, pend_of. subst mid. cbn [b0 b1 b2 b3 lx p_triv p_tok]. rewrite Tr. cbn [app].
        destruct Ecase as [Q|(Q & Q' & Q'')].
        - left. rewrite Q. rewrite <- !app_assoc. reflexivity.
        - right. rewrite Q, Q', Q''. rewrite <- !app_assoc. cbn [app]. rewrite ?app_nil_r. reflexivity. }
      destruct Pm as [Pm|Pm].
      + exists k.
        rewrite <- S1, Pm. rewrite !map_sig_app. cbn [map app]. rewrite Hst.
        rewrite <- app_assoc. reflexivity.
      + exists (S k).
        assert (R : ls ++ repeat EOF0 (S k) = (ls ++ repeat EOF0 k) ++ [EOF0]).
        { rewrite <- app_assoc. f_equal. cbn [repeat]. rewrite repeat_snoc. reflexivity. }
        rewrite R. rewrite (map_sig_app (ls ++ repeat EOF0 k)), <- S1, <- map_sig_app.
        rewrite <- (app_assoc c (pend st1)), Pm.
        rewrite !map_sig_app. cbn [map app]. rewrite Hst. rewrite <- app_assoc. reflexivity.
    - rewrite V9. rewrite total_len_app. cbn [total_len]. subst mid. cbn [sk]. lia.
    - rewrite V2, V9. subst mid. cbn [b0 sk]. rewrite C1. unfold tok_end. rewrite T0, Tr.
      cbn [total_len]. lia.
    - rewrite V3, V2. subst mid. cbn [b0 b1]. exact C2.
    - rewrite V4, V3. subst mid. cbn [b1 b2]. exact C3.
    - rewrite V6, V4. subst mid. cbn [b2 b3 p_start]. reflexivity.
    - rewrite V2. subst mid. cbn [b0]. exact T1.
    - rewrite V3. subst mid. cbn [b1]. exact T2.
    - rewrite V4. subst mid. cbn [b2]. exact T3.
    - rewrite V7, V5. subst mid. cbn [b3 p_tlen p_triv]. exact Hn.
  Qed.

  Lemma bump_n_inv : forall n ls c len d a st len' st',
    BufInv ls c d a st -> SinkInv text (sk st) -> bump_n gm text n len st = Some (len', st') ->
    exists c' e, len' = len + e /\ BufInv ls c' (d + e) a st' /\ SinkInv text (sk st').
  Proof.
    induction n as [|n IH]; intros ls c len d a st len' st' BI I H; cbn [bump_n] in H.
    - injection H as H1 H2; subst. exists c, 0. rewrite !Nat.add_0_r. auto.
    - destruct (advance gm text st) as [st1|] eqn:E; [|discriminate].
      destruct (advance_inv _ _ _ _ _ _ BI I E) as (BI1 & I1 & _).
      destruct (IH _ _ _ _ _ _ _ _ BI1 I1 H) as (c' & e & E1 & BI2 & I2).
      exists c', (ll (p_tok (b0 st)) + e). split; [lia|]. split; [|exact I2].
      replace (d + (ll (p_tok (b0 st)) + e)) with (d + ll (p_tok (b0 st)) + e) by lia. exact BI2.
  Qed.

  Lemma do_bump_inv : forall ls n k st st',
    Good ls st -> do_bump gm text n k st = Some st' -> Good ls st'.
  Proof.
    intros ls n k st st' [[c BI] I] H. unfold do_bump in H.
    destruct (bump_n gm text n 0 st) as [[len st1]|] eqn:E; [|discriminate].
    destruct (bump_n_inv _ _ _ _ _ _ _ _ _ BI I E) as (c' & e & E1 & BI1 & I1). simpl in E1. subst len.
    destruct (sink_token gm text k e (sk st1)) as [s|] eqn:T; [|discriminate].
    injection H as Hs; subst st'.
    destruct (sink_token_inv gm text gm_ok _ _ _ _ I1 T) as (I2 & P2 & _).
    split; [|exact I2]. exists c'. eapply bufinv_sink; [exact BI1|]. lia.
  Qed.

  Lemma emit_parts_spec : forall parts prev s e s',
    SinkInv text s -> emit_parts gm text parts prev s = Some (e, s') ->
    SinkInv text s' /\ prev <= e /\ s_pos s' = s_pos s + (e - prev).
  Proof.
    induction parts as [|[[x y] k] t IH]; intros prev s e s' I H; cbn [emit_parts] in H.
    - injection H as H1 H2; subst. split; [exact I|]. split; lia.
    - destruct (negb (x =? prev)) eqn:E1; [discriminate|].
      apply negb_false_iff, Nat.eqb_eq in E1. subst x.
      destruct (y <? prev) eqn:E2; [discriminate|]. apply Nat.ltb_ge in E2.
      destruct (sink_token gm text k (y - prev) s) as [s1|] eqn:T; [|discriminate].
      destruct (sink_token_inv gm text gm_ok _ _ _ _ I T) as (I1 & P1 & _).
      destruct (IH _ _ _ _ I1 H) as (I2 & L & P2). split; [exact I2|]. split; lia.
  Qed.

  Lemma split_remap_inv : forall ls parts st st',
    Good ls st -> split_remap gm text parts st = Some st' -> Good ls st'.
  Proof.
    intros ls parts st st' [[c BI] I] H. unfold split_remap in H.
    destruct parts as [|p ps]; [injection H as Hs; subst; split; [exists c|]; assumption|].
    destruct (eat_trivia gm text st) as [st1|] eqn:Et; [|discriminate].
    destruct (eat_trivia_inv _ _ _ _ _ _ BI I Et) as (BIt & It & _).
    destruct (emit_parts gm text (p :: ps) 0 (sk st1)) as [[e s]|] eqn:E; [|discriminate].
    destruct (negb (e =? ll (p_tok (b0 st1)))) eqn:Q; [discriminate|].
    apply negb_false_iff, Nat.eqb_eq in Q.
    destruct (emit_parts_spec _ _ _ _ _ It E) as (I1 & _ & P1).
    assert (BI1 : BufInv ls (c ++ p_triv (b0 st)) 0 e (with_sink st1 s)).
    { destruct BIt as [(k & S1) S2 B C1 C2 C3 T0 T1 T2 T3].
      constructor; cbn [with_sink sk b0 b1 b2 b3 lx]; try assumption.
      - exists k. exact S1.
      - lia.
      - lia. }
    destruct (advance_inv _ _ _ _ _ _ BI1 I1 H) as (BI2 & I2 & _). cbn [with_sink b0] in BI2.
    split; [|exact I2]. subst e. eexists. apply (bufinv_shift _ _ 0 0 (ll (p_tok (b0 st1)))). exact BI2.
  Qed.

  Lemma step_inv : forall ls st o st', Good ls st -> step gm text st o = Some st' -> Good ls st'.
  Proof.
    intros ls st o st' G H. destruct o; cbn [step] in H.
    - injection H as Hs; subst st'. destruct G as [[c BI] I]. split.
      + exists c. eapply bufinv_sink; [exact BI|reflexivity].
      + apply sink_start_inv. exact I.
    - destruct (sink_finish remap script newk (sk st)) as [s|] eqn:F; [|discriminate].
      injection H as Hs; subst st'. destruct G as [[c BI] I].
      destruct (sink_finish_inv text _ _ _ _ _ I F) as [I' P']. split; [|exact I'].
      exists c. eapply bufinv_sink; [exact BI|lia].
    - destruct G as [[c BI] I]. destruct (eat_trivia_inv _ _ _ _ _ _ BI I H) as (B' & I' & _).
      split; [eexists; exact B'|exact I'].
    - destruct (to_token_kind (lk (p_tok (b0 st)))); [|discriminate]. eapply do_bump_inv; eauto.
    - eapply do_bump_inv; eauto.
    - eapply split_remap_inv; eauto.
    - injection H as Hs; subst st'. destruct G as [[c BI] I]. split.
      + exists c. eapply bufinv_sink; [exact BI|reflexivity].
      + apply sink_error_inv. exact I.
    - injection H as Hs; subst st'. destruct G as [[c BI] I]. split.
      + exists c. eapply bufinv_sink; [exact BI|reflexivity].
      + apply sink_error_inv. exact I.
    - injection H as Hs; subst st'. destruct G as [[c BI] I]. split.
      + exists c. eapply bufinv_sink; [exact BI|reflexivity].
      + apply sink_error_inv. exact I.
  Qed.

  Lemma run_inv : forall ls ops st st', Good ls st -> run gm text st ops = Some st' -> Good ls st'.
  Proof.
    intros ls ops; induction ops as [|o t IH]; intros st st' G H; cbn [run] in H.
    - injection H as Hs; subst. exact G.
    - destruct (step gm text st o) as [st1|] eqn:E; [|discriminate].
      eapply IH; [eapply step_inv; eauto|exact H].
  Qed.

  (* ---- Parser::new ---------------------------------------------------------- *)

  Definition TOMB : lexeme := mkLex K_Tombstone 0.

  Lemma init_bufinv : forall ls,
    BufInv ([TOMB; TOMB; TOMB; TOMB] ++ ls) [] 0 0
           (mkPS ls P_EMPTY P_EMPTY P_EMPTY P_EMPTY sink0).
  Proof.
    intro ls. constructor; cbn; try reflexivity.
    exists 0. cbn. rewrite app_nil_r. reflexivity.
  Qed.

  Lemma bufinv_strip : forall p ls c d a st,
    total_len p = 0 -> BufInv (p ++ ls) (p ++ c) d a st -> BufInv ls c d a st.
  Proof.
    intros p ls c d a st Hp [(k & S1) S2 B C1 C2 C3 T0 T1 T2 T3].
    constructor; try assumption.
    - exists k. rewrite <- !app_assoc in S1. rewrite !(map_sig_app p) in S1.
      apply app_inv_head in S1. exact S1.
    - rewrite total_len_app in S2. lia.
  Qed.

  Lemma parser_new_good : forall ls st0,
    parser_new gm text ls = Some st0 ->
    BufInv ls [] 0 0 st0 /\ SinkInv text (sk st0) /\ s_pos (sk st0) = 0.
  Proof.
    intros ls st0 H. unfold parser_new in H.
    set (i0 := mkPS ls P_EMPTY P_EMPTY P_EMPTY P_EMPTY sink0) in *.
    destruct (advance gm text i0) as [s1|] eqn:A1; [|discriminate].
    destruct (advance gm text s1) as [s2|] eqn:A2; [|discriminate].
    destruct (advance gm text s2) as [s3|] eqn:A3; [|discriminate].
    pose proof (init_bufinv ls) as B0. fold i0 in B0.
    destruct (advance_inv _ _ _ _ _ _ B0 (sink0_inv text) A1) as (B1 & I1 & X1 & Y1 & Z1).
    destruct (advance_inv _ _ _ _ _ _ B1 I1 A2) as (B2 & I2 & X2 & Y2 & Z2).
    destruct (advance_inv _ _ _ _ _ _ B2 I2 A3) as (B3 & I3 & X3 & Y3 & Z3).
    destruct (advance_inv _ _ _ _ _ _ B3 I3 H) as (B4 & I4 & _).
    (* the slots shifted out are the EMPTY ones *)
    assert (E1 : b0 s1 = P_EMPTY) by (rewrite X1; reflexivity).
    assert (E2 : b0 s2 = P_EMPTY) by (rewrite X2, Y1; reflexivity).
    assert (E3 : b0 s3 = P_EMPTY) by (rewrite X3, Y2, Z1; reflexivity).
    rewrite E1, E2, E3 in B4. cbn [b0 i0 P_EMPTY p_triv p_tok ll app Nat.add] in B4.
    change [mkLex K_Tombstone 0; mkLex K_Tombstone 0; mkLex K_Tombstone 0; mkLex K_Tombstone 0]
      with ([TOMB; TOMB; TOMB; TOMB] ++ []) in B4.
    apply (bufinv_strip [TOMB; TOMB; TOMB; TOMB] ls []) in B4; [|reflexivity].
    split; [exact B4|]. split; [exact I4|].
    destruct B4 as [_ S2 _ _ _ _ _ _ _ _]. cbn [total_len] in S2. lia.
  Qed.

  (* ---- what has been consumed when the driver stops at at_eof ----------------- *)

  Lemma map_split_mid : forall (A B : Type) (f : A -> B) l l1 y l2,
    map f l = l1 ++ y :: l2 ->
    exists p e q, l = p ++ e :: q /\ map f p = l1 /\ f e = y /\ map f q = l2.
  Proof.
    intros A B f l; induction l as [|x r IH]; intros l1 y l2 H.
    - destruct l1; discriminate.
    - destruct l1 as [|z l1']; cbn [map app] in H.
      + injection H as H1 H2. exists [], x, r. auto.
      + injection H as H1 H2. destruct (IH _ _ _ H2) as (p & e & q & E1 & E2 & E3 & E4).
        exists (x :: p), e, q. subst. auto.
  Qed.

  Lemma repeat_split : forall (A : Type) (x : A) k p e q,
    repeat x k = p ++ e :: q -> p = repeat x (length p).
  Proof.
    intros A x k; induction k as [|k IH]; intros p e q H.
    - destruct p; discriminate.
    - destruct p as [|y p']; [reflexivity|]. cbn [repeat app] in H. injection H as H1 H2.
      cbn [length repeat]. subst y. f_equal. eapply IH; eauto.
  Qed.

  Lemma eof_in_padding : forall ls k pre e post,
    Forall (fun l => lk l <> K_Eof) ls ->
    ls ++ repeat EOF0 k = pre ++ e :: post -> lk e = K_Eof ->
    exists j, pre = ls ++ repeat EOF0 j.
  Proof.
    induction ls as [|x r IH]; intros k pre e post F H He.
    - exists (length pre). cbn [app] in *. eapply repeat_split; eauto.
    - destruct pre as [|y pre']; cbn [app] in H; injection H as H1 H2.
      + subst. inversion F; subst. congruence.
      + subst y. inversion F; subst. destruct (IH _ _ _ _ H3 H2 He) as [j Ej].
        exists j. subst. reflexivity.
  Qed.

  Lemma buf_total : forall ls c st,
    BufInv ls c 0 0 st -> total_len ls = length text ->
    s_pos (sk st) + total_len (pend st) = length text.
  Proof.
    intros ls c st [(k & S1) S2 _ _ _ _ _ _ _ _] T.
    apply total_len_sig in S1. rewrite !total_len_app, total_len_repeat_eof in S1. lia.
  Qed.

  (* The driver of grammar::root: stops when at_eof, eats the trivia, finishes the
     root node.  What the tree then spells is the input up to the first Eof
     lexeme (of the padded stream). *)
  Lemma at_eof_consumed : forall ls st root,
    Good ls st -> at_eof st = true -> p_triv (b0 st) = [] ->
    sink_root (sk st) = Some root ->
    exists k pre e post,
      ls ++ repeat EOF0 k = pre ++ e :: post /\ lk e = K_Eof
      /\ flatten root = firstn (total_len pre) text.
  Proof.
    intros ls st root [[c BI] I] Eof Tr R.
    destruct BI as [(k & S1) S2 _ _ _ _ _ _ _ _].
    unfold pend, pend_of in S1. rewrite Tr in S1. cbn [app] in S1.
    rewrite map_sig_app in S1. cbn [map] in S1. symmetry in S1.
    destruct (map_split_mid _ _ _ _ _ _ _ S1) as (p & e & q & E1 & E2 & E3 & _).
    exists k, p, e, q. split; [exact E1|]. split.
    - unfold sig in E3. injection E3 as _ E3. unfold at_eof in Eof. rewrite Eof in E3.
      apply N.eqb_eq in E3. exact E3.
    - destruct I as [A _ _]. unfold sink_root in R.
      destruct (s_children (sk st)) as [|[k0 x|k0 n0 e0 ch] [|y r]] eqn:Ec; try discriminate.
      injection R as R; subst root. cbn [flatten_all] in A. rewrite app_nil_r in A.
      rewrite A. f_equal. apply total_len_sig in E2. lia.
  Qed.

  Lemma lossless_no_eof : forall ls st root,
    Good ls st -> total_len ls = length text ->
    Forall (fun l => lk l <> K_Eof) ls ->
    at_eof st = true -> p_triv (b0 st) = [] -> sink_root (sk st) = Some root ->
    flatten root = text.
  Proof.
    intros ls st root G T F Eof Tr R.
    destruct (at_eof_consumed _ _ _ G Eof Tr R) as (k & pre & e & post & E1 & E2 & E3).
    destruct (eof_in_padding _ _ _ _ _ F E1 E2) as [j Ej].
    rewrite E3, Ej, total_len_app, total_len_repeat_eof, T, Nat.add_0_r. apply firstn_all.
  Qed.

  (* ---- where diagnostics point ------------------------------------------------ *)

  Lemma total_len_pend_b0 : forall st,
    total_len (pend st) >= total_len (p_triv (b0 st)) + ll (p_tok (b0 st)).
  Proof.
    intro st. unfold pend, pend_of. rewrite !total_len_app. cbn [total_len]. lia.
  Qed.

  (* err / warn: the current token's range *)
  Lemma err_range_ok : forall ls st,
    Good ls st -> total_len ls = length text ->
    tok_start (b0 st) <= tok_end (b0 st) /\ tok_end (b0 st) <= length text.
  Proof.
    intros ls st [[c BI] I] T. pose proof (buf_total _ _ _ BI T) as Q.
    pose proof (total_len_pend_b0 st) as P.
    destruct BI as [_ S2 B _ _ _ T0 _ _ _]. unfold tok_start, tok_end. lia.
  Qed.

End Parser.
