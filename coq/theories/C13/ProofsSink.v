(* C13 — AstSink / TreeBuilder lemmas: whatever is done to the sink, the texts
   of the tokens it holds concatenate to text[0 .. text_pos]; node rewriting
   preserves the text; every tree is internally consistent. *)
From Coq Require Import List NArith Bool Arith Lia.
From FV.C13 Require Import Keywords Model.
Import ListNotations.
Open Scope nat_scope.

(* ---- trees -------------------------------------------------------------- *)

Lemma flatten_node : forall k n e ch, flatten (Nd k n e ch) = flatten_all ch.
Proof.
  intros k n e ch. cbn [flatten].
  induction ch as [|c r IH]; [reflexivity|]. cbn [flatten_all]. rewrite <- IH. reflexivity.
Qed.

Lemma flatten_all_app : forall a b, flatten_all (a ++ b) = flatten_all a ++ flatten_all b.
Proof.
  induction a as [|c r IH]; intro b; [reflexivity|].
  cbn [app flatten_all]. rewrite IH, app_assoc. reflexivity.
Qed.

Lemma sum_len_app : forall a b, sum_len (a ++ b) = sum_len a + sum_len b.
Proof. induction a as [|c r IH]; intro b; simpl; [reflexivity|rewrite IH; lia]. Qed.

(* stored lengths are the real lengths *)
Inductive wf_tree : tree -> Prop :=
| wf_tok : forall k x, wf_tree (Tok k x)
| wf_nd : forall k e ch, Forall wf_tree ch -> wf_tree (Nd k (sum_len ch) e ch).

(* induction principle that goes through the children *)
Lemma tree_ind' (P : tree -> Prop)
  (Htok : forall k x, P (Tok k x))
  (Hnd : forall k n e ch, Forall P ch -> P (Nd k n e ch)) : forall t, P t.
Proof.
  fix IH 1. intros [k x|k n e ch]; [apply Htok|].
  apply Hnd. induction ch as [|c r IHr]; constructor; [apply IH|exact IHr].
Qed.

Lemma wf_len : forall t, wf_tree t -> tlen t = length (flatten t).
Proof.
  induction t as [k x|k n e ch IH] using tree_ind'; intro W; [reflexivity|].
  inversion W as [|k' e' ch' Wc]; subst. rewrite flatten_node. cbn [tlen].
  clear W. induction ch as [|c r IHr]; [reflexivity|].
  inversion IH; subst. inversion Wc; subst.
  cbn [sum_len flatten_all]. rewrite app_length. rewrite <- IHr by assumption.
  rewrite H1 by assumption. reflexivity.
Qed.

Lemma wf_sum_len : forall l, Forall wf_tree l -> sum_len l = length (flatten_all l).
Proof.
  induction l as [|c r IH]; intro W; [reflexivity|]. inversion W; subst.
  cbn [sum_len flatten_all]. rewrite app_length, <- IH by assumption.
  rewrite wf_len by assumption. reflexivity.
Qed.

Lemma wf_mk_node : forall k ch e, Forall wf_tree ch -> wf_tree (mk_node k ch e).
Proof. intros. unfold mk_node. constructor. assumption. Qed.

Lemma Forall_firstn : forall (A : Type) (P : A -> Prop) n l, Forall P l -> Forall P (firstn n l).
Proof.
  intros A P n; induction n as [|n IH]; intros l H; [constructor|].
  destruct l; [constructor|]. inversion H; subst. simpl. constructor; auto.
Qed.
Lemma Forall_skipn : forall (A : Type) (P : A -> Prop) n l, Forall P l -> Forall P (skipn n l).
Proof.
  intros A P n; induction n as [|n IH]; intros l H; [exact H|].
  destruct l; [constructor|]. inversion H; subst. simpl. auto.
Qed.

(* ---- slices of the text --------------------------------------------------- *)

Lemma firstn_add_skipn : forall (A : Type) (t : list A) p n,
  firstn p t ++ firstn n (skipn p t) = firstn (p + n) t.
Proof.
  intros A t p; revert t; induction p as [|p IH]; intros t n; [reflexivity|].
  destruct t as [|x t']; [simpl; rewrite firstn_nil; reflexivity|].
  simpl. rewrite IH. reflexivity.
Qed.

Lemma slice_some : forall text a len x,
  slice text a len = Some x -> x = firstn len (skipn a text) /\ a + len <= length text.
Proof.
  intros text a len x H. unfold slice in H.
  destruct ((a + len <=? length text) && is_boundary text a && is_boundary text (a + len)) eqn:E;
    [|discriminate].
  inversion H; subst. split; [reflexivity|].
  apply andb_true_iff in E as [E _]. apply andb_true_iff in E as [E _]. apply Nat.leb_le in E. exact E.
Qed.

Lemma slice_length : forall text a len x, slice text a len = Some x -> length x = len.
Proof.
  intros text a len x H. apply slice_some in H as [E L]. subst.
  rewrite firstn_length, skipn_length. lia.
Qed.

(* ---- glyph-range splitting ------------------------------------------------ *)

(* what the sink needs of the glyph map: the node try_split_range builds spells
   the name it was given *)
Definition gm_lossless (gm : option (list byte -> bool)) : Prop :=
  forall contains txt node,
    gm = Some contains -> try_split_range contains txt = Some node -> flatten node = txt.

Lemma skipn_cons_nth : forall (l : list N) i, i < length l -> skipn i l = nth i l 0%N :: skipn (S i) l.
Proof.
  induction l as [|b r IH]; intros i Hi; [simpl in Hi; lia|].
  destruct i; [reflexivity|]. simpl. apply IH. simpl in Hi. lia.
Qed.

(* head ++ "-" ++ tail[1..] is the name: exactly one hyphen is taken out *)
Lemma try_split_lossless : forall contains txt node,
  try_split_range contains txt = Some node -> flatten node = txt.
Proof.
  intros contains txt node H. unfold try_split_range in H.
  destruct (filter (split_ok contains txt) (seq 0 (length txt))) as [|idx [|j r]] eqn:F; try discriminate.
  injection H as H; subst node.
  assert (In idx (filter (split_ok contains txt) (seq 0 (length txt)))) as Hin by (rewrite F; left; reflexivity).
  apply filter_In in Hin as [Hs Hok]. apply in_seq in Hs.
  unfold split_ok in Hok. apply andb_true_iff in Hok as [Hok _]. apply andb_true_iff in Hok as [Hh _].
  apply N.eqb_eq in Hh. unfold nthb in Hh.
  unfold mk_node. rewrite flatten_node. cbn [flatten_all flatten]. rewrite app_nil_r. cbn [app].
  rewrite <- (firstn_skipn idx txt) at 3. rewrite (skipn_cons_nth txt idx) by lia. rewrite Hh. reflexivity.
Qed.

Lemma gm_all_lossless : forall gm, gm_lossless gm.
Proof. intros gm c txt node _ H. eapply try_split_lossless; eauto. Qed.

Lemma gm_none_lossless : gm_lossless None.
Proof. intros c t n H. discriminate. Qed.

Lemma try_split_wf : forall contains txt node,
  try_split_range contains txt = Some node -> wf_tree node.
Proof.
  intros contains txt node H. unfold try_split_range in H.
  destruct (filter (split_ok contains txt) (seq 0 (length txt))) as [|i [|j r]]; try discriminate.
  inversion H; subst. apply wf_mk_node. repeat constructor.
Qed.

(* ---- the sink invariant ----------------------------------------------------- *)

Section Sink.
  Variable gm : option (list byte -> bool).
  Variable text : list byte.
  Hypothesis gm_ok : gm_lossless gm.

  Record SinkInv (s : sink) : Prop := {
    si_text : flatten_all (s_children s) = firstn (s_pos s) text;
    si_pos : s_pos s <= length text;
    si_wf : Forall wf_tree (s_children s)
  }.

  Lemma sink0_inv : SinkInv sink0.
  Proof. constructor; simpl; [reflexivity|lia|constructor]. Qed.

  Lemma sink_error_inv : forall d s, SinkInv s -> SinkInv (sink_error d s).
  Proof. intros d s [A B C]. constructor; simpl; assumption. Qed.

  Lemma sink_start_inv : forall k s, SinkInv s -> SinkInv (sink_start k s).
  Proof. intros k s [A B C]. constructor; simpl; assumption. Qed.

  (* pushing a tree whose text is the next `len` bytes, then moving text_pos *)
  Lemma push_advance_inv : forall s t len errs ce,
    SinkInv s -> wf_tree t -> s_pos s + len <= length text ->
    flatten t = firstn len (skipn (s_pos s) text) ->
    SinkInv (mkSink (s_pos s + len) (s_parents s) (s_children s ++ [t]) errs ce (s_incl s)).
  Proof.
    intros s t len errs ce [A B C] W L F. constructor; cbn [s_children s_pos].
    - rewrite flatten_all_app. cbn [flatten_all]. rewrite app_nil_r, A, F.
      apply firstn_add_skipn.
    - exact L.
    - apply Forall_app. split; [exact C|constructor; [exact W|constructor]].
  Qed.

  Lemma sink_token_inv : forall k len s s',
    SinkInv s -> sink_token gm text k len s = Some s' ->
    SinkInv s' /\ s_pos s' = s_pos s + len /\ s_parents s' = s_parents s
    /\ length (s_children s') = S (length (s_children s)).
  Proof.
    intros k len s s' I H. unfold sink_token in H.
    destruct (slice text (s_pos s) len) as [txt|] eqn:Es; [|discriminate].
    pose proof (slice_some _ _ _ _ Es) as [Et Lb].
    assert (P : forall t errs ce, wf_tree t -> flatten t = txt ->
               SinkInv (mkSink (s_pos s + len) (s_parents s) (s_children s ++ [t]) errs ce (s_incl s))).
    { intros t errs ce W F. apply push_advance_inv; try assumption. rewrite F. exact Et. }
    assert (Fin : forall t errs ce, wf_tree t -> flatten t = txt ->
               Some (mkSink (s_pos s + len) (s_parents s) (s_children s ++ [t]) errs ce (s_incl s)) = Some s' ->
               SinkInv s' /\ s_pos s' = s_pos s + len /\ s_parents s' = s_parents s
               /\ length (s_children s') = S (length (s_children s))).
    { intros t errs ce W F Q. inversion Q; subst; clear Q. cbn [s_pos s_parents s_children].
      split; [apply P; assumption|]. split; [reflexivity|]. split; [reflexivity|].
      rewrite app_length. cbn [length]. lia. }
    destruct (nbeq k A_GlyphNameOrRange).
    - destruct gm as [contains|] eqn:G.
      + destruct (contains txt).
        * eapply Fin; [| |exact H]; [constructor|reflexivity].
        * destruct (try_split_range contains txt) as [node|] eqn:T.
          -- eapply Fin; [| |exact H]; [eapply try_split_wf; eauto | eapply gm_ok; eauto].
          -- eapply Fin; [| |exact H]; [constructor|reflexivity].
      + eapply Fin; [| |exact H]; [constructor|reflexivity].
    - eapply Fin; [| |exact H]; [constructor|reflexivity].
  Qed.

  Lemma sink_finish_plain_inv : forall newk s s',
    SinkInv s -> sink_finish_plain newk s = Some s' ->
    SinkInv s' /\ s_pos s' = s_pos s.
  Proof.
    intros newk s s' [A B C] H. unfold sink_finish_plain in H.
    destruct (s_parents s) as [|[k first] ps]; [discriminate|].
    destruct (length (s_children s) <? first); [discriminate|].
    inversion H; subst; clear H. split; [|reflexivity].
    constructor; cbn [s_children s_pos].
    - rewrite flatten_all_app. cbn [flatten_all]. rewrite app_nil_r.
      unfold mk_node. rewrite flatten_node, <- flatten_all_app, firstn_skipn. exact A.
    - exact B.
    - apply Forall_app. split; [apply Forall_firstn; exact C|].
      constructor; [|constructor]. apply wf_mk_node. apply Forall_skipn. exact C.
  Qed.

  (* ---- rewriting ---------------------------------------------------------- *)

  (* while a reparse function runs: what is in the sink followed by what is
     still in the buffer is the original text; the sink's text_pos is untouched;
     ReparseCtx.text_pos is where the next buffered item starts *)
  Record RwInv (all : list byte) (pos : nat) (c : rctx) : Prop := {
    ri_text : flatten_all (s_children (r_sink c)) ++ flatten_all (r_buf c) = all;
    ri_pos : s_pos (r_sink c) = pos;
    ri_rpos : r_pos c + sum_len (r_buf c) = pos;
    ri_wf : Forall wf_tree (s_children (r_sink c));
    ri_wfb : Forall wf_tree (r_buf c)
  }.

  Lemma r_bump_inv : forall all pos c, RwInv all pos c -> RwInv all pos (r_bump c).
  Proof.
    intros all pos c [A B R W Wb]. unfold r_bump.
    destruct (r_buf c) as [|t rest] eqn:E; [constructor; try rewrite E; assumption|].
    pose proof (Forall_inv Wb) as Wt. pose proof (Forall_inv_tail Wb) as Wr.
    constructor; cbn [r_sink r_buf r_pos sink_push s_children s_pos].
    - rewrite flatten_all_app. cbn [flatten_all] in *. rewrite app_nil_r, <- app_assoc. exact A.
    - exact B.
    - cbn [sum_len] in R. lia.
    - apply Forall_app. split; [exact W|constructor; [exact Wt|constructor]].
    - exact Wr.
  Qed.

  Lemma r_eat_trivia_inv : forall fuel all pos c, RwInv all pos c -> RwInv all pos (r_eat_trivia fuel c).
  Proof.
    induction fuel as [|f IH]; intros all pos c I; [exact I|].
    cbn [r_eat_trivia]. destruct (r_buf c) as [|t rest] eqn:E; [exact I|].
    destruct (is_trivia (tkind t)); [|exact I]. apply IH. apply r_bump_inv. exact I.
  Qed.

  Lemma r_step_inv : forall all pos c o c',
    RwInv all pos c -> r_step c o = Some c' -> RwInv all pos c'.
  Proof.
    intros all pos c o c' I H. destruct o as [| |k| |hard]; cbn [r_step] in H.
    - injection H as Hc; subst c'. apply r_bump_inv. exact I.
    - injection H as Hc; subst c'. apply r_eat_trivia_inv. exact I.
    - destruct (is_rewrite_kind k); [discriminate|]. injection H as Hc; subst c'.
      destruct I as [A B R W Wb].
      constructor; cbn [r_sink r_buf r_pos sink_start s_children s_pos]; assumption.
    - destruct (sink_finish_plain None (r_sink c)) as [s'|] eqn:F; [|discriminate].
      injection H as Hc; subst c'. destruct I as [A B R W Wb].
      unfold sink_finish_plain in F.
      destruct (s_parents (r_sink c)) as [|[k first] ps]; [discriminate|].
      destruct (length (s_children (r_sink c)) <? first); [discriminate|].
      injection F as Hs; subst s'.
      constructor; cbn [r_sink r_buf r_pos s_children s_pos]; try assumption.
      + rewrite flatten_all_app. cbn [flatten_all]. rewrite app_nil_r.
        unfold mk_node. rewrite flatten_node, <- flatten_all_app, firstn_skipn. exact A.
      + apply Forall_app. split; [apply Forall_firstn; exact W|].
        constructor; [|constructor]. apply wf_mk_node. apply Forall_skipn. exact W.
    - injection H as Hc; subst c'. destruct I as [A B R W Wb].
      constructor; cbn [r_sink r_buf r_pos sink_error s_children s_pos]; assumption.
  Qed.

  Lemma r_run_inv : forall ops all pos c c',
    RwInv all pos c -> r_run c ops = Some c' -> RwInv all pos c'.
  Proof.
    induction ops as [|o t IH]; intros all pos c c' I H; cbn [r_run] in H.
    - injection H as Hc; subst c'. exact I.
    - destruct (r_step c o) as [c1|] eqn:E; [|discriminate].
      eapply IH; [eapply r_step_inv; eauto|exact H].
  Qed.

  Lemma sink_rewrite_inv : forall script s s',
    SinkInv s -> sink_rewrite script s = Some s' ->
    SinkInv s' /\ s_pos s' = s_pos s
    /\ flatten_all (s_children s') = flatten_all (s_children s).
  Proof.
    intros script s s' [A B C] H. unfold sink_rewrite in H.
    destruct (s_parents s) as [|[k first] ps] eqn:Ep; [discriminate|].
    destruct (length (s_children s) <? first); [discriminate|].
    destruct (s_pos s <? sum_len (skipn first (s_children s))) eqn:Lt; [discriminate|].
    apply Nat.ltb_ge in Lt.
    match type of H with
    | match r_run ?c0 script with _ => _ end = _ => set (c0' := c0) in H
    end.
    destruct (r_run c0' script) as [c|] eqn:R; [|discriminate].
    destruct (r_buf c) as [|x xs] eqn:Eb; [|discriminate].
    injection H as Hs; subst s'.
    assert (I0 : RwInv (flatten_all (s_children s)) (s_pos s) c0').
    { subst c0'. constructor; cbn [r_sink r_buf r_pos s_children s_pos].
      - rewrite <- flatten_all_app, firstn_skipn. reflexivity.
      - reflexivity.
      - lia.
      - apply Forall_firstn. exact C.
      - apply Forall_skipn. exact C. }
    pose proof (r_run_inv _ _ _ _ _ I0 R) as [A' B' R' W' Wb'].
    rewrite Eb in A'. cbn [flatten_all] in A'. rewrite app_nil_r in A'.
    split; [|split; [exact B'|exact A']].
    constructor; [rewrite A', B'; exact A | rewrite B'; exact B | exact W'].
  Qed.

  Lemma sink_finish_inv : forall remap script newk s s',
    SinkInv s -> sink_finish remap script newk s = Some s' ->
    SinkInv s' /\ s_pos s' = s_pos s.
  Proof.
    intros remap script newk s s' I H. unfold sink_finish in H.
    destruct (s_parents s) as [|[k first] ps] eqn:Ep; [discriminate|].
    destruct (negb (s_cur_err s) && is_rewrite_kind (match remap with Some k' => k' | None => k end)).
    - destruct (sink_rewrite script s) as [s1|] eqn:R; [|discriminate].
      destruct (sink_rewrite_inv _ _ _ I R) as (I1 & P1 & _).
      destruct (sink_finish_plain_inv _ _ _ I1 H) as [I2 P2]. split; [exact I2|congruence].
    - eapply sink_finish_plain_inv; eassumption.
  Qed.

  (* diagnostics a reparse function records lie inside the text already consumed *)
  Lemma r_step_diag_range : forall all pos c hard c',
    RwInv all pos c -> r_step c (RDiag hard) = Some c' ->
    exists d, s_errs (r_sink c') = s_errs (r_sink c) ++ [d] /\ d_lo d <= d_hi d /\ d_hi d <= pos.
  Proof.
    intros all pos c hard c' [A B R W Wb] H. cbn [r_step] in H. injection H as Hc; subst c'.
    eexists. split; [reflexivity|]. cbn [d_lo d_hi]. split; [lia|].
    assert (Q : first_nontrivia_len (r_buf c) <= sum_len (r_buf c)).
    { unfold first_nontrivia_len. generalize (r_buf c) as l. clear.
      induction l as [|t r IH]; [simpl; lia|].
      cbn [filter]. destruct (negb (is_trivia (tkind t))); cbn [sum_len]; [lia|].
      destruct (filter _ r); lia. }
    lia.
  Qed.
End Sink.
