(* C19 — model of the narrowing sites between a font source and the binary
   tables, as Rust executes them in the two build profiles.

   Anchors: fontbe/src/glyphs.rs (component records, composite boxes),
   fontbe/src/metrics_and_limits.rs (hmtx/hhea/maxp), fontbe/src/features.rs
   (resolve_variable_metric: kerning and anchor values),
   fontbe/src/metric_variations.rs (HVAR deltas), fontbe/src/vertical_metrics.rs
   (vmtx), fontir/src/ir.rs + fontir/src/glyph.rs (2x2 overflow test,
   decomposition, flattening), fontdrasil/src/types.rs (WidthClass), and the
   glyf writer of write-fonts that fontbe/src/glyphs.rs drives
   (CurvePoint::from, SimpleGlyph::write_into, Bbox::from).

   f64 is modelled by Q (DESIGN.md 4.1); every narrowing step is written the
   way Rust performs it:
     float `as` int   saturates                      (both profiles)
     int   `as` int   wraps                          (both profiles)
     try_into/try_from  checked                      (both profiles)
     `+` `-` on u16/i16/u32   panics in a debug build, wraps in a release build
   The model is of the tree WITH the C19 repairs (work/patches/c19-*.diff: checked
   advance width, checked outline coordinates / successive differences / component
   offsets, point-count limit, checked top side bearing, WidthClass without the u16
   subtraction); the sites that are left as known findings still saturate.
   Executable definitions only; proofs are in Proofs*.v. *)
From Coq Require Import List ZArith QArith Qround Qabs Bool.
Import ListNotations.
Open Scope Z_scope.

(* ---- profiles and outcomes ------------------------------------------------ *)
Inductive profile := Debug | Release.

(* Emit: the job produced its value; Reject: the build ends with an error
   value (Error::OutOfBounds, ...); Panic: a job panicked (fontc reports
   "A task panicked" and writes no font). *)
Inductive outcome (A : Type) := Emit (a : A) | Reject | Panic.
Arguments Emit {A} a.
Arguments Reject {A}.
Arguments Panic {A}.

Definition bind {A B} (o : outcome A) (f : A -> outcome B) : outcome B :=
  match o with Emit a => f a | Reject => Reject | Panic => Panic end.
Notation "x <- e ;; k" := (bind e (fun x => k)) (at level 61, e at next level, right associativity).

Fixpoint mapM {A B} (f : A -> outcome B) (l : list A) : outcome (list B) :=
  match l with
  | [] => Emit []
  | a :: t => b <- f a ;; r <- mapM f t ;; Emit (b :: r)
  end.

Definition emitted {A} (o : outcome A) : bool := match o with Emit _ => true | _ => false end.

(* ---- integer ranges ---------------------------------------------------------- *)
Definition fits_i16 (z : Z) : bool := (-32768 <=? z) && (z <=? 32767).
Definition fits_u16 (z : Z) : bool := (0 <=? z) && (z <=? 65535).
Definition fits_u32 (z : Z) : bool := (0 <=? z) && (z <=? 4294967295).
Definition sat_i16 (z : Z) : Z := Z.max (-32768) (Z.min 32767 z).
Definition sat_u16 (z : Z) : Z := Z.max 0 (Z.min 65535 z).
Definition wrap_u16 (z : Z) : Z := z mod 65536.
Definition wrap_i16 (z : Z) : Z := (z + 32768) mod 65536 - 32768.
Definition wrap_u32 (z : Z) : Z := z mod 4294967296.

(* ---- float -> integer -------------------------------------------------------- *)
(* write-fonts round.rs: (self + 0.5).floor() *)
Definition ot_round (q : Q) : Z := Qfloor (q + (1 # 2)).
(* ... as i16 / as u16 on a float: saturating *)
Definition ot_round_i16 (q : Q) : Z := sat_i16 (ot_round q).
Definition ot_round_u16 (q : Q) : Z := sat_u16 (ot_round q).
(* float `as` int truncates towards zero *)
Definition Qtrunc (q : Q) : Z := if Qle_bool 0 q then Qfloor q else Qceiling q.
(* font-types fixed.rs float_conv!: (x * 16384 + (+-0.5)) as i16 *)
Definition f2dot14 (q : Q) : Z :=
  sat_i16 (Qtrunc (q * 16384 + (if Qle_bool 0 q then 1 # 2 else - (1 # 2)))).

(* ---- narrow integer arithmetic: the only profile-dependent steps ---------------- *)
Definition arith (fits : Z -> bool) (wrap : Z -> Z) (p : profile) (z : Z) : outcome Z :=
  if fits z then Emit z else match p with Debug => Panic | Release => Emit (wrap z) end.
Definition sub_i16 (p : profile) (a b : Z) : outcome Z := arith fits_i16 wrap_i16 p (a - b).
Definition sub_u16 (p : profile) (a b : Z) : outcome Z := arith fits_u16 wrap_u16 p (a - b).
Definition add_u32 (p : profile) (a b : Z) : outcome Z := arith fits_u32 wrap_u32 p (a + b).
(* u16::try_from(x) mapped to Error::OutOfBounds *)
Definition try_u16 (z : Z) : outcome Z := if fits_u16 z then Emit z else Reject.
Definition try_i16 (z : Z) : outcome Z := if fits_i16 z then Emit z else Reject.
(* x.try_into().unwrap() *)
Definition unwrap_u16 (z : Z) : outcome Z := if fits_u16 z then Emit z else Panic.

(* ---- outlines ------------------------------------------------------------------- *)
Definition pt := (Q * Q)%type.
Definition contour := list pt.
Definition zpt := (Z * Z)%type.
Definition bbox := (Z * Z * Z * Z)%type. (* xmin ymin xmax ymax *)

(* A closed contour of on-curve points p0 p1 .. pn reaches the glyf table as
   p0 pn .. p1: kurbo reverse_subpaths keeps the start point
   (GlyphWork::exec, reverse_contour_direction). *)
Definition emit_order (c : contour) : contour :=
  match c with [] => [] | p :: r => p :: rev_append r [] end.

(* write-fonts CurvePoint::from(ContourPoint): pt.point.ot_round() -> (i16, i16) *)
Definition round_pt (p : pt) : zpt := (ot_round_i16 (fst p), ot_round_i16 (snd p)).
(* what an exact conversion would give *)
Definition exact_pt (p : pt) : zpt := (ot_round (fst p), ot_round (snd p)).

Definition glyf_points (cs : list contour) : list zpt :=
  flat_map (fun c => map round_pt (emit_order c)) cs.
Definition exact_points (cs : list contour) : list zpt :=
  flat_map (fun c => map exact_pt (emit_order c)) cs.

(* SimpleGlyph::compute_point_deltas: d = point.x - last_x on i16 *)
Fixpoint deltas (p : profile) (last : Z) (l : list Z) : outcome (list Z) :=
  match l with
  | [] => Emit []
  | x :: t => d <- sub_i16 p x last ;; r <- deltas p x t ;; Emit (d :: r)
  end.

(* what a reader (FreeType, skrifa, the harness) reconstructs: running sums,
   not wrapped *)
Fixpoint undeltas (acc : Z) (ds : list Z) : list Z :=
  match ds with [] => [] | d :: t => (acc + d) :: undeltas (acc + d) t end.

(* SimpleGlyph::write_into: cur += contour.len(); (cur as u16 - 1) *)
Fixpoint end_pts (p : profile) (cur : Z) (lens : list Z) : outcome (list Z) :=
  match lens with
  | [] => Emit []
  | n :: t =>
      e <- sub_u16 p (wrap_u16 (cur + n)) 1 ;;
      r <- end_pts p (cur + n) t ;;
      Emit (e :: r)
  end.

Definition zmin_list (d : Z) (l : list Z) : Z := fold_left Z.min l d.
Definition zmax_list (d : Z) (l : list Z) : Z := fold_left Z.max l d.
Definition bbox_of (pts : list zpt) : bbox :=
  match pts with
  | [] => (0, 0, 0, 0)
  | (x, y) :: t =>
      (zmin_list x (map fst t), zmin_list y (map snd t), zmax_list x (map fst t), zmax_list y (map snd t))
  end.
Definition bbox_union (a b : bbox) : bbox :=
  let '(ax0, ay0, ax1, ay1) := a in
  let '(bx0, by0, bx1, by1) := b in
  (Z.min ax0 bx0, Z.min ay0 by0, Z.max ax1 bx1, Z.max ay1 by1).

Record simple_out := { so_ends : list Z; so_dx : list Z; so_dy : list Z; so_bbox : bbox }.
Record comp_out := { co_gid : Z; co_dx : Z; co_dy : Z; co_m : Z * Z * Z * Z (* xx yx xy yy, 2.14 *) }.
Inductive glyf_out :=
| GEmpty
| GSimple (s : simple_out)
| GComposite (cs : list comp_out) (b : bbox).

Definition zlen {A} (l : list A) : Z := Z.of_nat (length l).

(* fontbe glyphs.rs check_path_fits_i16: check_fits_i16 on x and y of EVERY point of EVERY
   element of the path — the end point of a move/line, the control point and the end point
   of a quad, both control points and the end point of a cubic.  A [contour] therefore
   lists all its points, on-curve and off-curve alike, in source order; whether a point is
   on the curve plays no role in any narrowing step (glyf stores both kinds the same way).
   Correspondence is checked for contours whose first segment is a line and whose control
   points are single quadratic ones (then every point is emitted, in [emit_order]). *)
Definition pt_fitsb (p : pt) : bool := fits_i16 (ot_round (fst p)) && fits_i16 (ot_round (snd p)).
Definition coords_fitb (cs : list contour) : bool := forallb (forallb pt_fitsb) cs.
(* GlyphWork::exec runs that check on the path of every master of the glyph (the points of
   every master are rounded to i16 before the gvar deltas are taken) *)
Definition masters_coords_fitb (masters : list (list contour)) : bool := forallb coords_fitb masters.
(* fontbe glyphs.rs check_point_deltas_fit_i16: every step, the first one from 0 *)
Fixpoint diffs_fitb (last : Z) (l : list Z) : bool :=
  match l with [] => true | x :: t => fits_i16 (x - last) && diffs_fitb x t end.

Definition has_empty_contour (cs : list contour) : bool := existsb (fun c => zlen c =? 0) cs.

(* The glyf entry of an outline glyph.  GlyphWork::exec first refuses what glyf cannot
   hold (Error::OutOfBounds): a coordinate whose rounding does not fit i16
   (check_path_fits_i16), a step between successive points that does not fit i16
   (check_point_deltas_fit_i16), more than 65535 points (check_num_points).  Then the
   points are rounded and SimpleGlyph::write_into runs in the Glyf job, with its narrow
   arithmetic unchanged. *)
Definition simple_glyph (p : profile) (cs : list contour) : outcome glyf_out :=
  match cs with
  | [] => Emit GEmpty
  | _ =>
      let pts := glyf_points cs in
      if negb (coords_fitb cs) then Reject
      else if negb (diffs_fitb 0 (map fst pts) && diffs_fitb 0 (map snd pts)) then Reject
      (* assert!(!contour.is_empty()) *)
      else if has_empty_contour cs then Panic
      else if 65535 <? zlen pts then Reject
      (* assert!(self.contours.len() < i16::MAX as usize) *)
      else if 32767 <=? zlen cs then Panic
      else
        ends <- end_pts p 0 (map (fun c => zlen c) cs) ;;
        dx <- deltas p 0 (map fst pts) ;;
        dy <- deltas p 0 (map snd pts) ;;
        Emit (GSimple {| so_ends := ends; so_dx := dx; so_dy := dy; so_bbox := bbox_of pts |})
  end.

Definition decode_simple (s : simple_out) : list zpt :=
  combine (undeltas 0 (so_dx s)) (undeltas 0 (so_dy s)).

(* ---- components --------------------------------------------------------------- *)
(* kurbo Affine [a b c d e f]: x' = a x + c y + e, y' = b x + d y + f *)
Definition affine := (Q * Q * Q * Q * Q * Q)%type.
Definition apply_aff (t : affine) (p : pt) : pt :=
  let '(a, b, c, d, e, f) := t in
  (a * fst p + c * snd p + e, b * fst p + d * snd p + f)%Q.
(* t * u: apply u first *)
Definition aff_mul (t u : affine) : affine :=
  let '(a, b, c, d, e, f) := t in
  let '(a', b', c', d', e', f') := u in
  (a * a' + c * b', b * a' + d * b', a * c' + c * d', b * c' + d * d',
   a * e' + c * f' + e, b * e' + d * f' + f)%Q.
Definition aff_det (t : affine) : Q := let '(a, b, c, d, _, _) := t in (a * d - b * c)%Q.
Definition aff_2x2 (t : affine) : list Q := let '(a, b, c, d, _, _) := t in [a; b; c; d].

(* fontir ir.rs has_overflowing_2x2_transforms: !(-2.0..=2.0).contains(value) *)
Definition in_2x2_range (q : Q) : bool := Qle_bool (-2) q && Qle_bool q 2.
Definition overflows_2x2 (t : affine) : bool := negb (forallb in_2x2_range (aff_2x2 t)).

(* fontbe glyphs.rs create_composite: check_fits_i16 on the offsets *)
Definition offset_fitsb (ct : Z * affine) : bool :=
  let '(_, _, _, _, e, f) := snd ct in fits_i16 (ot_round e) && fits_i16 (ot_round f).

(* fontbe glyphs.rs create_component_ref_gid *)
Definition emit_component (gid : Z) (t : affine) : comp_out :=
  let '(a, b, c, d, e, f) := t in
  {| co_gid := gid; co_dx := ot_round_i16 e; co_dy := ot_round_i16 f;
     co_m := (f2dot14 a, f2dot14 b, f2dot14 c, f2dot14 d) |}.

(* fontbe glyphs.rs affine_for: the transform read back from the record *)
Definition quantised (c : comp_out) : affine :=
  let '(xx, yx, xy, yy) := co_m c in
  (xx # 16384, yx # 16384, xy # 16384, yy # 16384, inject_Z (co_dx c), inject_Z (co_dy c)).

Definition qmin_list (d : Q) (l : list Q) : Q := fold_left (fun a b => if Qle_bool b a then b else a) l d.
Definition qmax_list (d : Q) (l : list Q) : Q := fold_left (fun a b => if Qle_bool a b then b else a) l d.
Definition zq (p : zpt) : pt := (inject_Z (fst p), inject_Z (snd p)).

(* fontbe glyphs.rs bbox_of_composite + write-fonts Bbox::from(Rect): the box of
   the transformed i16 points of the referenced simple glyphs, each edge
   ot_round()ed to i16 (saturating) *)
Definition composite_bbox (parts : list (comp_out * list zpt)) : bbox :=
  let pts := flat_map (fun cp => map (fun p => apply_aff (quantised (fst cp)) (zq p)) (snd cp)) parts in
  match pts with
  | [] => (0, 0, 0, 0)
  | (x, y) :: t =>
      (ot_round_i16 (qmin_list x (map fst t)), ot_round_i16 (qmin_list y (map snd t)),
       ot_round_i16 (qmax_list x (map fst t)), ot_round_i16 (qmax_list y (map snd t)))
  end.
(* the same box without the narrowing *)
Definition composite_bbox_exact (parts : list (comp_out * list zpt)) : bbox :=
  let pts := flat_map (fun cp => map (fun p => apply_aff (quantised (fst cp)) (zq p)) (snd cp)) parts in
  match pts with
  | [] => (0, 0, 0, 0)
  | (x, y) :: t =>
      (ot_round (qmin_list x (map fst t)), ot_round (qmin_list y (map snd t)),
       ot_round (qmax_list x (map fst t)), ot_round (qmax_list y (map snd t)))
  end.

(* fontir glyph.rs convert_components_to_contours: contours of the referenced
   glyph under the component transform; a mirrored contour is reversed *)
Definition transform_contour (t : affine) (c : contour) : contour :=
  let c' := map (apply_aff t) c in
  if Qlt_le_dec (aff_det t) 0 then emit_order c' else c'.

(* ---- sources ------------------------------------------------------------------- *)
(* Depth-one composites only (a component names an outline glyph); nested
   composites are handled by [flatten] below. *)
Inductive glyph_src :=
| SrcSimple (adv height : Q) (cs : list contour)
| SrcComposite (adv height : Q) (comps : list (Z * affine)).

Definition g_adv (g : glyph_src) : Q := match g with SrcSimple a _ _ | SrcComposite a _ _ => a end.
Definition g_height (g : glyph_src) : Q := match g with SrcSimple _ h _ | SrcComposite _ h _ => h end.

Definition base_contours (glyphs : list glyph_src) (gid : Z) : list contour :=
  match nth_error glyphs (Z.to_nat gid) with
  | Some (SrcSimple _ _ cs) => cs
  | _ => []
  end.

Definition decompose (glyphs : list glyph_src) (comps : list (Z * affine)) : list contour :=
  flat_map (fun ct => map (transform_contour (snd ct)) (base_contours glyphs (fst ct))) comps.

(* BE GlyphWork (component records) + GlyfLocaWork (box) *)
Definition emit_composite (glyphs : list glyph_src) (comps : list (Z * affine)) : glyf_out :=
  let outs := map (fun ct => emit_component (fst ct) (snd ct)) comps in
  let parts := map (fun ct => (emit_component (fst ct) (snd ct), glyf_points (base_contours glyphs (fst ct)))) comps in
  GComposite outs (composite_bbox parts).

(* GlyphOrderWork (overflow test on the source transforms) + BE GlyphWork +
   GlyfLocaWork *)
Definition build_glyph (p : profile) (glyphs : list glyph_src) (g : glyph_src) : outcome glyf_out :=
  match g with
  | SrcSimple _ _ cs => simple_glyph p cs
  | SrcComposite _ _ [] => Emit GEmpty
  | SrcComposite _ _ comps =>
      if existsb (fun ct => overflows_2x2 (snd ct)) comps
      then simple_glyph p (decompose glyphs comps)
      else if forallb offset_fitsb comps then Emit (emit_composite glyphs comps)
      else Reject
  end.

Definition glyf_bbox (g : glyf_out) : option bbox :=
  match g with GEmpty => None | GSimple s => Some (so_bbox s) | GComposite _ b => Some b end.

(* ---- hmtx / hhea: MetricsBuilder ---------------------------------------------------- *)
Record metrics := {
  m_long : list (Z * Z);     (* advance, first side bearing, per glyph *)
  m_adv_max : Z;
  m_min_first : option Z;
  m_min_second : option Z;
  m_max_extent : option Z }.

Definition omin (o : option Z) (v : Z) : option Z := match o with None => Some v | Some w => Some (Z.min w v) end.
Definition omax (o : option Z) (v : Z) : option Z := match o with None => Some v | Some w => Some (Z.max w v) end.

(* one call of MetricsBuilder::update: (advance, side bearing, bounds advance) *)
Definition mrow := (Z * Z * option Z)%type.
Definition row_adv (r : mrow) : Z := fst (fst r).
Definition row_sb (r : mrow) : Z := snd (fst r).
(* rows of glyphs that have a box, with their box width *)
Definition boxed (rows : list mrow) : list (Z * Z * Z) :=
  flat_map (fun r => match snd r with Some ba => [(row_adv r, row_sb r, ba)] | None => [] end) rows.

(* MetricsBuilder::update folded over the glyphs; the second side bearing and the
   extent are computed in i32 and clamped to i16 *)
Definition metrics_of (rows : list mrow) : metrics :=
  {| m_long := map (fun r => (row_adv r, row_sb r)) rows;
     m_adv_max := fold_left Z.max (map row_adv rows) 0;
     m_min_first := fold_left omin (map (fun b => snd (fst b)) (boxed rows)) None;
     m_min_second := fold_left omin (map (fun b => sat_i16 (fst (fst b) - snd (fst b) - snd b)) (boxed rows)) None;
     m_max_extent := fold_left omax (map (fun b => sat_i16 (snd (fst b) + snd b)) (boxed rows)) None |}.

(* horizontal: advance = advance_width(width) (an error unless the rounded width fits
   u16), side bearing = xMin, bounds = xMax - xMin (i32) *)
Definition hrow (gg : glyph_src * glyf_out) : outcome mrow :=
  let '(g, o) := gg in
  adv <- try_u16 (ot_round (g_adv g)) ;;
  match glyf_bbox o with
  | None => Emit (adv, 0, None)
  | Some (x0, _, x1, _) => Emit (adv, x0, Some (x1 - x0))
  end.
Definition hmetrics (glyphs : list glyph_src) (glyf : list glyf_out) : outcome metrics :=
  rows <- mapM hrow (combine glyphs glyf) ;; Emit (metrics_of rows).

(* MetricsBuilder::build: the trailing run of equal advances keeps one long metric *)
Fixpoint trailing_run (last : Z) (advs_rev : list Z) : Z :=
  match advs_rev with
  | [] => 0
  | a :: t => if a =? last then 1 + trailing_run last t else 0
  end.
Definition long_len (advs : list Z) : Z :=
  match rev_append advs [] with
  | [] => 0
  | last :: r => zlen advs - (trailing_run last (last :: r) - 1)
  end.

(* ---- maxp: MaxBuilder ------------------------------------------------------------- *)
Definition num_points (g : glyf_out) : Z :=
  match g with GSimple s => zlen (so_dx s) | _ => 0 end.
Definition num_contours (g : glyf_out) : Z :=
  match g with GSimple s => zlen (so_ends s) | _ => 0 end.
(* `as u16` on a usize: wraps in both profiles *)
Definition limits_of (g : glyf_out) : option (Z * Z) :=
  match g with
  | GEmpty => Some (0, 0)
  | GSimple _ => Some (wrap_u16 (num_points g), wrap_u16 (num_contours g))
  | GComposite _ _ => None
  end.

(* update_composite_limits for a depth-one composite: u32 sums (checked in a debug
   build), then u16::try_from *)
Fixpoint sum_u32 (p : profile) (acc : Z) (l : list Z) : outcome Z :=
  match l with
  | [] => Emit acc
  | x :: t => s <- add_u32 p acc x ;; sum_u32 p s t
  end.
Definition comp_limit (glyf : list glyf_out) (c : comp_out) : Z * Z :=
  match nth_error glyf (Z.to_nat (co_gid c)) with
  | Some g => match limits_of g with Some l => l | None => (0, 0) end
  | None => (0, 0)
  end.
Definition composite_limits (p : profile) (glyf : list glyf_out) (g : glyf_out) : outcome (option (Z * Z)) :=
  match g with
  | GComposite cs _ =>
      pts <- sum_u32 p 0 (map (fun c => fst (comp_limit glyf c)) cs) ;;
      ctr <- sum_u32 p 0 (map (fun c => snd (comp_limit glyf c)) cs) ;;
      pts16 <- try_u16 pts ;;
      ctr16 <- try_u16 ctr ;;
      Emit (Some (pts16, ctr16))
  | _ => Emit None
  end.

Record maxp := {
  x_num_glyphs : Z; x_max_points : Z; x_max_contours : Z;
  x_max_comp_points : Z; x_max_comp_contours : Z; x_max_comp_elements : Z; x_max_depth : Z }.

Definition zmax0 (l : list Z) : Z := fold_left Z.max l 0.
Definition osome {A} (l : list (option A)) : list A :=
  flat_map (fun o => match o with Some a => [a] | None => [] end) l.

(* ---- vmtx ---------------------------------------------------------------------------- *)
(* vertical_metrics.rs: advance = height.ot_round() as u16; side bearing =
   top_side_bearing(vertical_origin, bbox.y_max), computed in i32 and checked *)
Definition vmetrics (p : profile) (origin : Q) (glyphs : list glyph_src) (glyf : list glyf_out)
  : outcome (list (Z * Z)) :=
  mapM (fun gg =>
    let '(g, o) := gg in
    let ymax := match glyf_bbox o with Some (_, _, _, y1) => y1 | None => 0 end in
    tsb <- try_i16 (ot_round_i16 origin - ymax) ;;
    Emit (ot_round_u16 (g_height g), tsb)) (combine glyphs glyf).

(* ---- GPOS values: features.rs resolve_variable_metric (one master) ------------------- *)
(* the master value is ot_round()ed in f64, the default is re-rounded to i16 *)
Definition metric_i16 (v : Q) : Z := ot_round_i16 (inject_Z (ot_round v)).

(* ---- the font ------------------------------------------------------------------------- *)
Record src := {
  s_glyphs : list glyph_src;
  s_asc : Q; s_desc : Q; s_gap : Q;     (* hhea ascender / descender / line gap *)
  s_vert : option Q;                    (* build_vertical: the vertical origin (OS/2 typo ascender) *)
  s_kern : list Q;                      (* kerning pair values *)
  s_anchor : list pt }.                 (* anchor positions *)

Record font := {
  f_glyf : list glyf_out;
  f_hmtx : list (Z * Z);
  f_num_long : Z;
  f_adv_max : Z; f_min_lsb : Z; f_min_rsb : Z; f_max_extent : Z;
  f_asc : Z; f_desc : Z; f_gap : Z;
  f_head : bbox;
  f_maxp : maxp;
  f_vmtx : option (list (Z * Z));
  f_kern : list Z;
  f_anchor : list zpt }.

Definition odef (o : option Z) : Z := match o with Some v => v | None => 0 end.

Definition head_bbox (glyf : list glyf_out) : bbox :=
  match osome (map glyf_bbox glyf) with
  | [] => (0, 0, 0, 0)
  | b :: t => fold_left bbox_union t b
  end.

(* Job order: glyph fragments and the Glyf job (dump), then hmtx/hhea/maxp
   (MetricAndLimitWork), then vmtx.  The first failing step decides the outcome. *)
Definition build (p : profile) (s : src) : outcome font :=
  let glyphs := s_glyphs s in
  glyf <- mapM (build_glyph p glyphs) glyphs ;;
  m <- hmetrics glyphs glyf ;;
  nlong <- try_u16 (long_len (map fst (m_long m))) ;;
  climits <- mapM (composite_limits p glyf) glyf ;;
  ng <- unwrap_u16 (zlen glyphs) ;;
  vm <- match s_vert s with
        | None => Emit None
        | Some origin =>
            v <- vmetrics p origin glyphs glyf ;;
            _ <- try_u16 (long_len (map fst v)) ;;
            Emit (Some v)
        end ;;
  let cl := osome climits in
  Emit {|
    f_glyf := glyf;
    f_hmtx := m_long m;
    f_num_long := nlong;
    f_adv_max := m_adv_max m;
    f_min_lsb := odef (m_min_first m);
    f_min_rsb := odef (m_min_second m);
    f_max_extent := odef (m_max_extent m);
    f_asc := ot_round_i16 (s_asc s);
    f_desc := ot_round_i16 (s_desc s);
    f_gap := ot_round_i16 (s_gap s);
    f_head := head_bbox glyf;
    f_maxp := {|
      x_num_glyphs := ng;
      x_max_points := zmax0 (map (fun g => match g with GSimple _ => wrap_u16 (num_points g) | _ => 0 end) glyf);
      x_max_contours := zmax0 (map (fun g => match g with GSimple _ => wrap_u16 (num_contours g) | _ => 0 end) glyf);
      x_max_comp_points := zmax0 (map fst cl);
      x_max_comp_contours := zmax0 (map snd cl);
      x_max_comp_elements := zmax0 (map (fun g => match g with GComposite cs _ => wrap_u16 (zlen cs) | _ => 0 end) glyf);
      x_max_depth := match cl with [] => 0 | _ => 1 end |};
    f_vmtx := vm;
    f_kern := map metric_i16 (s_kern s);
    f_anchor := map (fun a => (metric_i16 (fst a), metric_i16 (snd a))) (s_anchor s) |}.

(* ---- --flatten-components (fontir glyph.rs flatten_glyph) ------------------------------ *)
(* A component that names a composite is replaced by that composite's
   components under the product transform.  The 2x2 overflow test ran before
   (on the source transforms) and is not repeated. *)
Definition flatten_component (outer : affine) (inner : list (Z * affine)) : list (Z * affine) :=
  map (fun ct => (fst ct, aff_mul outer (snd ct))) inner.

Inductive nested := NLeaf (gid : Z) (t : affine) | NNode (t : affine) (inner : list (Z * affine)).
Definition nested_transforms (n : nested) : list affine :=
  match n with NLeaf _ t => [t] | NNode t inner => t :: map snd inner end.
Definition flatten_glyph (l : list nested) : list (Z * affine) :=
  flat_map (fun n => match n with NLeaf g t => [(g, t)] | NNode t inner => flatten_component t inner end) l.
(* BEFORE /repo 101951c: a glyph none of whose source transforms overflows stays a
   composite; after flattening its records were written without a second look at the
   range.  Kept for the refutation that explains the key
   glyph.rs:flatten_glyph.transform:saturates. *)
Definition build_flattened (p : profile) (glyphs : list glyph_src) (l : list nested) : outcome glyf_out :=
  match flatten_glyph l with
  | [] => Emit GEmpty
  | comps => if forallb offset_fitsb comps then Emit (emit_composite glyphs comps) else Reject
  end.
(* the code as it is (/repo 101951c): flatten_glyph repeats the range test after
   flattening; a glyph whose flattened transforms leave [-2, 2] is decomposed like any
   other *)
Definition build_flattened_repaired (p : profile) (glyphs : list glyph_src) (l : list nested) : outcome glyf_out :=
  match flatten_glyph l with
  | [] => Emit GEmpty
  | comps =>
      if existsb (fun ct => overflows_2x2 (snd ct)) comps then simple_glyph p (decompose glyphs comps)
      else if forallb offset_fitsb comps then Emit (emit_composite glyphs comps) else Reject
  end.

(* ---- variation deltas between two masters ----------------------------------------------- *)
(* VariationModel::deltas on two masters gives master1 - master0 for the second
   region; metric_variations.rs / features.rs / glyphs.rs round it with
   ot_round() -> i16 *)
Definition delta_i16 (m0 m1 : Z) : Z := ot_round_i16 (inject_Z (m1 - m0)).
(* the value a consumer computes at master 1 *)
Definition instance_at_master1 (m0 m1 : Z) : Z := m0 + delta_i16 m0 m1.

(* ---- fontdrasil types.rs WidthClass::try_from(u16) ------------------------------------- *)
Definition width_class (p : profile) (v : Z) : outcome Z :=
  (* value.checked_sub(1).and_then(|idx| all_values().get(idx)) *)
  if (1 <=? v) && (v - 1 <? 9) then Emit v else Reject.
