(* C19 — lemmas about whole fonts: profile refinement, faithful emission, checked limits. *)
From Coq Require Import List ZArith QArith Qround Qabs Bool Lia Lqa.
From Coq Require Import ZifyBool.
From FV.C19 Require Import Model ProofsSites Spec ProofsGlyph.
Import ListNotations.
Ltac Zify.zify_post_hook ::= Z.div_mod_to_equations.
Open Scope Z_scope.

(* ---- lists --------------------------------------------------------------------------- *)
Lemma map_fst_combine : forall {A B C} (f : A -> C) (l : list A) (r : list B),
  length l = length r -> map (fun ab => f (fst ab)) (combine l r) = map f l.
Proof.
  intros A B C f. induction l as [|a l IH]; intros [|b r] H; cbn in *; try reflexivity; try discriminate.
  f_equal. apply IH. congruence.
Qed.
Lemma map_snd_combine : forall {A B C} (f : B -> C) (l : list A) (r : list B),
  length l = length r -> map (fun ab => f (snd ab)) (combine l r) = map f r.
Proof.
  intros A B C f. induction l as [|a l IH]; intros [|b r] H; cbn in *; try reflexivity; try discriminate.
  f_equal. apply IH. congruence.
Qed.

Lemma Forall2_impl_in : forall {A B} (R R' : A -> B -> Prop) l r,
  Forall2 R l r -> (forall a b, In a l -> R a b -> R' a b) -> Forall2 R' l r.
Proof.
  intros A B R R' l r H. induction H; intros K; constructor.
  - apply K; [now left|assumption].
  - apply IHForall2. intros. apply K; [now right|assumption].
Qed.

Lemma Forall2_map_eq : forall {A B C} (f : A -> C) (g : B -> C) l r,
  Forall2 (fun a b => g b = f a) l r -> map g r = map f l.
Proof. intros A B C f g l r H. induction H; cbn; congruence. Qed.

Lemma Forall2_in_r : forall {A B} (R : A -> B -> Prop) l r b,
  Forall2 R l r -> In b r -> exists a, In a l /\ R a b.
Proof.
  intros A B R l r b H. induction H; intros Hin; [contradiction|].
  destruct Hin as [E|Hin]; [subst; eexists; split; [now left|eassumption]|].
  destruct (IHForall2 Hin) as [a [Ha Hr]]. exists a. split; [now right|assumption].
Qed.

Lemma Forall2_left : forall {A B} (R : A -> B -> Prop) (P : A -> Prop) l r,
  Forall2 R l r -> (forall a b, R a b -> P a) -> Forall P l.
Proof. intros A B R P l r H K. induction H; constructor; eauto. Qed.

Lemma mapM_ext_in : forall {A B} (f g : A -> outcome B) l,
  (forall a, In a l -> f a = g a) -> mapM f l = mapM g l.
Proof.
  intros A B f g. induction l as [|a l IH]; intros K; cbn; [reflexivity|].
  rewrite (K a) by now left. rewrite IH; [reflexivity|]. intros; apply K; now right.
Qed.

Lemma combine_fst : forall {A B} (l : list A) (r : list B), length l = length r -> map fst (combine l r) = l.
Proof.
  intros A B. induction l as [|a l IH]; intros [|b r] H; cbn in *; try reflexivity; try discriminate.
  f_equal. apply IH. congruence.
Qed.

(* ---- the debug build panics, or both builds do the same ------------------------------- *)
Lemma refines_composite_limits : forall glyf g,
  refines (composite_limits Debug glyf g) (composite_limits Release glyf g).
Proof.
  intros glyf [|s|cs b]; cbn; try apply refines_refl.
  apply refines_bind; [apply refines_sum_u32|]. intro.
  apply refines_bind; [apply refines_sum_u32|]. intro. apply refines_refl.
Qed.

Lemma debug_refines : forall s, refines (build Debug s) (build Release s).
Proof.
  intro s. unfold build.
  apply refines_bind; [apply refines_mapM; intro; apply refines_build_glyph|]. intro glyf.
  apply refines_bind; [apply refines_refl|]. intro m.
  apply refines_bind; [apply refines_refl|]. intro nlong.
  apply refines_bind; [apply refines_mapM; intro; apply refines_composite_limits|]. intro cl.
  apply refines_bind; [apply refines_refl|]. intro ng.
  apply refines_bind; [|intro; apply refines_refl].
  destruct (s_vert s) as [o|]; apply refines_refl.
Qed.

(* ---- checked limits ------------------------------------------------------------------------ *)
Lemma comp_limit_range : forall glyf c, 0 <= fst (comp_limit glyf c) <= 65535 /\ 0 <= snd (comp_limit glyf c) <= 65535.
Proof.
  intros glyf c. unfold comp_limit. destruct (nth_error glyf (Z.to_nat (co_gid c))) as [g|]; [|cbn; lia].
  destruct g; cbn; try lia. split; apply wrap_u16_range.
Qed.

Lemma composite_limits_exact : forall p glyf cs b, zlen cs <= 65536 ->
  let pts := zsum (map (fun c => fst (comp_limit glyf c)) cs) in
  let ctr := zsum (map (fun c => snd (comp_limit glyf c)) cs) in
  composite_limits p glyf (GComposite cs b) =
    (if fits_u16 pts && fits_u16 ctr then Emit (Some (pts, ctr)) else Reject).
Proof.
  intros p glyf cs b Hn pts ctr. cbn [composite_limits].
  assert (forall sel : Z * Z -> Z, (forall c, 0 <= sel (comp_limit glyf c) <= 65535) ->
          sum_u32 p 0 (map (fun c => sel (comp_limit glyf c)) cs) = Emit (zsum (map (fun c => sel (comp_limit glyf c)) cs))) as K.
  { intros sel R.
    assert (Forall (fun x => 0 <= x <= 65535) (map (fun c => sel (comp_limit glyf c)) cs)) as F.
    { apply Forall_forall. intros x Hx. apply in_map_iff in Hx. destruct Hx as [c [E _]]. subst x. apply R. }
    pose proof (zsum_bound _ _ F) as B. unfold zlen in *. rewrite map_length in B.
    rewrite (sum_u32_exact p _ 0); [f_equal; lia|lia| |lia].
    eapply Forall_impl; [|exact F]. cbn. intros; lia. }
  rewrite (K fst) by (intro c; apply (comp_limit_range glyf c)). cbn [bind].
  rewrite (K snd) by (intro c; apply (comp_limit_range glyf c)). cbn [bind].
  fold pts ctr. unfold try_u16. destruct (fits_u16 pts); cbn; [|reflexivity].
  destruct (fits_u16 ctr); reflexivity.
Qed.

(* more than 65535 glyphs: no profile emits a font *)
Lemma too_many_glyphs_rejected : forall p s, 65535 < zlen (s_glyphs s) -> emitted (build p s) = false.
Proof.
  intros p s H. unfold build.
  destruct (mapM (build_glyph p (s_glyphs s)) (s_glyphs s)) as [glyf| |]; cbn [bind emitted]; try reflexivity.
  destruct (hmetrics _ _) as [m| |]; cbn [bind emitted]; try reflexivity.
  destruct (try_u16 _) as [nlong| |]; cbn [bind emitted]; try reflexivity.
  destruct (mapM (composite_limits p glyf) glyf) as [cl| |]; cbn [bind emitted]; try reflexivity.
  unfold unwrap_u16. assert (fits_u16 (zlen (s_glyphs s)) = false) as F by (unfold fits_u16; lia).
  rewrite F. reflexivity.
Qed.

(* ---- profile independence for composites of at most 65536 components ------------------------ *)
Definition comps_boundedb (g : glyph_src) : bool :=
  match g with SrcSimple _ _ _ => true | SrcComposite _ _ comps => zlen comps <=? 65536 end.

Lemma simple_glyph_not_composite : forall p cs outs b, simple_glyph p cs <> Emit (GComposite outs b).
Proof.
  intros p cs outs b H. destruct cs as [|c cs]; [cbn in H; discriminate|].
  rewrite simple_glyph_eq in H by discriminate.
  destruct (outline_checksb (c :: cs)); [destruct (32767 <=? zlen (c :: cs)); discriminate|].
  destruct (_ && _); discriminate.
Qed.

Lemma build_glyph_composite_len : forall p glyphs g outs b,
  build_glyph p glyphs g = Emit (GComposite outs b) -> comps_boundedb g = true -> zlen outs <= 65536.
Proof.
  intros p glyphs g outs b H Hb. destruct g as [a h cs|a h comps].
  - cbn in H. exfalso. eapply simple_glyph_not_composite; eauto.
  - destruct comps as [|ct comps]; [cbn in H; discriminate|].
    rewrite build_glyph_composite in H. cbv zeta in H.
    destruct (decomposes (ct :: comps)); [exfalso; eapply simple_glyph_not_composite; eauto|].
    destruct (forallb offset_fitsb (ct :: comps)); [|discriminate]. unfold emit_composite in H. inversion H; subst.
    cbn [comps_boundedb] in Hb. unfold zlen in *. cbn [length] in *. rewrite map_length. lia.
Qed.

Lemma build_profile_indep : forall s,
  forallb comps_boundedb (s_glyphs s) = true -> build Debug s = build Release s.
Proof.
  intros s Hb. unfold build.
  rewrite (mapM_ext_in (build_glyph Debug (s_glyphs s)) (build_glyph Release (s_glyphs s)))
    by (intros; apply build_glyph_profile_indep).
  destruct (mapM (build_glyph Release (s_glyphs s)) (s_glyphs s)) as [glyf| |] eqn:G; cbn [bind]; try reflexivity.
  destruct (hmetrics _ _) as [m| |]; cbn [bind]; try reflexivity.
  destruct (try_u16 _) as [nlong| |]; cbn [bind]; try reflexivity.
  rewrite (mapM_ext_in (composite_limits Debug glyf) (composite_limits Release glyf)); [reflexivity|].
  intros o Ho. destruct o as [|so|outs b]; try reflexivity.
  apply mapM_emit in G. destruct (Forall2_in_r _ _ _ _ G Ho) as [g [Hg E]].
  rewrite forallb_forall in Hb.
  pose proof (build_glyph_composite_len _ _ _ _ _ E (Hb g Hg)) as L.
  rewrite !composite_limits_exact by exact L. reflexivity.
Qed.

(* ---- an emitted font is faithful when the remaining saturating sites fit ----------------------- *)
Lemma hmetrics_emit : forall glyphs glyf m, length glyphs = length glyf ->
  hmetrics glyphs glyf = Emit m ->
  map fst (m_long m) = map (fun g => ot_round (g_adv g)) glyphs /\
  forallb (fun g => fits_u16 (ot_round (g_adv g))) glyphs = true.
Proof.
  intros glyphs glyf m L H. unfold hmetrics in H.
  apply bind_emit in H. destruct H as [rows [Hr H]]. inversion H; subst m; clear H.
  apply mapM_emit in Hr.
  assert (Forall2 (fun (gg : glyph_src * glyf_out) (r : mrow) =>
            row_adv r = ot_round (g_adv (fst gg)) /\ fits_u16 (ot_round (g_adv (fst gg))) = true)
          (combine glyphs glyf) rows) as K.
  { eapply Forall2_impl_in; [exact Hr|]. intros [g o] r _ E. unfold hrow in E.
    apply bind_emit in E. destruct E as [adv [E1 E2]]. apply try_u16_emit in E1. destruct E1 as [E1 F].
    cbn [fst]. split; [|exact F]. subst adv.
    destruct (glyf_bbox o) as [[[[x0 y0] x1] y1]|]; inversion E2; reflexivity. }
  split.
  - unfold metrics_of. cbn [m_long]. rewrite map_map. cbn [fst].
    rewrite <- (map_fst_combine (fun g => ot_round (g_adv g)) glyphs glyf L).
    apply Forall2_map_eq. eapply Forall2_impl_in; [exact K|]. intros gg r _ [K1 _]. exact K1.
  - apply forallb_forall. intros g Hg.
    assert (Forall (fun gg : glyph_src * glyf_out => fits_u16 (ot_round (g_adv (fst gg))) = true) (combine glyphs glyf)) as F
      by (eapply Forall2_left; [exact K|]; intros gg r [_ K2]; exact K2).
    rewrite <- (combine_fst glyphs glyf L) in Hg. apply in_map_iff in Hg. destruct Hg as [gg [E Hgg]]. subst g.
    rewrite Forall_forall in F. now apply F.
Qed.

Lemma vmetrics_emit : forall p origin glyphs glyf v, length glyphs = length glyf ->
  vmetrics p origin glyphs glyf = Emit v ->
  map fst v = map (fun g => ot_round_u16 (g_height g)) glyphs /\
  map snd v = map (fun o => ot_round_i16 origin - glyf_ymax o) glyf /\
  forallb (fun o => fits_i16 (ot_round_i16 origin - glyf_ymax o)) glyf = true.
Proof.
  intros p origin glyphs glyf v L H. unfold vmetrics in H. apply mapM_emit in H.
  assert (Forall2 (fun (gg : glyph_src * glyf_out) (at_ : Z * Z) =>
            fst at_ = ot_round_u16 (g_height (fst gg)) /\
            snd at_ = ot_round_i16 origin - glyf_ymax (snd gg) /\
            fits_i16 (ot_round_i16 origin - glyf_ymax (snd gg)) = true) (combine glyphs glyf) v) as K.
  { eapply Forall2_impl_in; [exact H|]. intros [g o] [a t] _ E. cbn beta iota in E.
    apply bind_emit in E. destruct E as [tsb [E1 E2]]. inversion E2; subst a t.
    apply try_i16_emit in E1. destruct E1 as [E1 F]. cbn [fst snd].
    assert (match glyf_bbox o with Some (_, _, _, y1) => y1 | None => 0 end = glyf_ymax o) as Y by reflexivity.
    rewrite Y in *. auto. }
  rewrite <- (map_fst_combine (fun g => ot_round_u16 (g_height g)) glyphs glyf L).
  rewrite <- (map_snd_combine (fun o => ot_round_i16 origin - glyf_ymax o) glyphs glyf L).
  split; [|split].
  - apply Forall2_map_eq. eapply Forall2_impl_in; [exact K|]. intros gg at_ _ [K1 _]. exact K1.
  - apply Forall2_map_eq. eapply Forall2_impl_in; [exact K|]. intros gg at_ _ [_ [K2 _]]. exact K2.
  - apply forallb_forall. intros o Ho.
    assert (Forall (fun gg : glyph_src * glyf_out => fits_i16 (ot_round_i16 origin - glyf_ymax (snd gg)) = true) (combine glyphs glyf)) as F
      by (eapply Forall2_left; [exact K|]; intros gg r [_ [_ K3]]; exact K3).
    assert (map snd (combine glyphs glyf) = glyf) as S.
    { clear -L. revert glyf L. induction glyphs as [|a l IH]; intros [|b r] L; cbn in *; try reflexivity; try discriminate.
      f_equal. apply IH. congruence. }
    rewrite <- S in Ho. apply in_map_iff in Ho. destruct Ho as [gg [E Hgg]]. subst o.
    rewrite Forall_forall in F. now apply F.
Qed.

Lemma forallb_map_exact : forall {A} (f g : A -> Z) (fit : A -> bool) l,
  (forall a, fit a = true -> f a = g a) -> forallb fit l = true -> map f l = map g l.
Proof.
  intros A f g fit l K H. apply map_ext_in. intros a Ha. apply K.
  rewrite forallb_forall in H. now apply H.
Qed.

(* the pieces of an emitted font *)
Lemma build_emit_parts : forall p s f, build p s = Emit f ->
  exists glyf m v,
    mapM (build_glyph p (s_glyphs s)) (s_glyphs s) = Emit glyf /\
    hmetrics (s_glyphs s) glyf = Emit m /\
    fits_u16 (zlen (s_glyphs s)) = true /\
    match s_vert s with
    | None => v = None
    | Some origin => exists vv, v = Some vv /\ vmetrics p origin (s_glyphs s) glyf = Emit vv
    end /\
    f_glyf f = glyf /\ f_hmtx f = m_long m /\ f_vmtx f = v /\
    x_num_glyphs (f_maxp f) = zlen (s_glyphs s) /\
    f_asc f = ot_round_i16 (s_asc s) /\ f_desc f = ot_round_i16 (s_desc s) /\ f_gap f = ot_round_i16 (s_gap s) /\
    f_kern f = map metric_i16 (s_kern s) /\
    f_anchor f = map (fun a => (metric_i16 (fst a), metric_i16 (snd a))) (s_anchor s).
Proof.
  intros p s f H. unfold build in H. cbv zeta in H.
  apply bind_emit in H. destruct H as [glyf [Hg H]].
  apply bind_emit in H. destruct H as [m [Hm H]].
  apply bind_emit in H. destruct H as [nlong [Hn H]].
  apply bind_emit in H. destruct H as [cl [Hcl H]].
  apply bind_emit in H. destruct H as [ng [Hng H]].
  apply bind_emit in H. destruct H as [vm [Hvm H]]. cbv beta zeta in H. inversion H; subst f; clear H.
  apply unwrap_u16_emit in Hng. destruct Hng as [Hng Hfit]. subst ng.
  exists glyf, m, vm. cbn [f_glyf f_hmtx f_vmtx f_maxp x_num_glyphs f_asc f_desc f_gap f_kern f_anchor].
  repeat (split; [first [assumption|reflexivity]|]).
  split; [|repeat split; reflexivity].
  destruct (s_vert s) as [origin|].
  - apply bind_emit in Hvm. destruct Hvm as [v [Hv Hvm]].
    apply bind_emit in Hvm. destruct Hvm as [x [_ Hvm]]. inversion Hvm; subst vm. eauto.
  - now inversion Hvm.
Qed.

Lemma font_faithful : forall p s f,
  known_sites_fitb s = true -> build p s = Emit f -> faithful s f.
Proof.
  intros p s f Hc H.
  destruct (build_emit_parts _ _ _ H) as [glyf [m [v [Hg [Hm [Hfit [Hv [E1 [E2 [E3 [E4 [E5 [E6 [E7 [E8 E9]]]]]]]]]]]]]]].
  pose proof (mapM_length _ _ _ Hg) as L. symmetry in L.
  unfold known_sites_fitb in Hc. rewrite !andb_true_iff in Hc.
  destruct Hc as [[[[[[Cg Casc] Cdesc] Cgap] Ck] Can] Cv].
  unfold faithful. rewrite E1, E2, E3, E4, E5, E6, E7, E8, E9.
  split; [|split; [|split; [|split; [|split; [|split; [|split; [|split]]]]]]].
  - apply mapM_emit in Hg. eapply Forall2_impl_in; [exact Hg|]. intros g o Hin E.
    eapply build_glyph_emit_faithful; [|exact E]. rewrite forallb_forall in Cg. now apply Cg.
  - exact (proj1 (hmetrics_emit _ _ _ L Hm)).
  - now apply ot_round_i16_exact_iff.
  - now apply ot_round_i16_exact_iff.
  - now apply ot_round_i16_exact_iff.
  - eapply forallb_map_exact; [|exact Ck]. intros k Hf. rewrite metric_i16_eq. now apply ot_round_i16_exact_iff.
  - apply map_ext_in. intros a Ha. rewrite forallb_forall in Can. specialize (Can a Ha).
    rewrite !metric_i16_eq. exact (round_pt_exact a Can).
  - reflexivity.
  - destruct (s_vert s) as [origin|]; [|exact Hv].
    destruct Hv as [vv [Ev Hvv]]. apply andb_true_iff in Cv. destruct Cv as [Co Ch].
    destruct (vmetrics_emit _ _ _ _ _ L Hvv) as [V1 [V2 _]]. exists vv. split; [exact Ev|]. split.
    + rewrite V1. eapply forallb_map_exact; [|exact Ch]. intros g Hf. now apply ot_round_u16_exact_iff.
    + rewrite V2. apply map_ext. intro o.
      replace (ot_round_i16 origin) with (ot_round origin) by (symmetry; now apply ot_round_i16_exact_iff).
      reflexivity.
Qed.

(* ---- an emitted font passed every checked site ------------------------------------------------ *)
Lemma build_glyph_emit_checks : forall p glyphs g o,
  build_glyph p glyphs g = Emit o -> glyph_checksb glyphs g = true.
Proof.
  intros p glyphs g o H. destruct g as [a h cs|a h comps]; cbn [glyph_checksb].
  - destruct cs as [|c cs]; [reflexivity|]. cbn [build_glyph] in H.
    rewrite simple_glyph_eq in H by discriminate.
    destruct (outline_checksb (c :: cs)); [reflexivity|]. destruct (_ && _); discriminate.
  - destruct comps as [|ct comps]; [reflexivity|].
    rewrite build_glyph_composite in H. cbv zeta in H.
    destruct (decomposes (ct :: comps)).
    + destruct (decompose glyphs (ct :: comps)) as [|d ds] eqn:D; [reflexivity|].
      rewrite simple_glyph_eq in H by discriminate.
      destruct (outline_checksb (d :: ds)); [reflexivity|]. destruct (_ && _); discriminate.
    + destruct (forallb offset_fitsb (ct :: comps)); [reflexivity|discriminate].
Qed.

Lemma font_emit_checks : forall p s f, build p s = Emit f ->
  forallb (glyph_checksb (s_glyphs s)) (s_glyphs s) = true /\
  forallb (fun g => fits_u16 (ot_round (g_adv g))) (s_glyphs s) = true /\
  zlen (s_glyphs s) <= 65535 /\
  match s_vert s with
  | None => True
  | Some origin => forallb (fun o => fits_i16 (ot_round_i16 origin - glyf_ymax o)) (f_glyf f) = true
  end.
Proof.
  intros p s f H.
  destruct (build_emit_parts _ _ _ H) as [glyf [m [v [Hg [Hm [Hfit [Hv [E1 _]]]]]]]].
  pose proof (mapM_length _ _ _ Hg) as L. symmetry in L.
  split; [|split; [|split]].
  - apply forallb_forall. intros g Hin. apply mapM_emit in Hg.
    assert (Forall (fun g => glyph_checksb (s_glyphs s) g = true) (s_glyphs s)) as F
      by (apply (Forall2_left _ (fun g => glyph_checksb (s_glyphs s) g = true) _ _ Hg); intros a b E; eapply build_glyph_emit_checks; exact E).
    rewrite Forall_forall in F. now apply F.
  - exact (proj2 (hmetrics_emit _ _ _ L Hm)).
  - apply fits_u16_iff in Hfit. lia.
  - destruct (s_vert s) as [origin|]; [|exact I].
    destruct Hv as [vv [_ Hvv]]. rewrite E1. exact (proj2 (proj2 (vmetrics_emit _ _ _ _ _ L Hvv))).
Qed.
