(* C19 — lemmas about whole fonts: profile refinement, faithful emission, checked limits. *)
From Coq Require Import List ZArith QArith Qround Qabs Bool Lia Lqa.
From Coq Require Import ZifyBool.
From FV.C19 Require Import Model ProofsSites Spec ProofsGlyph.
Import ListNotations.
Ltac Zify.zify_post_hook ::= Z.div_mod_to_equations.
Open Scope Z_scope.

(* ---- lists --------------------------------------------------------------------------- *)
Lemma map_fst_combine : forall {A B C} (f : A -> C) (l : list A) (r : list B),
  length l = length r -> map (fun ab => f (fst ab)) (combine l r) = map f l.
Proof.
  intros A B C f. induction l as [|a l IH]; intros [|b r] H; cbn in *; try reflexivity; try discriminate.
  f_equal. apply IH. congruence.
Qed.
Lemma map_snd_combine : forall {A B C} (f : B -> C) (l : list A) (r : list B),
  length l = length r -> map (fun ab => f (snd ab)) (combine l r) = map f r.
Proof.
  intros A B C f. induction l as [|a l IH]; intros [|b r] H; cbn in *; try reflexivity; try discriminate.
  f_equal. apply IH. congruence.
Qed.

Lemma Forall2_impl_in : forall {A B} (R R' : A -> B -> Prop) l r,
  Forall2 R l r -> (forall a b, In a l -> R a b -> R' a b) -> Forall2 R' l r.
Proof.
  intros A B R R' l r H. induction H; intros K; constructor.
  - apply K; [now left|assumption].
  - apply IHForall2. intros. apply K; [now right|assumption].
Qed.

Lemma Forall2_map_eq : forall {A B C} (f : A -> C) (g : B -> C) l r,
  Forall2 (fun a b => g b = f a) l r -> map g r = map f l.
Proof. intros A B C f g l r H. induction H; cbn; congruence. Qed.

(* ---- the debug build panics, or both builds do the same ------------------------------- *)
Lemma refines_composite_limits : forall glyf g,
  refines (composite_limits Debug glyf g) (composite_limits Release glyf g).
Proof.
  intros glyf [|s|cs b]; cbn; try apply refines_refl.
  apply refines_bind; [apply refines_sum_u32|]. intro.
  apply refines_bind; [apply refines_sum_u32|]. intro. apply refines_refl.
Qed.

Lemma refines_vmetrics : forall o glyphs glyf,
  refines (vmetrics Debug o glyphs glyf) (vmetrics Release o glyphs glyf).
Proof.
  intros o glyphs glyf. unfold vmetrics. apply refines_mapM. intros [g out].
  apply refines_bind; [apply refines_arith|]. intro. apply refines_refl.
Qed.

Lemma debug_refines : forall s, refines (build Debug s) (build Release s).
Proof.
  intro s. unfold build.
  apply refines_bind; [apply refines_mapM; intro; apply refines_build_glyph|]. intro glyf.
  apply refines_bind; [apply refines_refl|]. intro nlong.
  apply refines_bind; [apply refines_mapM; intro; apply refines_composite_limits|]. intro cl.
  apply refines_bind; [apply refines_refl|]. intro ng.
  apply refines_bind; [|intro; apply refines_refl].
  destruct (s_vert s) as [o|]; [|apply refines_refl].
  apply refines_bind; [apply refines_vmetrics|]. intro. apply refines_refl.
Qed.

(* ---- a debug build that emits a font emits a faithful one when the casts fit -------------- *)
Lemma hmtx_advances : forall glyphs glyf, length glyphs = length glyf ->
  map fst (m_long (hmetrics glyphs glyf)) = map (fun g => ot_round_u16 (g_adv g)) glyphs.
Proof.
  intros glyphs glyf L. unfold hmetrics, metrics_of. cbn [m_long]. rewrite !map_map.
  rewrite <- (map_fst_combine (fun g => ot_round_u16 (g_adv g)) glyphs glyf L).
  apply map_ext. intros [g o]. unfold hrow, row_adv. cbn [fst].
  destruct (glyf_bbox o) as [[[[x0 y0] x1] y1]|]; reflexivity.
Qed.

Lemma vmetrics_debug : forall origin glyphs glyf v, length glyphs = length glyf ->
  vmetrics Debug origin glyphs glyf = Emit v ->
  map fst v = map (fun g => ot_round_u16 (g_height g)) glyphs /\
  map snd v = map (fun o => ot_round_i16 origin - glyf_ymax o) glyf.
Proof.
  intros origin glyphs glyf v L H. unfold vmetrics in H. apply mapM_emit in H.
  assert (Forall2 (fun (gg : glyph_src * glyf_out) (at_ : Z * Z) =>
            fst at_ = ot_round_u16 (g_height (fst gg)) /\
            snd at_ = ot_round_i16 origin - glyf_ymax (snd gg)) (combine glyphs glyf) v) as K.
  { eapply Forall2_impl_in; [exact H|]. intros [g o] [a t] _ E. cbn beta iota in E.
    apply bind_emit in E. destruct E as [tsb [E1 E2]]. inversion E2; subst a t.
    apply arith_debug_emit in E1. destruct E1 as [E1 _]. cbn [fst snd]. split; [reflexivity|].
    rewrite E1. unfold glyf_ymax. destruct (glyf_bbox o) as [[[[x0 y0] x1] y1]|]; reflexivity. }
  rewrite <- (map_fst_combine (fun g => ot_round_u16 (g_height g)) glyphs glyf L).
  rewrite <- (map_snd_combine (fun o => ot_round_i16 origin - glyf_ymax o) glyphs glyf L).
  split; apply Forall2_map_eq; eapply Forall2_impl_in; try exact K; intros gg at_ _ [K1 K2]; assumption.
Qed.

Lemma forallb_map_exact : forall {A} (f g : A -> Z) (fit : A -> bool) l,
  (forall a, fit a = true -> f a = g a) -> forallb fit l = true -> map f l = map g l.
Proof.
  intros A f g fit l K H. apply map_ext_in. intros a Ha. apply K.
  rewrite forallb_forall in H. now apply H.
Qed.

Lemma font_faithful_debug : forall s f,
  casts_fitb s = true -> build Debug s = Emit f -> faithful s f.
Proof.
  intros s f Hc H. unfold build in H. cbv zeta in H.
  apply bind_emit in H. destruct H as [glyf [Hg H]].
  apply bind_emit in H. destruct H as [nlong [Hn H]].
  apply bind_emit in H. destruct H as [cl [Hcl H]].
  apply bind_emit in H. destruct H as [ng [Hng H]].
  apply bind_emit in H. destruct H as [vm [Hvm H]]. cbv beta zeta in H. inversion H; subst f; clear H.
  pose proof (mapM_length _ _ _ Hg) as L. symmetry in L.
  unfold casts_fitb in Hc. rewrite !andb_true_iff in Hc.
  destruct Hc as [[[[[[[Cg Ca] Casc] Cdesc] Cgap] Ck] Can] Cv].
  unfold faithful. cbn [f_glyf f_hmtx f_asc f_desc f_gap f_kern f_anchor f_maxp x_num_glyphs f_vmtx].
  split; [|split; [|split; [|split; [|split; [|split; [|split; [|split]]]]]]].
  - apply mapM_emit in Hg. eapply Forall2_impl_in; [exact Hg|]. intros g o Hin E.
    apply build_glyph_debug_faithful; [|exact E]. rewrite forallb_forall in Cg. now apply Cg.
  - etransitivity; [exact (hmtx_advances _ _ L)|]. eapply forallb_map_exact; [|exact Ca].
    intros g Hf. now apply ot_round_u16_exact_iff.
  - now apply ot_round_i16_exact_iff.
  - now apply ot_round_i16_exact_iff.
  - now apply ot_round_i16_exact_iff.
  - eapply forallb_map_exact; [|exact Ck]. intros k Hf. rewrite metric_i16_eq. now apply ot_round_i16_exact_iff.
  - apply map_ext_in. intros a Ha. rewrite forallb_forall in Can. specialize (Can a Ha).
    rewrite !metric_i16_eq. exact (round_pt_exact a Can).
  - apply unwrap_u16_emit in Hng. tauto.
  - destruct (s_vert s) as [origin|].
    + apply bind_emit in Hvm. destruct Hvm as [v [Hv Hvm]].
      apply bind_emit in Hvm. destruct Hvm as [x [_ Hvm]]. inversion Hvm; subst vm.
      apply andb_true_iff in Cv. destruct Cv as [Co Ch].
      destruct (vmetrics_debug _ _ _ _ L Hv) as [V1 V2]. exists v. split; [reflexivity|]. split.
      * rewrite V1. eapply forallb_map_exact; [|exact Ch]. intros g Hf. now apply ot_round_u16_exact_iff.
      * rewrite V2. apply map_ext. intro o.
        replace (ot_round_i16 origin) with (ot_round origin) by (symmetry; now apply ot_round_i16_exact_iff).
        reflexivity.
    + now inversion Hvm.
Qed.

(* ---- checked limits ------------------------------------------------------------------------ *)
(* more than 65535 glyphs: no profile emits a font *)
Lemma too_many_glyphs_rejected : forall p s, 65535 < zlen (s_glyphs s) -> emitted (build p s) = false.
Proof.
  intros p s H. unfold build.
  destruct (mapM (build_glyph p (s_glyphs s)) (s_glyphs s)) as [glyf| |]; cbn [bind emitted]; try reflexivity.
  destruct (try_u16 _) as [nlong| |]; cbn [bind emitted]; try reflexivity.
  destruct (mapM (composite_limits p glyf) glyf) as [cl| |]; cbn [bind emitted]; try reflexivity.
  unfold unwrap_u16. assert (fits_u16 (zlen (s_glyphs s)) = false) as F by (unfold fits_u16; lia).
  rewrite F. reflexivity.
Qed.

(* composite totals: for at most 65536 components the sums cannot overflow u32, so the
   outcome is the exact total or a rejection, the same in both profiles *)
Lemma comp_limit_range : forall glyf c, 0 <= fst (comp_limit glyf c) <= 65535 /\ 0 <= snd (comp_limit glyf c) <= 65535.
Proof.
  intros glyf c. unfold comp_limit. destruct (nth_error glyf (Z.to_nat (co_gid c))) as [g|]; [|cbn; lia].
  destruct g; cbn; try lia. split; apply wrap_u16_range.
Qed.

Lemma composite_limits_exact : forall p glyf cs b, zlen cs <= 65536 ->
  let pts := zsum (map (fun c => fst (comp_limit glyf c)) cs) in
  let ctr := zsum (map (fun c => snd (comp_limit glyf c)) cs) in
  composite_limits p glyf (GComposite cs b) =
    (if fits_u16 pts && fits_u16 ctr then Emit (Some (pts, ctr)) else Reject).
Proof.
  intros p glyf cs b Hn pts ctr. cbn [composite_limits].
  assert (forall sel : Z * Z -> Z, (forall c, 0 <= sel (comp_limit glyf c) <= 65535) ->
          sum_u32 p 0 (map (fun c => sel (comp_limit glyf c)) cs) = Emit (zsum (map (fun c => sel (comp_limit glyf c)) cs))) as K.
  { intros sel R.
    assert (Forall (fun x => 0 <= x <= 65535) (map (fun c => sel (comp_limit glyf c)) cs)) as F.
    { apply Forall_forall. intros x Hx. apply in_map_iff in Hx. destruct Hx as [c [E _]]. subst x. apply R. }
    pose proof (zsum_bound _ _ F) as B. unfold zlen in *. rewrite map_length in B.
    rewrite (sum_u32_exact p _ 0); [f_equal; lia|lia| |lia].
    eapply Forall_impl; [|exact F]. cbn. intros; lia. }
  rewrite (K fst) by (intro c; apply (comp_limit_range glyf c)). cbn [bind].
  rewrite (K snd) by (intro c; apply (comp_limit_range glyf c)). cbn [bind].
  fold pts ctr. unfold try_u16. destruct (fits_u16 pts); cbn; [|reflexivity].
  destruct (fits_u16 ctr); reflexivity.
Qed.
