(* C19 — helpers for the harness-written correspondence cases (no proofs). *)
From Coq Require Import List ZArith QArith Bool.
From FV.C19 Require Import Model.
Import ListNotations.
Open Scope Z_scope.

Definition omap {A B} (f : A -> B) (o : outcome A) : outcome B :=
  match o with Emit a => Emit (f a) | Reject => Reject | Panic => Panic end.
Definition project (f : font -> list Z) (o : outcome font) : outcome (list Z) := omap f o.

Fixpoint zl_eqb (a b : list Z) : bool :=
  match a, b with
  | [], [] => true
  | x :: a', y :: b' => (x =? y) && zl_eqb a' b'
  | _, _ => false
  end.
Definition obs_eqb (a b : outcome (list Z)) : bool :=
  match a, b with
  | Emit x, Emit y => zl_eqb x y
  | Reject, Reject => true
  | Panic, Panic => true
  | _, _ => false
  end.

Definition bbox_list (b : bbox) : list Z := let '(x0, y0, x1, y1) := b in [x0; y0; x1; y1].

(* the layout of the harness' dump_body *)
Definition dump_glyf (g : glyf_out) : list Z :=
  match g with
  | GEmpty => [-1]
  | GSimple s =>
      [0; zlen (so_ends s)] ++ so_ends s ++ [zlen (so_dx s)]
      ++ flat_map (fun p => [fst p; snd p]) (decode_simple s) ++ bbox_list (so_bbox s)
  | GComposite cs b =>
      [1; zlen cs]
      ++ flat_map (fun c => let '(xx, yx, xy, yy) := co_m c in [co_gid c; co_dx c; co_dy c; xx; yx; xy; yy]) cs
      ++ bbox_list b
  end.

Definition mk_src (g : list glyph_src) (asc desc gap : Q) (vert : option Q) (kern : list Q) (anchor : list pt) : src :=
  {| s_glyphs := g; s_asc := asc; s_desc := desc; s_gap := gap; s_vert := vert; s_kern := kern; s_anchor := anchor |}.

(* fontir glyph.rs synthesize_notdef for upem 1000, ascender 800, descender -200 *)
Definition notdef_src : glyph_src :=
  SrcSimple 500 1000
    [ [(50, -200); (450, -200); (450, 800); (50, 800)];
      [(100, -150); (100, 750); (400, 750); (400, -150)] ]%Q.

Definition unit100 : contour := [(0, 0); (100, 0); (100, 100); (0, 100)]%Q.

(* counting in Z (Z.of_nat on a unary index would make the generators quadratic) *)
Fixpoint zseq_map {A} (f : Z -> A) (i : Z) (n : nat) : list A :=
  match n with O => [] | S m => f i :: zseq_map f (i + 1) m end.

(* the harness' zigzag(np): point i = (i mod 20000, 40 * (i / 20000) + 10 * (i mod 2)) *)
Definition zigzag (n : nat) : contour :=
  zseq_map (fun z => (inject_Z (z mod 20000), inject_Z (40 * (z / 20000) + 10 * (z mod 2)))) 0 n.

(* n two-point contours: contour i = (10 (i mod 200), 10 (i / 200)), (+5, +5) *)
Definition twopoints (n : nat) : list contour :=
  zseq_map (fun z => [(inject_Z (10 * (z mod 200)), inject_Z (10 * (z / 200)));
                      (inject_Z (10 * (z mod 200) + 5), inject_Z (10 * (z / 200) + 5))]) 0 n.

(* k components of glyph gid at offsets (i mod 100, i / 100) *)
Definition grid_comps (gid : Z) (k : nat) : list (Z * affine) :=
  zseq_map (fun z => (gid, (1, 0, 0, 1, inject_Z (z mod 100), inject_Z (z / 100))%Q)) 0 k.

Definition empty_glyphs (distinct : bool) (n : nat) : list glyph_src :=
  zseq_map (fun z => SrcSimple (if distinct then inject_Z (500 + z mod 2) else 600) 1000 []) 0 n.

(* x extent of the rectangle between 0 and x, at the default and at master 1 *)
Definition extent2 (x0 x1 : Z) : list Z := [Z.min x0 0; Z.max x0 0; Z.min x1 0; Z.max x1 0].
(* x extent of the unit square moved by the component offset *)
Definition shifted2 (x0 x1 : Z) : list Z := [x0; x0 + 1; x1; x1 + 1].
