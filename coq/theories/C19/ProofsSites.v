(* C19 — lemmas about the single narrowing sites. *)
From Coq Require Import List ZArith QArith Qround Qabs Bool Lia Lqa.
From Coq Require Import ZifyBool.
From FV.C19 Require Import Model.
Import ListNotations.
Ltac Zify.zify_post_hook ::= Z.div_mod_to_equations.
Open Scope Z_scope.

(* ---- ranges ------------------------------------------------------------------- *)
Lemma fits_i16_iff : forall z, fits_i16 z = true <-> -32768 <= z <= 32767.
Proof. intro z. unfold fits_i16. lia. Qed.
Lemma fits_u16_iff : forall z, fits_u16 z = true <-> 0 <= z <= 65535.
Proof. intro z. unfold fits_u16. lia. Qed.
Lemma fits_u32_iff : forall z, fits_u32 z = true <-> 0 <= z <= 4294967295.
Proof. intro z. unfold fits_u32. lia. Qed.

Lemma sat_i16_id_iff : forall z, sat_i16 z = z <-> fits_i16 z = true.
Proof. intro z. rewrite fits_i16_iff. unfold sat_i16. lia. Qed.
Lemma sat_u16_id_iff : forall z, sat_u16 z = z <-> fits_u16 z = true.
Proof. intro z. rewrite fits_u16_iff. unfold sat_u16. lia. Qed.
Lemma sat_i16_fits : forall z, fits_i16 (sat_i16 z) = true.
Proof. intro z. rewrite fits_i16_iff. unfold sat_i16. lia. Qed.
Lemma sat_u16_fits : forall z, fits_u16 (sat_u16 z) = true.
Proof. intro z. rewrite fits_u16_iff. unfold sat_u16. lia. Qed.
Lemma sat_i16_mono : forall a b, a <= b -> sat_i16 a <= sat_i16 b.
Proof. intros. unfold sat_i16. lia. Qed.

Lemma wrap_u16_id : forall z, fits_u16 z = true -> wrap_u16 z = z.
Proof. intros z H. apply fits_u16_iff in H. unfold wrap_u16. lia. Qed.
Lemma wrap_u16_range : forall z, 0 <= wrap_u16 z <= 65535.
Proof. intro z. unfold wrap_u16. lia. Qed.
Lemma wrap_i16_id_iff : forall z, wrap_i16 z = z <-> fits_i16 z = true.
Proof. intro z. rewrite fits_i16_iff. unfold wrap_i16. lia. Qed.
Lemma wrap_u16_id_iff : forall z, wrap_u16 z = z <-> fits_u16 z = true.
Proof. intro z. rewrite fits_u16_iff. unfold wrap_u16. lia. Qed.
Lemma wrap_u32_id_iff : forall z, wrap_u32 z = z <-> fits_u32 z = true.
Proof. intro z. rewrite fits_u32_iff. unfold wrap_u32. lia. Qed.

(* ---- saturating float casts ------------------------------------------------------- *)
Lemma ot_round_i16_exact_iff : forall q, ot_round_i16 q = ot_round q <-> fits_i16 (ot_round q) = true.
Proof. intro q. apply sat_i16_id_iff. Qed.
Lemma ot_round_u16_exact_iff : forall q, ot_round_u16 q = ot_round q <-> fits_u16 (ot_round q) = true.
Proof. intro q. apply sat_u16_id_iff. Qed.

Lemma inject_Z_le : forall a b, (a <= b)%Z -> (inject_Z a <= inject_Z b)%Q.
Proof. intros a b H. now rewrite <- Zle_Qle. Qed.
Lemma inject_Z_le_inv : forall a b, (inject_Z a <= inject_Z b)%Q -> (a <= b)%Z.
Proof. intros a b H. now rewrite Zle_Qle. Qed.
Lemma inject_Z_lt_inv : forall a b, (inject_Z a < inject_Z b)%Q -> (a < b)%Z.
Proof. intros a b H. now rewrite Zlt_Qlt. Qed.

Lemma ot_round_Z : forall z, ot_round (inject_Z z) = z.
Proof.
  intro z. unfold ot_round.
  pose proof (Qfloor_le (inject_Z z + (1 # 2))) as A.
  pose proof (Qlt_floor (inject_Z z + (1 # 2))) as B.
  set (f := Qfloor (inject_Z z + (1 # 2))) in *.
  rewrite inject_Z_plus in B. change (inject_Z 1) with 1%Q in B.
  assert (f < z + 1) as L.
  { apply inject_Z_lt_inv. rewrite inject_Z_plus. change (inject_Z 1) with 1%Q. lra. }
  assert (z < f + 1) as U.
  { apply inject_Z_lt_inv. rewrite inject_Z_plus. change (inject_Z 1) with 1%Q. lra. }
  lia.
Qed.

Lemma metric_i16_eq : forall v, metric_i16 v = ot_round_i16 v.
Proof. intro v. unfold metric_i16, ot_round_i16. now rewrite ot_round_Z. Qed.

Lemma ot_round_comp : forall a b, (a == b)%Q -> ot_round a = ot_round b.
Proof. intros a b E. unfold ot_round. apply Qfloor_comp. now rewrite E. Qed.

(* ---- F2Dot14 --------------------------------------------------------------------- *)
Open Scope Q_scope.

Lemma Qle_bool_false_lt : forall a b, Qle_bool a b = false -> b < a.
Proof.
  intros a b E. destruct (Qlt_le_dec b a) as [L|G]; [exact L|].
  apply Qle_bool_iff in G. rewrite G in E. discriminate.
Qed.

Lemma Qmake_inject : forall z p, (z # p) == inject_Z z * (1 # p).
Proof. intros z p. unfold Qeq, inject_Z, Qmult. simpl. lia. Qed.

(* the rounding step of F2Dot14::from_f64 before the cast *)
Definition f2dot14_raw (q : Q) : Z :=
  Qtrunc (q * 16384 + (if Qle_bool 0 q then 1 # 2 else - (1 # 2))).

Lemma f2dot14_raw_pos : forall q, 0 <= q -> f2dot14_raw q = Qfloor (q * 16384 + (1 # 2)).
Proof.
  intros q H. unfold f2dot14_raw, Qtrunc.
  assert (Qle_bool 0 q = true) as E by (now apply Qle_bool_iff). rewrite E.
  assert (Qle_bool 0 (q * 16384 + (1 # 2)) = true) as E2 by (apply Qle_bool_iff; lra).
  now rewrite E2.
Qed.

Lemma f2dot14_raw_neg : forall q, q < 0 -> f2dot14_raw q = Qceiling (q * 16384 - (1 # 2)).
Proof.
  intros q H. unfold f2dot14_raw, Qtrunc.
  assert (Qle_bool 0 q = false) as E.
  { destruct (Qle_bool 0 q) eqn:E; [|reflexivity]. apply Qle_bool_iff in E. lra. }
  rewrite E.
  assert (Qle_bool 0 (q * 16384 + - (1 # 2)) = false) as E2.
  { destruct (Qle_bool 0 (q * 16384 + - (1 # 2))) eqn:E2; [|reflexivity]. apply Qle_bool_iff in E2. lra. }
  rewrite E2. apply Qceiling_comp. lra.
Qed.

(* half a unit before saturation *)
Lemma f2dot14_raw_error : forall q, Qabs (inject_Z (f2dot14_raw q) - q * 16384) <= 1 # 2.
Proof.
  intro q. apply Qabs_Qle_condition.
  destruct (Qlt_le_dec q 0) as [L|G].
  - rewrite (f2dot14_raw_neg q L).
    pose proof (Qle_ceiling (q * 16384 - (1 # 2))) as A.
    pose proof (Qceiling_lt (q * 16384 - (1 # 2))) as B.
    unfold Z.sub in B. rewrite inject_Z_plus in B. change (inject_Z (Z.opp 1)) with (-1) in B. split; lra.
  - rewrite (f2dot14_raw_pos q G).
    pose proof (Qfloor_le (q * 16384 + (1 # 2))) as A.
    pose proof (Qlt_floor (q * 16384 + (1 # 2))) as B.
    rewrite inject_Z_plus in B. change (inject_Z 1) with 1 in B. split; lra.
Qed.

(* within [-2, 2] the raw value is within [-32768, 32768] *)
Lemma f2dot14_raw_range : forall q, -2 <= q -> q <= 2 -> (-32768 <= f2dot14_raw q <= 32768)%Z.
Proof.
  intros q L U.
  pose proof (f2dot14_raw_error q) as E. apply Qabs_Qle_condition in E. destruct E as [E1 E2].
  assert (-32769 < f2dot14_raw q)%Z as K1.
  { apply inject_Z_lt_inv. change (inject_Z (-32769)) with (-32769#1). lra. }
  assert (f2dot14_raw q < 32769)%Z as K2.
  { apply inject_Z_lt_inv. change (inject_Z 32769) with (32769#1). lra. }
  lia.
Qed.

(* the emitted 2.14 value is within one quantum (2^-14) of a source value in [-2, 2]
   (half a quantum, except that 2.0 itself is written as 0x7fff as fontTools does) *)
Lemma f2dot14_close : forall q, -2 <= q -> q <= 2 -> Qabs ((f2dot14 q # 16384) - q) <= 1 # 16384.
Proof.
  intros q L U.
  pose proof (f2dot14_raw_range q L U) as R.
  pose proof (f2dot14_raw_error q) as E. apply Qabs_Qle_condition in E. destruct E as [E1 E2].
  change (f2dot14 q) with (sat_i16 (f2dot14_raw q)).
  rewrite Qmake_inject. apply Qabs_Qle_condition.
  destruct (Z.eq_dec (f2dot14_raw q) 32768) as [T|T].
  - rewrite T in *. change (sat_i16 32768) with 32767%Z.
    change (inject_Z 32768) with (32768#1) in *. change (inject_Z 32767) with (32767#1). split; lra.
  - assert (sat_i16 (f2dot14_raw q) = f2dot14_raw q) as S by (unfold sat_i16; lia).
    rewrite S. split; lra.
Qed.

(* beyond 2 every value is written as 0x7fff: the error is q - 1.99994, unbounded *)
Lemma f2dot14_saturates_high : forall q, 2 < q -> f2dot14 q = 32767%Z.
Proof.
  intros q H. change (f2dot14 q) with (sat_i16 (f2dot14_raw q)).
  pose proof (f2dot14_raw_error q) as E. apply Qabs_Qle_condition in E. destruct E as [E1 E2].
  assert (32767 < f2dot14_raw q)%Z as K.
  { apply inject_Z_lt_inv. change (inject_Z 32767) with (32767#1). lra. }
  unfold sat_i16. lia.
Qed.
Lemma f2dot14_saturates_low : forall q, q < -2 -> f2dot14 q = (-32768)%Z.
Proof.
  intros q H. change (f2dot14 q) with (sat_i16 (f2dot14_raw q)).
  pose proof (f2dot14_raw_error q) as E. apply Qabs_Qle_condition in E. destruct E as [E1 E2].
  assert (f2dot14_raw q <= -32768)%Z as K.
  { assert (f2dot14_raw q < -32767)%Z as K'.
    { apply inject_Z_lt_inv. change (inject_Z (-32767)) with (-32767#1). lra. }
    lia. }
  unfold sat_i16. lia.
Qed.

(* so beyond the range the emitted value is NOT within a quantum as soon as q > 2 + 2^-14 *)
Lemma f2dot14_far : forall q, 2 + (1 # 8192) < q -> ~ Qabs ((f2dot14 q # 16384) - q) <= 1 # 16384.
Proof.
  intros q H A. rewrite f2dot14_saturates_high in A by lra.
  apply Qabs_Qle_condition in A. destruct A as [A1 A2].
  assert ((32767 # 16384) == 2 - (1#16384)) as K by reflexivity. lra.
Qed.

(* the gate of fontir: has_overflowing_2x2_transforms *)
Lemma in_2x2_range_iff : forall q, in_2x2_range q = true <-> -2 <= q /\ q <= 2.
Proof.
  intro q. unfold in_2x2_range. rewrite andb_true_iff, !Qle_bool_iff.
  change (-2)%Q with (- (2))%Q. reflexivity.
Qed.

Open Scope Z_scope.

(* ---- narrow arithmetic ----------------------------------------------------------------- *)
Lemma arith_fits : forall fits wrap p z, fits z = true -> arith fits wrap p z = Emit z.
Proof. intros fits wrap p z H. unfold arith. now rewrite H. Qed.

Lemma arith_debug_emit : forall fits wrap z v, arith fits wrap Debug z = Emit v -> v = z /\ fits z = true.
Proof. intros fits wrap z v H. unfold arith in H. destruct (fits z); [inversion H; auto|discriminate]. Qed.

Lemma arith_release_total : forall fits wrap z, exists v, arith fits wrap Release z = Emit v.
Proof. intros fits wrap z. unfold arith. destruct (fits z); eauto. Qed.

(* Debug and Release agree exactly when the result fits (given that the wrapped
   value differs from the true one when it does not fit) *)
Lemma arith_agree_iff : forall fits wrap z,
  arith fits wrap Debug z = arith fits wrap Release z <-> fits z = true.
Proof.
  intros fits wrap z. unfold arith. destruct (fits z); split; intro H; try reflexivity; discriminate.
Qed.

Lemma arith_not_panic_agree : forall fits wrap z,
  arith fits wrap Debug z <> Panic -> arith fits wrap Release z = arith fits wrap Debug z.
Proof. intros fits wrap z H. unfold arith in *. destruct (fits z); [reflexivity|congruence]. Qed.

Lemma sub_i16_release_wrong : forall a b v, fits_i16 (a - b) = false -> sub_i16 Release a b = Emit v -> v <> a - b.
Proof.
  intros a b v F H. unfold sub_i16, arith in H. rewrite F in H. inversion H; subst. intro E.
  apply wrap_i16_id_iff in E. congruence.
Qed.

Lemma try_u16_emit : forall z v, try_u16 z = Emit v -> v = z /\ fits_u16 z = true.
Proof. intros z v H. unfold try_u16 in H. destruct (fits_u16 z); [inversion H; auto|discriminate]. Qed.
Lemma try_u16_not_panic : forall z, try_u16 z <> Panic.
Proof. intro z. unfold try_u16. destruct (fits_u16 z); discriminate. Qed.
Lemma try_i16_emit : forall z v, try_i16 z = Emit v -> v = z /\ fits_i16 z = true.
Proof. intros z v H. unfold try_i16 in H. destruct (fits_i16 z); [inversion H; auto|discriminate]. Qed.
Lemma unwrap_u16_emit : forall z v, unwrap_u16 z = Emit v -> v = z /\ fits_u16 z = true.
Proof. intros z v H. unfold unwrap_u16 in H. destruct (fits_u16 z); [inversion H; auto|discriminate]. Qed.

(* ---- the outcome monad --------------------------------------------------------------------- *)
Lemma bind_emit : forall {A B} (o : outcome A) (k : A -> outcome B) b,
  bind o k = Emit b -> exists a, o = Emit a /\ k a = Emit b.
Proof. intros A B o k b H. destruct o; cbn in H; try discriminate. eauto. Qed.

Lemma mapM_emit : forall {A B} (f : A -> outcome B) l r,
  mapM f l = Emit r -> Forall2 (fun a b => f a = Emit b) l r.
Proof.
  intros A B f. induction l as [|a l IH]; intros r H; cbn in H.
  - inversion H. constructor.
  - apply bind_emit in H. destruct H as [b [Hb H]].
    apply bind_emit in H. destruct H as [r' [Hr H]]. inversion H; subst.
    constructor; auto.
Qed.

Lemma mapM_of_Forall2 : forall {A B} (f : A -> outcome B) l r,
  Forall2 (fun a b => f a = Emit b) l r -> mapM f l = Emit r.
Proof.
  intros A B f l r H. induction H; cbn; [reflexivity|]. rewrite H, IHForall2. reflexivity.
Qed.

Lemma Forall2_len : forall {A B} (R : A -> B -> Prop) l r, Forall2 R l r -> length l = length r.
Proof. intros A B R l r H. induction H; cbn; congruence. Qed.

Lemma mapM_length : forall {A B} (f : A -> outcome B) l r, mapM f l = Emit r -> length r = length l.
Proof. intros A B f l r H. apply mapM_emit in H. symmetry. eapply Forall2_len; eauto. Qed.

(* "the debug build panics, or both builds do the same": preserved by bind and mapM *)
Definition refines {A} (d r : outcome A) : Prop := d = Panic \/ d = r.

Lemma refines_refl : forall {A} (o : outcome A), refines o o.
Proof. intros. now right. Qed.

Lemma refines_bind : forall {A B} (d r : outcome A) (kd kr : A -> outcome B),
  refines d r -> (forall a, refines (kd a) (kr a)) -> refines (bind d kd) (bind r kr).
Proof.
  intros A B d r kd kr [H|H] K; subst.
  - now left.
  - destruct r; cbn; [apply K|now right|now right].
Qed.

Lemma refines_mapM : forall {A B} (fd fr : A -> outcome B) l,
  (forall a, refines (fd a) (fr a)) -> refines (mapM fd l) (mapM fr l).
Proof.
  intros A B fd fr l K. induction l as [|a l IH]; cbn; [apply refines_refl|].
  apply refines_bind; [apply K|]. intro b. apply refines_bind; [exact IH|]. intro. apply refines_refl.
Qed.

Lemma refines_arith : forall fits wrap z, refines (arith fits wrap Debug z) (arith fits wrap Release z).
Proof. intros fits wrap z. unfold refines, arith. destruct (fits z); auto. Qed.

(* ---- coordinate deltas ----------------------------------------------------------------------- *)
(* the exact differences *)
Fixpoint diff_list (last : Z) (l : list Z) : list Z :=
  match l with [] => [] | x :: t => (x - last) :: diff_list x t end.

(* the step check walks one sequence: the step from the last element of a prefix to the
   element that follows it is checked like any other (contour seams) *)
Lemma last_cons_nonempty : forall {A} (l : list A) a d, List.last (a :: l) d = List.last l a.
Proof.
  intros A l. induction l as [|b t IH]; intros a d; [reflexivity|].
  change (List.last (a :: b :: t) d) with (List.last (b :: t) d). rewrite (IH b d), (IH b a). reflexivity.
Qed.

Lemma diffs_fitb_seam : forall l1 x l2 last,
  diffs_fitb last (l1 ++ x :: l2) = true -> fits_i16 (x - List.last l1 last) = true.
Proof.
  induction l1 as [|a l1 IH]; intros x l2 last H; cbn [app diffs_fitb] in H;
    apply andb_true_iff in H; destruct H as [H1 H2].
  - exact H1.
  - rewrite last_cons_nonempty. exact (IH _ _ _ H2).
Qed.

Lemma undeltas_diff_list : forall l last, undeltas last (diff_list last l) = l.
Proof.
  induction l as [|x t IH]; intros last; cbn; [reflexivity|].
  replace (last + (x - last)) with x by lia. now rewrite IH.
Qed.

Lemma deltas_fit_eq : forall p l last, diffs_fitb last l = true -> deltas p last l = Emit (diff_list last l).
Proof.
  intros p. induction l as [|x t IH]; intros last H; cbn in *; [reflexivity|].
  apply andb_true_iff in H. destruct H as [H1 H2].
  unfold sub_i16. rewrite (arith_fits _ _ p _ H1). cbn. rewrite (IH _ H2). reflexivity.
Qed.

Lemma deltas_fit : forall p l last, diffs_fitb last l = true ->
  exists ds, deltas p last l = Emit ds /\ undeltas last ds = l /\ length ds = length l.
Proof.
  intros p. induction l as [|x t IH]; intros last H; cbn in *.
  - exists []. auto.
  - apply andb_true_iff in H. destruct H as [H1 H2].
    destruct (IH x H2) as [ds [E [U L]]].
    unfold sub_i16. rewrite (arith_fits _ _ p _ H1). cbn. rewrite E. cbn.
    exists ((x - last) :: ds). split; [reflexivity|]. cbn.
    replace (last + (x - last)) with x by lia. rewrite U. split; [reflexivity|]. now rewrite L.
Qed.

(* a debug build that writes the deltas at all writes the exact ones *)
Lemma deltas_debug_exact : forall l last ds, deltas Debug last l = Emit ds ->
  undeltas last ds = l /\ diffs_fitb last l = true /\ length ds = length l.
Proof.
  induction l as [|x t IH]; intros last ds H; cbn in *.
  - inversion H. auto.
  - apply bind_emit in H. destruct H as [d [Hd H]].
    apply bind_emit in H. destruct H as [r [Hr H]]. inversion H; subst.
    apply arith_debug_emit in Hd. destruct Hd as [Hd Hf]. subst d.
    destruct (IH _ _ Hr) as [U [F L]]. cbn.
    replace (last + (x - last)) with x by lia. rewrite U, Hf, F, L. auto.
Qed.

(* a release build always writes deltas; they decode to the points iff all differences fit *)
Lemma deltas_release_total : forall l last, exists ds, deltas Release last l = Emit ds /\ length ds = length l.
Proof.
  induction l as [|x t IH]; intros last; cbn.
  - exists []. auto.
  - destruct (arith_release_total fits_i16 wrap_i16 (x - last)) as [d Hd].
    destruct (IH x) as [ds [E L]]. unfold sub_i16. rewrite Hd. cbn. rewrite E. cbn.
    exists (d :: ds). cbn. now rewrite L.
Qed.

Lemma deltas_release_exact_iff : forall l last ds, deltas Release last l = Emit ds ->
  (undeltas last ds = l <-> diffs_fitb last l = true).
Proof.
  induction l as [|x t IH]; intros last ds H; cbn in *.
  - inversion H. cbn. tauto.
  - apply bind_emit in H. destruct H as [d [Hd H]].
    apply bind_emit in H. destruct H as [r [Hr H]]. inversion H; subst. cbn.
    unfold sub_i16, arith in Hd.
    destruct (fits_i16 (x - last)) eqn:F.
    + inversion Hd; subst. replace (last + (x - last)) with x by lia.
      rewrite andb_true_l. rewrite <- (IH _ _ Hr). split; intro E; [now inversion E|now rewrite E].
    + inversion Hd; subst. rewrite andb_false_l. split; [|discriminate].
      intro E. inversion E as [[E1 E2]]. exfalso.
      assert (wrap_i16 (x - last) = x - last) as W by lia.
      apply wrap_i16_id_iff in W. congruence.
Qed.

Lemma deltas_agree_iff : forall l last, deltas Debug last l = deltas Release last l <-> diffs_fitb last l = true.
Proof.
  intros l last. split.
  - intro E. destruct (deltas_release_total l last) as [ds [R _]]. rewrite R in E.
    now destruct (deltas_debug_exact _ _ _ E) as [_ [F _]].
  - intro F. destruct (deltas_fit Debug l last F) as [d1 [E1 [U1 _]]].
    destruct (deltas_fit Release l last F) as [d2 [E2 [U2 _]]].
    rewrite E1, E2. f_equal.
    (* both decode to l: equal because undeltas is injective *)
    clear E1 E2 F. revert last d2 U1 U2.
    generalize dependent l. induction d1 as [|a d1 IH]; intros l last d2 U1 U2.
    + cbn in U1. subst l. destruct d2; [reflexivity|discriminate].
    + destruct d2 as [|b d2]; cbn in *; [subst l; discriminate|].
      subst l. inversion U2 as [[E1 E2]]. assert (a = b) by lia. subst b. f_equal.
      eapply IH; [reflexivity|]. exact E2.
Qed.

Lemma refines_deltas : forall l last, refines (deltas Debug last l) (deltas Release last l).
Proof.
  induction l as [|x t IH]; intros last; cbn; [apply refines_refl|].
  apply refines_bind; [apply refines_arith|]. intro d.
  apply refines_bind; [apply IH|]. intro. apply refines_refl.
Qed.

(* ---- contour end points ------------------------------------------------------------------------- *)
(* exact end points: running totals minus one *)
Fixpoint cum_ends (cur : Z) (lens : list Z) : list Z :=
  match lens with [] => [] | n :: t => (cur + n - 1) :: cum_ends (cur + n) t end.

Definition zsum (l : list Z) : Z := fold_right Z.add 0 l.

Lemma zsum_nonneg : forall l c, Forall (fun n => c <= n) l -> 0 <= c -> 0 <= zsum l.
Proof.
  intros l c H Hc. induction H as [|y l' Hy Hl IH]; [cbn; lia|].
  change (zsum (y :: l')) with (y + zsum l'). lia.
Qed.

Lemma end_pts_exact : forall p lens cur,
  0 <= cur -> Forall (fun n => 1 <= n) lens -> cur + zsum lens <= 65535 ->
  end_pts p cur lens = Emit (cum_ends cur lens).
Proof.
  intros p. induction lens as [|n t IH]; intros cur Hc Hl Hs; cbn [end_pts cum_ends]; [reflexivity|].
  change (zsum (n :: t)) with (n + zsum t) in Hs.
  inversion Hl as [|? ? Hn Ht]; subst.
  assert (0 <= zsum t) as Hz by (apply (zsum_nonneg t 1); [exact Ht|lia]).
  rewrite wrap_u16_id by (apply fits_u16_iff; lia).
  unfold sub_u16. rewrite arith_fits by (apply fits_u16_iff; lia). cbn.
  rewrite IH by (try assumption; lia). reflexivity.
Qed.

Lemma refines_end_pts : forall lens cur, refines (end_pts Debug cur lens) (end_pts Release cur lens).
Proof.
  induction lens as [|n t IH]; intros cur; cbn; [apply refines_refl|].
  apply refines_bind; [apply refines_arith|]. intro.
  apply refines_bind; [apply IH|]. intro. apply refines_refl.
Qed.

(* ---- u32 sums of update_composite_limits ---------------------------------------------------------- *)
Lemma sum_u32_exact : forall p l acc,
  0 <= acc -> Forall (fun x => 0 <= x) l -> acc + zsum l <= 4294967295 ->
  sum_u32 p acc l = Emit (acc + zsum l).
Proof.
  intros p. induction l as [|x t IH]; intros acc Ha Hl Hs; cbn [sum_u32].
  - f_equal. cbn. lia.
  - change (zsum (x :: t)) with (x + zsum t) in *.
    inversion Hl as [|? ? Hx Ht]; subst.
    assert (0 <= zsum t) as Hz by (apply (zsum_nonneg t 0); [exact Ht|lia]).
    unfold add_u32. rewrite arith_fits by (apply fits_u32_iff; lia). cbn.
    rewrite IH by (try assumption; lia). f_equal. lia.
Qed.

Lemma zsum_bound : forall l b, Forall (fun x => 0 <= x <= b) l -> 0 <= zsum l <= b * zlen l.
Proof.
  intros l b H. unfold zlen. induction H; cbn [zsum fold_right length]; [lia|].
  rewrite Nat2Z.inj_succ. fold (zsum l). nia.
Qed.

Lemma refines_sum_u32 : forall l acc, refines (sum_u32 Debug acc l) (sum_u32 Release acc l).
Proof.
  induction l as [|x t IH]; intros acc; cbn; [apply refines_refl|].
  apply refines_bind; [apply refines_arith|]. intro. apply IH.
Qed.

(* ---- variation deltas -------------------------------------------------------------------------------- *)
Lemma instance_exact_iff : forall m0 m1, instance_at_master1 m0 m1 = m1 <-> fits_i16 (m1 - m0) = true.
Proof.
  intros m0 m1. unfold instance_at_master1, delta_i16, ot_round_i16. rewrite ot_round_Z.
  rewrite <- sat_i16_id_iff. lia.
Qed.
