(* C19 — what "emitted faithfully" means, and the computable side conditions the
   theorems use (which values fit which field).  Definitions only. *)
From Coq Require Import List ZArith QArith Qround Qabs Bool.
From FV.C19 Require Import Model ProofsSites.
Import ListNotations.
Open Scope Z_scope.

(* ---- faithful emission ----------------------------------------------------------- *)
(* a 2.14 value within one quantum of the source entry *)
Definition q_close (m : Z) (t : Q) : Prop := (Qabs ((m # 16384) - t) <= 1 # 16384)%Q.

Definition comp_faithful (ct : Z * affine) (c : comp_out) : Prop :=
  let '(a, b, c', d, e, f) := snd ct in
  let '(xx, yx, xy, yy) := co_m c in
  co_gid c = fst ct /\ co_dx c = ot_round e /\ co_dy c = ot_round f /\
  q_close xx a /\ q_close yx b /\ q_close xy c' /\ q_close yy d.

(* an outline glyph: a reader reconstructs exactly the rounded source points, in
   emission order, with the exact contour ends and box *)
Definition outline_faithful (cs : list contour) (o : glyf_out) : Prop :=
  match cs with
  | [] => o = GEmpty
  | _ => exists so, o = GSimple so /\ decode_simple so = exact_points cs /\
                    so_ends so = cum_ends 0 (map (fun c => zlen c) cs) /\
                    so_bbox so = bbox_of (exact_points cs)
  end.

Definition decomposes (comps : list (Z * affine)) : bool := existsb (fun ct => overflows_2x2 (snd ct)) comps.
Definition parts_of (glyphs : list glyph_src) (comps : list (Z * affine)) : list (comp_out * list zpt) :=
  map (fun ct => (emit_component (fst ct) (snd ct), glyf_points (base_contours glyphs (fst ct)))) comps.

(* a composite is either kept, each record within a quantum / exact offsets and the
   exact box, or replaced by the outline of its transformed components (the
   shape-preserving fallback) *)
Definition glyph_faithful (glyphs : list glyph_src) (g : glyph_src) (o : glyf_out) : Prop :=
  match g with
  | SrcSimple _ _ cs => outline_faithful cs o
  | SrcComposite _ _ [] => o = GEmpty
  | SrcComposite _ _ comps =>
      if decomposes comps then outline_faithful (decompose glyphs comps) o
      else exists outs b, o = GComposite outs b /\ Forall2 comp_faithful comps outs /\
                          b = composite_bbox_exact (parts_of glyphs comps)
  end.

Definition glyf_ymax (o : glyf_out) : Z := match glyf_bbox o with Some (_, _, _, y1) => y1 | None => 0 end.

Definition faithful (s : src) (f : font) : Prop :=
  Forall2 (glyph_faithful (s_glyphs s)) (s_glyphs s) (f_glyf f)
  /\ map fst (f_hmtx f) = map (fun g => ot_round (g_adv g)) (s_glyphs s)
  /\ f_asc f = ot_round (s_asc s) /\ f_desc f = ot_round (s_desc s) /\ f_gap f = ot_round (s_gap s)
  /\ f_kern f = map ot_round (s_kern s)
  /\ f_anchor f = map exact_pt (s_anchor s)
  /\ x_num_glyphs (f_maxp f) = zlen (s_glyphs s)
  /\ match s_vert s with
     | None => f_vmtx f = None
     | Some origin =>
         exists v, f_vmtx f = Some v
           /\ map fst v = map (fun g => ot_round (g_height g)) (s_glyphs s)
           /\ map snd v = map (fun o => ot_round origin - glyf_ymax o) (f_glyf f)
     end.

(* ---- the sites that are still written through a saturating cast (known findings) ------- *)
Definition bbox_fitsb (b : bbox) : bool :=
  let '(x0, y0, x1, y1) := b in fits_i16 x0 && fits_i16 y0 && fits_i16 x1 && fits_i16 y1.

(* the box of a kept composite *)
Definition glyph_knownb (glyphs : list glyph_src) (g : glyph_src) : bool :=
  match g with
  | SrcSimple _ _ _ => true
  | SrcComposite _ _ comps =>
      if decomposes comps then true else bbox_fitsb (composite_bbox_exact (parts_of glyphs comps))
  end.

(* composite boxes, hhea line metrics, kerning values, anchor coordinates, vertical
   origin and advance heights: every value fits its field *)
Definition known_sites_fitb (s : src) : bool :=
  forallb (glyph_knownb (s_glyphs s)) (s_glyphs s)
  && fits_i16 (ot_round (s_asc s)) && fits_i16 (ot_round (s_desc s)) && fits_i16 (ot_round (s_gap s))
  && forallb (fun k => fits_i16 (ot_round k)) (s_kern s)
  && forallb pt_fitsb (s_anchor s)
  && match s_vert s with
     | None => true
     | Some o => fits_i16 (ot_round o) && forallb (fun g => fits_u16 (ot_round (g_height g))) (s_glyphs s)
     end.

(* ---- what the checked sites accept --------------------------------------------------------- *)
(* an outline glyf can hold: every coordinate and every step fits i16, no empty contour,
   at most 65535 points *)
Definition outline_checksb (cs : list contour) : bool :=
  coords_fitb cs
  && diffs_fitb 0 (map fst (glyf_points cs)) && diffs_fitb 0 (map snd (glyf_points cs))
  && negb (has_empty_contour cs)
  && (zlen (glyf_points cs) <=? 65535).

(* what the checked sites of one glyph accept *)
Definition glyph_checksb (glyphs : list glyph_src) (g : glyph_src) : bool :=
  match g with
  | SrcSimple _ _ cs => match cs with [] => true | _ => outline_checksb cs end
  | SrcComposite _ _ comps =>
      match comps with
      | [] => true
      | _ => if decomposes comps
             then match decompose glyphs comps with [] => true | d => outline_checksb d end
             else forallb offset_fitsb comps
      end
  end.

(* depth-one composites: every component names an outline glyph of the font *)
Definition wfb (s : src) : bool :=
  forallb (fun g => match g with
                    | SrcSimple _ _ _ => true
                    | SrcComposite _ _ comps =>
                        forallb (fun ct => (0 <=? fst ct) &&
                                   match nth_error (s_glyphs s) (Z.to_nat (fst ct)) with
                                   | Some (SrcSimple _ _ _) => true
                                   | _ => false
                                   end) comps
                    end) (s_glyphs s).
