(* C19 — values that do not fit the binary format are rejected, never wrapped; debug
   and release builds agree.  Property theorems; proofs are in Proofs*.v.

   State of the code the model describes: /repo with the C19 repairs
   (work/patches/c19-*.diff).  After them
     * advance widths, outline coordinates, successive coordinate differences, component
       offsets, the number of points of a glyph, the top side bearing, composite point /
       contour totals and the glyph count are CHECKED: a value that does not fit ends the
       build (theorems glyf_outline_*, font_checked_sites_reject);
     * no narrow `+`/`-` can overflow any more except the u32 sums of a composite with
       more than 65536 components (composite_totals_u32_refuted), so the two profiles
       agree on every other source (font_profiles_agree_bounded);
     * the sites left as known findings still saturate: composite boxes, kerning values,
       anchor coordinates, hhea line metrics, vertical origin, advance height, variation
       deltas.  For them the property is FALSE of the code and of the model
       (`_refuted` theorems, witnesses replayed by the harness); an emitted font is
       faithful exactly when those values fit (font_faithful_when_fits). *)
From Coq Require Import List ZArith QArith Qround Qabs Bool Lia.
From FV.C19 Require Import Model ProofsSites Spec ProofsGlyph ProofsFont Tie.
Import ListNotations.
Open Scope Z_scope.

(* ================================================================================== *)
(* 1. single sites                                                                      *)

(* `x.ot_round()` into i16 / u16 (advances, coordinates, offsets, kerning and anchor
   values, line metrics, deltas): the emitted integer is the rounded source value
   exactly when that value is representable.  For every rational. *)
Theorem saturating_site_exact_iff : forall q : Q,
  (ot_round_i16 q = ot_round q <-> fits_i16 (ot_round q) = true) /\
  (ot_round_u16 q = ot_round q <-> fits_u16 (ot_round q) = true) /\
  (metric_i16 q = ot_round q <-> fits_i16 (ot_round q) = true).
Proof.
  intro q. split; [apply ot_round_i16_exact_iff|]. split; [apply ot_round_u16_exact_iff|].
  rewrite metric_i16_eq. apply ot_round_i16_exact_iff.
Qed.
Print Assumptions saturating_site_exact_iff.

(* ... and when it is not, the site does not reject: it emits the nearest limit
   (the documented inputs: advance 70000, coordinate / offset / kerning 40000). *)
Theorem saturating_sites_refuted :
  ot_round_u16 70000 = 65535 /\ ot_round_i16 40000 = 32767 /\ ot_round_i16 (-32769) = -32768 /\
  ot_round_u16 (-1) = 0 /\ metric_i16 (65535 # 2) = 32767 /\
  ~ (forall q, ot_round_u16 q = ot_round q) /\ ~ (forall q, ot_round_i16 q = ot_round q).
Proof.
  repeat (split; [reflexivity|]). split; intro H.
  - specialize (H 70000%Q). vm_compute in H. discriminate.
  - specialize (H 40000%Q). vm_compute in H. discriminate.
Qed.
Print Assumptions saturating_sites_refuted.

(* F2Dot14::from_f64 on a component 2x2 entry: within [-2, 2] (what the range test of
   fontir lets through) the written value is within one 2.14 quantum of the source. *)
Theorem f2dot14_within_quantum : forall q : Q,
  (-2 <= q)%Q -> (q <= 2)%Q -> q_close (f2dot14 q) q.
Proof. exact f2dot14_close. Qed.
Print Assumptions f2dot14_within_quantum.

Example f2dot14_nonvacuous : in_2x2_range 2 = true /\ f2dot14 2 = 32767 /\ f2dot14 (-2) = -32768 /\ f2dot14 (3 # 2) = 24576.
Proof. repeat split; reflexivity. Qed.

(* beyond the range every value is written as the limit: the site alone clamps *)
Theorem f2dot14_refuted :
  (forall q, (2 < q)%Q -> f2dot14 q = 32767) /\
  (forall q, (q < -2)%Q -> f2dot14 q = -32768) /\
  (forall q, (2 + (1 # 8192) < q)%Q -> ~ q_close (f2dot14 q) q) /\
  f2dot14 (9 # 4) = 32767.
Proof.
  split; [exact f2dot14_saturates_high|]. split; [exact f2dot14_saturates_low|].
  split; [exact f2dot14_far|reflexivity].
Qed.
Print Assumptions f2dot14_refuted.

(* narrow integer `-` / `+` (coordinate deltas, contour end points, top side bearing,
   u32 sums, WidthClass): the two profiles agree exactly when the result fits; when it
   does not, the debug build panics and the release build emits a different number. *)
Theorem narrow_arith_profiles_agree_iff : forall a b : Z,
  (sub_i16 Debug a b = sub_i16 Release a b <-> fits_i16 (a - b) = true) /\
  (sub_u16 Debug a b = sub_u16 Release a b <-> fits_u16 (a - b) = true) /\
  (add_u32 Debug a b = add_u32 Release a b <-> fits_u32 (a + b) = true) /\
  (fits_i16 (a - b) = true -> forall p, sub_i16 p a b = Emit (a - b)) /\
  (fits_i16 (a - b) = false ->
     sub_i16 Debug a b = Panic /\ exists v, sub_i16 Release a b = Emit v /\ v <> a - b).
Proof.
  intros a b. split; [apply arith_agree_iff|]. split; [apply arith_agree_iff|]. split; [apply arith_agree_iff|].
  split.
  - intros F p. now apply arith_fits.
  - intro F. split; [unfold sub_i16, arith; now rewrite F|].
    destruct (arith_release_total fits_i16 wrap_i16 (a - b)) as [v Hv]. exists v. split; [exact Hv|].
    eapply sub_i16_release_wrong; eauto.
Qed.
Print Assumptions narrow_arith_profiles_agree_iff.

Example narrow_arith_witness :
  sub_i16 Debug 20000 (-20000) = Panic /\ sub_i16 Release 20000 (-20000) = Emit (-25536) /\
  sub_i16 Debug 800 (-32000) = Panic /\ sub_i16 Release 800 (-32000) = Emit (-32736).
Proof. repeat split; reflexivity. Qed.

(* checked conversions (u16::try_from / try_into: composite totals, number of long
   metrics, glyph count): a value is emitted unchanged or not at all, in both profiles. *)
Theorem checked_site_never_wraps : forall z v : Z,
  (try_u16 z = Emit v -> v = z /\ fits_u16 z = true) /\
  (try_i16 z = Emit v -> v = z /\ fits_i16 z = true) /\
  (unwrap_u16 z = Emit v -> v = z /\ fits_u16 z = true) /\
  (fits_u16 z = false -> try_u16 z = Reject /\ unwrap_u16 z = Panic) /\
  (fits_i16 z = false -> try_i16 z = Reject).
Proof.
  intros z v. split; [apply try_u16_emit|]. split; [apply try_i16_emit|]. split; [apply unwrap_u16_emit|].
  split; intro F; unfold try_u16, try_i16, unwrap_u16; now rewrite F.
Qed.
Print Assumptions checked_site_never_wraps.

(* WidthClass::try_from after the repair: total, the same in both profiles, a class for
   1..9 and an error for everything else (0 included) *)
Theorem width_class_checked : forall (p : profile) (v : Z),
  width_class p v = (if (1 <=? v) && (v <=? 9) then Emit v else Reject) /\
  width_class Debug v = width_class Release v.
Proof.
  intros p v. split; [|reflexivity]. unfold width_class.
  assert ((v - 1 <? 9) = (v <=? 9)) as E by lia. now rewrite E.
Qed.
Print Assumptions width_class_checked.

Example width_class_witness : width_class Debug 0 = Reject /\ width_class Release 0 = Reject /\ width_class Debug 5 = Emit 5.
Proof. repeat split; reflexivity. Qed.

(* variation deltas (HVAR advance, gvar point and component offset): a consumer at the
   second master computes that master's value exactly when the difference fits i16 *)
Theorem variation_instance_exact_iff : forall m0 m1 : Z,
  instance_at_master1 m0 m1 = m1 <-> fits_i16 (m1 - m0) = true.
Proof. exact instance_exact_iff. Qed.
Print Assumptions variation_instance_exact_iff.

Example variation_witness : instance_at_master1 (-20000) 20000 = 12767 /\ instance_at_master1 100 32868 = 32867.
Proof. split; reflexivity. Qed.

(* ================================================================================== *)
(* 2. glyf entries                                                                       *)

(* Outlines of any number of contours and points, in either profile: whatever is written
   decodes (running sums in unbounded integers, as a rasteriser does — NOT the wrapping
   i16 sums of read-fonts) to exactly the rounded source points in emission order, with
   exact contour ends and box.  No side condition: the coordinates, the steps between
   successive points and the point count are checked before anything is written.  The
   steps are those of the ONE sequence of all points of the glyph (glyf_points is the
   concatenation of the contours, decode_simple one running sum over it): the step from
   the last point of a contour to the first point of the next — which glyf stores as a
   delta like any other — is covered, see glyf_seam_step_checked below.  A contour lists
   ALL its points: the on-curve points and the off-curve control points of its quadratic
   segments (after cu2qu) alike; the coordinate check ranges over every one of them, see
   glyf_every_point_checked below — a control point outside i16 ends the build even when
   the curve it controls, and so the tight bounding box of the outline, stays inside. *)
Theorem glyf_outline_never_wrapped : forall (p : profile) (cs : list contour) (o : glyf_out),
  simple_glyph p cs = Emit o -> outline_faithful cs o.
Proof. exact simple_glyph_emit_faithful. Qed.
Print Assumptions glyf_outline_never_wrapped.

(* An outline is written exactly when glyf can hold it (every coordinate and every step
   between successive points fits i16, no empty contour, at most 65535 points); otherwise
   the build ends.  (32767 contours or more stop in an assertion of write-fonts.) *)
Theorem glyf_outline_emitted_iff : forall (p : profile) (cs : list contour),
  cs <> [] -> zlen cs < 32767 ->
  (emitted (simple_glyph p cs) = true <-> outline_checksb cs = true) /\
  (outline_checksb cs = true -> simple_glyph p cs = Emit (canonical_simple cs)).
Proof.
  intros p cs Hne Hn. split.
  - split.
    + intro E. destruct (outline_checksb cs) eqn:K; [reflexivity|].
      rewrite (simple_glyph_unfit_rejected p cs Hne K) in E. discriminate.
    + intro K. now rewrite (simple_glyph_fit_emitted p cs Hne K Hn).
  - intro K. now apply simple_glyph_fit_emitted.
Qed.
Print Assumptions glyf_outline_emitted_iff.

(* Every point of every contour of an emitted outline — on-curve or off-curve (second
   statement: points that carry their kind; the kind is irrelevant) — rounds into i16, in
   x and in y. *)
Theorem glyf_every_point_checked :
  (forall p (cs : list contour) o, simple_glyph p cs = Emit o ->
     forall c q, In c cs -> In q c -> pt_fitsb q = true) /\
  (forall p (fcs : list (list (pt * bool))) o, simple_glyph p (map (map fst) fcs) = Emit o ->
     forall fc q (on_curve : bool), In fc fcs -> In (q, on_curve) fc -> pt_fitsb q = true).
Proof. split; [exact emit_points_fit|exact emit_flagged_points_fit]. Qed.
Print Assumptions glyf_every_point_checked.

Example glyf_control_point_checked :
  (* (-100,500) (0,0) then the quadratic (0,0) -> control (40000,500) -> (0,1000): the curve
     reaches x = 20000 only, the box of the curve fits i16, the control point does not *)
  let far := [[(-100, 500); (0, 0); (40000, 500); (0, 1000)]]%Q in
  let near := [[(-100, 500); (0, 0); (32767, 500); (0, 1000)]]%Q in
  simple_glyph Debug far = Reject /\ simple_glyph Release far = Reject /\
  omap dump_glyf (simple_glyph Release near) =
    Emit [0; 1; 3; 4; -100; 500; 0; 1000; 32767; 500; 0; 0; -100; 0; 32767; 1000] /\
  masters_coords_fitb [near; far] = false.
Proof. cbv zeta. repeat split; vm_compute; reflexivity. Qed.

(* Contour seams: in an emitted outline the step from the last emitted point of any contour
   to the first emitted point of the contour that follows fits i16 in x and in y (so the
   i16 subtraction of write-fonts at the seam cannot overflow, in either profile). *)
Theorem glyf_seam_step_checked : forall p (before : list contour) c1 c2 after o q2 r2,
  simple_glyph p (before ++ c1 :: c2 :: after) = Emit o ->
  map round_pt (emit_order c2) = q2 :: r2 ->
  let prev := glyf_points (before ++ [c1]) in
  fits_i16 (fst q2 - List.last (map fst prev) 0) = true /\
  fits_i16 (snd q2 - List.last (map snd prev) 0) = true.
Proof. exact seam_step_checked. Qed.
Print Assumptions glyf_seam_step_checked.

Example glyf_outline_nonvacuous :
  let ok := [[(-16383, 0); (16384, 0); (16384, 100); (-16383, 100)]]%Q in
  let step := [[(-20000, 0); (20000, 0); (20000, 100); (-20000, 100)]]%Q in
  let coord := [[(39900, 0); (40000, 0); (40000, 100); (39900, 100)]]%Q in
  let box x := [(x, 0); (x + 100, 0); (x + 100, 100); (x, 100)]%Q in
  (* two contours: every coordinate and every step inside a contour fits; the seam step is
     20000 - (-19900) = 39900, resp. 16483 - (-16284) = 32767 *)
  let seam := [box (-20000); box 20000]%Q in
  let seam_ok := [box (-16384); box 16483]%Q in
  outline_checksb ok = true /\
  omap dump_glyf (simple_glyph Release ok) =
    Emit [0; 1; 3; 4; -16383; 0; -16383; 100; 16384; 100; 16384; 0; -16383; 0; 16384; 100] /\
  simple_glyph Debug step = Reject /\ simple_glyph Release step = Reject /\
  simple_glyph Debug coord = Reject /\ simple_glyph Release coord = Reject /\
  forallb (fun c => diffs_fitb 0 (map fst (glyf_points [c])) && diffs_fitb 0 (map snd (glyf_points [c]))) seam = true /\
  simple_glyph Debug seam = Reject /\ simple_glyph Release seam = Reject /\
  omap dump_glyf (simple_glyph Release seam_ok) =
    Emit [0; 2; 3; 7; 8; -16384; 0; -16384; 100; -16284; 100; -16284; 0; 16483; 0; 16483; 100; 16583; 100; 16583; 0;
          -16384; 0; 16583; 100] /\
  emitted (simple_glyph Release [zigzag 65535]) = true /\ simple_glyph Release [zigzag 65536] = Reject /\
  simple_glyph Debug [zigzag 65536] = Reject.
Proof. cbv zeta. repeat split; vm_compute; reflexivity. Qed.

(* the two profiles write the same entry for every outline *)
Theorem glyf_profiles_agree : forall cs : list contour, simple_glyph Debug cs = simple_glyph Release cs.
Proof. exact simple_glyph_profile_indep. Qed.
Print Assumptions glyf_profiles_agree.

(* Components.  A composite none of whose 2x2 entries leaves [-2, 2] is kept when its
   offsets fit i16 (rejected otherwise) and each record is then within a quantum of the
   source with exact offsets.  A composite with an entry outside is replaced by an
   outline, and that outline consists exactly of the referenced contours under the
   unquantised source transforms (reversed when mirrored): the fallback preserves the
   shape whatever the size of the scale; what is written for it is faithful. *)
Theorem component_fallback_preserves_shape : forall glyphs a h (comps : list (Z * affine)),
  comps <> [] ->
  (decomposes comps = false ->
     forall p,
       (forallb offset_fitsb comps = false -> build_glyph p glyphs (SrcComposite a h comps) = Reject) /\
       (forallb offset_fitsb comps = true ->
          exists outs b, build_glyph p glyphs (SrcComposite a h comps) = Emit (GComposite outs b) /\
                         Forall2 comp_faithful comps outs)) /\
  (decomposes comps = true ->
     (forall p, build_glyph p glyphs (SrcComposite a h comps) = simple_glyph p (decompose glyphs comps)) /\
     (forall c, In c (decompose glyphs comps) <->
        exists ct base, In ct comps /\ In base (base_contours glyphs (fst ct)) /\
          (c = map (apply_aff (snd ct)) base \/ c = emit_order (map (apply_aff (snd ct)) base)) /\
          c = transform_contour (snd ct) base) /\
     (forall p o, build_glyph p glyphs (SrcComposite a h comps) = Emit o ->
        outline_faithful (decompose glyphs comps) o)).
Proof.
  intros glyphs a h comps Hne. destruct comps as [|ct0 comps]; [congruence|]. set (l := ct0 :: comps) in *.
  assert (forall p, build_glyph p glyphs (SrcComposite a h l) =
            if decomposes l then simple_glyph p (decompose glyphs l)
            else if forallb offset_fitsb l then Emit (emit_composite glyphs l) else Reject) as U
    by (intro; apply build_glyph_composite).
  split.
  - intros D p. rewrite U, D. split; intro Hoff; rewrite Hoff; [reflexivity|].
    unfold emit_composite. eexists. eexists. split; [reflexivity|]. now apply kept_components_faithful.
  - intro D. split; [intro p; now rewrite U, D|]. split.
    + intro c. rewrite decompose_in. split.
      * intros [ct [base [H1 [H2 H3]]]]. exists ct, base. repeat split; try assumption.
        subst c. apply transform_contour_shape.
      * intros [ct [base [H1 [H2 [_ H3]]]]]. exists ct, base. auto.
    + intros p o H. rewrite U, D in H. eapply simple_glyph_emit_faithful; eauto.
Qed.
Print Assumptions component_fallback_preserves_shape.

Example component_fallback_nonvacuous :
  let glyphs := [notdef_src; SrcSimple 600 1000 [unit100]] in
  let comps := [(1, ((9 # 4), 0, 0, 1, 0, 0)%Q)] in
  decomposes comps = true /\
  omap dump_glyf (build_glyph Debug glyphs (SrcComposite 600 1000 comps)) =
    Emit [0; 1; 3; 4; 0; 0; 0; 100; 225; 100; 225; 0; 0; 0; 225; 100] /\
  build_glyph Release glyphs (SrcComposite 600 1000 [(1, (1, 0, 0, 1, 40000, 0)%Q)]) = Reject.
Proof. cbv zeta. repeat split; reflexivity. Qed.

(* --flatten-components multiplies nested transforms.  Before /repo 101951c the range
   test ran only before flattening: a glyph all of whose SOURCE entries are within range
   ended up with the entry 2.25 written as 0x7fff (1.99994) — kept as a composite, not
   within a quantum (build_flattened; key glyph.rs:flatten_glyph.transform:saturates).
   With the range test repeated after flattening (build_flattened_repaired, the code as
   it is) the same glyph is decomposed and what is written is faithful. *)
Theorem flattened_scale_refuted : exists (glyphs : list glyph_src) (l : list nested) outs b,
  forallb (fun n => forallb (fun t => negb (overflows_2x2 t)) (nested_transforms n)) l = true /\
  (forall p, build_flattened p glyphs l = Emit (GComposite outs b)) /\
  ~ Forall2 comp_faithful (flatten_glyph l) outs /\
  (forall p o, build_flattened_repaired p glyphs l = Emit o ->
               outline_faithful (decompose glyphs (flatten_glyph l)) o) /\
  emitted (build_flattened_repaired Release glyphs l) = true.
Proof.
  exists [notdef_src; SrcSimple 600 1000 [unit100]].
  exists [NNode ((3 # 2), 0, 0, (3 # 2), 0, 0)%Q [(1, ((3 # 2), 0, 0, (3 # 2), 0, 0)%Q)]].
  eexists. eexists. split; [reflexivity|]. split; [intro p; vm_compute; reflexivity|]. split.
  - intro H. inversion H as [|x y lx ly Hxy Hrest]; subst. clear H Hrest.
    unfold comp_faithful in Hxy. cbn in Hxy. destruct Hxy as [_ [_ [_ [K _]]]].
    unfold q_close in K. vm_compute in K. apply K. reflexivity.
  - split; [|vm_compute; reflexivity].
    intros p o H.
    lazymatch type of H with
    | build_flattened_repaired _ ?G ?L = _ =>
        assert (build_flattened_repaired p G L = simple_glyph p (decompose G (flatten_glyph L))) as E
          by reflexivity
    end.
    rewrite E in H. eapply simple_glyph_emit_faithful; eauto.
Qed.
Print Assumptions flattened_scale_refuted.

(* maxp composite totals (after the repair of update_composite_limits): with at most
   65536 components the u32 sums cannot overflow; the totals are the exact sums or the
   build is rejected — never a wrapped number, never a panic, the same in both profiles *)
Theorem composite_totals_exact_or_rejected : forall p glyf cs b, zlen cs <= 65536 ->
  let pts := zsum (map (fun c => fst (comp_limit glyf c)) cs) in
  let ctr := zsum (map (fun c => snd (comp_limit glyf c)) cs) in
  composite_limits p glyf (GComposite cs b) =
    (if fits_u16 pts && fits_u16 ctr then Emit (Some (pts, ctr)) else Reject).
Proof. exact composite_limits_exact. Qed.
Print Assumptions composite_totals_exact_or_rejected.

(* the bound is needed: 65538 components of a 65535-point glyph overflow the u32 sum
   itself; the release build then reports 65534 composite points, the debug build panics.
   This is the one narrow arithmetic step left that can overflow. *)
Theorem composite_totals_u32_refuted : exists l : list Z,
  Forall (fun x => 0 <= x <= 65535) l /\ zlen l = 65538 /\
  (s <- sum_u32 Release 0 l ;; try_u16 s) = Emit 65534 /\ sum_u32 Debug 0 l = Panic /\
  zsum l = 4295032830.
Proof.
  exists (repeat 65535 65538). split.
  - apply Forall_forall. intros x Hx. apply repeat_spec in Hx. subst x. lia.
  - split; [vm_compute; reflexivity|]. split; [vm_compute; reflexivity|]. split; vm_compute; reflexivity.
Qed.
Print Assumptions composite_totals_u32_refuted.

(* ================================================================================== *)
(* 3. whole fonts (any number of glyphs, contours, points, components, pairs, anchors)   *)

(* Profiles: whenever the debug build does not panic, the release build produces exactly
   the same outcome (the same font, or the same rejection) ... *)
Theorem font_profiles_agree : forall s : src,
  build Debug s <> Panic -> build Release s = build Debug s.
Proof. intros s H. destruct (debug_refines s) as [E|E]; [congruence|now symmetry]. Qed.
Print Assumptions font_profiles_agree.

(* ... and when no composite has more than 65536 components the two profiles produce the
   same outcome outright, whatever the values in the source. *)
Theorem font_profiles_agree_bounded : forall s : src,
  forallb comps_boundedb (s_glyphs s) = true -> build Debug s = build Release s.
Proof. exact build_profile_indep. Qed.
Print Assumptions font_profiles_agree_bounded.

(* Checked sites: a font is emitted only if every advance width fits u16, every outline
   (source or decomposed) passes the glyf checks (outline_checksb: EVERY point of every
   contour, on- or off-curve, fits i16; every step of the one point sequence of the
   glyph, contour seams included, fits i16; at most 65535 points), every kept component offset fits i16,
   there are at most 65535 glyphs and every top side bearing fits i16.  So a source with
   a value of one of these kinds that does not fit is never turned into a font, by either
   profile. *)
Theorem font_checked_sites_reject : forall (p : profile) (s : src) (f : font),
  build p s = Emit f ->
  forallb (glyph_checksb (s_glyphs s)) (s_glyphs s) = true /\
  forallb (fun g => fits_u16 (ot_round (g_adv g))) (s_glyphs s) = true /\
  zlen (s_glyphs s) <= 65535 /\
  match s_vert s with
  | None => True
  | Some origin => forallb (fun o => fits_i16 (ot_round_i16 origin - glyf_ymax o)) (f_glyf f) = true
  end.
Proof. exact font_emit_checks. Qed.
Print Assumptions font_checked_sites_reject.

Theorem font_checked_limits_reject : forall (p : profile) (s : src),
  65535 < zlen (s_glyphs s) -> emitted (build p s) = false.
Proof. exact too_many_glyphs_rejected. Qed.
Print Assumptions font_checked_limits_reject.

Example font_checked_sites_nonvacuous :
  (* advance 70000; coordinate 40000; step -20000 -> 20000; component offset 40000;
     top side bearing 800 - (-32000); 65536 glyphs: every profile refuses *)
  let one g v := mk_src [notdef_src; g] 800 (-200) 0 v [] [] in
  build Debug (one (SrcSimple 70000 1000 [unit100]) None) = Reject /\
  build Release (one (SrcSimple 70000 1000 [unit100]) None) = Reject /\
  build Release (one (SrcSimple 600 1000 [[(39900, 0); (40000, 0); (40000, 100); (39900, 100)]]%Q) None) = Reject /\
  build Debug (one (SrcSimple 600 1000 [[(-20000, 0); (20000, 0); (20000, 100); (-20000, 100)]]%Q) None) = Reject /\
  build Release (one (SrcSimple 600 1000 [[(-20000, 0); (20000, 0); (20000, 100); (-20000, 100)]]%Q) None) = Reject /\
  build Debug (one (SrcSimple 600 1000 [[(0, -32100); (100, -32100); (100, -32000); (0, -32000)]]%Q) (Some 800%Q)) = Reject /\
  build Release (one (SrcSimple 600 1000 [[(0, -32100); (100, -32100); (100, -32000); (0, -32000)]]%Q) (Some 800%Q)) = Reject /\
  build Release (mk_src [notdef_src; SrcSimple 600 1000 [unit100]; SrcComposite 600 1000 [(1, (1, 0, 0, 1, 40000, 0)%Q)]]
                        800 (-200) 0 None [] []) = Reject /\
  build Debug (mk_src (notdef_src :: empty_glyphs false 65535) 800 (-200) 0 None [] []) = Panic.
Proof. cbv zeta. repeat split; vm_compute; reflexivity. Qed.

(* Never wrapped, outside the known class: if the values written through the remaining
   saturating casts fit (composite boxes, hhea line metrics, kerning, anchors, vertical
   origin, advance heights), a font emitted by either profile is faithful: advances,
   outlines, component records or their decomposition, kerning, anchors, line metrics,
   glyph count, vertical metrics. *)
Theorem font_faithful_when_fits : forall (p : profile) (s : src) (f : font),
  wfb s = true -> known_sites_fitb s = true -> build p s = Emit f -> faithful s f.
Proof. intros p s f _ Hc H. eapply font_faithful; eauto. Qed.
Print Assumptions font_faithful_when_fits.

Definition sample_src : src :=
  mk_src [ notdef_src;
           SrcSimple 65535 1000 [[(32667, 0); (32767, 0); (32767, 100); (32667, 100)]]%Q;
           SrcSimple 600 1000 [unit100];
           SrcComposite 600 1000 [(2, (1, 0, 0, 1, -32768, 0)%Q); (2, (2, 0, 0, (-3 # 2), 0, 300)%Q)];
           SrcComposite 600 1000 [(2, ((9 # 4), 0, 0, 1, 0, 0)%Q)] ]
         800 (-200) 0 (Some 800%Q) [(-32768)%Q; (65533 # 2)%Q] [(32767, -32768)%Q].

Example font_faithful_nonvacuous :
  wfb sample_src = true /\ known_sites_fitb sample_src = true /\
  forallb comps_boundedb (s_glyphs sample_src) = true /\
  emitted (build Debug sample_src) = true /\ build Release sample_src = build Debug sample_src.
Proof. repeat split; vm_compute; reflexivity. Qed.

(* The property itself, refuted on the model (and, by the harness, on the compiler) at
   the sites that remain known findings: a well-formed source with a kerning value of
   40000 is compiled by both profiles into the same font, which is not faithful — the
   value is 32767. *)
Theorem C19_never_wrapped_refuted : exists (s : src) (f : font),
  wfb s = true /\ build Debug s = Emit f /\ build Release s = Emit f /\ ~ faithful s f.
Proof.
  exists (mk_src [notdef_src; SrcSimple 600 1000 [unit100]] 800 (-200) 0 None [40000%Q] []).
  eexists. split; [reflexivity|]. split; [vm_compute; reflexivity|]. split; [vm_compute; reflexivity|].
  intros [_ [_ [_ [_ [_ [H _]]]]]]. vm_compute in H. discriminate.
Qed.
Print Assumptions C19_never_wrapped_refuted.

(* one witness per remaining saturating site of the font-level model *)
Example C19_refuted_other_sites :
  (* composite box (offset 32668 + square 0..100), kerning 40000, anchor 40000, hhea
     ascender 40000, advance height 70000, vertical origin 40000 *)
  let s := mk_src [ notdef_src;
                    SrcSimple 600 70000 [unit100];
                    SrcComposite 600 1000 [(1, (1, 0, 0, 1, 32668, 0)%Q)] ]
                  40000 (-200) 0 (Some 40000%Q) [40000%Q] [(40000, 0)%Q] in
  project (fun f => dump_glyf (nth 2 (f_glyf f) GEmpty)
                    ++ f_kern f ++ [fst (nth 0 (f_anchor f) (0, 0)); f_asc f]
                    ++ match f_vmtx f with Some v => [fst (nth 1 v (0, 0)); snd (nth 1 v (0, 0))] | None => [] end)
          (build Release s)
  = Emit ([1; 1; 1; 32668; 0; 16384; 0; 0; 16384; 32668; 0; 32767; 100]
          ++ [32767] ++ [32767; 32767] ++ [65535; 32667])
  /\ build Debug s = build Release s.
Proof. cbv zeta. split; vm_compute; reflexivity. Qed.
