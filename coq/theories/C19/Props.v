(* C19 — values that do not fit the binary format are rejected, never wrapped; debug
   and release builds agree.  Property theorems; proofs are in Proofs*.v.

   The property as stated is FALSE of the code (and of its faithful model): the
   `_refuted` theorems exhibit boundary witnesses, replayed against the real
   compiler by the harness on every run.  The companion theorems give the exact
   extent of the failure:
     * a site written through a saturating cast is faithful iff the value fits
       (so the failing inputs of those sites are exactly the non-fitting values);
     * the two profiles differ only where a narrow `+`/`-` overflows, and then the
       debug build panics (never emits), the release build wraps;
     * outside these two classes (every cast fits, the debug build does not
       panic) an emitted font is faithful, for sources of any size. *)
From Coq Require Import List ZArith QArith Qround Qabs Bool Lia.
From FV.C19 Require Import Model ProofsSites Spec ProofsGlyph ProofsFont Tie.
Import ListNotations.
Open Scope Z_scope.

(* ================================================================================== *)
(* 1. single sites                                                                      *)

(* `x.ot_round()` into i16 / u16 (advances, coordinates, offsets, kerning and anchor
   values, line metrics, deltas): the emitted integer is the rounded source value
   exactly when that value is representable.  For every rational. *)
Theorem saturating_site_exact_iff : forall q : Q,
  (ot_round_i16 q = ot_round q <-> fits_i16 (ot_round q) = true) /\
  (ot_round_u16 q = ot_round q <-> fits_u16 (ot_round q) = true) /\
  (metric_i16 q = ot_round q <-> fits_i16 (ot_round q) = true).
Proof.
  intro q. split; [apply ot_round_i16_exact_iff|]. split; [apply ot_round_u16_exact_iff|].
  rewrite metric_i16_eq. apply ot_round_i16_exact_iff.
Qed.
Print Assumptions saturating_site_exact_iff.

(* ... and when it is not, the site does not reject: it emits the nearest limit
   (the documented inputs: advance 70000, coordinate / offset / kerning 40000). *)
Theorem saturating_sites_refuted :
  ot_round_u16 70000 = 65535 /\ ot_round_i16 40000 = 32767 /\ ot_round_i16 (-32769) = -32768 /\
  ot_round_u16 (-1) = 0 /\ metric_i16 (65535 # 2) = 32767 /\
  ~ (forall q, ot_round_u16 q = ot_round q) /\ ~ (forall q, ot_round_i16 q = ot_round q).
Proof.
  repeat (split; [reflexivity|]). split; intro H.
  - specialize (H 70000%Q). vm_compute in H. discriminate.
  - specialize (H 40000%Q). vm_compute in H. discriminate.
Qed.
Print Assumptions saturating_sites_refuted.

(* F2Dot14::from_f64 on a component 2x2 entry: within [-2, 2] (what the range test of
   fontir lets through) the written value is within one 2.14 quantum of the source. *)
Theorem f2dot14_within_quantum : forall q : Q,
  (-2 <= q)%Q -> (q <= 2)%Q -> q_close (f2dot14 q) q.
Proof. exact f2dot14_close. Qed.
Print Assumptions f2dot14_within_quantum.

Example f2dot14_nonvacuous : in_2x2_range 2 = true /\ f2dot14 2 = 32767 /\ f2dot14 (-2) = -32768 /\ f2dot14 (3 # 2) = 24576.
Proof. repeat split; reflexivity. Qed.

(* beyond the range every value is written as the limit: the site alone clamps *)
Theorem f2dot14_refuted :
  (forall q, (2 < q)%Q -> f2dot14 q = 32767) /\
  (forall q, (q < -2)%Q -> f2dot14 q = -32768) /\
  (forall q, (2 + (1 # 8192) < q)%Q -> ~ q_close (f2dot14 q) q) /\
  f2dot14 (9 # 4) = 32767.
Proof.
  split; [exact f2dot14_saturates_high|]. split; [exact f2dot14_saturates_low|].
  split; [exact f2dot14_far|reflexivity].
Qed.
Print Assumptions f2dot14_refuted.

(* narrow integer `-` / `+` (coordinate deltas, contour end points, top side bearing,
   u32 sums, WidthClass): the two profiles agree exactly when the result fits; when it
   does not, the debug build panics and the release build emits a different number. *)
Theorem narrow_arith_profiles_agree_iff : forall a b : Z,
  (sub_i16 Debug a b = sub_i16 Release a b <-> fits_i16 (a - b) = true) /\
  (sub_u16 Debug a b = sub_u16 Release a b <-> fits_u16 (a - b) = true) /\
  (add_u32 Debug a b = add_u32 Release a b <-> fits_u32 (a + b) = true) /\
  (fits_i16 (a - b) = true -> forall p, sub_i16 p a b = Emit (a - b)) /\
  (fits_i16 (a - b) = false ->
     sub_i16 Debug a b = Panic /\ exists v, sub_i16 Release a b = Emit v /\ v <> a - b).
Proof.
  intros a b. split; [apply arith_agree_iff|]. split; [apply arith_agree_iff|]. split; [apply arith_agree_iff|].
  split.
  - intros F p. now apply arith_fits.
  - intro F. split; [unfold sub_i16, arith; now rewrite F|].
    destruct (arith_release_total fits_i16 wrap_i16 (a - b)) as [v Hv]. exists v. split; [exact Hv|].
    eapply sub_i16_release_wrong; eauto.
Qed.
Print Assumptions narrow_arith_profiles_agree_iff.

Example narrow_arith_witness :
  sub_i16 Debug 20000 (-20000) = Panic /\ sub_i16 Release 20000 (-20000) = Emit (-25536) /\
  sub_i16 Debug 800 (-32000) = Panic /\ sub_i16 Release 800 (-32000) = Emit (-32736) /\
  width_class Debug 0 = Panic /\ width_class Release 0 = Reject /\ width_class Debug 5 = Emit 5.
Proof. repeat split; reflexivity. Qed.

(* checked conversions (u16::try_from / try_into: composite totals, number of long
   metrics, glyph count): a value is emitted unchanged or not at all, in both profiles. *)
Theorem checked_site_never_wraps : forall z v : Z,
  (try_u16 z = Emit v -> v = z /\ fits_u16 z = true) /\
  (unwrap_u16 z = Emit v -> v = z /\ fits_u16 z = true) /\
  (fits_u16 z = false -> try_u16 z = Reject /\ unwrap_u16 z = Panic).
Proof.
  intros z v. split; [apply try_u16_emit|]. split; [apply unwrap_u16_emit|].
  intro F. unfold try_u16, unwrap_u16. now rewrite F.
Qed.
Print Assumptions checked_site_never_wraps.

(* variation deltas (HVAR advance, gvar point and component offset): a consumer at the
   second master computes that master's value exactly when the difference fits i16 *)
Theorem variation_instance_exact_iff : forall m0 m1 : Z,
  instance_at_master1 m0 m1 = m1 <-> fits_i16 (m1 - m0) = true.
Proof. exact instance_exact_iff. Qed.
Print Assumptions variation_instance_exact_iff.

Example variation_witness : instance_at_master1 (-20000) 20000 = 12767 /\ instance_at_master1 100 32868 = 32867.
Proof. split; reflexivity. Qed.

(* ================================================================================== *)
(* 2. glyf entries                                                                       *)

(* Outlines of any number of contours and points.  If every coordinate fits, the
   contours are non-empty and there are at most 65535 points, then (a) whatever a debug
   build writes decodes (running sums, as a rasteriser does) to exactly the rounded
   source points in emission order, with exact contour ends and box; and (b) if moreover
   no successive difference overflows, every profile writes that same entry. *)
Theorem glyf_points_round_trip : forall cs : list contour,
  outline_okb cs = true ->
  (forall o, simple_glyph Debug cs = Emit o -> outline_faithful cs o) /\
  (zlen cs < 32767 -> outline_arithb cs = true ->
     forall p, exists o, simple_glyph p cs = Emit o /\ simple_glyph Debug cs = Emit o /\ outline_faithful cs o).
Proof.
  intros cs Hok. split.
  - intros o H. now apply outline_debug_faithful.
  - intros Hn Ha p. now apply outline_fits_faithful.
Qed.
Print Assumptions glyf_points_round_trip.

Example glyf_round_trip_nonvacuous :
  let cs := [[(-16383, 0); (16384, 0); (16384, 100); (-16383, 100)]]%Q in
  outline_okb cs = true /\ outline_arithb cs = true /\ zlen cs < 32767 /\
  omap dump_glyf (simple_glyph Release cs) =
    Emit [0; 1; 3; 4; -16383; 0; -16383; 100; 16384; 100; 16384; 0; -16383; 0; 16384; 100].
Proof. cbv zeta. repeat split; try reflexivity. Qed.

(* The release build wraps: both coordinates fit, their difference does not; the font
   is written and decodes to a point 65536 units away (the debug build panics). *)
Theorem glyf_release_wraps_refuted : exists (cs : list contour) (so : simple_out),
  outline_okb cs = true /\
  simple_glyph Release cs = Emit (GSimple so) /\
  decode_simple so <> exact_points cs /\
  simple_glyph Debug cs = Panic.
Proof.
  exists [[(-20000, 0); (20000, 0); (20000, 100); (-20000, 100)]]%Q.
  eexists. split; [reflexivity|]. split; [vm_compute; reflexivity|]. split; [|reflexivity].
  vm_compute. discriminate.
Qed.
Print Assumptions glyf_release_wraps_refuted.

(* exact extent of the disagreement on one outline glyph *)
Theorem glyf_profiles_agree_iff : forall cs : list contour, cs <> [] -> zlen cs < 32767 ->
  (simple_glyph Debug cs = simple_glyph Release cs <-> outline_arithb cs = true).
Proof. exact simple_glyph_agree_iff. Qed.
Print Assumptions glyf_profiles_agree_iff.

(* Components.  A composite none of whose 2x2 entries leaves [-2, 2] is kept and each
   record is within a quantum of the source (offsets exact when they fit).  A composite
   with an entry outside is replaced by an outline, and that outline consists exactly of
   the referenced contours under the unquantised source transforms (reversed when
   mirrored): the fallback preserves the shape whatever the size of the scale. *)
Theorem component_fallback_preserves_shape : forall glyphs a h (comps : list (Z * affine)),
  comps <> [] ->
  (decomposes comps = false ->
     forall p, exists outs b, build_glyph p glyphs (SrcComposite a h comps) = Emit (GComposite outs b) /\
       (forallb offset_fitsb comps = true -> Forall2 comp_faithful comps outs)) /\
  (decomposes comps = true ->
     (forall p, build_glyph p glyphs (SrcComposite a h comps) = simple_glyph p (decompose glyphs comps)) /\
     (forall c, In c (decompose glyphs comps) <->
        exists ct base, In ct comps /\ In base (base_contours glyphs (fst ct)) /\
          (c = map (apply_aff (snd ct)) base \/ c = emit_order (map (apply_aff (snd ct)) base)) /\
          c = transform_contour (snd ct) base) /\
     (forall o, outline_okb (decompose glyphs comps) = true ->
        build_glyph Debug glyphs (SrcComposite a h comps) = Emit o ->
        outline_faithful (decompose glyphs comps) o)).
Proof.
  intros glyphs a h comps Hne. destruct comps as [|ct0 comps]; [congruence|]. set (l := ct0 :: comps) in *.
  assert (forall p, build_glyph p glyphs (SrcComposite a h l) =
            if decomposes l then simple_glyph p (decompose glyphs l) else Emit (emit_composite glyphs l)) as U
    by (intro; reflexivity).
  split.
  - intros D p. rewrite U, D. unfold emit_composite. eexists. eexists. split; [reflexivity|].
    intro Hoff. assert (forall ct, In ct l -> overflows_2x2 (snd ct) = false) as K
      by (intros; eapply decomposes_false; eauto).
    rewrite forallb_forall in Hoff. clear U D Hne.
    induction l as [|ct l' IH]; cbn [map]; constructor.
    + destruct ct as [gid t]. apply emit_component_faithful; [apply (K (gid, t)); now left|apply Hoff; now left].
    + apply IH; intros; [apply Hoff|apply K]; now right.
  - intro D. split; [intro p; now rewrite U, D|]. split.
    + intro c. rewrite decompose_in. split.
      * intros [ct [base [H1 [H2 H3]]]]. exists ct, base. repeat split; try assumption.
        subst c. apply transform_contour_shape.
      * intros [ct [base [H1 [H2 [_ H3]]]]]. exists ct, base. auto.
    + intros o Hok H. rewrite U, D in H. now apply outline_debug_faithful.
Qed.
Print Assumptions component_fallback_preserves_shape.

Example component_fallback_nonvacuous :
  let glyphs := [notdef_src; SrcSimple 600 1000 [unit100]] in
  let comps := [(1, ((9 # 4), 0, 0, 1, 0, 0)%Q)] in
  decomposes comps = true /\ outline_okb (decompose glyphs comps) = true /\
  omap dump_glyf (build_glyph Debug glyphs (SrcComposite 600 1000 comps)) =
    Emit [0; 1; 3; 4; 0; 0; 0; 100; 225; 100; 225; 0; 0; 0; 225; 100].
Proof. cbv zeta. repeat split; reflexivity. Qed.

(* --flatten-components multiplies nested transforms after the range test has run: a
   glyph all of whose SOURCE entries are within range ends up with the entry 2.25
   written as 0x7fff (1.99994) — kept as a composite, not within a quantum. *)
Theorem flattened_scale_refuted : exists (glyphs : list glyph_src) (l : list nested) outs b,
  forallb (fun n => forallb (fun t => negb (overflows_2x2 t)) (nested_transforms n)) l = true /\
  (forall p, build_flattened p glyphs l = Emit (GComposite outs b)) /\
  ~ Forall2 comp_faithful (flatten_glyph l) outs.
Proof.
  exists [notdef_src; SrcSimple 600 1000 [unit100]].
  exists [NNode ((3 # 2), 0, 0, (3 # 2), 0, 0)%Q [(1, ((3 # 2), 0, 0, (3 # 2), 0, 0)%Q)]].
  eexists. eexists. split; [reflexivity|]. split; [intro p; vm_compute; reflexivity|].
  intro H. inversion H as [|x y lx ly Hxy Hrest]; subst. clear H Hrest.
  unfold comp_faithful in Hxy. cbn in Hxy. destruct Hxy as [_ [_ [_ [K _]]]].
  unfold q_close in K. vm_compute in K. apply K. reflexivity.
Qed.
Print Assumptions flattened_scale_refuted.

(* maxp composite totals (after the repair of update_composite_limits): with at most
   65536 components the u32 sums cannot overflow; the totals are the exact sums or the
   build is rejected — never a wrapped number, never a panic, the same in both profiles *)
Theorem composite_totals_exact_or_rejected : forall p glyf cs b, zlen cs <= 65536 ->
  let pts := zsum (map (fun c => fst (comp_limit glyf c)) cs) in
  let ctr := zsum (map (fun c => snd (comp_limit glyf c)) cs) in
  composite_limits p glyf (GComposite cs b) =
    (if fits_u16 pts && fits_u16 ctr then Emit (Some (pts, ctr)) else Reject).
Proof. exact composite_limits_exact. Qed.
Print Assumptions composite_totals_exact_or_rejected.

(* the bound is needed: 65538 components of a 65535-point glyph overflow the u32 sum
   itself; the release build then reports 65534 composite points, the debug build panics *)
Theorem composite_totals_u32_refuted : exists l : list Z,
  Forall (fun x => 0 <= x <= 65535) l /\ zlen l = 65538 /\
  (s <- sum_u32 Release 0 l ;; try_u16 s) = Emit 65534 /\ sum_u32 Debug 0 l = Panic /\
  zsum l = 4295032830.
Proof.
  exists (repeat 65535 65538). split.
  - apply Forall_forall. intros x Hx. apply repeat_spec in Hx. subst x. lia.
  - split; [vm_compute; reflexivity|]. split; [vm_compute; reflexivity|]. split; vm_compute; reflexivity.
Qed.
Print Assumptions composite_totals_u32_refuted.

(* ================================================================================== *)
(* 3. whole fonts (any number of glyphs, contours, points, components, pairs, anchors)   *)

(* Profiles: whenever the debug build does not panic, the release build produces
   exactly the same outcome (the same font, or the same rejection). *)
Theorem font_profiles_agree : forall s : src,
  build Debug s <> Panic -> build Release s = build Debug s.
Proof. intros s H. destruct (debug_refines s) as [E|E]; [congruence|now symmetry]. Qed.
Print Assumptions font_profiles_agree.

(* Never wrapped, outside the two known classes: if every value written through a cast
   fits its field, a font emitted by the debug build is faithful (advances, outlines,
   component records or their decomposition, kerning, anchors, line metrics, glyph count,
   vertical metrics), and so is a font emitted by the release build unless the debug
   build panics on that source. *)
Theorem font_faithful_when_fits : forall (s : src) (f : font),
  wfb s = true -> casts_fitb s = true ->
  (build Debug s = Emit f -> faithful s f) /\
  (build Release s = Emit f -> build Debug s <> Panic -> faithful s f).
Proof.
  intros s f _ Hc. split.
  - now apply font_faithful_debug.
  - intros R D. apply font_faithful_debug; [exact Hc|]. rewrite <- R. symmetry. now apply font_profiles_agree.
Qed.
Print Assumptions font_faithful_when_fits.

Definition sample_src : src :=
  mk_src [ notdef_src;
           SrcSimple 65535 1000 [[(32667, 0); (32767, 0); (32767, 100); (32667, 100)]]%Q;
           SrcSimple 600 1000 [unit100];
           SrcComposite 600 1000 [(2, (1, 0, 0, 1, -32768, 0)%Q); (2, (2, 0, 0, (-3 # 2), 0, 300)%Q)];
           SrcComposite 600 1000 [(2, ((9 # 4), 0, 0, 1, 0, 0)%Q)] ]
         800 (-200) 0 (Some 800%Q) [(-32768)%Q; (65533 # 2)%Q] [(32767, -32768)%Q].

Example font_faithful_nonvacuous :
  wfb sample_src = true /\ casts_fitb sample_src = true /\
  emitted (build Debug sample_src) = true /\ build Release sample_src = build Debug sample_src.
Proof. repeat split; vm_compute; reflexivity. Qed.

(* Checked limits: a source with more than 65535 glyphs is never turned into a font. *)
Theorem font_checked_limits_reject : forall (p : profile) (s : src),
  65535 < zlen (s_glyphs s) -> emitted (build p s) = false.
Proof. exact too_many_glyphs_rejected. Qed.
Print Assumptions font_checked_limits_reject.

Example font_checked_limits_nonvacuous :
  build Debug (mk_src (notdef_src :: empty_glyphs false 65535) 800 (-200) 0 None [] []) = Panic.
Proof. vm_compute. reflexivity. Qed.

(* The property itself, refuted on the model (and, by the harness, on the compiler):
   a well-formed source whose advance width is 70000 is compiled by both profiles into
   the same font, which is not faithful — the advance is 65535. *)
Theorem C19_never_wrapped_refuted : exists (s : src) (f : font),
  wfb s = true /\ build Debug s = Emit f /\ build Release s = Emit f /\ ~ faithful s f.
Proof.
  exists (mk_src [notdef_src; SrcSimple 70000 1000 [unit100]] 800 (-200) 0 None [] []).
  eexists. split; [reflexivity|]. split; [vm_compute; reflexivity|]. split; [vm_compute; reflexivity|].
  intros [_ [H _]]. vm_compute in H. discriminate.
Qed.
Print Assumptions C19_never_wrapped_refuted.

(* one witness per remaining saturating site of the font-level model *)
Example C19_refuted_other_sites :
  (* outline coordinate 40000, component offset 40000, kerning 40000, anchor 40000,
     hhea ascender 40000, advance height 70000, vertical origin 40000 *)
  let s := mk_src [ notdef_src;
                    SrcSimple 600 70000 [[(39900, 0); (40000, 0); (40000, 100); (39900, 100)]]%Q;
                    SrcSimple 600 1000 [[(-100, 0); (0, 0); (0, 100); (-100, 100)]]%Q;
                    SrcComposite 600 1000 [(2, (1, 0, 0, 1, 40000, 0)%Q)] ]
                  40000 (-200) 0 (Some 40000%Q) [40000%Q] [(40000, 0)%Q] in
  project (fun f => dump_glyf (nth 1 (f_glyf f) GEmpty) ++ dump_glyf (nth 3 (f_glyf f) GEmpty)
                    ++ f_kern f ++ [fst (nth 0 (f_anchor f) (0, 0)); f_asc f]
                    ++ match f_vmtx f with Some v => [fst (nth 1 v (0, 0)); snd (nth 2 v (0, 0))] | None => [] end)
          (build Release s)
  = Emit ([0; 1; 3; 4; 32767; 0; 32767; 100; 32767; 100; 32767; 0; 32767; 0; 32767; 100]
          ++ [1; 1; 2; 32767; 0; 16384; 0; 0; 16384; 32667; 0; 32767; 100]
          ++ [32767] ++ [32767; 32767] ++ [65535; 32667])
  /\ build Debug s = build Release s.
Proof. cbv zeta. split; vm_compute; reflexivity. Qed.

(* Profile agreement, refuted: every coordinate of this source fits i16, yet the debug
   build panics while the release build emits a font whose outline is wrong. *)
Theorem C19_profiles_agree_refuted : exists (s : src) (f : font),
  wfb s = true /\ casts_fitb s = true /\
  build Debug s = Panic /\ build Release s = Emit f /\ ~ faithful s f.
Proof.
  exists (mk_src [notdef_src; SrcSimple 600 1000 [[(-20000, 0); (20000, 0); (20000, 100); (-20000, 100)]]%Q]
                 800 (-200) 0 None [] []).
  eexists. split; [reflexivity|]. split; [reflexivity|]. split; [vm_compute; reflexivity|].
  split; [vm_compute; reflexivity|].
  intros [H _]. cbn [f_glyf s_glyphs mk_src] in H.
  inversion H as [|g0 o0 gl ol _ H1]; subst. inversion H1 as [|g1 o1 gl1 ol1 H2 _]; subst.
  cbn in H2. destruct H2 as [so [E [D _]]]. inversion E; subst so. vm_compute in D. discriminate.
Qed.
Print Assumptions C19_profiles_agree_refuted.

(* the other profile-dependent sites reached from a source *)
Example C19_profiles_other_sites :
  (* top side bearing: vertical origin 800, yMax -32000 *)
  (let s := mk_src [notdef_src; SrcSimple 600 1000 [[(0, -32100); (100, -32100); (100, -32000); (0, -32000)]]%Q]
                   800 (-200) 0 (Some 800%Q) [] [] in
   casts_fitb s = true /\ build Debug s = Panic /\
   project (fun f => match f_vmtx f with Some v => [snd (nth 1 v (0, 0))] | None => [] end) (build Release s)
     = Emit [-32736]) /\
  (* WidthClass 0 *)
  (width_class Debug 0 = Panic /\ width_class Release 0 = Reject).
Proof. cbv zeta. repeat split; vm_compute; reflexivity. Qed.
