(* C19 — lemmas about glyf entries: outlines, components, the decomposition
   fallback, flattening. *)
From Coq Require Import List ZArith QArith Qround Qabs Bool Lia Lqa.
From Coq Require Import ZifyBool.
From FV.C19 Require Import Model ProofsSites Spec.
Import ListNotations.
Ltac Zify.zify_post_hook ::= Z.div_mod_to_equations.
Open Scope Z_scope.

(* ---- emission order -------------------------------------------------------------- *)
Lemma emit_order_rev : forall p r, emit_order (p :: r) = p :: rev r.
Proof. intros p r. cbn. now rewrite <- rev_alt. Qed.

Lemma emit_order_involutive : forall c, emit_order (emit_order c) = c.
Proof.
  intros [|p r]; [reflexivity|]. rewrite emit_order_rev, emit_order_rev. now rewrite rev_involutive.
Qed.

Lemma emit_order_length : forall c, length (emit_order c) = length c.
Proof. intros [|p r]; [reflexivity|]. rewrite emit_order_rev. cbn. now rewrite rev_length. Qed.

Lemma emit_order_in : forall c p, In p (emit_order c) <-> In p c.
Proof.
  intros [|q r] p; [reflexivity|]. rewrite emit_order_rev. cbn. now rewrite <- in_rev.
Qed.

Lemma emit_order_map : forall {B} (f : pt -> B) c,
  map f (emit_order c) = match map f c with [] => [] | x :: r => x :: rev r end.
Proof. intros B f [|p r]; [reflexivity|]. rewrite emit_order_rev. cbn. now rewrite map_rev. Qed.

Lemma emit_order_map_aff : forall t c, emit_order (map (apply_aff t) c) = map (apply_aff t) (emit_order c).
Proof.
  intros t [|p r]; [reflexivity|]. cbn [map]. rewrite !emit_order_rev. cbn [map]. now rewrite map_rev.
Qed.

(* ---- points ------------------------------------------------------------------------ *)
Lemma combine_fst_snd : forall {A B} (l : list (A * B)), combine (map fst l) (map snd l) = l.
Proof. intros A B. induction l as [|[a b] l IH]; cbn; [reflexivity|now rewrite IH]. Qed.

Lemma round_pt_exact : forall p, pt_fitsb p = true -> round_pt p = exact_pt p.
Proof.
  intros p H. unfold pt_fitsb in H. apply andb_true_iff in H. destruct H as [H1 H2].
  unfold round_pt, exact_pt. f_equal; now apply ot_round_i16_exact_iff.
Qed.

Lemma coords_fit_points : forall cs, coords_fitb cs = true -> glyf_points cs = exact_points cs.
Proof.
  intros cs H. unfold coords_fitb in H. unfold glyf_points, exact_points.
  induction cs as [|c cs IH]; [reflexivity|].
  cbn [forallb] in H. apply andb_true_iff in H. destruct H as [Hc H].
  cbn [flat_map]. rewrite (IH H). f_equal.
  apply map_ext_in. intros p Hp. apply round_pt_exact.
  apply (proj1 (emit_order_in _ _)) in Hp. rewrite forallb_forall in Hc. now apply Hc.
Qed.

Lemma glyf_points_len : forall cs, zlen (glyf_points cs) = zsum (map (fun c => zlen c) cs).
Proof.
  induction cs as [|c cs IH]; [reflexivity|].
  unfold glyf_points in *. cbn [flat_map map]. change (zsum (zlen c :: map (fun c0 => zlen c0) cs))
    with (zlen c + zsum (map (fun c0 => zlen c0) cs)).
  rewrite <- IH. unfold zlen. rewrite app_length, map_length, emit_order_length. lia.
Qed.

Lemma no_empty_lens : forall cs, has_empty_contour cs = false ->
  Forall (fun n => 1 <= n) (map (fun c => zlen c) cs).
Proof.
  unfold has_empty_contour. induction cs as [|c cs IH]; intro H; [constructor|].
  cbn [existsb] in H. apply orb_false_iff in H. destruct H as [Hc H]. cbn [map].
  constructor; [unfold zlen in *; lia|now apply IH].
Qed.

(* ---- the glyf entry of an outline ----------------------------------------------------- *)
Lemma simple_glyph_cons : forall p c cs,
  simple_glyph p (c :: cs) =
  (let l := c :: cs in
   let pts := glyf_points l in
   if negb (coords_fitb l) then Reject
   else if negb (diffs_fitb 0 (map fst pts) && diffs_fitb 0 (map snd pts)) then Reject
   else if has_empty_contour l then Panic
   else if 65535 <? zlen pts then Reject
   else if 32767 <=? zlen l then Panic
   else
     ends <- end_pts p 0 (map (fun c => zlen c) l) ;;
     dx <- deltas p 0 (map fst pts) ;;
     dy <- deltas p 0 (map snd pts) ;;
     Emit (GSimple {| so_ends := ends; so_dx := dx; so_dy := dy; so_bbox := bbox_of pts |})).
Proof. reflexivity. Qed.

(* the entry every profile writes once the checks of GlyphWork have passed *)
Definition canonical_simple (cs : list contour) : glyf_out :=
  let pts := glyf_points cs in
  GSimple {| so_ends := cum_ends 0 (map (fun c => zlen c) cs);
             so_dx := diff_list 0 (map fst pts); so_dy := diff_list 0 (map snd pts);
             so_bbox := bbox_of pts |}.

Lemma outline_checks_split : forall cs, outline_checksb cs = true ->
  coords_fitb cs = true /\ diffs_fitb 0 (map fst (glyf_points cs)) = true /\
  diffs_fitb 0 (map snd (glyf_points cs)) = true /\
  has_empty_contour cs = false /\ zlen (glyf_points cs) <= 65535.
Proof.
  intros cs H. unfold outline_checksb in H. rewrite !andb_true_iff in H.
  destruct H as [[[[H1 H2] H3] H4] H5]. apply negb_true_iff in H4. repeat split; try assumption. lia.
Qed.

(* closed form of simple_glyph: the same in both profiles *)
Lemma simple_glyph_eq : forall p cs, cs <> [] ->
  simple_glyph p cs =
  if outline_checksb cs
  then (if 32767 <=? zlen cs then Panic else Emit (canonical_simple cs))
  else (if coords_fitb cs && diffs_fitb 0 (map fst (glyf_points cs)) && diffs_fitb 0 (map snd (glyf_points cs))
           && has_empty_contour cs
        then Panic else Reject).
Proof.
  intros p cs Hne. destruct cs as [|c cs]; [congruence|]. rewrite simple_glyph_cons. cbv zeta.
  set (l := c :: cs) in *. unfold outline_checksb.
  destruct (coords_fitb l) eqn:C; cbn [negb andb]; [|reflexivity].
  destruct (diffs_fitb 0 (map fst (glyf_points l))) eqn:Dx; cbn [negb andb]; [|reflexivity].
  destruct (diffs_fitb 0 (map snd (glyf_points l))) eqn:Dy; cbn [negb andb]; [|reflexivity].
  destruct (has_empty_contour l) eqn:E; cbn [negb andb]; [reflexivity|].
  destruct (65535 <? zlen (glyf_points l)) eqn:N.
  - assert ((zlen (glyf_points l) <=? 65535) = false) as N' by lia. rewrite N'. reflexivity.
  - assert ((zlen (glyf_points l) <=? 65535) = true) as N' by lia. rewrite N'.
    destruct (32767 <=? zlen l); [reflexivity|].
    rewrite (end_pts_exact p _ 0).
    + cbn [bind]. rewrite (deltas_fit_eq p _ 0 Dx). cbn [bind]. rewrite (deltas_fit_eq p _ 0 Dy). reflexivity.
    + lia.
    + now apply no_empty_lens.
    + rewrite <- glyf_points_len. lia.
Qed.

Lemma simple_glyph_profile_indep : forall cs, simple_glyph Debug cs = simple_glyph Release cs.
Proof.
  intros [|c cs]; [reflexivity|]. rewrite !simple_glyph_eq by discriminate. reflexivity.
Qed.

Lemma canonical_faithful : forall cs, cs <> [] -> coords_fitb cs = true -> outline_faithful cs (canonical_simple cs).
Proof.
  intros cs Hne C. destruct cs as [|c cs]; [congruence|]. cbn [outline_faithful].
  eexists. split; [reflexivity|]. unfold decode_simple. cbn [so_dx so_dy so_ends so_bbox].
  rewrite !undeltas_diff_list, combine_fst_snd, (coords_fit_points _ C). auto.
Qed.

(* whatever any profile writes for an outline is faithful: never clamped, never wrapped *)
Lemma simple_glyph_emit_faithful : forall p cs o, simple_glyph p cs = Emit o -> outline_faithful cs o.
Proof.
  intros p cs o H. destruct cs as [|c cs]; [cbn in *; now inversion H|].
  rewrite simple_glyph_eq in H by discriminate.
  destruct (outline_checksb (c :: cs)) eqn:K.
  - destruct (32767 <=? zlen (c :: cs)); [discriminate|]. inversion H; subst o.
    apply canonical_faithful; [discriminate|]. now destruct (outline_checks_split _ K).
  - destruct (_ && _); discriminate.
Qed.

(* the seam between two contours: an emitted outline has had the step from the last
   emitted point of a contour to the first emitted point of the next one checked *)
Lemma simple_glyph_emit_checks : forall p cs o, cs <> [] -> simple_glyph p cs = Emit o -> outline_checksb cs = true.
Proof.
  intros p cs o Hne H. rewrite simple_glyph_eq in H by assumption.
  destruct (outline_checksb cs); [reflexivity|]. destruct (_ && _); discriminate.
Qed.

Lemma seam_step_checked : forall p (before : list contour) c1 c2 after o q2 r2,
  simple_glyph p (before ++ c1 :: c2 :: after) = Emit o ->
  map round_pt (emit_order c2) = q2 :: r2 ->
  let prev := glyf_points (before ++ [c1]) in
  fits_i16 (fst q2 - List.last (map fst prev) 0) = true /\
  fits_i16 (snd q2 - List.last (map snd prev) 0) = true.
Proof.
  intros p before c1 c2 after o q2 r2 H E prev.
  assert (before ++ c1 :: c2 :: after <> []) as Hne by (destruct before; discriminate).
  pose proof (simple_glyph_emit_checks _ _ _ Hne H) as K.
  destruct (outline_checks_split _ K) as [_ [Dx [Dy _]]].
  assert (glyf_points (before ++ c1 :: c2 :: after) = prev ++ q2 :: (r2 ++ glyf_points after)) as G.
  { unfold prev, glyf_points.
    replace (before ++ c1 :: c2 :: after) with ((before ++ [c1]) ++ c2 :: after) by (rewrite <- app_assoc; reflexivity).
    rewrite flat_map_app. cbn [flat_map]. rewrite E. reflexivity. }
  rewrite G, map_app in Dx, Dy. cbn [map] in Dx, Dy.
  split; [exact (diffs_fitb_seam _ _ _ _ Dx)|exact (diffs_fitb_seam _ _ _ _ Dy)].
Qed.

(* every point of every contour of an emitted outline fits: the coordinate check looks at
   all points, whatever their kind *)
Lemma emit_points_fit : forall p cs o, simple_glyph p cs = Emit o ->
  forall c q, In c cs -> In q c -> pt_fitsb q = true.
Proof.
  intros p cs o H c q Hc Hq. destruct cs as [|c0 cs]; [contradiction|].
  assert (c0 :: cs <> []) as Hne by discriminate.
  pose proof (simple_glyph_emit_checks _ _ _ Hne H) as K.
  destruct (outline_checks_split _ K) as [C _]. unfold coords_fitb in C.
  rewrite forallb_forall in C. specialize (C c Hc). rewrite forallb_forall in C. now apply C.
Qed.

(* the same for contours whose points carry their kind (true = on the curve, false = an
   off-curve control point): the kind is irrelevant, control points are checked too *)
Lemma emit_flagged_points_fit : forall p (fcs : list (list (pt * bool))) o,
  simple_glyph p (map (map fst) fcs) = Emit o ->
  forall fc q on, In fc fcs -> In (q, on) fc -> pt_fitsb q = true.
Proof.
  intros p fcs o H fc q on Hc Hq. eapply emit_points_fit; [exact H| |].
  - apply in_map. exact Hc.
  - change q with (fst (q, on)). apply in_map. exact Hq.
Qed.

(* an outline that glyf cannot hold is refused by both profiles *)
Lemma simple_glyph_unfit_rejected : forall p cs, cs <> [] -> outline_checksb cs = false -> emitted (simple_glyph p cs) = false.
Proof.
  intros p cs Hne K. rewrite simple_glyph_eq by assumption. rewrite K. destruct (_ && _); reflexivity.
Qed.

(* ... and one it can hold (and write-fonts can write: fewer than 32767 contours) is emitted *)
Lemma simple_glyph_fit_emitted : forall p cs, cs <> [] -> outline_checksb cs = true -> zlen cs < 32767 ->
  simple_glyph p cs = Emit (canonical_simple cs).
Proof.
  intros p cs Hne K N. rewrite simple_glyph_eq by assumption. rewrite K.
  assert ((32767 <=? zlen cs) = false) as N' by lia. now rewrite N'.
Qed.

(* ---- components ------------------------------------------------------------------------- *)
Lemma overflows_false : forall a b c d e f, overflows_2x2 (a, b, c, d, e, f) = false ->
  ((-2 <= a /\ a <= 2) /\ (-2 <= b /\ b <= 2) /\ (-2 <= c /\ c <= 2) /\ (-2 <= d /\ d <= 2))%Q.
Proof.
  intros a b c d e f H. unfold overflows_2x2 in H. apply negb_false_iff in H. cbn in H.
  rewrite !andb_true_iff in H. destruct H as [Ha [Hb [Hc [Hd _]]]].
  rewrite <- !in_2x2_range_iff. auto.
Qed.

(* a component that passes the range test is written within one 2.14 quantum per
   entry; its offsets are exact when they fit *)
Lemma emit_component_faithful : forall gid t,
  overflows_2x2 t = false -> offset_fitsb (gid, t) = true -> comp_faithful (gid, t) (emit_component gid t).
Proof.
  intros gid [[[[[a b] c] d] e] f] Ho Hf.
  apply overflows_false in Ho. destruct Ho as [[A1 A2] [[B1 B2] [[C1 C2] [D1 D2]]]].
  unfold offset_fitsb in Hf. cbn [snd] in Hf. apply andb_true_iff in Hf. destruct Hf as [He Hf'].
  unfold comp_faithful, emit_component. cbn [snd fst co_m co_gid co_dx co_dy].
  repeat split; try (now apply ot_round_i16_exact_iff); unfold q_close; now apply f2dot14_close.
Qed.

Lemma composite_bbox_fits : forall parts, bbox_fitsb (composite_bbox_exact parts) = true ->
  composite_bbox parts = composite_bbox_exact parts.
Proof.
  intros parts H. unfold composite_bbox, composite_bbox_exact in *.
  destruct (flat_map _ parts) as [|[x y] t]; [reflexivity|].
  unfold bbox_fitsb in H. rewrite !andb_true_iff in H. destruct H as [[[H1 H2] H3] H4].
  unfold ot_round_i16. f_equal; [f_equal; [f_equal|]|]; now apply sat_i16_id_iff.
Qed.

Lemma decomposes_false : forall comps ct, decomposes comps = false -> In ct comps -> overflows_2x2 (snd ct) = false.
Proof.
  intros comps ct H Hin. unfold decomposes in H.
  destruct (overflows_2x2 (snd ct)) eqn:E; [|reflexivity].
  assert (existsb (fun ct0 => overflows_2x2 (snd ct0)) comps = true) by (apply existsb_exists; eauto). congruence.
Qed.

(* the decomposition fallback: every contour of the replacement outline is a contour
   of a referenced glyph under the (unquantised) source transform, possibly with its
   direction reversed (mirrored components) *)
Lemma transform_contour_shape : forall t c,
  transform_contour t c = map (apply_aff t) c \/ transform_contour t c = emit_order (map (apply_aff t) c).
Proof. intros t c. unfold transform_contour. destruct (Qlt_le_dec (aff_det t) 0); auto. Qed.

Lemma decompose_in : forall glyphs comps c,
  In c (decompose glyphs comps) <->
  exists ct base, In ct comps /\ In base (base_contours glyphs (fst ct)) /\ c = transform_contour (snd ct) base.
Proof.
  intros glyphs comps c. unfold decompose. rewrite in_flat_map. split.
  - intros [ct [Hc H]]. apply in_map_iff in H. destruct H as [base [E Hb]]. exists ct, base. auto.
  - intros [ct [base [Hc [Hb E]]]]. exists ct. split; [exact Hc|]. apply in_map_iff. exists base. auto.
Qed.

(* ---- one glyph ------------------------------------------------------------------------------ *)
Lemma build_glyph_composite : forall p glyphs a h ct comps,
  build_glyph p glyphs (SrcComposite a h (ct :: comps)) =
  (let l := ct :: comps in
   if decomposes l then simple_glyph p (decompose glyphs l)
   else if forallb offset_fitsb l then Emit (emit_composite glyphs l) else Reject).
Proof. reflexivity. Qed.

Lemma kept_components_faithful : forall l,
  decomposes l = false -> forallb offset_fitsb l = true ->
  Forall2 comp_faithful l (map (fun ct => emit_component (fst ct) (snd ct)) l).
Proof.
  intros l D Hoff.
  assert (forall ct, In ct l -> overflows_2x2 (snd ct) = false) as K
    by (intros; eapply decomposes_false; eauto).
  rewrite forallb_forall in Hoff. clear D.
  induction l as [|ct l IH]; cbn [map]; constructor.
  - destruct ct as [gid t]. apply emit_component_faithful; [apply (K (gid, t)); now left|apply Hoff; now left].
  - apply IH; intros; [apply Hoff|apply K]; now right.
Qed.

(* whatever any profile writes for a glyph is faithful, given only that the box of a
   kept composite fits (the one remaining saturating step at glyph level) *)
Lemma build_glyph_emit_faithful : forall p glyphs g o,
  glyph_knownb glyphs g = true -> build_glyph p glyphs g = Emit o -> glyph_faithful glyphs g o.
Proof.
  intros p glyphs g o Hc H. destruct g as [a h cs|a h comps].
  - cbn in *. eapply simple_glyph_emit_faithful; eauto.
  - destruct comps as [|ct0 comps]; [cbn in *; now inversion H|].
    rewrite build_glyph_composite in H. cbv zeta in H.
    set (l := ct0 :: comps) in *.
    assert (glyph_faithful glyphs (SrcComposite a h l) o =
            if decomposes l then outline_faithful (decompose glyphs l) o
            else exists outs b, o = GComposite outs b /\ Forall2 comp_faithful l outs /\
                                b = composite_bbox_exact (parts_of glyphs l)) as V by reflexivity.
    rewrite V. unfold glyph_knownb in Hc. fold l in Hc.
    destruct (decomposes l) eqn:D.
    + eapply simple_glyph_emit_faithful; eauto.
    + destruct (forallb offset_fitsb l) eqn:Hoff; [|discriminate]. inversion H; subst o.
      unfold emit_composite. eexists. eexists. split; [reflexivity|]. split.
      * now apply kept_components_faithful.
      * apply composite_bbox_fits. exact Hc.
Qed.

Lemma build_glyph_profile_indep : forall glyphs g, build_glyph Debug glyphs g = build_glyph Release glyphs g.
Proof.
  intros glyphs [a h cs|a h comps].
  - apply simple_glyph_profile_indep.
  - destruct comps as [|ct comps]; [reflexivity|]. rewrite !build_glyph_composite. cbv zeta.
    destruct (decomposes (ct :: comps)); [apply simple_glyph_profile_indep|reflexivity].
Qed.

Lemma refines_build_glyph : forall glyphs g, refines (build_glyph Debug glyphs g) (build_glyph Release glyphs g).
Proof. intros. right. apply build_glyph_profile_indep. Qed.
