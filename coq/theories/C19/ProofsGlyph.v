(* C19 — lemmas about glyf entries: outlines, components, the decomposition
   fallback, flattening. *)
From Coq Require Import List ZArith QArith Qround Qabs Bool Lia Lqa.
From Coq Require Import ZifyBool.
From FV.C19 Require Import Model ProofsSites Spec.
Import ListNotations.
Ltac Zify.zify_post_hook ::= Z.div_mod_to_equations.
Open Scope Z_scope.

(* ---- emission order -------------------------------------------------------------- *)
Lemma emit_order_rev : forall p r, emit_order (p :: r) = p :: rev r.
Proof. intros p r. cbn. now rewrite <- rev_alt. Qed.

Lemma emit_order_involutive : forall c, emit_order (emit_order c) = c.
Proof.
  intros [|p r]; [reflexivity|]. rewrite emit_order_rev, emit_order_rev. now rewrite rev_involutive.
Qed.

Lemma emit_order_length : forall c, length (emit_order c) = length c.
Proof. intros [|p r]; [reflexivity|]. rewrite emit_order_rev. cbn. now rewrite rev_length. Qed.

Lemma emit_order_in : forall c p, In p (emit_order c) <-> In p c.
Proof.
  intros [|q r] p; [reflexivity|]. rewrite emit_order_rev. cbn. now rewrite <- in_rev.
Qed.

Lemma emit_order_map : forall {B} (f : pt -> B) c,
  map f (emit_order c) = match map f c with [] => [] | x :: r => x :: rev r end.
Proof. intros B f [|p r]; [reflexivity|]. rewrite emit_order_rev. cbn. now rewrite map_rev. Qed.

Lemma emit_order_map_aff : forall t c, emit_order (map (apply_aff t) c) = map (apply_aff t) (emit_order c).
Proof.
  intros t [|p r]; [reflexivity|]. cbn [map]. rewrite !emit_order_rev. cbn [map]. now rewrite map_rev.
Qed.

(* ---- points ------------------------------------------------------------------------ *)
Lemma combine_fst_snd : forall {A B} (l : list (A * B)), combine (map fst l) (map snd l) = l.
Proof. intros A B. induction l as [|[a b] l IH]; cbn; [reflexivity|now rewrite IH]. Qed.

Lemma round_pt_exact : forall p, pt_fitsb p = true -> round_pt p = exact_pt p.
Proof.
  intros p H. unfold pt_fitsb in H. apply andb_true_iff in H. destruct H as [H1 H2].
  unfold round_pt, exact_pt. f_equal; now apply ot_round_i16_exact_iff.
Qed.

Lemma outline_ok_points : forall cs, outline_okb cs = true -> glyf_points cs = exact_points cs.
Proof.
  intros cs H. unfold outline_okb in H. apply andb_true_iff in H. destruct H as [H _].
  unfold glyf_points, exact_points. induction cs as [|c cs IH]; [reflexivity|].
  cbn [forallb] in H. apply andb_true_iff in H. destruct H as [Hc H].
  apply andb_true_iff in Hc. destruct Hc as [_ Hc].
  cbn [flat_map]. rewrite (IH H). f_equal.
  apply map_ext_in. intros p Hp. apply round_pt_exact.
  apply (proj1 (emit_order_in _ _)) in Hp. rewrite forallb_forall in Hc. now apply Hc.
Qed.

Lemma outline_ok_lens : forall cs, outline_okb cs = true ->
  Forall (fun n => 1 <= n) (map (fun c => zlen c) cs) /\ zsum (map (fun c => zlen c) cs) <= 65535.
Proof.
  intros cs H. unfold outline_okb in H. apply andb_true_iff in H. destruct H as [H S].
  split; [|lia]. clear S. induction cs as [|c cs IH]; [constructor|].
  cbn [forallb] in H. apply andb_true_iff in H. destruct H as [Hc H].
  apply andb_true_iff in Hc. destruct Hc as [Hc _]. cbn [map]. constructor; [lia|now apply IH].
Qed.

(* ---- the glyf entry of an outline ----------------------------------------------------- *)
Lemma simple_glyph_cons : forall p c cs,
  simple_glyph p (c :: cs) =
  (if 32767 <=? zlen (c :: cs) then Panic else
   ends <- end_pts p 0 (map (fun c => zlen c) (c :: cs)) ;;
   dx <- deltas p 0 (map fst (glyf_points (c :: cs))) ;;
   dy <- deltas p 0 (map snd (glyf_points (c :: cs))) ;;
   Emit (GSimple {| so_ends := ends; so_dx := dx; so_dy := dy; so_bbox := bbox_of (glyf_points (c :: cs)) |})).
Proof. reflexivity. Qed.

Lemma end_pts_debug_fit : forall lens cur e, end_pts Debug cur lens = Emit e -> ends_fitb cur lens = true.
Proof.
  induction lens as [|n t IH]; intros cur e He; cbn in *; [reflexivity|].
  apply bind_emit in He. destruct He as [e1 [E1 He]].
  apply bind_emit in He. destruct He as [r [E2 He]].
  apply arith_debug_emit in E1. destruct E1 as [_ E1]. rewrite E1. cbn. eapply IH; eauto.
Qed.

(* what a debug build writes, when it writes anything *)
Lemma simple_glyph_debug : forall cs o, simple_glyph Debug cs = Emit o ->
  match cs with
  | [] => o = GEmpty
  | _ => exists so, o = GSimple so /\ decode_simple so = glyf_points cs /\
                    so_bbox so = bbox_of (glyf_points cs) /\
                    end_pts Debug 0 (map (fun c => zlen c) cs) = Emit (so_ends so) /\
                    outline_arithb cs = true
  end.
Proof.
  intros cs o H. destruct cs as [|c cs].
  { cbn in H. inversion H. reflexivity. }
  set (l := c :: cs) in *.
  assert (simple_glyph Debug l =
       (if 32767 <=? zlen l then Panic else
        ends <- end_pts Debug 0 (map (fun c => zlen c) l) ;;
        dx <- deltas Debug 0 (map fst (glyf_points l)) ;;
        dy <- deltas Debug 0 (map snd (glyf_points l)) ;;
        Emit (GSimple {| so_ends := ends; so_dx := dx; so_dy := dy; so_bbox := bbox_of (glyf_points l) |}))) as U
      by reflexivity.
  rewrite U in H. clear U.
  destruct (32767 <=? zlen l); [discriminate|].
  apply bind_emit in H. destruct H as [ends [He H]].
  apply bind_emit in H. destruct H as [dx [Hx H]].
  apply bind_emit in H. destruct H as [dy [Hy H]]. inversion H; subst o.
  destruct (deltas_debug_exact _ _ _ Hx) as [Ux [Fx _]].
  destruct (deltas_debug_exact _ _ _ Hy) as [Uy [Fy _]].
  eexists. split; [reflexivity|]. unfold decode_simple. cbn [so_ends so_dx so_dy so_bbox].
  rewrite Ux, Uy, combine_fst_snd. repeat split; try assumption.
  unfold outline_arithb. rewrite Fx, Fy, !andb_true_r. eapply end_pts_debug_fit; eauto.
Qed.

Lemma end_pts_fit : forall p lens cur, ends_fitb cur lens = true ->
  end_pts p cur lens = end_pts Debug cur lens /\ emitted (end_pts Debug cur lens) = true.
Proof.
  intros p. induction lens as [|n t IH]; intros cur H; cbn in *; [auto|].
  apply andb_true_iff in H. destruct H as [H1 H2]. unfold sub_u16.
  rewrite !(arith_fits _ _ _ _ H1). cbn. destruct (IH _ H2) as [E1 E2]. rewrite E1.
  destruct (end_pts Debug (cur + n) t); cbn in *; auto; discriminate.
Qed.

Lemma end_pts_release_total : forall lens cur, exists e, end_pts Release cur lens = Emit e.
Proof.
  induction lens as [|n t IH]; intros cur; cbn; [eauto|].
  destruct (arith_release_total fits_u16 wrap_u16 (wrap_u16 (cur + n) - 1)) as [e He].
  unfold sub_u16. rewrite He. cbn. destruct (IH (cur + n)) as [r Hr]. rewrite Hr. cbn. eauto.
Qed.

(* a source whose casts all fit: the debug build writes the faithful entry or nothing *)
Lemma outline_debug_faithful : forall cs o,
  outline_okb cs = true -> simple_glyph Debug cs = Emit o -> outline_faithful cs o.
Proof.
  intros cs o Hok H. pose proof (simple_glyph_debug cs o H) as D.
  destruct cs as [|c cs]; [exact D|]. cbn [outline_faithful].
  destruct D as [so [E [Hd [Hb [He _]]]]]. exists so.
  rewrite <- (outline_ok_points _ Hok). repeat split; try assumption.
  destruct (outline_ok_lens _ Hok) as [L S].
  rewrite (end_pts_exact Debug _ 0) in He by (try assumption; lia). now inversion He.
Qed.

(* ... and every profile writes it when, in addition, the differences and counts fit *)
Lemma outline_fits_faithful : forall p cs,
  outline_okb cs = true -> zlen cs < 32767 -> outline_arithb cs = true ->
  exists o, simple_glyph p cs = Emit o /\ simple_glyph Debug cs = Emit o /\ outline_faithful cs o.
Proof.
  intros p cs Hok Hn Ha.
  assert (forall p', exists o, simple_glyph p' cs = Emit o /\
            (forall p'', simple_glyph p'' cs = Emit o)) as K.
  { intro p'. destruct cs as [|c cs]; [exists GEmpty; split; [reflexivity|intro; reflexivity]|].
    set (l := c :: cs) in *.
    unfold outline_arithb in Ha. apply andb_true_iff in Ha. destruct Ha as [Ha Fy].
    apply andb_true_iff in Ha. destruct Ha as [Fe Fx].
    destruct (outline_ok_lens _ Hok) as [L S].
    assert (forall q, simple_glyph q l =
       (if 32767 <=? zlen l then Panic else
        ends <- end_pts q 0 (map (fun c => zlen c) l) ;;
        dx <- deltas q 0 (map fst (glyf_points l)) ;;
        dy <- deltas q 0 (map snd (glyf_points l)) ;;
        Emit (GSimple {| so_ends := ends; so_dx := dx; so_dy := dy; so_bbox := bbox_of (glyf_points l) |}))) as U
      by (intro q; reflexivity).
    assert ((32767 <=? zlen l) = false) as Hn' by lia.
    destruct (deltas_fit Debug _ 0 Fx) as [dx [Ex _]].
    destruct (deltas_fit Debug _ 0 Fy) as [dy [Ey _]].
    exists (GSimple {| so_ends := cum_ends 0 (map (fun c => zlen c) l); so_dx := dx; so_dy := dy;
                       so_bbox := bbox_of (glyf_points l) |}).
    assert (forall q, simple_glyph q l = Emit (GSimple {| so_ends := cum_ends 0 (map (fun c => zlen c) l); so_dx := dx; so_dy := dy;
                       so_bbox := bbox_of (glyf_points l) |})) as All.
    { intro q. rewrite U, Hn'. rewrite (end_pts_exact q _ 0) by (try assumption; lia). cbn [bind].
      destruct (proj2 (deltas_agree_iff _ 0) Fx). destruct (proj2 (deltas_agree_iff _ 0) Fy).
      destruct q.
      - rewrite Ex. cbn [bind]. rewrite Ey. reflexivity.
      - rewrite <- (proj2 (deltas_agree_iff _ 0) Fx), Ex. cbn [bind].
        rewrite <- (proj2 (deltas_agree_iff _ 0) Fy), Ey. reflexivity. }
    split; [apply All|exact All]. }
  destruct (K p) as [o [E All]]. exists o. split; [exact E|]. split; [apply All|].
  apply outline_debug_faithful; [exact Hok|apply All].
Qed.

Lemma refines_simple_glyph : forall cs, refines (simple_glyph Debug cs) (simple_glyph Release cs).
Proof.
  intros [|c cs]; [apply refines_refl|]. rewrite !simple_glyph_cons.
  destruct (32767 <=? zlen (c :: cs)); [apply refines_refl|].
  apply refines_bind; [apply refines_end_pts|]. intro.
  apply refines_bind; [apply refines_deltas|]. intro.
  apply refines_bind; [apply refines_deltas|]. intro. apply refines_refl.
Qed.

(* debug and release write the same entry exactly when no narrow arithmetic overflows *)
Lemma simple_glyph_agree_iff : forall cs, cs <> [] -> zlen cs < 32767 ->
  (simple_glyph Debug cs = simple_glyph Release cs <-> outline_arithb cs = true).
Proof.
  intros cs Hne Hn. split.
  - intro E.
    assert (exists o, simple_glyph Release cs = Emit o) as [o R].
    { destruct cs as [|c cs]; [congruence|]. rewrite simple_glyph_cons.
      assert ((32767 <=? zlen (c :: cs)) = false) as Hn' by lia. rewrite Hn'.
      destruct (end_pts_release_total (map (fun c0 => zlen c0) (c :: cs)) 0) as [e He]. rewrite He. cbn [bind].
      destruct (deltas_release_total (map fst (glyf_points (c :: cs))) 0) as [dx [Hx _]]. rewrite Hx. cbn [bind].
      destruct (deltas_release_total (map snd (glyf_points (c :: cs))) 0) as [dy [Hy _]]. rewrite Hy. cbn [bind].
      eauto. }
    rewrite R in E. pose proof (simple_glyph_debug cs o E) as D.
    destruct cs as [|c cs]; [congruence|]. now destruct D as [so [_ [_ [_ [_ A]]]]].
  - intro A. destruct cs as [|c cs]; [congruence|].
    pose proof A as A'. unfold outline_arithb in A. apply andb_true_iff in A. destruct A as [A Fy].
    apply andb_true_iff in A. destruct A as [Fe Fx]. rewrite !simple_glyph_cons.
    destruct (32767 <=? zlen (c :: cs)); [reflexivity|].
    destruct (end_pts_fit Release _ _ Fe) as [E1 _]. rewrite E1.
    rewrite <- (proj2 (deltas_agree_iff _ 0) Fx), <- (proj2 (deltas_agree_iff _ 0) Fy). reflexivity.
Qed.

(* ---- components ------------------------------------------------------------------------- *)
Lemma overflows_false : forall a b c d e f, overflows_2x2 (a, b, c, d, e, f) = false ->
  ((-2 <= a /\ a <= 2) /\ (-2 <= b /\ b <= 2) /\ (-2 <= c /\ c <= 2) /\ (-2 <= d /\ d <= 2))%Q.
Proof.
  intros a b c d e f H. unfold overflows_2x2 in H. apply negb_false_iff in H. cbn in H.
  rewrite !andb_true_iff in H. destruct H as [Ha [Hb [Hc [Hd _]]]].
  rewrite <- !in_2x2_range_iff. auto.
Qed.

(* a component that passes the range test is written within one 2.14 quantum per
   entry; its offsets are exact when they fit *)
Lemma emit_component_faithful : forall gid t,
  overflows_2x2 t = false -> offset_fitsb (gid, t) = true -> comp_faithful (gid, t) (emit_component gid t).
Proof.
  intros gid [[[[[a b] c] d] e] f] Ho Hf.
  apply overflows_false in Ho. destruct Ho as [[A1 A2] [[B1 B2] [[C1 C2] [D1 D2]]]].
  unfold offset_fitsb in Hf. cbn [snd] in Hf. apply andb_true_iff in Hf. destruct Hf as [He Hf'].
  unfold comp_faithful, emit_component. cbn [snd fst co_m co_gid co_dx co_dy].
  repeat split; try (now apply ot_round_i16_exact_iff); unfold q_close; now apply f2dot14_close.
Qed.

Lemma composite_bbox_fits : forall parts, bbox_fitsb (composite_bbox_exact parts) = true ->
  composite_bbox parts = composite_bbox_exact parts.
Proof.
  intros parts H. unfold composite_bbox, composite_bbox_exact in *.
  destruct (flat_map _ parts) as [|[x y] t]; [reflexivity|].
  unfold bbox_fitsb in H. rewrite !andb_true_iff in H. destruct H as [[[H1 H2] H3] H4].
  unfold ot_round_i16. f_equal; [f_equal; [f_equal|]|]; now apply sat_i16_id_iff.
Qed.

Lemma decomposes_false : forall comps ct, decomposes comps = false -> In ct comps -> overflows_2x2 (snd ct) = false.
Proof.
  intros comps ct H Hin. unfold decomposes in H.
  destruct (overflows_2x2 (snd ct)) eqn:E; [|reflexivity].
  assert (existsb (fun ct0 => overflows_2x2 (snd ct0)) comps = true) by (apply existsb_exists; eauto). congruence.
Qed.

(* the decomposition fallback: every contour of the replacement outline is a contour
   of a referenced glyph under the (unquantised) source transform, possibly with its
   direction reversed (mirrored components) *)
Lemma transform_contour_shape : forall t c,
  transform_contour t c = map (apply_aff t) c \/ transform_contour t c = emit_order (map (apply_aff t) c).
Proof. intros t c. unfold transform_contour. destruct (Qlt_le_dec (aff_det t) 0); auto. Qed.

Lemma decompose_in : forall glyphs comps c,
  In c (decompose glyphs comps) <->
  exists ct base, In ct comps /\ In base (base_contours glyphs (fst ct)) /\ c = transform_contour (snd ct) base.
Proof.
  intros glyphs comps c. unfold decompose. rewrite in_flat_map. split.
  - intros [ct [Hc H]]. apply in_map_iff in H. destruct H as [base [E Hb]]. exists ct, base. auto.
  - intros [ct [base [Hc [Hb E]]]]. exists ct. split; [exact Hc|]. apply in_map_iff. exists base. auto.
Qed.

(* ---- one glyph ------------------------------------------------------------------------------ *)
Lemma build_glyph_debug_faithful : forall glyphs g o,
  glyph_castsb glyphs g = true -> build_glyph Debug glyphs g = Emit o -> glyph_faithful glyphs g o.
Proof.
  intros glyphs g o Hc H. destruct g as [a h cs|a h comps].
  - cbn in *. now apply outline_debug_faithful.
  - destruct comps as [|ct0 comps]; [cbn in *; now inversion H|].
    set (l := ct0 :: comps) in *.
    assert (build_glyph Debug glyphs (SrcComposite a h l) =
            if decomposes l then simple_glyph Debug (decompose glyphs l) else Emit (emit_composite glyphs l)) as U by reflexivity.
    assert (glyph_faithful glyphs (SrcComposite a h l) o =
            if decomposes l then outline_faithful (decompose glyphs l) o
            else exists outs b, o = GComposite outs b /\ Forall2 comp_faithful l outs /\
                                b = composite_bbox_exact (parts_of glyphs l)) as V by reflexivity.
    rewrite V. rewrite U in H. unfold glyph_castsb in Hc. fold l in Hc.
    destruct (decomposes l) eqn:D.
    + now apply outline_debug_faithful.
    + apply andb_true_iff in Hc. destruct Hc as [Hoff Hbb]. inversion H; subst o.
      unfold emit_composite. eexists. eexists. split; [reflexivity|]. split.
      * clear -D Hoff. assert (forall ct, In ct l -> overflows_2x2 (snd ct) = false) as K
          by (intros; eapply decomposes_false; eauto).
        rewrite forallb_forall in Hoff. clear D.
        induction l as [|ct l IH]; cbn [map]; constructor.
        -- destruct ct as [gid t]. apply emit_component_faithful; [apply (K (gid, t)); now left|apply Hoff; now left].
        -- apply IH; intros; [apply Hoff|apply K]; now right.
      * apply composite_bbox_fits. exact Hbb.
Qed.

Lemma refines_build_glyph : forall glyphs g, refines (build_glyph Debug glyphs g) (build_glyph Release glyphs g).
Proof.
  intros glyphs [a h cs|a h comps]; cbn.
  - apply refines_simple_glyph.
  - destruct comps; [apply refines_refl|].
    destruct (existsb _ _); [apply refines_simple_glyph|apply refines_refl].
Qed.
