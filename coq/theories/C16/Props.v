(* C16 — property theorems.  Statements only; proofs are in the Proofs*.v files.

   Vocabulary (FV.C16.Model unless noted):
     rule = (region, submap): condition sets (boxes over normalized coordinates in 1/U units) and
       the substitutions; rules_wf: boxes built by NBox::insert, maps are maps (any number of condition sets per rule, also none;
       any number of rules);
     overlay_feature_variations / compile_rules: the model of the code (fontir overlay;
       plus ConditionSets, lookups sorted by content, ConditionSet-keyed records);
     first_match items p: the first box of the overlay containing location p;
     font_apply f q g: what a shaper does with glyph g at location q: first matching
       FeatureVariationRecord, its lookups in lookup-list order;
     active_maps rules p: the substitution maps of the rules with a condition set containing p, in
       rule order;  spec_apply rules p g = those maps applied one after the other
       (designspaceLib.processRules): "what the source rules specify there";
     exclusive U rules p: on no axis does p sit on a lower edge of one condition and on an upper
       edge of another (the ends -U / U of the designspace count as lower / upper edge);
     compatible L: no glyph gets two different replacements from L and no replacement is replaced
       again: exactly when the order of application cannot matter. *)
From Coq Require Import List NArith ZArith Bool Lia.
From FV.C16 Require Import Model Proofs.
Import ListNotations.

Definition exclusive (U : Z) (rules : list rule) (p : point) : Prop :=
  forall a, lo_edge U rules a (p a) -> hi_edge U rules a (p a) -> False.

(* ---- the overlay ------------------------------------------------------------------------ *)

(* The overlay returns (no index out of bounds) whatever the boxes are and however many rules there
   are: Rank is a correct set of rule indices of any size. *)
Theorem overlay_total : forall U rules,
  rules_wf U rules -> exists items, overlay_feature_variations U rules = Ok items.
Proof. intros U rules Hwf. exact (overlay_no_panic U rules Hwf). Qed.
Print Assumptions overlay_total.

(* Soundness at EVERY location of the designspace (edges included): a map listed for an output box
   belongs to a rule (after merging equal rules) that fires at every location of the box. *)
Theorem overlay_sound : forall U rules items,
  rules_wf U rules ->
  overlay_feature_variations U rules = Ok items ->
  forall b maps, In (b, maps) items ->
  forall q, in_dom U q -> in_boxb q b = true ->
  forall s, In s maps -> In s (active_maps (preflight U rules) q).
Proof.
  intros U rules items Hwf. exact (ProofsPipeline.overlay_sound U rules Hwf items).
Qed.
Print Assumptions overlay_sound.

(* Completeness and priority: at every location that is not on a lower and an upper edge at once,
   the FIRST output box containing the location lists exactly the (merged) rules firing there, in
   rule order; and no box contains the location when no rule fires.  Any number of rules, axes, boxes
   per rule (none included), overlapping / nested / partially overlapping / open-ended / degenerate
   boxes. *)
Theorem first_match_is_active : forall U rules p,
  rules_wf U rules -> in_dom U p -> exclusive U rules p ->
  exists items, overlay_feature_variations U rules = Ok items /\
    first_match items p = match active_maps (preflight U rules) p with [] => None | l => Some l end.
Proof. intros U rules p Hwf Hd Hex. exact (overlay_first_match U rules Hwf p Hd Hex). Qed.
Print Assumptions first_match_is_active.

(* Merging rules with equal substitutions / equal regions does not change what is substituted at a
   location, provided the rules firing there do not interfere. *)
Theorem preflight_keeps_substitutions : forall U rules p,
  rules_wf U rules -> in_dom U p -> compatible (active_maps rules p) ->
  forall g, apply_seq (active_maps (preflight U rules) p) g = spec_apply rules p g.
Proof.
  intros U rules p Hwf Hd Hc g. unfold spec_apply. symmetry. apply apply_seq_ext; [|exact Hc].
  intros g' x'. symmetry. now apply preflight_binds.
Qed.
Print Assumptions preflight_keeps_substitutions.

(* Rules with one and the same region (after normalisation: whatever the order of the condition sets
   and whatever conditions cover a whole axis) become one rule; in it a glyph is replaced by what the
   EARLIEST of these rules says ("earlier rules taking precedence"), for every rule list. *)
Theorem same_region_earlier_rule_wins : forall U rules r' s',
  (forall r, In r rules -> keys_sorted (snd r)) ->
  In (r', s') (merge_same_region_rules U rules) ->
  forall g, kv_find s' g = region_lookup U rules r' g.
Proof. exact msr_earlier_wins. Qed.
Print Assumptions same_region_earlier_rule_wins.

(* instance: rules 0 and 2 have the same region, written differently, and replace glyph 0 by 1 and
   by 3; rule 1 lies elsewhere.  Inside the region glyph 0 becomes 1, and rule 2's other replacement
   is kept. *)
Example same_region_conflict_resolved :
  applied (overlay_feature_variations 16 rules_same_region) (at1 8) = [[(0%N, 1%N); (2%N, 3%N)]] /\
  spec_apply rules_same_region (at1 8) 0%N = 1%N.
Proof. destruct rules_same_region_fine as [_ [_ [_ [H1 [H2 _]]]]]. now split. Qed.

(* When the maps do not interfere, any two lists with the same substitutions act the same: the order
   (rule order, or lookup order by content) and repetitions are irrelevant. *)
Theorem order_irrelevant_when_compatible : forall L1 L2,
  compatible L1 -> (forall g x, binds L1 g x <-> binds L2 g x) -> forall g, apply_seq L1 g = apply_seq L2 g.
Proof. intros L1 L2 Hc He. now apply apply_seq_ext. Qed.
Print Assumptions order_irrelevant_when_compatible.

(* The overlay as a whole against the source rules. *)
Theorem overlay_applies_source_rules : forall U rules p,
  rules_wf U rules -> in_dom U p -> exclusive U rules p ->
  compatible (active_maps rules p) ->
  exists items, overlay_feature_variations U rules = Ok items /\
    forall g, apply_seq (match first_match items p with Some l => l | None => [] end) g = spec_apply rules p g.
Proof. intros U rules p Hwf Hd Hex Hc. exact (overlay_correct U rules Hwf p Hd Hex Hc). Qed.
Print Assumptions overlay_applies_source_rules.

(* ---- the compiled table ------------------------------------------------------------------- *)

(* THE PROPERTY, for the model of the whole pipeline, on the F2Dot14 grid (U = 16384 = 1.0): the
   substitutions a shaper applies at a location equal what the source rules specify there.
   Hypotheses, each one necessary (see the counterexamples below): no two output
   boxes with the same ConditionSet; the location is inside every axis' range, and not on a lower and
   an upper edge at once; the rules firing at the location do not interfere. *)
Theorem font_applies_source_rules : forall env rules p f,
  rules_wf UQ rules ->
  env_inj env -> no_collision UQ env rules ->
  in_dom UQ p -> in_axes env p -> exclusive UQ rules p ->
  compatible (active_maps rules p) ->
  compile_rules UQ env rules = Ok f ->
  forall g, font_apply f (qpoint_of env p) g = spec_apply rules p g.
Proof.
  intros env rules p f Hwf Hinj Hnc Hd Hax Hex Hc Hcomp.
  exact (font_correct env rules Hwf Hinj Hnc p Hd Hax Hex Hc f Hcomp).
Qed.
Print Assumptions font_applies_source_rules.

(* A condition on the SOURCE that excludes ConditionSet collisions: conditions are bounded by the
   designspace, and none spells out the whole normalized range of its axis (a condition exactly
   (-1, 1) is harmless: cleanup removes it). *)
Theorem no_collision_without_full_range_conditions : forall env rules,
  rules_wf UQ rules -> env_inj env ->
  (forall c a r, In c (all_boxes rules) -> In (a, r) c -> (fst r <= UQ /\ - UQ <= snd r)%Z) ->
  (forall c a r0 ai, In c (all_boxes rules) -> In (a, r0) c -> In (a, ai) env ->
     r0 <> full_range UQ -> ~ (fst r0 <= ax_minq ai /\ ax_maxq ai <= snd r0)%Z) ->
  no_collision UQ env rules.
Proof.
  intros env rules Hwf Hinj Hb Hc. exact (no_collision_source env rules Hwf Hinj Hb Hc).
Qed.
Print Assumptions no_collision_without_full_range_conditions.

(* The hypotheses are satisfiable: two overlapping rules on two axes, one of them with two condition
   sets, a location inside both. *)
Definition ex_rules : list rule :=
  [([[(2%N, (4096, 16384)%Z)]; [(3%N, (12288, 16384)%Z)]], [(0%N, 1%N)]);
   ([[(2%N, (-8192, 8192)%Z); (3%N, (4096, 16384)%Z)]], [(2%N, 3%N)])].
Definition ex_p : point := at2 6144 8192.

Example font_applies_source_rules_nonvacuous :
  exists f, compile_rules UQ env2 ex_rules = Ok f /\
    length (fv_records f) = 5%nat /\
    active_maps ex_rules ex_p = [[(0%N, 1%N)]; [(2%N, 3%N)]] /\
    forall g, font_apply f (qpoint_of env2 ex_p) g = spec_apply ex_rules ex_p g.
Proof.
  destruct (compile_rules UQ env2 ex_rules) as [f| |] eqn:E; try (vm_compute in E; discriminate).
  exists f. split; [reflexivity|]. split; [pose proof E as E'; vm_compute in E'; inversion E'; reflexivity|]. split; [reflexivity|].
  apply (font_applies_source_rules env2 ex_rules ex_p f); try exact E.
  - apply rules_wfb_ok. reflexivity.
  - intros a1 i1 a2 i2 H1 H2 Hi. cbn in H1, H2.
    destruct H1 as [H1|[H1|[]]], H2 as [H2|[H2|[]]]; inversion H1; inversion H2; subst; cbn in Hi; congruence.
  - (* through the source-level condition *)
    apply no_collision_without_full_range_conditions.
    + apply rules_wfb_ok. reflexivity.
    + intros a1 i1 a2 i2 H1 H2 Hi. cbn in H1, H2.
      destruct H1 as [H1|[H1|[]]], H2 as [H2|[H2|[]]]; inversion H1; inversion H2; subst; cbn in Hi; congruence.
    + apply boundedb_ok. reflexivity.
    + apply no_coverb_ok. reflexivity.
  - intros a. unfold ex_p, at2, UQ. destruct (a =? 2)%N, (a =? 3)%N; lia.
  - intros a ai H. cbn in H. destruct H as [H|[H|[]]]; inversion H; subst; cbn; lia.
  - unfold exclusive. apply exclusiveb_ok. reflexivity.
  - apply compatibleb_ok. reflexivity.
Qed.

(* ---- the conversion of a condition set, and the repaired situations --------------------------- *)

(* The NBox built from the conditions of one condition set (FeatureVariationsProvider::new) holds
   exactly where ALL its conditions hold, also when an axis occurs more than once (a range written
   as a minimum and a maximum condition). *)
Theorem condition_set_box_is_conjunction : forall U l p, in_dom U p ->
  (in_box U p (box_of_conditions U l) <-> Forall (cond_holds p) l).
Proof. exact box_of_conditions_conjunction. Qed.
Print Assumptions condition_set_box_is_conjunction.

(* More than 64 rules (two-word ranks), both former failure modes; a rule without condition set in
   the middle of the list; instances of the theorems above, computed. *)
Example sixty_five_rules :
  length rules65 = 65%nat /\ applied (overlay_feature_variations 1000 rules65) (at1 12) = active_maps rules65 (at1 12) /\
  length rules65b = 65%nat /\ applied (overlay_feature_variations 1000 rules65b) (at1 50) = active_maps rules65b (at1 50).
Proof.
  destruct rules65_fine as [_ [H1 [H2 H3]]]. destruct rules65b_fine as [_ [H4 [_ [_ [H5 H6]]]]].
  rewrite H2, H3, H5, H6. repeat split; assumption.
Qed.

Example rule_without_condition_set_is_inert :
  applied (overlay_feature_variations 16 rules_empty) (at1 6) = active_maps rules_empty (at1 6).
Proof. destruct rules_empty_fine as [_ [_ [H1 [H2 _]]]]. now rewrite H1, H2. Qed.

(* ---- where the statement fails: counterexamples (each also re-observed on the real code) -------- *)

(* A location where one condition ends and another begins (wght <= x and wght >= x at wght = x):
   both rules fire by the source, the overlay treats the touching boxes as disjoint. *)
Theorem touching_edges_refuted :
  exists U rules p, rules_wf U rules /\ in_dom U p /\ compatible (active_maps rules p) /\
    exists items, overlay_feature_variations U rules = Ok items /\
      exists g, apply_seq (match first_match items p with Some l => l | None => [] end) g <> spec_apply rules p g.
Proof.
  exists 16%Z, rules_touch, (at1 0). destruct rules_touch_wrong as [H1 [H2 [_ [H3 H4]]]].
  split; [now apply rules_wfb_ok|]. split; [intros a; unfold at1; lia|]. split; [now apply compatibleb_ok|].
  unfold applied in H3. destruct (overlay_feature_variations 16 rules_touch) as [items| |] eqn:E; try (vm_compute in E; discriminate).
  exists items. split; [reflexivity|]. exists 0%N. rewrite H3. unfold spec_apply. rewrite H4. vm_compute. discriminate.
Qed.
Print Assumptions touching_edges_refuted.

(* Two different output boxes with one ConditionSet (a condition spelling out the full range of an
   axis whose default is at its minimum is dropped): the record of the higher-priority box is
   replaced, a rule never fires. *)
Theorem condset_collision_refuted :
  exists env rules p f, rules_wf UQ rules /\ env_inj env /\ in_dom UQ p /\ in_axes env p /\
    exclusive UQ rules p /\ compatible (active_maps rules p) /\ compile_rules UQ env rules = Ok f /\
    exists g, font_apply f (qpoint_of env p) g <> spec_apply rules p g.
Proof.
  exists env2, rules_coll, (at2 14336 8192). destruct rules_coll_wrong as [H1 [H2 [H3 [H4 H5]]]].
  unfold font_gives in H4. destruct (compile_rules 16384 env2 rules_coll) as [f| |] eqn:E; try discriminate.
  exists f. split; [now apply rules_wfb_ok|]. split.
  { intros a1 i1 a2 i2 Ha Hb Hi. cbn in Ha, Hb.
    destruct Ha as [Ha|[Ha|[]]], Hb as [Hb|[Hb|[]]]; inversion Ha; inversion Hb; subst; cbn in Hi; congruence. }
  split; [intros a; unfold at2, UQ; destruct (a =? 2)%N, (a =? 3)%N; lia|]. split.
  { intros a ai H. cbn in H. destruct H as [H|[H|[]]]; inversion H; subst; cbn; lia. }
  split; [unfold exclusive; now apply exclusiveb_ok|]. split; [now apply compatibleb_ok|]. split; [exact E|].
  exists 2%N. injection H4 as H4'. rewrite H4', H5. discriminate.
Qed.
Print Assumptions condset_collision_refuted.

(* Rule order is not lookup order: lookups are sorted by content.  (a) two firing rules replace the
   same glyph: the LATER rule wins; (b) one firing rule replaces the result of another: they are
   chained in content order, not rule order. *)
Theorem later_rule_wins_refuted :
  exists env rules p f, rules_wf UQ rules /\ exclusive UQ rules p /\ compile_rules UQ env rules = Ok f /\
    exists g, font_apply f (qpoint_of env p) g <> spec_apply rules p g.
Proof.
  exists env2, rules_conflict, (at2 14336 12288). destruct rules_conflict_wrong as [H1 [H2 [_ [H4 H5]]]].
  unfold font_gives in H4. destruct (compile_rules 16384 env2 rules_conflict) as [f| |] eqn:E; try discriminate.
  exists f. split; [now apply rules_wfb_ok|]. split; [unfold exclusive; now apply exclusiveb_ok|]. split; [exact E|].
  exists 0%N. injection H4 as H4'. rewrite H4', H5. discriminate.
Qed.
Print Assumptions later_rule_wins_refuted.

Theorem chained_rules_order_refuted :
  exists env rules p f, rules_wf UQ rules /\ exclusive UQ rules p /\ compile_rules UQ env rules = Ok f /\
    exists g, font_apply f (qpoint_of env p) g <> spec_apply rules p g.
Proof.
  exists env2, rules_chain, (at2 0 12288). destruct rules_chain_wrong as [H1 [H2 [_ [H4 H5]]]].
  unfold font_gives in H4. destruct (compile_rules 16384 env2 rules_chain) as [f| |] eqn:E; try discriminate.
  exists f. split; [now apply rules_wfb_ok|]. split; [unfold exclusive; now apply exclusiveb_ok|]. split; [exact E|].
  exists 0%N. injection H4 as H4'. rewrite H4', H5. discriminate.
Qed.
Print Assumptions chained_rules_order_refuted.
