(* C16 — from the overlay's boxes to GSUB: ConditionSets, lookups, records, and how a
   shaper reads them. *)
From Coq Require Import List NArith ZArith Bool Lia Sorted Permutation.
From Coq Require Import ZifyBool ZifyN ZifyNat.
From FV.C16 Require Import Model ProofsBox ProofsSubs ProofsPreflight.
Import ListNotations.
Ltac Zify.zify_post_hook ::= Z.div_mod_to_equations.

(* ---- F2Dot14 on the grid -------------------------------------------------------- *)
Definition UQ : Z := 16384.

Lemma f2dot14_grid z : f2dot14 UQ z = Z.max (-32768) (Z.min 32767 z).
Proof.
  unfold f2dot14, UQ. destruct (Z.leb_spec 0 z).
  - replace ((2 * (z * 16384) + 16384) / (2 * 16384))%Z with z by lia. reflexivity.
  - replace ((- 2 * (z * 16384) + 16384) / (2 * 16384))%Z with (- z)%Z by lia. now rewrite Z.opp_involutive.
Qed.

(* ---- generic list helpers --------------------------------------------------------- *)
Lemma map_opt_Forall2 {A B} (f : A -> option B) l r : map_opt f l = Some r -> Forall2 (fun x y => f x = Some y) l r.
Proof.
  revert r. induction l as [|x t IH]; intros r; cbn [map_opt].
  - intros H; inversion H; constructor.
  - destruct (f x) as [y|] eqn:E; [|discriminate]. destruct (map_opt f t) as [r'|]; [|discriminate].
    intros H; inversion H; subst. constructor; [exact E|now apply IH].
Qed.

Lemma dedup_N_In l x : In x (dedup_N l) <-> In x l.
Proof.
  induction l as [|a t IH]; [reflexivity|]. cbn [dedup_N]. destruct t as [|b t'].
  - reflexivity.
  - destruct (N.eqb_spec a b) as [->|Hne].
    + rewrite IH. cbn [In]. tauto.
    + cbn [In] in *. rewrite IH. tauto.
Qed.

Lemma sort_N_In l x : In x (sort_N l) <-> In x l.
Proof.
  unfold sort_N. split; apply Permutation_in; [|apply Permutation_sym]; apply stable_sort_perm_gen.
Qed.

Lemma condset_eqb_eq a b : condset_eqb a b = true <-> a = b.
Proof.
  revert b. induction a as [|[k1 r1] t1 IH]; intros [|[k2 r2] t2]; cbn [condset_eqb]; split; try discriminate; try reflexivity.
  - intros H. apply andb_true_iff in H as [H H3]. apply andb_true_iff in H as [H1 H2].
    apply N.eqb_eq in H1. apply range_eqb_eq in H2. apply IH in H3. congruence.
  - intros H. inversion H; subst. rewrite N.eqb_refl. cbn [andb]. apply andb_true_iff. split; [now apply range_eqb_eq|now apply IH].
Qed.

(* ---- records: without two equal ConditionSets nothing is replaced ------------------- *)
Lemma rec_upsert_fresh recs k v : ~ In k (map fst recs) -> rec_upsert recs k v = recs ++ [(k, v)].
Proof.
  induction recs as [|[k' v'] t IH]; cbn [rec_upsert map fst In app]; intros Hni; [reflexivity|].
  destruct (condset_eqb k k') eqn:E; [apply condset_eqb_eq in E; subst; exfalso; apply Hni; now left|].
  f_equal. apply IH. intros H. apply Hni. now right.
Qed.

Lemma build_records_nodup conds : NoDup (map fst conds) -> build_records conds = conds.
Proof.
  unfold build_records.
  assert (G : forall l acc, NoDup (map fst (acc ++ l)) ->
            fold_left (fun acc e => rec_upsert acc (fst e) (snd e)) l acc = acc ++ l).
  { induction l as [|[k v] t IH]; intros acc Hnd; cbn [fold_left fst snd]; [now rewrite app_nil_r|].
    rewrite rec_upsert_fresh.
    - rewrite IH; [now rewrite <- app_assoc|]. now rewrite <- app_assoc.
    - rewrite map_app in Hnd. cbn [map fst] in Hnd. apply NoDup_remove_2 in Hnd.
      intros H. apply Hnd. apply in_or_app. now left. }
  intros H. apply (G conds []). exact H.
Qed.

(* ---- lookups ------------------------------------------------------------------------ *)
Lemma lookup_index_spec lookups s : forall i0 i, lookup_index lookups s i0 = Some i ->
  (i0 <= i)%N /\ nth_error lookups (N.to_nat (i - i0)) = Some s.
Proof.
  induction lookups as [|x t IH]; intros i0 i; cbn [lookup_index]; [discriminate|].
  destruct (submap_eqb x s) eqn:E.
  - intros H; inversion H; subst. apply submap_eqb_eq in E. subst x. split; [lia|].
    replace (N.to_nat (i - i)) with 0%nat by lia. reflexivity.
  - intros H. apply IH in H as [Hle Hn]. split; [lia|].
    replace (N.to_nat (i - i0)) with (S (N.to_nat (i - N.succ i0))) by lia. exact Hn.
Qed.

Definition select_lookups (lookups : list submap) (idx : list N) : list submap :=
  flat_map (fun i => match nth_error lookups (N.to_nat i) with Some m => [m] | None => [] end) (dedup_N (sort_N idx)).

Lemma select_lookups_In lookups maps idx m :
  Forall2 (fun s i => lookup_index lookups s 0%N = Some i) maps idx ->
  In m (select_lookups lookups idx) <-> In m maps.
Proof.
  intros HF. unfold select_lookups. rewrite in_flat_map. split.
  - intros [i [Hi Hm]]. rewrite dedup_N_In, sort_N_In in Hi.
    assert (Hs : exists s, In s maps /\ lookup_index lookups s 0%N = Some i).
    { clear Hm. revert Hi. induction HF as [|s j maps' idx' Hsj HF' IH]; intros Hi; [destruct Hi|].
      cbn [In] in Hi. destruct Hi as [Hi|Hi]; [subst j; exists s; split; [now left|exact Hsj]|].
      destruct (IH Hi) as [s' [Hs' Hl']]. exists s'. split; [now right|exact Hl']. }
    destruct Hs as [s [Hs Hl]]. apply lookup_index_spec in Hl as [_ Hn]. rewrite N.sub_0_r in Hn.
    rewrite Hn in Hm. destruct Hm as [<-|[]]. exact Hs.
  - intros Hm.
    assert (Hs : exists i, In i idx /\ lookup_index lookups m 0%N = Some i).
    { revert Hm. induction HF as [|s j maps' idx' Hsj HF' IH]; intros Hm; [destruct Hm|].
      cbn [In] in Hm. destruct Hm as [Hm|Hm]; [subst s; exists j; split; [now left|exact Hsj]|].
      destruct (IH Hm) as [i [Hi Hl]]. exists i. split; [now right|exact Hl]. }
    destruct Hs as [i [Hi Hl]]. exists i. split; [now rewrite dedup_N_In, sort_N_In|].
    apply lookup_index_spec in Hl as [_ Hn]. rewrite N.sub_0_r in Hn. rewrite Hn. now left.
Qed.

(* ---- ConditionSets ------------------------------------------------------------------- *)
(* the location a shaper sees: one normalized coordinate per axis index *)
Definition qpoint_of (env : axes_env) (p : point) : qpoint :=
  fun i => match find (fun e => (ax_index (snd e) =? i)%N) env with Some e => p (fst e) | None => 0%Z end.

Definition env_inj (env : axes_env) : Prop :=
  forall a1 i1 a2 i2, In (a1, i1) env -> In (a2, i2) env -> ax_index i1 = ax_index i2 -> a1 = a2.
(* the location is inside the range of every axis *)
Definition in_axes (env : axes_env) (p : point) : Prop :=
  forall a ai, In (a, ai) env -> (ax_minq ai <= p a <= ax_maxq ai)%Z.

Lemma qpoint_of_axis env p a ai : env_inj env -> In (a, ai) env -> qpoint_of env p (ax_index ai) = p a.
Proof.
  intros Hinj Hin. unfold qpoint_of.
  destruct (find (fun e => (ax_index (snd e) =? ax_index ai)%N) env) as [[a' ai']|] eqn:E.
  - apply find_some in E as [Hin' He]. cbn [fst snd] in *. apply N.eqb_eq in He.
    now rewrite (Hinj a' ai' a ai Hin' Hin He).
  - exfalso. pose proof (find_none _ _ E _ Hin) as H. cbn [snd] in H. now rewrite N.eqb_refl in H.
Qed.

Lemma sat_range (mn mx x : Z) : (- UQ <= mn)%Z -> (mx <= UQ)%Z -> (- UQ <= x <= UQ)%Z ->
  ((Z.max (-32768) (Z.min 32767 mn) <=? x)%Z && (x <=? Z.max (-32768) (Z.min 32767 mx))%Z) = in_rangeb (mn, mx) x.
Proof. unfold UQ, in_rangeb. cbn [fst snd]. intros. lia. Qed.

Lemma to_condition_set_holds env p : env_inj env -> in_axes env p -> in_dom UQ p ->
  forall b cs, wf_box UQ b -> to_condition_set UQ env b = Some cs ->
  condset_holds (qpoint_of env p) cs = in_boxb p b.
Proof.
  intros Hinj Hax Hd. induction b as [|[a [mn mx]] t IH]; intros cs Hwf; cbn [to_condition_set].
  - intros H; inversion H; subst. reflexivity.
  - destruct (kv_find env a) as [ai|] eqn:Ea; [|discriminate].
    destruct (to_condition_set UQ env t) as [rest|] eqn:Et; [|discriminate].
    assert (Hwt : wf_box UQ t).
    { destruct Hwf as [Hs Hf]. split; [unfold keys_sorted in *; cbn [map fst] in Hs; now inversion Hs|now inversion Hf]. }
    assert (Hr : wf_range UQ (mn, mx)) by (destruct Hwf as [_ Hf]; inversion Hf; assumption).
    unfold wf_range in Hr. cbn [fst snd] in Hr.
    apply kv_find_In in Ea. specialize (IH rest Hwt eq_refl).
    unfold in_boxb in *. cbn [forallb fst snd]. rewrite <- IH.
    rewrite !f2dot14_grid.
    pose proof (sat_range mn mx (p a) (proj1 Hr) (proj2 Hr) (Hd a)) as Hsat.
    destruct (range_eqb _ _) eqn:Eq.
    + intros H; inversion H; subst. apply range_eqb_eq in Eq. inversion Eq as [[E1 E2]].
      rewrite <- Hsat, E1, E2. specialize (Hax a ai Ea).
      replace ((ax_minq ai <=? p a)%Z && (p a <=? ax_maxq ai)%Z) with true by lia. reflexivity.
    + intros H; inversion H; subst. unfold condset_holds. cbn [forallb cond_holds].
      rewrite (qpoint_of_axis env p a ai Hinj Ea). rewrite Hsat. reflexivity.
Qed.
