(* C16 — boolean versions of the hypotheses of the theorems, with soundness proofs.  They are used to
   show that the hypotheses are satisfiable (Examples) and in the counterexamples. *)
From Coq Require Import List NArith ZArith Bool Lia Sorted Permutation Relations RelationClasses.
From Coq Require Import ZifyBool ZifyN ZifyNat.
From FV.C16 Require Import Model ProofsBox ProofsOverlay ProofsSubs ProofsPipeline.
Import ListNotations.

Fixpoint ascending (l : list N) : bool :=
  match l with
  | a :: (b :: _) as t => (a <? b)%N && ascending t
  | _ => true
  end.

Lemma ascending_sorted {V} (m : list (N * V)) : ascending (map fst m) = true -> keys_sorted m.
Proof.
  unfold keys_sorted. intros H. apply Sorted_StronglySorted; [intros x y z; lia|].
  induction (map fst m) as [|a t IH]; [constructor|]. destruct t as [|b t'].
  - constructor; constructor.
  - cbn [ascending] in H. apply andb_true_iff in H as [H1 H2]. constructor; [now apply IH|]. constructor. lia.
Qed.

Definition wf_boxb (U : Z) (b : box) : bool :=
  ascending (map fst b) && forallb (fun e => (- U <=? fst (snd e))%Z && (snd (snd e) <=? U)%Z) b.

Lemma wf_boxb_ok U b : wf_boxb U b = true -> wf_box U b.
Proof.
  unfold wf_boxb. intros H. apply andb_true_iff in H as [H1 H2]. split; [now apply ascending_sorted|].
  rewrite forallb_forall in H2. rewrite Forall_forall. intros e He. specialize (H2 e He). unfold wf_range.
  apply andb_true_iff in H2 as [A B]. split; apply Z.leb_le; assumption.
Qed.

Definition rules_wfb (U : Z) (rules : list rule) : bool :=
  forallb (fun r => forallb (wf_boxb U) (fst r) && ascending (map fst (snd r))) rules.

Lemma rules_wfb_ok U rules : rules_wfb U rules = true -> rules_wf U rules.
Proof.
  unfold rules_wfb, rules_wf. rewrite forallb_forall, Forall_forall. intros H r Hr. specialize (H r Hr). destruct r as [reg s]. unfold rule_wf. cbn [fst snd] in *.
  apply andb_true_iff in H as [H1 H3]. split.
  - rewrite forallb_forall in H1. rewrite Forall_forall. intros b Hb. apply wf_boxb_ok. now apply H1.
  - now apply ascending_sorted.
Qed.

(* ---- compatible ------------------------------------------------------------------ *)
Definition compatibleb (L : list submap) : bool :=
  forallb (fun m1 => forallb (fun m2 => forallb (fun e =>
     (match kv_find m2 (fst e) with Some y => (y =? snd e)%N | None => true end) &&
     ((snd e =? fst e)%N || negb (kv_mem m2 (snd e)))) m1) L) L.

Lemma compatibleb_ok L : compatibleb L = true -> compatible L.
Proof.
  unfold compatibleb. intros H g x [m1 [Hm1 Hf1]]. rewrite forallb_forall in H. specialize (H m1 Hm1).
  rewrite forallb_forall in H. apply kv_find_In in Hf1. split.
  - intros y [m2 [Hm2 Hf2]]. specialize (H m2 Hm2). rewrite forallb_forall in H. specialize (H _ Hf1).
    cbn [fst snd] in H. unfold glyph in *. rewrite Hf2 in H. lia.
  - intros Hne z [m2 [Hm2 Hf2]]. specialize (H m2 Hm2). rewrite forallb_forall in H. specialize (H _ Hf1).
    cbn [fst snd] in H. unfold kv_mem, glyph in *. rewrite Hf2 in H. lia.
Qed.

(* ---- no lower edge meets an upper edge at the location ------------------------------ *)
Definition axes_of (rules : list rule) : list axis := flat_map (map fst) (all_boxes rules).

Definition exclusive_at (U : Z) (rules : list rule) (a : axis) (x : Z) : bool :=
  negb (((x =? - U)%Z || existsb (fun c => (fst (box_get U c a) =? x)%Z) (all_boxes rules)) &&
        ((x =? U)%Z || existsb (fun c => (snd (box_get U c a) =? x)%Z) (all_boxes rules))).

Definition exclusiveb (U : Z) (rules : list rule) (p : point) : bool :=
  (0 <? U)%Z && forallb (fun a => exclusive_at U rules a (p a)) (axes_of rules).

Lemma exclusiveb_ok U rules p : exclusiveb U rules p = true ->
  forall a, lo_edge U rules a (p a) -> hi_edge U rules a (p a) -> False.
Proof.
  unfold exclusiveb. intros H a Hl Hh. apply andb_true_iff in H as [HU H]. rewrite forallb_forall in H.
  destruct (in_dec N.eq_dec a (axes_of rules)) as [Hin|Hni].
  - specialize (H a Hin). unfold exclusive_at in H. apply negb_true_iff in H. apply andb_false_iff in H as [H|H].
    + apply orb_false_iff in H as [H1 H2]. destruct Hl as [Hl|[c [Hc Hl]]]; [lia|].
      assert (existsb (fun c => (fst (box_get U c a) =? p a)%Z) (all_boxes rules) = true).
      { apply existsb_exists. exists c. split; [exact Hc|lia]. } congruence.
    + apply orb_false_iff in H as [H1 H2]. destruct Hh as [Hh|[c [Hc Hh]]]; [lia|].
      assert (existsb (fun c => (snd (box_get U c a) =? p a)%Z) (all_boxes rules) = true).
      { apply existsb_exists. exists c. split; [exact Hc|lia]. } congruence.
  - (* an axis no condition mentions: the only edges are the ends of the designspace *)
    assert (Hfull : forall c, In c (all_boxes rules) -> box_get U c a = full_range U).
    { intros c Hc. unfold box_get. destruct (kv_find c a) as [r|] eqn:E; [|reflexivity].
      exfalso. apply Hni. unfold axes_of. apply in_flat_map. exists c. split; [exact Hc|].
      apply kv_find_In in E. apply in_map_iff. now exists (a, r). }
    assert (Hlo : p a = (- U)%Z).
    { destruct Hl as [Hl|[c [Hc Hl]]]; [exact Hl|]. rewrite (Hfull c Hc) in Hl. cbn in Hl. lia. }
    assert (Hhi : p a = U).
    { destruct Hh as [Hh|[c [Hc Hh]]]; [exact Hh|]. rewrite (Hfull c Hc) in Hh. cbn in Hh. lia. }
    lia.
Qed.

(* ---- bounded conditions, no condition covering an axis' whole range ----------------------------- *)
Definition boundedb (U : Z) (rules : list rule) : bool :=
  forallb (fun c : box => forallb (fun e => (fst (snd e) <=? U)%Z && (- U <=? snd (snd e))%Z) c) (all_boxes rules).

Lemma boundedb_ok U rules : boundedb U rules = true ->
  forall c a r, In c (all_boxes rules) -> In (a, r) c -> (fst r <= U /\ - U <= snd r)%Z.
Proof.
  unfold boundedb. intros H c a r Hc Hin. rewrite forallb_forall in H. specialize (H c Hc).
  rewrite forallb_forall in H. specialize (H _ Hin). cbn [fst snd] in H.
  apply andb_true_iff in H as [A B]. split; apply Z.leb_le; assumption.
Qed.

Definition no_coverb (U : Z) (env : axes_env) (rules : list rule) : bool :=
  forallb (fun c : box => forallb (fun e => forallb (fun ea : axis * axis_info =>
      negb (fst ea =? fst e)%N || range_eqb (snd e) (full_range U) ||
      negb ((fst (snd e) <=? ax_minq (snd ea))%Z && (ax_maxq (snd ea) <=? snd (snd e))%Z)) env) c) (all_boxes rules).

Lemma no_coverb_ok U env rules : no_coverb U env rules = true ->
  forall c a r0 ai, In c (all_boxes rules) -> In (a, r0) c -> In (a, ai) env ->
    r0 <> full_range U -> ~ (fst r0 <= ax_minq ai /\ ax_maxq ai <= snd r0)%Z.
Proof.
  unfold no_coverb. intros H c a r0 ai Hc Hin Hai Hnf [H1 H2]. rewrite forallb_forall in H. specialize (H c Hc).
  rewrite forallb_forall in H. specialize (H _ Hin). rewrite forallb_forall in H. specialize (H _ Hai).
  cbn [fst snd] in H. rewrite N.eqb_refl in H. cbn [negb orb] in H.
  apply orb_true_iff in H as [H|H].
  - apply range_eqb_eq in H. contradiction.
  - apply negb_true_iff in H. apply andb_false_iff in H as [H|H]; apply Z.leb_gt in H; lia.
Qed.
