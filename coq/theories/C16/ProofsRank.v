(* C16 — Rank restricted to what at most 64 rules produce: no word or one word. *)
From Coq Require Import List NArith ZArith Bool Lia.
From Coq Require Import ZifyBool ZifyN ZifyNat.
From FV.C16 Require Import Model.
Import ListNotations.
Open Scope N_scope.

(* a rank is a set of rule indices; for at most 64 rules the code keeps it in <= 1 word *)
Definition rank_ok (r : rank) : Prop := r = [] \/ exists w, r = [w].
Definition rv (r : rank) : N := match r with [] => 0 | w :: _ => w end.
Definition rbit (r : rank) (k : nat) : bool := N.testbit (rv r) (N.of_nat k).

Lemma rank_new_ok i : (i < 64)%nat -> rank_ok (rank_new i) /\ rv (rank_new i) = 2 ^ N.of_nat i.
Proof.
  intros H. unfold rank_new. rewrite (Nat.div_small i 64) by exact H. rewrite (Nat.mod_small i 64) by exact H.
  cbn [repeat]. split; [right; eexists; reflexivity|]. cbn [rv]. rewrite N.shiftl_1_l. reflexivity.
Qed.

Lemma rbit_new i k : (i < 64)%nat -> rbit (rank_new i) k = Nat.eqb k i.
Proof.
  intros H. unfold rbit. destruct (rank_new_ok i H) as [_ ->].
  rewrite N.pow2_bits_eqb. destruct (Nat.eqb_spec k i) as [->|Hne]; [apply N.eqb_refl|].
  apply N.eqb_neq. lia.
Qed.

Lemma rank_bitor_ok a b : rank_ok a -> rank_ok b ->
  rank_ok (rank_bitor a b) /\ rv (rank_bitor a b) = N.lor (rv a) (rv b).
Proof.
  intros [->|[w ->]] [->|[v ->]]; unfold rank_bitor; cbn.
  - split; [now left|reflexivity].
  - split; [right; eexists; reflexivity|reflexivity].
  - split; [right; eexists; reflexivity|now rewrite N.lor_0_r].
  - split; [right; eexists; reflexivity|apply N.lor_comm].
Qed.

Lemma rank_bitor_assign_ok a b : rank_ok a -> rank_ok b ->
  rank_ok (rank_bitor_assign a b) /\ rv (rank_bitor_assign a b) = N.lor (rv a) (rv b).
Proof.
  intros [->|[w ->]] [->|[v ->]]; unfold rank_bitor_assign; cbn.
  - split; [now left|reflexivity].
  - split; [right; eexists; reflexivity|apply N.lor_diag].
  - split; [right; eexists; reflexivity|now rewrite N.lor_0_r].
  - split; [right; eexists; reflexivity|reflexivity].
Qed.

Lemma rbit_bitor a b k : rank_ok a -> rank_ok b -> rbit (rank_bitor a b) k = rbit a k || rbit b k.
Proof. intros Ha Hb. unfold rbit. destruct (rank_bitor_ok a b Ha Hb) as [_ ->]. apply N.lor_spec. Qed.

Lemma rbit_bitor_assign a b k : rank_ok a -> rank_ok b -> rbit (rank_bitor_assign a b) k = rbit a k || rbit b k.
Proof. intros Ha Hb. unfold rbit. destruct (rank_bitor_assign_ok a b Ha Hb) as [_ ->]. apply N.lor_spec. Qed.

Lemma rbit_nil k : rbit [] k = false.
Proof. unfold rbit. cbn [rv]. apply N.bits_0. Qed.

Lemma is_all_zeros_rv r : rank_ok r -> is_all_zeros r = (rv r =? 0).
Proof. intros [->|[w ->]]; cbn; [reflexivity|]. now rewrite andb_true_r. Qed.

(* ---- popcount ------------------------------------------------------------- *)
Definition nsubset (a b : N) : Prop := forall k, N.testbit a k = true -> N.testbit b k = true.

Lemma testbit_pos_xI p k : N.testbit (Npos p~1) (N.succ k) = N.testbit (Npos p) k.
Proof. change (Npos p~1) with (N.succ_double (Npos p)). rewrite N.succ_double_spec. apply N.testbit_odd_succ. lia. Qed.
Lemma testbit_pos_xO p k : N.testbit (Npos p~0) (N.succ k) = N.testbit (Npos p) k.
Proof. change (Npos p~0) with (N.double (Npos p)). rewrite N.double_spec. apply N.testbit_even_succ. lia. Qed.

Lemma pop_pos_pos p : 1 <= pop_pos p.
Proof. induction p; cbn [pop_pos]; lia. Qed.

Lemma nsubset_pos_tail_II p q : nsubset (Npos p~1) (Npos q~1) -> nsubset (Npos p) (Npos q).
Proof. intros H k Hk. specialize (H (N.succ k)). rewrite !testbit_pos_xI in H. auto. Qed.
Lemma nsubset_pos_tail_IO p q : nsubset (Npos p~1) (Npos q~0) -> False.
Proof. intros H. specialize (H 0). cbn in H. specialize (H eq_refl). discriminate. Qed.
Lemma nsubset_pos_tail_OI p q : nsubset (Npos p~0) (Npos q~1) -> nsubset (Npos p) (Npos q).
Proof. intros H k Hk. specialize (H (N.succ k)). rewrite testbit_pos_xO, testbit_pos_xI in H. auto. Qed.
Lemma nsubset_pos_tail_OO p q : nsubset (Npos p~0) (Npos q~0) -> nsubset (Npos p) (Npos q).
Proof. intros H k Hk. specialize (H (N.succ k)). rewrite !testbit_pos_xO in H. auto. Qed.

Lemma nsubset_pos_1 p : nsubset (Npos p) 1 -> p = xH.
Proof.
  intros H. destruct p; [| |reflexivity].
  - exfalso. assert (Hb : exists k, N.testbit (Npos p) k = true).
    { exists (N.log2 (Npos p)). apply N.bit_log2. discriminate. }
    destruct Hb as [k Hk]. specialize (H (N.succ k)). rewrite testbit_pos_xI in H. specialize (H Hk).
    change 1 with (Npos 1) in H. rewrite N.bits_above_log2 in H; [discriminate|]. cbn. lia.
  - exfalso. assert (Hb : exists k, N.testbit (Npos p) k = true).
    { exists (N.log2 (Npos p)). apply N.bit_log2. discriminate. }
    destruct Hb as [k Hk]. specialize (H (N.succ k)). rewrite testbit_pos_xO in H. specialize (H Hk).
    rewrite N.bits_above_log2 in H; [discriminate|]. cbn. lia.
Qed.

Lemma pop_subset_pos p : forall q, nsubset (Npos p) (Npos q) ->
  pop_pos p <= pop_pos q /\ (pop_pos q <= pop_pos p -> p = q).
Proof.
  induction p as [p IH|p IH|]; intros q Hs.
  - destruct q as [q|q|].
    + apply nsubset_pos_tail_II in Hs. destruct (IH q Hs) as [H1 H2]. cbn [pop_pos]. split; [lia|].
      intros H. f_equal. apply H2. lia.
    + exfalso. eapply nsubset_pos_tail_IO. exact Hs.
    + apply nsubset_pos_1 in Hs. discriminate.
  - destruct q as [q|q|].
    + apply nsubset_pos_tail_OI in Hs. destruct (IH q Hs) as [H1 H2]. cbn [pop_pos]. split; [lia|].
      intros H. lia.
    + apply nsubset_pos_tail_OO in Hs. destruct (IH q Hs) as [H1 H2]. cbn [pop_pos]. split; [lia|].
      intros H. f_equal. apply H2. lia.
    + apply nsubset_pos_1 in Hs. discriminate.
  - cbn [pop_pos]. pose proof (pop_pos_pos q). split; [lia|]. intros H'.
    destruct q as [q|q|]; cbn [pop_pos] in *; [pose proof (pop_pos_pos q); lia| |reflexivity].
    exfalso. specialize (Hs 0). cbn in Hs. specialize (Hs eq_refl). discriminate.
Qed.

Lemma pop_subset a b : nsubset a b -> popcount a <= popcount b /\ (popcount b <= popcount a -> a = b).
Proof.
  intros Hs. destruct a as [|p], b as [|q]; cbn [popcount].
  - split; [lia|reflexivity].
  - split; [lia|]. pose proof (pop_pos_pos q). lia.
  - exfalso. specialize (Hs (N.log2 (Npos p))). rewrite N.bit_log2 in Hs by discriminate.
    specialize (Hs eq_refl). rewrite N.bits_0 in Hs. discriminate.
  - destruct (pop_subset_pos p q Hs) as [H1 H2]. split; [exact H1|]. intros H. f_equal. now apply H2.
Qed.

Lemma popcount_le_64 w : (forall k, N.testbit w k = true -> k < 64) -> popcount w <= 64.
Proof.
  intros H. assert (Hs : nsubset w (N.ones 64)).
  { intros k Hk. apply N.ones_spec_low. now apply H. }
  apply pop_subset in Hs as [Hs _]. exact Hs.
Qed.

(* fewer zeros = more rules; among subsets of one set, equally few zeros = the same set *)
Lemma count_zeros_one w : count_zeros [w] = 64 - popcount w.
Proof. cbn. lia. Qed.

(* ---- reading the rule indices out of a rank ---------------------------------- *)
(* the elements of l whose position is a set bit of w *)
Fixpoint pickw (l : list submap) (w : N) : list submap :=
  match l with
  | [] => []
  | s :: t => if N.odd w then s :: pickw t (N.div2 w) else pickw t (N.div2 w)
  end.

Lemma shr1_one w : right_shift_one [w] = [N.div2 w].
Proof. unfold right_shift_one. cbn. now rewrite N.lor_0_r, N.div2_spec. Qed.

Lemma testbit_div2 w k : N.testbit (N.div2 w) k = N.testbit w (N.succ k).
Proof. now rewrite N.div2_spec, N.shiftr_spec, N.add_1_r by lia. Qed.

Lemma pickw_0 l : pickw l 0 = [].
Proof. induction l as [|s t IH]; cbn; [reflexivity|exact IH]. Qed.

Lemma expand_rank_S f (subs : list submap) r i :
  expand_rank (S f) subs r i =
  if is_all_zeros r then Ok []
  else if first_bit_is_set r then
         match nth_error subs i with
         | None => Panic
         | Some s => match expand_rank f subs (right_shift_one r) (S i) with Ok l => Ok (s :: l) | e => e end
         end
       else expand_rank f subs (right_shift_one r) (S i).
Proof. reflexivity. Qed.

Lemma expand_rank_one (subs : list submap) : forall f w i,
  w < 2 ^ N.of_nat f ->
  (forall k, N.testbit w (N.of_nat k) = true -> (i + k < length subs)%nat) ->
  expand_rank (S f) subs [w] i = Ok (pickw (skipn i subs) w).
Proof.
  induction f as [|f IH]; intros w i Hw Hb.
  - assert (w = 0) by (cbn in Hw; lia). subst w. rewrite expand_rank_S. cbn [is_all_zeros forallb N.eqb andb]. now rewrite pickw_0.
  - rewrite expand_rank_S. cbn [is_all_zeros forallb]. rewrite andb_true_r.
    destruct (N.eqb_spec w 0) as [->|Hnz]; [now rewrite pickw_0|].
    assert (Hi : (i < length subs)%nat).
    { specialize (Hb (N.to_nat (N.log2 w))). rewrite N2Nat.id in Hb. rewrite N.bit_log2 in Hb by exact Hnz.
      specialize (Hb eq_refl). lia. }
    assert (Hw2 : N.div2 w < 2 ^ N.of_nat f).
    { rewrite N.div2_div. apply N.div_lt_upper_bound; [lia|].
      replace (N.of_nat (S f)) with (N.succ (N.of_nat f)) in Hw by lia. rewrite N.pow_succ_r' in Hw. exact Hw. }
    assert (Hb2 : forall k, N.testbit (N.div2 w) (N.of_nat k) = true -> (S i + k < length subs)%nat).
    { intros k Hk. rewrite testbit_div2 in Hk. specialize (Hb (S k)).
      replace (N.of_nat (S k)) with (N.succ (N.of_nat k)) in Hb by lia. specialize (Hb Hk). lia. }
    unfold first_bit_is_set. cbn [last]. rewrite shr1_one.
    destruct (nth_error subs i) as [s|] eqn:En; [|apply nth_error_None in En; lia].
    assert (Hsk : skipn i subs = s :: skipn (S i) subs).
    { clear -En. revert i En. induction subs as [|x t IHt]; intros [|i] En; cbn in *; try discriminate.
      - now inversion En.
      - now apply IHt. }
    rewrite Hsk. cbn [pickw]. rewrite (IH (N.div2 w) (S i) Hw2 Hb2).
    destruct (N.odd w); reflexivity.
Qed.

(* the bits of a one-word rank select the substitution maps of the rules they name *)
Lemma pickw_filter (rules : list rule) (f : rule -> bool) : forall w,
  (forall k, (k < length rules)%nat -> N.testbit w (N.of_nat k) = f (nth k rules ([], []))) ->
  pickw (map snd rules) w = map snd (filter f rules).
Proof.
  induction rules as [|r t IH]; intros w H; cbn [map pickw filter]; [reflexivity|].
  assert (H0 : N.odd w = f r).
  { specialize (H 0%nat). cbn in H. rewrite <- N.bit0_odd. apply H. lia. }
  assert (Ht : forall k, (k < length t)%nat -> N.testbit (N.div2 w) (N.of_nat k) = f (nth k t ([], []))).
  { intros k Hk. rewrite testbit_div2. specialize (H (S k)). cbn [nth length] in H.
    replace (N.of_nat (S k)) with (N.succ (N.of_nat k)) in H by lia. apply H. lia. }
  rewrite H0, (IH _ Ht). destruct (f r); reflexivity.
Qed.
